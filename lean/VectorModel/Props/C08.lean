/-
C08 — SymPy expressions agree with the numeric backends on the regular domain.

`Gen/Sym` (namespace `VS`) is the compute layer as `vector._lib.SympyLib` evaluates it: `nan_to_num(e, …) = e`,
`maximum/minimum(a, b)` = the symbolic argument, `copysign(a, b) = a`, `isclose(a, b, …) = (a = b)`; `Gen/Real` (namespace `VR`) is
the numeric meaning.  For the 1222 functions that (transitively) contain none of these primitives the translator itself proves
`VS.f_eq : VS.f = VR.f`.  This file treats the other 1211 ("dirty") functions:

* one lemma `c08_<module>_<function>` per dirty non-`isclose` function (1027 lemmas): `VS.f args = VR.f args` under the hypotheses that
  make every dropped clamp / sign transfer on its call tree inactive —
  `0 ≤ tau` for τ-typed operands (`copysign(τ², τ) = τ²`, `max(τ² + |p|², 0)` inactive),
  `0 ≤ t² − |p|²` (`0 ≤ VR.lorentz_tau2.…_t …`) where `tau` is computed from `t` (`copysign(√|s|, s)`),
  `0 ≤ gamma` for the boosts by gamma, `-1 ≤ c ≤ 1` for the clamp of `deltaangle`,
  "the numeric result τ is non-negative" for `add`/`subtract` of two τ-typed operands; nothing at all for `scale` (`sign` is kept);
* one theorem `c08_<module>` per dirty module over ALL keys of its dispatch table through `eval` (36 modules; hypotheses
  `Spec.CanonTmp` on the operands whose τ is read), `↔` for the predicates;
* `isclose` (184 functions, 3 modules) is a documented difference: the symbolic `isclose` is the symbolic `==` for all keys
  (`c08_*_isclose_iff_equal`), hence the numeric `==` on the regular domain; no agreement with numeric `isclose` is claimed
  (and a witness of the difference is given);
* the clamp hypothesis of `deltaangle` and the result hypothesis of `add` are derived for the Cartesian keys (Cauchy–Schwarz / triangle
  inequality), every hypothesis is shown satisfiable, and witnesses OUTSIDE the hypotheses show `VS.f ≠ VR.f` (negative τ, spacelike
  `(x,y,z,t)`, negative gamma): the hypotheses are needed — this is the symbolic backend's documented limitation, not a defect.

Reading: both copies model `nan_to_num` as the identity (`Prim/Real.lean`: finite values only), so the equalities say nothing about inputs
where the numeric backend replaces a NaN/∞ (division by a zero `t`, `tau`, `rho`, `sin θ`): there both sides contain the same
(meaningless) subterm, and the statements carry no information about such inputs.

The per-function part is produced by a script from `gen/index.json` (`sym_dirty`) and the call graph of `Gen/Sym`; every proof is a
one-level unfolding followed by rewriting with the callee lemmas.
-/
import VectorModel.Gen.Sym.All
import VectorModel.Spec.Basic
import Mathlib.Tactic.Ring
import Mathlib.Tactic.Linarith
import Mathlib.Tactic.Positivity
import Mathlib.Tactic.NormNum

set_option linter.unusedVariables false
set_option linter.unusedSimpArgs false
set_option maxRecDepth 4096

namespace VR
open VK Spec

/-! ### the dropped primitives are inactive on the regular domain -/

/-- `copysign(a, b) = a` when both are non-negative. -/
theorem c08_copysign_nonneg {a b : ℝ} (ha : 0 ≤ a) (hb : 0 ≤ b) : VR.P.copysign a b = a := by
  unfold VR.P.copysign; rw [if_pos hb, abs_of_nonneg ha]

/-- `copysign(τ², τ) = τ²` for `0 ≤ τ`. -/
theorem c08_copysign_sq {b : ℝ} (hb : 0 ≤ b) : VR.P.copysign (b ^ 2) b = b ^ 2 :=
  c08_copysign_nonneg (sq_nonneg b) hb

/-- if the numeric result of `copysign(a, b)` (`0 ≤ a`) is non-negative, the sign transfer was inactive. -/
theorem c08_copysign_of_result_nonneg {a b : ℝ} (ha : 0 ≤ a) (h : 0 ≤ VR.P.copysign a b) :
    VR.P.copysign a b = a := by
  unfold VR.P.copysign at h ⊢
  split_ifs at h ⊢ with hb
  · exact abs_of_nonneg ha
  · rw [abs_of_nonneg ha] at h ⊢; linarith

theorem c08_copysign_sqrt_abs {s : ℝ} (hs : 0 ≤ s) : VR.P.copysign (Real.sqrt |s|) s = Real.sqrt |s| :=
  c08_copysign_nonneg (Real.sqrt_nonneg _) hs

/-- the clamp `max(-1, min(1, c))` is inactive for `-1 ≤ c ≤ 1` -/
theorem c08_clamp {c : ℝ} (h1 : -1 ≤ c) (h2 : c ≤ 1) : max (-(1:ℝ)) (min (1:ℝ) c) = c := by
  rw [min_eq_right h2, max_eq_right h1]


/-- `copysign(τ², τ) ≥ 0` only for `τ ≥ 0` -/
theorem c08_nonneg_of_copysign_sq {b : ℝ} (h : 0 ≤ VR.P.copysign (b ^ 2) b) : 0 ≤ b := by
  by_contra hb
  unfold VR.P.copysign at h
  rw [if_neg hb, abs_of_nonneg (sq_nonneg b)] at h
  have hb' : b < 0 := not_le.mp hb
  nlinarith [mul_pos_of_neg_of_neg hb' hb']

/-! ### `lorentz_tau` -/

theorem c08_lorentz_tau_rhophi_eta_t (rho phi eta t : ℝ) (hs : 0 ≤ VR.lorentz_tau2.rhophi_eta_t rho phi eta t) :
    VS.lorentz_tau.rhophi_eta_t rho phi eta t = VR.lorentz_tau.rhophi_eta_t rho phi eta t := by
  simp only [VS.lorentz_tau.rhophi_eta_t, VR.lorentz_tau.rhophi_eta_t, VS.lorentz_tau2.rhophi_eta_t_eq, hs, VR.P.nanToNum_eq]
  exact (c08_copysign_sqrt_abs hs).symm

theorem c08_lorentz_tau_rhophi_eta_t_of_result (rho phi eta t : ℝ) (h : 0 ≤ VR.lorentz_tau.rhophi_eta_t rho phi eta t) :
    VS.lorentz_tau.rhophi_eta_t rho phi eta t = VR.lorentz_tau.rhophi_eta_t rho phi eta t := by
  simp only [VS.lorentz_tau.rhophi_eta_t, VR.lorentz_tau.rhophi_eta_t, VS.lorentz_tau2.rhophi_eta_t_eq] at h ⊢
  exact (c08_copysign_of_result_nonneg (Real.sqrt_nonneg _) h).symm

theorem c08_lorentz_tau_rhophi_theta_t (rho phi theta t : ℝ) (hs : 0 ≤ VR.lorentz_tau2.rhophi_theta_t rho phi theta t) :
    VS.lorentz_tau.rhophi_theta_t rho phi theta t = VR.lorentz_tau.rhophi_theta_t rho phi theta t := by
  simp only [VS.lorentz_tau.rhophi_theta_t, VR.lorentz_tau.rhophi_theta_t, VS.lorentz_tau2.rhophi_theta_t_eq, hs, VR.P.nanToNum_eq]
  exact (c08_copysign_sqrt_abs hs).symm

theorem c08_lorentz_tau_rhophi_theta_t_of_result (rho phi theta t : ℝ) (h : 0 ≤ VR.lorentz_tau.rhophi_theta_t rho phi theta t) :
    VS.lorentz_tau.rhophi_theta_t rho phi theta t = VR.lorentz_tau.rhophi_theta_t rho phi theta t := by
  simp only [VS.lorentz_tau.rhophi_theta_t, VR.lorentz_tau.rhophi_theta_t, VS.lorentz_tau2.rhophi_theta_t_eq] at h ⊢
  exact (c08_copysign_of_result_nonneg (Real.sqrt_nonneg _) h).symm

theorem c08_lorentz_tau_rhophi_z_t (rho phi z t : ℝ) (hs : 0 ≤ VR.lorentz_tau2.rhophi_z_t rho phi z t) :
    VS.lorentz_tau.rhophi_z_t rho phi z t = VR.lorentz_tau.rhophi_z_t rho phi z t := by
  simp only [VS.lorentz_tau.rhophi_z_t, VR.lorentz_tau.rhophi_z_t, VS.lorentz_tau2.rhophi_z_t_eq, hs, VR.P.nanToNum_eq]
  exact (c08_copysign_sqrt_abs hs).symm

theorem c08_lorentz_tau_rhophi_z_t_of_result (rho phi z t : ℝ) (h : 0 ≤ VR.lorentz_tau.rhophi_z_t rho phi z t) :
    VS.lorentz_tau.rhophi_z_t rho phi z t = VR.lorentz_tau.rhophi_z_t rho phi z t := by
  simp only [VS.lorentz_tau.rhophi_z_t, VR.lorentz_tau.rhophi_z_t, VS.lorentz_tau2.rhophi_z_t_eq] at h ⊢
  exact (c08_copysign_of_result_nonneg (Real.sqrt_nonneg _) h).symm

theorem c08_lorentz_tau_xy_eta_t (x y eta t : ℝ) (hs : 0 ≤ VR.lorentz_tau2.xy_eta_t x y eta t) :
    VS.lorentz_tau.xy_eta_t x y eta t = VR.lorentz_tau.xy_eta_t x y eta t := by
  simp only [VS.lorentz_tau.xy_eta_t, VR.lorentz_tau.xy_eta_t, VS.lorentz_tau2.xy_eta_t_eq, hs, VR.P.nanToNum_eq]
  exact (c08_copysign_sqrt_abs hs).symm

theorem c08_lorentz_tau_xy_eta_t_of_result (x y eta t : ℝ) (h : 0 ≤ VR.lorentz_tau.xy_eta_t x y eta t) :
    VS.lorentz_tau.xy_eta_t x y eta t = VR.lorentz_tau.xy_eta_t x y eta t := by
  simp only [VS.lorentz_tau.xy_eta_t, VR.lorentz_tau.xy_eta_t, VS.lorentz_tau2.xy_eta_t_eq] at h ⊢
  exact (c08_copysign_of_result_nonneg (Real.sqrt_nonneg _) h).symm

theorem c08_lorentz_tau_xy_theta_t (x y theta t : ℝ) (hs : 0 ≤ VR.lorentz_tau2.xy_theta_t x y theta t) :
    VS.lorentz_tau.xy_theta_t x y theta t = VR.lorentz_tau.xy_theta_t x y theta t := by
  simp only [VS.lorentz_tau.xy_theta_t, VR.lorentz_tau.xy_theta_t, VS.lorentz_tau2.xy_theta_t_eq, hs, VR.P.nanToNum_eq]
  exact (c08_copysign_sqrt_abs hs).symm

theorem c08_lorentz_tau_xy_theta_t_of_result (x y theta t : ℝ) (h : 0 ≤ VR.lorentz_tau.xy_theta_t x y theta t) :
    VS.lorentz_tau.xy_theta_t x y theta t = VR.lorentz_tau.xy_theta_t x y theta t := by
  simp only [VS.lorentz_tau.xy_theta_t, VR.lorentz_tau.xy_theta_t, VS.lorentz_tau2.xy_theta_t_eq] at h ⊢
  exact (c08_copysign_of_result_nonneg (Real.sqrt_nonneg _) h).symm

theorem c08_lorentz_tau_xy_z_t (x y z t : ℝ) (hs : 0 ≤ VR.lorentz_tau2.xy_z_t x y z t) :
    VS.lorentz_tau.xy_z_t x y z t = VR.lorentz_tau.xy_z_t x y z t := by
  simp only [VS.lorentz_tau.xy_z_t, VR.lorentz_tau.xy_z_t, VS.lorentz_tau2.xy_z_t_eq, hs, VR.P.nanToNum_eq]
  exact (c08_copysign_sqrt_abs hs).symm

theorem c08_lorentz_tau_xy_z_t_of_result (x y z t : ℝ) (h : 0 ≤ VR.lorentz_tau.xy_z_t x y z t) :
    VS.lorentz_tau.xy_z_t x y z t = VR.lorentz_tau.xy_z_t x y z t := by
  simp only [VS.lorentz_tau.xy_z_t, VR.lorentz_tau.xy_z_t, VS.lorentz_tau2.xy_z_t_eq] at h ⊢
  exact (c08_copysign_of_result_nonneg (Real.sqrt_nonneg _) h).symm


/-! ### `lorentz_tau2` -/

theorem c08_lorentz_tau2_rhophi_eta_tau (rho phi eta tau : ℝ) (htau : 0 ≤ tau) :
    VS.lorentz_tau2.rhophi_eta_tau rho phi eta tau = VR.lorentz_tau2.rhophi_eta_tau rho phi eta tau := by
  simp only [VS.lorentz_tau2.rhophi_eta_tau, VR.lorentz_tau2.rhophi_eta_tau]; exact (c08_copysign_sq htau).symm

theorem c08_lorentz_tau2_rhophi_theta_tau (rho phi theta tau : ℝ) (htau : 0 ≤ tau) :
    VS.lorentz_tau2.rhophi_theta_tau rho phi theta tau = VR.lorentz_tau2.rhophi_theta_tau rho phi theta tau := by
  simp only [VS.lorentz_tau2.rhophi_theta_tau, VR.lorentz_tau2.rhophi_theta_tau]; exact (c08_copysign_sq htau).symm

theorem c08_lorentz_tau2_rhophi_z_tau (rho phi z tau : ℝ) (htau : 0 ≤ tau) :
    VS.lorentz_tau2.rhophi_z_tau rho phi z tau = VR.lorentz_tau2.rhophi_z_tau rho phi z tau := by
  simp only [VS.lorentz_tau2.rhophi_z_tau, VR.lorentz_tau2.rhophi_z_tau]; exact (c08_copysign_sq htau).symm

theorem c08_lorentz_tau2_xy_eta_tau (x y eta tau : ℝ) (htau : 0 ≤ tau) :
    VS.lorentz_tau2.xy_eta_tau x y eta tau = VR.lorentz_tau2.xy_eta_tau x y eta tau := by
  simp only [VS.lorentz_tau2.xy_eta_tau, VR.lorentz_tau2.xy_eta_tau]; exact (c08_copysign_sq htau).symm

theorem c08_lorentz_tau2_xy_theta_tau (x y theta tau : ℝ) (htau : 0 ≤ tau) :
    VS.lorentz_tau2.xy_theta_tau x y theta tau = VR.lorentz_tau2.xy_theta_tau x y theta tau := by
  simp only [VS.lorentz_tau2.xy_theta_tau, VR.lorentz_tau2.xy_theta_tau]; exact (c08_copysign_sq htau).symm

theorem c08_lorentz_tau2_xy_z_tau (x y z tau : ℝ) (htau : 0 ≤ tau) :
    VS.lorentz_tau2.xy_z_tau x y z tau = VR.lorentz_tau2.xy_z_tau x y z tau := by
  simp only [VS.lorentz_tau2.xy_z_tau, VR.lorentz_tau2.xy_z_tau]; exact (c08_copysign_sq htau).symm


/-! ### `lorentz_unit` -/

theorem c08_lorentz_unit_rhophi_eta_tau (rho phi eta tau : ℝ) (htau : 0 ≤ tau) :
    VS.lorentz_unit.rhophi_eta_tau rho phi eta tau = VR.lorentz_unit.rhophi_eta_tau rho phi eta tau := by
  simp only [VS.lorentz_unit.rhophi_eta_tau, VR.lorentz_unit.rhophi_eta_tau, htau, c08_copysign_nonneg zero_le_one htau, VR.P.nanToNum_eq]

theorem c08_lorentz_unit_rhophi_theta_tau (rho phi theta tau : ℝ) (htau : 0 ≤ tau) :
    VS.lorentz_unit.rhophi_theta_tau rho phi theta tau = VR.lorentz_unit.rhophi_theta_tau rho phi theta tau := by
  simp only [VS.lorentz_unit.rhophi_theta_tau, VR.lorentz_unit.rhophi_theta_tau, htau, c08_copysign_nonneg zero_le_one htau, VR.P.nanToNum_eq]

theorem c08_lorentz_unit_rhophi_z_tau (rho phi z tau : ℝ) (htau : 0 ≤ tau) :
    VS.lorentz_unit.rhophi_z_tau rho phi z tau = VR.lorentz_unit.rhophi_z_tau rho phi z tau := by
  simp only [VS.lorentz_unit.rhophi_z_tau, VR.lorentz_unit.rhophi_z_tau, htau, c08_copysign_nonneg zero_le_one htau, VR.P.nanToNum_eq]

theorem c08_lorentz_unit_xy_eta_tau (x y eta tau : ℝ) (htau : 0 ≤ tau) :
    VS.lorentz_unit.xy_eta_tau x y eta tau = VR.lorentz_unit.xy_eta_tau x y eta tau := by
  simp only [VS.lorentz_unit.xy_eta_tau, VR.lorentz_unit.xy_eta_tau, htau, c08_copysign_nonneg zero_le_one htau, VR.P.nanToNum_eq]

theorem c08_lorentz_unit_xy_theta_tau (x y theta tau : ℝ) (htau : 0 ≤ tau) :
    VS.lorentz_unit.xy_theta_tau x y theta tau = VR.lorentz_unit.xy_theta_tau x y theta tau := by
  simp only [VS.lorentz_unit.xy_theta_tau, VR.lorentz_unit.xy_theta_tau, htau, c08_copysign_nonneg zero_le_one htau, VR.P.nanToNum_eq]

theorem c08_lorentz_unit_xy_z_tau (x y z tau : ℝ) (htau : 0 ≤ tau) :
    VS.lorentz_unit.xy_z_tau x y z tau = VR.lorentz_unit.xy_z_tau x y z tau := by
  simp only [VS.lorentz_unit.xy_z_tau, VR.lorentz_unit.xy_z_tau, htau, c08_copysign_nonneg zero_le_one htau, VR.P.nanToNum_eq]


/-! ### `planar_scale` -/

theorem c08_planar_scale_rhophi (factor rho phi : ℝ) :
    VS.planar_scale.rhophi factor rho phi = VR.planar_scale.rhophi factor rho phi := by
  simp only [VS.planar_scale.rhophi, VR.planar_scale.rhophi, VS.planar_scale.rectify_eq, VR.P.nanToNum_eq]


/-! ### `spatial_deltaangle` -/

theorem c08_spatial_deltaangle_rhophi_eta_rhophi_eta (rho1 phi1 eta1 rho2 phi2 eta2 : ℝ) (hlo : -1 ≤ VR.spatial_dot.rhophi_eta_rhophi_eta rho1 phi1 eta1 rho2 phi2 eta2 / VR.spatial_mag.rhophi_eta rho1 phi1 eta1 / VR.spatial_mag.rhophi_eta rho2 phi2 eta2) (hhi : VR.spatial_dot.rhophi_eta_rhophi_eta rho1 phi1 eta1 rho2 phi2 eta2 / VR.spatial_mag.rhophi_eta rho1 phi1 eta1 / VR.spatial_mag.rhophi_eta rho2 phi2 eta2 ≤ 1) :
    VS.spatial_deltaangle.rhophi_eta_rhophi_eta rho1 phi1 eta1 rho2 phi2 eta2 = VR.spatial_deltaangle.rhophi_eta_rhophi_eta rho1 phi1 eta1 rho2 phi2 eta2 := by
  simp only [VS.spatial_deltaangle.rhophi_eta_rhophi_eta, VR.spatial_deltaangle.rhophi_eta_rhophi_eta, VS.spatial_mag.rhophi_eta_eq, VS.spatial_dot.rhophi_eta_rhophi_eta_eq, hlo, hhi, c08_clamp hlo hhi, VR.P.nanToNum_eq]

theorem c08_spatial_deltaangle_rhophi_eta_rhophi_theta (rho1 phi1 eta1 rho2 phi2 theta2 : ℝ) (hlo : -1 ≤ VR.spatial_dot.rhophi_eta_rhophi_theta rho1 phi1 eta1 rho2 phi2 theta2 / VR.spatial_mag.rhophi_eta rho1 phi1 eta1 / VR.spatial_mag.rhophi_theta rho2 phi2 theta2) (hhi : VR.spatial_dot.rhophi_eta_rhophi_theta rho1 phi1 eta1 rho2 phi2 theta2 / VR.spatial_mag.rhophi_eta rho1 phi1 eta1 / VR.spatial_mag.rhophi_theta rho2 phi2 theta2 ≤ 1) :
    VS.spatial_deltaangle.rhophi_eta_rhophi_theta rho1 phi1 eta1 rho2 phi2 theta2 = VR.spatial_deltaangle.rhophi_eta_rhophi_theta rho1 phi1 eta1 rho2 phi2 theta2 := by
  simp only [VS.spatial_deltaangle.rhophi_eta_rhophi_theta, VR.spatial_deltaangle.rhophi_eta_rhophi_theta, VS.spatial_mag.rhophi_eta_eq, VS.spatial_mag.rhophi_theta_eq, VS.spatial_dot.rhophi_eta_rhophi_theta_eq, hlo, hhi, c08_clamp hlo hhi, VR.P.nanToNum_eq]

theorem c08_spatial_deltaangle_rhophi_eta_rhophi_z (rho1 phi1 eta1 rho2 phi2 z2 : ℝ) (hlo : -1 ≤ VR.spatial_dot.rhophi_eta_rhophi_z rho1 phi1 eta1 rho2 phi2 z2 / VR.spatial_mag.rhophi_eta rho1 phi1 eta1 / VR.spatial_mag.rhophi_z rho2 phi2 z2) (hhi : VR.spatial_dot.rhophi_eta_rhophi_z rho1 phi1 eta1 rho2 phi2 z2 / VR.spatial_mag.rhophi_eta rho1 phi1 eta1 / VR.spatial_mag.rhophi_z rho2 phi2 z2 ≤ 1) :
    VS.spatial_deltaangle.rhophi_eta_rhophi_z rho1 phi1 eta1 rho2 phi2 z2 = VR.spatial_deltaangle.rhophi_eta_rhophi_z rho1 phi1 eta1 rho2 phi2 z2 := by
  simp only [VS.spatial_deltaangle.rhophi_eta_rhophi_z, VR.spatial_deltaangle.rhophi_eta_rhophi_z, VS.spatial_mag.rhophi_eta_eq, VS.spatial_mag.rhophi_z_eq, VS.spatial_dot.rhophi_eta_rhophi_z_eq, hlo, hhi, c08_clamp hlo hhi, VR.P.nanToNum_eq]

theorem c08_spatial_deltaangle_rhophi_eta_xy_eta (rho1 phi1 eta1 x2 y2 eta2 : ℝ) (hlo : -1 ≤ VR.spatial_dot.rhophi_eta_xy_eta rho1 phi1 eta1 x2 y2 eta2 / VR.spatial_mag.rhophi_eta rho1 phi1 eta1 / VR.spatial_mag.xy_eta x2 y2 eta2) (hhi : VR.spatial_dot.rhophi_eta_xy_eta rho1 phi1 eta1 x2 y2 eta2 / VR.spatial_mag.rhophi_eta rho1 phi1 eta1 / VR.spatial_mag.xy_eta x2 y2 eta2 ≤ 1) :
    VS.spatial_deltaangle.rhophi_eta_xy_eta rho1 phi1 eta1 x2 y2 eta2 = VR.spatial_deltaangle.rhophi_eta_xy_eta rho1 phi1 eta1 x2 y2 eta2 := by
  simp only [VS.spatial_deltaangle.rhophi_eta_xy_eta, VR.spatial_deltaangle.rhophi_eta_xy_eta, VS.spatial_mag.rhophi_eta_eq, VS.spatial_mag.xy_eta_eq, VS.spatial_dot.rhophi_eta_xy_eta_eq, hlo, hhi, c08_clamp hlo hhi, VR.P.nanToNum_eq]

theorem c08_spatial_deltaangle_rhophi_eta_xy_theta (rho1 phi1 eta1 x2 y2 theta2 : ℝ) (hlo : -1 ≤ VR.spatial_dot.rhophi_eta_xy_theta rho1 phi1 eta1 x2 y2 theta2 / VR.spatial_mag.rhophi_eta rho1 phi1 eta1 / VR.spatial_mag.xy_theta x2 y2 theta2) (hhi : VR.spatial_dot.rhophi_eta_xy_theta rho1 phi1 eta1 x2 y2 theta2 / VR.spatial_mag.rhophi_eta rho1 phi1 eta1 / VR.spatial_mag.xy_theta x2 y2 theta2 ≤ 1) :
    VS.spatial_deltaangle.rhophi_eta_xy_theta rho1 phi1 eta1 x2 y2 theta2 = VR.spatial_deltaangle.rhophi_eta_xy_theta rho1 phi1 eta1 x2 y2 theta2 := by
  simp only [VS.spatial_deltaangle.rhophi_eta_xy_theta, VR.spatial_deltaangle.rhophi_eta_xy_theta, VS.spatial_mag.rhophi_eta_eq, VS.spatial_mag.xy_theta_eq, VS.spatial_dot.rhophi_eta_xy_theta_eq, hlo, hhi, c08_clamp hlo hhi, VR.P.nanToNum_eq]

theorem c08_spatial_deltaangle_rhophi_eta_xy_z (rho1 phi1 eta1 x2 y2 z2 : ℝ) (hlo : -1 ≤ VR.spatial_dot.rhophi_eta_xy_z rho1 phi1 eta1 x2 y2 z2 / VR.spatial_mag.rhophi_eta rho1 phi1 eta1 / VR.spatial_mag.xy_z x2 y2 z2) (hhi : VR.spatial_dot.rhophi_eta_xy_z rho1 phi1 eta1 x2 y2 z2 / VR.spatial_mag.rhophi_eta rho1 phi1 eta1 / VR.spatial_mag.xy_z x2 y2 z2 ≤ 1) :
    VS.spatial_deltaangle.rhophi_eta_xy_z rho1 phi1 eta1 x2 y2 z2 = VR.spatial_deltaangle.rhophi_eta_xy_z rho1 phi1 eta1 x2 y2 z2 := by
  simp only [VS.spatial_deltaangle.rhophi_eta_xy_z, VR.spatial_deltaangle.rhophi_eta_xy_z, VS.spatial_mag.rhophi_eta_eq, VS.spatial_mag.xy_z_eq, VS.spatial_dot.rhophi_eta_xy_z_eq, hlo, hhi, c08_clamp hlo hhi, VR.P.nanToNum_eq]

theorem c08_spatial_deltaangle_rhophi_theta_rhophi_eta (rho1 phi1 theta1 rho2 phi2 eta2 : ℝ) (hlo : -1 ≤ VR.spatial_dot.rhophi_theta_rhophi_eta rho1 phi1 theta1 rho2 phi2 eta2 / VR.spatial_mag.rhophi_theta rho1 phi1 theta1 / VR.spatial_mag.rhophi_eta rho2 phi2 eta2) (hhi : VR.spatial_dot.rhophi_theta_rhophi_eta rho1 phi1 theta1 rho2 phi2 eta2 / VR.spatial_mag.rhophi_theta rho1 phi1 theta1 / VR.spatial_mag.rhophi_eta rho2 phi2 eta2 ≤ 1) :
    VS.spatial_deltaangle.rhophi_theta_rhophi_eta rho1 phi1 theta1 rho2 phi2 eta2 = VR.spatial_deltaangle.rhophi_theta_rhophi_eta rho1 phi1 theta1 rho2 phi2 eta2 := by
  simp only [VS.spatial_deltaangle.rhophi_theta_rhophi_eta, VR.spatial_deltaangle.rhophi_theta_rhophi_eta, VS.spatial_mag.rhophi_theta_eq, VS.spatial_mag.rhophi_eta_eq, VS.spatial_dot.rhophi_theta_rhophi_eta_eq, hlo, hhi, c08_clamp hlo hhi, VR.P.nanToNum_eq]

theorem c08_spatial_deltaangle_rhophi_theta_rhophi_theta (rho1 phi1 theta1 rho2 phi2 theta2 : ℝ) (hlo : -1 ≤ VR.spatial_dot.rhophi_theta_rhophi_theta rho1 phi1 theta1 rho2 phi2 theta2 / VR.spatial_mag.rhophi_theta rho1 phi1 theta1 / VR.spatial_mag.rhophi_theta rho2 phi2 theta2) (hhi : VR.spatial_dot.rhophi_theta_rhophi_theta rho1 phi1 theta1 rho2 phi2 theta2 / VR.spatial_mag.rhophi_theta rho1 phi1 theta1 / VR.spatial_mag.rhophi_theta rho2 phi2 theta2 ≤ 1) :
    VS.spatial_deltaangle.rhophi_theta_rhophi_theta rho1 phi1 theta1 rho2 phi2 theta2 = VR.spatial_deltaangle.rhophi_theta_rhophi_theta rho1 phi1 theta1 rho2 phi2 theta2 := by
  simp only [VS.spatial_deltaangle.rhophi_theta_rhophi_theta, VR.spatial_deltaangle.rhophi_theta_rhophi_theta, VS.spatial_mag.rhophi_theta_eq, VS.spatial_dot.rhophi_theta_rhophi_theta_eq, hlo, hhi, c08_clamp hlo hhi, VR.P.nanToNum_eq]

theorem c08_spatial_deltaangle_rhophi_theta_rhophi_z (rho1 phi1 theta1 rho2 phi2 z2 : ℝ) (hlo : -1 ≤ VR.spatial_dot.rhophi_theta_rhophi_z rho1 phi1 theta1 rho2 phi2 z2 / VR.spatial_mag.rhophi_theta rho1 phi1 theta1 / VR.spatial_mag.rhophi_z rho2 phi2 z2) (hhi : VR.spatial_dot.rhophi_theta_rhophi_z rho1 phi1 theta1 rho2 phi2 z2 / VR.spatial_mag.rhophi_theta rho1 phi1 theta1 / VR.spatial_mag.rhophi_z rho2 phi2 z2 ≤ 1) :
    VS.spatial_deltaangle.rhophi_theta_rhophi_z rho1 phi1 theta1 rho2 phi2 z2 = VR.spatial_deltaangle.rhophi_theta_rhophi_z rho1 phi1 theta1 rho2 phi2 z2 := by
  simp only [VS.spatial_deltaangle.rhophi_theta_rhophi_z, VR.spatial_deltaangle.rhophi_theta_rhophi_z, VS.spatial_mag.rhophi_theta_eq, VS.spatial_mag.rhophi_z_eq, VS.spatial_dot.rhophi_theta_rhophi_z_eq, hlo, hhi, c08_clamp hlo hhi, VR.P.nanToNum_eq]

theorem c08_spatial_deltaangle_rhophi_theta_xy_eta (rho1 phi1 theta1 x2 y2 eta2 : ℝ) (hlo : -1 ≤ VR.spatial_dot.rhophi_theta_xy_eta rho1 phi1 theta1 x2 y2 eta2 / VR.spatial_mag.rhophi_theta rho1 phi1 theta1 / VR.spatial_mag.xy_eta x2 y2 eta2) (hhi : VR.spatial_dot.rhophi_theta_xy_eta rho1 phi1 theta1 x2 y2 eta2 / VR.spatial_mag.rhophi_theta rho1 phi1 theta1 / VR.spatial_mag.xy_eta x2 y2 eta2 ≤ 1) :
    VS.spatial_deltaangle.rhophi_theta_xy_eta rho1 phi1 theta1 x2 y2 eta2 = VR.spatial_deltaangle.rhophi_theta_xy_eta rho1 phi1 theta1 x2 y2 eta2 := by
  simp only [VS.spatial_deltaangle.rhophi_theta_xy_eta, VR.spatial_deltaangle.rhophi_theta_xy_eta, VS.spatial_mag.rhophi_theta_eq, VS.spatial_mag.xy_eta_eq, VS.spatial_dot.rhophi_theta_xy_eta_eq, hlo, hhi, c08_clamp hlo hhi, VR.P.nanToNum_eq]

theorem c08_spatial_deltaangle_rhophi_theta_xy_theta (rho1 phi1 theta1 x2 y2 theta2 : ℝ) (hlo : -1 ≤ VR.spatial_dot.rhophi_theta_xy_theta rho1 phi1 theta1 x2 y2 theta2 / VR.spatial_mag.rhophi_theta rho1 phi1 theta1 / VR.spatial_mag.xy_theta x2 y2 theta2) (hhi : VR.spatial_dot.rhophi_theta_xy_theta rho1 phi1 theta1 x2 y2 theta2 / VR.spatial_mag.rhophi_theta rho1 phi1 theta1 / VR.spatial_mag.xy_theta x2 y2 theta2 ≤ 1) :
    VS.spatial_deltaangle.rhophi_theta_xy_theta rho1 phi1 theta1 x2 y2 theta2 = VR.spatial_deltaangle.rhophi_theta_xy_theta rho1 phi1 theta1 x2 y2 theta2 := by
  simp only [VS.spatial_deltaangle.rhophi_theta_xy_theta, VR.spatial_deltaangle.rhophi_theta_xy_theta, VS.spatial_mag.rhophi_theta_eq, VS.spatial_mag.xy_theta_eq, VS.spatial_dot.rhophi_theta_xy_theta_eq, hlo, hhi, c08_clamp hlo hhi, VR.P.nanToNum_eq]

theorem c08_spatial_deltaangle_rhophi_theta_xy_z (rho1 phi1 theta1 x2 y2 z2 : ℝ) (hlo : -1 ≤ VR.spatial_dot.rhophi_theta_xy_z rho1 phi1 theta1 x2 y2 z2 / VR.spatial_mag.rhophi_theta rho1 phi1 theta1 / VR.spatial_mag.xy_z x2 y2 z2) (hhi : VR.spatial_dot.rhophi_theta_xy_z rho1 phi1 theta1 x2 y2 z2 / VR.spatial_mag.rhophi_theta rho1 phi1 theta1 / VR.spatial_mag.xy_z x2 y2 z2 ≤ 1) :
    VS.spatial_deltaangle.rhophi_theta_xy_z rho1 phi1 theta1 x2 y2 z2 = VR.spatial_deltaangle.rhophi_theta_xy_z rho1 phi1 theta1 x2 y2 z2 := by
  simp only [VS.spatial_deltaangle.rhophi_theta_xy_z, VR.spatial_deltaangle.rhophi_theta_xy_z, VS.spatial_mag.rhophi_theta_eq, VS.spatial_mag.xy_z_eq, VS.spatial_dot.rhophi_theta_xy_z_eq, hlo, hhi, c08_clamp hlo hhi, VR.P.nanToNum_eq]

theorem c08_spatial_deltaangle_rhophi_z_rhophi_eta (rho1 phi1 z1 rho2 phi2 eta2 : ℝ) (hlo : -1 ≤ VR.spatial_dot.rhophi_z_rhophi_eta rho1 phi1 z1 rho2 phi2 eta2 / VR.spatial_mag.rhophi_z rho1 phi1 z1 / VR.spatial_mag.rhophi_eta rho2 phi2 eta2) (hhi : VR.spatial_dot.rhophi_z_rhophi_eta rho1 phi1 z1 rho2 phi2 eta2 / VR.spatial_mag.rhophi_z rho1 phi1 z1 / VR.spatial_mag.rhophi_eta rho2 phi2 eta2 ≤ 1) :
    VS.spatial_deltaangle.rhophi_z_rhophi_eta rho1 phi1 z1 rho2 phi2 eta2 = VR.spatial_deltaangle.rhophi_z_rhophi_eta rho1 phi1 z1 rho2 phi2 eta2 := by
  simp only [VS.spatial_deltaangle.rhophi_z_rhophi_eta, VR.spatial_deltaangle.rhophi_z_rhophi_eta, VS.spatial_mag.rhophi_z_eq, VS.spatial_mag.rhophi_eta_eq, VS.spatial_dot.rhophi_z_rhophi_eta_eq, hlo, hhi, c08_clamp hlo hhi, VR.P.nanToNum_eq]

theorem c08_spatial_deltaangle_rhophi_z_rhophi_theta (rho1 phi1 z1 rho2 phi2 theta2 : ℝ) (hlo : -1 ≤ VR.spatial_dot.rhophi_z_rhophi_theta rho1 phi1 z1 rho2 phi2 theta2 / VR.spatial_mag.rhophi_z rho1 phi1 z1 / VR.spatial_mag.rhophi_theta rho2 phi2 theta2) (hhi : VR.spatial_dot.rhophi_z_rhophi_theta rho1 phi1 z1 rho2 phi2 theta2 / VR.spatial_mag.rhophi_z rho1 phi1 z1 / VR.spatial_mag.rhophi_theta rho2 phi2 theta2 ≤ 1) :
    VS.spatial_deltaangle.rhophi_z_rhophi_theta rho1 phi1 z1 rho2 phi2 theta2 = VR.spatial_deltaangle.rhophi_z_rhophi_theta rho1 phi1 z1 rho2 phi2 theta2 := by
  simp only [VS.spatial_deltaangle.rhophi_z_rhophi_theta, VR.spatial_deltaangle.rhophi_z_rhophi_theta, VS.spatial_mag.rhophi_z_eq, VS.spatial_mag.rhophi_theta_eq, VS.spatial_dot.rhophi_z_rhophi_theta_eq, hlo, hhi, c08_clamp hlo hhi, VR.P.nanToNum_eq]

theorem c08_spatial_deltaangle_rhophi_z_rhophi_z (rho1 phi1 z1 rho2 phi2 z2 : ℝ) (hlo : -1 ≤ VR.spatial_dot.rhophi_z_rhophi_z rho1 phi1 z1 rho2 phi2 z2 / VR.spatial_mag.rhophi_z rho1 phi1 z1 / VR.spatial_mag.rhophi_z rho2 phi2 z2) (hhi : VR.spatial_dot.rhophi_z_rhophi_z rho1 phi1 z1 rho2 phi2 z2 / VR.spatial_mag.rhophi_z rho1 phi1 z1 / VR.spatial_mag.rhophi_z rho2 phi2 z2 ≤ 1) :
    VS.spatial_deltaangle.rhophi_z_rhophi_z rho1 phi1 z1 rho2 phi2 z2 = VR.spatial_deltaangle.rhophi_z_rhophi_z rho1 phi1 z1 rho2 phi2 z2 := by
  simp only [VS.spatial_deltaangle.rhophi_z_rhophi_z, VR.spatial_deltaangle.rhophi_z_rhophi_z, VS.spatial_mag.rhophi_z_eq, VS.spatial_dot.rhophi_z_rhophi_z_eq, hlo, hhi, c08_clamp hlo hhi, VR.P.nanToNum_eq]

theorem c08_spatial_deltaangle_rhophi_z_xy_eta (rho1 phi1 z1 x2 y2 eta2 : ℝ) (hlo : -1 ≤ VR.spatial_dot.rhophi_z_xy_eta rho1 phi1 z1 x2 y2 eta2 / VR.spatial_mag.rhophi_z rho1 phi1 z1 / VR.spatial_mag.xy_eta x2 y2 eta2) (hhi : VR.spatial_dot.rhophi_z_xy_eta rho1 phi1 z1 x2 y2 eta2 / VR.spatial_mag.rhophi_z rho1 phi1 z1 / VR.spatial_mag.xy_eta x2 y2 eta2 ≤ 1) :
    VS.spatial_deltaangle.rhophi_z_xy_eta rho1 phi1 z1 x2 y2 eta2 = VR.spatial_deltaangle.rhophi_z_xy_eta rho1 phi1 z1 x2 y2 eta2 := by
  simp only [VS.spatial_deltaangle.rhophi_z_xy_eta, VR.spatial_deltaangle.rhophi_z_xy_eta, VS.spatial_mag.rhophi_z_eq, VS.spatial_mag.xy_eta_eq, VS.spatial_dot.rhophi_z_xy_eta_eq, hlo, hhi, c08_clamp hlo hhi, VR.P.nanToNum_eq]

theorem c08_spatial_deltaangle_rhophi_z_xy_theta (rho1 phi1 z1 x2 y2 theta2 : ℝ) (hlo : -1 ≤ VR.spatial_dot.rhophi_z_xy_theta rho1 phi1 z1 x2 y2 theta2 / VR.spatial_mag.rhophi_z rho1 phi1 z1 / VR.spatial_mag.xy_theta x2 y2 theta2) (hhi : VR.spatial_dot.rhophi_z_xy_theta rho1 phi1 z1 x2 y2 theta2 / VR.spatial_mag.rhophi_z rho1 phi1 z1 / VR.spatial_mag.xy_theta x2 y2 theta2 ≤ 1) :
    VS.spatial_deltaangle.rhophi_z_xy_theta rho1 phi1 z1 x2 y2 theta2 = VR.spatial_deltaangle.rhophi_z_xy_theta rho1 phi1 z1 x2 y2 theta2 := by
  simp only [VS.spatial_deltaangle.rhophi_z_xy_theta, VR.spatial_deltaangle.rhophi_z_xy_theta, VS.spatial_mag.rhophi_z_eq, VS.spatial_mag.xy_theta_eq, VS.spatial_dot.rhophi_z_xy_theta_eq, hlo, hhi, c08_clamp hlo hhi, VR.P.nanToNum_eq]

theorem c08_spatial_deltaangle_rhophi_z_xy_z (rho1 phi1 z1 x2 y2 z2 : ℝ) (hlo : -1 ≤ VR.spatial_dot.rhophi_z_xy_z rho1 phi1 z1 x2 y2 z2 / VR.spatial_mag.rhophi_z rho1 phi1 z1 / VR.spatial_mag.xy_z x2 y2 z2) (hhi : VR.spatial_dot.rhophi_z_xy_z rho1 phi1 z1 x2 y2 z2 / VR.spatial_mag.rhophi_z rho1 phi1 z1 / VR.spatial_mag.xy_z x2 y2 z2 ≤ 1) :
    VS.spatial_deltaangle.rhophi_z_xy_z rho1 phi1 z1 x2 y2 z2 = VR.spatial_deltaangle.rhophi_z_xy_z rho1 phi1 z1 x2 y2 z2 := by
  simp only [VS.spatial_deltaangle.rhophi_z_xy_z, VR.spatial_deltaangle.rhophi_z_xy_z, VS.spatial_mag.rhophi_z_eq, VS.spatial_mag.xy_z_eq, VS.spatial_dot.rhophi_z_xy_z_eq, hlo, hhi, c08_clamp hlo hhi, VR.P.nanToNum_eq]

theorem c08_spatial_deltaangle_xy_eta_rhophi_eta (x1 y1 eta1 rho2 phi2 eta2 : ℝ) (hlo : -1 ≤ VR.spatial_dot.xy_eta_rhophi_eta x1 y1 eta1 rho2 phi2 eta2 / VR.spatial_mag.xy_eta x1 y1 eta1 / VR.spatial_mag.rhophi_eta rho2 phi2 eta2) (hhi : VR.spatial_dot.xy_eta_rhophi_eta x1 y1 eta1 rho2 phi2 eta2 / VR.spatial_mag.xy_eta x1 y1 eta1 / VR.spatial_mag.rhophi_eta rho2 phi2 eta2 ≤ 1) :
    VS.spatial_deltaangle.xy_eta_rhophi_eta x1 y1 eta1 rho2 phi2 eta2 = VR.spatial_deltaangle.xy_eta_rhophi_eta x1 y1 eta1 rho2 phi2 eta2 := by
  simp only [VS.spatial_deltaangle.xy_eta_rhophi_eta, VR.spatial_deltaangle.xy_eta_rhophi_eta, VS.spatial_mag.xy_eta_eq, VS.spatial_mag.rhophi_eta_eq, VS.spatial_dot.xy_eta_rhophi_eta_eq, hlo, hhi, c08_clamp hlo hhi, VR.P.nanToNum_eq]

theorem c08_spatial_deltaangle_xy_eta_rhophi_theta (x1 y1 eta1 rho2 phi2 theta2 : ℝ) (hlo : -1 ≤ VR.spatial_dot.xy_eta_rhophi_theta x1 y1 eta1 rho2 phi2 theta2 / VR.spatial_mag.xy_eta x1 y1 eta1 / VR.spatial_mag.rhophi_theta rho2 phi2 theta2) (hhi : VR.spatial_dot.xy_eta_rhophi_theta x1 y1 eta1 rho2 phi2 theta2 / VR.spatial_mag.xy_eta x1 y1 eta1 / VR.spatial_mag.rhophi_theta rho2 phi2 theta2 ≤ 1) :
    VS.spatial_deltaangle.xy_eta_rhophi_theta x1 y1 eta1 rho2 phi2 theta2 = VR.spatial_deltaangle.xy_eta_rhophi_theta x1 y1 eta1 rho2 phi2 theta2 := by
  simp only [VS.spatial_deltaangle.xy_eta_rhophi_theta, VR.spatial_deltaangle.xy_eta_rhophi_theta, VS.spatial_mag.xy_eta_eq, VS.spatial_mag.rhophi_theta_eq, VS.spatial_dot.xy_eta_rhophi_theta_eq, hlo, hhi, c08_clamp hlo hhi, VR.P.nanToNum_eq]

theorem c08_spatial_deltaangle_xy_eta_rhophi_z (x1 y1 eta1 rho2 phi2 z2 : ℝ) (hlo : -1 ≤ VR.spatial_dot.xy_eta_rhophi_z x1 y1 eta1 rho2 phi2 z2 / VR.spatial_mag.xy_eta x1 y1 eta1 / VR.spatial_mag.rhophi_z rho2 phi2 z2) (hhi : VR.spatial_dot.xy_eta_rhophi_z x1 y1 eta1 rho2 phi2 z2 / VR.spatial_mag.xy_eta x1 y1 eta1 / VR.spatial_mag.rhophi_z rho2 phi2 z2 ≤ 1) :
    VS.spatial_deltaangle.xy_eta_rhophi_z x1 y1 eta1 rho2 phi2 z2 = VR.spatial_deltaangle.xy_eta_rhophi_z x1 y1 eta1 rho2 phi2 z2 := by
  simp only [VS.spatial_deltaangle.xy_eta_rhophi_z, VR.spatial_deltaangle.xy_eta_rhophi_z, VS.spatial_mag.xy_eta_eq, VS.spatial_mag.rhophi_z_eq, VS.spatial_dot.xy_eta_rhophi_z_eq, hlo, hhi, c08_clamp hlo hhi, VR.P.nanToNum_eq]

theorem c08_spatial_deltaangle_xy_eta_xy_eta (x1 y1 eta1 x2 y2 eta2 : ℝ) (hlo : -1 ≤ VR.spatial_dot.xy_eta_xy_eta x1 y1 eta1 x2 y2 eta2 / VR.spatial_mag.xy_eta x1 y1 eta1 / VR.spatial_mag.xy_eta x2 y2 eta2) (hhi : VR.spatial_dot.xy_eta_xy_eta x1 y1 eta1 x2 y2 eta2 / VR.spatial_mag.xy_eta x1 y1 eta1 / VR.spatial_mag.xy_eta x2 y2 eta2 ≤ 1) :
    VS.spatial_deltaangle.xy_eta_xy_eta x1 y1 eta1 x2 y2 eta2 = VR.spatial_deltaangle.xy_eta_xy_eta x1 y1 eta1 x2 y2 eta2 := by
  simp only [VS.spatial_deltaangle.xy_eta_xy_eta, VR.spatial_deltaangle.xy_eta_xy_eta, VS.spatial_mag.xy_eta_eq, VS.spatial_dot.xy_eta_xy_eta_eq, hlo, hhi, c08_clamp hlo hhi, VR.P.nanToNum_eq]

theorem c08_spatial_deltaangle_xy_eta_xy_theta (x1 y1 eta1 x2 y2 theta2 : ℝ) (hlo : -1 ≤ VR.spatial_dot.xy_eta_xy_theta x1 y1 eta1 x2 y2 theta2 / VR.spatial_mag.xy_eta x1 y1 eta1 / VR.spatial_mag.xy_theta x2 y2 theta2) (hhi : VR.spatial_dot.xy_eta_xy_theta x1 y1 eta1 x2 y2 theta2 / VR.spatial_mag.xy_eta x1 y1 eta1 / VR.spatial_mag.xy_theta x2 y2 theta2 ≤ 1) :
    VS.spatial_deltaangle.xy_eta_xy_theta x1 y1 eta1 x2 y2 theta2 = VR.spatial_deltaangle.xy_eta_xy_theta x1 y1 eta1 x2 y2 theta2 := by
  simp only [VS.spatial_deltaangle.xy_eta_xy_theta, VR.spatial_deltaangle.xy_eta_xy_theta, VS.spatial_mag.xy_eta_eq, VS.spatial_mag.xy_theta_eq, VS.spatial_dot.xy_eta_xy_theta_eq, hlo, hhi, c08_clamp hlo hhi, VR.P.nanToNum_eq]

theorem c08_spatial_deltaangle_xy_eta_xy_z (x1 y1 eta1 x2 y2 z2 : ℝ) (hlo : -1 ≤ VR.spatial_dot.xy_eta_xy_z x1 y1 eta1 x2 y2 z2 / VR.spatial_mag.xy_eta x1 y1 eta1 / VR.spatial_mag.xy_z x2 y2 z2) (hhi : VR.spatial_dot.xy_eta_xy_z x1 y1 eta1 x2 y2 z2 / VR.spatial_mag.xy_eta x1 y1 eta1 / VR.spatial_mag.xy_z x2 y2 z2 ≤ 1) :
    VS.spatial_deltaangle.xy_eta_xy_z x1 y1 eta1 x2 y2 z2 = VR.spatial_deltaangle.xy_eta_xy_z x1 y1 eta1 x2 y2 z2 := by
  simp only [VS.spatial_deltaangle.xy_eta_xy_z, VR.spatial_deltaangle.xy_eta_xy_z, VS.spatial_mag.xy_eta_eq, VS.spatial_mag.xy_z_eq, VS.spatial_dot.xy_eta_xy_z_eq, hlo, hhi, c08_clamp hlo hhi, VR.P.nanToNum_eq]

theorem c08_spatial_deltaangle_xy_theta_rhophi_eta (x1 y1 theta1 rho2 phi2 eta2 : ℝ) (hlo : -1 ≤ VR.spatial_dot.xy_theta_rhophi_eta x1 y1 theta1 rho2 phi2 eta2 / VR.spatial_mag.xy_theta x1 y1 theta1 / VR.spatial_mag.rhophi_eta rho2 phi2 eta2) (hhi : VR.spatial_dot.xy_theta_rhophi_eta x1 y1 theta1 rho2 phi2 eta2 / VR.spatial_mag.xy_theta x1 y1 theta1 / VR.spatial_mag.rhophi_eta rho2 phi2 eta2 ≤ 1) :
    VS.spatial_deltaangle.xy_theta_rhophi_eta x1 y1 theta1 rho2 phi2 eta2 = VR.spatial_deltaangle.xy_theta_rhophi_eta x1 y1 theta1 rho2 phi2 eta2 := by
  simp only [VS.spatial_deltaangle.xy_theta_rhophi_eta, VR.spatial_deltaangle.xy_theta_rhophi_eta, VS.spatial_mag.xy_theta_eq, VS.spatial_mag.rhophi_eta_eq, VS.spatial_dot.xy_theta_rhophi_eta_eq, hlo, hhi, c08_clamp hlo hhi, VR.P.nanToNum_eq]

theorem c08_spatial_deltaangle_xy_theta_rhophi_theta (x1 y1 theta1 rho2 phi2 theta2 : ℝ) (hlo : -1 ≤ VR.spatial_dot.xy_theta_rhophi_theta x1 y1 theta1 rho2 phi2 theta2 / VR.spatial_mag.xy_theta x1 y1 theta1 / VR.spatial_mag.rhophi_theta rho2 phi2 theta2) (hhi : VR.spatial_dot.xy_theta_rhophi_theta x1 y1 theta1 rho2 phi2 theta2 / VR.spatial_mag.xy_theta x1 y1 theta1 / VR.spatial_mag.rhophi_theta rho2 phi2 theta2 ≤ 1) :
    VS.spatial_deltaangle.xy_theta_rhophi_theta x1 y1 theta1 rho2 phi2 theta2 = VR.spatial_deltaangle.xy_theta_rhophi_theta x1 y1 theta1 rho2 phi2 theta2 := by
  simp only [VS.spatial_deltaangle.xy_theta_rhophi_theta, VR.spatial_deltaangle.xy_theta_rhophi_theta, VS.spatial_mag.xy_theta_eq, VS.spatial_mag.rhophi_theta_eq, VS.spatial_dot.xy_theta_rhophi_theta_eq, hlo, hhi, c08_clamp hlo hhi, VR.P.nanToNum_eq]

theorem c08_spatial_deltaangle_xy_theta_rhophi_z (x1 y1 theta1 rho2 phi2 z2 : ℝ) (hlo : -1 ≤ VR.spatial_dot.xy_theta_rhophi_z x1 y1 theta1 rho2 phi2 z2 / VR.spatial_mag.xy_theta x1 y1 theta1 / VR.spatial_mag.rhophi_z rho2 phi2 z2) (hhi : VR.spatial_dot.xy_theta_rhophi_z x1 y1 theta1 rho2 phi2 z2 / VR.spatial_mag.xy_theta x1 y1 theta1 / VR.spatial_mag.rhophi_z rho2 phi2 z2 ≤ 1) :
    VS.spatial_deltaangle.xy_theta_rhophi_z x1 y1 theta1 rho2 phi2 z2 = VR.spatial_deltaangle.xy_theta_rhophi_z x1 y1 theta1 rho2 phi2 z2 := by
  simp only [VS.spatial_deltaangle.xy_theta_rhophi_z, VR.spatial_deltaangle.xy_theta_rhophi_z, VS.spatial_mag.xy_theta_eq, VS.spatial_mag.rhophi_z_eq, VS.spatial_dot.xy_theta_rhophi_z_eq, hlo, hhi, c08_clamp hlo hhi, VR.P.nanToNum_eq]

theorem c08_spatial_deltaangle_xy_theta_xy_eta (x1 y1 theta1 x2 y2 eta2 : ℝ) (hlo : -1 ≤ VR.spatial_dot.xy_theta_xy_eta x1 y1 theta1 x2 y2 eta2 / VR.spatial_mag.xy_theta x1 y1 theta1 / VR.spatial_mag.xy_eta x2 y2 eta2) (hhi : VR.spatial_dot.xy_theta_xy_eta x1 y1 theta1 x2 y2 eta2 / VR.spatial_mag.xy_theta x1 y1 theta1 / VR.spatial_mag.xy_eta x2 y2 eta2 ≤ 1) :
    VS.spatial_deltaangle.xy_theta_xy_eta x1 y1 theta1 x2 y2 eta2 = VR.spatial_deltaangle.xy_theta_xy_eta x1 y1 theta1 x2 y2 eta2 := by
  simp only [VS.spatial_deltaangle.xy_theta_xy_eta, VR.spatial_deltaangle.xy_theta_xy_eta, VS.spatial_mag.xy_theta_eq, VS.spatial_mag.xy_eta_eq, VS.spatial_dot.xy_theta_xy_eta_eq, hlo, hhi, c08_clamp hlo hhi, VR.P.nanToNum_eq]

theorem c08_spatial_deltaangle_xy_theta_xy_theta (x1 y1 theta1 x2 y2 theta2 : ℝ) (hlo : -1 ≤ VR.spatial_dot.xy_theta_xy_theta x1 y1 theta1 x2 y2 theta2 / VR.spatial_mag.xy_theta x1 y1 theta1 / VR.spatial_mag.xy_theta x2 y2 theta2) (hhi : VR.spatial_dot.xy_theta_xy_theta x1 y1 theta1 x2 y2 theta2 / VR.spatial_mag.xy_theta x1 y1 theta1 / VR.spatial_mag.xy_theta x2 y2 theta2 ≤ 1) :
    VS.spatial_deltaangle.xy_theta_xy_theta x1 y1 theta1 x2 y2 theta2 = VR.spatial_deltaangle.xy_theta_xy_theta x1 y1 theta1 x2 y2 theta2 := by
  simp only [VS.spatial_deltaangle.xy_theta_xy_theta, VR.spatial_deltaangle.xy_theta_xy_theta, VS.spatial_mag.xy_theta_eq, VS.spatial_dot.xy_theta_xy_theta_eq, hlo, hhi, c08_clamp hlo hhi, VR.P.nanToNum_eq]

theorem c08_spatial_deltaangle_xy_theta_xy_z (x1 y1 theta1 x2 y2 z2 : ℝ) (hlo : -1 ≤ VR.spatial_dot.xy_theta_xy_z x1 y1 theta1 x2 y2 z2 / VR.spatial_mag.xy_theta x1 y1 theta1 / VR.spatial_mag.xy_z x2 y2 z2) (hhi : VR.spatial_dot.xy_theta_xy_z x1 y1 theta1 x2 y2 z2 / VR.spatial_mag.xy_theta x1 y1 theta1 / VR.spatial_mag.xy_z x2 y2 z2 ≤ 1) :
    VS.spatial_deltaangle.xy_theta_xy_z x1 y1 theta1 x2 y2 z2 = VR.spatial_deltaangle.xy_theta_xy_z x1 y1 theta1 x2 y2 z2 := by
  simp only [VS.spatial_deltaangle.xy_theta_xy_z, VR.spatial_deltaangle.xy_theta_xy_z, VS.spatial_mag.xy_theta_eq, VS.spatial_mag.xy_z_eq, VS.spatial_dot.xy_theta_xy_z_eq, hlo, hhi, c08_clamp hlo hhi, VR.P.nanToNum_eq]

theorem c08_spatial_deltaangle_xy_z_rhophi_eta (x1 y1 z1 rho2 phi2 eta2 : ℝ) (hlo : -1 ≤ VR.spatial_dot.xy_z_rhophi_eta x1 y1 z1 rho2 phi2 eta2 / VR.spatial_mag.xy_z x1 y1 z1 / VR.spatial_mag.rhophi_eta rho2 phi2 eta2) (hhi : VR.spatial_dot.xy_z_rhophi_eta x1 y1 z1 rho2 phi2 eta2 / VR.spatial_mag.xy_z x1 y1 z1 / VR.spatial_mag.rhophi_eta rho2 phi2 eta2 ≤ 1) :
    VS.spatial_deltaangle.xy_z_rhophi_eta x1 y1 z1 rho2 phi2 eta2 = VR.spatial_deltaangle.xy_z_rhophi_eta x1 y1 z1 rho2 phi2 eta2 := by
  simp only [VS.spatial_deltaangle.xy_z_rhophi_eta, VR.spatial_deltaangle.xy_z_rhophi_eta, VS.spatial_mag.xy_z_eq, VS.spatial_mag.rhophi_eta_eq, VS.spatial_dot.xy_z_rhophi_eta_eq, hlo, hhi, c08_clamp hlo hhi, VR.P.nanToNum_eq]

theorem c08_spatial_deltaangle_xy_z_rhophi_theta (x1 y1 z1 rho2 phi2 theta2 : ℝ) (hlo : -1 ≤ VR.spatial_dot.xy_z_rhophi_theta x1 y1 z1 rho2 phi2 theta2 / VR.spatial_mag.xy_z x1 y1 z1 / VR.spatial_mag.rhophi_theta rho2 phi2 theta2) (hhi : VR.spatial_dot.xy_z_rhophi_theta x1 y1 z1 rho2 phi2 theta2 / VR.spatial_mag.xy_z x1 y1 z1 / VR.spatial_mag.rhophi_theta rho2 phi2 theta2 ≤ 1) :
    VS.spatial_deltaangle.xy_z_rhophi_theta x1 y1 z1 rho2 phi2 theta2 = VR.spatial_deltaangle.xy_z_rhophi_theta x1 y1 z1 rho2 phi2 theta2 := by
  simp only [VS.spatial_deltaangle.xy_z_rhophi_theta, VR.spatial_deltaangle.xy_z_rhophi_theta, VS.spatial_mag.xy_z_eq, VS.spatial_mag.rhophi_theta_eq, VS.spatial_dot.xy_z_rhophi_theta_eq, hlo, hhi, c08_clamp hlo hhi, VR.P.nanToNum_eq]

theorem c08_spatial_deltaangle_xy_z_rhophi_z (x1 y1 z1 rho2 phi2 z2 : ℝ) (hlo : -1 ≤ VR.spatial_dot.xy_z_rhophi_z x1 y1 z1 rho2 phi2 z2 / VR.spatial_mag.xy_z x1 y1 z1 / VR.spatial_mag.rhophi_z rho2 phi2 z2) (hhi : VR.spatial_dot.xy_z_rhophi_z x1 y1 z1 rho2 phi2 z2 / VR.spatial_mag.xy_z x1 y1 z1 / VR.spatial_mag.rhophi_z rho2 phi2 z2 ≤ 1) :
    VS.spatial_deltaangle.xy_z_rhophi_z x1 y1 z1 rho2 phi2 z2 = VR.spatial_deltaangle.xy_z_rhophi_z x1 y1 z1 rho2 phi2 z2 := by
  simp only [VS.spatial_deltaangle.xy_z_rhophi_z, VR.spatial_deltaangle.xy_z_rhophi_z, VS.spatial_mag.xy_z_eq, VS.spatial_mag.rhophi_z_eq, VS.spatial_dot.xy_z_rhophi_z_eq, hlo, hhi, c08_clamp hlo hhi, VR.P.nanToNum_eq]

theorem c08_spatial_deltaangle_xy_z_xy_eta (x1 y1 z1 x2 y2 eta2 : ℝ) (hlo : -1 ≤ VR.spatial_dot.xy_z_xy_eta x1 y1 z1 x2 y2 eta2 / VR.spatial_mag.xy_z x1 y1 z1 / VR.spatial_mag.xy_eta x2 y2 eta2) (hhi : VR.spatial_dot.xy_z_xy_eta x1 y1 z1 x2 y2 eta2 / VR.spatial_mag.xy_z x1 y1 z1 / VR.spatial_mag.xy_eta x2 y2 eta2 ≤ 1) :
    VS.spatial_deltaangle.xy_z_xy_eta x1 y1 z1 x2 y2 eta2 = VR.spatial_deltaangle.xy_z_xy_eta x1 y1 z1 x2 y2 eta2 := by
  simp only [VS.spatial_deltaangle.xy_z_xy_eta, VR.spatial_deltaangle.xy_z_xy_eta, VS.spatial_mag.xy_z_eq, VS.spatial_mag.xy_eta_eq, VS.spatial_dot.xy_z_xy_eta_eq, hlo, hhi, c08_clamp hlo hhi, VR.P.nanToNum_eq]

theorem c08_spatial_deltaangle_xy_z_xy_theta (x1 y1 z1 x2 y2 theta2 : ℝ) (hlo : -1 ≤ VR.spatial_dot.xy_z_xy_theta x1 y1 z1 x2 y2 theta2 / VR.spatial_mag.xy_z x1 y1 z1 / VR.spatial_mag.xy_theta x2 y2 theta2) (hhi : VR.spatial_dot.xy_z_xy_theta x1 y1 z1 x2 y2 theta2 / VR.spatial_mag.xy_z x1 y1 z1 / VR.spatial_mag.xy_theta x2 y2 theta2 ≤ 1) :
    VS.spatial_deltaangle.xy_z_xy_theta x1 y1 z1 x2 y2 theta2 = VR.spatial_deltaangle.xy_z_xy_theta x1 y1 z1 x2 y2 theta2 := by
  simp only [VS.spatial_deltaangle.xy_z_xy_theta, VR.spatial_deltaangle.xy_z_xy_theta, VS.spatial_mag.xy_z_eq, VS.spatial_mag.xy_theta_eq, VS.spatial_dot.xy_z_xy_theta_eq, hlo, hhi, c08_clamp hlo hhi, VR.P.nanToNum_eq]

theorem c08_spatial_deltaangle_xy_z_xy_z (x1 y1 z1 x2 y2 z2 : ℝ) (hlo : -1 ≤ VR.spatial_dot.xy_z_xy_z x1 y1 z1 x2 y2 z2 / VR.spatial_mag.xy_z x1 y1 z1 / VR.spatial_mag.xy_z x2 y2 z2) (hhi : VR.spatial_dot.xy_z_xy_z x1 y1 z1 x2 y2 z2 / VR.spatial_mag.xy_z x1 y1 z1 / VR.spatial_mag.xy_z x2 y2 z2 ≤ 1) :
    VS.spatial_deltaangle.xy_z_xy_z x1 y1 z1 x2 y2 z2 = VR.spatial_deltaangle.xy_z_xy_z x1 y1 z1 x2 y2 z2 := by
  simp only [VS.spatial_deltaangle.xy_z_xy_z, VR.spatial_deltaangle.xy_z_xy_z, VS.spatial_mag.xy_z_eq, VS.spatial_dot.xy_z_xy_z_eq, hlo, hhi, c08_clamp hlo hhi, VR.P.nanToNum_eq]


/-! ### `spatial_scale` -/

theorem c08_spatial_scale_rhophi_eta (factor rho phi eta : ℝ) :
    VS.spatial_scale.rhophi_eta factor rho phi eta = VR.spatial_scale.rhophi_eta factor rho phi eta := by
  simp only [VS.spatial_scale.rhophi_eta, VR.spatial_scale.rhophi_eta, VS.spatial_scale.rectify_eq, VR.P.nanToNum_eq]

theorem c08_spatial_scale_rhophi_theta (factor rho phi theta : ℝ) :
    VS.spatial_scale.rhophi_theta factor rho phi theta = VR.spatial_scale.rhophi_theta factor rho phi theta := by
  simp only [VS.spatial_scale.rhophi_theta, VR.spatial_scale.rhophi_theta, VS.spatial_scale.rectify_eq, VR.P.nanToNum_eq]

theorem c08_spatial_scale_rhophi_z (factor rho phi z : ℝ) :
    VS.spatial_scale.rhophi_z factor rho phi z = VR.spatial_scale.rhophi_z factor rho phi z := by
  simp only [VS.spatial_scale.rhophi_z, VR.spatial_scale.rhophi_z, VS.spatial_scale.rectify_eq, VR.P.nanToNum_eq]

theorem c08_spatial_scale_xy_eta (factor x y eta : ℝ) :
    VS.spatial_scale.xy_eta factor x y eta = VR.spatial_scale.xy_eta factor x y eta := by
  simp only [VS.spatial_scale.xy_eta, VR.spatial_scale.xy_eta, VR.P.nanToNum_eq]

theorem c08_spatial_scale_xy_theta (factor x y theta : ℝ) :
    VS.spatial_scale.xy_theta factor x y theta = VR.spatial_scale.xy_theta factor x y theta := by
  simp only [VS.spatial_scale.xy_theta, VR.spatial_scale.xy_theta, VR.P.nanToNum_eq]


/-! ### `lorentz_Mt2` -/

theorem c08_lorentz_Mt2_rhophi_eta_tau (rho phi eta tau : ℝ) (htau : 0 ≤ tau) :
    VS.lorentz_Mt2.rhophi_eta_tau rho phi eta tau = VR.lorentz_Mt2.rhophi_eta_tau rho phi eta tau := by
  simp only [VS.lorentz_Mt2.rhophi_eta_tau, VR.lorentz_Mt2.rhophi_eta_tau, c08_lorentz_tau2_rhophi_eta_tau, htau, VR.P.nanToNum_eq]
  refine (max_eq_left ?_).symm
  simp only [VR.lorentz_tau2.rhophi_eta_tau, c08_copysign_sq htau, VR.spatial_mag2.rhophi_eta]
  positivity

theorem c08_lorentz_Mt2_rhophi_theta_tau (rho phi theta tau : ℝ) (htau : 0 ≤ tau) :
    VS.lorentz_Mt2.rhophi_theta_tau rho phi theta tau = VR.lorentz_Mt2.rhophi_theta_tau rho phi theta tau := by
  simp only [VS.lorentz_Mt2.rhophi_theta_tau, VR.lorentz_Mt2.rhophi_theta_tau, c08_lorentz_tau2_rhophi_theta_tau, htau, VR.P.nanToNum_eq]
  refine (max_eq_left ?_).symm
  simp only [VR.lorentz_tau2.rhophi_theta_tau, c08_copysign_sq htau, VR.spatial_mag2.rhophi_theta]
  positivity

theorem c08_lorentz_Mt2_rhophi_z_tau (rho phi z tau : ℝ) (htau : 0 ≤ tau) :
    VS.lorentz_Mt2.rhophi_z_tau rho phi z tau = VR.lorentz_Mt2.rhophi_z_tau rho phi z tau := by
  simp only [VS.lorentz_Mt2.rhophi_z_tau, VR.lorentz_Mt2.rhophi_z_tau, c08_lorentz_tau2_rhophi_z_tau, htau, VR.P.nanToNum_eq]
  refine (max_eq_left ?_).symm
  simp only [VR.lorentz_tau2.rhophi_z_tau, c08_copysign_sq htau, VR.spatial_mag2.rhophi_z]
  positivity

theorem c08_lorentz_Mt2_xy_eta_tau (x y eta tau : ℝ) (htau : 0 ≤ tau) :
    VS.lorentz_Mt2.xy_eta_tau x y eta tau = VR.lorentz_Mt2.xy_eta_tau x y eta tau := by
  simp only [VS.lorentz_Mt2.xy_eta_tau, VR.lorentz_Mt2.xy_eta_tau, c08_lorentz_tau2_xy_eta_tau, htau, VR.P.nanToNum_eq]
  refine (max_eq_left ?_).symm
  simp only [VR.lorentz_tau2.xy_eta_tau, c08_copysign_sq htau, VR.spatial_mag2.xy_eta]
  positivity

theorem c08_lorentz_Mt2_xy_theta_tau (x y theta tau : ℝ) (htau : 0 ≤ tau) :
    VS.lorentz_Mt2.xy_theta_tau x y theta tau = VR.lorentz_Mt2.xy_theta_tau x y theta tau := by
  simp only [VS.lorentz_Mt2.xy_theta_tau, VR.lorentz_Mt2.xy_theta_tau, c08_lorentz_tau2_xy_theta_tau, htau, VR.P.nanToNum_eq]
  refine (max_eq_left ?_).symm
  simp only [VR.lorentz_tau2.xy_theta_tau, c08_copysign_sq htau, VR.spatial_mag2.xy_theta]
  positivity

theorem c08_lorentz_Mt2_xy_z_tau (x y z tau : ℝ) (htau : 0 ≤ tau) :
    VS.lorentz_Mt2.xy_z_tau x y z tau = VR.lorentz_Mt2.xy_z_tau x y z tau := by
  simp only [VS.lorentz_Mt2.xy_z_tau, VR.lorentz_Mt2.xy_z_tau, c08_lorentz_tau2_xy_z_tau, htau, VR.P.nanToNum_eq]
  refine (max_eq_left ?_).symm
  simp only [VR.lorentz_tau2.xy_z_tau, c08_copysign_sq htau, VR.spatial_mag2.xy_z]
  positivity


/-! ### `lorentz_scale` -/

theorem c08_lorentz_scale_rhophi_eta_t (factor rho phi eta t : ℝ) :
    VS.lorentz_scale.rhophi_eta_t factor rho phi eta t = VR.lorentz_scale.rhophi_eta_t factor rho phi eta t := by
  simp only [VS.lorentz_scale.rhophi_eta_t, VR.lorentz_scale.rhophi_eta_t, c08_spatial_scale_rhophi_eta, VR.P.nanToNum_eq]

theorem c08_lorentz_scale_rhophi_eta_tau (factor rho phi eta tau : ℝ) :
    VS.lorentz_scale.rhophi_eta_tau factor rho phi eta tau = VR.lorentz_scale.rhophi_eta_tau factor rho phi eta tau := by
  simp only [VS.lorentz_scale.rhophi_eta_tau, VR.lorentz_scale.rhophi_eta_tau, c08_spatial_scale_rhophi_eta, VR.P.nanToNum_eq]

theorem c08_lorentz_scale_rhophi_theta_t (factor rho phi theta t : ℝ) :
    VS.lorentz_scale.rhophi_theta_t factor rho phi theta t = VR.lorentz_scale.rhophi_theta_t factor rho phi theta t := by
  simp only [VS.lorentz_scale.rhophi_theta_t, VR.lorentz_scale.rhophi_theta_t, c08_spatial_scale_rhophi_theta, VR.P.nanToNum_eq]

theorem c08_lorentz_scale_rhophi_theta_tau (factor rho phi theta tau : ℝ) :
    VS.lorentz_scale.rhophi_theta_tau factor rho phi theta tau = VR.lorentz_scale.rhophi_theta_tau factor rho phi theta tau := by
  simp only [VS.lorentz_scale.rhophi_theta_tau, VR.lorentz_scale.rhophi_theta_tau, c08_spatial_scale_rhophi_theta, VR.P.nanToNum_eq]

theorem c08_lorentz_scale_rhophi_z_t (factor rho phi z t : ℝ) :
    VS.lorentz_scale.rhophi_z_t factor rho phi z t = VR.lorentz_scale.rhophi_z_t factor rho phi z t := by
  simp only [VS.lorentz_scale.rhophi_z_t, VR.lorentz_scale.rhophi_z_t, c08_spatial_scale_rhophi_z, VR.P.nanToNum_eq]

theorem c08_lorentz_scale_rhophi_z_tau (factor rho phi z tau : ℝ) :
    VS.lorentz_scale.rhophi_z_tau factor rho phi z tau = VR.lorentz_scale.rhophi_z_tau factor rho phi z tau := by
  simp only [VS.lorentz_scale.rhophi_z_tau, VR.lorentz_scale.rhophi_z_tau, c08_spatial_scale_rhophi_z, VR.P.nanToNum_eq]

theorem c08_lorentz_scale_xy_eta_t (factor x y eta t : ℝ) :
    VS.lorentz_scale.xy_eta_t factor x y eta t = VR.lorentz_scale.xy_eta_t factor x y eta t := by
  simp only [VS.lorentz_scale.xy_eta_t, VR.lorentz_scale.xy_eta_t, c08_spatial_scale_xy_eta, VR.P.nanToNum_eq]

theorem c08_lorentz_scale_xy_eta_tau (factor x y eta tau : ℝ) :
    VS.lorentz_scale.xy_eta_tau factor x y eta tau = VR.lorentz_scale.xy_eta_tau factor x y eta tau := by
  simp only [VS.lorentz_scale.xy_eta_tau, VR.lorentz_scale.xy_eta_tau, c08_spatial_scale_xy_eta, VR.P.nanToNum_eq]

theorem c08_lorentz_scale_xy_theta_t (factor x y theta t : ℝ) :
    VS.lorentz_scale.xy_theta_t factor x y theta t = VR.lorentz_scale.xy_theta_t factor x y theta t := by
  simp only [VS.lorentz_scale.xy_theta_t, VR.lorentz_scale.xy_theta_t, c08_spatial_scale_xy_theta, VR.P.nanToNum_eq]

theorem c08_lorentz_scale_xy_theta_tau (factor x y theta tau : ℝ) :
    VS.lorentz_scale.xy_theta_tau factor x y theta tau = VR.lorentz_scale.xy_theta_tau factor x y theta tau := by
  simp only [VS.lorentz_scale.xy_theta_tau, VR.lorentz_scale.xy_theta_tau, c08_spatial_scale_xy_theta, VR.P.nanToNum_eq]


/-! ### `lorentz_t2` -/

theorem c08_lorentz_t2_rhophi_eta_tau (rho phi eta tau : ℝ) (htau : 0 ≤ tau) :
    VS.lorentz_t2.rhophi_eta_tau rho phi eta tau = VR.lorentz_t2.rhophi_eta_tau rho phi eta tau := by
  simp only [VS.lorentz_t2.rhophi_eta_tau, VR.lorentz_t2.rhophi_eta_tau, c08_lorentz_tau2_rhophi_eta_tau, VS.spatial_mag2.rhophi_eta_eq, htau, VR.P.nanToNum_eq]
  refine (max_eq_left ?_).symm
  simp only [VR.lorentz_tau2.rhophi_eta_tau, c08_copysign_sq htau, VR.spatial_mag2.rhophi_eta]
  positivity

theorem c08_lorentz_t2_rhophi_theta_tau (rho phi theta tau : ℝ) (htau : 0 ≤ tau) :
    VS.lorentz_t2.rhophi_theta_tau rho phi theta tau = VR.lorentz_t2.rhophi_theta_tau rho phi theta tau := by
  simp only [VS.lorentz_t2.rhophi_theta_tau, VR.lorentz_t2.rhophi_theta_tau, c08_lorentz_tau2_rhophi_theta_tau, VS.spatial_mag2.rhophi_theta_eq, htau, VR.P.nanToNum_eq]
  refine (max_eq_left ?_).symm
  simp only [VR.lorentz_tau2.rhophi_theta_tau, c08_copysign_sq htau, VR.spatial_mag2.rhophi_theta]
  positivity

theorem c08_lorentz_t2_rhophi_z_tau (rho phi z tau : ℝ) (htau : 0 ≤ tau) :
    VS.lorentz_t2.rhophi_z_tau rho phi z tau = VR.lorentz_t2.rhophi_z_tau rho phi z tau := by
  simp only [VS.lorentz_t2.rhophi_z_tau, VR.lorentz_t2.rhophi_z_tau, c08_lorentz_tau2_rhophi_z_tau, VS.spatial_mag2.rhophi_z_eq, htau, VR.P.nanToNum_eq]
  refine (max_eq_left ?_).symm
  simp only [VR.lorentz_tau2.rhophi_z_tau, c08_copysign_sq htau, VR.spatial_mag2.rhophi_z]
  positivity

theorem c08_lorentz_t2_xy_eta_tau (x y eta tau : ℝ) (htau : 0 ≤ tau) :
    VS.lorentz_t2.xy_eta_tau x y eta tau = VR.lorentz_t2.xy_eta_tau x y eta tau := by
  simp only [VS.lorentz_t2.xy_eta_tau, VR.lorentz_t2.xy_eta_tau, c08_lorentz_tau2_xy_eta_tau, VS.spatial_mag2.xy_eta_eq, htau, VR.P.nanToNum_eq]
  refine (max_eq_left ?_).symm
  simp only [VR.lorentz_tau2.xy_eta_tau, c08_copysign_sq htau, VR.spatial_mag2.xy_eta]
  positivity

theorem c08_lorentz_t2_xy_theta_tau (x y theta tau : ℝ) (htau : 0 ≤ tau) :
    VS.lorentz_t2.xy_theta_tau x y theta tau = VR.lorentz_t2.xy_theta_tau x y theta tau := by
  simp only [VS.lorentz_t2.xy_theta_tau, VR.lorentz_t2.xy_theta_tau, c08_lorentz_tau2_xy_theta_tau, VS.spatial_mag2.xy_theta_eq, htau, VR.P.nanToNum_eq]
  refine (max_eq_left ?_).symm
  simp only [VR.lorentz_tau2.xy_theta_tau, c08_copysign_sq htau, VR.spatial_mag2.xy_theta]
  positivity

theorem c08_lorentz_t2_xy_z_tau (x y z tau : ℝ) (htau : 0 ≤ tau) :
    VS.lorentz_t2.xy_z_tau x y z tau = VR.lorentz_t2.xy_z_tau x y z tau := by
  simp only [VS.lorentz_t2.xy_z_tau, VR.lorentz_t2.xy_z_tau, c08_lorentz_tau2_xy_z_tau, VS.spatial_mag2.xy_z_eq, htau, VR.P.nanToNum_eq]
  refine (max_eq_left ?_).symm
  simp only [VR.lorentz_tau2.xy_z_tau, c08_copysign_sq htau, VR.spatial_mag2.xy_z]
  positivity


/-! ### `lorentz_Mt` -/

theorem c08_lorentz_Mt_rhophi_eta_tau (rho phi eta tau : ℝ) (h0 : 0 ≤ tau) :
    VS.lorentz_Mt.rhophi_eta_tau rho phi eta tau = VR.lorentz_Mt.rhophi_eta_tau rho phi eta tau := by
  simp only [VS.lorentz_Mt.rhophi_eta_tau, VR.lorentz_Mt.rhophi_eta_tau, c08_lorentz_Mt2_rhophi_eta_tau, h0, VR.P.nanToNum_eq]

theorem c08_lorentz_Mt_rhophi_theta_tau (rho phi theta tau : ℝ) (h0 : 0 ≤ tau) :
    VS.lorentz_Mt.rhophi_theta_tau rho phi theta tau = VR.lorentz_Mt.rhophi_theta_tau rho phi theta tau := by
  simp only [VS.lorentz_Mt.rhophi_theta_tau, VR.lorentz_Mt.rhophi_theta_tau, c08_lorentz_Mt2_rhophi_theta_tau, h0, VR.P.nanToNum_eq]

theorem c08_lorentz_Mt_rhophi_z_tau (rho phi z tau : ℝ) (h0 : 0 ≤ tau) :
    VS.lorentz_Mt.rhophi_z_tau rho phi z tau = VR.lorentz_Mt.rhophi_z_tau rho phi z tau := by
  simp only [VS.lorentz_Mt.rhophi_z_tau, VR.lorentz_Mt.rhophi_z_tau, c08_lorentz_Mt2_rhophi_z_tau, h0, VR.P.nanToNum_eq]

theorem c08_lorentz_Mt_xy_eta_tau (x y eta tau : ℝ) (h0 : 0 ≤ tau) :
    VS.lorentz_Mt.xy_eta_tau x y eta tau = VR.lorentz_Mt.xy_eta_tau x y eta tau := by
  simp only [VS.lorentz_Mt.xy_eta_tau, VR.lorentz_Mt.xy_eta_tau, c08_lorentz_Mt2_xy_eta_tau, h0, VR.P.nanToNum_eq]

theorem c08_lorentz_Mt_xy_theta_tau (x y theta tau : ℝ) (h0 : 0 ≤ tau) :
    VS.lorentz_Mt.xy_theta_tau x y theta tau = VR.lorentz_Mt.xy_theta_tau x y theta tau := by
  simp only [VS.lorentz_Mt.xy_theta_tau, VR.lorentz_Mt.xy_theta_tau, c08_lorentz_Mt2_xy_theta_tau, h0, VR.P.nanToNum_eq]

theorem c08_lorentz_Mt_xy_z_tau (x y z tau : ℝ) (h0 : 0 ≤ tau) :
    VS.lorentz_Mt.xy_z_tau x y z tau = VR.lorentz_Mt.xy_z_tau x y z tau := by
  simp only [VS.lorentz_Mt.xy_z_tau, VR.lorentz_Mt.xy_z_tau, c08_lorentz_Mt2_xy_z_tau, h0, VR.P.nanToNum_eq]


/-! ### `lorentz_t` -/

theorem c08_lorentz_t_rhophi_eta_tau (rho phi eta tau : ℝ) (h0 : 0 ≤ tau) :
    VS.lorentz_t.rhophi_eta_tau rho phi eta tau = VR.lorentz_t.rhophi_eta_tau rho phi eta tau := by
  simp only [VS.lorentz_t.rhophi_eta_tau, VR.lorentz_t.rhophi_eta_tau, c08_lorentz_t2_rhophi_eta_tau, h0, VR.P.nanToNum_eq]

theorem c08_lorentz_t_rhophi_theta_tau (rho phi theta tau : ℝ) (h0 : 0 ≤ tau) :
    VS.lorentz_t.rhophi_theta_tau rho phi theta tau = VR.lorentz_t.rhophi_theta_tau rho phi theta tau := by
  simp only [VS.lorentz_t.rhophi_theta_tau, VR.lorentz_t.rhophi_theta_tau, c08_lorentz_t2_rhophi_theta_tau, h0, VR.P.nanToNum_eq]

theorem c08_lorentz_t_rhophi_z_tau (rho phi z tau : ℝ) (h0 : 0 ≤ tau) :
    VS.lorentz_t.rhophi_z_tau rho phi z tau = VR.lorentz_t.rhophi_z_tau rho phi z tau := by
  simp only [VS.lorentz_t.rhophi_z_tau, VR.lorentz_t.rhophi_z_tau, c08_lorentz_t2_rhophi_z_tau, h0, VR.P.nanToNum_eq]

theorem c08_lorentz_t_xy_eta_tau (x y eta tau : ℝ) (h0 : 0 ≤ tau) :
    VS.lorentz_t.xy_eta_tau x y eta tau = VR.lorentz_t.xy_eta_tau x y eta tau := by
  simp only [VS.lorentz_t.xy_eta_tau, VR.lorentz_t.xy_eta_tau, c08_lorentz_t2_xy_eta_tau, h0, VR.P.nanToNum_eq]

theorem c08_lorentz_t_xy_theta_tau (x y theta tau : ℝ) (h0 : 0 ≤ tau) :
    VS.lorentz_t.xy_theta_tau x y theta tau = VR.lorentz_t.xy_theta_tau x y theta tau := by
  simp only [VS.lorentz_t.xy_theta_tau, VR.lorentz_t.xy_theta_tau, c08_lorentz_t2_xy_theta_tau, h0, VR.P.nanToNum_eq]

theorem c08_lorentz_t_xy_z_tau (x y z tau : ℝ) (h0 : 0 ≤ tau) :
    VS.lorentz_t.xy_z_tau x y z tau = VR.lorentz_t.xy_z_tau x y z tau := by
  simp only [VS.lorentz_t.xy_z_tau, VR.lorentz_t.xy_z_tau, c08_lorentz_t2_xy_z_tau, h0, VR.P.nanToNum_eq]


/-! ### `lorentz_to_beta3` -/

theorem c08_lorentz_to_beta3_rhophi_eta_tau (rho phi eta tau : ℝ) (h0 : 0 ≤ tau) :
    VS.lorentz_to_beta3.rhophi_eta_tau rho phi eta tau = VR.lorentz_to_beta3.rhophi_eta_tau rho phi eta tau := by
  simp only [VS.lorentz_to_beta3.rhophi_eta_tau, VR.lorentz_to_beta3.rhophi_eta_tau, VS.lorentz_to_beta3.rhophi_eta_t_eq, c08_lorentz_t_rhophi_eta_tau, h0, VR.P.nanToNum_eq]

theorem c08_lorentz_to_beta3_rhophi_theta_tau (rho phi theta tau : ℝ) (h0 : 0 ≤ tau) :
    VS.lorentz_to_beta3.rhophi_theta_tau rho phi theta tau = VR.lorentz_to_beta3.rhophi_theta_tau rho phi theta tau := by
  simp only [VS.lorentz_to_beta3.rhophi_theta_tau, VR.lorentz_to_beta3.rhophi_theta_tau, VS.lorentz_to_beta3.rhophi_theta_t_eq, c08_lorentz_t_rhophi_theta_tau, h0, VR.P.nanToNum_eq]

theorem c08_lorentz_to_beta3_rhophi_z_tau (rho phi z tau : ℝ) (h0 : 0 ≤ tau) :
    VS.lorentz_to_beta3.rhophi_z_tau rho phi z tau = VR.lorentz_to_beta3.rhophi_z_tau rho phi z tau := by
  simp only [VS.lorentz_to_beta3.rhophi_z_tau, VR.lorentz_to_beta3.rhophi_z_tau, VS.lorentz_to_beta3.rhophi_z_t_eq, c08_lorentz_t_rhophi_z_tau, h0, VR.P.nanToNum_eq]

theorem c08_lorentz_to_beta3_xy_eta_tau (x y eta tau : ℝ) (h0 : 0 ≤ tau) :
    VS.lorentz_to_beta3.xy_eta_tau x y eta tau = VR.lorentz_to_beta3.xy_eta_tau x y eta tau := by
  simp only [VS.lorentz_to_beta3.xy_eta_tau, VR.lorentz_to_beta3.xy_eta_tau, VS.lorentz_to_beta3.xy_eta_t_eq, c08_lorentz_t_xy_eta_tau, h0, VR.P.nanToNum_eq]

theorem c08_lorentz_to_beta3_xy_theta_tau (x y theta tau : ℝ) (h0 : 0 ≤ tau) :
    VS.lorentz_to_beta3.xy_theta_tau x y theta tau = VR.lorentz_to_beta3.xy_theta_tau x y theta tau := by
  simp only [VS.lorentz_to_beta3.xy_theta_tau, VR.lorentz_to_beta3.xy_theta_tau, VS.lorentz_to_beta3.xy_theta_t_eq, c08_lorentz_t_xy_theta_tau, h0, VR.P.nanToNum_eq]

theorem c08_lorentz_to_beta3_xy_z_tau (x y z tau : ℝ) (h0 : 0 ≤ tau) :
    VS.lorentz_to_beta3.xy_z_tau x y z tau = VR.lorentz_to_beta3.xy_z_tau x y z tau := by
  simp only [VS.lorentz_to_beta3.xy_z_tau, VR.lorentz_to_beta3.xy_z_tau, VS.lorentz_to_beta3.xy_z_t_eq, c08_lorentz_t_xy_z_tau, h0, VR.P.nanToNum_eq]


/-! ### `lorentz_transform4D` -/

theorem c08_lorentz_transform4D_cartesian_tau (xx xy xz xt yx yy yz yt zx zy zz zt x y z tau : ℝ) (h0 : 0 ≤ tau) :
    VS.lorentz_transform4D.cartesian_tau xx xy xz xt yx yy yz yt zx zy zz zt x y z tau = VR.lorentz_transform4D.cartesian_tau xx xy xz xt yx yy yz yt zx zy zz zt x y z tau := by
  simp only [VS.lorentz_transform4D.cartesian_tau, VR.lorentz_transform4D.cartesian_tau, c08_lorentz_t_xy_z_tau, h0, VR.P.nanToNum_eq]

theorem c08_lorentz_transform4D_k_rhophi_eta_tau (xx xy xz xt yx yy yz yt zx zy zz zt tx ty tz tt coord1 coord2 coord3 coord4 : ℝ) (h0 : 0 ≤ coord4) :
    VS.lorentz_transform4D.k_rhophi_eta_tau xx xy xz xt yx yy yz yt zx zy zz zt tx ty tz tt coord1 coord2 coord3 coord4 = VR.lorentz_transform4D.k_rhophi_eta_tau xx xy xz xt yx yy yz yt zx zy zz zt tx ty tz tt coord1 coord2 coord3 coord4 := by
  simp only [VS.lorentz_transform4D.k_rhophi_eta_tau, VR.lorentz_transform4D.k_rhophi_eta_tau, VS.lorentz_transform4D.cartesian_t_eq, VS.planar_x.rhophi_eq, VS.planar_y.rhophi_eq, VS.spatial_z.rhophi_eta_eq, c08_lorentz_t_rhophi_eta_tau, h0, VR.P.nanToNum_eq]

theorem c08_lorentz_transform4D_k_rhophi_theta_tau (xx xy xz xt yx yy yz yt zx zy zz zt tx ty tz tt coord1 coord2 coord3 coord4 : ℝ) (h0 : 0 ≤ coord4) :
    VS.lorentz_transform4D.k_rhophi_theta_tau xx xy xz xt yx yy yz yt zx zy zz zt tx ty tz tt coord1 coord2 coord3 coord4 = VR.lorentz_transform4D.k_rhophi_theta_tau xx xy xz xt yx yy yz yt zx zy zz zt tx ty tz tt coord1 coord2 coord3 coord4 := by
  simp only [VS.lorentz_transform4D.k_rhophi_theta_tau, VR.lorentz_transform4D.k_rhophi_theta_tau, VS.lorentz_transform4D.cartesian_t_eq, VS.planar_x.rhophi_eq, VS.planar_y.rhophi_eq, VS.spatial_z.rhophi_theta_eq, c08_lorentz_t_rhophi_theta_tau, h0, VR.P.nanToNum_eq]

theorem c08_lorentz_transform4D_k_rhophi_z_tau (xx xy xz xt yx yy yz yt zx zy zz zt tx ty tz tt coord1 coord2 coord3 coord4 : ℝ) (h0 : 0 ≤ coord4) :
    VS.lorentz_transform4D.k_rhophi_z_tau xx xy xz xt yx yy yz yt zx zy zz zt tx ty tz tt coord1 coord2 coord3 coord4 = VR.lorentz_transform4D.k_rhophi_z_tau xx xy xz xt yx yy yz yt zx zy zz zt tx ty tz tt coord1 coord2 coord3 coord4 := by
  simp only [VS.lorentz_transform4D.k_rhophi_z_tau, VR.lorentz_transform4D.k_rhophi_z_tau, VS.lorentz_transform4D.cartesian_t_eq, VS.planar_x.rhophi_eq, VS.planar_y.rhophi_eq, VS.spatial_z.rhophi_z_eq, c08_lorentz_t_rhophi_z_tau, h0, VR.P.nanToNum_eq]

theorem c08_lorentz_transform4D_k_xy_eta_tau (xx xy xz xt yx yy yz yt zx zy zz zt tx ty tz tt coord1 coord2 coord3 coord4 : ℝ) (h0 : 0 ≤ coord4) :
    VS.lorentz_transform4D.k_xy_eta_tau xx xy xz xt yx yy yz yt zx zy zz zt tx ty tz tt coord1 coord2 coord3 coord4 = VR.lorentz_transform4D.k_xy_eta_tau xx xy xz xt yx yy yz yt zx zy zz zt tx ty tz tt coord1 coord2 coord3 coord4 := by
  simp only [VS.lorentz_transform4D.k_xy_eta_tau, VR.lorentz_transform4D.k_xy_eta_tau, VS.lorentz_transform4D.cartesian_t_eq, VS.planar_x.xy_eq, VS.planar_y.xy_eq, VS.spatial_z.xy_eta_eq, c08_lorentz_t_xy_eta_tau, h0, VR.P.nanToNum_eq]

theorem c08_lorentz_transform4D_k_xy_theta_tau (xx xy xz xt yx yy yz yt zx zy zz zt tx ty tz tt coord1 coord2 coord3 coord4 : ℝ) (h0 : 0 ≤ coord4) :
    VS.lorentz_transform4D.k_xy_theta_tau xx xy xz xt yx yy yz yt zx zy zz zt tx ty tz tt coord1 coord2 coord3 coord4 = VR.lorentz_transform4D.k_xy_theta_tau xx xy xz xt yx yy yz yt zx zy zz zt tx ty tz tt coord1 coord2 coord3 coord4 := by
  simp only [VS.lorentz_transform4D.k_xy_theta_tau, VR.lorentz_transform4D.k_xy_theta_tau, VS.lorentz_transform4D.cartesian_t_eq, VS.planar_x.xy_eq, VS.planar_y.xy_eq, VS.spatial_z.xy_theta_eq, c08_lorentz_t_xy_theta_tau, h0, VR.P.nanToNum_eq]

theorem c08_lorentz_transform4D_k_xy_z_tau (xx xy xz xt yx yy yz yt zx zy zz zt tx ty tz tt coord1 coord2 coord3 coord4 : ℝ) (h0 : 0 ≤ coord4) :
    VS.lorentz_transform4D.k_xy_z_tau xx xy xz xt yx yy yz yt zx zy zz zt tx ty tz tt coord1 coord2 coord3 coord4 = VR.lorentz_transform4D.k_xy_z_tau xx xy xz xt yx yy yz yt zx zy zz zt tx ty tz tt coord1 coord2 coord3 coord4 := by
  simp only [VS.lorentz_transform4D.k_xy_z_tau, VR.lorentz_transform4D.k_xy_z_tau, VS.lorentz_transform4D.cartesian_t_eq, VS.planar_x.xy_eq, VS.planar_y.xy_eq, VS.spatial_z.xy_z_eq, c08_lorentz_t_xy_z_tau, h0, VR.P.nanToNum_eq]


/-! ### `lorentz_Et` -/

theorem c08_lorentz_Et_rhophi_eta_tau (rho phi eta tau : ℝ) (h0 : 0 ≤ tau) :
    VS.lorentz_Et.rhophi_eta_tau rho phi eta tau = VR.lorentz_Et.rhophi_eta_tau rho phi eta tau := by
  simp only [VS.lorentz_Et.rhophi_eta_tau, VR.lorentz_Et.rhophi_eta_tau, VS.lorentz_Et.rhophi_eta_t_eq, c08_lorentz_t_rhophi_eta_tau, h0, VR.P.nanToNum_eq]

theorem c08_lorentz_Et_rhophi_theta_tau (rho phi theta tau : ℝ) (h0 : 0 ≤ tau) :
    VS.lorentz_Et.rhophi_theta_tau rho phi theta tau = VR.lorentz_Et.rhophi_theta_tau rho phi theta tau := by
  simp only [VS.lorentz_Et.rhophi_theta_tau, VR.lorentz_Et.rhophi_theta_tau, VS.lorentz_Et.rhophi_theta_t_eq, c08_lorentz_t_rhophi_theta_tau, h0, VR.P.nanToNum_eq]

theorem c08_lorentz_Et_rhophi_z_tau (rho phi z tau : ℝ) (h0 : 0 ≤ tau) :
    VS.lorentz_Et.rhophi_z_tau rho phi z tau = VR.lorentz_Et.rhophi_z_tau rho phi z tau := by
  simp only [VS.lorentz_Et.rhophi_z_tau, VR.lorentz_Et.rhophi_z_tau, VS.lorentz_Et.rhophi_z_t_eq, c08_lorentz_t_rhophi_z_tau, h0, VR.P.nanToNum_eq]

theorem c08_lorentz_Et_xy_eta_tau (x y eta tau : ℝ) (h0 : 0 ≤ tau) :
    VS.lorentz_Et.xy_eta_tau x y eta tau = VR.lorentz_Et.xy_eta_tau x y eta tau := by
  simp only [VS.lorentz_Et.xy_eta_tau, VR.lorentz_Et.xy_eta_tau, VS.lorentz_Et.xy_eta_t_eq, c08_lorentz_t_xy_eta_tau, h0, VR.P.nanToNum_eq]

theorem c08_lorentz_Et_xy_theta_tau (x y theta tau : ℝ) (h0 : 0 ≤ tau) :
    VS.lorentz_Et.xy_theta_tau x y theta tau = VR.lorentz_Et.xy_theta_tau x y theta tau := by
  simp only [VS.lorentz_Et.xy_theta_tau, VR.lorentz_Et.xy_theta_tau, VS.lorentz_Et.xy_theta_t_eq, c08_lorentz_t_xy_theta_tau, h0, VR.P.nanToNum_eq]

theorem c08_lorentz_Et_xy_z_tau (x y z tau : ℝ) (h0 : 0 ≤ tau) :
    VS.lorentz_Et.xy_z_tau x y z tau = VR.lorentz_Et.xy_z_tau x y z tau := by
  simp only [VS.lorentz_Et.xy_z_tau, VR.lorentz_Et.xy_z_tau, VS.lorentz_Et.xy_z_t_eq, c08_lorentz_t_xy_z_tau, h0, VR.P.nanToNum_eq]


/-! ### `lorentz_Et2` -/

theorem c08_lorentz_Et2_rhophi_eta_tau (rho phi eta tau : ℝ) (h0 : 0 ≤ tau) :
    VS.lorentz_Et2.rhophi_eta_tau rho phi eta tau = VR.lorentz_Et2.rhophi_eta_tau rho phi eta tau := by
  simp only [VS.lorentz_Et2.rhophi_eta_tau, VR.lorentz_Et2.rhophi_eta_tau, VS.lorentz_Et2.rhophi_eta_t_eq, c08_lorentz_t_rhophi_eta_tau, h0, VR.P.nanToNum_eq]

theorem c08_lorentz_Et2_rhophi_theta_tau (rho phi theta tau : ℝ) (h0 : 0 ≤ tau) :
    VS.lorentz_Et2.rhophi_theta_tau rho phi theta tau = VR.lorentz_Et2.rhophi_theta_tau rho phi theta tau := by
  simp only [VS.lorentz_Et2.rhophi_theta_tau, VR.lorentz_Et2.rhophi_theta_tau, VS.lorentz_Et2.rhophi_theta_t_eq, c08_lorentz_t_rhophi_theta_tau, h0, VR.P.nanToNum_eq]

theorem c08_lorentz_Et2_rhophi_z_tau (rho phi z tau : ℝ) (h0 : 0 ≤ tau) :
    VS.lorentz_Et2.rhophi_z_tau rho phi z tau = VR.lorentz_Et2.rhophi_z_tau rho phi z tau := by
  simp only [VS.lorentz_Et2.rhophi_z_tau, VR.lorentz_Et2.rhophi_z_tau, VS.lorentz_Et2.rhophi_z_t_eq, c08_lorentz_t_rhophi_z_tau, h0, VR.P.nanToNum_eq]

theorem c08_lorentz_Et2_xy_eta_tau (x y eta tau : ℝ) (h0 : 0 ≤ tau) :
    VS.lorentz_Et2.xy_eta_tau x y eta tau = VR.lorentz_Et2.xy_eta_tau x y eta tau := by
  simp only [VS.lorentz_Et2.xy_eta_tau, VR.lorentz_Et2.xy_eta_tau, VS.lorentz_Et2.xy_eta_t_eq, c08_lorentz_t_xy_eta_tau, h0, VR.P.nanToNum_eq]

theorem c08_lorentz_Et2_xy_theta_tau (x y theta tau : ℝ) (h0 : 0 ≤ tau) :
    VS.lorentz_Et2.xy_theta_tau x y theta tau = VR.lorentz_Et2.xy_theta_tau x y theta tau := by
  simp only [VS.lorentz_Et2.xy_theta_tau, VR.lorentz_Et2.xy_theta_tau, VS.lorentz_Et2.xy_theta_t_eq, c08_lorentz_t_xy_theta_tau, h0, VR.P.nanToNum_eq]

theorem c08_lorentz_Et2_xy_z_tau (x y z tau : ℝ) (h0 : 0 ≤ tau) :
    VS.lorentz_Et2.xy_z_tau x y z tau = VR.lorentz_Et2.xy_z_tau x y z tau := by
  simp only [VS.lorentz_Et2.xy_z_tau, VR.lorentz_Et2.xy_z_tau, VS.lorentz_Et2.xy_z_t_eq, c08_lorentz_t_xy_z_tau, h0, VR.P.nanToNum_eq]


/-! ### `lorentz_add` -/

theorem c08_lorentz_add_k_rhophi_eta_t_rhophi_eta_tau (coord11 coord12 coord13 coord14 coord21 coord22 coord23 coord24 : ℝ) (h0 : 0 ≤ coord24) :
    VS.lorentz_add.k_rhophi_eta_t_rhophi_eta_tau coord11 coord12 coord13 coord14 coord21 coord22 coord23 coord24 = VR.lorentz_add.k_rhophi_eta_t_rhophi_eta_tau coord11 coord12 coord13 coord14 coord21 coord22 coord23 coord24 := by
  simp only [VS.lorentz_add.k_rhophi_eta_t_rhophi_eta_tau, VR.lorentz_add.k_rhophi_eta_t_rhophi_eta_tau, VS.spatial_add.rhophi_eta_rhophi_eta_eq, VS.lorentz_t.rhophi_eta_t_eq, c08_lorentz_t_rhophi_eta_tau, h0, VR.P.nanToNum_eq]

theorem c08_lorentz_add_k_rhophi_eta_t_rhophi_theta_tau (coord11 coord12 coord13 coord14 coord21 coord22 coord23 coord24 : ℝ) (h0 : 0 ≤ coord24) :
    VS.lorentz_add.k_rhophi_eta_t_rhophi_theta_tau coord11 coord12 coord13 coord14 coord21 coord22 coord23 coord24 = VR.lorentz_add.k_rhophi_eta_t_rhophi_theta_tau coord11 coord12 coord13 coord14 coord21 coord22 coord23 coord24 := by
  simp only [VS.lorentz_add.k_rhophi_eta_t_rhophi_theta_tau, VR.lorentz_add.k_rhophi_eta_t_rhophi_theta_tau, VS.spatial_add.rhophi_eta_rhophi_theta_eq, VS.lorentz_t.rhophi_eta_t_eq, c08_lorentz_t_rhophi_theta_tau, h0, VR.P.nanToNum_eq]

theorem c08_lorentz_add_k_rhophi_eta_t_rhophi_z_tau (coord11 coord12 coord13 coord14 coord21 coord22 coord23 coord24 : ℝ) (h0 : 0 ≤ coord24) :
    VS.lorentz_add.k_rhophi_eta_t_rhophi_z_tau coord11 coord12 coord13 coord14 coord21 coord22 coord23 coord24 = VR.lorentz_add.k_rhophi_eta_t_rhophi_z_tau coord11 coord12 coord13 coord14 coord21 coord22 coord23 coord24 := by
  simp only [VS.lorentz_add.k_rhophi_eta_t_rhophi_z_tau, VR.lorentz_add.k_rhophi_eta_t_rhophi_z_tau, VS.spatial_add.rhophi_eta_rhophi_z_eq, VS.lorentz_t.rhophi_eta_t_eq, c08_lorentz_t_rhophi_z_tau, h0, VR.P.nanToNum_eq]

theorem c08_lorentz_add_k_rhophi_eta_t_xy_eta_tau (coord11 coord12 coord13 coord14 coord21 coord22 coord23 coord24 : ℝ) (h0 : 0 ≤ coord24) :
    VS.lorentz_add.k_rhophi_eta_t_xy_eta_tau coord11 coord12 coord13 coord14 coord21 coord22 coord23 coord24 = VR.lorentz_add.k_rhophi_eta_t_xy_eta_tau coord11 coord12 coord13 coord14 coord21 coord22 coord23 coord24 := by
  simp only [VS.lorentz_add.k_rhophi_eta_t_xy_eta_tau, VR.lorentz_add.k_rhophi_eta_t_xy_eta_tau, VS.spatial_add.rhophi_eta_xy_eta_eq, VS.lorentz_t.rhophi_eta_t_eq, c08_lorentz_t_xy_eta_tau, h0, VR.P.nanToNum_eq]

theorem c08_lorentz_add_k_rhophi_eta_t_xy_theta_tau (coord11 coord12 coord13 coord14 coord21 coord22 coord23 coord24 : ℝ) (h0 : 0 ≤ coord24) :
    VS.lorentz_add.k_rhophi_eta_t_xy_theta_tau coord11 coord12 coord13 coord14 coord21 coord22 coord23 coord24 = VR.lorentz_add.k_rhophi_eta_t_xy_theta_tau coord11 coord12 coord13 coord14 coord21 coord22 coord23 coord24 := by
  simp only [VS.lorentz_add.k_rhophi_eta_t_xy_theta_tau, VR.lorentz_add.k_rhophi_eta_t_xy_theta_tau, VS.spatial_add.rhophi_eta_xy_theta_eq, VS.lorentz_t.rhophi_eta_t_eq, c08_lorentz_t_xy_theta_tau, h0, VR.P.nanToNum_eq]

theorem c08_lorentz_add_k_rhophi_eta_t_xy_z_tau (coord11 coord12 coord13 coord14 coord21 coord22 coord23 coord24 : ℝ) (h0 : 0 ≤ coord24) :
    VS.lorentz_add.k_rhophi_eta_t_xy_z_tau coord11 coord12 coord13 coord14 coord21 coord22 coord23 coord24 = VR.lorentz_add.k_rhophi_eta_t_xy_z_tau coord11 coord12 coord13 coord14 coord21 coord22 coord23 coord24 := by
  simp only [VS.lorentz_add.k_rhophi_eta_t_xy_z_tau, VR.lorentz_add.k_rhophi_eta_t_xy_z_tau, VS.spatial_add.rhophi_eta_xy_z_eq, VS.lorentz_t.rhophi_eta_t_eq, c08_lorentz_t_xy_z_tau, h0, VR.P.nanToNum_eq]

theorem c08_lorentz_add_k_rhophi_eta_tau_rhophi_eta_t (coord11 coord12 coord13 coord14 coord21 coord22 coord23 coord24 : ℝ) (h0 : 0 ≤ coord14) :
    VS.lorentz_add.k_rhophi_eta_tau_rhophi_eta_t coord11 coord12 coord13 coord14 coord21 coord22 coord23 coord24 = VR.lorentz_add.k_rhophi_eta_tau_rhophi_eta_t coord11 coord12 coord13 coord14 coord21 coord22 coord23 coord24 := by
  simp only [VS.lorentz_add.k_rhophi_eta_tau_rhophi_eta_t, VR.lorentz_add.k_rhophi_eta_tau_rhophi_eta_t, VS.spatial_add.rhophi_eta_rhophi_eta_eq, c08_lorentz_t_rhophi_eta_tau, VS.lorentz_t.rhophi_eta_t_eq, h0, VR.P.nanToNum_eq]

theorem c08_lorentz_add_k_rhophi_eta_tau_rhophi_eta_tau (coord11 coord12 coord13 coord14 coord21 coord22 coord23 coord24 : ℝ) (h0 : 0 ≤ coord14) (h1 : 0 ≤ coord24) (hres : 0 ≤ (VR.lorentz_add.k_rhophi_eta_tau_rhophi_eta_tau coord11 coord12 coord13 coord14 coord21 coord22 coord23 coord24).2.2.2) :
    VS.lorentz_add.k_rhophi_eta_tau_rhophi_eta_tau coord11 coord12 coord13 coord14 coord21 coord22 coord23 coord24 = VR.lorentz_add.k_rhophi_eta_tau_rhophi_eta_tau coord11 coord12 coord13 coord14 coord21 coord22 coord23 coord24 := by
  simp only [VR.lorentz_add.k_rhophi_eta_tau_rhophi_eta_tau] at hres
  simp only [VS.lorentz_add.k_rhophi_eta_tau_rhophi_eta_tau, VR.lorentz_add.k_rhophi_eta_tau_rhophi_eta_tau, VS.spatial_add.rhophi_eta_rhophi_eta_eq, c08_lorentz_t_rhophi_eta_tau, c08_lorentz_tau_rhophi_eta_t, h0, h1, VR.P.nanToNum_eq]
  rw [c08_lorentz_tau_rhophi_eta_t_of_result _ _ _ _ hres]

theorem c08_lorentz_add_k_rhophi_eta_tau_rhophi_theta_t (coord11 coord12 coord13 coord14 coord21 coord22 coord23 coord24 : ℝ) (h0 : 0 ≤ coord14) :
    VS.lorentz_add.k_rhophi_eta_tau_rhophi_theta_t coord11 coord12 coord13 coord14 coord21 coord22 coord23 coord24 = VR.lorentz_add.k_rhophi_eta_tau_rhophi_theta_t coord11 coord12 coord13 coord14 coord21 coord22 coord23 coord24 := by
  simp only [VS.lorentz_add.k_rhophi_eta_tau_rhophi_theta_t, VR.lorentz_add.k_rhophi_eta_tau_rhophi_theta_t, VS.spatial_add.rhophi_eta_rhophi_theta_eq, c08_lorentz_t_rhophi_eta_tau, VS.lorentz_t.rhophi_theta_t_eq, h0, VR.P.nanToNum_eq]

theorem c08_lorentz_add_k_rhophi_eta_tau_rhophi_theta_tau (coord11 coord12 coord13 coord14 coord21 coord22 coord23 coord24 : ℝ) (h0 : 0 ≤ coord14) (h1 : 0 ≤ coord24) (hres : 0 ≤ (VR.lorentz_add.k_rhophi_eta_tau_rhophi_theta_tau coord11 coord12 coord13 coord14 coord21 coord22 coord23 coord24).2.2.2) :
    VS.lorentz_add.k_rhophi_eta_tau_rhophi_theta_tau coord11 coord12 coord13 coord14 coord21 coord22 coord23 coord24 = VR.lorentz_add.k_rhophi_eta_tau_rhophi_theta_tau coord11 coord12 coord13 coord14 coord21 coord22 coord23 coord24 := by
  simp only [VR.lorentz_add.k_rhophi_eta_tau_rhophi_theta_tau] at hres
  simp only [VS.lorentz_add.k_rhophi_eta_tau_rhophi_theta_tau, VR.lorentz_add.k_rhophi_eta_tau_rhophi_theta_tau, VS.spatial_add.rhophi_eta_rhophi_theta_eq, c08_lorentz_t_rhophi_eta_tau, c08_lorentz_t_rhophi_theta_tau, c08_lorentz_tau_xy_z_t, h0, h1, VR.P.nanToNum_eq]
  rw [c08_lorentz_tau_xy_z_t_of_result _ _ _ _ hres]

theorem c08_lorentz_add_k_rhophi_eta_tau_rhophi_z_t (coord11 coord12 coord13 coord14 coord21 coord22 coord23 coord24 : ℝ) (h0 : 0 ≤ coord14) :
    VS.lorentz_add.k_rhophi_eta_tau_rhophi_z_t coord11 coord12 coord13 coord14 coord21 coord22 coord23 coord24 = VR.lorentz_add.k_rhophi_eta_tau_rhophi_z_t coord11 coord12 coord13 coord14 coord21 coord22 coord23 coord24 := by
  simp only [VS.lorentz_add.k_rhophi_eta_tau_rhophi_z_t, VR.lorentz_add.k_rhophi_eta_tau_rhophi_z_t, VS.spatial_add.rhophi_eta_rhophi_z_eq, c08_lorentz_t_rhophi_eta_tau, VS.lorentz_t.rhophi_z_t_eq, h0, VR.P.nanToNum_eq]

theorem c08_lorentz_add_k_rhophi_eta_tau_rhophi_z_tau (coord11 coord12 coord13 coord14 coord21 coord22 coord23 coord24 : ℝ) (h0 : 0 ≤ coord14) (h1 : 0 ≤ coord24) (hres : 0 ≤ (VR.lorentz_add.k_rhophi_eta_tau_rhophi_z_tau coord11 coord12 coord13 coord14 coord21 coord22 coord23 coord24).2.2.2) :
    VS.lorentz_add.k_rhophi_eta_tau_rhophi_z_tau coord11 coord12 coord13 coord14 coord21 coord22 coord23 coord24 = VR.lorentz_add.k_rhophi_eta_tau_rhophi_z_tau coord11 coord12 coord13 coord14 coord21 coord22 coord23 coord24 := by
  simp only [VR.lorentz_add.k_rhophi_eta_tau_rhophi_z_tau] at hres
  simp only [VS.lorentz_add.k_rhophi_eta_tau_rhophi_z_tau, VR.lorentz_add.k_rhophi_eta_tau_rhophi_z_tau, VS.spatial_add.rhophi_eta_rhophi_z_eq, c08_lorentz_t_rhophi_eta_tau, c08_lorentz_t_rhophi_z_tau, c08_lorentz_tau_xy_z_t, h0, h1, VR.P.nanToNum_eq]
  rw [c08_lorentz_tau_xy_z_t_of_result _ _ _ _ hres]

theorem c08_lorentz_add_k_rhophi_eta_tau_xy_eta_t (coord11 coord12 coord13 coord14 coord21 coord22 coord23 coord24 : ℝ) (h0 : 0 ≤ coord14) :
    VS.lorentz_add.k_rhophi_eta_tau_xy_eta_t coord11 coord12 coord13 coord14 coord21 coord22 coord23 coord24 = VR.lorentz_add.k_rhophi_eta_tau_xy_eta_t coord11 coord12 coord13 coord14 coord21 coord22 coord23 coord24 := by
  simp only [VS.lorentz_add.k_rhophi_eta_tau_xy_eta_t, VR.lorentz_add.k_rhophi_eta_tau_xy_eta_t, VS.spatial_add.rhophi_eta_xy_eta_eq, c08_lorentz_t_rhophi_eta_tau, VS.lorentz_t.xy_eta_t_eq, h0, VR.P.nanToNum_eq]

theorem c08_lorentz_add_k_rhophi_eta_tau_xy_eta_tau (coord11 coord12 coord13 coord14 coord21 coord22 coord23 coord24 : ℝ) (h0 : 0 ≤ coord14) (h1 : 0 ≤ coord24) (hres : 0 ≤ (VR.lorentz_add.k_rhophi_eta_tau_xy_eta_tau coord11 coord12 coord13 coord14 coord21 coord22 coord23 coord24).2.2.2) :
    VS.lorentz_add.k_rhophi_eta_tau_xy_eta_tau coord11 coord12 coord13 coord14 coord21 coord22 coord23 coord24 = VR.lorentz_add.k_rhophi_eta_tau_xy_eta_tau coord11 coord12 coord13 coord14 coord21 coord22 coord23 coord24 := by
  simp only [VR.lorentz_add.k_rhophi_eta_tau_xy_eta_tau] at hres
  simp only [VS.lorentz_add.k_rhophi_eta_tau_xy_eta_tau, VR.lorentz_add.k_rhophi_eta_tau_xy_eta_tau, VS.spatial_add.rhophi_eta_xy_eta_eq, c08_lorentz_t_rhophi_eta_tau, c08_lorentz_t_xy_eta_tau, c08_lorentz_tau_xy_z_t, h0, h1, VR.P.nanToNum_eq]
  rw [c08_lorentz_tau_xy_z_t_of_result _ _ _ _ hres]

theorem c08_lorentz_add_k_rhophi_eta_tau_xy_theta_t (coord11 coord12 coord13 coord14 coord21 coord22 coord23 coord24 : ℝ) (h0 : 0 ≤ coord14) :
    VS.lorentz_add.k_rhophi_eta_tau_xy_theta_t coord11 coord12 coord13 coord14 coord21 coord22 coord23 coord24 = VR.lorentz_add.k_rhophi_eta_tau_xy_theta_t coord11 coord12 coord13 coord14 coord21 coord22 coord23 coord24 := by
  simp only [VS.lorentz_add.k_rhophi_eta_tau_xy_theta_t, VR.lorentz_add.k_rhophi_eta_tau_xy_theta_t, VS.spatial_add.rhophi_eta_xy_theta_eq, c08_lorentz_t_rhophi_eta_tau, VS.lorentz_t.xy_theta_t_eq, h0, VR.P.nanToNum_eq]

theorem c08_lorentz_add_k_rhophi_eta_tau_xy_theta_tau (coord11 coord12 coord13 coord14 coord21 coord22 coord23 coord24 : ℝ) (h0 : 0 ≤ coord14) (h1 : 0 ≤ coord24) (hres : 0 ≤ (VR.lorentz_add.k_rhophi_eta_tau_xy_theta_tau coord11 coord12 coord13 coord14 coord21 coord22 coord23 coord24).2.2.2) :
    VS.lorentz_add.k_rhophi_eta_tau_xy_theta_tau coord11 coord12 coord13 coord14 coord21 coord22 coord23 coord24 = VR.lorentz_add.k_rhophi_eta_tau_xy_theta_tau coord11 coord12 coord13 coord14 coord21 coord22 coord23 coord24 := by
  simp only [VR.lorentz_add.k_rhophi_eta_tau_xy_theta_tau] at hres
  simp only [VS.lorentz_add.k_rhophi_eta_tau_xy_theta_tau, VR.lorentz_add.k_rhophi_eta_tau_xy_theta_tau, VS.spatial_add.rhophi_eta_xy_theta_eq, c08_lorentz_t_rhophi_eta_tau, c08_lorentz_t_xy_theta_tau, c08_lorentz_tau_xy_z_t, h0, h1, VR.P.nanToNum_eq]
  rw [c08_lorentz_tau_xy_z_t_of_result _ _ _ _ hres]

theorem c08_lorentz_add_k_rhophi_eta_tau_xy_z_t (coord11 coord12 coord13 coord14 coord21 coord22 coord23 coord24 : ℝ) (h0 : 0 ≤ coord14) :
    VS.lorentz_add.k_rhophi_eta_tau_xy_z_t coord11 coord12 coord13 coord14 coord21 coord22 coord23 coord24 = VR.lorentz_add.k_rhophi_eta_tau_xy_z_t coord11 coord12 coord13 coord14 coord21 coord22 coord23 coord24 := by
  simp only [VS.lorentz_add.k_rhophi_eta_tau_xy_z_t, VR.lorentz_add.k_rhophi_eta_tau_xy_z_t, VS.spatial_add.rhophi_eta_xy_z_eq, c08_lorentz_t_rhophi_eta_tau, VS.lorentz_t.xy_z_t_eq, h0, VR.P.nanToNum_eq]

theorem c08_lorentz_add_k_rhophi_eta_tau_xy_z_tau (coord11 coord12 coord13 coord14 coord21 coord22 coord23 coord24 : ℝ) (h0 : 0 ≤ coord14) (h1 : 0 ≤ coord24) (hres : 0 ≤ (VR.lorentz_add.k_rhophi_eta_tau_xy_z_tau coord11 coord12 coord13 coord14 coord21 coord22 coord23 coord24).2.2.2) :
    VS.lorentz_add.k_rhophi_eta_tau_xy_z_tau coord11 coord12 coord13 coord14 coord21 coord22 coord23 coord24 = VR.lorentz_add.k_rhophi_eta_tau_xy_z_tau coord11 coord12 coord13 coord14 coord21 coord22 coord23 coord24 := by
  simp only [VR.lorentz_add.k_rhophi_eta_tau_xy_z_tau] at hres
  simp only [VS.lorentz_add.k_rhophi_eta_tau_xy_z_tau, VR.lorentz_add.k_rhophi_eta_tau_xy_z_tau, VS.spatial_add.rhophi_eta_xy_z_eq, c08_lorentz_t_rhophi_eta_tau, c08_lorentz_t_xy_z_tau, c08_lorentz_tau_xy_z_t, h0, h1, VR.P.nanToNum_eq]
  rw [c08_lorentz_tau_xy_z_t_of_result _ _ _ _ hres]

theorem c08_lorentz_add_k_rhophi_theta_t_rhophi_eta_tau (coord11 coord12 coord13 coord14 coord21 coord22 coord23 coord24 : ℝ) (h0 : 0 ≤ coord24) :
    VS.lorentz_add.k_rhophi_theta_t_rhophi_eta_tau coord11 coord12 coord13 coord14 coord21 coord22 coord23 coord24 = VR.lorentz_add.k_rhophi_theta_t_rhophi_eta_tau coord11 coord12 coord13 coord14 coord21 coord22 coord23 coord24 := by
  simp only [VS.lorentz_add.k_rhophi_theta_t_rhophi_eta_tau, VR.lorentz_add.k_rhophi_theta_t_rhophi_eta_tau, VS.spatial_add.rhophi_theta_rhophi_eta_eq, VS.lorentz_t.rhophi_theta_t_eq, c08_lorentz_t_rhophi_eta_tau, h0, VR.P.nanToNum_eq]

theorem c08_lorentz_add_k_rhophi_theta_t_rhophi_theta_tau (coord11 coord12 coord13 coord14 coord21 coord22 coord23 coord24 : ℝ) (h0 : 0 ≤ coord24) :
    VS.lorentz_add.k_rhophi_theta_t_rhophi_theta_tau coord11 coord12 coord13 coord14 coord21 coord22 coord23 coord24 = VR.lorentz_add.k_rhophi_theta_t_rhophi_theta_tau coord11 coord12 coord13 coord14 coord21 coord22 coord23 coord24 := by
  simp only [VS.lorentz_add.k_rhophi_theta_t_rhophi_theta_tau, VR.lorentz_add.k_rhophi_theta_t_rhophi_theta_tau, VS.spatial_add.rhophi_theta_rhophi_theta_eq, VS.lorentz_t.rhophi_theta_t_eq, c08_lorentz_t_rhophi_theta_tau, h0, VR.P.nanToNum_eq]

theorem c08_lorentz_add_k_rhophi_theta_t_rhophi_z_tau (coord11 coord12 coord13 coord14 coord21 coord22 coord23 coord24 : ℝ) (h0 : 0 ≤ coord24) :
    VS.lorentz_add.k_rhophi_theta_t_rhophi_z_tau coord11 coord12 coord13 coord14 coord21 coord22 coord23 coord24 = VR.lorentz_add.k_rhophi_theta_t_rhophi_z_tau coord11 coord12 coord13 coord14 coord21 coord22 coord23 coord24 := by
  simp only [VS.lorentz_add.k_rhophi_theta_t_rhophi_z_tau, VR.lorentz_add.k_rhophi_theta_t_rhophi_z_tau, VS.spatial_add.rhophi_theta_rhophi_z_eq, VS.lorentz_t.rhophi_theta_t_eq, c08_lorentz_t_rhophi_z_tau, h0, VR.P.nanToNum_eq]

theorem c08_lorentz_add_k_rhophi_theta_t_xy_eta_tau (coord11 coord12 coord13 coord14 coord21 coord22 coord23 coord24 : ℝ) (h0 : 0 ≤ coord24) :
    VS.lorentz_add.k_rhophi_theta_t_xy_eta_tau coord11 coord12 coord13 coord14 coord21 coord22 coord23 coord24 = VR.lorentz_add.k_rhophi_theta_t_xy_eta_tau coord11 coord12 coord13 coord14 coord21 coord22 coord23 coord24 := by
  simp only [VS.lorentz_add.k_rhophi_theta_t_xy_eta_tau, VR.lorentz_add.k_rhophi_theta_t_xy_eta_tau, VS.spatial_add.rhophi_theta_xy_eta_eq, VS.lorentz_t.rhophi_theta_t_eq, c08_lorentz_t_xy_eta_tau, h0, VR.P.nanToNum_eq]

theorem c08_lorentz_add_k_rhophi_theta_t_xy_theta_tau (coord11 coord12 coord13 coord14 coord21 coord22 coord23 coord24 : ℝ) (h0 : 0 ≤ coord24) :
    VS.lorentz_add.k_rhophi_theta_t_xy_theta_tau coord11 coord12 coord13 coord14 coord21 coord22 coord23 coord24 = VR.lorentz_add.k_rhophi_theta_t_xy_theta_tau coord11 coord12 coord13 coord14 coord21 coord22 coord23 coord24 := by
  simp only [VS.lorentz_add.k_rhophi_theta_t_xy_theta_tau, VR.lorentz_add.k_rhophi_theta_t_xy_theta_tau, VS.spatial_add.rhophi_theta_xy_theta_eq, VS.lorentz_t.rhophi_theta_t_eq, c08_lorentz_t_xy_theta_tau, h0, VR.P.nanToNum_eq]

theorem c08_lorentz_add_k_rhophi_theta_t_xy_z_tau (coord11 coord12 coord13 coord14 coord21 coord22 coord23 coord24 : ℝ) (h0 : 0 ≤ coord24) :
    VS.lorentz_add.k_rhophi_theta_t_xy_z_tau coord11 coord12 coord13 coord14 coord21 coord22 coord23 coord24 = VR.lorentz_add.k_rhophi_theta_t_xy_z_tau coord11 coord12 coord13 coord14 coord21 coord22 coord23 coord24 := by
  simp only [VS.lorentz_add.k_rhophi_theta_t_xy_z_tau, VR.lorentz_add.k_rhophi_theta_t_xy_z_tau, VS.spatial_add.rhophi_theta_xy_z_eq, VS.lorentz_t.rhophi_theta_t_eq, c08_lorentz_t_xy_z_tau, h0, VR.P.nanToNum_eq]

theorem c08_lorentz_add_k_rhophi_theta_tau_rhophi_eta_t (coord11 coord12 coord13 coord14 coord21 coord22 coord23 coord24 : ℝ) (h0 : 0 ≤ coord14) :
    VS.lorentz_add.k_rhophi_theta_tau_rhophi_eta_t coord11 coord12 coord13 coord14 coord21 coord22 coord23 coord24 = VR.lorentz_add.k_rhophi_theta_tau_rhophi_eta_t coord11 coord12 coord13 coord14 coord21 coord22 coord23 coord24 := by
  simp only [VS.lorentz_add.k_rhophi_theta_tau_rhophi_eta_t, VR.lorentz_add.k_rhophi_theta_tau_rhophi_eta_t, VS.spatial_add.rhophi_theta_rhophi_eta_eq, c08_lorentz_t_rhophi_theta_tau, VS.lorentz_t.rhophi_eta_t_eq, h0, VR.P.nanToNum_eq]

theorem c08_lorentz_add_k_rhophi_theta_tau_rhophi_eta_tau (coord11 coord12 coord13 coord14 coord21 coord22 coord23 coord24 : ℝ) (h0 : 0 ≤ coord14) (h1 : 0 ≤ coord24) (hres : 0 ≤ (VR.lorentz_add.k_rhophi_theta_tau_rhophi_eta_tau coord11 coord12 coord13 coord14 coord21 coord22 coord23 coord24).2.2.2) :
    VS.lorentz_add.k_rhophi_theta_tau_rhophi_eta_tau coord11 coord12 coord13 coord14 coord21 coord22 coord23 coord24 = VR.lorentz_add.k_rhophi_theta_tau_rhophi_eta_tau coord11 coord12 coord13 coord14 coord21 coord22 coord23 coord24 := by
  simp only [VR.lorentz_add.k_rhophi_theta_tau_rhophi_eta_tau] at hres
  simp only [VS.lorentz_add.k_rhophi_theta_tau_rhophi_eta_tau, VR.lorentz_add.k_rhophi_theta_tau_rhophi_eta_tau, VS.spatial_add.rhophi_theta_rhophi_eta_eq, c08_lorentz_t_rhophi_theta_tau, c08_lorentz_t_rhophi_eta_tau, c08_lorentz_tau_xy_z_t, h0, h1, VR.P.nanToNum_eq]
  rw [c08_lorentz_tau_xy_z_t_of_result _ _ _ _ hres]

theorem c08_lorentz_add_k_rhophi_theta_tau_rhophi_theta_t (coord11 coord12 coord13 coord14 coord21 coord22 coord23 coord24 : ℝ) (h0 : 0 ≤ coord14) :
    VS.lorentz_add.k_rhophi_theta_tau_rhophi_theta_t coord11 coord12 coord13 coord14 coord21 coord22 coord23 coord24 = VR.lorentz_add.k_rhophi_theta_tau_rhophi_theta_t coord11 coord12 coord13 coord14 coord21 coord22 coord23 coord24 := by
  simp only [VS.lorentz_add.k_rhophi_theta_tau_rhophi_theta_t, VR.lorentz_add.k_rhophi_theta_tau_rhophi_theta_t, VS.spatial_add.rhophi_theta_rhophi_theta_eq, c08_lorentz_t_rhophi_theta_tau, VS.lorentz_t.rhophi_theta_t_eq, h0, VR.P.nanToNum_eq]

theorem c08_lorentz_add_k_rhophi_theta_tau_rhophi_theta_tau (coord11 coord12 coord13 coord14 coord21 coord22 coord23 coord24 : ℝ) (h0 : 0 ≤ coord14) (h1 : 0 ≤ coord24) (hres : 0 ≤ (VR.lorentz_add.k_rhophi_theta_tau_rhophi_theta_tau coord11 coord12 coord13 coord14 coord21 coord22 coord23 coord24).2.2.2) :
    VS.lorentz_add.k_rhophi_theta_tau_rhophi_theta_tau coord11 coord12 coord13 coord14 coord21 coord22 coord23 coord24 = VR.lorentz_add.k_rhophi_theta_tau_rhophi_theta_tau coord11 coord12 coord13 coord14 coord21 coord22 coord23 coord24 := by
  simp only [VR.lorentz_add.k_rhophi_theta_tau_rhophi_theta_tau] at hres
  simp only [VS.lorentz_add.k_rhophi_theta_tau_rhophi_theta_tau, VR.lorentz_add.k_rhophi_theta_tau_rhophi_theta_tau, VS.spatial_add.rhophi_theta_rhophi_theta_eq, c08_lorentz_t_rhophi_theta_tau, c08_lorentz_tau_rhophi_theta_t, h0, h1, VR.P.nanToNum_eq]
  rw [c08_lorentz_tau_rhophi_theta_t_of_result _ _ _ _ hres]

theorem c08_lorentz_add_k_rhophi_theta_tau_rhophi_z_t (coord11 coord12 coord13 coord14 coord21 coord22 coord23 coord24 : ℝ) (h0 : 0 ≤ coord14) :
    VS.lorentz_add.k_rhophi_theta_tau_rhophi_z_t coord11 coord12 coord13 coord14 coord21 coord22 coord23 coord24 = VR.lorentz_add.k_rhophi_theta_tau_rhophi_z_t coord11 coord12 coord13 coord14 coord21 coord22 coord23 coord24 := by
  simp only [VS.lorentz_add.k_rhophi_theta_tau_rhophi_z_t, VR.lorentz_add.k_rhophi_theta_tau_rhophi_z_t, VS.spatial_add.rhophi_theta_rhophi_z_eq, c08_lorentz_t_rhophi_theta_tau, VS.lorentz_t.rhophi_z_t_eq, h0, VR.P.nanToNum_eq]

theorem c08_lorentz_add_k_rhophi_theta_tau_rhophi_z_tau (coord11 coord12 coord13 coord14 coord21 coord22 coord23 coord24 : ℝ) (h0 : 0 ≤ coord14) (h1 : 0 ≤ coord24) (hres : 0 ≤ (VR.lorentz_add.k_rhophi_theta_tau_rhophi_z_tau coord11 coord12 coord13 coord14 coord21 coord22 coord23 coord24).2.2.2) :
    VS.lorentz_add.k_rhophi_theta_tau_rhophi_z_tau coord11 coord12 coord13 coord14 coord21 coord22 coord23 coord24 = VR.lorentz_add.k_rhophi_theta_tau_rhophi_z_tau coord11 coord12 coord13 coord14 coord21 coord22 coord23 coord24 := by
  simp only [VR.lorentz_add.k_rhophi_theta_tau_rhophi_z_tau] at hres
  simp only [VS.lorentz_add.k_rhophi_theta_tau_rhophi_z_tau, VR.lorentz_add.k_rhophi_theta_tau_rhophi_z_tau, VS.spatial_add.rhophi_theta_rhophi_z_eq, c08_lorentz_t_rhophi_theta_tau, c08_lorentz_t_rhophi_z_tau, c08_lorentz_tau_xy_z_t, h0, h1, VR.P.nanToNum_eq]
  rw [c08_lorentz_tau_xy_z_t_of_result _ _ _ _ hres]

theorem c08_lorentz_add_k_rhophi_theta_tau_xy_eta_t (coord11 coord12 coord13 coord14 coord21 coord22 coord23 coord24 : ℝ) (h0 : 0 ≤ coord14) :
    VS.lorentz_add.k_rhophi_theta_tau_xy_eta_t coord11 coord12 coord13 coord14 coord21 coord22 coord23 coord24 = VR.lorentz_add.k_rhophi_theta_tau_xy_eta_t coord11 coord12 coord13 coord14 coord21 coord22 coord23 coord24 := by
  simp only [VS.lorentz_add.k_rhophi_theta_tau_xy_eta_t, VR.lorentz_add.k_rhophi_theta_tau_xy_eta_t, VS.spatial_add.rhophi_theta_xy_eta_eq, c08_lorentz_t_rhophi_theta_tau, VS.lorentz_t.xy_eta_t_eq, h0, VR.P.nanToNum_eq]

theorem c08_lorentz_add_k_rhophi_theta_tau_xy_eta_tau (coord11 coord12 coord13 coord14 coord21 coord22 coord23 coord24 : ℝ) (h0 : 0 ≤ coord14) (h1 : 0 ≤ coord24) (hres : 0 ≤ (VR.lorentz_add.k_rhophi_theta_tau_xy_eta_tau coord11 coord12 coord13 coord14 coord21 coord22 coord23 coord24).2.2.2) :
    VS.lorentz_add.k_rhophi_theta_tau_xy_eta_tau coord11 coord12 coord13 coord14 coord21 coord22 coord23 coord24 = VR.lorentz_add.k_rhophi_theta_tau_xy_eta_tau coord11 coord12 coord13 coord14 coord21 coord22 coord23 coord24 := by
  simp only [VR.lorentz_add.k_rhophi_theta_tau_xy_eta_tau] at hres
  simp only [VS.lorentz_add.k_rhophi_theta_tau_xy_eta_tau, VR.lorentz_add.k_rhophi_theta_tau_xy_eta_tau, VS.spatial_add.rhophi_theta_xy_eta_eq, c08_lorentz_t_rhophi_theta_tau, c08_lorentz_t_xy_eta_tau, c08_lorentz_tau_xy_z_t, h0, h1, VR.P.nanToNum_eq]
  rw [c08_lorentz_tau_xy_z_t_of_result _ _ _ _ hres]

theorem c08_lorentz_add_k_rhophi_theta_tau_xy_theta_t (coord11 coord12 coord13 coord14 coord21 coord22 coord23 coord24 : ℝ) (h0 : 0 ≤ coord14) :
    VS.lorentz_add.k_rhophi_theta_tau_xy_theta_t coord11 coord12 coord13 coord14 coord21 coord22 coord23 coord24 = VR.lorentz_add.k_rhophi_theta_tau_xy_theta_t coord11 coord12 coord13 coord14 coord21 coord22 coord23 coord24 := by
  simp only [VS.lorentz_add.k_rhophi_theta_tau_xy_theta_t, VR.lorentz_add.k_rhophi_theta_tau_xy_theta_t, VS.spatial_add.rhophi_theta_xy_theta_eq, c08_lorentz_t_rhophi_theta_tau, VS.lorentz_t.xy_theta_t_eq, h0, VR.P.nanToNum_eq]

theorem c08_lorentz_add_k_rhophi_theta_tau_xy_theta_tau (coord11 coord12 coord13 coord14 coord21 coord22 coord23 coord24 : ℝ) (h0 : 0 ≤ coord14) (h1 : 0 ≤ coord24) (hres : 0 ≤ (VR.lorentz_add.k_rhophi_theta_tau_xy_theta_tau coord11 coord12 coord13 coord14 coord21 coord22 coord23 coord24).2.2.2) :
    VS.lorentz_add.k_rhophi_theta_tau_xy_theta_tau coord11 coord12 coord13 coord14 coord21 coord22 coord23 coord24 = VR.lorentz_add.k_rhophi_theta_tau_xy_theta_tau coord11 coord12 coord13 coord14 coord21 coord22 coord23 coord24 := by
  simp only [VR.lorentz_add.k_rhophi_theta_tau_xy_theta_tau] at hres
  simp only [VS.lorentz_add.k_rhophi_theta_tau_xy_theta_tau, VR.lorentz_add.k_rhophi_theta_tau_xy_theta_tau, VS.spatial_add.rhophi_theta_xy_theta_eq, c08_lorentz_t_rhophi_theta_tau, c08_lorentz_t_xy_theta_tau, c08_lorentz_tau_xy_z_t, h0, h1, VR.P.nanToNum_eq]
  rw [c08_lorentz_tau_xy_z_t_of_result _ _ _ _ hres]

theorem c08_lorentz_add_k_rhophi_theta_tau_xy_z_t (coord11 coord12 coord13 coord14 coord21 coord22 coord23 coord24 : ℝ) (h0 : 0 ≤ coord14) :
    VS.lorentz_add.k_rhophi_theta_tau_xy_z_t coord11 coord12 coord13 coord14 coord21 coord22 coord23 coord24 = VR.lorentz_add.k_rhophi_theta_tau_xy_z_t coord11 coord12 coord13 coord14 coord21 coord22 coord23 coord24 := by
  simp only [VS.lorentz_add.k_rhophi_theta_tau_xy_z_t, VR.lorentz_add.k_rhophi_theta_tau_xy_z_t, VS.spatial_add.rhophi_theta_xy_z_eq, c08_lorentz_t_rhophi_theta_tau, VS.lorentz_t.xy_z_t_eq, h0, VR.P.nanToNum_eq]

theorem c08_lorentz_add_k_rhophi_theta_tau_xy_z_tau (coord11 coord12 coord13 coord14 coord21 coord22 coord23 coord24 : ℝ) (h0 : 0 ≤ coord14) (h1 : 0 ≤ coord24) (hres : 0 ≤ (VR.lorentz_add.k_rhophi_theta_tau_xy_z_tau coord11 coord12 coord13 coord14 coord21 coord22 coord23 coord24).2.2.2) :
    VS.lorentz_add.k_rhophi_theta_tau_xy_z_tau coord11 coord12 coord13 coord14 coord21 coord22 coord23 coord24 = VR.lorentz_add.k_rhophi_theta_tau_xy_z_tau coord11 coord12 coord13 coord14 coord21 coord22 coord23 coord24 := by
  simp only [VR.lorentz_add.k_rhophi_theta_tau_xy_z_tau] at hres
  simp only [VS.lorentz_add.k_rhophi_theta_tau_xy_z_tau, VR.lorentz_add.k_rhophi_theta_tau_xy_z_tau, VS.spatial_add.rhophi_theta_xy_z_eq, c08_lorentz_t_rhophi_theta_tau, c08_lorentz_t_xy_z_tau, c08_lorentz_tau_xy_z_t, h0, h1, VR.P.nanToNum_eq]
  rw [c08_lorentz_tau_xy_z_t_of_result _ _ _ _ hres]

theorem c08_lorentz_add_k_rhophi_z_t_rhophi_eta_tau (coord11 coord12 coord13 coord14 coord21 coord22 coord23 coord24 : ℝ) (h0 : 0 ≤ coord24) :
    VS.lorentz_add.k_rhophi_z_t_rhophi_eta_tau coord11 coord12 coord13 coord14 coord21 coord22 coord23 coord24 = VR.lorentz_add.k_rhophi_z_t_rhophi_eta_tau coord11 coord12 coord13 coord14 coord21 coord22 coord23 coord24 := by
  simp only [VS.lorentz_add.k_rhophi_z_t_rhophi_eta_tau, VR.lorentz_add.k_rhophi_z_t_rhophi_eta_tau, VS.spatial_add.rhophi_z_rhophi_eta_eq, VS.lorentz_t.rhophi_z_t_eq, c08_lorentz_t_rhophi_eta_tau, h0, VR.P.nanToNum_eq]

theorem c08_lorentz_add_k_rhophi_z_t_rhophi_theta_tau (coord11 coord12 coord13 coord14 coord21 coord22 coord23 coord24 : ℝ) (h0 : 0 ≤ coord24) :
    VS.lorentz_add.k_rhophi_z_t_rhophi_theta_tau coord11 coord12 coord13 coord14 coord21 coord22 coord23 coord24 = VR.lorentz_add.k_rhophi_z_t_rhophi_theta_tau coord11 coord12 coord13 coord14 coord21 coord22 coord23 coord24 := by
  simp only [VS.lorentz_add.k_rhophi_z_t_rhophi_theta_tau, VR.lorentz_add.k_rhophi_z_t_rhophi_theta_tau, VS.spatial_add.rhophi_z_rhophi_theta_eq, VS.lorentz_t.rhophi_z_t_eq, c08_lorentz_t_rhophi_theta_tau, h0, VR.P.nanToNum_eq]

theorem c08_lorentz_add_k_rhophi_z_t_rhophi_z_tau (coord11 coord12 coord13 coord14 coord21 coord22 coord23 coord24 : ℝ) (h0 : 0 ≤ coord24) :
    VS.lorentz_add.k_rhophi_z_t_rhophi_z_tau coord11 coord12 coord13 coord14 coord21 coord22 coord23 coord24 = VR.lorentz_add.k_rhophi_z_t_rhophi_z_tau coord11 coord12 coord13 coord14 coord21 coord22 coord23 coord24 := by
  simp only [VS.lorentz_add.k_rhophi_z_t_rhophi_z_tau, VR.lorentz_add.k_rhophi_z_t_rhophi_z_tau, VS.spatial_add.rhophi_z_rhophi_z_eq, VS.lorentz_t.rhophi_z_t_eq, c08_lorentz_t_rhophi_z_tau, h0, VR.P.nanToNum_eq]

theorem c08_lorentz_add_k_rhophi_z_t_xy_eta_tau (coord11 coord12 coord13 coord14 coord21 coord22 coord23 coord24 : ℝ) (h0 : 0 ≤ coord24) :
    VS.lorentz_add.k_rhophi_z_t_xy_eta_tau coord11 coord12 coord13 coord14 coord21 coord22 coord23 coord24 = VR.lorentz_add.k_rhophi_z_t_xy_eta_tau coord11 coord12 coord13 coord14 coord21 coord22 coord23 coord24 := by
  simp only [VS.lorentz_add.k_rhophi_z_t_xy_eta_tau, VR.lorentz_add.k_rhophi_z_t_xy_eta_tau, VS.spatial_add.rhophi_z_xy_eta_eq, VS.lorentz_t.rhophi_z_t_eq, c08_lorentz_t_xy_eta_tau, h0, VR.P.nanToNum_eq]

theorem c08_lorentz_add_k_rhophi_z_t_xy_theta_tau (coord11 coord12 coord13 coord14 coord21 coord22 coord23 coord24 : ℝ) (h0 : 0 ≤ coord24) :
    VS.lorentz_add.k_rhophi_z_t_xy_theta_tau coord11 coord12 coord13 coord14 coord21 coord22 coord23 coord24 = VR.lorentz_add.k_rhophi_z_t_xy_theta_tau coord11 coord12 coord13 coord14 coord21 coord22 coord23 coord24 := by
  simp only [VS.lorentz_add.k_rhophi_z_t_xy_theta_tau, VR.lorentz_add.k_rhophi_z_t_xy_theta_tau, VS.spatial_add.rhophi_z_xy_theta_eq, VS.lorentz_t.rhophi_z_t_eq, c08_lorentz_t_xy_theta_tau, h0, VR.P.nanToNum_eq]

theorem c08_lorentz_add_k_rhophi_z_t_xy_z_tau (coord11 coord12 coord13 coord14 coord21 coord22 coord23 coord24 : ℝ) (h0 : 0 ≤ coord24) :
    VS.lorentz_add.k_rhophi_z_t_xy_z_tau coord11 coord12 coord13 coord14 coord21 coord22 coord23 coord24 = VR.lorentz_add.k_rhophi_z_t_xy_z_tau coord11 coord12 coord13 coord14 coord21 coord22 coord23 coord24 := by
  simp only [VS.lorentz_add.k_rhophi_z_t_xy_z_tau, VR.lorentz_add.k_rhophi_z_t_xy_z_tau, VS.spatial_add.rhophi_z_xy_z_eq, VS.lorentz_t.rhophi_z_t_eq, c08_lorentz_t_xy_z_tau, h0, VR.P.nanToNum_eq]

theorem c08_lorentz_add_k_rhophi_z_tau_rhophi_eta_t (coord11 coord12 coord13 coord14 coord21 coord22 coord23 coord24 : ℝ) (h0 : 0 ≤ coord14) :
    VS.lorentz_add.k_rhophi_z_tau_rhophi_eta_t coord11 coord12 coord13 coord14 coord21 coord22 coord23 coord24 = VR.lorentz_add.k_rhophi_z_tau_rhophi_eta_t coord11 coord12 coord13 coord14 coord21 coord22 coord23 coord24 := by
  simp only [VS.lorentz_add.k_rhophi_z_tau_rhophi_eta_t, VR.lorentz_add.k_rhophi_z_tau_rhophi_eta_t, VS.spatial_add.rhophi_z_rhophi_eta_eq, c08_lorentz_t_rhophi_z_tau, VS.lorentz_t.rhophi_eta_t_eq, h0, VR.P.nanToNum_eq]

theorem c08_lorentz_add_k_rhophi_z_tau_rhophi_eta_tau (coord11 coord12 coord13 coord14 coord21 coord22 coord23 coord24 : ℝ) (h0 : 0 ≤ coord14) (h1 : 0 ≤ coord24) (hres : 0 ≤ (VR.lorentz_add.k_rhophi_z_tau_rhophi_eta_tau coord11 coord12 coord13 coord14 coord21 coord22 coord23 coord24).2.2.2) :
    VS.lorentz_add.k_rhophi_z_tau_rhophi_eta_tau coord11 coord12 coord13 coord14 coord21 coord22 coord23 coord24 = VR.lorentz_add.k_rhophi_z_tau_rhophi_eta_tau coord11 coord12 coord13 coord14 coord21 coord22 coord23 coord24 := by
  simp only [VR.lorentz_add.k_rhophi_z_tau_rhophi_eta_tau] at hres
  simp only [VS.lorentz_add.k_rhophi_z_tau_rhophi_eta_tau, VR.lorentz_add.k_rhophi_z_tau_rhophi_eta_tau, VS.spatial_add.rhophi_z_rhophi_eta_eq, c08_lorentz_t_rhophi_z_tau, c08_lorentz_t_rhophi_eta_tau, c08_lorentz_tau_xy_z_t, h0, h1, VR.P.nanToNum_eq]
  rw [c08_lorentz_tau_xy_z_t_of_result _ _ _ _ hres]

theorem c08_lorentz_add_k_rhophi_z_tau_rhophi_theta_t (coord11 coord12 coord13 coord14 coord21 coord22 coord23 coord24 : ℝ) (h0 : 0 ≤ coord14) :
    VS.lorentz_add.k_rhophi_z_tau_rhophi_theta_t coord11 coord12 coord13 coord14 coord21 coord22 coord23 coord24 = VR.lorentz_add.k_rhophi_z_tau_rhophi_theta_t coord11 coord12 coord13 coord14 coord21 coord22 coord23 coord24 := by
  simp only [VS.lorentz_add.k_rhophi_z_tau_rhophi_theta_t, VR.lorentz_add.k_rhophi_z_tau_rhophi_theta_t, VS.spatial_add.rhophi_z_rhophi_theta_eq, c08_lorentz_t_rhophi_z_tau, VS.lorentz_t.rhophi_theta_t_eq, h0, VR.P.nanToNum_eq]

theorem c08_lorentz_add_k_rhophi_z_tau_rhophi_theta_tau (coord11 coord12 coord13 coord14 coord21 coord22 coord23 coord24 : ℝ) (h0 : 0 ≤ coord14) (h1 : 0 ≤ coord24) (hres : 0 ≤ (VR.lorentz_add.k_rhophi_z_tau_rhophi_theta_tau coord11 coord12 coord13 coord14 coord21 coord22 coord23 coord24).2.2.2) :
    VS.lorentz_add.k_rhophi_z_tau_rhophi_theta_tau coord11 coord12 coord13 coord14 coord21 coord22 coord23 coord24 = VR.lorentz_add.k_rhophi_z_tau_rhophi_theta_tau coord11 coord12 coord13 coord14 coord21 coord22 coord23 coord24 := by
  simp only [VR.lorentz_add.k_rhophi_z_tau_rhophi_theta_tau] at hres
  simp only [VS.lorentz_add.k_rhophi_z_tau_rhophi_theta_tau, VR.lorentz_add.k_rhophi_z_tau_rhophi_theta_tau, VS.spatial_add.rhophi_z_rhophi_theta_eq, c08_lorentz_t_rhophi_z_tau, c08_lorentz_t_rhophi_theta_tau, c08_lorentz_tau_xy_z_t, h0, h1, VR.P.nanToNum_eq]
  rw [c08_lorentz_tau_xy_z_t_of_result _ _ _ _ hres]

theorem c08_lorentz_add_k_rhophi_z_tau_rhophi_z_t (coord11 coord12 coord13 coord14 coord21 coord22 coord23 coord24 : ℝ) (h0 : 0 ≤ coord14) :
    VS.lorentz_add.k_rhophi_z_tau_rhophi_z_t coord11 coord12 coord13 coord14 coord21 coord22 coord23 coord24 = VR.lorentz_add.k_rhophi_z_tau_rhophi_z_t coord11 coord12 coord13 coord14 coord21 coord22 coord23 coord24 := by
  simp only [VS.lorentz_add.k_rhophi_z_tau_rhophi_z_t, VR.lorentz_add.k_rhophi_z_tau_rhophi_z_t, VS.spatial_add.rhophi_z_rhophi_z_eq, c08_lorentz_t_rhophi_z_tau, VS.lorentz_t.rhophi_z_t_eq, h0, VR.P.nanToNum_eq]

theorem c08_lorentz_add_k_rhophi_z_tau_rhophi_z_tau (coord11 coord12 coord13 coord14 coord21 coord22 coord23 coord24 : ℝ) (h0 : 0 ≤ coord14) (h1 : 0 ≤ coord24) (hres : 0 ≤ (VR.lorentz_add.k_rhophi_z_tau_rhophi_z_tau coord11 coord12 coord13 coord14 coord21 coord22 coord23 coord24).2.2.2) :
    VS.lorentz_add.k_rhophi_z_tau_rhophi_z_tau coord11 coord12 coord13 coord14 coord21 coord22 coord23 coord24 = VR.lorentz_add.k_rhophi_z_tau_rhophi_z_tau coord11 coord12 coord13 coord14 coord21 coord22 coord23 coord24 := by
  simp only [VR.lorentz_add.k_rhophi_z_tau_rhophi_z_tau] at hres
  simp only [VS.lorentz_add.k_rhophi_z_tau_rhophi_z_tau, VR.lorentz_add.k_rhophi_z_tau_rhophi_z_tau, VS.spatial_add.rhophi_z_rhophi_z_eq, c08_lorentz_t_rhophi_z_tau, c08_lorentz_tau_rhophi_z_t, h0, h1, VR.P.nanToNum_eq]
  rw [c08_lorentz_tau_rhophi_z_t_of_result _ _ _ _ hres]

theorem c08_lorentz_add_k_rhophi_z_tau_xy_eta_t (coord11 coord12 coord13 coord14 coord21 coord22 coord23 coord24 : ℝ) (h0 : 0 ≤ coord14) :
    VS.lorentz_add.k_rhophi_z_tau_xy_eta_t coord11 coord12 coord13 coord14 coord21 coord22 coord23 coord24 = VR.lorentz_add.k_rhophi_z_tau_xy_eta_t coord11 coord12 coord13 coord14 coord21 coord22 coord23 coord24 := by
  simp only [VS.lorentz_add.k_rhophi_z_tau_xy_eta_t, VR.lorentz_add.k_rhophi_z_tau_xy_eta_t, VS.spatial_add.rhophi_z_xy_eta_eq, c08_lorentz_t_rhophi_z_tau, VS.lorentz_t.xy_eta_t_eq, h0, VR.P.nanToNum_eq]

theorem c08_lorentz_add_k_rhophi_z_tau_xy_eta_tau (coord11 coord12 coord13 coord14 coord21 coord22 coord23 coord24 : ℝ) (h0 : 0 ≤ coord14) (h1 : 0 ≤ coord24) (hres : 0 ≤ (VR.lorentz_add.k_rhophi_z_tau_xy_eta_tau coord11 coord12 coord13 coord14 coord21 coord22 coord23 coord24).2.2.2) :
    VS.lorentz_add.k_rhophi_z_tau_xy_eta_tau coord11 coord12 coord13 coord14 coord21 coord22 coord23 coord24 = VR.lorentz_add.k_rhophi_z_tau_xy_eta_tau coord11 coord12 coord13 coord14 coord21 coord22 coord23 coord24 := by
  simp only [VR.lorentz_add.k_rhophi_z_tau_xy_eta_tau] at hres
  simp only [VS.lorentz_add.k_rhophi_z_tau_xy_eta_tau, VR.lorentz_add.k_rhophi_z_tau_xy_eta_tau, VS.spatial_add.rhophi_z_xy_eta_eq, c08_lorentz_t_rhophi_z_tau, c08_lorentz_t_xy_eta_tau, c08_lorentz_tau_xy_z_t, h0, h1, VR.P.nanToNum_eq]
  rw [c08_lorentz_tau_xy_z_t_of_result _ _ _ _ hres]

theorem c08_lorentz_add_k_rhophi_z_tau_xy_theta_t (coord11 coord12 coord13 coord14 coord21 coord22 coord23 coord24 : ℝ) (h0 : 0 ≤ coord14) :
    VS.lorentz_add.k_rhophi_z_tau_xy_theta_t coord11 coord12 coord13 coord14 coord21 coord22 coord23 coord24 = VR.lorentz_add.k_rhophi_z_tau_xy_theta_t coord11 coord12 coord13 coord14 coord21 coord22 coord23 coord24 := by
  simp only [VS.lorentz_add.k_rhophi_z_tau_xy_theta_t, VR.lorentz_add.k_rhophi_z_tau_xy_theta_t, VS.spatial_add.rhophi_z_xy_theta_eq, c08_lorentz_t_rhophi_z_tau, VS.lorentz_t.xy_theta_t_eq, h0, VR.P.nanToNum_eq]

theorem c08_lorentz_add_k_rhophi_z_tau_xy_theta_tau (coord11 coord12 coord13 coord14 coord21 coord22 coord23 coord24 : ℝ) (h0 : 0 ≤ coord14) (h1 : 0 ≤ coord24) (hres : 0 ≤ (VR.lorentz_add.k_rhophi_z_tau_xy_theta_tau coord11 coord12 coord13 coord14 coord21 coord22 coord23 coord24).2.2.2) :
    VS.lorentz_add.k_rhophi_z_tau_xy_theta_tau coord11 coord12 coord13 coord14 coord21 coord22 coord23 coord24 = VR.lorentz_add.k_rhophi_z_tau_xy_theta_tau coord11 coord12 coord13 coord14 coord21 coord22 coord23 coord24 := by
  simp only [VR.lorentz_add.k_rhophi_z_tau_xy_theta_tau] at hres
  simp only [VS.lorentz_add.k_rhophi_z_tau_xy_theta_tau, VR.lorentz_add.k_rhophi_z_tau_xy_theta_tau, VS.spatial_add.rhophi_z_xy_theta_eq, c08_lorentz_t_rhophi_z_tau, c08_lorentz_t_xy_theta_tau, c08_lorentz_tau_xy_z_t, h0, h1, VR.P.nanToNum_eq]
  rw [c08_lorentz_tau_xy_z_t_of_result _ _ _ _ hres]

theorem c08_lorentz_add_k_rhophi_z_tau_xy_z_t (coord11 coord12 coord13 coord14 coord21 coord22 coord23 coord24 : ℝ) (h0 : 0 ≤ coord14) :
    VS.lorentz_add.k_rhophi_z_tau_xy_z_t coord11 coord12 coord13 coord14 coord21 coord22 coord23 coord24 = VR.lorentz_add.k_rhophi_z_tau_xy_z_t coord11 coord12 coord13 coord14 coord21 coord22 coord23 coord24 := by
  simp only [VS.lorentz_add.k_rhophi_z_tau_xy_z_t, VR.lorentz_add.k_rhophi_z_tau_xy_z_t, VS.spatial_add.rhophi_z_xy_z_eq, c08_lorentz_t_rhophi_z_tau, VS.lorentz_t.xy_z_t_eq, h0, VR.P.nanToNum_eq]

theorem c08_lorentz_add_k_rhophi_z_tau_xy_z_tau (coord11 coord12 coord13 coord14 coord21 coord22 coord23 coord24 : ℝ) (h0 : 0 ≤ coord14) (h1 : 0 ≤ coord24) (hres : 0 ≤ (VR.lorentz_add.k_rhophi_z_tau_xy_z_tau coord11 coord12 coord13 coord14 coord21 coord22 coord23 coord24).2.2.2) :
    VS.lorentz_add.k_rhophi_z_tau_xy_z_tau coord11 coord12 coord13 coord14 coord21 coord22 coord23 coord24 = VR.lorentz_add.k_rhophi_z_tau_xy_z_tau coord11 coord12 coord13 coord14 coord21 coord22 coord23 coord24 := by
  simp only [VR.lorentz_add.k_rhophi_z_tau_xy_z_tau] at hres
  simp only [VS.lorentz_add.k_rhophi_z_tau_xy_z_tau, VR.lorentz_add.k_rhophi_z_tau_xy_z_tau, VS.spatial_add.rhophi_z_xy_z_eq, c08_lorentz_t_rhophi_z_tau, c08_lorentz_t_xy_z_tau, c08_lorentz_tau_xy_z_t, h0, h1, VR.P.nanToNum_eq]
  rw [c08_lorentz_tau_xy_z_t_of_result _ _ _ _ hres]

theorem c08_lorentz_add_k_xy_eta_t_rhophi_eta_tau (coord11 coord12 coord13 coord14 coord21 coord22 coord23 coord24 : ℝ) (h0 : 0 ≤ coord24) :
    VS.lorentz_add.k_xy_eta_t_rhophi_eta_tau coord11 coord12 coord13 coord14 coord21 coord22 coord23 coord24 = VR.lorentz_add.k_xy_eta_t_rhophi_eta_tau coord11 coord12 coord13 coord14 coord21 coord22 coord23 coord24 := by
  simp only [VS.lorentz_add.k_xy_eta_t_rhophi_eta_tau, VR.lorentz_add.k_xy_eta_t_rhophi_eta_tau, VS.spatial_add.xy_eta_rhophi_eta_eq, VS.lorentz_t.xy_eta_t_eq, c08_lorentz_t_rhophi_eta_tau, h0, VR.P.nanToNum_eq]

theorem c08_lorentz_add_k_xy_eta_t_rhophi_theta_tau (coord11 coord12 coord13 coord14 coord21 coord22 coord23 coord24 : ℝ) (h0 : 0 ≤ coord24) :
    VS.lorentz_add.k_xy_eta_t_rhophi_theta_tau coord11 coord12 coord13 coord14 coord21 coord22 coord23 coord24 = VR.lorentz_add.k_xy_eta_t_rhophi_theta_tau coord11 coord12 coord13 coord14 coord21 coord22 coord23 coord24 := by
  simp only [VS.lorentz_add.k_xy_eta_t_rhophi_theta_tau, VR.lorentz_add.k_xy_eta_t_rhophi_theta_tau, VS.spatial_add.xy_eta_rhophi_theta_eq, VS.lorentz_t.xy_eta_t_eq, c08_lorentz_t_rhophi_theta_tau, h0, VR.P.nanToNum_eq]

theorem c08_lorentz_add_k_xy_eta_t_rhophi_z_tau (coord11 coord12 coord13 coord14 coord21 coord22 coord23 coord24 : ℝ) (h0 : 0 ≤ coord24) :
    VS.lorentz_add.k_xy_eta_t_rhophi_z_tau coord11 coord12 coord13 coord14 coord21 coord22 coord23 coord24 = VR.lorentz_add.k_xy_eta_t_rhophi_z_tau coord11 coord12 coord13 coord14 coord21 coord22 coord23 coord24 := by
  simp only [VS.lorentz_add.k_xy_eta_t_rhophi_z_tau, VR.lorentz_add.k_xy_eta_t_rhophi_z_tau, VS.spatial_add.xy_eta_rhophi_z_eq, VS.lorentz_t.xy_eta_t_eq, c08_lorentz_t_rhophi_z_tau, h0, VR.P.nanToNum_eq]

theorem c08_lorentz_add_k_xy_eta_t_xy_eta_tau (coord11 coord12 coord13 coord14 coord21 coord22 coord23 coord24 : ℝ) (h0 : 0 ≤ coord24) :
    VS.lorentz_add.k_xy_eta_t_xy_eta_tau coord11 coord12 coord13 coord14 coord21 coord22 coord23 coord24 = VR.lorentz_add.k_xy_eta_t_xy_eta_tau coord11 coord12 coord13 coord14 coord21 coord22 coord23 coord24 := by
  simp only [VS.lorentz_add.k_xy_eta_t_xy_eta_tau, VR.lorentz_add.k_xy_eta_t_xy_eta_tau, VS.spatial_add.xy_eta_xy_eta_eq, VS.lorentz_t.xy_eta_t_eq, c08_lorentz_t_xy_eta_tau, h0, VR.P.nanToNum_eq]

theorem c08_lorentz_add_k_xy_eta_t_xy_theta_tau (coord11 coord12 coord13 coord14 coord21 coord22 coord23 coord24 : ℝ) (h0 : 0 ≤ coord24) :
    VS.lorentz_add.k_xy_eta_t_xy_theta_tau coord11 coord12 coord13 coord14 coord21 coord22 coord23 coord24 = VR.lorentz_add.k_xy_eta_t_xy_theta_tau coord11 coord12 coord13 coord14 coord21 coord22 coord23 coord24 := by
  simp only [VS.lorentz_add.k_xy_eta_t_xy_theta_tau, VR.lorentz_add.k_xy_eta_t_xy_theta_tau, VS.spatial_add.xy_eta_xy_theta_eq, VS.lorentz_t.xy_eta_t_eq, c08_lorentz_t_xy_theta_tau, h0, VR.P.nanToNum_eq]

theorem c08_lorentz_add_k_xy_eta_t_xy_z_tau (coord11 coord12 coord13 coord14 coord21 coord22 coord23 coord24 : ℝ) (h0 : 0 ≤ coord24) :
    VS.lorentz_add.k_xy_eta_t_xy_z_tau coord11 coord12 coord13 coord14 coord21 coord22 coord23 coord24 = VR.lorentz_add.k_xy_eta_t_xy_z_tau coord11 coord12 coord13 coord14 coord21 coord22 coord23 coord24 := by
  simp only [VS.lorentz_add.k_xy_eta_t_xy_z_tau, VR.lorentz_add.k_xy_eta_t_xy_z_tau, VS.spatial_add.xy_eta_xy_z_eq, VS.lorentz_t.xy_eta_t_eq, c08_lorentz_t_xy_z_tau, h0, VR.P.nanToNum_eq]

theorem c08_lorentz_add_k_xy_eta_tau_rhophi_eta_t (coord11 coord12 coord13 coord14 coord21 coord22 coord23 coord24 : ℝ) (h0 : 0 ≤ coord14) :
    VS.lorentz_add.k_xy_eta_tau_rhophi_eta_t coord11 coord12 coord13 coord14 coord21 coord22 coord23 coord24 = VR.lorentz_add.k_xy_eta_tau_rhophi_eta_t coord11 coord12 coord13 coord14 coord21 coord22 coord23 coord24 := by
  simp only [VS.lorentz_add.k_xy_eta_tau_rhophi_eta_t, VR.lorentz_add.k_xy_eta_tau_rhophi_eta_t, VS.spatial_add.xy_eta_rhophi_eta_eq, c08_lorentz_t_xy_eta_tau, VS.lorentz_t.rhophi_eta_t_eq, h0, VR.P.nanToNum_eq]

theorem c08_lorentz_add_k_xy_eta_tau_rhophi_eta_tau (coord11 coord12 coord13 coord14 coord21 coord22 coord23 coord24 : ℝ) (h0 : 0 ≤ coord14) (h1 : 0 ≤ coord24) (hres : 0 ≤ (VR.lorentz_add.k_xy_eta_tau_rhophi_eta_tau coord11 coord12 coord13 coord14 coord21 coord22 coord23 coord24).2.2.2) :
    VS.lorentz_add.k_xy_eta_tau_rhophi_eta_tau coord11 coord12 coord13 coord14 coord21 coord22 coord23 coord24 = VR.lorentz_add.k_xy_eta_tau_rhophi_eta_tau coord11 coord12 coord13 coord14 coord21 coord22 coord23 coord24 := by
  simp only [VR.lorentz_add.k_xy_eta_tau_rhophi_eta_tau] at hres
  simp only [VS.lorentz_add.k_xy_eta_tau_rhophi_eta_tau, VR.lorentz_add.k_xy_eta_tau_rhophi_eta_tau, VS.spatial_add.xy_eta_rhophi_eta_eq, c08_lorentz_t_xy_eta_tau, c08_lorentz_t_rhophi_eta_tau, c08_lorentz_tau_xy_z_t, h0, h1, VR.P.nanToNum_eq]
  rw [c08_lorentz_tau_xy_z_t_of_result _ _ _ _ hres]

theorem c08_lorentz_add_k_xy_eta_tau_rhophi_theta_t (coord11 coord12 coord13 coord14 coord21 coord22 coord23 coord24 : ℝ) (h0 : 0 ≤ coord14) :
    VS.lorentz_add.k_xy_eta_tau_rhophi_theta_t coord11 coord12 coord13 coord14 coord21 coord22 coord23 coord24 = VR.lorentz_add.k_xy_eta_tau_rhophi_theta_t coord11 coord12 coord13 coord14 coord21 coord22 coord23 coord24 := by
  simp only [VS.lorentz_add.k_xy_eta_tau_rhophi_theta_t, VR.lorentz_add.k_xy_eta_tau_rhophi_theta_t, VS.spatial_add.xy_eta_rhophi_theta_eq, c08_lorentz_t_xy_eta_tau, VS.lorentz_t.rhophi_theta_t_eq, h0, VR.P.nanToNum_eq]

theorem c08_lorentz_add_k_xy_eta_tau_rhophi_theta_tau (coord11 coord12 coord13 coord14 coord21 coord22 coord23 coord24 : ℝ) (h0 : 0 ≤ coord14) (h1 : 0 ≤ coord24) (hres : 0 ≤ (VR.lorentz_add.k_xy_eta_tau_rhophi_theta_tau coord11 coord12 coord13 coord14 coord21 coord22 coord23 coord24).2.2.2) :
    VS.lorentz_add.k_xy_eta_tau_rhophi_theta_tau coord11 coord12 coord13 coord14 coord21 coord22 coord23 coord24 = VR.lorentz_add.k_xy_eta_tau_rhophi_theta_tau coord11 coord12 coord13 coord14 coord21 coord22 coord23 coord24 := by
  simp only [VR.lorentz_add.k_xy_eta_tau_rhophi_theta_tau] at hres
  simp only [VS.lorentz_add.k_xy_eta_tau_rhophi_theta_tau, VR.lorentz_add.k_xy_eta_tau_rhophi_theta_tau, VS.spatial_add.xy_eta_rhophi_theta_eq, c08_lorentz_t_xy_eta_tau, c08_lorentz_t_rhophi_theta_tau, c08_lorentz_tau_xy_z_t, h0, h1, VR.P.nanToNum_eq]
  rw [c08_lorentz_tau_xy_z_t_of_result _ _ _ _ hres]

theorem c08_lorentz_add_k_xy_eta_tau_rhophi_z_t (coord11 coord12 coord13 coord14 coord21 coord22 coord23 coord24 : ℝ) (h0 : 0 ≤ coord14) :
    VS.lorentz_add.k_xy_eta_tau_rhophi_z_t coord11 coord12 coord13 coord14 coord21 coord22 coord23 coord24 = VR.lorentz_add.k_xy_eta_tau_rhophi_z_t coord11 coord12 coord13 coord14 coord21 coord22 coord23 coord24 := by
  simp only [VS.lorentz_add.k_xy_eta_tau_rhophi_z_t, VR.lorentz_add.k_xy_eta_tau_rhophi_z_t, VS.spatial_add.xy_eta_rhophi_z_eq, c08_lorentz_t_xy_eta_tau, VS.lorentz_t.rhophi_z_t_eq, h0, VR.P.nanToNum_eq]

theorem c08_lorentz_add_k_xy_eta_tau_rhophi_z_tau (coord11 coord12 coord13 coord14 coord21 coord22 coord23 coord24 : ℝ) (h0 : 0 ≤ coord14) (h1 : 0 ≤ coord24) (hres : 0 ≤ (VR.lorentz_add.k_xy_eta_tau_rhophi_z_tau coord11 coord12 coord13 coord14 coord21 coord22 coord23 coord24).2.2.2) :
    VS.lorentz_add.k_xy_eta_tau_rhophi_z_tau coord11 coord12 coord13 coord14 coord21 coord22 coord23 coord24 = VR.lorentz_add.k_xy_eta_tau_rhophi_z_tau coord11 coord12 coord13 coord14 coord21 coord22 coord23 coord24 := by
  simp only [VR.lorentz_add.k_xy_eta_tau_rhophi_z_tau] at hres
  simp only [VS.lorentz_add.k_xy_eta_tau_rhophi_z_tau, VR.lorentz_add.k_xy_eta_tau_rhophi_z_tau, VS.spatial_add.xy_eta_rhophi_z_eq, c08_lorentz_t_xy_eta_tau, c08_lorentz_t_rhophi_z_tau, c08_lorentz_tau_xy_z_t, h0, h1, VR.P.nanToNum_eq]
  rw [c08_lorentz_tau_xy_z_t_of_result _ _ _ _ hres]

theorem c08_lorentz_add_k_xy_eta_tau_xy_eta_t (coord11 coord12 coord13 coord14 coord21 coord22 coord23 coord24 : ℝ) (h0 : 0 ≤ coord14) :
    VS.lorentz_add.k_xy_eta_tau_xy_eta_t coord11 coord12 coord13 coord14 coord21 coord22 coord23 coord24 = VR.lorentz_add.k_xy_eta_tau_xy_eta_t coord11 coord12 coord13 coord14 coord21 coord22 coord23 coord24 := by
  simp only [VS.lorentz_add.k_xy_eta_tau_xy_eta_t, VR.lorentz_add.k_xy_eta_tau_xy_eta_t, VS.spatial_add.xy_eta_xy_eta_eq, c08_lorentz_t_xy_eta_tau, VS.lorentz_t.xy_eta_t_eq, h0, VR.P.nanToNum_eq]

theorem c08_lorentz_add_k_xy_eta_tau_xy_eta_tau (coord11 coord12 coord13 coord14 coord21 coord22 coord23 coord24 : ℝ) (h0 : 0 ≤ coord14) (h1 : 0 ≤ coord24) (hres : 0 ≤ (VR.lorentz_add.k_xy_eta_tau_xy_eta_tau coord11 coord12 coord13 coord14 coord21 coord22 coord23 coord24).2.2.2) :
    VS.lorentz_add.k_xy_eta_tau_xy_eta_tau coord11 coord12 coord13 coord14 coord21 coord22 coord23 coord24 = VR.lorentz_add.k_xy_eta_tau_xy_eta_tau coord11 coord12 coord13 coord14 coord21 coord22 coord23 coord24 := by
  simp only [VR.lorentz_add.k_xy_eta_tau_xy_eta_tau] at hres
  simp only [VS.lorentz_add.k_xy_eta_tau_xy_eta_tau, VR.lorentz_add.k_xy_eta_tau_xy_eta_tau, VS.spatial_add.xy_eta_xy_eta_eq, c08_lorentz_t_xy_eta_tau, c08_lorentz_tau_xy_eta_t, h0, h1, VR.P.nanToNum_eq]
  rw [c08_lorentz_tau_xy_eta_t_of_result _ _ _ _ hres]

theorem c08_lorentz_add_k_xy_eta_tau_xy_theta_t (coord11 coord12 coord13 coord14 coord21 coord22 coord23 coord24 : ℝ) (h0 : 0 ≤ coord14) :
    VS.lorentz_add.k_xy_eta_tau_xy_theta_t coord11 coord12 coord13 coord14 coord21 coord22 coord23 coord24 = VR.lorentz_add.k_xy_eta_tau_xy_theta_t coord11 coord12 coord13 coord14 coord21 coord22 coord23 coord24 := by
  simp only [VS.lorentz_add.k_xy_eta_tau_xy_theta_t, VR.lorentz_add.k_xy_eta_tau_xy_theta_t, VS.spatial_add.xy_eta_xy_theta_eq, c08_lorentz_t_xy_eta_tau, VS.lorentz_t.xy_theta_t_eq, h0, VR.P.nanToNum_eq]

theorem c08_lorentz_add_k_xy_eta_tau_xy_theta_tau (coord11 coord12 coord13 coord14 coord21 coord22 coord23 coord24 : ℝ) (h0 : 0 ≤ coord14) (h1 : 0 ≤ coord24) (hres : 0 ≤ (VR.lorentz_add.k_xy_eta_tau_xy_theta_tau coord11 coord12 coord13 coord14 coord21 coord22 coord23 coord24).2.2.2) :
    VS.lorentz_add.k_xy_eta_tau_xy_theta_tau coord11 coord12 coord13 coord14 coord21 coord22 coord23 coord24 = VR.lorentz_add.k_xy_eta_tau_xy_theta_tau coord11 coord12 coord13 coord14 coord21 coord22 coord23 coord24 := by
  simp only [VR.lorentz_add.k_xy_eta_tau_xy_theta_tau] at hres
  simp only [VS.lorentz_add.k_xy_eta_tau_xy_theta_tau, VR.lorentz_add.k_xy_eta_tau_xy_theta_tau, VS.spatial_add.xy_eta_xy_theta_eq, c08_lorentz_t_xy_eta_tau, c08_lorentz_t_xy_theta_tau, c08_lorentz_tau_xy_z_t, h0, h1, VR.P.nanToNum_eq]
  rw [c08_lorentz_tau_xy_z_t_of_result _ _ _ _ hres]

theorem c08_lorentz_add_k_xy_eta_tau_xy_z_t (coord11 coord12 coord13 coord14 coord21 coord22 coord23 coord24 : ℝ) (h0 : 0 ≤ coord14) :
    VS.lorentz_add.k_xy_eta_tau_xy_z_t coord11 coord12 coord13 coord14 coord21 coord22 coord23 coord24 = VR.lorentz_add.k_xy_eta_tau_xy_z_t coord11 coord12 coord13 coord14 coord21 coord22 coord23 coord24 := by
  simp only [VS.lorentz_add.k_xy_eta_tau_xy_z_t, VR.lorentz_add.k_xy_eta_tau_xy_z_t, VS.spatial_add.xy_eta_xy_z_eq, c08_lorentz_t_xy_eta_tau, VS.lorentz_t.xy_z_t_eq, h0, VR.P.nanToNum_eq]

theorem c08_lorentz_add_k_xy_eta_tau_xy_z_tau (coord11 coord12 coord13 coord14 coord21 coord22 coord23 coord24 : ℝ) (h0 : 0 ≤ coord14) (h1 : 0 ≤ coord24) (hres : 0 ≤ (VR.lorentz_add.k_xy_eta_tau_xy_z_tau coord11 coord12 coord13 coord14 coord21 coord22 coord23 coord24).2.2.2) :
    VS.lorentz_add.k_xy_eta_tau_xy_z_tau coord11 coord12 coord13 coord14 coord21 coord22 coord23 coord24 = VR.lorentz_add.k_xy_eta_tau_xy_z_tau coord11 coord12 coord13 coord14 coord21 coord22 coord23 coord24 := by
  simp only [VR.lorentz_add.k_xy_eta_tau_xy_z_tau] at hres
  simp only [VS.lorentz_add.k_xy_eta_tau_xy_z_tau, VR.lorentz_add.k_xy_eta_tau_xy_z_tau, VS.spatial_add.xy_eta_xy_z_eq, c08_lorentz_t_xy_eta_tau, c08_lorentz_t_xy_z_tau, c08_lorentz_tau_xy_z_t, h0, h1, VR.P.nanToNum_eq]
  rw [c08_lorentz_tau_xy_z_t_of_result _ _ _ _ hres]

theorem c08_lorentz_add_k_xy_theta_t_rhophi_eta_tau (coord11 coord12 coord13 coord14 coord21 coord22 coord23 coord24 : ℝ) (h0 : 0 ≤ coord24) :
    VS.lorentz_add.k_xy_theta_t_rhophi_eta_tau coord11 coord12 coord13 coord14 coord21 coord22 coord23 coord24 = VR.lorentz_add.k_xy_theta_t_rhophi_eta_tau coord11 coord12 coord13 coord14 coord21 coord22 coord23 coord24 := by
  simp only [VS.lorentz_add.k_xy_theta_t_rhophi_eta_tau, VR.lorentz_add.k_xy_theta_t_rhophi_eta_tau, VS.spatial_add.xy_theta_rhophi_eta_eq, VS.lorentz_t.xy_theta_t_eq, c08_lorentz_t_rhophi_eta_tau, h0, VR.P.nanToNum_eq]

theorem c08_lorentz_add_k_xy_theta_t_rhophi_theta_tau (coord11 coord12 coord13 coord14 coord21 coord22 coord23 coord24 : ℝ) (h0 : 0 ≤ coord24) :
    VS.lorentz_add.k_xy_theta_t_rhophi_theta_tau coord11 coord12 coord13 coord14 coord21 coord22 coord23 coord24 = VR.lorentz_add.k_xy_theta_t_rhophi_theta_tau coord11 coord12 coord13 coord14 coord21 coord22 coord23 coord24 := by
  simp only [VS.lorentz_add.k_xy_theta_t_rhophi_theta_tau, VR.lorentz_add.k_xy_theta_t_rhophi_theta_tau, VS.spatial_add.xy_theta_rhophi_theta_eq, VS.lorentz_t.xy_theta_t_eq, c08_lorentz_t_rhophi_theta_tau, h0, VR.P.nanToNum_eq]

theorem c08_lorentz_add_k_xy_theta_t_rhophi_z_tau (coord11 coord12 coord13 coord14 coord21 coord22 coord23 coord24 : ℝ) (h0 : 0 ≤ coord24) :
    VS.lorentz_add.k_xy_theta_t_rhophi_z_tau coord11 coord12 coord13 coord14 coord21 coord22 coord23 coord24 = VR.lorentz_add.k_xy_theta_t_rhophi_z_tau coord11 coord12 coord13 coord14 coord21 coord22 coord23 coord24 := by
  simp only [VS.lorentz_add.k_xy_theta_t_rhophi_z_tau, VR.lorentz_add.k_xy_theta_t_rhophi_z_tau, VS.spatial_add.xy_theta_rhophi_z_eq, VS.lorentz_t.xy_theta_t_eq, c08_lorentz_t_rhophi_z_tau, h0, VR.P.nanToNum_eq]

theorem c08_lorentz_add_k_xy_theta_t_xy_eta_tau (coord11 coord12 coord13 coord14 coord21 coord22 coord23 coord24 : ℝ) (h0 : 0 ≤ coord24) :
    VS.lorentz_add.k_xy_theta_t_xy_eta_tau coord11 coord12 coord13 coord14 coord21 coord22 coord23 coord24 = VR.lorentz_add.k_xy_theta_t_xy_eta_tau coord11 coord12 coord13 coord14 coord21 coord22 coord23 coord24 := by
  simp only [VS.lorentz_add.k_xy_theta_t_xy_eta_tau, VR.lorentz_add.k_xy_theta_t_xy_eta_tau, VS.spatial_add.xy_theta_xy_eta_eq, VS.lorentz_t.xy_theta_t_eq, c08_lorentz_t_xy_eta_tau, h0, VR.P.nanToNum_eq]

theorem c08_lorentz_add_k_xy_theta_t_xy_theta_tau (coord11 coord12 coord13 coord14 coord21 coord22 coord23 coord24 : ℝ) (h0 : 0 ≤ coord24) :
    VS.lorentz_add.k_xy_theta_t_xy_theta_tau coord11 coord12 coord13 coord14 coord21 coord22 coord23 coord24 = VR.lorentz_add.k_xy_theta_t_xy_theta_tau coord11 coord12 coord13 coord14 coord21 coord22 coord23 coord24 := by
  simp only [VS.lorentz_add.k_xy_theta_t_xy_theta_tau, VR.lorentz_add.k_xy_theta_t_xy_theta_tau, VS.spatial_add.xy_theta_xy_theta_eq, VS.lorentz_t.xy_theta_t_eq, c08_lorentz_t_xy_theta_tau, h0, VR.P.nanToNum_eq]

theorem c08_lorentz_add_k_xy_theta_t_xy_z_tau (coord11 coord12 coord13 coord14 coord21 coord22 coord23 coord24 : ℝ) (h0 : 0 ≤ coord24) :
    VS.lorentz_add.k_xy_theta_t_xy_z_tau coord11 coord12 coord13 coord14 coord21 coord22 coord23 coord24 = VR.lorentz_add.k_xy_theta_t_xy_z_tau coord11 coord12 coord13 coord14 coord21 coord22 coord23 coord24 := by
  simp only [VS.lorentz_add.k_xy_theta_t_xy_z_tau, VR.lorentz_add.k_xy_theta_t_xy_z_tau, VS.spatial_add.xy_theta_xy_z_eq, VS.lorentz_t.xy_theta_t_eq, c08_lorentz_t_xy_z_tau, h0, VR.P.nanToNum_eq]

theorem c08_lorentz_add_k_xy_theta_tau_rhophi_eta_t (coord11 coord12 coord13 coord14 coord21 coord22 coord23 coord24 : ℝ) (h0 : 0 ≤ coord14) :
    VS.lorentz_add.k_xy_theta_tau_rhophi_eta_t coord11 coord12 coord13 coord14 coord21 coord22 coord23 coord24 = VR.lorentz_add.k_xy_theta_tau_rhophi_eta_t coord11 coord12 coord13 coord14 coord21 coord22 coord23 coord24 := by
  simp only [VS.lorentz_add.k_xy_theta_tau_rhophi_eta_t, VR.lorentz_add.k_xy_theta_tau_rhophi_eta_t, VS.spatial_add.xy_theta_rhophi_eta_eq, c08_lorentz_t_xy_theta_tau, VS.lorentz_t.rhophi_eta_t_eq, h0, VR.P.nanToNum_eq]

theorem c08_lorentz_add_k_xy_theta_tau_rhophi_eta_tau (coord11 coord12 coord13 coord14 coord21 coord22 coord23 coord24 : ℝ) (h0 : 0 ≤ coord14) (h1 : 0 ≤ coord24) (hres : 0 ≤ (VR.lorentz_add.k_xy_theta_tau_rhophi_eta_tau coord11 coord12 coord13 coord14 coord21 coord22 coord23 coord24).2.2.2) :
    VS.lorentz_add.k_xy_theta_tau_rhophi_eta_tau coord11 coord12 coord13 coord14 coord21 coord22 coord23 coord24 = VR.lorentz_add.k_xy_theta_tau_rhophi_eta_tau coord11 coord12 coord13 coord14 coord21 coord22 coord23 coord24 := by
  simp only [VR.lorentz_add.k_xy_theta_tau_rhophi_eta_tau] at hres
  simp only [VS.lorentz_add.k_xy_theta_tau_rhophi_eta_tau, VR.lorentz_add.k_xy_theta_tau_rhophi_eta_tau, VS.spatial_add.xy_theta_rhophi_eta_eq, c08_lorentz_t_xy_theta_tau, c08_lorentz_t_rhophi_eta_tau, c08_lorentz_tau_xy_z_t, h0, h1, VR.P.nanToNum_eq]
  rw [c08_lorentz_tau_xy_z_t_of_result _ _ _ _ hres]

theorem c08_lorentz_add_k_xy_theta_tau_rhophi_theta_t (coord11 coord12 coord13 coord14 coord21 coord22 coord23 coord24 : ℝ) (h0 : 0 ≤ coord14) :
    VS.lorentz_add.k_xy_theta_tau_rhophi_theta_t coord11 coord12 coord13 coord14 coord21 coord22 coord23 coord24 = VR.lorentz_add.k_xy_theta_tau_rhophi_theta_t coord11 coord12 coord13 coord14 coord21 coord22 coord23 coord24 := by
  simp only [VS.lorentz_add.k_xy_theta_tau_rhophi_theta_t, VR.lorentz_add.k_xy_theta_tau_rhophi_theta_t, VS.spatial_add.xy_theta_rhophi_theta_eq, c08_lorentz_t_xy_theta_tau, VS.lorentz_t.rhophi_theta_t_eq, h0, VR.P.nanToNum_eq]

theorem c08_lorentz_add_k_xy_theta_tau_rhophi_theta_tau (coord11 coord12 coord13 coord14 coord21 coord22 coord23 coord24 : ℝ) (h0 : 0 ≤ coord14) (h1 : 0 ≤ coord24) (hres : 0 ≤ (VR.lorentz_add.k_xy_theta_tau_rhophi_theta_tau coord11 coord12 coord13 coord14 coord21 coord22 coord23 coord24).2.2.2) :
    VS.lorentz_add.k_xy_theta_tau_rhophi_theta_tau coord11 coord12 coord13 coord14 coord21 coord22 coord23 coord24 = VR.lorentz_add.k_xy_theta_tau_rhophi_theta_tau coord11 coord12 coord13 coord14 coord21 coord22 coord23 coord24 := by
  simp only [VR.lorentz_add.k_xy_theta_tau_rhophi_theta_tau] at hres
  simp only [VS.lorentz_add.k_xy_theta_tau_rhophi_theta_tau, VR.lorentz_add.k_xy_theta_tau_rhophi_theta_tau, VS.spatial_add.xy_theta_rhophi_theta_eq, c08_lorentz_t_xy_theta_tau, c08_lorentz_t_rhophi_theta_tau, c08_lorentz_tau_xy_z_t, h0, h1, VR.P.nanToNum_eq]
  rw [c08_lorentz_tau_xy_z_t_of_result _ _ _ _ hres]

theorem c08_lorentz_add_k_xy_theta_tau_rhophi_z_t (coord11 coord12 coord13 coord14 coord21 coord22 coord23 coord24 : ℝ) (h0 : 0 ≤ coord14) :
    VS.lorentz_add.k_xy_theta_tau_rhophi_z_t coord11 coord12 coord13 coord14 coord21 coord22 coord23 coord24 = VR.lorentz_add.k_xy_theta_tau_rhophi_z_t coord11 coord12 coord13 coord14 coord21 coord22 coord23 coord24 := by
  simp only [VS.lorentz_add.k_xy_theta_tau_rhophi_z_t, VR.lorentz_add.k_xy_theta_tau_rhophi_z_t, VS.spatial_add.xy_theta_rhophi_z_eq, c08_lorentz_t_xy_theta_tau, VS.lorentz_t.rhophi_z_t_eq, h0, VR.P.nanToNum_eq]

theorem c08_lorentz_add_k_xy_theta_tau_rhophi_z_tau (coord11 coord12 coord13 coord14 coord21 coord22 coord23 coord24 : ℝ) (h0 : 0 ≤ coord14) (h1 : 0 ≤ coord24) (hres : 0 ≤ (VR.lorentz_add.k_xy_theta_tau_rhophi_z_tau coord11 coord12 coord13 coord14 coord21 coord22 coord23 coord24).2.2.2) :
    VS.lorentz_add.k_xy_theta_tau_rhophi_z_tau coord11 coord12 coord13 coord14 coord21 coord22 coord23 coord24 = VR.lorentz_add.k_xy_theta_tau_rhophi_z_tau coord11 coord12 coord13 coord14 coord21 coord22 coord23 coord24 := by
  simp only [VR.lorentz_add.k_xy_theta_tau_rhophi_z_tau] at hres
  simp only [VS.lorentz_add.k_xy_theta_tau_rhophi_z_tau, VR.lorentz_add.k_xy_theta_tau_rhophi_z_tau, VS.spatial_add.xy_theta_rhophi_z_eq, c08_lorentz_t_xy_theta_tau, c08_lorentz_t_rhophi_z_tau, c08_lorentz_tau_xy_z_t, h0, h1, VR.P.nanToNum_eq]
  rw [c08_lorentz_tau_xy_z_t_of_result _ _ _ _ hres]

theorem c08_lorentz_add_k_xy_theta_tau_xy_eta_t (coord11 coord12 coord13 coord14 coord21 coord22 coord23 coord24 : ℝ) (h0 : 0 ≤ coord14) :
    VS.lorentz_add.k_xy_theta_tau_xy_eta_t coord11 coord12 coord13 coord14 coord21 coord22 coord23 coord24 = VR.lorentz_add.k_xy_theta_tau_xy_eta_t coord11 coord12 coord13 coord14 coord21 coord22 coord23 coord24 := by
  simp only [VS.lorentz_add.k_xy_theta_tau_xy_eta_t, VR.lorentz_add.k_xy_theta_tau_xy_eta_t, VS.spatial_add.xy_theta_xy_eta_eq, c08_lorentz_t_xy_theta_tau, VS.lorentz_t.xy_eta_t_eq, h0, VR.P.nanToNum_eq]

theorem c08_lorentz_add_k_xy_theta_tau_xy_eta_tau (coord11 coord12 coord13 coord14 coord21 coord22 coord23 coord24 : ℝ) (h0 : 0 ≤ coord14) (h1 : 0 ≤ coord24) (hres : 0 ≤ (VR.lorentz_add.k_xy_theta_tau_xy_eta_tau coord11 coord12 coord13 coord14 coord21 coord22 coord23 coord24).2.2.2) :
    VS.lorentz_add.k_xy_theta_tau_xy_eta_tau coord11 coord12 coord13 coord14 coord21 coord22 coord23 coord24 = VR.lorentz_add.k_xy_theta_tau_xy_eta_tau coord11 coord12 coord13 coord14 coord21 coord22 coord23 coord24 := by
  simp only [VR.lorentz_add.k_xy_theta_tau_xy_eta_tau] at hres
  simp only [VS.lorentz_add.k_xy_theta_tau_xy_eta_tau, VR.lorentz_add.k_xy_theta_tau_xy_eta_tau, VS.spatial_add.xy_theta_xy_eta_eq, c08_lorentz_t_xy_theta_tau, c08_lorentz_t_xy_eta_tau, c08_lorentz_tau_xy_z_t, h0, h1, VR.P.nanToNum_eq]
  rw [c08_lorentz_tau_xy_z_t_of_result _ _ _ _ hres]

theorem c08_lorentz_add_k_xy_theta_tau_xy_theta_t (coord11 coord12 coord13 coord14 coord21 coord22 coord23 coord24 : ℝ) (h0 : 0 ≤ coord14) :
    VS.lorentz_add.k_xy_theta_tau_xy_theta_t coord11 coord12 coord13 coord14 coord21 coord22 coord23 coord24 = VR.lorentz_add.k_xy_theta_tau_xy_theta_t coord11 coord12 coord13 coord14 coord21 coord22 coord23 coord24 := by
  simp only [VS.lorentz_add.k_xy_theta_tau_xy_theta_t, VR.lorentz_add.k_xy_theta_tau_xy_theta_t, VS.spatial_add.xy_theta_xy_theta_eq, c08_lorentz_t_xy_theta_tau, VS.lorentz_t.xy_theta_t_eq, h0, VR.P.nanToNum_eq]

theorem c08_lorentz_add_k_xy_theta_tau_xy_theta_tau (coord11 coord12 coord13 coord14 coord21 coord22 coord23 coord24 : ℝ) (h0 : 0 ≤ coord14) (h1 : 0 ≤ coord24) (hres : 0 ≤ (VR.lorentz_add.k_xy_theta_tau_xy_theta_tau coord11 coord12 coord13 coord14 coord21 coord22 coord23 coord24).2.2.2) :
    VS.lorentz_add.k_xy_theta_tau_xy_theta_tau coord11 coord12 coord13 coord14 coord21 coord22 coord23 coord24 = VR.lorentz_add.k_xy_theta_tau_xy_theta_tau coord11 coord12 coord13 coord14 coord21 coord22 coord23 coord24 := by
  simp only [VR.lorentz_add.k_xy_theta_tau_xy_theta_tau] at hres
  simp only [VS.lorentz_add.k_xy_theta_tau_xy_theta_tau, VR.lorentz_add.k_xy_theta_tau_xy_theta_tau, VS.spatial_add.xy_theta_xy_theta_eq, c08_lorentz_t_xy_theta_tau, c08_lorentz_tau_xy_theta_t, h0, h1, VR.P.nanToNum_eq]
  rw [c08_lorentz_tau_xy_theta_t_of_result _ _ _ _ hres]

theorem c08_lorentz_add_k_xy_theta_tau_xy_z_t (coord11 coord12 coord13 coord14 coord21 coord22 coord23 coord24 : ℝ) (h0 : 0 ≤ coord14) :
    VS.lorentz_add.k_xy_theta_tau_xy_z_t coord11 coord12 coord13 coord14 coord21 coord22 coord23 coord24 = VR.lorentz_add.k_xy_theta_tau_xy_z_t coord11 coord12 coord13 coord14 coord21 coord22 coord23 coord24 := by
  simp only [VS.lorentz_add.k_xy_theta_tau_xy_z_t, VR.lorentz_add.k_xy_theta_tau_xy_z_t, VS.spatial_add.xy_theta_xy_z_eq, c08_lorentz_t_xy_theta_tau, VS.lorentz_t.xy_z_t_eq, h0, VR.P.nanToNum_eq]

theorem c08_lorentz_add_k_xy_theta_tau_xy_z_tau (coord11 coord12 coord13 coord14 coord21 coord22 coord23 coord24 : ℝ) (h0 : 0 ≤ coord14) (h1 : 0 ≤ coord24) (hres : 0 ≤ (VR.lorentz_add.k_xy_theta_tau_xy_z_tau coord11 coord12 coord13 coord14 coord21 coord22 coord23 coord24).2.2.2) :
    VS.lorentz_add.k_xy_theta_tau_xy_z_tau coord11 coord12 coord13 coord14 coord21 coord22 coord23 coord24 = VR.lorentz_add.k_xy_theta_tau_xy_z_tau coord11 coord12 coord13 coord14 coord21 coord22 coord23 coord24 := by
  simp only [VR.lorentz_add.k_xy_theta_tau_xy_z_tau] at hres
  simp only [VS.lorentz_add.k_xy_theta_tau_xy_z_tau, VR.lorentz_add.k_xy_theta_tau_xy_z_tau, VS.spatial_add.xy_theta_xy_z_eq, c08_lorentz_t_xy_theta_tau, c08_lorentz_t_xy_z_tau, c08_lorentz_tau_xy_z_t, h0, h1, VR.P.nanToNum_eq]
  rw [c08_lorentz_tau_xy_z_t_of_result _ _ _ _ hres]

theorem c08_lorentz_add_k_xy_z_t_rhophi_eta_tau (coord11 coord12 coord13 coord14 coord21 coord22 coord23 coord24 : ℝ) (h0 : 0 ≤ coord24) :
    VS.lorentz_add.k_xy_z_t_rhophi_eta_tau coord11 coord12 coord13 coord14 coord21 coord22 coord23 coord24 = VR.lorentz_add.k_xy_z_t_rhophi_eta_tau coord11 coord12 coord13 coord14 coord21 coord22 coord23 coord24 := by
  simp only [VS.lorentz_add.k_xy_z_t_rhophi_eta_tau, VR.lorentz_add.k_xy_z_t_rhophi_eta_tau, VS.spatial_add.xy_z_rhophi_eta_eq, VS.lorentz_t.xy_z_t_eq, c08_lorentz_t_rhophi_eta_tau, h0, VR.P.nanToNum_eq]

theorem c08_lorentz_add_k_xy_z_t_rhophi_theta_tau (coord11 coord12 coord13 coord14 coord21 coord22 coord23 coord24 : ℝ) (h0 : 0 ≤ coord24) :
    VS.lorentz_add.k_xy_z_t_rhophi_theta_tau coord11 coord12 coord13 coord14 coord21 coord22 coord23 coord24 = VR.lorentz_add.k_xy_z_t_rhophi_theta_tau coord11 coord12 coord13 coord14 coord21 coord22 coord23 coord24 := by
  simp only [VS.lorentz_add.k_xy_z_t_rhophi_theta_tau, VR.lorentz_add.k_xy_z_t_rhophi_theta_tau, VS.spatial_add.xy_z_rhophi_theta_eq, VS.lorentz_t.xy_z_t_eq, c08_lorentz_t_rhophi_theta_tau, h0, VR.P.nanToNum_eq]

theorem c08_lorentz_add_k_xy_z_t_rhophi_z_tau (coord11 coord12 coord13 coord14 coord21 coord22 coord23 coord24 : ℝ) (h0 : 0 ≤ coord24) :
    VS.lorentz_add.k_xy_z_t_rhophi_z_tau coord11 coord12 coord13 coord14 coord21 coord22 coord23 coord24 = VR.lorentz_add.k_xy_z_t_rhophi_z_tau coord11 coord12 coord13 coord14 coord21 coord22 coord23 coord24 := by
  simp only [VS.lorentz_add.k_xy_z_t_rhophi_z_tau, VR.lorentz_add.k_xy_z_t_rhophi_z_tau, VS.spatial_add.xy_z_rhophi_z_eq, VS.lorentz_t.xy_z_t_eq, c08_lorentz_t_rhophi_z_tau, h0, VR.P.nanToNum_eq]

theorem c08_lorentz_add_k_xy_z_t_xy_eta_tau (coord11 coord12 coord13 coord14 coord21 coord22 coord23 coord24 : ℝ) (h0 : 0 ≤ coord24) :
    VS.lorentz_add.k_xy_z_t_xy_eta_tau coord11 coord12 coord13 coord14 coord21 coord22 coord23 coord24 = VR.lorentz_add.k_xy_z_t_xy_eta_tau coord11 coord12 coord13 coord14 coord21 coord22 coord23 coord24 := by
  simp only [VS.lorentz_add.k_xy_z_t_xy_eta_tau, VR.lorentz_add.k_xy_z_t_xy_eta_tau, VS.spatial_add.xy_z_xy_eta_eq, VS.lorentz_t.xy_z_t_eq, c08_lorentz_t_xy_eta_tau, h0, VR.P.nanToNum_eq]

theorem c08_lorentz_add_k_xy_z_t_xy_theta_tau (coord11 coord12 coord13 coord14 coord21 coord22 coord23 coord24 : ℝ) (h0 : 0 ≤ coord24) :
    VS.lorentz_add.k_xy_z_t_xy_theta_tau coord11 coord12 coord13 coord14 coord21 coord22 coord23 coord24 = VR.lorentz_add.k_xy_z_t_xy_theta_tau coord11 coord12 coord13 coord14 coord21 coord22 coord23 coord24 := by
  simp only [VS.lorentz_add.k_xy_z_t_xy_theta_tau, VR.lorentz_add.k_xy_z_t_xy_theta_tau, VS.spatial_add.xy_z_xy_theta_eq, VS.lorentz_t.xy_z_t_eq, c08_lorentz_t_xy_theta_tau, h0, VR.P.nanToNum_eq]

theorem c08_lorentz_add_k_xy_z_t_xy_z_tau (coord11 coord12 coord13 coord14 coord21 coord22 coord23 coord24 : ℝ) (h0 : 0 ≤ coord24) :
    VS.lorentz_add.k_xy_z_t_xy_z_tau coord11 coord12 coord13 coord14 coord21 coord22 coord23 coord24 = VR.lorentz_add.k_xy_z_t_xy_z_tau coord11 coord12 coord13 coord14 coord21 coord22 coord23 coord24 := by
  simp only [VS.lorentz_add.k_xy_z_t_xy_z_tau, VR.lorentz_add.k_xy_z_t_xy_z_tau, VS.spatial_add.xy_z_xy_z_eq, VS.lorentz_t.xy_z_t_eq, c08_lorentz_t_xy_z_tau, h0, VR.P.nanToNum_eq]

theorem c08_lorentz_add_k_xy_z_tau_rhophi_eta_t (coord11 coord12 coord13 coord14 coord21 coord22 coord23 coord24 : ℝ) (h0 : 0 ≤ coord14) :
    VS.lorentz_add.k_xy_z_tau_rhophi_eta_t coord11 coord12 coord13 coord14 coord21 coord22 coord23 coord24 = VR.lorentz_add.k_xy_z_tau_rhophi_eta_t coord11 coord12 coord13 coord14 coord21 coord22 coord23 coord24 := by
  simp only [VS.lorentz_add.k_xy_z_tau_rhophi_eta_t, VR.lorentz_add.k_xy_z_tau_rhophi_eta_t, VS.spatial_add.xy_z_rhophi_eta_eq, c08_lorentz_t_xy_z_tau, VS.lorentz_t.rhophi_eta_t_eq, h0, VR.P.nanToNum_eq]

theorem c08_lorentz_add_k_xy_z_tau_rhophi_eta_tau (coord11 coord12 coord13 coord14 coord21 coord22 coord23 coord24 : ℝ) (h0 : 0 ≤ coord14) (h1 : 0 ≤ coord24) (hres : 0 ≤ (VR.lorentz_add.k_xy_z_tau_rhophi_eta_tau coord11 coord12 coord13 coord14 coord21 coord22 coord23 coord24).2.2.2) :
    VS.lorentz_add.k_xy_z_tau_rhophi_eta_tau coord11 coord12 coord13 coord14 coord21 coord22 coord23 coord24 = VR.lorentz_add.k_xy_z_tau_rhophi_eta_tau coord11 coord12 coord13 coord14 coord21 coord22 coord23 coord24 := by
  simp only [VR.lorentz_add.k_xy_z_tau_rhophi_eta_tau] at hres
  simp only [VS.lorentz_add.k_xy_z_tau_rhophi_eta_tau, VR.lorentz_add.k_xy_z_tau_rhophi_eta_tau, VS.spatial_add.xy_z_rhophi_eta_eq, c08_lorentz_t_xy_z_tau, c08_lorentz_t_rhophi_eta_tau, c08_lorentz_tau_xy_z_t, h0, h1, VR.P.nanToNum_eq]
  rw [c08_lorentz_tau_xy_z_t_of_result _ _ _ _ hres]

theorem c08_lorentz_add_k_xy_z_tau_rhophi_theta_t (coord11 coord12 coord13 coord14 coord21 coord22 coord23 coord24 : ℝ) (h0 : 0 ≤ coord14) :
    VS.lorentz_add.k_xy_z_tau_rhophi_theta_t coord11 coord12 coord13 coord14 coord21 coord22 coord23 coord24 = VR.lorentz_add.k_xy_z_tau_rhophi_theta_t coord11 coord12 coord13 coord14 coord21 coord22 coord23 coord24 := by
  simp only [VS.lorentz_add.k_xy_z_tau_rhophi_theta_t, VR.lorentz_add.k_xy_z_tau_rhophi_theta_t, VS.spatial_add.xy_z_rhophi_theta_eq, c08_lorentz_t_xy_z_tau, VS.lorentz_t.rhophi_theta_t_eq, h0, VR.P.nanToNum_eq]

theorem c08_lorentz_add_k_xy_z_tau_rhophi_theta_tau (coord11 coord12 coord13 coord14 coord21 coord22 coord23 coord24 : ℝ) (h0 : 0 ≤ coord14) (h1 : 0 ≤ coord24) (hres : 0 ≤ (VR.lorentz_add.k_xy_z_tau_rhophi_theta_tau coord11 coord12 coord13 coord14 coord21 coord22 coord23 coord24).2.2.2) :
    VS.lorentz_add.k_xy_z_tau_rhophi_theta_tau coord11 coord12 coord13 coord14 coord21 coord22 coord23 coord24 = VR.lorentz_add.k_xy_z_tau_rhophi_theta_tau coord11 coord12 coord13 coord14 coord21 coord22 coord23 coord24 := by
  simp only [VR.lorentz_add.k_xy_z_tau_rhophi_theta_tau] at hres
  simp only [VS.lorentz_add.k_xy_z_tau_rhophi_theta_tau, VR.lorentz_add.k_xy_z_tau_rhophi_theta_tau, VS.spatial_add.xy_z_rhophi_theta_eq, c08_lorentz_t_xy_z_tau, c08_lorentz_t_rhophi_theta_tau, c08_lorentz_tau_xy_z_t, h0, h1, VR.P.nanToNum_eq]
  rw [c08_lorentz_tau_xy_z_t_of_result _ _ _ _ hres]

theorem c08_lorentz_add_k_xy_z_tau_rhophi_z_t (coord11 coord12 coord13 coord14 coord21 coord22 coord23 coord24 : ℝ) (h0 : 0 ≤ coord14) :
    VS.lorentz_add.k_xy_z_tau_rhophi_z_t coord11 coord12 coord13 coord14 coord21 coord22 coord23 coord24 = VR.lorentz_add.k_xy_z_tau_rhophi_z_t coord11 coord12 coord13 coord14 coord21 coord22 coord23 coord24 := by
  simp only [VS.lorentz_add.k_xy_z_tau_rhophi_z_t, VR.lorentz_add.k_xy_z_tau_rhophi_z_t, VS.spatial_add.xy_z_rhophi_z_eq, c08_lorentz_t_xy_z_tau, VS.lorentz_t.rhophi_z_t_eq, h0, VR.P.nanToNum_eq]

theorem c08_lorentz_add_k_xy_z_tau_rhophi_z_tau (coord11 coord12 coord13 coord14 coord21 coord22 coord23 coord24 : ℝ) (h0 : 0 ≤ coord14) (h1 : 0 ≤ coord24) (hres : 0 ≤ (VR.lorentz_add.k_xy_z_tau_rhophi_z_tau coord11 coord12 coord13 coord14 coord21 coord22 coord23 coord24).2.2.2) :
    VS.lorentz_add.k_xy_z_tau_rhophi_z_tau coord11 coord12 coord13 coord14 coord21 coord22 coord23 coord24 = VR.lorentz_add.k_xy_z_tau_rhophi_z_tau coord11 coord12 coord13 coord14 coord21 coord22 coord23 coord24 := by
  simp only [VR.lorentz_add.k_xy_z_tau_rhophi_z_tau] at hres
  simp only [VS.lorentz_add.k_xy_z_tau_rhophi_z_tau, VR.lorentz_add.k_xy_z_tau_rhophi_z_tau, VS.spatial_add.xy_z_rhophi_z_eq, c08_lorentz_t_xy_z_tau, c08_lorentz_t_rhophi_z_tau, c08_lorentz_tau_xy_z_t, h0, h1, VR.P.nanToNum_eq]
  rw [c08_lorentz_tau_xy_z_t_of_result _ _ _ _ hres]

theorem c08_lorentz_add_k_xy_z_tau_xy_eta_t (coord11 coord12 coord13 coord14 coord21 coord22 coord23 coord24 : ℝ) (h0 : 0 ≤ coord14) :
    VS.lorentz_add.k_xy_z_tau_xy_eta_t coord11 coord12 coord13 coord14 coord21 coord22 coord23 coord24 = VR.lorentz_add.k_xy_z_tau_xy_eta_t coord11 coord12 coord13 coord14 coord21 coord22 coord23 coord24 := by
  simp only [VS.lorentz_add.k_xy_z_tau_xy_eta_t, VR.lorentz_add.k_xy_z_tau_xy_eta_t, VS.spatial_add.xy_z_xy_eta_eq, c08_lorentz_t_xy_z_tau, VS.lorentz_t.xy_eta_t_eq, h0, VR.P.nanToNum_eq]

theorem c08_lorentz_add_k_xy_z_tau_xy_eta_tau (coord11 coord12 coord13 coord14 coord21 coord22 coord23 coord24 : ℝ) (h0 : 0 ≤ coord14) (h1 : 0 ≤ coord24) (hres : 0 ≤ (VR.lorentz_add.k_xy_z_tau_xy_eta_tau coord11 coord12 coord13 coord14 coord21 coord22 coord23 coord24).2.2.2) :
    VS.lorentz_add.k_xy_z_tau_xy_eta_tau coord11 coord12 coord13 coord14 coord21 coord22 coord23 coord24 = VR.lorentz_add.k_xy_z_tau_xy_eta_tau coord11 coord12 coord13 coord14 coord21 coord22 coord23 coord24 := by
  simp only [VR.lorentz_add.k_xy_z_tau_xy_eta_tau] at hres
  simp only [VS.lorentz_add.k_xy_z_tau_xy_eta_tau, VR.lorentz_add.k_xy_z_tau_xy_eta_tau, VS.spatial_add.xy_z_xy_eta_eq, c08_lorentz_t_xy_z_tau, c08_lorentz_t_xy_eta_tau, c08_lorentz_tau_xy_z_t, h0, h1, VR.P.nanToNum_eq]
  rw [c08_lorentz_tau_xy_z_t_of_result _ _ _ _ hres]

theorem c08_lorentz_add_k_xy_z_tau_xy_theta_t (coord11 coord12 coord13 coord14 coord21 coord22 coord23 coord24 : ℝ) (h0 : 0 ≤ coord14) :
    VS.lorentz_add.k_xy_z_tau_xy_theta_t coord11 coord12 coord13 coord14 coord21 coord22 coord23 coord24 = VR.lorentz_add.k_xy_z_tau_xy_theta_t coord11 coord12 coord13 coord14 coord21 coord22 coord23 coord24 := by
  simp only [VS.lorentz_add.k_xy_z_tau_xy_theta_t, VR.lorentz_add.k_xy_z_tau_xy_theta_t, VS.spatial_add.xy_z_xy_theta_eq, c08_lorentz_t_xy_z_tau, VS.lorentz_t.xy_theta_t_eq, h0, VR.P.nanToNum_eq]

theorem c08_lorentz_add_k_xy_z_tau_xy_theta_tau (coord11 coord12 coord13 coord14 coord21 coord22 coord23 coord24 : ℝ) (h0 : 0 ≤ coord14) (h1 : 0 ≤ coord24) (hres : 0 ≤ (VR.lorentz_add.k_xy_z_tau_xy_theta_tau coord11 coord12 coord13 coord14 coord21 coord22 coord23 coord24).2.2.2) :
    VS.lorentz_add.k_xy_z_tau_xy_theta_tau coord11 coord12 coord13 coord14 coord21 coord22 coord23 coord24 = VR.lorentz_add.k_xy_z_tau_xy_theta_tau coord11 coord12 coord13 coord14 coord21 coord22 coord23 coord24 := by
  simp only [VR.lorentz_add.k_xy_z_tau_xy_theta_tau] at hres
  simp only [VS.lorentz_add.k_xy_z_tau_xy_theta_tau, VR.lorentz_add.k_xy_z_tau_xy_theta_tau, VS.spatial_add.xy_z_xy_theta_eq, c08_lorentz_t_xy_z_tau, c08_lorentz_t_xy_theta_tau, c08_lorentz_tau_xy_z_t, h0, h1, VR.P.nanToNum_eq]
  rw [c08_lorentz_tau_xy_z_t_of_result _ _ _ _ hres]

theorem c08_lorentz_add_k_xy_z_tau_xy_z_t (coord11 coord12 coord13 coord14 coord21 coord22 coord23 coord24 : ℝ) (h0 : 0 ≤ coord14) :
    VS.lorentz_add.k_xy_z_tau_xy_z_t coord11 coord12 coord13 coord14 coord21 coord22 coord23 coord24 = VR.lorentz_add.k_xy_z_tau_xy_z_t coord11 coord12 coord13 coord14 coord21 coord22 coord23 coord24 := by
  simp only [VS.lorentz_add.k_xy_z_tau_xy_z_t, VR.lorentz_add.k_xy_z_tau_xy_z_t, VS.spatial_add.xy_z_xy_z_eq, c08_lorentz_t_xy_z_tau, VS.lorentz_t.xy_z_t_eq, h0, VR.P.nanToNum_eq]

theorem c08_lorentz_add_k_xy_z_tau_xy_z_tau (coord11 coord12 coord13 coord14 coord21 coord22 coord23 coord24 : ℝ) (h0 : 0 ≤ coord14) (h1 : 0 ≤ coord24) (hres : 0 ≤ (VR.lorentz_add.k_xy_z_tau_xy_z_tau coord11 coord12 coord13 coord14 coord21 coord22 coord23 coord24).2.2.2) :
    VS.lorentz_add.k_xy_z_tau_xy_z_tau coord11 coord12 coord13 coord14 coord21 coord22 coord23 coord24 = VR.lorentz_add.k_xy_z_tau_xy_z_tau coord11 coord12 coord13 coord14 coord21 coord22 coord23 coord24 := by
  simp only [VR.lorentz_add.k_xy_z_tau_xy_z_tau] at hres
  simp only [VS.lorentz_add.k_xy_z_tau_xy_z_tau, VR.lorentz_add.k_xy_z_tau_xy_z_tau, VS.spatial_add.xy_z_xy_z_eq, c08_lorentz_t_xy_z_tau, c08_lorentz_tau_xy_z_t, h0, h1, VR.P.nanToNum_eq]
  rw [c08_lorentz_tau_xy_z_t_of_result _ _ _ _ hres]


/-! ### `lorentz_beta` -/

theorem c08_lorentz_beta_rhophi_eta_tau (rho phi eta tau : ℝ) (h0 : 0 ≤ tau) :
    VS.lorentz_beta.rhophi_eta_tau rho phi eta tau = VR.lorentz_beta.rhophi_eta_tau rho phi eta tau := by
  simp only [VS.lorentz_beta.rhophi_eta_tau, VR.lorentz_beta.rhophi_eta_tau, VS.spatial_mag.rhophi_eta_eq, c08_lorentz_t_rhophi_eta_tau, h0, VR.P.nanToNum_eq]

theorem c08_lorentz_beta_rhophi_theta_tau (rho phi theta tau : ℝ) (h0 : 0 ≤ tau) :
    VS.lorentz_beta.rhophi_theta_tau rho phi theta tau = VR.lorentz_beta.rhophi_theta_tau rho phi theta tau := by
  simp only [VS.lorentz_beta.rhophi_theta_tau, VR.lorentz_beta.rhophi_theta_tau, VS.spatial_mag.rhophi_theta_eq, c08_lorentz_t_rhophi_theta_tau, h0, VR.P.nanToNum_eq]

theorem c08_lorentz_beta_rhophi_z_tau (rho phi z tau : ℝ) (h0 : 0 ≤ tau) :
    VS.lorentz_beta.rhophi_z_tau rho phi z tau = VR.lorentz_beta.rhophi_z_tau rho phi z tau := by
  simp only [VS.lorentz_beta.rhophi_z_tau, VR.lorentz_beta.rhophi_z_tau, VS.spatial_mag.rhophi_z_eq, c08_lorentz_t_rhophi_z_tau, h0, VR.P.nanToNum_eq]

theorem c08_lorentz_beta_xy_eta_tau (x y eta tau : ℝ) (h0 : 0 ≤ tau) :
    VS.lorentz_beta.xy_eta_tau x y eta tau = VR.lorentz_beta.xy_eta_tau x y eta tau := by
  simp only [VS.lorentz_beta.xy_eta_tau, VR.lorentz_beta.xy_eta_tau, VS.spatial_mag.xy_eta_eq, c08_lorentz_t_xy_eta_tau, h0, VR.P.nanToNum_eq]

theorem c08_lorentz_beta_xy_theta_tau (x y theta tau : ℝ) (h0 : 0 ≤ tau) :
    VS.lorentz_beta.xy_theta_tau x y theta tau = VR.lorentz_beta.xy_theta_tau x y theta tau := by
  simp only [VS.lorentz_beta.xy_theta_tau, VR.lorentz_beta.xy_theta_tau, VS.spatial_mag.xy_theta_eq, c08_lorentz_t_xy_theta_tau, h0, VR.P.nanToNum_eq]

theorem c08_lorentz_beta_xy_z_tau (x y z tau : ℝ) (h0 : 0 ≤ tau) :
    VS.lorentz_beta.xy_z_tau x y z tau = VR.lorentz_beta.xy_z_tau x y z tau := by
  simp only [VS.lorentz_beta.xy_z_tau, VR.lorentz_beta.xy_z_tau, VS.spatial_mag.xy_z_eq, c08_lorentz_t_xy_z_tau, h0, VR.P.nanToNum_eq]


/-! ### `lorentz_boostX_beta` -/

theorem c08_lorentz_boostX_beta_rhophi_eta_tau (beta rho phi eta tau : ℝ) (h0 : 0 ≤ tau) :
    VS.lorentz_boostX_beta.rhophi_eta_tau beta rho phi eta tau = VR.lorentz_boostX_beta.rhophi_eta_tau beta rho phi eta tau := by
  simp only [VS.lorentz_boostX_beta.rhophi_eta_tau, VR.lorentz_boostX_beta.rhophi_eta_tau, VS.planar_x.rhophi_eq, VS.planar_y.rhophi_eq, VS.spatial_z.rhophi_eta_eq, c08_lorentz_t_rhophi_eta_tau, h0, VR.P.nanToNum_eq]

theorem c08_lorentz_boostX_beta_rhophi_theta_tau (beta rho phi theta tau : ℝ) (h0 : 0 ≤ tau) :
    VS.lorentz_boostX_beta.rhophi_theta_tau beta rho phi theta tau = VR.lorentz_boostX_beta.rhophi_theta_tau beta rho phi theta tau := by
  simp only [VS.lorentz_boostX_beta.rhophi_theta_tau, VR.lorentz_boostX_beta.rhophi_theta_tau, VS.planar_x.rhophi_eq, VS.planar_y.rhophi_eq, VS.spatial_z.rhophi_theta_eq, c08_lorentz_t_rhophi_theta_tau, h0, VR.P.nanToNum_eq]

theorem c08_lorentz_boostX_beta_rhophi_z_tau (beta rho phi z tau : ℝ) (h0 : 0 ≤ tau) :
    VS.lorentz_boostX_beta.rhophi_z_tau beta rho phi z tau = VR.lorentz_boostX_beta.rhophi_z_tau beta rho phi z tau := by
  simp only [VS.lorentz_boostX_beta.rhophi_z_tau, VR.lorentz_boostX_beta.rhophi_z_tau, VS.planar_x.rhophi_eq, VS.planar_y.rhophi_eq, c08_lorentz_t_rhophi_z_tau, h0, VR.P.nanToNum_eq]

theorem c08_lorentz_boostX_beta_xy_eta_tau (beta x y eta tau : ℝ) (h0 : 0 ≤ tau) :
    VS.lorentz_boostX_beta.xy_eta_tau beta x y eta tau = VR.lorentz_boostX_beta.xy_eta_tau beta x y eta tau := by
  simp only [VS.lorentz_boostX_beta.xy_eta_tau, VR.lorentz_boostX_beta.xy_eta_tau, VS.spatial_z.xy_eta_eq, c08_lorentz_t_xy_eta_tau, h0, VR.P.nanToNum_eq]

theorem c08_lorentz_boostX_beta_xy_theta_tau (beta x y theta tau : ℝ) (h0 : 0 ≤ tau) :
    VS.lorentz_boostX_beta.xy_theta_tau beta x y theta tau = VR.lorentz_boostX_beta.xy_theta_tau beta x y theta tau := by
  simp only [VS.lorentz_boostX_beta.xy_theta_tau, VR.lorentz_boostX_beta.xy_theta_tau, VS.spatial_z.xy_theta_eq, c08_lorentz_t_xy_theta_tau, h0, VR.P.nanToNum_eq]

theorem c08_lorentz_boostX_beta_xy_z_tau (beta x y z tau : ℝ) (h0 : 0 ≤ tau) :
    VS.lorentz_boostX_beta.xy_z_tau beta x y z tau = VR.lorentz_boostX_beta.xy_z_tau beta x y z tau := by
  simp only [VS.lorentz_boostX_beta.xy_z_tau, VR.lorentz_boostX_beta.xy_z_tau, c08_lorentz_t_xy_z_tau, h0, VR.P.nanToNum_eq]


/-! ### `lorentz_boostX_gamma` -/

theorem c08_lorentz_boostX_gamma_rhophi_eta_t (gamma rho phi eta t : ℝ) (hgamma : 0 ≤ gamma) :
    VS.lorentz_boostX_gamma.rhophi_eta_t gamma rho phi eta t = VR.lorentz_boostX_gamma.rhophi_eta_t gamma rho phi eta t := by
  simp only [VS.lorentz_boostX_gamma.rhophi_eta_t, VR.lorentz_boostX_gamma.rhophi_eta_t, VS.planar_x.rhophi_eq, VS.planar_y.rhophi_eq, VS.spatial_z.rhophi_eta_eq, hgamma, c08_copysign_nonneg (Real.sqrt_nonneg _) hgamma, VR.P.nanToNum_eq]

theorem c08_lorentz_boostX_gamma_rhophi_eta_tau (gamma rho phi eta tau : ℝ) (hgamma : 0 ≤ gamma) (h1 : 0 ≤ tau) :
    VS.lorentz_boostX_gamma.rhophi_eta_tau gamma rho phi eta tau = VR.lorentz_boostX_gamma.rhophi_eta_tau gamma rho phi eta tau := by
  simp only [VS.lorentz_boostX_gamma.rhophi_eta_tau, VR.lorentz_boostX_gamma.rhophi_eta_tau, VS.planar_x.rhophi_eq, VS.planar_y.rhophi_eq, VS.spatial_z.rhophi_eta_eq, c08_lorentz_t_rhophi_eta_tau, hgamma, h1, c08_copysign_nonneg (Real.sqrt_nonneg _) hgamma, VR.P.nanToNum_eq]

theorem c08_lorentz_boostX_gamma_rhophi_theta_t (gamma rho phi theta t : ℝ) (hgamma : 0 ≤ gamma) :
    VS.lorentz_boostX_gamma.rhophi_theta_t gamma rho phi theta t = VR.lorentz_boostX_gamma.rhophi_theta_t gamma rho phi theta t := by
  simp only [VS.lorentz_boostX_gamma.rhophi_theta_t, VR.lorentz_boostX_gamma.rhophi_theta_t, VS.planar_x.rhophi_eq, VS.planar_y.rhophi_eq, VS.spatial_z.rhophi_theta_eq, hgamma, c08_copysign_nonneg (Real.sqrt_nonneg _) hgamma, VR.P.nanToNum_eq]

theorem c08_lorentz_boostX_gamma_rhophi_theta_tau (gamma rho phi theta tau : ℝ) (hgamma : 0 ≤ gamma) (h1 : 0 ≤ tau) :
    VS.lorentz_boostX_gamma.rhophi_theta_tau gamma rho phi theta tau = VR.lorentz_boostX_gamma.rhophi_theta_tau gamma rho phi theta tau := by
  simp only [VS.lorentz_boostX_gamma.rhophi_theta_tau, VR.lorentz_boostX_gamma.rhophi_theta_tau, VS.planar_x.rhophi_eq, VS.planar_y.rhophi_eq, VS.spatial_z.rhophi_theta_eq, c08_lorentz_t_rhophi_theta_tau, hgamma, h1, c08_copysign_nonneg (Real.sqrt_nonneg _) hgamma, VR.P.nanToNum_eq]

theorem c08_lorentz_boostX_gamma_rhophi_z_t (gamma rho phi z t : ℝ) (hgamma : 0 ≤ gamma) :
    VS.lorentz_boostX_gamma.rhophi_z_t gamma rho phi z t = VR.lorentz_boostX_gamma.rhophi_z_t gamma rho phi z t := by
  simp only [VS.lorentz_boostX_gamma.rhophi_z_t, VR.lorentz_boostX_gamma.rhophi_z_t, VS.planar_x.rhophi_eq, VS.planar_y.rhophi_eq, hgamma, c08_copysign_nonneg (Real.sqrt_nonneg _) hgamma, VR.P.nanToNum_eq]

theorem c08_lorentz_boostX_gamma_rhophi_z_tau (gamma rho phi z tau : ℝ) (hgamma : 0 ≤ gamma) (h1 : 0 ≤ tau) :
    VS.lorentz_boostX_gamma.rhophi_z_tau gamma rho phi z tau = VR.lorentz_boostX_gamma.rhophi_z_tau gamma rho phi z tau := by
  simp only [VS.lorentz_boostX_gamma.rhophi_z_tau, VR.lorentz_boostX_gamma.rhophi_z_tau, VS.planar_x.rhophi_eq, VS.planar_y.rhophi_eq, c08_lorentz_t_rhophi_z_tau, hgamma, h1, c08_copysign_nonneg (Real.sqrt_nonneg _) hgamma, VR.P.nanToNum_eq]

theorem c08_lorentz_boostX_gamma_xy_eta_t (gamma x y eta t : ℝ) (hgamma : 0 ≤ gamma) :
    VS.lorentz_boostX_gamma.xy_eta_t gamma x y eta t = VR.lorentz_boostX_gamma.xy_eta_t gamma x y eta t := by
  simp only [VS.lorentz_boostX_gamma.xy_eta_t, VR.lorentz_boostX_gamma.xy_eta_t, VS.spatial_z.xy_eta_eq, hgamma, c08_copysign_nonneg (Real.sqrt_nonneg _) hgamma, VR.P.nanToNum_eq]

theorem c08_lorentz_boostX_gamma_xy_eta_tau (gamma x y eta tau : ℝ) (hgamma : 0 ≤ gamma) (h1 : 0 ≤ tau) :
    VS.lorentz_boostX_gamma.xy_eta_tau gamma x y eta tau = VR.lorentz_boostX_gamma.xy_eta_tau gamma x y eta tau := by
  simp only [VS.lorentz_boostX_gamma.xy_eta_tau, VR.lorentz_boostX_gamma.xy_eta_tau, VS.spatial_z.xy_eta_eq, c08_lorentz_t_xy_eta_tau, hgamma, h1, c08_copysign_nonneg (Real.sqrt_nonneg _) hgamma, VR.P.nanToNum_eq]

theorem c08_lorentz_boostX_gamma_xy_theta_t (gamma x y theta t : ℝ) (hgamma : 0 ≤ gamma) :
    VS.lorentz_boostX_gamma.xy_theta_t gamma x y theta t = VR.lorentz_boostX_gamma.xy_theta_t gamma x y theta t := by
  simp only [VS.lorentz_boostX_gamma.xy_theta_t, VR.lorentz_boostX_gamma.xy_theta_t, VS.spatial_z.xy_theta_eq, hgamma, c08_copysign_nonneg (Real.sqrt_nonneg _) hgamma, VR.P.nanToNum_eq]

theorem c08_lorentz_boostX_gamma_xy_theta_tau (gamma x y theta tau : ℝ) (hgamma : 0 ≤ gamma) (h1 : 0 ≤ tau) :
    VS.lorentz_boostX_gamma.xy_theta_tau gamma x y theta tau = VR.lorentz_boostX_gamma.xy_theta_tau gamma x y theta tau := by
  simp only [VS.lorentz_boostX_gamma.xy_theta_tau, VR.lorentz_boostX_gamma.xy_theta_tau, VS.spatial_z.xy_theta_eq, c08_lorentz_t_xy_theta_tau, hgamma, h1, c08_copysign_nonneg (Real.sqrt_nonneg _) hgamma, VR.P.nanToNum_eq]

theorem c08_lorentz_boostX_gamma_xy_z_t (gamma x y z t : ℝ) (hgamma : 0 ≤ gamma) :
    VS.lorentz_boostX_gamma.xy_z_t gamma x y z t = VR.lorentz_boostX_gamma.xy_z_t gamma x y z t := by
  simp only [VS.lorentz_boostX_gamma.xy_z_t, VR.lorentz_boostX_gamma.xy_z_t, hgamma, c08_copysign_nonneg (Real.sqrt_nonneg _) hgamma, VR.P.nanToNum_eq]

theorem c08_lorentz_boostX_gamma_xy_z_tau (gamma x y z tau : ℝ) (hgamma : 0 ≤ gamma) (h1 : 0 ≤ tau) :
    VS.lorentz_boostX_gamma.xy_z_tau gamma x y z tau = VR.lorentz_boostX_gamma.xy_z_tau gamma x y z tau := by
  simp only [VS.lorentz_boostX_gamma.xy_z_tau, VR.lorentz_boostX_gamma.xy_z_tau, c08_lorentz_t_xy_z_tau, hgamma, h1, c08_copysign_nonneg (Real.sqrt_nonneg _) hgamma, VR.P.nanToNum_eq]


/-! ### `lorentz_boostY_beta` -/

theorem c08_lorentz_boostY_beta_rhophi_eta_tau (beta rho phi eta tau : ℝ) (h0 : 0 ≤ tau) :
    VS.lorentz_boostY_beta.rhophi_eta_tau beta rho phi eta tau = VR.lorentz_boostY_beta.rhophi_eta_tau beta rho phi eta tau := by
  simp only [VS.lorentz_boostY_beta.rhophi_eta_tau, VR.lorentz_boostY_beta.rhophi_eta_tau, VS.planar_x.rhophi_eq, VS.planar_y.rhophi_eq, VS.spatial_z.rhophi_eta_eq, c08_lorentz_t_rhophi_eta_tau, h0, VR.P.nanToNum_eq]

theorem c08_lorentz_boostY_beta_rhophi_theta_tau (beta rho phi theta tau : ℝ) (h0 : 0 ≤ tau) :
    VS.lorentz_boostY_beta.rhophi_theta_tau beta rho phi theta tau = VR.lorentz_boostY_beta.rhophi_theta_tau beta rho phi theta tau := by
  simp only [VS.lorentz_boostY_beta.rhophi_theta_tau, VR.lorentz_boostY_beta.rhophi_theta_tau, VS.planar_x.rhophi_eq, VS.planar_y.rhophi_eq, VS.spatial_z.rhophi_theta_eq, c08_lorentz_t_rhophi_theta_tau, h0, VR.P.nanToNum_eq]

theorem c08_lorentz_boostY_beta_rhophi_z_tau (beta rho phi z tau : ℝ) (h0 : 0 ≤ tau) :
    VS.lorentz_boostY_beta.rhophi_z_tau beta rho phi z tau = VR.lorentz_boostY_beta.rhophi_z_tau beta rho phi z tau := by
  simp only [VS.lorentz_boostY_beta.rhophi_z_tau, VR.lorentz_boostY_beta.rhophi_z_tau, VS.planar_x.rhophi_eq, VS.planar_y.rhophi_eq, c08_lorentz_t_rhophi_z_tau, h0, VR.P.nanToNum_eq]

theorem c08_lorentz_boostY_beta_xy_eta_tau (beta x y eta tau : ℝ) (h0 : 0 ≤ tau) :
    VS.lorentz_boostY_beta.xy_eta_tau beta x y eta tau = VR.lorentz_boostY_beta.xy_eta_tau beta x y eta tau := by
  simp only [VS.lorentz_boostY_beta.xy_eta_tau, VR.lorentz_boostY_beta.xy_eta_tau, VS.spatial_z.xy_eta_eq, c08_lorentz_t_xy_eta_tau, h0, VR.P.nanToNum_eq]

theorem c08_lorentz_boostY_beta_xy_theta_tau (beta x y theta tau : ℝ) (h0 : 0 ≤ tau) :
    VS.lorentz_boostY_beta.xy_theta_tau beta x y theta tau = VR.lorentz_boostY_beta.xy_theta_tau beta x y theta tau := by
  simp only [VS.lorentz_boostY_beta.xy_theta_tau, VR.lorentz_boostY_beta.xy_theta_tau, VS.spatial_z.xy_theta_eq, c08_lorentz_t_xy_theta_tau, h0, VR.P.nanToNum_eq]

theorem c08_lorentz_boostY_beta_xy_z_tau (beta x y z tau : ℝ) (h0 : 0 ≤ tau) :
    VS.lorentz_boostY_beta.xy_z_tau beta x y z tau = VR.lorentz_boostY_beta.xy_z_tau beta x y z tau := by
  simp only [VS.lorentz_boostY_beta.xy_z_tau, VR.lorentz_boostY_beta.xy_z_tau, c08_lorentz_t_xy_z_tau, h0, VR.P.nanToNum_eq]


/-! ### `lorentz_boostY_gamma` -/

theorem c08_lorentz_boostY_gamma_rhophi_eta_t (gamma rho phi eta t : ℝ) (hgamma : 0 ≤ gamma) :
    VS.lorentz_boostY_gamma.rhophi_eta_t gamma rho phi eta t = VR.lorentz_boostY_gamma.rhophi_eta_t gamma rho phi eta t := by
  simp only [VS.lorentz_boostY_gamma.rhophi_eta_t, VR.lorentz_boostY_gamma.rhophi_eta_t, VS.planar_x.rhophi_eq, VS.planar_y.rhophi_eq, VS.spatial_z.rhophi_eta_eq, hgamma, c08_copysign_nonneg (Real.sqrt_nonneg _) hgamma, VR.P.nanToNum_eq]

theorem c08_lorentz_boostY_gamma_rhophi_eta_tau (gamma rho phi eta tau : ℝ) (hgamma : 0 ≤ gamma) (h1 : 0 ≤ tau) :
    VS.lorentz_boostY_gamma.rhophi_eta_tau gamma rho phi eta tau = VR.lorentz_boostY_gamma.rhophi_eta_tau gamma rho phi eta tau := by
  simp only [VS.lorentz_boostY_gamma.rhophi_eta_tau, VR.lorentz_boostY_gamma.rhophi_eta_tau, VS.planar_x.rhophi_eq, VS.planar_y.rhophi_eq, VS.spatial_z.rhophi_eta_eq, c08_lorentz_t_rhophi_eta_tau, hgamma, h1, c08_copysign_nonneg (Real.sqrt_nonneg _) hgamma, VR.P.nanToNum_eq]

theorem c08_lorentz_boostY_gamma_rhophi_theta_t (gamma rho phi theta t : ℝ) (hgamma : 0 ≤ gamma) :
    VS.lorentz_boostY_gamma.rhophi_theta_t gamma rho phi theta t = VR.lorentz_boostY_gamma.rhophi_theta_t gamma rho phi theta t := by
  simp only [VS.lorentz_boostY_gamma.rhophi_theta_t, VR.lorentz_boostY_gamma.rhophi_theta_t, VS.planar_x.rhophi_eq, VS.planar_y.rhophi_eq, VS.spatial_z.rhophi_theta_eq, hgamma, c08_copysign_nonneg (Real.sqrt_nonneg _) hgamma, VR.P.nanToNum_eq]

theorem c08_lorentz_boostY_gamma_rhophi_theta_tau (gamma rho phi theta tau : ℝ) (hgamma : 0 ≤ gamma) (h1 : 0 ≤ tau) :
    VS.lorentz_boostY_gamma.rhophi_theta_tau gamma rho phi theta tau = VR.lorentz_boostY_gamma.rhophi_theta_tau gamma rho phi theta tau := by
  simp only [VS.lorentz_boostY_gamma.rhophi_theta_tau, VR.lorentz_boostY_gamma.rhophi_theta_tau, VS.planar_x.rhophi_eq, VS.planar_y.rhophi_eq, VS.spatial_z.rhophi_theta_eq, c08_lorentz_t_rhophi_theta_tau, hgamma, h1, c08_copysign_nonneg (Real.sqrt_nonneg _) hgamma, VR.P.nanToNum_eq]

theorem c08_lorentz_boostY_gamma_rhophi_z_t (gamma rho phi z t : ℝ) (hgamma : 0 ≤ gamma) :
    VS.lorentz_boostY_gamma.rhophi_z_t gamma rho phi z t = VR.lorentz_boostY_gamma.rhophi_z_t gamma rho phi z t := by
  simp only [VS.lorentz_boostY_gamma.rhophi_z_t, VR.lorentz_boostY_gamma.rhophi_z_t, VS.planar_x.rhophi_eq, VS.planar_y.rhophi_eq, hgamma, c08_copysign_nonneg (Real.sqrt_nonneg _) hgamma, VR.P.nanToNum_eq]

theorem c08_lorentz_boostY_gamma_rhophi_z_tau (gamma rho phi z tau : ℝ) (hgamma : 0 ≤ gamma) (h1 : 0 ≤ tau) :
    VS.lorentz_boostY_gamma.rhophi_z_tau gamma rho phi z tau = VR.lorentz_boostY_gamma.rhophi_z_tau gamma rho phi z tau := by
  simp only [VS.lorentz_boostY_gamma.rhophi_z_tau, VR.lorentz_boostY_gamma.rhophi_z_tau, VS.planar_x.rhophi_eq, VS.planar_y.rhophi_eq, c08_lorentz_t_rhophi_z_tau, hgamma, h1, c08_copysign_nonneg (Real.sqrt_nonneg _) hgamma, VR.P.nanToNum_eq]

theorem c08_lorentz_boostY_gamma_xy_eta_t (gamma x y eta t : ℝ) (hgamma : 0 ≤ gamma) :
    VS.lorentz_boostY_gamma.xy_eta_t gamma x y eta t = VR.lorentz_boostY_gamma.xy_eta_t gamma x y eta t := by
  simp only [VS.lorentz_boostY_gamma.xy_eta_t, VR.lorentz_boostY_gamma.xy_eta_t, VS.spatial_z.xy_eta_eq, hgamma, c08_copysign_nonneg (Real.sqrt_nonneg _) hgamma, VR.P.nanToNum_eq]

theorem c08_lorentz_boostY_gamma_xy_eta_tau (gamma x y eta tau : ℝ) (hgamma : 0 ≤ gamma) (h1 : 0 ≤ tau) :
    VS.lorentz_boostY_gamma.xy_eta_tau gamma x y eta tau = VR.lorentz_boostY_gamma.xy_eta_tau gamma x y eta tau := by
  simp only [VS.lorentz_boostY_gamma.xy_eta_tau, VR.lorentz_boostY_gamma.xy_eta_tau, VS.spatial_z.xy_eta_eq, c08_lorentz_t_xy_eta_tau, hgamma, h1, c08_copysign_nonneg (Real.sqrt_nonneg _) hgamma, VR.P.nanToNum_eq]

theorem c08_lorentz_boostY_gamma_xy_theta_t (gamma x y theta t : ℝ) (hgamma : 0 ≤ gamma) :
    VS.lorentz_boostY_gamma.xy_theta_t gamma x y theta t = VR.lorentz_boostY_gamma.xy_theta_t gamma x y theta t := by
  simp only [VS.lorentz_boostY_gamma.xy_theta_t, VR.lorentz_boostY_gamma.xy_theta_t, VS.spatial_z.xy_theta_eq, hgamma, c08_copysign_nonneg (Real.sqrt_nonneg _) hgamma, VR.P.nanToNum_eq]

theorem c08_lorentz_boostY_gamma_xy_theta_tau (gamma x y theta tau : ℝ) (hgamma : 0 ≤ gamma) (h1 : 0 ≤ tau) :
    VS.lorentz_boostY_gamma.xy_theta_tau gamma x y theta tau = VR.lorentz_boostY_gamma.xy_theta_tau gamma x y theta tau := by
  simp only [VS.lorentz_boostY_gamma.xy_theta_tau, VR.lorentz_boostY_gamma.xy_theta_tau, VS.spatial_z.xy_theta_eq, c08_lorentz_t_xy_theta_tau, hgamma, h1, c08_copysign_nonneg (Real.sqrt_nonneg _) hgamma, VR.P.nanToNum_eq]

theorem c08_lorentz_boostY_gamma_xy_z_t (gamma x y z t : ℝ) (hgamma : 0 ≤ gamma) :
    VS.lorentz_boostY_gamma.xy_z_t gamma x y z t = VR.lorentz_boostY_gamma.xy_z_t gamma x y z t := by
  simp only [VS.lorentz_boostY_gamma.xy_z_t, VR.lorentz_boostY_gamma.xy_z_t, hgamma, c08_copysign_nonneg (Real.sqrt_nonneg _) hgamma, VR.P.nanToNum_eq]

theorem c08_lorentz_boostY_gamma_xy_z_tau (gamma x y z tau : ℝ) (hgamma : 0 ≤ gamma) (h1 : 0 ≤ tau) :
    VS.lorentz_boostY_gamma.xy_z_tau gamma x y z tau = VR.lorentz_boostY_gamma.xy_z_tau gamma x y z tau := by
  simp only [VS.lorentz_boostY_gamma.xy_z_tau, VR.lorentz_boostY_gamma.xy_z_tau, c08_lorentz_t_xy_z_tau, hgamma, h1, c08_copysign_nonneg (Real.sqrt_nonneg _) hgamma, VR.P.nanToNum_eq]


/-! ### `lorentz_boostZ_beta` -/

theorem c08_lorentz_boostZ_beta_rhophi_eta_tau (beta rho phi eta tau : ℝ) (h0 : 0 ≤ tau) :
    VS.lorentz_boostZ_beta.rhophi_eta_tau beta rho phi eta tau = VR.lorentz_boostZ_beta.rhophi_eta_tau beta rho phi eta tau := by
  simp only [VS.lorentz_boostZ_beta.rhophi_eta_tau, VR.lorentz_boostZ_beta.rhophi_eta_tau, VS.spatial_z.rhophi_eta_eq, c08_lorentz_t_rhophi_eta_tau, h0, VR.P.nanToNum_eq]

theorem c08_lorentz_boostZ_beta_rhophi_theta_tau (beta rho phi theta tau : ℝ) (h0 : 0 ≤ tau) :
    VS.lorentz_boostZ_beta.rhophi_theta_tau beta rho phi theta tau = VR.lorentz_boostZ_beta.rhophi_theta_tau beta rho phi theta tau := by
  simp only [VS.lorentz_boostZ_beta.rhophi_theta_tau, VR.lorentz_boostZ_beta.rhophi_theta_tau, VS.spatial_z.rhophi_theta_eq, c08_lorentz_t_rhophi_theta_tau, h0, VR.P.nanToNum_eq]

theorem c08_lorentz_boostZ_beta_rhophi_z_tau (beta rho phi z tau : ℝ) (h0 : 0 ≤ tau) :
    VS.lorentz_boostZ_beta.rhophi_z_tau beta rho phi z tau = VR.lorentz_boostZ_beta.rhophi_z_tau beta rho phi z tau := by
  simp only [VS.lorentz_boostZ_beta.rhophi_z_tau, VR.lorentz_boostZ_beta.rhophi_z_tau, c08_lorentz_t_rhophi_z_tau, h0, VR.P.nanToNum_eq]

theorem c08_lorentz_boostZ_beta_xy_eta_tau (beta x y eta tau : ℝ) (h0 : 0 ≤ tau) :
    VS.lorentz_boostZ_beta.xy_eta_tau beta x y eta tau = VR.lorentz_boostZ_beta.xy_eta_tau beta x y eta tau := by
  simp only [VS.lorentz_boostZ_beta.xy_eta_tau, VR.lorentz_boostZ_beta.xy_eta_tau, VS.spatial_z.xy_eta_eq, c08_lorentz_t_xy_eta_tau, h0, VR.P.nanToNum_eq]

theorem c08_lorentz_boostZ_beta_xy_theta_tau (beta x y theta tau : ℝ) (h0 : 0 ≤ tau) :
    VS.lorentz_boostZ_beta.xy_theta_tau beta x y theta tau = VR.lorentz_boostZ_beta.xy_theta_tau beta x y theta tau := by
  simp only [VS.lorentz_boostZ_beta.xy_theta_tau, VR.lorentz_boostZ_beta.xy_theta_tau, VS.spatial_z.xy_theta_eq, c08_lorentz_t_xy_theta_tau, h0, VR.P.nanToNum_eq]

theorem c08_lorentz_boostZ_beta_xy_z_tau (beta x y z tau : ℝ) (h0 : 0 ≤ tau) :
    VS.lorentz_boostZ_beta.xy_z_tau beta x y z tau = VR.lorentz_boostZ_beta.xy_z_tau beta x y z tau := by
  simp only [VS.lorentz_boostZ_beta.xy_z_tau, VR.lorentz_boostZ_beta.xy_z_tau, c08_lorentz_t_xy_z_tau, h0, VR.P.nanToNum_eq]


/-! ### `lorentz_boostZ_gamma` -/

theorem c08_lorentz_boostZ_gamma_rhophi_eta_t (gamma rho phi eta t : ℝ) (hgamma : 0 ≤ gamma) :
    VS.lorentz_boostZ_gamma.rhophi_eta_t gamma rho phi eta t = VR.lorentz_boostZ_gamma.rhophi_eta_t gamma rho phi eta t := by
  simp only [VS.lorentz_boostZ_gamma.rhophi_eta_t, VR.lorentz_boostZ_gamma.rhophi_eta_t, VS.spatial_z.rhophi_eta_eq, hgamma, c08_copysign_nonneg (Real.sqrt_nonneg _) hgamma, VR.P.nanToNum_eq]

theorem c08_lorentz_boostZ_gamma_rhophi_eta_tau (gamma rho phi eta tau : ℝ) (hgamma : 0 ≤ gamma) (h1 : 0 ≤ tau) :
    VS.lorentz_boostZ_gamma.rhophi_eta_tau gamma rho phi eta tau = VR.lorentz_boostZ_gamma.rhophi_eta_tau gamma rho phi eta tau := by
  simp only [VS.lorentz_boostZ_gamma.rhophi_eta_tau, VR.lorentz_boostZ_gamma.rhophi_eta_tau, VS.spatial_z.rhophi_eta_eq, c08_lorentz_t_rhophi_eta_tau, hgamma, h1, c08_copysign_nonneg (Real.sqrt_nonneg _) hgamma, VR.P.nanToNum_eq]

theorem c08_lorentz_boostZ_gamma_rhophi_theta_t (gamma rho phi theta t : ℝ) (hgamma : 0 ≤ gamma) :
    VS.lorentz_boostZ_gamma.rhophi_theta_t gamma rho phi theta t = VR.lorentz_boostZ_gamma.rhophi_theta_t gamma rho phi theta t := by
  simp only [VS.lorentz_boostZ_gamma.rhophi_theta_t, VR.lorentz_boostZ_gamma.rhophi_theta_t, VS.spatial_z.rhophi_theta_eq, hgamma, c08_copysign_nonneg (Real.sqrt_nonneg _) hgamma, VR.P.nanToNum_eq]

theorem c08_lorentz_boostZ_gamma_rhophi_theta_tau (gamma rho phi theta tau : ℝ) (hgamma : 0 ≤ gamma) (h1 : 0 ≤ tau) :
    VS.lorentz_boostZ_gamma.rhophi_theta_tau gamma rho phi theta tau = VR.lorentz_boostZ_gamma.rhophi_theta_tau gamma rho phi theta tau := by
  simp only [VS.lorentz_boostZ_gamma.rhophi_theta_tau, VR.lorentz_boostZ_gamma.rhophi_theta_tau, VS.spatial_z.rhophi_theta_eq, c08_lorentz_t_rhophi_theta_tau, hgamma, h1, c08_copysign_nonneg (Real.sqrt_nonneg _) hgamma, VR.P.nanToNum_eq]

theorem c08_lorentz_boostZ_gamma_rhophi_z_t (gamma rho phi z t : ℝ) (hgamma : 0 ≤ gamma) :
    VS.lorentz_boostZ_gamma.rhophi_z_t gamma rho phi z t = VR.lorentz_boostZ_gamma.rhophi_z_t gamma rho phi z t := by
  simp only [VS.lorentz_boostZ_gamma.rhophi_z_t, VR.lorentz_boostZ_gamma.rhophi_z_t, hgamma, c08_copysign_nonneg (Real.sqrt_nonneg _) hgamma, VR.P.nanToNum_eq]

theorem c08_lorentz_boostZ_gamma_rhophi_z_tau (gamma rho phi z tau : ℝ) (hgamma : 0 ≤ gamma) (h1 : 0 ≤ tau) :
    VS.lorentz_boostZ_gamma.rhophi_z_tau gamma rho phi z tau = VR.lorentz_boostZ_gamma.rhophi_z_tau gamma rho phi z tau := by
  simp only [VS.lorentz_boostZ_gamma.rhophi_z_tau, VR.lorentz_boostZ_gamma.rhophi_z_tau, c08_lorentz_t_rhophi_z_tau, hgamma, h1, c08_copysign_nonneg (Real.sqrt_nonneg _) hgamma, VR.P.nanToNum_eq]

theorem c08_lorentz_boostZ_gamma_xy_eta_t (gamma x y eta t : ℝ) (hgamma : 0 ≤ gamma) :
    VS.lorentz_boostZ_gamma.xy_eta_t gamma x y eta t = VR.lorentz_boostZ_gamma.xy_eta_t gamma x y eta t := by
  simp only [VS.lorentz_boostZ_gamma.xy_eta_t, VR.lorentz_boostZ_gamma.xy_eta_t, VS.spatial_z.xy_eta_eq, hgamma, c08_copysign_nonneg (Real.sqrt_nonneg _) hgamma, VR.P.nanToNum_eq]

theorem c08_lorentz_boostZ_gamma_xy_eta_tau (gamma x y eta tau : ℝ) (hgamma : 0 ≤ gamma) (h1 : 0 ≤ tau) :
    VS.lorentz_boostZ_gamma.xy_eta_tau gamma x y eta tau = VR.lorentz_boostZ_gamma.xy_eta_tau gamma x y eta tau := by
  simp only [VS.lorentz_boostZ_gamma.xy_eta_tau, VR.lorentz_boostZ_gamma.xy_eta_tau, VS.spatial_z.xy_eta_eq, c08_lorentz_t_xy_eta_tau, hgamma, h1, c08_copysign_nonneg (Real.sqrt_nonneg _) hgamma, VR.P.nanToNum_eq]

theorem c08_lorentz_boostZ_gamma_xy_theta_t (gamma x y theta t : ℝ) (hgamma : 0 ≤ gamma) :
    VS.lorentz_boostZ_gamma.xy_theta_t gamma x y theta t = VR.lorentz_boostZ_gamma.xy_theta_t gamma x y theta t := by
  simp only [VS.lorentz_boostZ_gamma.xy_theta_t, VR.lorentz_boostZ_gamma.xy_theta_t, VS.spatial_z.xy_theta_eq, hgamma, c08_copysign_nonneg (Real.sqrt_nonneg _) hgamma, VR.P.nanToNum_eq]

theorem c08_lorentz_boostZ_gamma_xy_theta_tau (gamma x y theta tau : ℝ) (hgamma : 0 ≤ gamma) (h1 : 0 ≤ tau) :
    VS.lorentz_boostZ_gamma.xy_theta_tau gamma x y theta tau = VR.lorentz_boostZ_gamma.xy_theta_tau gamma x y theta tau := by
  simp only [VS.lorentz_boostZ_gamma.xy_theta_tau, VR.lorentz_boostZ_gamma.xy_theta_tau, VS.spatial_z.xy_theta_eq, c08_lorentz_t_xy_theta_tau, hgamma, h1, c08_copysign_nonneg (Real.sqrt_nonneg _) hgamma, VR.P.nanToNum_eq]

theorem c08_lorentz_boostZ_gamma_xy_z_t (gamma x y z t : ℝ) (hgamma : 0 ≤ gamma) :
    VS.lorentz_boostZ_gamma.xy_z_t gamma x y z t = VR.lorentz_boostZ_gamma.xy_z_t gamma x y z t := by
  simp only [VS.lorentz_boostZ_gamma.xy_z_t, VR.lorentz_boostZ_gamma.xy_z_t, hgamma, c08_copysign_nonneg (Real.sqrt_nonneg _) hgamma, VR.P.nanToNum_eq]

theorem c08_lorentz_boostZ_gamma_xy_z_tau (gamma x y z tau : ℝ) (hgamma : 0 ≤ gamma) (h1 : 0 ≤ tau) :
    VS.lorentz_boostZ_gamma.xy_z_tau gamma x y z tau = VR.lorentz_boostZ_gamma.xy_z_tau gamma x y z tau := by
  simp only [VS.lorentz_boostZ_gamma.xy_z_tau, VR.lorentz_boostZ_gamma.xy_z_tau, c08_lorentz_t_xy_z_tau, hgamma, h1, c08_copysign_nonneg (Real.sqrt_nonneg _) hgamma, VR.P.nanToNum_eq]


/-! ### `lorentz_boost_beta3` -/

theorem c08_lorentz_boost_beta3_cartesian_tau (x1 y1 z1 tau1 betax betay betaz : ℝ) (h0 : 0 ≤ tau1) :
    VS.lorentz_boost_beta3.cartesian_tau x1 y1 z1 tau1 betax betay betaz = VR.lorentz_boost_beta3.cartesian_tau x1 y1 z1 tau1 betax betay betaz := by
  simp only [VS.lorentz_boost_beta3.cartesian_tau, VR.lorentz_boost_beta3.cartesian_tau, c08_lorentz_transform4D_cartesian_tau, h0, VR.P.nanToNum_eq]

theorem c08_lorentz_boost_beta3_cartesian_tau_rhophi_eta (x1 y1 z1 tau1 rho2 phi2 eta2 : ℝ) (h0 : 0 ≤ tau1) :
    VS.lorentz_boost_beta3.cartesian_tau_rhophi_eta x1 y1 z1 tau1 rho2 phi2 eta2 = VR.lorentz_boost_beta3.cartesian_tau_rhophi_eta x1 y1 z1 tau1 rho2 phi2 eta2 := by
  simp only [VS.lorentz_boost_beta3.cartesian_tau_rhophi_eta, VR.lorentz_boost_beta3.cartesian_tau_rhophi_eta, c08_lorentz_boost_beta3_cartesian_tau, VS.planar_x.rhophi_eq, VS.planar_y.rhophi_eq, VS.spatial_z.rhophi_eta_eq, h0, VR.P.nanToNum_eq]

theorem c08_lorentz_boost_beta3_cartesian_tau_rhophi_theta (x1 y1 z1 tau1 rho2 phi2 theta2 : ℝ) (h0 : 0 ≤ tau1) :
    VS.lorentz_boost_beta3.cartesian_tau_rhophi_theta x1 y1 z1 tau1 rho2 phi2 theta2 = VR.lorentz_boost_beta3.cartesian_tau_rhophi_theta x1 y1 z1 tau1 rho2 phi2 theta2 := by
  simp only [VS.lorentz_boost_beta3.cartesian_tau_rhophi_theta, VR.lorentz_boost_beta3.cartesian_tau_rhophi_theta, c08_lorentz_boost_beta3_cartesian_tau, VS.planar_x.rhophi_eq, VS.planar_y.rhophi_eq, VS.spatial_z.rhophi_theta_eq, h0, VR.P.nanToNum_eq]

theorem c08_lorentz_boost_beta3_cartesian_tau_rhophi_z (x1 y1 z1 tau1 rho2 phi2 z2 : ℝ) (h0 : 0 ≤ tau1) :
    VS.lorentz_boost_beta3.cartesian_tau_rhophi_z x1 y1 z1 tau1 rho2 phi2 z2 = VR.lorentz_boost_beta3.cartesian_tau_rhophi_z x1 y1 z1 tau1 rho2 phi2 z2 := by
  simp only [VS.lorentz_boost_beta3.cartesian_tau_rhophi_z, VR.lorentz_boost_beta3.cartesian_tau_rhophi_z, c08_lorentz_boost_beta3_cartesian_tau, VS.planar_x.rhophi_eq, VS.planar_y.rhophi_eq, h0, VR.P.nanToNum_eq]

theorem c08_lorentz_boost_beta3_cartesian_tau_xy_eta (x1 y1 z1 tau1 x2 y2 eta2 : ℝ) (h0 : 0 ≤ tau1) :
    VS.lorentz_boost_beta3.cartesian_tau_xy_eta x1 y1 z1 tau1 x2 y2 eta2 = VR.lorentz_boost_beta3.cartesian_tau_xy_eta x1 y1 z1 tau1 x2 y2 eta2 := by
  simp only [VS.lorentz_boost_beta3.cartesian_tau_xy_eta, VR.lorentz_boost_beta3.cartesian_tau_xy_eta, c08_lorentz_boost_beta3_cartesian_tau, VS.spatial_z.xy_eta_eq, h0, VR.P.nanToNum_eq]

theorem c08_lorentz_boost_beta3_cartesian_tau_xy_theta (x1 y1 z1 tau1 x2 y2 theta2 : ℝ) (h0 : 0 ≤ tau1) :
    VS.lorentz_boost_beta3.cartesian_tau_xy_theta x1 y1 z1 tau1 x2 y2 theta2 = VR.lorentz_boost_beta3.cartesian_tau_xy_theta x1 y1 z1 tau1 x2 y2 theta2 := by
  simp only [VS.lorentz_boost_beta3.cartesian_tau_xy_theta, VR.lorentz_boost_beta3.cartesian_tau_xy_theta, c08_lorentz_boost_beta3_cartesian_tau, VS.spatial_z.xy_theta_eq, h0, VR.P.nanToNum_eq]

theorem c08_lorentz_boost_beta3_cartesian_tau_xy_z (x1 y1 z1 tau1 x2 y2 z2 : ℝ) (h0 : 0 ≤ tau1) :
    VS.lorentz_boost_beta3.cartesian_tau_xy_z x1 y1 z1 tau1 x2 y2 z2 = VR.lorentz_boost_beta3.cartesian_tau_xy_z x1 y1 z1 tau1 x2 y2 z2 := by
  simp only [VS.lorentz_boost_beta3.cartesian_tau_xy_z, VR.lorentz_boost_beta3.cartesian_tau_xy_z, c08_lorentz_boost_beta3_cartesian_tau, h0, VR.P.nanToNum_eq]

theorem c08_lorentz_boost_beta3_k_xy_z_tau_rhophi_eta (coord11 coord12 coord13 coord14 coord21 coord22 coord23 : ℝ) (h0 : 0 ≤ coord14) :
    VS.lorentz_boost_beta3.k_xy_z_tau_rhophi_eta coord11 coord12 coord13 coord14 coord21 coord22 coord23 = VR.lorentz_boost_beta3.k_xy_z_tau_rhophi_eta coord11 coord12 coord13 coord14 coord21 coord22 coord23 := by
  simp only [VS.lorentz_boost_beta3.k_xy_z_tau_rhophi_eta, VR.lorentz_boost_beta3.k_xy_z_tau_rhophi_eta, c08_lorentz_boost_beta3_cartesian_tau_rhophi_eta, VS.planar_x.xy_eq, VS.planar_y.xy_eq, VS.spatial_z.xy_z_eq, h0, VR.P.nanToNum_eq]

theorem c08_lorentz_boost_beta3_k_rhophi_eta_tau_rhophi_eta (coord11 coord12 coord13 coord14 coord21 coord22 coord23 : ℝ) (h0 : 0 ≤ coord14) :
    VS.lorentz_boost_beta3.k_rhophi_eta_tau_rhophi_eta coord11 coord12 coord13 coord14 coord21 coord22 coord23 = VR.lorentz_boost_beta3.k_rhophi_eta_tau_rhophi_eta coord11 coord12 coord13 coord14 coord21 coord22 coord23 := by
  simp only [VS.lorentz_boost_beta3.k_rhophi_eta_tau_rhophi_eta, VR.lorentz_boost_beta3.k_rhophi_eta_tau_rhophi_eta, c08_lorentz_boost_beta3_k_xy_z_tau_rhophi_eta, VS.planar_x.rhophi_eq, VS.planar_y.rhophi_eq, VS.spatial_z.rhophi_eta_eq, h0, VR.P.nanToNum_eq]

theorem c08_lorentz_boost_beta3_k_xy_z_tau_rhophi_theta (coord11 coord12 coord13 coord14 coord21 coord22 coord23 : ℝ) (h0 : 0 ≤ coord14) :
    VS.lorentz_boost_beta3.k_xy_z_tau_rhophi_theta coord11 coord12 coord13 coord14 coord21 coord22 coord23 = VR.lorentz_boost_beta3.k_xy_z_tau_rhophi_theta coord11 coord12 coord13 coord14 coord21 coord22 coord23 := by
  simp only [VS.lorentz_boost_beta3.k_xy_z_tau_rhophi_theta, VR.lorentz_boost_beta3.k_xy_z_tau_rhophi_theta, c08_lorentz_boost_beta3_cartesian_tau_rhophi_theta, VS.planar_x.xy_eq, VS.planar_y.xy_eq, VS.spatial_z.xy_z_eq, h0, VR.P.nanToNum_eq]

theorem c08_lorentz_boost_beta3_k_rhophi_eta_tau_rhophi_theta (coord11 coord12 coord13 coord14 coord21 coord22 coord23 : ℝ) (h0 : 0 ≤ coord14) :
    VS.lorentz_boost_beta3.k_rhophi_eta_tau_rhophi_theta coord11 coord12 coord13 coord14 coord21 coord22 coord23 = VR.lorentz_boost_beta3.k_rhophi_eta_tau_rhophi_theta coord11 coord12 coord13 coord14 coord21 coord22 coord23 := by
  simp only [VS.lorentz_boost_beta3.k_rhophi_eta_tau_rhophi_theta, VR.lorentz_boost_beta3.k_rhophi_eta_tau_rhophi_theta, c08_lorentz_boost_beta3_k_xy_z_tau_rhophi_theta, VS.planar_x.rhophi_eq, VS.planar_y.rhophi_eq, VS.spatial_z.rhophi_eta_eq, h0, VR.P.nanToNum_eq]

theorem c08_lorentz_boost_beta3_k_xy_z_tau_rhophi_z (coord11 coord12 coord13 coord14 coord21 coord22 coord23 : ℝ) (h0 : 0 ≤ coord14) :
    VS.lorentz_boost_beta3.k_xy_z_tau_rhophi_z coord11 coord12 coord13 coord14 coord21 coord22 coord23 = VR.lorentz_boost_beta3.k_xy_z_tau_rhophi_z coord11 coord12 coord13 coord14 coord21 coord22 coord23 := by
  simp only [VS.lorentz_boost_beta3.k_xy_z_tau_rhophi_z, VR.lorentz_boost_beta3.k_xy_z_tau_rhophi_z, c08_lorentz_boost_beta3_cartesian_tau_rhophi_z, VS.planar_x.xy_eq, VS.planar_y.xy_eq, VS.spatial_z.xy_z_eq, h0, VR.P.nanToNum_eq]

theorem c08_lorentz_boost_beta3_k_rhophi_eta_tau_rhophi_z (coord11 coord12 coord13 coord14 coord21 coord22 coord23 : ℝ) (h0 : 0 ≤ coord14) :
    VS.lorentz_boost_beta3.k_rhophi_eta_tau_rhophi_z coord11 coord12 coord13 coord14 coord21 coord22 coord23 = VR.lorentz_boost_beta3.k_rhophi_eta_tau_rhophi_z coord11 coord12 coord13 coord14 coord21 coord22 coord23 := by
  simp only [VS.lorentz_boost_beta3.k_rhophi_eta_tau_rhophi_z, VR.lorentz_boost_beta3.k_rhophi_eta_tau_rhophi_z, c08_lorentz_boost_beta3_k_xy_z_tau_rhophi_z, VS.planar_x.rhophi_eq, VS.planar_y.rhophi_eq, VS.spatial_z.rhophi_eta_eq, h0, VR.P.nanToNum_eq]

theorem c08_lorentz_boost_beta3_k_xy_z_tau_xy_eta (coord11 coord12 coord13 coord14 coord21 coord22 coord23 : ℝ) (h0 : 0 ≤ coord14) :
    VS.lorentz_boost_beta3.k_xy_z_tau_xy_eta coord11 coord12 coord13 coord14 coord21 coord22 coord23 = VR.lorentz_boost_beta3.k_xy_z_tau_xy_eta coord11 coord12 coord13 coord14 coord21 coord22 coord23 := by
  simp only [VS.lorentz_boost_beta3.k_xy_z_tau_xy_eta, VR.lorentz_boost_beta3.k_xy_z_tau_xy_eta, c08_lorentz_boost_beta3_cartesian_tau_xy_eta, VS.planar_x.xy_eq, VS.planar_y.xy_eq, VS.spatial_z.xy_z_eq, h0, VR.P.nanToNum_eq]

theorem c08_lorentz_boost_beta3_k_rhophi_eta_tau_xy_eta (coord11 coord12 coord13 coord14 coord21 coord22 coord23 : ℝ) (h0 : 0 ≤ coord14) :
    VS.lorentz_boost_beta3.k_rhophi_eta_tau_xy_eta coord11 coord12 coord13 coord14 coord21 coord22 coord23 = VR.lorentz_boost_beta3.k_rhophi_eta_tau_xy_eta coord11 coord12 coord13 coord14 coord21 coord22 coord23 := by
  simp only [VS.lorentz_boost_beta3.k_rhophi_eta_tau_xy_eta, VR.lorentz_boost_beta3.k_rhophi_eta_tau_xy_eta, c08_lorentz_boost_beta3_k_xy_z_tau_xy_eta, VS.planar_x.rhophi_eq, VS.planar_y.rhophi_eq, VS.spatial_z.rhophi_eta_eq, h0, VR.P.nanToNum_eq]

theorem c08_lorentz_boost_beta3_k_xy_z_tau_xy_theta (coord11 coord12 coord13 coord14 coord21 coord22 coord23 : ℝ) (h0 : 0 ≤ coord14) :
    VS.lorentz_boost_beta3.k_xy_z_tau_xy_theta coord11 coord12 coord13 coord14 coord21 coord22 coord23 = VR.lorentz_boost_beta3.k_xy_z_tau_xy_theta coord11 coord12 coord13 coord14 coord21 coord22 coord23 := by
  simp only [VS.lorentz_boost_beta3.k_xy_z_tau_xy_theta, VR.lorentz_boost_beta3.k_xy_z_tau_xy_theta, c08_lorentz_boost_beta3_cartesian_tau_xy_theta, VS.planar_x.xy_eq, VS.planar_y.xy_eq, VS.spatial_z.xy_z_eq, h0, VR.P.nanToNum_eq]

theorem c08_lorentz_boost_beta3_k_rhophi_eta_tau_xy_theta (coord11 coord12 coord13 coord14 coord21 coord22 coord23 : ℝ) (h0 : 0 ≤ coord14) :
    VS.lorentz_boost_beta3.k_rhophi_eta_tau_xy_theta coord11 coord12 coord13 coord14 coord21 coord22 coord23 = VR.lorentz_boost_beta3.k_rhophi_eta_tau_xy_theta coord11 coord12 coord13 coord14 coord21 coord22 coord23 := by
  simp only [VS.lorentz_boost_beta3.k_rhophi_eta_tau_xy_theta, VR.lorentz_boost_beta3.k_rhophi_eta_tau_xy_theta, c08_lorentz_boost_beta3_k_xy_z_tau_xy_theta, VS.planar_x.rhophi_eq, VS.planar_y.rhophi_eq, VS.spatial_z.rhophi_eta_eq, h0, VR.P.nanToNum_eq]

theorem c08_lorentz_boost_beta3_k_xy_z_tau_xy_z (coord11 coord12 coord13 coord14 coord21 coord22 coord23 : ℝ) (h0 : 0 ≤ coord14) :
    VS.lorentz_boost_beta3.k_xy_z_tau_xy_z coord11 coord12 coord13 coord14 coord21 coord22 coord23 = VR.lorentz_boost_beta3.k_xy_z_tau_xy_z coord11 coord12 coord13 coord14 coord21 coord22 coord23 := by
  simp only [VS.lorentz_boost_beta3.k_xy_z_tau_xy_z, VR.lorentz_boost_beta3.k_xy_z_tau_xy_z, c08_lorentz_boost_beta3_cartesian_tau_xy_z, VS.planar_x.xy_eq, VS.planar_y.xy_eq, VS.spatial_z.xy_z_eq, h0, VR.P.nanToNum_eq]

theorem c08_lorentz_boost_beta3_k_rhophi_eta_tau_xy_z (coord11 coord12 coord13 coord14 coord21 coord22 coord23 : ℝ) (h0 : 0 ≤ coord14) :
    VS.lorentz_boost_beta3.k_rhophi_eta_tau_xy_z coord11 coord12 coord13 coord14 coord21 coord22 coord23 = VR.lorentz_boost_beta3.k_rhophi_eta_tau_xy_z coord11 coord12 coord13 coord14 coord21 coord22 coord23 := by
  simp only [VS.lorentz_boost_beta3.k_rhophi_eta_tau_xy_z, VR.lorentz_boost_beta3.k_rhophi_eta_tau_xy_z, c08_lorentz_boost_beta3_k_xy_z_tau_xy_z, VS.planar_x.rhophi_eq, VS.planar_y.rhophi_eq, VS.spatial_z.rhophi_eta_eq, h0, VR.P.nanToNum_eq]

theorem c08_lorentz_boost_beta3_k_rhophi_theta_tau_rhophi_eta (coord11 coord12 coord13 coord14 coord21 coord22 coord23 : ℝ) (h0 : 0 ≤ coord14) :
    VS.lorentz_boost_beta3.k_rhophi_theta_tau_rhophi_eta coord11 coord12 coord13 coord14 coord21 coord22 coord23 = VR.lorentz_boost_beta3.k_rhophi_theta_tau_rhophi_eta coord11 coord12 coord13 coord14 coord21 coord22 coord23 := by
  simp only [VS.lorentz_boost_beta3.k_rhophi_theta_tau_rhophi_eta, VR.lorentz_boost_beta3.k_rhophi_theta_tau_rhophi_eta, c08_lorentz_boost_beta3_k_xy_z_tau_rhophi_eta, VS.planar_x.rhophi_eq, VS.planar_y.rhophi_eq, VS.spatial_z.rhophi_theta_eq, h0, VR.P.nanToNum_eq]

theorem c08_lorentz_boost_beta3_k_rhophi_theta_tau_rhophi_theta (coord11 coord12 coord13 coord14 coord21 coord22 coord23 : ℝ) (h0 : 0 ≤ coord14) :
    VS.lorentz_boost_beta3.k_rhophi_theta_tau_rhophi_theta coord11 coord12 coord13 coord14 coord21 coord22 coord23 = VR.lorentz_boost_beta3.k_rhophi_theta_tau_rhophi_theta coord11 coord12 coord13 coord14 coord21 coord22 coord23 := by
  simp only [VS.lorentz_boost_beta3.k_rhophi_theta_tau_rhophi_theta, VR.lorentz_boost_beta3.k_rhophi_theta_tau_rhophi_theta, c08_lorentz_boost_beta3_k_xy_z_tau_rhophi_theta, VS.planar_x.rhophi_eq, VS.planar_y.rhophi_eq, VS.spatial_z.rhophi_theta_eq, h0, VR.P.nanToNum_eq]

theorem c08_lorentz_boost_beta3_k_rhophi_theta_tau_rhophi_z (coord11 coord12 coord13 coord14 coord21 coord22 coord23 : ℝ) (h0 : 0 ≤ coord14) :
    VS.lorentz_boost_beta3.k_rhophi_theta_tau_rhophi_z coord11 coord12 coord13 coord14 coord21 coord22 coord23 = VR.lorentz_boost_beta3.k_rhophi_theta_tau_rhophi_z coord11 coord12 coord13 coord14 coord21 coord22 coord23 := by
  simp only [VS.lorentz_boost_beta3.k_rhophi_theta_tau_rhophi_z, VR.lorentz_boost_beta3.k_rhophi_theta_tau_rhophi_z, c08_lorentz_boost_beta3_k_xy_z_tau_rhophi_z, VS.planar_x.rhophi_eq, VS.planar_y.rhophi_eq, VS.spatial_z.rhophi_theta_eq, h0, VR.P.nanToNum_eq]

theorem c08_lorentz_boost_beta3_k_rhophi_theta_tau_xy_eta (coord11 coord12 coord13 coord14 coord21 coord22 coord23 : ℝ) (h0 : 0 ≤ coord14) :
    VS.lorentz_boost_beta3.k_rhophi_theta_tau_xy_eta coord11 coord12 coord13 coord14 coord21 coord22 coord23 = VR.lorentz_boost_beta3.k_rhophi_theta_tau_xy_eta coord11 coord12 coord13 coord14 coord21 coord22 coord23 := by
  simp only [VS.lorentz_boost_beta3.k_rhophi_theta_tau_xy_eta, VR.lorentz_boost_beta3.k_rhophi_theta_tau_xy_eta, c08_lorentz_boost_beta3_k_xy_z_tau_xy_eta, VS.planar_x.rhophi_eq, VS.planar_y.rhophi_eq, VS.spatial_z.rhophi_theta_eq, h0, VR.P.nanToNum_eq]

theorem c08_lorentz_boost_beta3_k_rhophi_theta_tau_xy_theta (coord11 coord12 coord13 coord14 coord21 coord22 coord23 : ℝ) (h0 : 0 ≤ coord14) :
    VS.lorentz_boost_beta3.k_rhophi_theta_tau_xy_theta coord11 coord12 coord13 coord14 coord21 coord22 coord23 = VR.lorentz_boost_beta3.k_rhophi_theta_tau_xy_theta coord11 coord12 coord13 coord14 coord21 coord22 coord23 := by
  simp only [VS.lorentz_boost_beta3.k_rhophi_theta_tau_xy_theta, VR.lorentz_boost_beta3.k_rhophi_theta_tau_xy_theta, c08_lorentz_boost_beta3_k_xy_z_tau_xy_theta, VS.planar_x.rhophi_eq, VS.planar_y.rhophi_eq, VS.spatial_z.rhophi_theta_eq, h0, VR.P.nanToNum_eq]

theorem c08_lorentz_boost_beta3_k_rhophi_theta_tau_xy_z (coord11 coord12 coord13 coord14 coord21 coord22 coord23 : ℝ) (h0 : 0 ≤ coord14) :
    VS.lorentz_boost_beta3.k_rhophi_theta_tau_xy_z coord11 coord12 coord13 coord14 coord21 coord22 coord23 = VR.lorentz_boost_beta3.k_rhophi_theta_tau_xy_z coord11 coord12 coord13 coord14 coord21 coord22 coord23 := by
  simp only [VS.lorentz_boost_beta3.k_rhophi_theta_tau_xy_z, VR.lorentz_boost_beta3.k_rhophi_theta_tau_xy_z, c08_lorentz_boost_beta3_k_xy_z_tau_xy_z, VS.planar_x.rhophi_eq, VS.planar_y.rhophi_eq, VS.spatial_z.rhophi_theta_eq, h0, VR.P.nanToNum_eq]

theorem c08_lorentz_boost_beta3_k_rhophi_z_tau_rhophi_eta (coord11 coord12 coord13 coord14 coord21 coord22 coord23 : ℝ) (h0 : 0 ≤ coord14) :
    VS.lorentz_boost_beta3.k_rhophi_z_tau_rhophi_eta coord11 coord12 coord13 coord14 coord21 coord22 coord23 = VR.lorentz_boost_beta3.k_rhophi_z_tau_rhophi_eta coord11 coord12 coord13 coord14 coord21 coord22 coord23 := by
  simp only [VS.lorentz_boost_beta3.k_rhophi_z_tau_rhophi_eta, VR.lorentz_boost_beta3.k_rhophi_z_tau_rhophi_eta, c08_lorentz_boost_beta3_k_xy_z_tau_rhophi_eta, VS.planar_x.rhophi_eq, VS.planar_y.rhophi_eq, VS.spatial_z.rhophi_z_eq, h0, VR.P.nanToNum_eq]

theorem c08_lorentz_boost_beta3_k_rhophi_z_tau_rhophi_theta (coord11 coord12 coord13 coord14 coord21 coord22 coord23 : ℝ) (h0 : 0 ≤ coord14) :
    VS.lorentz_boost_beta3.k_rhophi_z_tau_rhophi_theta coord11 coord12 coord13 coord14 coord21 coord22 coord23 = VR.lorentz_boost_beta3.k_rhophi_z_tau_rhophi_theta coord11 coord12 coord13 coord14 coord21 coord22 coord23 := by
  simp only [VS.lorentz_boost_beta3.k_rhophi_z_tau_rhophi_theta, VR.lorentz_boost_beta3.k_rhophi_z_tau_rhophi_theta, c08_lorentz_boost_beta3_k_xy_z_tau_rhophi_theta, VS.planar_x.rhophi_eq, VS.planar_y.rhophi_eq, VS.spatial_z.rhophi_z_eq, h0, VR.P.nanToNum_eq]

theorem c08_lorentz_boost_beta3_k_rhophi_z_tau_rhophi_z (coord11 coord12 coord13 coord14 coord21 coord22 coord23 : ℝ) (h0 : 0 ≤ coord14) :
    VS.lorentz_boost_beta3.k_rhophi_z_tau_rhophi_z coord11 coord12 coord13 coord14 coord21 coord22 coord23 = VR.lorentz_boost_beta3.k_rhophi_z_tau_rhophi_z coord11 coord12 coord13 coord14 coord21 coord22 coord23 := by
  simp only [VS.lorentz_boost_beta3.k_rhophi_z_tau_rhophi_z, VR.lorentz_boost_beta3.k_rhophi_z_tau_rhophi_z, c08_lorentz_boost_beta3_k_xy_z_tau_rhophi_z, VS.planar_x.rhophi_eq, VS.planar_y.rhophi_eq, VS.spatial_z.rhophi_z_eq, h0, VR.P.nanToNum_eq]

theorem c08_lorentz_boost_beta3_k_rhophi_z_tau_xy_eta (coord11 coord12 coord13 coord14 coord21 coord22 coord23 : ℝ) (h0 : 0 ≤ coord14) :
    VS.lorentz_boost_beta3.k_rhophi_z_tau_xy_eta coord11 coord12 coord13 coord14 coord21 coord22 coord23 = VR.lorentz_boost_beta3.k_rhophi_z_tau_xy_eta coord11 coord12 coord13 coord14 coord21 coord22 coord23 := by
  simp only [VS.lorentz_boost_beta3.k_rhophi_z_tau_xy_eta, VR.lorentz_boost_beta3.k_rhophi_z_tau_xy_eta, c08_lorentz_boost_beta3_k_xy_z_tau_xy_eta, VS.planar_x.rhophi_eq, VS.planar_y.rhophi_eq, VS.spatial_z.rhophi_z_eq, h0, VR.P.nanToNum_eq]

theorem c08_lorentz_boost_beta3_k_rhophi_z_tau_xy_theta (coord11 coord12 coord13 coord14 coord21 coord22 coord23 : ℝ) (h0 : 0 ≤ coord14) :
    VS.lorentz_boost_beta3.k_rhophi_z_tau_xy_theta coord11 coord12 coord13 coord14 coord21 coord22 coord23 = VR.lorentz_boost_beta3.k_rhophi_z_tau_xy_theta coord11 coord12 coord13 coord14 coord21 coord22 coord23 := by
  simp only [VS.lorentz_boost_beta3.k_rhophi_z_tau_xy_theta, VR.lorentz_boost_beta3.k_rhophi_z_tau_xy_theta, c08_lorentz_boost_beta3_k_xy_z_tau_xy_theta, VS.planar_x.rhophi_eq, VS.planar_y.rhophi_eq, VS.spatial_z.rhophi_z_eq, h0, VR.P.nanToNum_eq]

theorem c08_lorentz_boost_beta3_k_rhophi_z_tau_xy_z (coord11 coord12 coord13 coord14 coord21 coord22 coord23 : ℝ) (h0 : 0 ≤ coord14) :
    VS.lorentz_boost_beta3.k_rhophi_z_tau_xy_z coord11 coord12 coord13 coord14 coord21 coord22 coord23 = VR.lorentz_boost_beta3.k_rhophi_z_tau_xy_z coord11 coord12 coord13 coord14 coord21 coord22 coord23 := by
  simp only [VS.lorentz_boost_beta3.k_rhophi_z_tau_xy_z, VR.lorentz_boost_beta3.k_rhophi_z_tau_xy_z, c08_lorentz_boost_beta3_k_xy_z_tau_xy_z, VS.planar_x.rhophi_eq, VS.planar_y.rhophi_eq, VS.spatial_z.rhophi_z_eq, h0, VR.P.nanToNum_eq]

theorem c08_lorentz_boost_beta3_k_xy_eta_tau_rhophi_eta (coord11 coord12 coord13 coord14 coord21 coord22 coord23 : ℝ) (h0 : 0 ≤ coord14) :
    VS.lorentz_boost_beta3.k_xy_eta_tau_rhophi_eta coord11 coord12 coord13 coord14 coord21 coord22 coord23 = VR.lorentz_boost_beta3.k_xy_eta_tau_rhophi_eta coord11 coord12 coord13 coord14 coord21 coord22 coord23 := by
  simp only [VS.lorentz_boost_beta3.k_xy_eta_tau_rhophi_eta, VR.lorentz_boost_beta3.k_xy_eta_tau_rhophi_eta, c08_lorentz_boost_beta3_k_xy_z_tau_rhophi_eta, VS.planar_x.xy_eq, VS.planar_y.xy_eq, VS.spatial_z.xy_eta_eq, h0, VR.P.nanToNum_eq]

theorem c08_lorentz_boost_beta3_k_xy_eta_tau_rhophi_theta (coord11 coord12 coord13 coord14 coord21 coord22 coord23 : ℝ) (h0 : 0 ≤ coord14) :
    VS.lorentz_boost_beta3.k_xy_eta_tau_rhophi_theta coord11 coord12 coord13 coord14 coord21 coord22 coord23 = VR.lorentz_boost_beta3.k_xy_eta_tau_rhophi_theta coord11 coord12 coord13 coord14 coord21 coord22 coord23 := by
  simp only [VS.lorentz_boost_beta3.k_xy_eta_tau_rhophi_theta, VR.lorentz_boost_beta3.k_xy_eta_tau_rhophi_theta, c08_lorentz_boost_beta3_k_xy_z_tau_rhophi_theta, VS.planar_x.xy_eq, VS.planar_y.xy_eq, VS.spatial_z.xy_eta_eq, h0, VR.P.nanToNum_eq]

theorem c08_lorentz_boost_beta3_k_xy_eta_tau_rhophi_z (coord11 coord12 coord13 coord14 coord21 coord22 coord23 : ℝ) (h0 : 0 ≤ coord14) :
    VS.lorentz_boost_beta3.k_xy_eta_tau_rhophi_z coord11 coord12 coord13 coord14 coord21 coord22 coord23 = VR.lorentz_boost_beta3.k_xy_eta_tau_rhophi_z coord11 coord12 coord13 coord14 coord21 coord22 coord23 := by
  simp only [VS.lorentz_boost_beta3.k_xy_eta_tau_rhophi_z, VR.lorentz_boost_beta3.k_xy_eta_tau_rhophi_z, c08_lorentz_boost_beta3_k_xy_z_tau_rhophi_z, VS.planar_x.xy_eq, VS.planar_y.xy_eq, VS.spatial_z.xy_eta_eq, h0, VR.P.nanToNum_eq]

theorem c08_lorentz_boost_beta3_k_xy_eta_tau_xy_eta (coord11 coord12 coord13 coord14 coord21 coord22 coord23 : ℝ) (h0 : 0 ≤ coord14) :
    VS.lorentz_boost_beta3.k_xy_eta_tau_xy_eta coord11 coord12 coord13 coord14 coord21 coord22 coord23 = VR.lorentz_boost_beta3.k_xy_eta_tau_xy_eta coord11 coord12 coord13 coord14 coord21 coord22 coord23 := by
  simp only [VS.lorentz_boost_beta3.k_xy_eta_tau_xy_eta, VR.lorentz_boost_beta3.k_xy_eta_tau_xy_eta, c08_lorentz_boost_beta3_k_xy_z_tau_xy_eta, VS.planar_x.xy_eq, VS.planar_y.xy_eq, VS.spatial_z.xy_eta_eq, h0, VR.P.nanToNum_eq]

theorem c08_lorentz_boost_beta3_k_xy_eta_tau_xy_theta (coord11 coord12 coord13 coord14 coord21 coord22 coord23 : ℝ) (h0 : 0 ≤ coord14) :
    VS.lorentz_boost_beta3.k_xy_eta_tau_xy_theta coord11 coord12 coord13 coord14 coord21 coord22 coord23 = VR.lorentz_boost_beta3.k_xy_eta_tau_xy_theta coord11 coord12 coord13 coord14 coord21 coord22 coord23 := by
  simp only [VS.lorentz_boost_beta3.k_xy_eta_tau_xy_theta, VR.lorentz_boost_beta3.k_xy_eta_tau_xy_theta, c08_lorentz_boost_beta3_k_xy_z_tau_xy_theta, VS.planar_x.xy_eq, VS.planar_y.xy_eq, VS.spatial_z.xy_eta_eq, h0, VR.P.nanToNum_eq]

theorem c08_lorentz_boost_beta3_k_xy_eta_tau_xy_z (coord11 coord12 coord13 coord14 coord21 coord22 coord23 : ℝ) (h0 : 0 ≤ coord14) :
    VS.lorentz_boost_beta3.k_xy_eta_tau_xy_z coord11 coord12 coord13 coord14 coord21 coord22 coord23 = VR.lorentz_boost_beta3.k_xy_eta_tau_xy_z coord11 coord12 coord13 coord14 coord21 coord22 coord23 := by
  simp only [VS.lorentz_boost_beta3.k_xy_eta_tau_xy_z, VR.lorentz_boost_beta3.k_xy_eta_tau_xy_z, c08_lorentz_boost_beta3_k_xy_z_tau_xy_z, VS.planar_x.xy_eq, VS.planar_y.xy_eq, VS.spatial_z.xy_eta_eq, h0, VR.P.nanToNum_eq]

theorem c08_lorentz_boost_beta3_k_xy_theta_tau_rhophi_eta (coord11 coord12 coord13 coord14 coord21 coord22 coord23 : ℝ) (h0 : 0 ≤ coord14) :
    VS.lorentz_boost_beta3.k_xy_theta_tau_rhophi_eta coord11 coord12 coord13 coord14 coord21 coord22 coord23 = VR.lorentz_boost_beta3.k_xy_theta_tau_rhophi_eta coord11 coord12 coord13 coord14 coord21 coord22 coord23 := by
  simp only [VS.lorentz_boost_beta3.k_xy_theta_tau_rhophi_eta, VR.lorentz_boost_beta3.k_xy_theta_tau_rhophi_eta, c08_lorentz_boost_beta3_k_xy_z_tau_rhophi_eta, VS.planar_x.xy_eq, VS.planar_y.xy_eq, VS.spatial_z.xy_theta_eq, h0, VR.P.nanToNum_eq]

theorem c08_lorentz_boost_beta3_k_xy_theta_tau_rhophi_theta (coord11 coord12 coord13 coord14 coord21 coord22 coord23 : ℝ) (h0 : 0 ≤ coord14) :
    VS.lorentz_boost_beta3.k_xy_theta_tau_rhophi_theta coord11 coord12 coord13 coord14 coord21 coord22 coord23 = VR.lorentz_boost_beta3.k_xy_theta_tau_rhophi_theta coord11 coord12 coord13 coord14 coord21 coord22 coord23 := by
  simp only [VS.lorentz_boost_beta3.k_xy_theta_tau_rhophi_theta, VR.lorentz_boost_beta3.k_xy_theta_tau_rhophi_theta, c08_lorentz_boost_beta3_k_xy_z_tau_rhophi_theta, VS.planar_x.xy_eq, VS.planar_y.xy_eq, VS.spatial_z.xy_theta_eq, h0, VR.P.nanToNum_eq]

theorem c08_lorentz_boost_beta3_k_xy_theta_tau_rhophi_z (coord11 coord12 coord13 coord14 coord21 coord22 coord23 : ℝ) (h0 : 0 ≤ coord14) :
    VS.lorentz_boost_beta3.k_xy_theta_tau_rhophi_z coord11 coord12 coord13 coord14 coord21 coord22 coord23 = VR.lorentz_boost_beta3.k_xy_theta_tau_rhophi_z coord11 coord12 coord13 coord14 coord21 coord22 coord23 := by
  simp only [VS.lorentz_boost_beta3.k_xy_theta_tau_rhophi_z, VR.lorentz_boost_beta3.k_xy_theta_tau_rhophi_z, c08_lorentz_boost_beta3_k_xy_z_tau_rhophi_z, VS.planar_x.xy_eq, VS.planar_y.xy_eq, VS.spatial_z.xy_theta_eq, h0, VR.P.nanToNum_eq]

theorem c08_lorentz_boost_beta3_k_xy_theta_tau_xy_eta (coord11 coord12 coord13 coord14 coord21 coord22 coord23 : ℝ) (h0 : 0 ≤ coord14) :
    VS.lorentz_boost_beta3.k_xy_theta_tau_xy_eta coord11 coord12 coord13 coord14 coord21 coord22 coord23 = VR.lorentz_boost_beta3.k_xy_theta_tau_xy_eta coord11 coord12 coord13 coord14 coord21 coord22 coord23 := by
  simp only [VS.lorentz_boost_beta3.k_xy_theta_tau_xy_eta, VR.lorentz_boost_beta3.k_xy_theta_tau_xy_eta, c08_lorentz_boost_beta3_k_xy_z_tau_xy_eta, VS.planar_x.xy_eq, VS.planar_y.xy_eq, VS.spatial_z.xy_theta_eq, h0, VR.P.nanToNum_eq]

theorem c08_lorentz_boost_beta3_k_xy_theta_tau_xy_theta (coord11 coord12 coord13 coord14 coord21 coord22 coord23 : ℝ) (h0 : 0 ≤ coord14) :
    VS.lorentz_boost_beta3.k_xy_theta_tau_xy_theta coord11 coord12 coord13 coord14 coord21 coord22 coord23 = VR.lorentz_boost_beta3.k_xy_theta_tau_xy_theta coord11 coord12 coord13 coord14 coord21 coord22 coord23 := by
  simp only [VS.lorentz_boost_beta3.k_xy_theta_tau_xy_theta, VR.lorentz_boost_beta3.k_xy_theta_tau_xy_theta, c08_lorentz_boost_beta3_k_xy_z_tau_xy_theta, VS.planar_x.xy_eq, VS.planar_y.xy_eq, VS.spatial_z.xy_theta_eq, h0, VR.P.nanToNum_eq]

theorem c08_lorentz_boost_beta3_k_xy_theta_tau_xy_z (coord11 coord12 coord13 coord14 coord21 coord22 coord23 : ℝ) (h0 : 0 ≤ coord14) :
    VS.lorentz_boost_beta3.k_xy_theta_tau_xy_z coord11 coord12 coord13 coord14 coord21 coord22 coord23 = VR.lorentz_boost_beta3.k_xy_theta_tau_xy_z coord11 coord12 coord13 coord14 coord21 coord22 coord23 := by
  simp only [VS.lorentz_boost_beta3.k_xy_theta_tau_xy_z, VR.lorentz_boost_beta3.k_xy_theta_tau_xy_z, c08_lorentz_boost_beta3_k_xy_z_tau_xy_z, VS.planar_x.xy_eq, VS.planar_y.xy_eq, VS.spatial_z.xy_theta_eq, h0, VR.P.nanToNum_eq]


/-! ### `lorentz_boost_p4` -/

theorem c08_lorentz_boost_p4_cartesian_tau (x1 y1 z1 tau1 energy mass mass2 x2 y2 z2 : ℝ) (h0 : 0 ≤ tau1) :
    VS.lorentz_boost_p4.cartesian_tau x1 y1 z1 tau1 energy mass mass2 x2 y2 z2 = VR.lorentz_boost_p4.cartesian_tau x1 y1 z1 tau1 energy mass mass2 x2 y2 z2 := by
  simp only [VS.lorentz_boost_p4.cartesian_tau, VR.lorentz_boost_p4.cartesian_tau, c08_lorentz_transform4D_cartesian_tau, h0, VR.P.nanToNum_eq]

theorem c08_lorentz_boost_p4_cartesian_tau_rhophi_eta_t (x1 y1 z1 tau1 rho2 phi2 eta2 t2 : ℝ) (h0 : 0 ≤ tau1) :
    VS.lorentz_boost_p4.cartesian_tau_rhophi_eta_t x1 y1 z1 tau1 rho2 phi2 eta2 t2 = VR.lorentz_boost_p4.cartesian_tau_rhophi_eta_t x1 y1 z1 tau1 rho2 phi2 eta2 t2 := by
  simp only [VS.lorentz_boost_p4.cartesian_tau_rhophi_eta_t, VR.lorentz_boost_p4.cartesian_tau_rhophi_eta_t, VS.spatial_mag2.rhophi_eta_eq, c08_lorentz_boost_p4_cartesian_tau, VS.planar_x.rhophi_eq, VS.planar_y.rhophi_eq, VS.spatial_z.rhophi_eta_eq, h0, VR.P.nanToNum_eq]

theorem c08_lorentz_boost_p4_cartesian_tau_rhophi_eta_tau (x1 y1 z1 tau1 rho2 phi2 eta2 tau2 : ℝ) (h0 : 0 ≤ tau1) :
    VS.lorentz_boost_p4.cartesian_tau_rhophi_eta_tau x1 y1 z1 tau1 rho2 phi2 eta2 tau2 = VR.lorentz_boost_p4.cartesian_tau_rhophi_eta_tau x1 y1 z1 tau1 rho2 phi2 eta2 tau2 := by
  simp only [VS.lorentz_boost_p4.cartesian_tau_rhophi_eta_tau, VR.lorentz_boost_p4.cartesian_tau_rhophi_eta_tau, VS.spatial_mag2.rhophi_eta_eq, c08_lorentz_boost_p4_cartesian_tau, VS.planar_x.rhophi_eq, VS.planar_y.rhophi_eq, VS.spatial_z.rhophi_eta_eq, h0, VR.P.nanToNum_eq]

theorem c08_lorentz_boost_p4_cartesian_tau_rhophi_theta_t (x1 y1 z1 tau1 rho2 phi2 theta2 t2 : ℝ) (h0 : 0 ≤ tau1) :
    VS.lorentz_boost_p4.cartesian_tau_rhophi_theta_t x1 y1 z1 tau1 rho2 phi2 theta2 t2 = VR.lorentz_boost_p4.cartesian_tau_rhophi_theta_t x1 y1 z1 tau1 rho2 phi2 theta2 t2 := by
  simp only [VS.lorentz_boost_p4.cartesian_tau_rhophi_theta_t, VR.lorentz_boost_p4.cartesian_tau_rhophi_theta_t, VS.spatial_mag2.rhophi_theta_eq, c08_lorentz_boost_p4_cartesian_tau, VS.planar_x.rhophi_eq, VS.planar_y.rhophi_eq, VS.spatial_z.rhophi_theta_eq, h0, VR.P.nanToNum_eq]

theorem c08_lorentz_boost_p4_cartesian_tau_rhophi_theta_tau (x1 y1 z1 tau1 rho2 phi2 theta2 tau2 : ℝ) (h0 : 0 ≤ tau1) :
    VS.lorentz_boost_p4.cartesian_tau_rhophi_theta_tau x1 y1 z1 tau1 rho2 phi2 theta2 tau2 = VR.lorentz_boost_p4.cartesian_tau_rhophi_theta_tau x1 y1 z1 tau1 rho2 phi2 theta2 tau2 := by
  simp only [VS.lorentz_boost_p4.cartesian_tau_rhophi_theta_tau, VR.lorentz_boost_p4.cartesian_tau_rhophi_theta_tau, VS.spatial_mag2.rhophi_theta_eq, c08_lorentz_boost_p4_cartesian_tau, VS.planar_x.rhophi_eq, VS.planar_y.rhophi_eq, VS.spatial_z.rhophi_theta_eq, h0, VR.P.nanToNum_eq]

theorem c08_lorentz_boost_p4_cartesian_tau_rhophi_z_t (x1 y1 z1 tau1 rho2 phi2 z2 t2 : ℝ) (h0 : 0 ≤ tau1) :
    VS.lorentz_boost_p4.cartesian_tau_rhophi_z_t x1 y1 z1 tau1 rho2 phi2 z2 t2 = VR.lorentz_boost_p4.cartesian_tau_rhophi_z_t x1 y1 z1 tau1 rho2 phi2 z2 t2 := by
  simp only [VS.lorentz_boost_p4.cartesian_tau_rhophi_z_t, VR.lorentz_boost_p4.cartesian_tau_rhophi_z_t, VS.spatial_mag2.rhophi_z_eq, c08_lorentz_boost_p4_cartesian_tau, VS.planar_x.rhophi_eq, VS.planar_y.rhophi_eq, h0, VR.P.nanToNum_eq]

theorem c08_lorentz_boost_p4_cartesian_tau_rhophi_z_tau (x1 y1 z1 tau1 rho2 phi2 z2 tau2 : ℝ) (h0 : 0 ≤ tau1) :
    VS.lorentz_boost_p4.cartesian_tau_rhophi_z_tau x1 y1 z1 tau1 rho2 phi2 z2 tau2 = VR.lorentz_boost_p4.cartesian_tau_rhophi_z_tau x1 y1 z1 tau1 rho2 phi2 z2 tau2 := by
  simp only [VS.lorentz_boost_p4.cartesian_tau_rhophi_z_tau, VR.lorentz_boost_p4.cartesian_tau_rhophi_z_tau, VS.spatial_mag2.rhophi_z_eq, c08_lorentz_boost_p4_cartesian_tau, VS.planar_x.rhophi_eq, VS.planar_y.rhophi_eq, h0, VR.P.nanToNum_eq]

theorem c08_lorentz_boost_p4_cartesian_tau_xy_eta_t (x1 y1 z1 tau1 x2 y2 eta2 t2 : ℝ) (h0 : 0 ≤ tau1) :
    VS.lorentz_boost_p4.cartesian_tau_xy_eta_t x1 y1 z1 tau1 x2 y2 eta2 t2 = VR.lorentz_boost_p4.cartesian_tau_xy_eta_t x1 y1 z1 tau1 x2 y2 eta2 t2 := by
  simp only [VS.lorentz_boost_p4.cartesian_tau_xy_eta_t, VR.lorentz_boost_p4.cartesian_tau_xy_eta_t, VS.spatial_mag2.xy_eta_eq, c08_lorentz_boost_p4_cartesian_tau, VS.spatial_z.xy_eta_eq, h0, VR.P.nanToNum_eq]

theorem c08_lorentz_boost_p4_cartesian_tau_xy_eta_tau (x1 y1 z1 tau1 x2 y2 eta2 tau2 : ℝ) (h0 : 0 ≤ tau1) :
    VS.lorentz_boost_p4.cartesian_tau_xy_eta_tau x1 y1 z1 tau1 x2 y2 eta2 tau2 = VR.lorentz_boost_p4.cartesian_tau_xy_eta_tau x1 y1 z1 tau1 x2 y2 eta2 tau2 := by
  simp only [VS.lorentz_boost_p4.cartesian_tau_xy_eta_tau, VR.lorentz_boost_p4.cartesian_tau_xy_eta_tau, VS.spatial_mag2.xy_eta_eq, c08_lorentz_boost_p4_cartesian_tau, VS.spatial_z.xy_eta_eq, h0, VR.P.nanToNum_eq]

theorem c08_lorentz_boost_p4_cartesian_tau_xy_theta_t (x1 y1 z1 tau1 x2 y2 theta2 t2 : ℝ) (h0 : 0 ≤ tau1) :
    VS.lorentz_boost_p4.cartesian_tau_xy_theta_t x1 y1 z1 tau1 x2 y2 theta2 t2 = VR.lorentz_boost_p4.cartesian_tau_xy_theta_t x1 y1 z1 tau1 x2 y2 theta2 t2 := by
  simp only [VS.lorentz_boost_p4.cartesian_tau_xy_theta_t, VR.lorentz_boost_p4.cartesian_tau_xy_theta_t, VS.spatial_mag2.xy_theta_eq, c08_lorentz_boost_p4_cartesian_tau, VS.spatial_z.xy_theta_eq, h0, VR.P.nanToNum_eq]

theorem c08_lorentz_boost_p4_cartesian_tau_xy_theta_tau (x1 y1 z1 tau1 x2 y2 theta2 tau2 : ℝ) (h0 : 0 ≤ tau1) :
    VS.lorentz_boost_p4.cartesian_tau_xy_theta_tau x1 y1 z1 tau1 x2 y2 theta2 tau2 = VR.lorentz_boost_p4.cartesian_tau_xy_theta_tau x1 y1 z1 tau1 x2 y2 theta2 tau2 := by
  simp only [VS.lorentz_boost_p4.cartesian_tau_xy_theta_tau, VR.lorentz_boost_p4.cartesian_tau_xy_theta_tau, VS.spatial_mag2.xy_theta_eq, c08_lorentz_boost_p4_cartesian_tau, VS.spatial_z.xy_theta_eq, h0, VR.P.nanToNum_eq]

theorem c08_lorentz_boost_p4_cartesian_tau_xy_z_t (x1 y1 z1 tau1 x2 y2 z2 t2 : ℝ) (h0 : 0 ≤ tau1) :
    VS.lorentz_boost_p4.cartesian_tau_xy_z_t x1 y1 z1 tau1 x2 y2 z2 t2 = VR.lorentz_boost_p4.cartesian_tau_xy_z_t x1 y1 z1 tau1 x2 y2 z2 t2 := by
  simp only [VS.lorentz_boost_p4.cartesian_tau_xy_z_t, VR.lorentz_boost_p4.cartesian_tau_xy_z_t, VS.spatial_mag2.xy_z_eq, c08_lorentz_boost_p4_cartesian_tau, h0, VR.P.nanToNum_eq]

theorem c08_lorentz_boost_p4_cartesian_tau_xy_z_tau (x1 y1 z1 tau1 x2 y2 z2 tau2 : ℝ) (h0 : 0 ≤ tau1) :
    VS.lorentz_boost_p4.cartesian_tau_xy_z_tau x1 y1 z1 tau1 x2 y2 z2 tau2 = VR.lorentz_boost_p4.cartesian_tau_xy_z_tau x1 y1 z1 tau1 x2 y2 z2 tau2 := by
  simp only [VS.lorentz_boost_p4.cartesian_tau_xy_z_tau, VR.lorentz_boost_p4.cartesian_tau_xy_z_tau, VS.spatial_mag2.xy_z_eq, c08_lorentz_boost_p4_cartesian_tau, h0, VR.P.nanToNum_eq]

theorem c08_lorentz_boost_p4_k_xy_z_tau_rhophi_eta_t (coord11 coord12 coord13 coord14 coord21 coord22 coord23 coord24 : ℝ) (h0 : 0 ≤ coord14) :
    VS.lorentz_boost_p4.k_xy_z_tau_rhophi_eta_t coord11 coord12 coord13 coord14 coord21 coord22 coord23 coord24 = VR.lorentz_boost_p4.k_xy_z_tau_rhophi_eta_t coord11 coord12 coord13 coord14 coord21 coord22 coord23 coord24 := by
  simp only [VS.lorentz_boost_p4.k_xy_z_tau_rhophi_eta_t, VR.lorentz_boost_p4.k_xy_z_tau_rhophi_eta_t, c08_lorentz_boost_p4_cartesian_tau_rhophi_eta_t, VS.planar_x.xy_eq, VS.planar_y.xy_eq, VS.spatial_z.xy_z_eq, h0, VR.P.nanToNum_eq]

theorem c08_lorentz_boost_p4_k_rhophi_eta_tau_rhophi_eta_t (coord11 coord12 coord13 coord14 coord21 coord22 coord23 coord24 : ℝ) (h0 : 0 ≤ coord14) :
    VS.lorentz_boost_p4.k_rhophi_eta_tau_rhophi_eta_t coord11 coord12 coord13 coord14 coord21 coord22 coord23 coord24 = VR.lorentz_boost_p4.k_rhophi_eta_tau_rhophi_eta_t coord11 coord12 coord13 coord14 coord21 coord22 coord23 coord24 := by
  simp only [VS.lorentz_boost_p4.k_rhophi_eta_tau_rhophi_eta_t, VR.lorentz_boost_p4.k_rhophi_eta_tau_rhophi_eta_t, c08_lorentz_boost_p4_k_xy_z_tau_rhophi_eta_t, VS.planar_x.rhophi_eq, VS.planar_y.rhophi_eq, VS.spatial_z.rhophi_eta_eq, h0, VR.P.nanToNum_eq]

theorem c08_lorentz_boost_p4_k_xy_z_tau_rhophi_eta_tau (coord11 coord12 coord13 coord14 coord21 coord22 coord23 coord24 : ℝ) (h0 : 0 ≤ coord14) :
    VS.lorentz_boost_p4.k_xy_z_tau_rhophi_eta_tau coord11 coord12 coord13 coord14 coord21 coord22 coord23 coord24 = VR.lorentz_boost_p4.k_xy_z_tau_rhophi_eta_tau coord11 coord12 coord13 coord14 coord21 coord22 coord23 coord24 := by
  simp only [VS.lorentz_boost_p4.k_xy_z_tau_rhophi_eta_tau, VR.lorentz_boost_p4.k_xy_z_tau_rhophi_eta_tau, c08_lorentz_boost_p4_cartesian_tau_rhophi_eta_tau, VS.planar_x.xy_eq, VS.planar_y.xy_eq, VS.spatial_z.xy_z_eq, h0, VR.P.nanToNum_eq]

theorem c08_lorentz_boost_p4_k_rhophi_eta_tau_rhophi_eta_tau (coord11 coord12 coord13 coord14 coord21 coord22 coord23 coord24 : ℝ) (h0 : 0 ≤ coord14) :
    VS.lorentz_boost_p4.k_rhophi_eta_tau_rhophi_eta_tau coord11 coord12 coord13 coord14 coord21 coord22 coord23 coord24 = VR.lorentz_boost_p4.k_rhophi_eta_tau_rhophi_eta_tau coord11 coord12 coord13 coord14 coord21 coord22 coord23 coord24 := by
  simp only [VS.lorentz_boost_p4.k_rhophi_eta_tau_rhophi_eta_tau, VR.lorentz_boost_p4.k_rhophi_eta_tau_rhophi_eta_tau, c08_lorentz_boost_p4_k_xy_z_tau_rhophi_eta_tau, VS.planar_x.rhophi_eq, VS.planar_y.rhophi_eq, VS.spatial_z.rhophi_eta_eq, h0, VR.P.nanToNum_eq]

theorem c08_lorentz_boost_p4_k_xy_z_tau_rhophi_theta_t (coord11 coord12 coord13 coord14 coord21 coord22 coord23 coord24 : ℝ) (h0 : 0 ≤ coord14) :
    VS.lorentz_boost_p4.k_xy_z_tau_rhophi_theta_t coord11 coord12 coord13 coord14 coord21 coord22 coord23 coord24 = VR.lorentz_boost_p4.k_xy_z_tau_rhophi_theta_t coord11 coord12 coord13 coord14 coord21 coord22 coord23 coord24 := by
  simp only [VS.lorentz_boost_p4.k_xy_z_tau_rhophi_theta_t, VR.lorentz_boost_p4.k_xy_z_tau_rhophi_theta_t, c08_lorentz_boost_p4_cartesian_tau_rhophi_theta_t, VS.planar_x.xy_eq, VS.planar_y.xy_eq, VS.spatial_z.xy_z_eq, h0, VR.P.nanToNum_eq]

theorem c08_lorentz_boost_p4_k_rhophi_eta_tau_rhophi_theta_t (coord11 coord12 coord13 coord14 coord21 coord22 coord23 coord24 : ℝ) (h0 : 0 ≤ coord14) :
    VS.lorentz_boost_p4.k_rhophi_eta_tau_rhophi_theta_t coord11 coord12 coord13 coord14 coord21 coord22 coord23 coord24 = VR.lorentz_boost_p4.k_rhophi_eta_tau_rhophi_theta_t coord11 coord12 coord13 coord14 coord21 coord22 coord23 coord24 := by
  simp only [VS.lorentz_boost_p4.k_rhophi_eta_tau_rhophi_theta_t, VR.lorentz_boost_p4.k_rhophi_eta_tau_rhophi_theta_t, c08_lorentz_boost_p4_k_xy_z_tau_rhophi_theta_t, VS.planar_x.rhophi_eq, VS.planar_y.rhophi_eq, VS.spatial_z.rhophi_eta_eq, h0, VR.P.nanToNum_eq]

theorem c08_lorentz_boost_p4_k_xy_z_tau_rhophi_theta_tau (coord11 coord12 coord13 coord14 coord21 coord22 coord23 coord24 : ℝ) (h0 : 0 ≤ coord14) :
    VS.lorentz_boost_p4.k_xy_z_tau_rhophi_theta_tau coord11 coord12 coord13 coord14 coord21 coord22 coord23 coord24 = VR.lorentz_boost_p4.k_xy_z_tau_rhophi_theta_tau coord11 coord12 coord13 coord14 coord21 coord22 coord23 coord24 := by
  simp only [VS.lorentz_boost_p4.k_xy_z_tau_rhophi_theta_tau, VR.lorentz_boost_p4.k_xy_z_tau_rhophi_theta_tau, c08_lorentz_boost_p4_cartesian_tau_rhophi_theta_tau, VS.planar_x.xy_eq, VS.planar_y.xy_eq, VS.spatial_z.xy_z_eq, h0, VR.P.nanToNum_eq]

theorem c08_lorentz_boost_p4_k_rhophi_eta_tau_rhophi_theta_tau (coord11 coord12 coord13 coord14 coord21 coord22 coord23 coord24 : ℝ) (h0 : 0 ≤ coord14) :
    VS.lorentz_boost_p4.k_rhophi_eta_tau_rhophi_theta_tau coord11 coord12 coord13 coord14 coord21 coord22 coord23 coord24 = VR.lorentz_boost_p4.k_rhophi_eta_tau_rhophi_theta_tau coord11 coord12 coord13 coord14 coord21 coord22 coord23 coord24 := by
  simp only [VS.lorentz_boost_p4.k_rhophi_eta_tau_rhophi_theta_tau, VR.lorentz_boost_p4.k_rhophi_eta_tau_rhophi_theta_tau, c08_lorentz_boost_p4_k_xy_z_tau_rhophi_theta_tau, VS.planar_x.rhophi_eq, VS.planar_y.rhophi_eq, VS.spatial_z.rhophi_eta_eq, h0, VR.P.nanToNum_eq]

theorem c08_lorentz_boost_p4_k_xy_z_tau_rhophi_z_t (coord11 coord12 coord13 coord14 coord21 coord22 coord23 coord24 : ℝ) (h0 : 0 ≤ coord14) :
    VS.lorentz_boost_p4.k_xy_z_tau_rhophi_z_t coord11 coord12 coord13 coord14 coord21 coord22 coord23 coord24 = VR.lorentz_boost_p4.k_xy_z_tau_rhophi_z_t coord11 coord12 coord13 coord14 coord21 coord22 coord23 coord24 := by
  simp only [VS.lorentz_boost_p4.k_xy_z_tau_rhophi_z_t, VR.lorentz_boost_p4.k_xy_z_tau_rhophi_z_t, c08_lorentz_boost_p4_cartesian_tau_rhophi_z_t, VS.planar_x.xy_eq, VS.planar_y.xy_eq, VS.spatial_z.xy_z_eq, h0, VR.P.nanToNum_eq]

theorem c08_lorentz_boost_p4_k_rhophi_eta_tau_rhophi_z_t (coord11 coord12 coord13 coord14 coord21 coord22 coord23 coord24 : ℝ) (h0 : 0 ≤ coord14) :
    VS.lorentz_boost_p4.k_rhophi_eta_tau_rhophi_z_t coord11 coord12 coord13 coord14 coord21 coord22 coord23 coord24 = VR.lorentz_boost_p4.k_rhophi_eta_tau_rhophi_z_t coord11 coord12 coord13 coord14 coord21 coord22 coord23 coord24 := by
  simp only [VS.lorentz_boost_p4.k_rhophi_eta_tau_rhophi_z_t, VR.lorentz_boost_p4.k_rhophi_eta_tau_rhophi_z_t, c08_lorentz_boost_p4_k_xy_z_tau_rhophi_z_t, VS.planar_x.rhophi_eq, VS.planar_y.rhophi_eq, VS.spatial_z.rhophi_eta_eq, h0, VR.P.nanToNum_eq]

theorem c08_lorentz_boost_p4_k_xy_z_tau_rhophi_z_tau (coord11 coord12 coord13 coord14 coord21 coord22 coord23 coord24 : ℝ) (h0 : 0 ≤ coord14) :
    VS.lorentz_boost_p4.k_xy_z_tau_rhophi_z_tau coord11 coord12 coord13 coord14 coord21 coord22 coord23 coord24 = VR.lorentz_boost_p4.k_xy_z_tau_rhophi_z_tau coord11 coord12 coord13 coord14 coord21 coord22 coord23 coord24 := by
  simp only [VS.lorentz_boost_p4.k_xy_z_tau_rhophi_z_tau, VR.lorentz_boost_p4.k_xy_z_tau_rhophi_z_tau, c08_lorentz_boost_p4_cartesian_tau_rhophi_z_tau, VS.planar_x.xy_eq, VS.planar_y.xy_eq, VS.spatial_z.xy_z_eq, h0, VR.P.nanToNum_eq]

theorem c08_lorentz_boost_p4_k_rhophi_eta_tau_rhophi_z_tau (coord11 coord12 coord13 coord14 coord21 coord22 coord23 coord24 : ℝ) (h0 : 0 ≤ coord14) :
    VS.lorentz_boost_p4.k_rhophi_eta_tau_rhophi_z_tau coord11 coord12 coord13 coord14 coord21 coord22 coord23 coord24 = VR.lorentz_boost_p4.k_rhophi_eta_tau_rhophi_z_tau coord11 coord12 coord13 coord14 coord21 coord22 coord23 coord24 := by
  simp only [VS.lorentz_boost_p4.k_rhophi_eta_tau_rhophi_z_tau, VR.lorentz_boost_p4.k_rhophi_eta_tau_rhophi_z_tau, c08_lorentz_boost_p4_k_xy_z_tau_rhophi_z_tau, VS.planar_x.rhophi_eq, VS.planar_y.rhophi_eq, VS.spatial_z.rhophi_eta_eq, h0, VR.P.nanToNum_eq]

theorem c08_lorentz_boost_p4_k_xy_z_tau_xy_eta_t (coord11 coord12 coord13 coord14 coord21 coord22 coord23 coord24 : ℝ) (h0 : 0 ≤ coord14) :
    VS.lorentz_boost_p4.k_xy_z_tau_xy_eta_t coord11 coord12 coord13 coord14 coord21 coord22 coord23 coord24 = VR.lorentz_boost_p4.k_xy_z_tau_xy_eta_t coord11 coord12 coord13 coord14 coord21 coord22 coord23 coord24 := by
  simp only [VS.lorentz_boost_p4.k_xy_z_tau_xy_eta_t, VR.lorentz_boost_p4.k_xy_z_tau_xy_eta_t, c08_lorentz_boost_p4_cartesian_tau_xy_eta_t, VS.planar_x.xy_eq, VS.planar_y.xy_eq, VS.spatial_z.xy_z_eq, h0, VR.P.nanToNum_eq]

theorem c08_lorentz_boost_p4_k_rhophi_eta_tau_xy_eta_t (coord11 coord12 coord13 coord14 coord21 coord22 coord23 coord24 : ℝ) (h0 : 0 ≤ coord14) :
    VS.lorentz_boost_p4.k_rhophi_eta_tau_xy_eta_t coord11 coord12 coord13 coord14 coord21 coord22 coord23 coord24 = VR.lorentz_boost_p4.k_rhophi_eta_tau_xy_eta_t coord11 coord12 coord13 coord14 coord21 coord22 coord23 coord24 := by
  simp only [VS.lorentz_boost_p4.k_rhophi_eta_tau_xy_eta_t, VR.lorentz_boost_p4.k_rhophi_eta_tau_xy_eta_t, c08_lorentz_boost_p4_k_xy_z_tau_xy_eta_t, VS.planar_x.rhophi_eq, VS.planar_y.rhophi_eq, VS.spatial_z.rhophi_eta_eq, h0, VR.P.nanToNum_eq]

theorem c08_lorentz_boost_p4_k_xy_z_tau_xy_eta_tau (coord11 coord12 coord13 coord14 coord21 coord22 coord23 coord24 : ℝ) (h0 : 0 ≤ coord14) :
    VS.lorentz_boost_p4.k_xy_z_tau_xy_eta_tau coord11 coord12 coord13 coord14 coord21 coord22 coord23 coord24 = VR.lorentz_boost_p4.k_xy_z_tau_xy_eta_tau coord11 coord12 coord13 coord14 coord21 coord22 coord23 coord24 := by
  simp only [VS.lorentz_boost_p4.k_xy_z_tau_xy_eta_tau, VR.lorentz_boost_p4.k_xy_z_tau_xy_eta_tau, c08_lorentz_boost_p4_cartesian_tau_xy_eta_tau, VS.planar_x.xy_eq, VS.planar_y.xy_eq, VS.spatial_z.xy_z_eq, h0, VR.P.nanToNum_eq]

theorem c08_lorentz_boost_p4_k_rhophi_eta_tau_xy_eta_tau (coord11 coord12 coord13 coord14 coord21 coord22 coord23 coord24 : ℝ) (h0 : 0 ≤ coord14) :
    VS.lorentz_boost_p4.k_rhophi_eta_tau_xy_eta_tau coord11 coord12 coord13 coord14 coord21 coord22 coord23 coord24 = VR.lorentz_boost_p4.k_rhophi_eta_tau_xy_eta_tau coord11 coord12 coord13 coord14 coord21 coord22 coord23 coord24 := by
  simp only [VS.lorentz_boost_p4.k_rhophi_eta_tau_xy_eta_tau, VR.lorentz_boost_p4.k_rhophi_eta_tau_xy_eta_tau, c08_lorentz_boost_p4_k_xy_z_tau_xy_eta_tau, VS.planar_x.rhophi_eq, VS.planar_y.rhophi_eq, VS.spatial_z.rhophi_eta_eq, h0, VR.P.nanToNum_eq]

theorem c08_lorentz_boost_p4_k_xy_z_tau_xy_theta_t (coord11 coord12 coord13 coord14 coord21 coord22 coord23 coord24 : ℝ) (h0 : 0 ≤ coord14) :
    VS.lorentz_boost_p4.k_xy_z_tau_xy_theta_t coord11 coord12 coord13 coord14 coord21 coord22 coord23 coord24 = VR.lorentz_boost_p4.k_xy_z_tau_xy_theta_t coord11 coord12 coord13 coord14 coord21 coord22 coord23 coord24 := by
  simp only [VS.lorentz_boost_p4.k_xy_z_tau_xy_theta_t, VR.lorentz_boost_p4.k_xy_z_tau_xy_theta_t, c08_lorentz_boost_p4_cartesian_tau_xy_theta_t, VS.planar_x.xy_eq, VS.planar_y.xy_eq, VS.spatial_z.xy_z_eq, h0, VR.P.nanToNum_eq]

theorem c08_lorentz_boost_p4_k_rhophi_eta_tau_xy_theta_t (coord11 coord12 coord13 coord14 coord21 coord22 coord23 coord24 : ℝ) (h0 : 0 ≤ coord14) :
    VS.lorentz_boost_p4.k_rhophi_eta_tau_xy_theta_t coord11 coord12 coord13 coord14 coord21 coord22 coord23 coord24 = VR.lorentz_boost_p4.k_rhophi_eta_tau_xy_theta_t coord11 coord12 coord13 coord14 coord21 coord22 coord23 coord24 := by
  simp only [VS.lorentz_boost_p4.k_rhophi_eta_tau_xy_theta_t, VR.lorentz_boost_p4.k_rhophi_eta_tau_xy_theta_t, c08_lorentz_boost_p4_k_xy_z_tau_xy_theta_t, VS.planar_x.rhophi_eq, VS.planar_y.rhophi_eq, VS.spatial_z.rhophi_eta_eq, h0, VR.P.nanToNum_eq]

theorem c08_lorentz_boost_p4_k_xy_z_tau_xy_theta_tau (coord11 coord12 coord13 coord14 coord21 coord22 coord23 coord24 : ℝ) (h0 : 0 ≤ coord14) :
    VS.lorentz_boost_p4.k_xy_z_tau_xy_theta_tau coord11 coord12 coord13 coord14 coord21 coord22 coord23 coord24 = VR.lorentz_boost_p4.k_xy_z_tau_xy_theta_tau coord11 coord12 coord13 coord14 coord21 coord22 coord23 coord24 := by
  simp only [VS.lorentz_boost_p4.k_xy_z_tau_xy_theta_tau, VR.lorentz_boost_p4.k_xy_z_tau_xy_theta_tau, c08_lorentz_boost_p4_cartesian_tau_xy_theta_tau, VS.planar_x.xy_eq, VS.planar_y.xy_eq, VS.spatial_z.xy_z_eq, h0, VR.P.nanToNum_eq]

theorem c08_lorentz_boost_p4_k_rhophi_eta_tau_xy_theta_tau (coord11 coord12 coord13 coord14 coord21 coord22 coord23 coord24 : ℝ) (h0 : 0 ≤ coord14) :
    VS.lorentz_boost_p4.k_rhophi_eta_tau_xy_theta_tau coord11 coord12 coord13 coord14 coord21 coord22 coord23 coord24 = VR.lorentz_boost_p4.k_rhophi_eta_tau_xy_theta_tau coord11 coord12 coord13 coord14 coord21 coord22 coord23 coord24 := by
  simp only [VS.lorentz_boost_p4.k_rhophi_eta_tau_xy_theta_tau, VR.lorentz_boost_p4.k_rhophi_eta_tau_xy_theta_tau, c08_lorentz_boost_p4_k_xy_z_tau_xy_theta_tau, VS.planar_x.rhophi_eq, VS.planar_y.rhophi_eq, VS.spatial_z.rhophi_eta_eq, h0, VR.P.nanToNum_eq]

theorem c08_lorentz_boost_p4_k_xy_z_tau_xy_z_t (coord11 coord12 coord13 coord14 coord21 coord22 coord23 coord24 : ℝ) (h0 : 0 ≤ coord14) :
    VS.lorentz_boost_p4.k_xy_z_tau_xy_z_t coord11 coord12 coord13 coord14 coord21 coord22 coord23 coord24 = VR.lorentz_boost_p4.k_xy_z_tau_xy_z_t coord11 coord12 coord13 coord14 coord21 coord22 coord23 coord24 := by
  simp only [VS.lorentz_boost_p4.k_xy_z_tau_xy_z_t, VR.lorentz_boost_p4.k_xy_z_tau_xy_z_t, c08_lorentz_boost_p4_cartesian_tau_xy_z_t, VS.planar_x.xy_eq, VS.planar_y.xy_eq, VS.spatial_z.xy_z_eq, h0, VR.P.nanToNum_eq]

theorem c08_lorentz_boost_p4_k_rhophi_eta_tau_xy_z_t (coord11 coord12 coord13 coord14 coord21 coord22 coord23 coord24 : ℝ) (h0 : 0 ≤ coord14) :
    VS.lorentz_boost_p4.k_rhophi_eta_tau_xy_z_t coord11 coord12 coord13 coord14 coord21 coord22 coord23 coord24 = VR.lorentz_boost_p4.k_rhophi_eta_tau_xy_z_t coord11 coord12 coord13 coord14 coord21 coord22 coord23 coord24 := by
  simp only [VS.lorentz_boost_p4.k_rhophi_eta_tau_xy_z_t, VR.lorentz_boost_p4.k_rhophi_eta_tau_xy_z_t, c08_lorentz_boost_p4_k_xy_z_tau_xy_z_t, VS.planar_x.rhophi_eq, VS.planar_y.rhophi_eq, VS.spatial_z.rhophi_eta_eq, h0, VR.P.nanToNum_eq]

theorem c08_lorentz_boost_p4_k_xy_z_tau_xy_z_tau (coord11 coord12 coord13 coord14 coord21 coord22 coord23 coord24 : ℝ) (h0 : 0 ≤ coord14) :
    VS.lorentz_boost_p4.k_xy_z_tau_xy_z_tau coord11 coord12 coord13 coord14 coord21 coord22 coord23 coord24 = VR.lorentz_boost_p4.k_xy_z_tau_xy_z_tau coord11 coord12 coord13 coord14 coord21 coord22 coord23 coord24 := by
  simp only [VS.lorentz_boost_p4.k_xy_z_tau_xy_z_tau, VR.lorentz_boost_p4.k_xy_z_tau_xy_z_tau, c08_lorentz_boost_p4_cartesian_tau_xy_z_tau, VS.planar_x.xy_eq, VS.planar_y.xy_eq, VS.spatial_z.xy_z_eq, h0, VR.P.nanToNum_eq]

theorem c08_lorentz_boost_p4_k_rhophi_eta_tau_xy_z_tau (coord11 coord12 coord13 coord14 coord21 coord22 coord23 coord24 : ℝ) (h0 : 0 ≤ coord14) :
    VS.lorentz_boost_p4.k_rhophi_eta_tau_xy_z_tau coord11 coord12 coord13 coord14 coord21 coord22 coord23 coord24 = VR.lorentz_boost_p4.k_rhophi_eta_tau_xy_z_tau coord11 coord12 coord13 coord14 coord21 coord22 coord23 coord24 := by
  simp only [VS.lorentz_boost_p4.k_rhophi_eta_tau_xy_z_tau, VR.lorentz_boost_p4.k_rhophi_eta_tau_xy_z_tau, c08_lorentz_boost_p4_k_xy_z_tau_xy_z_tau, VS.planar_x.rhophi_eq, VS.planar_y.rhophi_eq, VS.spatial_z.rhophi_eta_eq, h0, VR.P.nanToNum_eq]

theorem c08_lorentz_boost_p4_k_rhophi_theta_tau_rhophi_eta_t (coord11 coord12 coord13 coord14 coord21 coord22 coord23 coord24 : ℝ) (h0 : 0 ≤ coord14) :
    VS.lorentz_boost_p4.k_rhophi_theta_tau_rhophi_eta_t coord11 coord12 coord13 coord14 coord21 coord22 coord23 coord24 = VR.lorentz_boost_p4.k_rhophi_theta_tau_rhophi_eta_t coord11 coord12 coord13 coord14 coord21 coord22 coord23 coord24 := by
  simp only [VS.lorentz_boost_p4.k_rhophi_theta_tau_rhophi_eta_t, VR.lorentz_boost_p4.k_rhophi_theta_tau_rhophi_eta_t, c08_lorentz_boost_p4_k_xy_z_tau_rhophi_eta_t, VS.planar_x.rhophi_eq, VS.planar_y.rhophi_eq, VS.spatial_z.rhophi_theta_eq, h0, VR.P.nanToNum_eq]

theorem c08_lorentz_boost_p4_k_rhophi_theta_tau_rhophi_eta_tau (coord11 coord12 coord13 coord14 coord21 coord22 coord23 coord24 : ℝ) (h0 : 0 ≤ coord14) :
    VS.lorentz_boost_p4.k_rhophi_theta_tau_rhophi_eta_tau coord11 coord12 coord13 coord14 coord21 coord22 coord23 coord24 = VR.lorentz_boost_p4.k_rhophi_theta_tau_rhophi_eta_tau coord11 coord12 coord13 coord14 coord21 coord22 coord23 coord24 := by
  simp only [VS.lorentz_boost_p4.k_rhophi_theta_tau_rhophi_eta_tau, VR.lorentz_boost_p4.k_rhophi_theta_tau_rhophi_eta_tau, c08_lorentz_boost_p4_k_xy_z_tau_rhophi_eta_tau, VS.planar_x.rhophi_eq, VS.planar_y.rhophi_eq, VS.spatial_z.rhophi_theta_eq, h0, VR.P.nanToNum_eq]

theorem c08_lorentz_boost_p4_k_rhophi_theta_tau_rhophi_theta_t (coord11 coord12 coord13 coord14 coord21 coord22 coord23 coord24 : ℝ) (h0 : 0 ≤ coord14) :
    VS.lorentz_boost_p4.k_rhophi_theta_tau_rhophi_theta_t coord11 coord12 coord13 coord14 coord21 coord22 coord23 coord24 = VR.lorentz_boost_p4.k_rhophi_theta_tau_rhophi_theta_t coord11 coord12 coord13 coord14 coord21 coord22 coord23 coord24 := by
  simp only [VS.lorentz_boost_p4.k_rhophi_theta_tau_rhophi_theta_t, VR.lorentz_boost_p4.k_rhophi_theta_tau_rhophi_theta_t, c08_lorentz_boost_p4_k_xy_z_tau_rhophi_theta_t, VS.planar_x.rhophi_eq, VS.planar_y.rhophi_eq, VS.spatial_z.rhophi_theta_eq, h0, VR.P.nanToNum_eq]

theorem c08_lorentz_boost_p4_k_rhophi_theta_tau_rhophi_theta_tau (coord11 coord12 coord13 coord14 coord21 coord22 coord23 coord24 : ℝ) (h0 : 0 ≤ coord14) :
    VS.lorentz_boost_p4.k_rhophi_theta_tau_rhophi_theta_tau coord11 coord12 coord13 coord14 coord21 coord22 coord23 coord24 = VR.lorentz_boost_p4.k_rhophi_theta_tau_rhophi_theta_tau coord11 coord12 coord13 coord14 coord21 coord22 coord23 coord24 := by
  simp only [VS.lorentz_boost_p4.k_rhophi_theta_tau_rhophi_theta_tau, VR.lorentz_boost_p4.k_rhophi_theta_tau_rhophi_theta_tau, c08_lorentz_boost_p4_k_xy_z_tau_rhophi_theta_tau, VS.planar_x.rhophi_eq, VS.planar_y.rhophi_eq, VS.spatial_z.rhophi_theta_eq, h0, VR.P.nanToNum_eq]

theorem c08_lorentz_boost_p4_k_rhophi_theta_tau_rhophi_z_t (coord11 coord12 coord13 coord14 coord21 coord22 coord23 coord24 : ℝ) (h0 : 0 ≤ coord14) :
    VS.lorentz_boost_p4.k_rhophi_theta_tau_rhophi_z_t coord11 coord12 coord13 coord14 coord21 coord22 coord23 coord24 = VR.lorentz_boost_p4.k_rhophi_theta_tau_rhophi_z_t coord11 coord12 coord13 coord14 coord21 coord22 coord23 coord24 := by
  simp only [VS.lorentz_boost_p4.k_rhophi_theta_tau_rhophi_z_t, VR.lorentz_boost_p4.k_rhophi_theta_tau_rhophi_z_t, c08_lorentz_boost_p4_k_xy_z_tau_rhophi_z_t, VS.planar_x.rhophi_eq, VS.planar_y.rhophi_eq, VS.spatial_z.rhophi_theta_eq, h0, VR.P.nanToNum_eq]

theorem c08_lorentz_boost_p4_k_rhophi_theta_tau_rhophi_z_tau (coord11 coord12 coord13 coord14 coord21 coord22 coord23 coord24 : ℝ) (h0 : 0 ≤ coord14) :
    VS.lorentz_boost_p4.k_rhophi_theta_tau_rhophi_z_tau coord11 coord12 coord13 coord14 coord21 coord22 coord23 coord24 = VR.lorentz_boost_p4.k_rhophi_theta_tau_rhophi_z_tau coord11 coord12 coord13 coord14 coord21 coord22 coord23 coord24 := by
  simp only [VS.lorentz_boost_p4.k_rhophi_theta_tau_rhophi_z_tau, VR.lorentz_boost_p4.k_rhophi_theta_tau_rhophi_z_tau, c08_lorentz_boost_p4_k_xy_z_tau_rhophi_z_tau, VS.planar_x.rhophi_eq, VS.planar_y.rhophi_eq, VS.spatial_z.rhophi_theta_eq, h0, VR.P.nanToNum_eq]

theorem c08_lorentz_boost_p4_k_rhophi_theta_tau_xy_eta_t (coord11 coord12 coord13 coord14 coord21 coord22 coord23 coord24 : ℝ) (h0 : 0 ≤ coord14) :
    VS.lorentz_boost_p4.k_rhophi_theta_tau_xy_eta_t coord11 coord12 coord13 coord14 coord21 coord22 coord23 coord24 = VR.lorentz_boost_p4.k_rhophi_theta_tau_xy_eta_t coord11 coord12 coord13 coord14 coord21 coord22 coord23 coord24 := by
  simp only [VS.lorentz_boost_p4.k_rhophi_theta_tau_xy_eta_t, VR.lorentz_boost_p4.k_rhophi_theta_tau_xy_eta_t, c08_lorentz_boost_p4_k_xy_z_tau_xy_eta_t, VS.planar_x.rhophi_eq, VS.planar_y.rhophi_eq, VS.spatial_z.rhophi_theta_eq, h0, VR.P.nanToNum_eq]

theorem c08_lorentz_boost_p4_k_rhophi_theta_tau_xy_eta_tau (coord11 coord12 coord13 coord14 coord21 coord22 coord23 coord24 : ℝ) (h0 : 0 ≤ coord14) :
    VS.lorentz_boost_p4.k_rhophi_theta_tau_xy_eta_tau coord11 coord12 coord13 coord14 coord21 coord22 coord23 coord24 = VR.lorentz_boost_p4.k_rhophi_theta_tau_xy_eta_tau coord11 coord12 coord13 coord14 coord21 coord22 coord23 coord24 := by
  simp only [VS.lorentz_boost_p4.k_rhophi_theta_tau_xy_eta_tau, VR.lorentz_boost_p4.k_rhophi_theta_tau_xy_eta_tau, c08_lorentz_boost_p4_k_xy_z_tau_xy_eta_tau, VS.planar_x.rhophi_eq, VS.planar_y.rhophi_eq, VS.spatial_z.rhophi_theta_eq, h0, VR.P.nanToNum_eq]

theorem c08_lorentz_boost_p4_k_rhophi_theta_tau_xy_theta_t (coord11 coord12 coord13 coord14 coord21 coord22 coord23 coord24 : ℝ) (h0 : 0 ≤ coord14) :
    VS.lorentz_boost_p4.k_rhophi_theta_tau_xy_theta_t coord11 coord12 coord13 coord14 coord21 coord22 coord23 coord24 = VR.lorentz_boost_p4.k_rhophi_theta_tau_xy_theta_t coord11 coord12 coord13 coord14 coord21 coord22 coord23 coord24 := by
  simp only [VS.lorentz_boost_p4.k_rhophi_theta_tau_xy_theta_t, VR.lorentz_boost_p4.k_rhophi_theta_tau_xy_theta_t, c08_lorentz_boost_p4_k_xy_z_tau_xy_theta_t, VS.planar_x.rhophi_eq, VS.planar_y.rhophi_eq, VS.spatial_z.rhophi_theta_eq, h0, VR.P.nanToNum_eq]

theorem c08_lorentz_boost_p4_k_rhophi_theta_tau_xy_theta_tau (coord11 coord12 coord13 coord14 coord21 coord22 coord23 coord24 : ℝ) (h0 : 0 ≤ coord14) :
    VS.lorentz_boost_p4.k_rhophi_theta_tau_xy_theta_tau coord11 coord12 coord13 coord14 coord21 coord22 coord23 coord24 = VR.lorentz_boost_p4.k_rhophi_theta_tau_xy_theta_tau coord11 coord12 coord13 coord14 coord21 coord22 coord23 coord24 := by
  simp only [VS.lorentz_boost_p4.k_rhophi_theta_tau_xy_theta_tau, VR.lorentz_boost_p4.k_rhophi_theta_tau_xy_theta_tau, c08_lorentz_boost_p4_k_xy_z_tau_xy_theta_tau, VS.planar_x.rhophi_eq, VS.planar_y.rhophi_eq, VS.spatial_z.rhophi_theta_eq, h0, VR.P.nanToNum_eq]

theorem c08_lorentz_boost_p4_k_rhophi_theta_tau_xy_z_t (coord11 coord12 coord13 coord14 coord21 coord22 coord23 coord24 : ℝ) (h0 : 0 ≤ coord14) :
    VS.lorentz_boost_p4.k_rhophi_theta_tau_xy_z_t coord11 coord12 coord13 coord14 coord21 coord22 coord23 coord24 = VR.lorentz_boost_p4.k_rhophi_theta_tau_xy_z_t coord11 coord12 coord13 coord14 coord21 coord22 coord23 coord24 := by
  simp only [VS.lorentz_boost_p4.k_rhophi_theta_tau_xy_z_t, VR.lorentz_boost_p4.k_rhophi_theta_tau_xy_z_t, c08_lorentz_boost_p4_k_xy_z_tau_xy_z_t, VS.planar_x.rhophi_eq, VS.planar_y.rhophi_eq, VS.spatial_z.rhophi_theta_eq, h0, VR.P.nanToNum_eq]

theorem c08_lorentz_boost_p4_k_rhophi_theta_tau_xy_z_tau (coord11 coord12 coord13 coord14 coord21 coord22 coord23 coord24 : ℝ) (h0 : 0 ≤ coord14) :
    VS.lorentz_boost_p4.k_rhophi_theta_tau_xy_z_tau coord11 coord12 coord13 coord14 coord21 coord22 coord23 coord24 = VR.lorentz_boost_p4.k_rhophi_theta_tau_xy_z_tau coord11 coord12 coord13 coord14 coord21 coord22 coord23 coord24 := by
  simp only [VS.lorentz_boost_p4.k_rhophi_theta_tau_xy_z_tau, VR.lorentz_boost_p4.k_rhophi_theta_tau_xy_z_tau, c08_lorentz_boost_p4_k_xy_z_tau_xy_z_tau, VS.planar_x.rhophi_eq, VS.planar_y.rhophi_eq, VS.spatial_z.rhophi_theta_eq, h0, VR.P.nanToNum_eq]

theorem c08_lorentz_boost_p4_k_rhophi_z_tau_rhophi_eta_t (coord11 coord12 coord13 coord14 coord21 coord22 coord23 coord24 : ℝ) (h0 : 0 ≤ coord14) :
    VS.lorentz_boost_p4.k_rhophi_z_tau_rhophi_eta_t coord11 coord12 coord13 coord14 coord21 coord22 coord23 coord24 = VR.lorentz_boost_p4.k_rhophi_z_tau_rhophi_eta_t coord11 coord12 coord13 coord14 coord21 coord22 coord23 coord24 := by
  simp only [VS.lorentz_boost_p4.k_rhophi_z_tau_rhophi_eta_t, VR.lorentz_boost_p4.k_rhophi_z_tau_rhophi_eta_t, c08_lorentz_boost_p4_k_xy_z_tau_rhophi_eta_t, VS.planar_x.rhophi_eq, VS.planar_y.rhophi_eq, VS.spatial_z.rhophi_z_eq, h0, VR.P.nanToNum_eq]

theorem c08_lorentz_boost_p4_k_rhophi_z_tau_rhophi_eta_tau (coord11 coord12 coord13 coord14 coord21 coord22 coord23 coord24 : ℝ) (h0 : 0 ≤ coord14) :
    VS.lorentz_boost_p4.k_rhophi_z_tau_rhophi_eta_tau coord11 coord12 coord13 coord14 coord21 coord22 coord23 coord24 = VR.lorentz_boost_p4.k_rhophi_z_tau_rhophi_eta_tau coord11 coord12 coord13 coord14 coord21 coord22 coord23 coord24 := by
  simp only [VS.lorentz_boost_p4.k_rhophi_z_tau_rhophi_eta_tau, VR.lorentz_boost_p4.k_rhophi_z_tau_rhophi_eta_tau, c08_lorentz_boost_p4_k_xy_z_tau_rhophi_eta_tau, VS.planar_x.rhophi_eq, VS.planar_y.rhophi_eq, VS.spatial_z.rhophi_z_eq, h0, VR.P.nanToNum_eq]

theorem c08_lorentz_boost_p4_k_rhophi_z_tau_rhophi_theta_t (coord11 coord12 coord13 coord14 coord21 coord22 coord23 coord24 : ℝ) (h0 : 0 ≤ coord14) :
    VS.lorentz_boost_p4.k_rhophi_z_tau_rhophi_theta_t coord11 coord12 coord13 coord14 coord21 coord22 coord23 coord24 = VR.lorentz_boost_p4.k_rhophi_z_tau_rhophi_theta_t coord11 coord12 coord13 coord14 coord21 coord22 coord23 coord24 := by
  simp only [VS.lorentz_boost_p4.k_rhophi_z_tau_rhophi_theta_t, VR.lorentz_boost_p4.k_rhophi_z_tau_rhophi_theta_t, c08_lorentz_boost_p4_k_xy_z_tau_rhophi_theta_t, VS.planar_x.rhophi_eq, VS.planar_y.rhophi_eq, VS.spatial_z.rhophi_z_eq, h0, VR.P.nanToNum_eq]

theorem c08_lorentz_boost_p4_k_rhophi_z_tau_rhophi_theta_tau (coord11 coord12 coord13 coord14 coord21 coord22 coord23 coord24 : ℝ) (h0 : 0 ≤ coord14) :
    VS.lorentz_boost_p4.k_rhophi_z_tau_rhophi_theta_tau coord11 coord12 coord13 coord14 coord21 coord22 coord23 coord24 = VR.lorentz_boost_p4.k_rhophi_z_tau_rhophi_theta_tau coord11 coord12 coord13 coord14 coord21 coord22 coord23 coord24 := by
  simp only [VS.lorentz_boost_p4.k_rhophi_z_tau_rhophi_theta_tau, VR.lorentz_boost_p4.k_rhophi_z_tau_rhophi_theta_tau, c08_lorentz_boost_p4_k_xy_z_tau_rhophi_theta_tau, VS.planar_x.rhophi_eq, VS.planar_y.rhophi_eq, VS.spatial_z.rhophi_z_eq, h0, VR.P.nanToNum_eq]

theorem c08_lorentz_boost_p4_k_rhophi_z_tau_rhophi_z_t (coord11 coord12 coord13 coord14 coord21 coord22 coord23 coord24 : ℝ) (h0 : 0 ≤ coord14) :
    VS.lorentz_boost_p4.k_rhophi_z_tau_rhophi_z_t coord11 coord12 coord13 coord14 coord21 coord22 coord23 coord24 = VR.lorentz_boost_p4.k_rhophi_z_tau_rhophi_z_t coord11 coord12 coord13 coord14 coord21 coord22 coord23 coord24 := by
  simp only [VS.lorentz_boost_p4.k_rhophi_z_tau_rhophi_z_t, VR.lorentz_boost_p4.k_rhophi_z_tau_rhophi_z_t, c08_lorentz_boost_p4_k_xy_z_tau_rhophi_z_t, VS.planar_x.rhophi_eq, VS.planar_y.rhophi_eq, VS.spatial_z.rhophi_z_eq, h0, VR.P.nanToNum_eq]

theorem c08_lorentz_boost_p4_k_rhophi_z_tau_rhophi_z_tau (coord11 coord12 coord13 coord14 coord21 coord22 coord23 coord24 : ℝ) (h0 : 0 ≤ coord14) :
    VS.lorentz_boost_p4.k_rhophi_z_tau_rhophi_z_tau coord11 coord12 coord13 coord14 coord21 coord22 coord23 coord24 = VR.lorentz_boost_p4.k_rhophi_z_tau_rhophi_z_tau coord11 coord12 coord13 coord14 coord21 coord22 coord23 coord24 := by
  simp only [VS.lorentz_boost_p4.k_rhophi_z_tau_rhophi_z_tau, VR.lorentz_boost_p4.k_rhophi_z_tau_rhophi_z_tau, c08_lorentz_boost_p4_k_xy_z_tau_rhophi_z_tau, VS.planar_x.rhophi_eq, VS.planar_y.rhophi_eq, VS.spatial_z.rhophi_z_eq, h0, VR.P.nanToNum_eq]

theorem c08_lorentz_boost_p4_k_rhophi_z_tau_xy_eta_t (coord11 coord12 coord13 coord14 coord21 coord22 coord23 coord24 : ℝ) (h0 : 0 ≤ coord14) :
    VS.lorentz_boost_p4.k_rhophi_z_tau_xy_eta_t coord11 coord12 coord13 coord14 coord21 coord22 coord23 coord24 = VR.lorentz_boost_p4.k_rhophi_z_tau_xy_eta_t coord11 coord12 coord13 coord14 coord21 coord22 coord23 coord24 := by
  simp only [VS.lorentz_boost_p4.k_rhophi_z_tau_xy_eta_t, VR.lorentz_boost_p4.k_rhophi_z_tau_xy_eta_t, c08_lorentz_boost_p4_k_xy_z_tau_xy_eta_t, VS.planar_x.rhophi_eq, VS.planar_y.rhophi_eq, VS.spatial_z.rhophi_z_eq, h0, VR.P.nanToNum_eq]

theorem c08_lorentz_boost_p4_k_rhophi_z_tau_xy_eta_tau (coord11 coord12 coord13 coord14 coord21 coord22 coord23 coord24 : ℝ) (h0 : 0 ≤ coord14) :
    VS.lorentz_boost_p4.k_rhophi_z_tau_xy_eta_tau coord11 coord12 coord13 coord14 coord21 coord22 coord23 coord24 = VR.lorentz_boost_p4.k_rhophi_z_tau_xy_eta_tau coord11 coord12 coord13 coord14 coord21 coord22 coord23 coord24 := by
  simp only [VS.lorentz_boost_p4.k_rhophi_z_tau_xy_eta_tau, VR.lorentz_boost_p4.k_rhophi_z_tau_xy_eta_tau, c08_lorentz_boost_p4_k_xy_z_tau_xy_eta_tau, VS.planar_x.rhophi_eq, VS.planar_y.rhophi_eq, VS.spatial_z.rhophi_z_eq, h0, VR.P.nanToNum_eq]

theorem c08_lorentz_boost_p4_k_rhophi_z_tau_xy_theta_t (coord11 coord12 coord13 coord14 coord21 coord22 coord23 coord24 : ℝ) (h0 : 0 ≤ coord14) :
    VS.lorentz_boost_p4.k_rhophi_z_tau_xy_theta_t coord11 coord12 coord13 coord14 coord21 coord22 coord23 coord24 = VR.lorentz_boost_p4.k_rhophi_z_tau_xy_theta_t coord11 coord12 coord13 coord14 coord21 coord22 coord23 coord24 := by
  simp only [VS.lorentz_boost_p4.k_rhophi_z_tau_xy_theta_t, VR.lorentz_boost_p4.k_rhophi_z_tau_xy_theta_t, c08_lorentz_boost_p4_k_xy_z_tau_xy_theta_t, VS.planar_x.rhophi_eq, VS.planar_y.rhophi_eq, VS.spatial_z.rhophi_z_eq, h0, VR.P.nanToNum_eq]

theorem c08_lorentz_boost_p4_k_rhophi_z_tau_xy_theta_tau (coord11 coord12 coord13 coord14 coord21 coord22 coord23 coord24 : ℝ) (h0 : 0 ≤ coord14) :
    VS.lorentz_boost_p4.k_rhophi_z_tau_xy_theta_tau coord11 coord12 coord13 coord14 coord21 coord22 coord23 coord24 = VR.lorentz_boost_p4.k_rhophi_z_tau_xy_theta_tau coord11 coord12 coord13 coord14 coord21 coord22 coord23 coord24 := by
  simp only [VS.lorentz_boost_p4.k_rhophi_z_tau_xy_theta_tau, VR.lorentz_boost_p4.k_rhophi_z_tau_xy_theta_tau, c08_lorentz_boost_p4_k_xy_z_tau_xy_theta_tau, VS.planar_x.rhophi_eq, VS.planar_y.rhophi_eq, VS.spatial_z.rhophi_z_eq, h0, VR.P.nanToNum_eq]

theorem c08_lorentz_boost_p4_k_rhophi_z_tau_xy_z_t (coord11 coord12 coord13 coord14 coord21 coord22 coord23 coord24 : ℝ) (h0 : 0 ≤ coord14) :
    VS.lorentz_boost_p4.k_rhophi_z_tau_xy_z_t coord11 coord12 coord13 coord14 coord21 coord22 coord23 coord24 = VR.lorentz_boost_p4.k_rhophi_z_tau_xy_z_t coord11 coord12 coord13 coord14 coord21 coord22 coord23 coord24 := by
  simp only [VS.lorentz_boost_p4.k_rhophi_z_tau_xy_z_t, VR.lorentz_boost_p4.k_rhophi_z_tau_xy_z_t, c08_lorentz_boost_p4_k_xy_z_tau_xy_z_t, VS.planar_x.rhophi_eq, VS.planar_y.rhophi_eq, VS.spatial_z.rhophi_z_eq, h0, VR.P.nanToNum_eq]

theorem c08_lorentz_boost_p4_k_rhophi_z_tau_xy_z_tau (coord11 coord12 coord13 coord14 coord21 coord22 coord23 coord24 : ℝ) (h0 : 0 ≤ coord14) :
    VS.lorentz_boost_p4.k_rhophi_z_tau_xy_z_tau coord11 coord12 coord13 coord14 coord21 coord22 coord23 coord24 = VR.lorentz_boost_p4.k_rhophi_z_tau_xy_z_tau coord11 coord12 coord13 coord14 coord21 coord22 coord23 coord24 := by
  simp only [VS.lorentz_boost_p4.k_rhophi_z_tau_xy_z_tau, VR.lorentz_boost_p4.k_rhophi_z_tau_xy_z_tau, c08_lorentz_boost_p4_k_xy_z_tau_xy_z_tau, VS.planar_x.rhophi_eq, VS.planar_y.rhophi_eq, VS.spatial_z.rhophi_z_eq, h0, VR.P.nanToNum_eq]

theorem c08_lorentz_boost_p4_k_xy_eta_tau_rhophi_eta_t (coord11 coord12 coord13 coord14 coord21 coord22 coord23 coord24 : ℝ) (h0 : 0 ≤ coord14) :
    VS.lorentz_boost_p4.k_xy_eta_tau_rhophi_eta_t coord11 coord12 coord13 coord14 coord21 coord22 coord23 coord24 = VR.lorentz_boost_p4.k_xy_eta_tau_rhophi_eta_t coord11 coord12 coord13 coord14 coord21 coord22 coord23 coord24 := by
  simp only [VS.lorentz_boost_p4.k_xy_eta_tau_rhophi_eta_t, VR.lorentz_boost_p4.k_xy_eta_tau_rhophi_eta_t, c08_lorentz_boost_p4_k_xy_z_tau_rhophi_eta_t, VS.planar_x.xy_eq, VS.planar_y.xy_eq, VS.spatial_z.xy_eta_eq, h0, VR.P.nanToNum_eq]

theorem c08_lorentz_boost_p4_k_xy_eta_tau_rhophi_eta_tau (coord11 coord12 coord13 coord14 coord21 coord22 coord23 coord24 : ℝ) (h0 : 0 ≤ coord14) :
    VS.lorentz_boost_p4.k_xy_eta_tau_rhophi_eta_tau coord11 coord12 coord13 coord14 coord21 coord22 coord23 coord24 = VR.lorentz_boost_p4.k_xy_eta_tau_rhophi_eta_tau coord11 coord12 coord13 coord14 coord21 coord22 coord23 coord24 := by
  simp only [VS.lorentz_boost_p4.k_xy_eta_tau_rhophi_eta_tau, VR.lorentz_boost_p4.k_xy_eta_tau_rhophi_eta_tau, c08_lorentz_boost_p4_k_xy_z_tau_rhophi_eta_tau, VS.planar_x.xy_eq, VS.planar_y.xy_eq, VS.spatial_z.xy_eta_eq, h0, VR.P.nanToNum_eq]

theorem c08_lorentz_boost_p4_k_xy_eta_tau_rhophi_theta_t (coord11 coord12 coord13 coord14 coord21 coord22 coord23 coord24 : ℝ) (h0 : 0 ≤ coord14) :
    VS.lorentz_boost_p4.k_xy_eta_tau_rhophi_theta_t coord11 coord12 coord13 coord14 coord21 coord22 coord23 coord24 = VR.lorentz_boost_p4.k_xy_eta_tau_rhophi_theta_t coord11 coord12 coord13 coord14 coord21 coord22 coord23 coord24 := by
  simp only [VS.lorentz_boost_p4.k_xy_eta_tau_rhophi_theta_t, VR.lorentz_boost_p4.k_xy_eta_tau_rhophi_theta_t, c08_lorentz_boost_p4_k_xy_z_tau_rhophi_theta_t, VS.planar_x.xy_eq, VS.planar_y.xy_eq, VS.spatial_z.xy_eta_eq, h0, VR.P.nanToNum_eq]

theorem c08_lorentz_boost_p4_k_xy_eta_tau_rhophi_theta_tau (coord11 coord12 coord13 coord14 coord21 coord22 coord23 coord24 : ℝ) (h0 : 0 ≤ coord14) :
    VS.lorentz_boost_p4.k_xy_eta_tau_rhophi_theta_tau coord11 coord12 coord13 coord14 coord21 coord22 coord23 coord24 = VR.lorentz_boost_p4.k_xy_eta_tau_rhophi_theta_tau coord11 coord12 coord13 coord14 coord21 coord22 coord23 coord24 := by
  simp only [VS.lorentz_boost_p4.k_xy_eta_tau_rhophi_theta_tau, VR.lorentz_boost_p4.k_xy_eta_tau_rhophi_theta_tau, c08_lorentz_boost_p4_k_xy_z_tau_rhophi_theta_tau, VS.planar_x.xy_eq, VS.planar_y.xy_eq, VS.spatial_z.xy_eta_eq, h0, VR.P.nanToNum_eq]

theorem c08_lorentz_boost_p4_k_xy_eta_tau_rhophi_z_t (coord11 coord12 coord13 coord14 coord21 coord22 coord23 coord24 : ℝ) (h0 : 0 ≤ coord14) :
    VS.lorentz_boost_p4.k_xy_eta_tau_rhophi_z_t coord11 coord12 coord13 coord14 coord21 coord22 coord23 coord24 = VR.lorentz_boost_p4.k_xy_eta_tau_rhophi_z_t coord11 coord12 coord13 coord14 coord21 coord22 coord23 coord24 := by
  simp only [VS.lorentz_boost_p4.k_xy_eta_tau_rhophi_z_t, VR.lorentz_boost_p4.k_xy_eta_tau_rhophi_z_t, c08_lorentz_boost_p4_k_xy_z_tau_rhophi_z_t, VS.planar_x.xy_eq, VS.planar_y.xy_eq, VS.spatial_z.xy_eta_eq, h0, VR.P.nanToNum_eq]

theorem c08_lorentz_boost_p4_k_xy_eta_tau_rhophi_z_tau (coord11 coord12 coord13 coord14 coord21 coord22 coord23 coord24 : ℝ) (h0 : 0 ≤ coord14) :
    VS.lorentz_boost_p4.k_xy_eta_tau_rhophi_z_tau coord11 coord12 coord13 coord14 coord21 coord22 coord23 coord24 = VR.lorentz_boost_p4.k_xy_eta_tau_rhophi_z_tau coord11 coord12 coord13 coord14 coord21 coord22 coord23 coord24 := by
  simp only [VS.lorentz_boost_p4.k_xy_eta_tau_rhophi_z_tau, VR.lorentz_boost_p4.k_xy_eta_tau_rhophi_z_tau, c08_lorentz_boost_p4_k_xy_z_tau_rhophi_z_tau, VS.planar_x.xy_eq, VS.planar_y.xy_eq, VS.spatial_z.xy_eta_eq, h0, VR.P.nanToNum_eq]

theorem c08_lorentz_boost_p4_k_xy_eta_tau_xy_eta_t (coord11 coord12 coord13 coord14 coord21 coord22 coord23 coord24 : ℝ) (h0 : 0 ≤ coord14) :
    VS.lorentz_boost_p4.k_xy_eta_tau_xy_eta_t coord11 coord12 coord13 coord14 coord21 coord22 coord23 coord24 = VR.lorentz_boost_p4.k_xy_eta_tau_xy_eta_t coord11 coord12 coord13 coord14 coord21 coord22 coord23 coord24 := by
  simp only [VS.lorentz_boost_p4.k_xy_eta_tau_xy_eta_t, VR.lorentz_boost_p4.k_xy_eta_tau_xy_eta_t, c08_lorentz_boost_p4_k_xy_z_tau_xy_eta_t, VS.planar_x.xy_eq, VS.planar_y.xy_eq, VS.spatial_z.xy_eta_eq, h0, VR.P.nanToNum_eq]

theorem c08_lorentz_boost_p4_k_xy_eta_tau_xy_eta_tau (coord11 coord12 coord13 coord14 coord21 coord22 coord23 coord24 : ℝ) (h0 : 0 ≤ coord14) :
    VS.lorentz_boost_p4.k_xy_eta_tau_xy_eta_tau coord11 coord12 coord13 coord14 coord21 coord22 coord23 coord24 = VR.lorentz_boost_p4.k_xy_eta_tau_xy_eta_tau coord11 coord12 coord13 coord14 coord21 coord22 coord23 coord24 := by
  simp only [VS.lorentz_boost_p4.k_xy_eta_tau_xy_eta_tau, VR.lorentz_boost_p4.k_xy_eta_tau_xy_eta_tau, c08_lorentz_boost_p4_k_xy_z_tau_xy_eta_tau, VS.planar_x.xy_eq, VS.planar_y.xy_eq, VS.spatial_z.xy_eta_eq, h0, VR.P.nanToNum_eq]

theorem c08_lorentz_boost_p4_k_xy_eta_tau_xy_theta_t (coord11 coord12 coord13 coord14 coord21 coord22 coord23 coord24 : ℝ) (h0 : 0 ≤ coord14) :
    VS.lorentz_boost_p4.k_xy_eta_tau_xy_theta_t coord11 coord12 coord13 coord14 coord21 coord22 coord23 coord24 = VR.lorentz_boost_p4.k_xy_eta_tau_xy_theta_t coord11 coord12 coord13 coord14 coord21 coord22 coord23 coord24 := by
  simp only [VS.lorentz_boost_p4.k_xy_eta_tau_xy_theta_t, VR.lorentz_boost_p4.k_xy_eta_tau_xy_theta_t, c08_lorentz_boost_p4_k_xy_z_tau_xy_theta_t, VS.planar_x.xy_eq, VS.planar_y.xy_eq, VS.spatial_z.xy_eta_eq, h0, VR.P.nanToNum_eq]

theorem c08_lorentz_boost_p4_k_xy_eta_tau_xy_theta_tau (coord11 coord12 coord13 coord14 coord21 coord22 coord23 coord24 : ℝ) (h0 : 0 ≤ coord14) :
    VS.lorentz_boost_p4.k_xy_eta_tau_xy_theta_tau coord11 coord12 coord13 coord14 coord21 coord22 coord23 coord24 = VR.lorentz_boost_p4.k_xy_eta_tau_xy_theta_tau coord11 coord12 coord13 coord14 coord21 coord22 coord23 coord24 := by
  simp only [VS.lorentz_boost_p4.k_xy_eta_tau_xy_theta_tau, VR.lorentz_boost_p4.k_xy_eta_tau_xy_theta_tau, c08_lorentz_boost_p4_k_xy_z_tau_xy_theta_tau, VS.planar_x.xy_eq, VS.planar_y.xy_eq, VS.spatial_z.xy_eta_eq, h0, VR.P.nanToNum_eq]

theorem c08_lorentz_boost_p4_k_xy_eta_tau_xy_z_t (coord11 coord12 coord13 coord14 coord21 coord22 coord23 coord24 : ℝ) (h0 : 0 ≤ coord14) :
    VS.lorentz_boost_p4.k_xy_eta_tau_xy_z_t coord11 coord12 coord13 coord14 coord21 coord22 coord23 coord24 = VR.lorentz_boost_p4.k_xy_eta_tau_xy_z_t coord11 coord12 coord13 coord14 coord21 coord22 coord23 coord24 := by
  simp only [VS.lorentz_boost_p4.k_xy_eta_tau_xy_z_t, VR.lorentz_boost_p4.k_xy_eta_tau_xy_z_t, c08_lorentz_boost_p4_k_xy_z_tau_xy_z_t, VS.planar_x.xy_eq, VS.planar_y.xy_eq, VS.spatial_z.xy_eta_eq, h0, VR.P.nanToNum_eq]

theorem c08_lorentz_boost_p4_k_xy_eta_tau_xy_z_tau (coord11 coord12 coord13 coord14 coord21 coord22 coord23 coord24 : ℝ) (h0 : 0 ≤ coord14) :
    VS.lorentz_boost_p4.k_xy_eta_tau_xy_z_tau coord11 coord12 coord13 coord14 coord21 coord22 coord23 coord24 = VR.lorentz_boost_p4.k_xy_eta_tau_xy_z_tau coord11 coord12 coord13 coord14 coord21 coord22 coord23 coord24 := by
  simp only [VS.lorentz_boost_p4.k_xy_eta_tau_xy_z_tau, VR.lorentz_boost_p4.k_xy_eta_tau_xy_z_tau, c08_lorentz_boost_p4_k_xy_z_tau_xy_z_tau, VS.planar_x.xy_eq, VS.planar_y.xy_eq, VS.spatial_z.xy_eta_eq, h0, VR.P.nanToNum_eq]

theorem c08_lorentz_boost_p4_k_xy_theta_tau_rhophi_eta_t (coord11 coord12 coord13 coord14 coord21 coord22 coord23 coord24 : ℝ) (h0 : 0 ≤ coord14) :
    VS.lorentz_boost_p4.k_xy_theta_tau_rhophi_eta_t coord11 coord12 coord13 coord14 coord21 coord22 coord23 coord24 = VR.lorentz_boost_p4.k_xy_theta_tau_rhophi_eta_t coord11 coord12 coord13 coord14 coord21 coord22 coord23 coord24 := by
  simp only [VS.lorentz_boost_p4.k_xy_theta_tau_rhophi_eta_t, VR.lorentz_boost_p4.k_xy_theta_tau_rhophi_eta_t, c08_lorentz_boost_p4_k_xy_z_tau_rhophi_eta_t, VS.planar_x.xy_eq, VS.planar_y.xy_eq, VS.spatial_z.xy_theta_eq, h0, VR.P.nanToNum_eq]

theorem c08_lorentz_boost_p4_k_xy_theta_tau_rhophi_eta_tau (coord11 coord12 coord13 coord14 coord21 coord22 coord23 coord24 : ℝ) (h0 : 0 ≤ coord14) :
    VS.lorentz_boost_p4.k_xy_theta_tau_rhophi_eta_tau coord11 coord12 coord13 coord14 coord21 coord22 coord23 coord24 = VR.lorentz_boost_p4.k_xy_theta_tau_rhophi_eta_tau coord11 coord12 coord13 coord14 coord21 coord22 coord23 coord24 := by
  simp only [VS.lorentz_boost_p4.k_xy_theta_tau_rhophi_eta_tau, VR.lorentz_boost_p4.k_xy_theta_tau_rhophi_eta_tau, c08_lorentz_boost_p4_k_xy_z_tau_rhophi_eta_tau, VS.planar_x.xy_eq, VS.planar_y.xy_eq, VS.spatial_z.xy_theta_eq, h0, VR.P.nanToNum_eq]

theorem c08_lorentz_boost_p4_k_xy_theta_tau_rhophi_theta_t (coord11 coord12 coord13 coord14 coord21 coord22 coord23 coord24 : ℝ) (h0 : 0 ≤ coord14) :
    VS.lorentz_boost_p4.k_xy_theta_tau_rhophi_theta_t coord11 coord12 coord13 coord14 coord21 coord22 coord23 coord24 = VR.lorentz_boost_p4.k_xy_theta_tau_rhophi_theta_t coord11 coord12 coord13 coord14 coord21 coord22 coord23 coord24 := by
  simp only [VS.lorentz_boost_p4.k_xy_theta_tau_rhophi_theta_t, VR.lorentz_boost_p4.k_xy_theta_tau_rhophi_theta_t, c08_lorentz_boost_p4_k_xy_z_tau_rhophi_theta_t, VS.planar_x.xy_eq, VS.planar_y.xy_eq, VS.spatial_z.xy_theta_eq, h0, VR.P.nanToNum_eq]

theorem c08_lorentz_boost_p4_k_xy_theta_tau_rhophi_theta_tau (coord11 coord12 coord13 coord14 coord21 coord22 coord23 coord24 : ℝ) (h0 : 0 ≤ coord14) :
    VS.lorentz_boost_p4.k_xy_theta_tau_rhophi_theta_tau coord11 coord12 coord13 coord14 coord21 coord22 coord23 coord24 = VR.lorentz_boost_p4.k_xy_theta_tau_rhophi_theta_tau coord11 coord12 coord13 coord14 coord21 coord22 coord23 coord24 := by
  simp only [VS.lorentz_boost_p4.k_xy_theta_tau_rhophi_theta_tau, VR.lorentz_boost_p4.k_xy_theta_tau_rhophi_theta_tau, c08_lorentz_boost_p4_k_xy_z_tau_rhophi_theta_tau, VS.planar_x.xy_eq, VS.planar_y.xy_eq, VS.spatial_z.xy_theta_eq, h0, VR.P.nanToNum_eq]

theorem c08_lorentz_boost_p4_k_xy_theta_tau_rhophi_z_t (coord11 coord12 coord13 coord14 coord21 coord22 coord23 coord24 : ℝ) (h0 : 0 ≤ coord14) :
    VS.lorentz_boost_p4.k_xy_theta_tau_rhophi_z_t coord11 coord12 coord13 coord14 coord21 coord22 coord23 coord24 = VR.lorentz_boost_p4.k_xy_theta_tau_rhophi_z_t coord11 coord12 coord13 coord14 coord21 coord22 coord23 coord24 := by
  simp only [VS.lorentz_boost_p4.k_xy_theta_tau_rhophi_z_t, VR.lorentz_boost_p4.k_xy_theta_tau_rhophi_z_t, c08_lorentz_boost_p4_k_xy_z_tau_rhophi_z_t, VS.planar_x.xy_eq, VS.planar_y.xy_eq, VS.spatial_z.xy_theta_eq, h0, VR.P.nanToNum_eq]

theorem c08_lorentz_boost_p4_k_xy_theta_tau_rhophi_z_tau (coord11 coord12 coord13 coord14 coord21 coord22 coord23 coord24 : ℝ) (h0 : 0 ≤ coord14) :
    VS.lorentz_boost_p4.k_xy_theta_tau_rhophi_z_tau coord11 coord12 coord13 coord14 coord21 coord22 coord23 coord24 = VR.lorentz_boost_p4.k_xy_theta_tau_rhophi_z_tau coord11 coord12 coord13 coord14 coord21 coord22 coord23 coord24 := by
  simp only [VS.lorentz_boost_p4.k_xy_theta_tau_rhophi_z_tau, VR.lorentz_boost_p4.k_xy_theta_tau_rhophi_z_tau, c08_lorentz_boost_p4_k_xy_z_tau_rhophi_z_tau, VS.planar_x.xy_eq, VS.planar_y.xy_eq, VS.spatial_z.xy_theta_eq, h0, VR.P.nanToNum_eq]

theorem c08_lorentz_boost_p4_k_xy_theta_tau_xy_eta_t (coord11 coord12 coord13 coord14 coord21 coord22 coord23 coord24 : ℝ) (h0 : 0 ≤ coord14) :
    VS.lorentz_boost_p4.k_xy_theta_tau_xy_eta_t coord11 coord12 coord13 coord14 coord21 coord22 coord23 coord24 = VR.lorentz_boost_p4.k_xy_theta_tau_xy_eta_t coord11 coord12 coord13 coord14 coord21 coord22 coord23 coord24 := by
  simp only [VS.lorentz_boost_p4.k_xy_theta_tau_xy_eta_t, VR.lorentz_boost_p4.k_xy_theta_tau_xy_eta_t, c08_lorentz_boost_p4_k_xy_z_tau_xy_eta_t, VS.planar_x.xy_eq, VS.planar_y.xy_eq, VS.spatial_z.xy_theta_eq, h0, VR.P.nanToNum_eq]

theorem c08_lorentz_boost_p4_k_xy_theta_tau_xy_eta_tau (coord11 coord12 coord13 coord14 coord21 coord22 coord23 coord24 : ℝ) (h0 : 0 ≤ coord14) :
    VS.lorentz_boost_p4.k_xy_theta_tau_xy_eta_tau coord11 coord12 coord13 coord14 coord21 coord22 coord23 coord24 = VR.lorentz_boost_p4.k_xy_theta_tau_xy_eta_tau coord11 coord12 coord13 coord14 coord21 coord22 coord23 coord24 := by
  simp only [VS.lorentz_boost_p4.k_xy_theta_tau_xy_eta_tau, VR.lorentz_boost_p4.k_xy_theta_tau_xy_eta_tau, c08_lorentz_boost_p4_k_xy_z_tau_xy_eta_tau, VS.planar_x.xy_eq, VS.planar_y.xy_eq, VS.spatial_z.xy_theta_eq, h0, VR.P.nanToNum_eq]

theorem c08_lorentz_boost_p4_k_xy_theta_tau_xy_theta_t (coord11 coord12 coord13 coord14 coord21 coord22 coord23 coord24 : ℝ) (h0 : 0 ≤ coord14) :
    VS.lorentz_boost_p4.k_xy_theta_tau_xy_theta_t coord11 coord12 coord13 coord14 coord21 coord22 coord23 coord24 = VR.lorentz_boost_p4.k_xy_theta_tau_xy_theta_t coord11 coord12 coord13 coord14 coord21 coord22 coord23 coord24 := by
  simp only [VS.lorentz_boost_p4.k_xy_theta_tau_xy_theta_t, VR.lorentz_boost_p4.k_xy_theta_tau_xy_theta_t, c08_lorentz_boost_p4_k_xy_z_tau_xy_theta_t, VS.planar_x.xy_eq, VS.planar_y.xy_eq, VS.spatial_z.xy_theta_eq, h0, VR.P.nanToNum_eq]

theorem c08_lorentz_boost_p4_k_xy_theta_tau_xy_theta_tau (coord11 coord12 coord13 coord14 coord21 coord22 coord23 coord24 : ℝ) (h0 : 0 ≤ coord14) :
    VS.lorentz_boost_p4.k_xy_theta_tau_xy_theta_tau coord11 coord12 coord13 coord14 coord21 coord22 coord23 coord24 = VR.lorentz_boost_p4.k_xy_theta_tau_xy_theta_tau coord11 coord12 coord13 coord14 coord21 coord22 coord23 coord24 := by
  simp only [VS.lorentz_boost_p4.k_xy_theta_tau_xy_theta_tau, VR.lorentz_boost_p4.k_xy_theta_tau_xy_theta_tau, c08_lorentz_boost_p4_k_xy_z_tau_xy_theta_tau, VS.planar_x.xy_eq, VS.planar_y.xy_eq, VS.spatial_z.xy_theta_eq, h0, VR.P.nanToNum_eq]

theorem c08_lorentz_boost_p4_k_xy_theta_tau_xy_z_t (coord11 coord12 coord13 coord14 coord21 coord22 coord23 coord24 : ℝ) (h0 : 0 ≤ coord14) :
    VS.lorentz_boost_p4.k_xy_theta_tau_xy_z_t coord11 coord12 coord13 coord14 coord21 coord22 coord23 coord24 = VR.lorentz_boost_p4.k_xy_theta_tau_xy_z_t coord11 coord12 coord13 coord14 coord21 coord22 coord23 coord24 := by
  simp only [VS.lorentz_boost_p4.k_xy_theta_tau_xy_z_t, VR.lorentz_boost_p4.k_xy_theta_tau_xy_z_t, c08_lorentz_boost_p4_k_xy_z_tau_xy_z_t, VS.planar_x.xy_eq, VS.planar_y.xy_eq, VS.spatial_z.xy_theta_eq, h0, VR.P.nanToNum_eq]

theorem c08_lorentz_boost_p4_k_xy_theta_tau_xy_z_tau (coord11 coord12 coord13 coord14 coord21 coord22 coord23 coord24 : ℝ) (h0 : 0 ≤ coord14) :
    VS.lorentz_boost_p4.k_xy_theta_tau_xy_z_tau coord11 coord12 coord13 coord14 coord21 coord22 coord23 coord24 = VR.lorentz_boost_p4.k_xy_theta_tau_xy_z_tau coord11 coord12 coord13 coord14 coord21 coord22 coord23 coord24 := by
  simp only [VS.lorentz_boost_p4.k_xy_theta_tau_xy_z_tau, VR.lorentz_boost_p4.k_xy_theta_tau_xy_z_tau, c08_lorentz_boost_p4_k_xy_z_tau_xy_z_tau, VS.planar_x.xy_eq, VS.planar_y.xy_eq, VS.spatial_z.xy_theta_eq, h0, VR.P.nanToNum_eq]


/-! ### `lorentz_dot` -/

theorem c08_lorentz_dot_k_rhophi_eta_t_rhophi_eta_tau (coord11 coord12 coord13 coord14 coord21 coord22 coord23 coord24 : ℝ) (h0 : 0 ≤ coord24) :
    VS.lorentz_dot.k_rhophi_eta_t_rhophi_eta_tau coord11 coord12 coord13 coord14 coord21 coord22 coord23 coord24 = VR.lorentz_dot.k_rhophi_eta_t_rhophi_eta_tau coord11 coord12 coord13 coord14 coord21 coord22 coord23 coord24 := by
  simp only [VS.lorentz_dot.k_rhophi_eta_t_rhophi_eta_tau, VR.lorentz_dot.k_rhophi_eta_t_rhophi_eta_tau, VS.lorentz_t.rhophi_eta_t_eq, c08_lorentz_t_rhophi_eta_tau, VS.spatial_dot.rhophi_eta_rhophi_eta_eq, h0, VR.P.nanToNum_eq]

theorem c08_lorentz_dot_k_rhophi_eta_t_rhophi_theta_tau (coord11 coord12 coord13 coord14 coord21 coord22 coord23 coord24 : ℝ) (h0 : 0 ≤ coord24) :
    VS.lorentz_dot.k_rhophi_eta_t_rhophi_theta_tau coord11 coord12 coord13 coord14 coord21 coord22 coord23 coord24 = VR.lorentz_dot.k_rhophi_eta_t_rhophi_theta_tau coord11 coord12 coord13 coord14 coord21 coord22 coord23 coord24 := by
  simp only [VS.lorentz_dot.k_rhophi_eta_t_rhophi_theta_tau, VR.lorentz_dot.k_rhophi_eta_t_rhophi_theta_tau, VS.lorentz_t.rhophi_eta_t_eq, c08_lorentz_t_rhophi_theta_tau, VS.spatial_dot.rhophi_eta_rhophi_theta_eq, h0, VR.P.nanToNum_eq]

theorem c08_lorentz_dot_k_rhophi_eta_t_rhophi_z_tau (coord11 coord12 coord13 coord14 coord21 coord22 coord23 coord24 : ℝ) (h0 : 0 ≤ coord24) :
    VS.lorentz_dot.k_rhophi_eta_t_rhophi_z_tau coord11 coord12 coord13 coord14 coord21 coord22 coord23 coord24 = VR.lorentz_dot.k_rhophi_eta_t_rhophi_z_tau coord11 coord12 coord13 coord14 coord21 coord22 coord23 coord24 := by
  simp only [VS.lorentz_dot.k_rhophi_eta_t_rhophi_z_tau, VR.lorentz_dot.k_rhophi_eta_t_rhophi_z_tau, VS.lorentz_t.rhophi_eta_t_eq, c08_lorentz_t_rhophi_z_tau, VS.spatial_dot.rhophi_eta_rhophi_z_eq, h0, VR.P.nanToNum_eq]

theorem c08_lorentz_dot_k_rhophi_eta_t_xy_eta_tau (coord11 coord12 coord13 coord14 coord21 coord22 coord23 coord24 : ℝ) (h0 : 0 ≤ coord24) :
    VS.lorentz_dot.k_rhophi_eta_t_xy_eta_tau coord11 coord12 coord13 coord14 coord21 coord22 coord23 coord24 = VR.lorentz_dot.k_rhophi_eta_t_xy_eta_tau coord11 coord12 coord13 coord14 coord21 coord22 coord23 coord24 := by
  simp only [VS.lorentz_dot.k_rhophi_eta_t_xy_eta_tau, VR.lorentz_dot.k_rhophi_eta_t_xy_eta_tau, VS.lorentz_t.rhophi_eta_t_eq, c08_lorentz_t_xy_eta_tau, VS.spatial_dot.rhophi_eta_xy_eta_eq, h0, VR.P.nanToNum_eq]

theorem c08_lorentz_dot_k_rhophi_eta_t_xy_theta_tau (coord11 coord12 coord13 coord14 coord21 coord22 coord23 coord24 : ℝ) (h0 : 0 ≤ coord24) :
    VS.lorentz_dot.k_rhophi_eta_t_xy_theta_tau coord11 coord12 coord13 coord14 coord21 coord22 coord23 coord24 = VR.lorentz_dot.k_rhophi_eta_t_xy_theta_tau coord11 coord12 coord13 coord14 coord21 coord22 coord23 coord24 := by
  simp only [VS.lorentz_dot.k_rhophi_eta_t_xy_theta_tau, VR.lorentz_dot.k_rhophi_eta_t_xy_theta_tau, VS.lorentz_t.rhophi_eta_t_eq, c08_lorentz_t_xy_theta_tau, VS.spatial_dot.rhophi_eta_xy_theta_eq, h0, VR.P.nanToNum_eq]

theorem c08_lorentz_dot_k_rhophi_eta_t_xy_z_tau (coord11 coord12 coord13 coord14 coord21 coord22 coord23 coord24 : ℝ) (h0 : 0 ≤ coord24) :
    VS.lorentz_dot.k_rhophi_eta_t_xy_z_tau coord11 coord12 coord13 coord14 coord21 coord22 coord23 coord24 = VR.lorentz_dot.k_rhophi_eta_t_xy_z_tau coord11 coord12 coord13 coord14 coord21 coord22 coord23 coord24 := by
  simp only [VS.lorentz_dot.k_rhophi_eta_t_xy_z_tau, VR.lorentz_dot.k_rhophi_eta_t_xy_z_tau, VS.lorentz_t.rhophi_eta_t_eq, c08_lorentz_t_xy_z_tau, VS.spatial_dot.rhophi_eta_xy_z_eq, h0, VR.P.nanToNum_eq]

theorem c08_lorentz_dot_k_rhophi_eta_tau_rhophi_eta_t (coord11 coord12 coord13 coord14 coord21 coord22 coord23 coord24 : ℝ) (h0 : 0 ≤ coord14) :
    VS.lorentz_dot.k_rhophi_eta_tau_rhophi_eta_t coord11 coord12 coord13 coord14 coord21 coord22 coord23 coord24 = VR.lorentz_dot.k_rhophi_eta_tau_rhophi_eta_t coord11 coord12 coord13 coord14 coord21 coord22 coord23 coord24 := by
  simp only [VS.lorentz_dot.k_rhophi_eta_tau_rhophi_eta_t, VR.lorentz_dot.k_rhophi_eta_tau_rhophi_eta_t, c08_lorentz_t_rhophi_eta_tau, VS.lorentz_t.rhophi_eta_t_eq, VS.spatial_dot.rhophi_eta_rhophi_eta_eq, h0, VR.P.nanToNum_eq]

theorem c08_lorentz_dot_k_rhophi_eta_tau_rhophi_eta_tau (coord11 coord12 coord13 coord14 coord21 coord22 coord23 coord24 : ℝ) (h0 : 0 ≤ coord14) (h1 : 0 ≤ coord24) :
    VS.lorentz_dot.k_rhophi_eta_tau_rhophi_eta_tau coord11 coord12 coord13 coord14 coord21 coord22 coord23 coord24 = VR.lorentz_dot.k_rhophi_eta_tau_rhophi_eta_tau coord11 coord12 coord13 coord14 coord21 coord22 coord23 coord24 := by
  simp only [VS.lorentz_dot.k_rhophi_eta_tau_rhophi_eta_tau, VR.lorentz_dot.k_rhophi_eta_tau_rhophi_eta_tau, c08_lorentz_t_rhophi_eta_tau, VS.spatial_dot.rhophi_eta_rhophi_eta_eq, h0, h1, VR.P.nanToNum_eq]

theorem c08_lorentz_dot_k_rhophi_eta_tau_rhophi_theta_t (coord11 coord12 coord13 coord14 coord21 coord22 coord23 coord24 : ℝ) (h0 : 0 ≤ coord14) :
    VS.lorentz_dot.k_rhophi_eta_tau_rhophi_theta_t coord11 coord12 coord13 coord14 coord21 coord22 coord23 coord24 = VR.lorentz_dot.k_rhophi_eta_tau_rhophi_theta_t coord11 coord12 coord13 coord14 coord21 coord22 coord23 coord24 := by
  simp only [VS.lorentz_dot.k_rhophi_eta_tau_rhophi_theta_t, VR.lorentz_dot.k_rhophi_eta_tau_rhophi_theta_t, c08_lorentz_t_rhophi_eta_tau, VS.lorentz_t.rhophi_theta_t_eq, VS.spatial_dot.rhophi_eta_rhophi_theta_eq, h0, VR.P.nanToNum_eq]

theorem c08_lorentz_dot_k_rhophi_eta_tau_rhophi_theta_tau (coord11 coord12 coord13 coord14 coord21 coord22 coord23 coord24 : ℝ) (h0 : 0 ≤ coord14) (h1 : 0 ≤ coord24) :
    VS.lorentz_dot.k_rhophi_eta_tau_rhophi_theta_tau coord11 coord12 coord13 coord14 coord21 coord22 coord23 coord24 = VR.lorentz_dot.k_rhophi_eta_tau_rhophi_theta_tau coord11 coord12 coord13 coord14 coord21 coord22 coord23 coord24 := by
  simp only [VS.lorentz_dot.k_rhophi_eta_tau_rhophi_theta_tau, VR.lorentz_dot.k_rhophi_eta_tau_rhophi_theta_tau, c08_lorentz_t_rhophi_eta_tau, c08_lorentz_t_rhophi_theta_tau, VS.spatial_dot.rhophi_eta_rhophi_theta_eq, h0, h1, VR.P.nanToNum_eq]

theorem c08_lorentz_dot_k_rhophi_eta_tau_rhophi_z_t (coord11 coord12 coord13 coord14 coord21 coord22 coord23 coord24 : ℝ) (h0 : 0 ≤ coord14) :
    VS.lorentz_dot.k_rhophi_eta_tau_rhophi_z_t coord11 coord12 coord13 coord14 coord21 coord22 coord23 coord24 = VR.lorentz_dot.k_rhophi_eta_tau_rhophi_z_t coord11 coord12 coord13 coord14 coord21 coord22 coord23 coord24 := by
  simp only [VS.lorentz_dot.k_rhophi_eta_tau_rhophi_z_t, VR.lorentz_dot.k_rhophi_eta_tau_rhophi_z_t, c08_lorentz_t_rhophi_eta_tau, VS.lorentz_t.rhophi_z_t_eq, VS.spatial_dot.rhophi_eta_rhophi_z_eq, h0, VR.P.nanToNum_eq]

theorem c08_lorentz_dot_k_rhophi_eta_tau_rhophi_z_tau (coord11 coord12 coord13 coord14 coord21 coord22 coord23 coord24 : ℝ) (h0 : 0 ≤ coord14) (h1 : 0 ≤ coord24) :
    VS.lorentz_dot.k_rhophi_eta_tau_rhophi_z_tau coord11 coord12 coord13 coord14 coord21 coord22 coord23 coord24 = VR.lorentz_dot.k_rhophi_eta_tau_rhophi_z_tau coord11 coord12 coord13 coord14 coord21 coord22 coord23 coord24 := by
  simp only [VS.lorentz_dot.k_rhophi_eta_tau_rhophi_z_tau, VR.lorentz_dot.k_rhophi_eta_tau_rhophi_z_tau, c08_lorentz_t_rhophi_eta_tau, c08_lorentz_t_rhophi_z_tau, VS.spatial_dot.rhophi_eta_rhophi_z_eq, h0, h1, VR.P.nanToNum_eq]

theorem c08_lorentz_dot_k_rhophi_eta_tau_xy_eta_t (coord11 coord12 coord13 coord14 coord21 coord22 coord23 coord24 : ℝ) (h0 : 0 ≤ coord14) :
    VS.lorentz_dot.k_rhophi_eta_tau_xy_eta_t coord11 coord12 coord13 coord14 coord21 coord22 coord23 coord24 = VR.lorentz_dot.k_rhophi_eta_tau_xy_eta_t coord11 coord12 coord13 coord14 coord21 coord22 coord23 coord24 := by
  simp only [VS.lorentz_dot.k_rhophi_eta_tau_xy_eta_t, VR.lorentz_dot.k_rhophi_eta_tau_xy_eta_t, c08_lorentz_t_rhophi_eta_tau, VS.lorentz_t.xy_eta_t_eq, VS.spatial_dot.rhophi_eta_xy_eta_eq, h0, VR.P.nanToNum_eq]

theorem c08_lorentz_dot_k_rhophi_eta_tau_xy_eta_tau (coord11 coord12 coord13 coord14 coord21 coord22 coord23 coord24 : ℝ) (h0 : 0 ≤ coord14) (h1 : 0 ≤ coord24) :
    VS.lorentz_dot.k_rhophi_eta_tau_xy_eta_tau coord11 coord12 coord13 coord14 coord21 coord22 coord23 coord24 = VR.lorentz_dot.k_rhophi_eta_tau_xy_eta_tau coord11 coord12 coord13 coord14 coord21 coord22 coord23 coord24 := by
  simp only [VS.lorentz_dot.k_rhophi_eta_tau_xy_eta_tau, VR.lorentz_dot.k_rhophi_eta_tau_xy_eta_tau, c08_lorentz_t_rhophi_eta_tau, c08_lorentz_t_xy_eta_tau, VS.spatial_dot.rhophi_eta_xy_eta_eq, h0, h1, VR.P.nanToNum_eq]

theorem c08_lorentz_dot_k_rhophi_eta_tau_xy_theta_t (coord11 coord12 coord13 coord14 coord21 coord22 coord23 coord24 : ℝ) (h0 : 0 ≤ coord14) :
    VS.lorentz_dot.k_rhophi_eta_tau_xy_theta_t coord11 coord12 coord13 coord14 coord21 coord22 coord23 coord24 = VR.lorentz_dot.k_rhophi_eta_tau_xy_theta_t coord11 coord12 coord13 coord14 coord21 coord22 coord23 coord24 := by
  simp only [VS.lorentz_dot.k_rhophi_eta_tau_xy_theta_t, VR.lorentz_dot.k_rhophi_eta_tau_xy_theta_t, c08_lorentz_t_rhophi_eta_tau, VS.lorentz_t.xy_theta_t_eq, VS.spatial_dot.rhophi_eta_xy_theta_eq, h0, VR.P.nanToNum_eq]

theorem c08_lorentz_dot_k_rhophi_eta_tau_xy_theta_tau (coord11 coord12 coord13 coord14 coord21 coord22 coord23 coord24 : ℝ) (h0 : 0 ≤ coord14) (h1 : 0 ≤ coord24) :
    VS.lorentz_dot.k_rhophi_eta_tau_xy_theta_tau coord11 coord12 coord13 coord14 coord21 coord22 coord23 coord24 = VR.lorentz_dot.k_rhophi_eta_tau_xy_theta_tau coord11 coord12 coord13 coord14 coord21 coord22 coord23 coord24 := by
  simp only [VS.lorentz_dot.k_rhophi_eta_tau_xy_theta_tau, VR.lorentz_dot.k_rhophi_eta_tau_xy_theta_tau, c08_lorentz_t_rhophi_eta_tau, c08_lorentz_t_xy_theta_tau, VS.spatial_dot.rhophi_eta_xy_theta_eq, h0, h1, VR.P.nanToNum_eq]

theorem c08_lorentz_dot_k_rhophi_eta_tau_xy_z_t (coord11 coord12 coord13 coord14 coord21 coord22 coord23 coord24 : ℝ) (h0 : 0 ≤ coord14) :
    VS.lorentz_dot.k_rhophi_eta_tau_xy_z_t coord11 coord12 coord13 coord14 coord21 coord22 coord23 coord24 = VR.lorentz_dot.k_rhophi_eta_tau_xy_z_t coord11 coord12 coord13 coord14 coord21 coord22 coord23 coord24 := by
  simp only [VS.lorentz_dot.k_rhophi_eta_tau_xy_z_t, VR.lorentz_dot.k_rhophi_eta_tau_xy_z_t, c08_lorentz_t_rhophi_eta_tau, VS.lorentz_t.xy_z_t_eq, VS.spatial_dot.rhophi_eta_xy_z_eq, h0, VR.P.nanToNum_eq]

theorem c08_lorentz_dot_k_rhophi_eta_tau_xy_z_tau (coord11 coord12 coord13 coord14 coord21 coord22 coord23 coord24 : ℝ) (h0 : 0 ≤ coord14) (h1 : 0 ≤ coord24) :
    VS.lorentz_dot.k_rhophi_eta_tau_xy_z_tau coord11 coord12 coord13 coord14 coord21 coord22 coord23 coord24 = VR.lorentz_dot.k_rhophi_eta_tau_xy_z_tau coord11 coord12 coord13 coord14 coord21 coord22 coord23 coord24 := by
  simp only [VS.lorentz_dot.k_rhophi_eta_tau_xy_z_tau, VR.lorentz_dot.k_rhophi_eta_tau_xy_z_tau, c08_lorentz_t_rhophi_eta_tau, c08_lorentz_t_xy_z_tau, VS.spatial_dot.rhophi_eta_xy_z_eq, h0, h1, VR.P.nanToNum_eq]

theorem c08_lorentz_dot_k_rhophi_theta_t_rhophi_eta_tau (coord11 coord12 coord13 coord14 coord21 coord22 coord23 coord24 : ℝ) (h0 : 0 ≤ coord24) :
    VS.lorentz_dot.k_rhophi_theta_t_rhophi_eta_tau coord11 coord12 coord13 coord14 coord21 coord22 coord23 coord24 = VR.lorentz_dot.k_rhophi_theta_t_rhophi_eta_tau coord11 coord12 coord13 coord14 coord21 coord22 coord23 coord24 := by
  simp only [VS.lorentz_dot.k_rhophi_theta_t_rhophi_eta_tau, VR.lorentz_dot.k_rhophi_theta_t_rhophi_eta_tau, VS.lorentz_t.rhophi_theta_t_eq, c08_lorentz_t_rhophi_eta_tau, VS.spatial_dot.rhophi_theta_rhophi_eta_eq, h0, VR.P.nanToNum_eq]

theorem c08_lorentz_dot_k_rhophi_theta_t_rhophi_theta_tau (coord11 coord12 coord13 coord14 coord21 coord22 coord23 coord24 : ℝ) (h0 : 0 ≤ coord24) :
    VS.lorentz_dot.k_rhophi_theta_t_rhophi_theta_tau coord11 coord12 coord13 coord14 coord21 coord22 coord23 coord24 = VR.lorentz_dot.k_rhophi_theta_t_rhophi_theta_tau coord11 coord12 coord13 coord14 coord21 coord22 coord23 coord24 := by
  simp only [VS.lorentz_dot.k_rhophi_theta_t_rhophi_theta_tau, VR.lorentz_dot.k_rhophi_theta_t_rhophi_theta_tau, VS.lorentz_t.rhophi_theta_t_eq, c08_lorentz_t_rhophi_theta_tau, VS.spatial_dot.rhophi_theta_rhophi_theta_eq, h0, VR.P.nanToNum_eq]

theorem c08_lorentz_dot_k_rhophi_theta_t_rhophi_z_tau (coord11 coord12 coord13 coord14 coord21 coord22 coord23 coord24 : ℝ) (h0 : 0 ≤ coord24) :
    VS.lorentz_dot.k_rhophi_theta_t_rhophi_z_tau coord11 coord12 coord13 coord14 coord21 coord22 coord23 coord24 = VR.lorentz_dot.k_rhophi_theta_t_rhophi_z_tau coord11 coord12 coord13 coord14 coord21 coord22 coord23 coord24 := by
  simp only [VS.lorentz_dot.k_rhophi_theta_t_rhophi_z_tau, VR.lorentz_dot.k_rhophi_theta_t_rhophi_z_tau, VS.lorentz_t.rhophi_theta_t_eq, c08_lorentz_t_rhophi_z_tau, VS.spatial_dot.rhophi_theta_rhophi_z_eq, h0, VR.P.nanToNum_eq]

theorem c08_lorentz_dot_k_rhophi_theta_t_xy_eta_tau (coord11 coord12 coord13 coord14 coord21 coord22 coord23 coord24 : ℝ) (h0 : 0 ≤ coord24) :
    VS.lorentz_dot.k_rhophi_theta_t_xy_eta_tau coord11 coord12 coord13 coord14 coord21 coord22 coord23 coord24 = VR.lorentz_dot.k_rhophi_theta_t_xy_eta_tau coord11 coord12 coord13 coord14 coord21 coord22 coord23 coord24 := by
  simp only [VS.lorentz_dot.k_rhophi_theta_t_xy_eta_tau, VR.lorentz_dot.k_rhophi_theta_t_xy_eta_tau, VS.lorentz_t.rhophi_theta_t_eq, c08_lorentz_t_xy_eta_tau, VS.spatial_dot.rhophi_theta_xy_eta_eq, h0, VR.P.nanToNum_eq]

theorem c08_lorentz_dot_k_rhophi_theta_t_xy_theta_tau (coord11 coord12 coord13 coord14 coord21 coord22 coord23 coord24 : ℝ) (h0 : 0 ≤ coord24) :
    VS.lorentz_dot.k_rhophi_theta_t_xy_theta_tau coord11 coord12 coord13 coord14 coord21 coord22 coord23 coord24 = VR.lorentz_dot.k_rhophi_theta_t_xy_theta_tau coord11 coord12 coord13 coord14 coord21 coord22 coord23 coord24 := by
  simp only [VS.lorentz_dot.k_rhophi_theta_t_xy_theta_tau, VR.lorentz_dot.k_rhophi_theta_t_xy_theta_tau, VS.lorentz_t.rhophi_theta_t_eq, c08_lorentz_t_xy_theta_tau, VS.spatial_dot.rhophi_theta_xy_theta_eq, h0, VR.P.nanToNum_eq]

theorem c08_lorentz_dot_k_rhophi_theta_t_xy_z_tau (coord11 coord12 coord13 coord14 coord21 coord22 coord23 coord24 : ℝ) (h0 : 0 ≤ coord24) :
    VS.lorentz_dot.k_rhophi_theta_t_xy_z_tau coord11 coord12 coord13 coord14 coord21 coord22 coord23 coord24 = VR.lorentz_dot.k_rhophi_theta_t_xy_z_tau coord11 coord12 coord13 coord14 coord21 coord22 coord23 coord24 := by
  simp only [VS.lorentz_dot.k_rhophi_theta_t_xy_z_tau, VR.lorentz_dot.k_rhophi_theta_t_xy_z_tau, VS.lorentz_t.rhophi_theta_t_eq, c08_lorentz_t_xy_z_tau, VS.spatial_dot.rhophi_theta_xy_z_eq, h0, VR.P.nanToNum_eq]

theorem c08_lorentz_dot_k_rhophi_theta_tau_rhophi_eta_t (coord11 coord12 coord13 coord14 coord21 coord22 coord23 coord24 : ℝ) (h0 : 0 ≤ coord14) :
    VS.lorentz_dot.k_rhophi_theta_tau_rhophi_eta_t coord11 coord12 coord13 coord14 coord21 coord22 coord23 coord24 = VR.lorentz_dot.k_rhophi_theta_tau_rhophi_eta_t coord11 coord12 coord13 coord14 coord21 coord22 coord23 coord24 := by
  simp only [VS.lorentz_dot.k_rhophi_theta_tau_rhophi_eta_t, VR.lorentz_dot.k_rhophi_theta_tau_rhophi_eta_t, c08_lorentz_t_rhophi_theta_tau, VS.lorentz_t.rhophi_eta_t_eq, VS.spatial_dot.rhophi_theta_rhophi_eta_eq, h0, VR.P.nanToNum_eq]

theorem c08_lorentz_dot_k_rhophi_theta_tau_rhophi_eta_tau (coord11 coord12 coord13 coord14 coord21 coord22 coord23 coord24 : ℝ) (h0 : 0 ≤ coord14) (h1 : 0 ≤ coord24) :
    VS.lorentz_dot.k_rhophi_theta_tau_rhophi_eta_tau coord11 coord12 coord13 coord14 coord21 coord22 coord23 coord24 = VR.lorentz_dot.k_rhophi_theta_tau_rhophi_eta_tau coord11 coord12 coord13 coord14 coord21 coord22 coord23 coord24 := by
  simp only [VS.lorentz_dot.k_rhophi_theta_tau_rhophi_eta_tau, VR.lorentz_dot.k_rhophi_theta_tau_rhophi_eta_tau, c08_lorentz_t_rhophi_theta_tau, c08_lorentz_t_rhophi_eta_tau, VS.spatial_dot.rhophi_theta_rhophi_eta_eq, h0, h1, VR.P.nanToNum_eq]

theorem c08_lorentz_dot_k_rhophi_theta_tau_rhophi_theta_t (coord11 coord12 coord13 coord14 coord21 coord22 coord23 coord24 : ℝ) (h0 : 0 ≤ coord14) :
    VS.lorentz_dot.k_rhophi_theta_tau_rhophi_theta_t coord11 coord12 coord13 coord14 coord21 coord22 coord23 coord24 = VR.lorentz_dot.k_rhophi_theta_tau_rhophi_theta_t coord11 coord12 coord13 coord14 coord21 coord22 coord23 coord24 := by
  simp only [VS.lorentz_dot.k_rhophi_theta_tau_rhophi_theta_t, VR.lorentz_dot.k_rhophi_theta_tau_rhophi_theta_t, c08_lorentz_t_rhophi_theta_tau, VS.lorentz_t.rhophi_theta_t_eq, VS.spatial_dot.rhophi_theta_rhophi_theta_eq, h0, VR.P.nanToNum_eq]

theorem c08_lorentz_dot_k_rhophi_theta_tau_rhophi_theta_tau (coord11 coord12 coord13 coord14 coord21 coord22 coord23 coord24 : ℝ) (h0 : 0 ≤ coord14) (h1 : 0 ≤ coord24) :
    VS.lorentz_dot.k_rhophi_theta_tau_rhophi_theta_tau coord11 coord12 coord13 coord14 coord21 coord22 coord23 coord24 = VR.lorentz_dot.k_rhophi_theta_tau_rhophi_theta_tau coord11 coord12 coord13 coord14 coord21 coord22 coord23 coord24 := by
  simp only [VS.lorentz_dot.k_rhophi_theta_tau_rhophi_theta_tau, VR.lorentz_dot.k_rhophi_theta_tau_rhophi_theta_tau, c08_lorentz_t_rhophi_theta_tau, VS.spatial_dot.rhophi_theta_rhophi_theta_eq, h0, h1, VR.P.nanToNum_eq]

theorem c08_lorentz_dot_k_rhophi_theta_tau_rhophi_z_t (coord11 coord12 coord13 coord14 coord21 coord22 coord23 coord24 : ℝ) (h0 : 0 ≤ coord14) :
    VS.lorentz_dot.k_rhophi_theta_tau_rhophi_z_t coord11 coord12 coord13 coord14 coord21 coord22 coord23 coord24 = VR.lorentz_dot.k_rhophi_theta_tau_rhophi_z_t coord11 coord12 coord13 coord14 coord21 coord22 coord23 coord24 := by
  simp only [VS.lorentz_dot.k_rhophi_theta_tau_rhophi_z_t, VR.lorentz_dot.k_rhophi_theta_tau_rhophi_z_t, c08_lorentz_t_rhophi_theta_tau, VS.lorentz_t.rhophi_z_t_eq, VS.spatial_dot.rhophi_theta_rhophi_z_eq, h0, VR.P.nanToNum_eq]

theorem c08_lorentz_dot_k_rhophi_theta_tau_rhophi_z_tau (coord11 coord12 coord13 coord14 coord21 coord22 coord23 coord24 : ℝ) (h0 : 0 ≤ coord14) (h1 : 0 ≤ coord24) :
    VS.lorentz_dot.k_rhophi_theta_tau_rhophi_z_tau coord11 coord12 coord13 coord14 coord21 coord22 coord23 coord24 = VR.lorentz_dot.k_rhophi_theta_tau_rhophi_z_tau coord11 coord12 coord13 coord14 coord21 coord22 coord23 coord24 := by
  simp only [VS.lorentz_dot.k_rhophi_theta_tau_rhophi_z_tau, VR.lorentz_dot.k_rhophi_theta_tau_rhophi_z_tau, c08_lorentz_t_rhophi_theta_tau, c08_lorentz_t_rhophi_z_tau, VS.spatial_dot.rhophi_theta_rhophi_z_eq, h0, h1, VR.P.nanToNum_eq]

theorem c08_lorentz_dot_k_rhophi_theta_tau_xy_eta_t (coord11 coord12 coord13 coord14 coord21 coord22 coord23 coord24 : ℝ) (h0 : 0 ≤ coord14) :
    VS.lorentz_dot.k_rhophi_theta_tau_xy_eta_t coord11 coord12 coord13 coord14 coord21 coord22 coord23 coord24 = VR.lorentz_dot.k_rhophi_theta_tau_xy_eta_t coord11 coord12 coord13 coord14 coord21 coord22 coord23 coord24 := by
  simp only [VS.lorentz_dot.k_rhophi_theta_tau_xy_eta_t, VR.lorentz_dot.k_rhophi_theta_tau_xy_eta_t, c08_lorentz_t_rhophi_theta_tau, VS.lorentz_t.xy_eta_t_eq, VS.spatial_dot.rhophi_theta_xy_eta_eq, h0, VR.P.nanToNum_eq]

theorem c08_lorentz_dot_k_rhophi_theta_tau_xy_eta_tau (coord11 coord12 coord13 coord14 coord21 coord22 coord23 coord24 : ℝ) (h0 : 0 ≤ coord14) (h1 : 0 ≤ coord24) :
    VS.lorentz_dot.k_rhophi_theta_tau_xy_eta_tau coord11 coord12 coord13 coord14 coord21 coord22 coord23 coord24 = VR.lorentz_dot.k_rhophi_theta_tau_xy_eta_tau coord11 coord12 coord13 coord14 coord21 coord22 coord23 coord24 := by
  simp only [VS.lorentz_dot.k_rhophi_theta_tau_xy_eta_tau, VR.lorentz_dot.k_rhophi_theta_tau_xy_eta_tau, c08_lorentz_t_rhophi_theta_tau, c08_lorentz_t_xy_eta_tau, VS.spatial_dot.rhophi_theta_xy_eta_eq, h0, h1, VR.P.nanToNum_eq]

theorem c08_lorentz_dot_k_rhophi_theta_tau_xy_theta_t (coord11 coord12 coord13 coord14 coord21 coord22 coord23 coord24 : ℝ) (h0 : 0 ≤ coord14) :
    VS.lorentz_dot.k_rhophi_theta_tau_xy_theta_t coord11 coord12 coord13 coord14 coord21 coord22 coord23 coord24 = VR.lorentz_dot.k_rhophi_theta_tau_xy_theta_t coord11 coord12 coord13 coord14 coord21 coord22 coord23 coord24 := by
  simp only [VS.lorentz_dot.k_rhophi_theta_tau_xy_theta_t, VR.lorentz_dot.k_rhophi_theta_tau_xy_theta_t, c08_lorentz_t_rhophi_theta_tau, VS.lorentz_t.xy_theta_t_eq, VS.spatial_dot.rhophi_theta_xy_theta_eq, h0, VR.P.nanToNum_eq]

theorem c08_lorentz_dot_k_rhophi_theta_tau_xy_theta_tau (coord11 coord12 coord13 coord14 coord21 coord22 coord23 coord24 : ℝ) (h0 : 0 ≤ coord14) (h1 : 0 ≤ coord24) :
    VS.lorentz_dot.k_rhophi_theta_tau_xy_theta_tau coord11 coord12 coord13 coord14 coord21 coord22 coord23 coord24 = VR.lorentz_dot.k_rhophi_theta_tau_xy_theta_tau coord11 coord12 coord13 coord14 coord21 coord22 coord23 coord24 := by
  simp only [VS.lorentz_dot.k_rhophi_theta_tau_xy_theta_tau, VR.lorentz_dot.k_rhophi_theta_tau_xy_theta_tau, c08_lorentz_t_rhophi_theta_tau, c08_lorentz_t_xy_theta_tau, VS.spatial_dot.rhophi_theta_xy_theta_eq, h0, h1, VR.P.nanToNum_eq]

theorem c08_lorentz_dot_k_rhophi_theta_tau_xy_z_t (coord11 coord12 coord13 coord14 coord21 coord22 coord23 coord24 : ℝ) (h0 : 0 ≤ coord14) :
    VS.lorentz_dot.k_rhophi_theta_tau_xy_z_t coord11 coord12 coord13 coord14 coord21 coord22 coord23 coord24 = VR.lorentz_dot.k_rhophi_theta_tau_xy_z_t coord11 coord12 coord13 coord14 coord21 coord22 coord23 coord24 := by
  simp only [VS.lorentz_dot.k_rhophi_theta_tau_xy_z_t, VR.lorentz_dot.k_rhophi_theta_tau_xy_z_t, c08_lorentz_t_rhophi_theta_tau, VS.lorentz_t.xy_z_t_eq, VS.spatial_dot.rhophi_theta_xy_z_eq, h0, VR.P.nanToNum_eq]

theorem c08_lorentz_dot_k_rhophi_theta_tau_xy_z_tau (coord11 coord12 coord13 coord14 coord21 coord22 coord23 coord24 : ℝ) (h0 : 0 ≤ coord14) (h1 : 0 ≤ coord24) :
    VS.lorentz_dot.k_rhophi_theta_tau_xy_z_tau coord11 coord12 coord13 coord14 coord21 coord22 coord23 coord24 = VR.lorentz_dot.k_rhophi_theta_tau_xy_z_tau coord11 coord12 coord13 coord14 coord21 coord22 coord23 coord24 := by
  simp only [VS.lorentz_dot.k_rhophi_theta_tau_xy_z_tau, VR.lorentz_dot.k_rhophi_theta_tau_xy_z_tau, c08_lorentz_t_rhophi_theta_tau, c08_lorentz_t_xy_z_tau, VS.spatial_dot.rhophi_theta_xy_z_eq, h0, h1, VR.P.nanToNum_eq]

theorem c08_lorentz_dot_k_rhophi_z_t_rhophi_eta_tau (coord11 coord12 coord13 coord14 coord21 coord22 coord23 coord24 : ℝ) (h0 : 0 ≤ coord24) :
    VS.lorentz_dot.k_rhophi_z_t_rhophi_eta_tau coord11 coord12 coord13 coord14 coord21 coord22 coord23 coord24 = VR.lorentz_dot.k_rhophi_z_t_rhophi_eta_tau coord11 coord12 coord13 coord14 coord21 coord22 coord23 coord24 := by
  simp only [VS.lorentz_dot.k_rhophi_z_t_rhophi_eta_tau, VR.lorentz_dot.k_rhophi_z_t_rhophi_eta_tau, VS.lorentz_t.rhophi_z_t_eq, c08_lorentz_t_rhophi_eta_tau, VS.spatial_dot.rhophi_z_rhophi_eta_eq, h0, VR.P.nanToNum_eq]

theorem c08_lorentz_dot_k_rhophi_z_t_rhophi_theta_tau (coord11 coord12 coord13 coord14 coord21 coord22 coord23 coord24 : ℝ) (h0 : 0 ≤ coord24) :
    VS.lorentz_dot.k_rhophi_z_t_rhophi_theta_tau coord11 coord12 coord13 coord14 coord21 coord22 coord23 coord24 = VR.lorentz_dot.k_rhophi_z_t_rhophi_theta_tau coord11 coord12 coord13 coord14 coord21 coord22 coord23 coord24 := by
  simp only [VS.lorentz_dot.k_rhophi_z_t_rhophi_theta_tau, VR.lorentz_dot.k_rhophi_z_t_rhophi_theta_tau, VS.lorentz_t.rhophi_z_t_eq, c08_lorentz_t_rhophi_theta_tau, VS.spatial_dot.rhophi_z_rhophi_theta_eq, h0, VR.P.nanToNum_eq]

theorem c08_lorentz_dot_k_rhophi_z_t_rhophi_z_tau (coord11 coord12 coord13 coord14 coord21 coord22 coord23 coord24 : ℝ) (h0 : 0 ≤ coord24) :
    VS.lorentz_dot.k_rhophi_z_t_rhophi_z_tau coord11 coord12 coord13 coord14 coord21 coord22 coord23 coord24 = VR.lorentz_dot.k_rhophi_z_t_rhophi_z_tau coord11 coord12 coord13 coord14 coord21 coord22 coord23 coord24 := by
  simp only [VS.lorentz_dot.k_rhophi_z_t_rhophi_z_tau, VR.lorentz_dot.k_rhophi_z_t_rhophi_z_tau, VS.lorentz_t.rhophi_z_t_eq, c08_lorentz_t_rhophi_z_tau, VS.spatial_dot.rhophi_z_rhophi_z_eq, h0, VR.P.nanToNum_eq]

theorem c08_lorentz_dot_k_rhophi_z_t_xy_eta_tau (coord11 coord12 coord13 coord14 coord21 coord22 coord23 coord24 : ℝ) (h0 : 0 ≤ coord24) :
    VS.lorentz_dot.k_rhophi_z_t_xy_eta_tau coord11 coord12 coord13 coord14 coord21 coord22 coord23 coord24 = VR.lorentz_dot.k_rhophi_z_t_xy_eta_tau coord11 coord12 coord13 coord14 coord21 coord22 coord23 coord24 := by
  simp only [VS.lorentz_dot.k_rhophi_z_t_xy_eta_tau, VR.lorentz_dot.k_rhophi_z_t_xy_eta_tau, VS.lorentz_t.rhophi_z_t_eq, c08_lorentz_t_xy_eta_tau, VS.spatial_dot.rhophi_z_xy_eta_eq, h0, VR.P.nanToNum_eq]

theorem c08_lorentz_dot_k_rhophi_z_t_xy_theta_tau (coord11 coord12 coord13 coord14 coord21 coord22 coord23 coord24 : ℝ) (h0 : 0 ≤ coord24) :
    VS.lorentz_dot.k_rhophi_z_t_xy_theta_tau coord11 coord12 coord13 coord14 coord21 coord22 coord23 coord24 = VR.lorentz_dot.k_rhophi_z_t_xy_theta_tau coord11 coord12 coord13 coord14 coord21 coord22 coord23 coord24 := by
  simp only [VS.lorentz_dot.k_rhophi_z_t_xy_theta_tau, VR.lorentz_dot.k_rhophi_z_t_xy_theta_tau, VS.lorentz_t.rhophi_z_t_eq, c08_lorentz_t_xy_theta_tau, VS.spatial_dot.rhophi_z_xy_theta_eq, h0, VR.P.nanToNum_eq]

theorem c08_lorentz_dot_k_rhophi_z_t_xy_z_tau (coord11 coord12 coord13 coord14 coord21 coord22 coord23 coord24 : ℝ) (h0 : 0 ≤ coord24) :
    VS.lorentz_dot.k_rhophi_z_t_xy_z_tau coord11 coord12 coord13 coord14 coord21 coord22 coord23 coord24 = VR.lorentz_dot.k_rhophi_z_t_xy_z_tau coord11 coord12 coord13 coord14 coord21 coord22 coord23 coord24 := by
  simp only [VS.lorentz_dot.k_rhophi_z_t_xy_z_tau, VR.lorentz_dot.k_rhophi_z_t_xy_z_tau, VS.lorentz_t.rhophi_z_t_eq, c08_lorentz_t_xy_z_tau, VS.spatial_dot.rhophi_z_xy_z_eq, h0, VR.P.nanToNum_eq]

theorem c08_lorentz_dot_k_rhophi_z_tau_rhophi_eta_t (coord11 coord12 coord13 coord14 coord21 coord22 coord23 coord24 : ℝ) (h0 : 0 ≤ coord14) :
    VS.lorentz_dot.k_rhophi_z_tau_rhophi_eta_t coord11 coord12 coord13 coord14 coord21 coord22 coord23 coord24 = VR.lorentz_dot.k_rhophi_z_tau_rhophi_eta_t coord11 coord12 coord13 coord14 coord21 coord22 coord23 coord24 := by
  simp only [VS.lorentz_dot.k_rhophi_z_tau_rhophi_eta_t, VR.lorentz_dot.k_rhophi_z_tau_rhophi_eta_t, c08_lorentz_t_rhophi_z_tau, VS.lorentz_t.rhophi_eta_t_eq, VS.spatial_dot.rhophi_z_rhophi_eta_eq, h0, VR.P.nanToNum_eq]

theorem c08_lorentz_dot_k_rhophi_z_tau_rhophi_eta_tau (coord11 coord12 coord13 coord14 coord21 coord22 coord23 coord24 : ℝ) (h0 : 0 ≤ coord14) (h1 : 0 ≤ coord24) :
    VS.lorentz_dot.k_rhophi_z_tau_rhophi_eta_tau coord11 coord12 coord13 coord14 coord21 coord22 coord23 coord24 = VR.lorentz_dot.k_rhophi_z_tau_rhophi_eta_tau coord11 coord12 coord13 coord14 coord21 coord22 coord23 coord24 := by
  simp only [VS.lorentz_dot.k_rhophi_z_tau_rhophi_eta_tau, VR.lorentz_dot.k_rhophi_z_tau_rhophi_eta_tau, c08_lorentz_t_rhophi_z_tau, c08_lorentz_t_rhophi_eta_tau, VS.spatial_dot.rhophi_z_rhophi_eta_eq, h0, h1, VR.P.nanToNum_eq]

theorem c08_lorentz_dot_k_rhophi_z_tau_rhophi_theta_t (coord11 coord12 coord13 coord14 coord21 coord22 coord23 coord24 : ℝ) (h0 : 0 ≤ coord14) :
    VS.lorentz_dot.k_rhophi_z_tau_rhophi_theta_t coord11 coord12 coord13 coord14 coord21 coord22 coord23 coord24 = VR.lorentz_dot.k_rhophi_z_tau_rhophi_theta_t coord11 coord12 coord13 coord14 coord21 coord22 coord23 coord24 := by
  simp only [VS.lorentz_dot.k_rhophi_z_tau_rhophi_theta_t, VR.lorentz_dot.k_rhophi_z_tau_rhophi_theta_t, c08_lorentz_t_rhophi_z_tau, VS.lorentz_t.rhophi_theta_t_eq, VS.spatial_dot.rhophi_z_rhophi_theta_eq, h0, VR.P.nanToNum_eq]

theorem c08_lorentz_dot_k_rhophi_z_tau_rhophi_theta_tau (coord11 coord12 coord13 coord14 coord21 coord22 coord23 coord24 : ℝ) (h0 : 0 ≤ coord14) (h1 : 0 ≤ coord24) :
    VS.lorentz_dot.k_rhophi_z_tau_rhophi_theta_tau coord11 coord12 coord13 coord14 coord21 coord22 coord23 coord24 = VR.lorentz_dot.k_rhophi_z_tau_rhophi_theta_tau coord11 coord12 coord13 coord14 coord21 coord22 coord23 coord24 := by
  simp only [VS.lorentz_dot.k_rhophi_z_tau_rhophi_theta_tau, VR.lorentz_dot.k_rhophi_z_tau_rhophi_theta_tau, c08_lorentz_t_rhophi_z_tau, c08_lorentz_t_rhophi_theta_tau, VS.spatial_dot.rhophi_z_rhophi_theta_eq, h0, h1, VR.P.nanToNum_eq]

theorem c08_lorentz_dot_k_rhophi_z_tau_rhophi_z_t (coord11 coord12 coord13 coord14 coord21 coord22 coord23 coord24 : ℝ) (h0 : 0 ≤ coord14) :
    VS.lorentz_dot.k_rhophi_z_tau_rhophi_z_t coord11 coord12 coord13 coord14 coord21 coord22 coord23 coord24 = VR.lorentz_dot.k_rhophi_z_tau_rhophi_z_t coord11 coord12 coord13 coord14 coord21 coord22 coord23 coord24 := by
  simp only [VS.lorentz_dot.k_rhophi_z_tau_rhophi_z_t, VR.lorentz_dot.k_rhophi_z_tau_rhophi_z_t, c08_lorentz_t_rhophi_z_tau, VS.lorentz_t.rhophi_z_t_eq, VS.spatial_dot.rhophi_z_rhophi_z_eq, h0, VR.P.nanToNum_eq]

theorem c08_lorentz_dot_k_rhophi_z_tau_rhophi_z_tau (coord11 coord12 coord13 coord14 coord21 coord22 coord23 coord24 : ℝ) (h0 : 0 ≤ coord14) (h1 : 0 ≤ coord24) :
    VS.lorentz_dot.k_rhophi_z_tau_rhophi_z_tau coord11 coord12 coord13 coord14 coord21 coord22 coord23 coord24 = VR.lorentz_dot.k_rhophi_z_tau_rhophi_z_tau coord11 coord12 coord13 coord14 coord21 coord22 coord23 coord24 := by
  simp only [VS.lorentz_dot.k_rhophi_z_tau_rhophi_z_tau, VR.lorentz_dot.k_rhophi_z_tau_rhophi_z_tau, c08_lorentz_t_rhophi_z_tau, VS.spatial_dot.rhophi_z_rhophi_z_eq, h0, h1, VR.P.nanToNum_eq]

theorem c08_lorentz_dot_k_rhophi_z_tau_xy_eta_t (coord11 coord12 coord13 coord14 coord21 coord22 coord23 coord24 : ℝ) (h0 : 0 ≤ coord14) :
    VS.lorentz_dot.k_rhophi_z_tau_xy_eta_t coord11 coord12 coord13 coord14 coord21 coord22 coord23 coord24 = VR.lorentz_dot.k_rhophi_z_tau_xy_eta_t coord11 coord12 coord13 coord14 coord21 coord22 coord23 coord24 := by
  simp only [VS.lorentz_dot.k_rhophi_z_tau_xy_eta_t, VR.lorentz_dot.k_rhophi_z_tau_xy_eta_t, c08_lorentz_t_rhophi_z_tau, VS.lorentz_t.xy_eta_t_eq, VS.spatial_dot.rhophi_z_xy_eta_eq, h0, VR.P.nanToNum_eq]

theorem c08_lorentz_dot_k_rhophi_z_tau_xy_eta_tau (coord11 coord12 coord13 coord14 coord21 coord22 coord23 coord24 : ℝ) (h0 : 0 ≤ coord14) (h1 : 0 ≤ coord24) :
    VS.lorentz_dot.k_rhophi_z_tau_xy_eta_tau coord11 coord12 coord13 coord14 coord21 coord22 coord23 coord24 = VR.lorentz_dot.k_rhophi_z_tau_xy_eta_tau coord11 coord12 coord13 coord14 coord21 coord22 coord23 coord24 := by
  simp only [VS.lorentz_dot.k_rhophi_z_tau_xy_eta_tau, VR.lorentz_dot.k_rhophi_z_tau_xy_eta_tau, c08_lorentz_t_rhophi_z_tau, c08_lorentz_t_xy_eta_tau, VS.spatial_dot.rhophi_z_xy_eta_eq, h0, h1, VR.P.nanToNum_eq]

theorem c08_lorentz_dot_k_rhophi_z_tau_xy_theta_t (coord11 coord12 coord13 coord14 coord21 coord22 coord23 coord24 : ℝ) (h0 : 0 ≤ coord14) :
    VS.lorentz_dot.k_rhophi_z_tau_xy_theta_t coord11 coord12 coord13 coord14 coord21 coord22 coord23 coord24 = VR.lorentz_dot.k_rhophi_z_tau_xy_theta_t coord11 coord12 coord13 coord14 coord21 coord22 coord23 coord24 := by
  simp only [VS.lorentz_dot.k_rhophi_z_tau_xy_theta_t, VR.lorentz_dot.k_rhophi_z_tau_xy_theta_t, c08_lorentz_t_rhophi_z_tau, VS.lorentz_t.xy_theta_t_eq, VS.spatial_dot.rhophi_z_xy_theta_eq, h0, VR.P.nanToNum_eq]

theorem c08_lorentz_dot_k_rhophi_z_tau_xy_theta_tau (coord11 coord12 coord13 coord14 coord21 coord22 coord23 coord24 : ℝ) (h0 : 0 ≤ coord14) (h1 : 0 ≤ coord24) :
    VS.lorentz_dot.k_rhophi_z_tau_xy_theta_tau coord11 coord12 coord13 coord14 coord21 coord22 coord23 coord24 = VR.lorentz_dot.k_rhophi_z_tau_xy_theta_tau coord11 coord12 coord13 coord14 coord21 coord22 coord23 coord24 := by
  simp only [VS.lorentz_dot.k_rhophi_z_tau_xy_theta_tau, VR.lorentz_dot.k_rhophi_z_tau_xy_theta_tau, c08_lorentz_t_rhophi_z_tau, c08_lorentz_t_xy_theta_tau, VS.spatial_dot.rhophi_z_xy_theta_eq, h0, h1, VR.P.nanToNum_eq]

theorem c08_lorentz_dot_k_rhophi_z_tau_xy_z_t (coord11 coord12 coord13 coord14 coord21 coord22 coord23 coord24 : ℝ) (h0 : 0 ≤ coord14) :
    VS.lorentz_dot.k_rhophi_z_tau_xy_z_t coord11 coord12 coord13 coord14 coord21 coord22 coord23 coord24 = VR.lorentz_dot.k_rhophi_z_tau_xy_z_t coord11 coord12 coord13 coord14 coord21 coord22 coord23 coord24 := by
  simp only [VS.lorentz_dot.k_rhophi_z_tau_xy_z_t, VR.lorentz_dot.k_rhophi_z_tau_xy_z_t, c08_lorentz_t_rhophi_z_tau, VS.lorentz_t.xy_z_t_eq, VS.spatial_dot.rhophi_z_xy_z_eq, h0, VR.P.nanToNum_eq]

theorem c08_lorentz_dot_k_rhophi_z_tau_xy_z_tau (coord11 coord12 coord13 coord14 coord21 coord22 coord23 coord24 : ℝ) (h0 : 0 ≤ coord14) (h1 : 0 ≤ coord24) :
    VS.lorentz_dot.k_rhophi_z_tau_xy_z_tau coord11 coord12 coord13 coord14 coord21 coord22 coord23 coord24 = VR.lorentz_dot.k_rhophi_z_tau_xy_z_tau coord11 coord12 coord13 coord14 coord21 coord22 coord23 coord24 := by
  simp only [VS.lorentz_dot.k_rhophi_z_tau_xy_z_tau, VR.lorentz_dot.k_rhophi_z_tau_xy_z_tau, c08_lorentz_t_rhophi_z_tau, c08_lorentz_t_xy_z_tau, VS.spatial_dot.rhophi_z_xy_z_eq, h0, h1, VR.P.nanToNum_eq]

theorem c08_lorentz_dot_k_xy_eta_t_rhophi_eta_tau (coord11 coord12 coord13 coord14 coord21 coord22 coord23 coord24 : ℝ) (h0 : 0 ≤ coord24) :
    VS.lorentz_dot.k_xy_eta_t_rhophi_eta_tau coord11 coord12 coord13 coord14 coord21 coord22 coord23 coord24 = VR.lorentz_dot.k_xy_eta_t_rhophi_eta_tau coord11 coord12 coord13 coord14 coord21 coord22 coord23 coord24 := by
  simp only [VS.lorentz_dot.k_xy_eta_t_rhophi_eta_tau, VR.lorentz_dot.k_xy_eta_t_rhophi_eta_tau, VS.lorentz_t.xy_eta_t_eq, c08_lorentz_t_rhophi_eta_tau, VS.spatial_dot.xy_eta_rhophi_eta_eq, h0, VR.P.nanToNum_eq]

theorem c08_lorentz_dot_k_xy_eta_t_rhophi_theta_tau (coord11 coord12 coord13 coord14 coord21 coord22 coord23 coord24 : ℝ) (h0 : 0 ≤ coord24) :
    VS.lorentz_dot.k_xy_eta_t_rhophi_theta_tau coord11 coord12 coord13 coord14 coord21 coord22 coord23 coord24 = VR.lorentz_dot.k_xy_eta_t_rhophi_theta_tau coord11 coord12 coord13 coord14 coord21 coord22 coord23 coord24 := by
  simp only [VS.lorentz_dot.k_xy_eta_t_rhophi_theta_tau, VR.lorentz_dot.k_xy_eta_t_rhophi_theta_tau, VS.lorentz_t.xy_eta_t_eq, c08_lorentz_t_rhophi_theta_tau, VS.spatial_dot.xy_eta_rhophi_theta_eq, h0, VR.P.nanToNum_eq]

theorem c08_lorentz_dot_k_xy_eta_t_rhophi_z_tau (coord11 coord12 coord13 coord14 coord21 coord22 coord23 coord24 : ℝ) (h0 : 0 ≤ coord24) :
    VS.lorentz_dot.k_xy_eta_t_rhophi_z_tau coord11 coord12 coord13 coord14 coord21 coord22 coord23 coord24 = VR.lorentz_dot.k_xy_eta_t_rhophi_z_tau coord11 coord12 coord13 coord14 coord21 coord22 coord23 coord24 := by
  simp only [VS.lorentz_dot.k_xy_eta_t_rhophi_z_tau, VR.lorentz_dot.k_xy_eta_t_rhophi_z_tau, VS.lorentz_t.xy_eta_t_eq, c08_lorentz_t_rhophi_z_tau, VS.spatial_dot.xy_eta_rhophi_z_eq, h0, VR.P.nanToNum_eq]

theorem c08_lorentz_dot_k_xy_eta_t_xy_eta_tau (coord11 coord12 coord13 coord14 coord21 coord22 coord23 coord24 : ℝ) (h0 : 0 ≤ coord24) :
    VS.lorentz_dot.k_xy_eta_t_xy_eta_tau coord11 coord12 coord13 coord14 coord21 coord22 coord23 coord24 = VR.lorentz_dot.k_xy_eta_t_xy_eta_tau coord11 coord12 coord13 coord14 coord21 coord22 coord23 coord24 := by
  simp only [VS.lorentz_dot.k_xy_eta_t_xy_eta_tau, VR.lorentz_dot.k_xy_eta_t_xy_eta_tau, VS.lorentz_t.xy_eta_t_eq, c08_lorentz_t_xy_eta_tau, VS.spatial_dot.xy_eta_xy_eta_eq, h0, VR.P.nanToNum_eq]

theorem c08_lorentz_dot_k_xy_eta_t_xy_theta_tau (coord11 coord12 coord13 coord14 coord21 coord22 coord23 coord24 : ℝ) (h0 : 0 ≤ coord24) :
    VS.lorentz_dot.k_xy_eta_t_xy_theta_tau coord11 coord12 coord13 coord14 coord21 coord22 coord23 coord24 = VR.lorentz_dot.k_xy_eta_t_xy_theta_tau coord11 coord12 coord13 coord14 coord21 coord22 coord23 coord24 := by
  simp only [VS.lorentz_dot.k_xy_eta_t_xy_theta_tau, VR.lorentz_dot.k_xy_eta_t_xy_theta_tau, VS.lorentz_t.xy_eta_t_eq, c08_lorentz_t_xy_theta_tau, VS.spatial_dot.xy_eta_xy_theta_eq, h0, VR.P.nanToNum_eq]

theorem c08_lorentz_dot_k_xy_eta_t_xy_z_tau (coord11 coord12 coord13 coord14 coord21 coord22 coord23 coord24 : ℝ) (h0 : 0 ≤ coord24) :
    VS.lorentz_dot.k_xy_eta_t_xy_z_tau coord11 coord12 coord13 coord14 coord21 coord22 coord23 coord24 = VR.lorentz_dot.k_xy_eta_t_xy_z_tau coord11 coord12 coord13 coord14 coord21 coord22 coord23 coord24 := by
  simp only [VS.lorentz_dot.k_xy_eta_t_xy_z_tau, VR.lorentz_dot.k_xy_eta_t_xy_z_tau, VS.lorentz_t.xy_eta_t_eq, c08_lorentz_t_xy_z_tau, VS.spatial_dot.xy_eta_xy_z_eq, h0, VR.P.nanToNum_eq]

theorem c08_lorentz_dot_k_xy_eta_tau_rhophi_eta_t (coord11 coord12 coord13 coord14 coord21 coord22 coord23 coord24 : ℝ) (h0 : 0 ≤ coord14) :
    VS.lorentz_dot.k_xy_eta_tau_rhophi_eta_t coord11 coord12 coord13 coord14 coord21 coord22 coord23 coord24 = VR.lorentz_dot.k_xy_eta_tau_rhophi_eta_t coord11 coord12 coord13 coord14 coord21 coord22 coord23 coord24 := by
  simp only [VS.lorentz_dot.k_xy_eta_tau_rhophi_eta_t, VR.lorentz_dot.k_xy_eta_tau_rhophi_eta_t, c08_lorentz_t_xy_eta_tau, VS.lorentz_t.rhophi_eta_t_eq, VS.spatial_dot.xy_eta_rhophi_eta_eq, h0, VR.P.nanToNum_eq]

theorem c08_lorentz_dot_k_xy_eta_tau_rhophi_eta_tau (coord11 coord12 coord13 coord14 coord21 coord22 coord23 coord24 : ℝ) (h0 : 0 ≤ coord14) (h1 : 0 ≤ coord24) :
    VS.lorentz_dot.k_xy_eta_tau_rhophi_eta_tau coord11 coord12 coord13 coord14 coord21 coord22 coord23 coord24 = VR.lorentz_dot.k_xy_eta_tau_rhophi_eta_tau coord11 coord12 coord13 coord14 coord21 coord22 coord23 coord24 := by
  simp only [VS.lorentz_dot.k_xy_eta_tau_rhophi_eta_tau, VR.lorentz_dot.k_xy_eta_tau_rhophi_eta_tau, c08_lorentz_t_xy_eta_tau, c08_lorentz_t_rhophi_eta_tau, VS.spatial_dot.xy_eta_rhophi_eta_eq, h0, h1, VR.P.nanToNum_eq]

theorem c08_lorentz_dot_k_xy_eta_tau_rhophi_theta_t (coord11 coord12 coord13 coord14 coord21 coord22 coord23 coord24 : ℝ) (h0 : 0 ≤ coord14) :
    VS.lorentz_dot.k_xy_eta_tau_rhophi_theta_t coord11 coord12 coord13 coord14 coord21 coord22 coord23 coord24 = VR.lorentz_dot.k_xy_eta_tau_rhophi_theta_t coord11 coord12 coord13 coord14 coord21 coord22 coord23 coord24 := by
  simp only [VS.lorentz_dot.k_xy_eta_tau_rhophi_theta_t, VR.lorentz_dot.k_xy_eta_tau_rhophi_theta_t, c08_lorentz_t_xy_eta_tau, VS.lorentz_t.rhophi_theta_t_eq, VS.spatial_dot.xy_eta_rhophi_theta_eq, h0, VR.P.nanToNum_eq]

theorem c08_lorentz_dot_k_xy_eta_tau_rhophi_theta_tau (coord11 coord12 coord13 coord14 coord21 coord22 coord23 coord24 : ℝ) (h0 : 0 ≤ coord14) (h1 : 0 ≤ coord24) :
    VS.lorentz_dot.k_xy_eta_tau_rhophi_theta_tau coord11 coord12 coord13 coord14 coord21 coord22 coord23 coord24 = VR.lorentz_dot.k_xy_eta_tau_rhophi_theta_tau coord11 coord12 coord13 coord14 coord21 coord22 coord23 coord24 := by
  simp only [VS.lorentz_dot.k_xy_eta_tau_rhophi_theta_tau, VR.lorentz_dot.k_xy_eta_tau_rhophi_theta_tau, c08_lorentz_t_xy_eta_tau, c08_lorentz_t_rhophi_theta_tau, VS.spatial_dot.xy_eta_rhophi_theta_eq, h0, h1, VR.P.nanToNum_eq]

theorem c08_lorentz_dot_k_xy_eta_tau_rhophi_z_t (coord11 coord12 coord13 coord14 coord21 coord22 coord23 coord24 : ℝ) (h0 : 0 ≤ coord14) :
    VS.lorentz_dot.k_xy_eta_tau_rhophi_z_t coord11 coord12 coord13 coord14 coord21 coord22 coord23 coord24 = VR.lorentz_dot.k_xy_eta_tau_rhophi_z_t coord11 coord12 coord13 coord14 coord21 coord22 coord23 coord24 := by
  simp only [VS.lorentz_dot.k_xy_eta_tau_rhophi_z_t, VR.lorentz_dot.k_xy_eta_tau_rhophi_z_t, c08_lorentz_t_xy_eta_tau, VS.lorentz_t.rhophi_z_t_eq, VS.spatial_dot.xy_eta_rhophi_z_eq, h0, VR.P.nanToNum_eq]

theorem c08_lorentz_dot_k_xy_eta_tau_rhophi_z_tau (coord11 coord12 coord13 coord14 coord21 coord22 coord23 coord24 : ℝ) (h0 : 0 ≤ coord14) (h1 : 0 ≤ coord24) :
    VS.lorentz_dot.k_xy_eta_tau_rhophi_z_tau coord11 coord12 coord13 coord14 coord21 coord22 coord23 coord24 = VR.lorentz_dot.k_xy_eta_tau_rhophi_z_tau coord11 coord12 coord13 coord14 coord21 coord22 coord23 coord24 := by
  simp only [VS.lorentz_dot.k_xy_eta_tau_rhophi_z_tau, VR.lorentz_dot.k_xy_eta_tau_rhophi_z_tau, c08_lorentz_t_xy_eta_tau, c08_lorentz_t_rhophi_z_tau, VS.spatial_dot.xy_eta_rhophi_z_eq, h0, h1, VR.P.nanToNum_eq]

theorem c08_lorentz_dot_k_xy_eta_tau_xy_eta_t (coord11 coord12 coord13 coord14 coord21 coord22 coord23 coord24 : ℝ) (h0 : 0 ≤ coord14) :
    VS.lorentz_dot.k_xy_eta_tau_xy_eta_t coord11 coord12 coord13 coord14 coord21 coord22 coord23 coord24 = VR.lorentz_dot.k_xy_eta_tau_xy_eta_t coord11 coord12 coord13 coord14 coord21 coord22 coord23 coord24 := by
  simp only [VS.lorentz_dot.k_xy_eta_tau_xy_eta_t, VR.lorentz_dot.k_xy_eta_tau_xy_eta_t, c08_lorentz_t_xy_eta_tau, VS.lorentz_t.xy_eta_t_eq, VS.spatial_dot.xy_eta_xy_eta_eq, h0, VR.P.nanToNum_eq]

theorem c08_lorentz_dot_k_xy_eta_tau_xy_eta_tau (coord11 coord12 coord13 coord14 coord21 coord22 coord23 coord24 : ℝ) (h0 : 0 ≤ coord14) (h1 : 0 ≤ coord24) :
    VS.lorentz_dot.k_xy_eta_tau_xy_eta_tau coord11 coord12 coord13 coord14 coord21 coord22 coord23 coord24 = VR.lorentz_dot.k_xy_eta_tau_xy_eta_tau coord11 coord12 coord13 coord14 coord21 coord22 coord23 coord24 := by
  simp only [VS.lorentz_dot.k_xy_eta_tau_xy_eta_tau, VR.lorentz_dot.k_xy_eta_tau_xy_eta_tau, c08_lorentz_t_xy_eta_tau, VS.spatial_dot.xy_eta_xy_eta_eq, h0, h1, VR.P.nanToNum_eq]

theorem c08_lorentz_dot_k_xy_eta_tau_xy_theta_t (coord11 coord12 coord13 coord14 coord21 coord22 coord23 coord24 : ℝ) (h0 : 0 ≤ coord14) :
    VS.lorentz_dot.k_xy_eta_tau_xy_theta_t coord11 coord12 coord13 coord14 coord21 coord22 coord23 coord24 = VR.lorentz_dot.k_xy_eta_tau_xy_theta_t coord11 coord12 coord13 coord14 coord21 coord22 coord23 coord24 := by
  simp only [VS.lorentz_dot.k_xy_eta_tau_xy_theta_t, VR.lorentz_dot.k_xy_eta_tau_xy_theta_t, c08_lorentz_t_xy_eta_tau, VS.lorentz_t.xy_theta_t_eq, VS.spatial_dot.xy_eta_xy_theta_eq, h0, VR.P.nanToNum_eq]

theorem c08_lorentz_dot_k_xy_eta_tau_xy_theta_tau (coord11 coord12 coord13 coord14 coord21 coord22 coord23 coord24 : ℝ) (h0 : 0 ≤ coord14) (h1 : 0 ≤ coord24) :
    VS.lorentz_dot.k_xy_eta_tau_xy_theta_tau coord11 coord12 coord13 coord14 coord21 coord22 coord23 coord24 = VR.lorentz_dot.k_xy_eta_tau_xy_theta_tau coord11 coord12 coord13 coord14 coord21 coord22 coord23 coord24 := by
  simp only [VS.lorentz_dot.k_xy_eta_tau_xy_theta_tau, VR.lorentz_dot.k_xy_eta_tau_xy_theta_tau, c08_lorentz_t_xy_eta_tau, c08_lorentz_t_xy_theta_tau, VS.spatial_dot.xy_eta_xy_theta_eq, h0, h1, VR.P.nanToNum_eq]

theorem c08_lorentz_dot_k_xy_eta_tau_xy_z_t (coord11 coord12 coord13 coord14 coord21 coord22 coord23 coord24 : ℝ) (h0 : 0 ≤ coord14) :
    VS.lorentz_dot.k_xy_eta_tau_xy_z_t coord11 coord12 coord13 coord14 coord21 coord22 coord23 coord24 = VR.lorentz_dot.k_xy_eta_tau_xy_z_t coord11 coord12 coord13 coord14 coord21 coord22 coord23 coord24 := by
  simp only [VS.lorentz_dot.k_xy_eta_tau_xy_z_t, VR.lorentz_dot.k_xy_eta_tau_xy_z_t, c08_lorentz_t_xy_eta_tau, VS.lorentz_t.xy_z_t_eq, VS.spatial_dot.xy_eta_xy_z_eq, h0, VR.P.nanToNum_eq]

theorem c08_lorentz_dot_k_xy_eta_tau_xy_z_tau (coord11 coord12 coord13 coord14 coord21 coord22 coord23 coord24 : ℝ) (h0 : 0 ≤ coord14) (h1 : 0 ≤ coord24) :
    VS.lorentz_dot.k_xy_eta_tau_xy_z_tau coord11 coord12 coord13 coord14 coord21 coord22 coord23 coord24 = VR.lorentz_dot.k_xy_eta_tau_xy_z_tau coord11 coord12 coord13 coord14 coord21 coord22 coord23 coord24 := by
  simp only [VS.lorentz_dot.k_xy_eta_tau_xy_z_tau, VR.lorentz_dot.k_xy_eta_tau_xy_z_tau, c08_lorentz_t_xy_eta_tau, c08_lorentz_t_xy_z_tau, VS.spatial_dot.xy_eta_xy_z_eq, h0, h1, VR.P.nanToNum_eq]

theorem c08_lorentz_dot_k_xy_theta_t_rhophi_eta_tau (coord11 coord12 coord13 coord14 coord21 coord22 coord23 coord24 : ℝ) (h0 : 0 ≤ coord24) :
    VS.lorentz_dot.k_xy_theta_t_rhophi_eta_tau coord11 coord12 coord13 coord14 coord21 coord22 coord23 coord24 = VR.lorentz_dot.k_xy_theta_t_rhophi_eta_tau coord11 coord12 coord13 coord14 coord21 coord22 coord23 coord24 := by
  simp only [VS.lorentz_dot.k_xy_theta_t_rhophi_eta_tau, VR.lorentz_dot.k_xy_theta_t_rhophi_eta_tau, VS.lorentz_t.xy_theta_t_eq, c08_lorentz_t_rhophi_eta_tau, VS.spatial_dot.xy_theta_rhophi_eta_eq, h0, VR.P.nanToNum_eq]

theorem c08_lorentz_dot_k_xy_theta_t_rhophi_theta_tau (coord11 coord12 coord13 coord14 coord21 coord22 coord23 coord24 : ℝ) (h0 : 0 ≤ coord24) :
    VS.lorentz_dot.k_xy_theta_t_rhophi_theta_tau coord11 coord12 coord13 coord14 coord21 coord22 coord23 coord24 = VR.lorentz_dot.k_xy_theta_t_rhophi_theta_tau coord11 coord12 coord13 coord14 coord21 coord22 coord23 coord24 := by
  simp only [VS.lorentz_dot.k_xy_theta_t_rhophi_theta_tau, VR.lorentz_dot.k_xy_theta_t_rhophi_theta_tau, VS.lorentz_t.xy_theta_t_eq, c08_lorentz_t_rhophi_theta_tau, VS.spatial_dot.xy_theta_rhophi_theta_eq, h0, VR.P.nanToNum_eq]

theorem c08_lorentz_dot_k_xy_theta_t_rhophi_z_tau (coord11 coord12 coord13 coord14 coord21 coord22 coord23 coord24 : ℝ) (h0 : 0 ≤ coord24) :
    VS.lorentz_dot.k_xy_theta_t_rhophi_z_tau coord11 coord12 coord13 coord14 coord21 coord22 coord23 coord24 = VR.lorentz_dot.k_xy_theta_t_rhophi_z_tau coord11 coord12 coord13 coord14 coord21 coord22 coord23 coord24 := by
  simp only [VS.lorentz_dot.k_xy_theta_t_rhophi_z_tau, VR.lorentz_dot.k_xy_theta_t_rhophi_z_tau, VS.lorentz_t.xy_theta_t_eq, c08_lorentz_t_rhophi_z_tau, VS.spatial_dot.xy_theta_rhophi_z_eq, h0, VR.P.nanToNum_eq]

theorem c08_lorentz_dot_k_xy_theta_t_xy_eta_tau (coord11 coord12 coord13 coord14 coord21 coord22 coord23 coord24 : ℝ) (h0 : 0 ≤ coord24) :
    VS.lorentz_dot.k_xy_theta_t_xy_eta_tau coord11 coord12 coord13 coord14 coord21 coord22 coord23 coord24 = VR.lorentz_dot.k_xy_theta_t_xy_eta_tau coord11 coord12 coord13 coord14 coord21 coord22 coord23 coord24 := by
  simp only [VS.lorentz_dot.k_xy_theta_t_xy_eta_tau, VR.lorentz_dot.k_xy_theta_t_xy_eta_tau, VS.lorentz_t.xy_theta_t_eq, c08_lorentz_t_xy_eta_tau, VS.spatial_dot.xy_theta_xy_eta_eq, h0, VR.P.nanToNum_eq]

theorem c08_lorentz_dot_k_xy_theta_t_xy_theta_tau (coord11 coord12 coord13 coord14 coord21 coord22 coord23 coord24 : ℝ) (h0 : 0 ≤ coord24) :
    VS.lorentz_dot.k_xy_theta_t_xy_theta_tau coord11 coord12 coord13 coord14 coord21 coord22 coord23 coord24 = VR.lorentz_dot.k_xy_theta_t_xy_theta_tau coord11 coord12 coord13 coord14 coord21 coord22 coord23 coord24 := by
  simp only [VS.lorentz_dot.k_xy_theta_t_xy_theta_tau, VR.lorentz_dot.k_xy_theta_t_xy_theta_tau, VS.lorentz_t.xy_theta_t_eq, c08_lorentz_t_xy_theta_tau, VS.spatial_dot.xy_theta_xy_theta_eq, h0, VR.P.nanToNum_eq]

theorem c08_lorentz_dot_k_xy_theta_t_xy_z_tau (coord11 coord12 coord13 coord14 coord21 coord22 coord23 coord24 : ℝ) (h0 : 0 ≤ coord24) :
    VS.lorentz_dot.k_xy_theta_t_xy_z_tau coord11 coord12 coord13 coord14 coord21 coord22 coord23 coord24 = VR.lorentz_dot.k_xy_theta_t_xy_z_tau coord11 coord12 coord13 coord14 coord21 coord22 coord23 coord24 := by
  simp only [VS.lorentz_dot.k_xy_theta_t_xy_z_tau, VR.lorentz_dot.k_xy_theta_t_xy_z_tau, VS.lorentz_t.xy_theta_t_eq, c08_lorentz_t_xy_z_tau, VS.spatial_dot.xy_theta_xy_z_eq, h0, VR.P.nanToNum_eq]

theorem c08_lorentz_dot_k_xy_theta_tau_rhophi_eta_t (coord11 coord12 coord13 coord14 coord21 coord22 coord23 coord24 : ℝ) (h0 : 0 ≤ coord14) :
    VS.lorentz_dot.k_xy_theta_tau_rhophi_eta_t coord11 coord12 coord13 coord14 coord21 coord22 coord23 coord24 = VR.lorentz_dot.k_xy_theta_tau_rhophi_eta_t coord11 coord12 coord13 coord14 coord21 coord22 coord23 coord24 := by
  simp only [VS.lorentz_dot.k_xy_theta_tau_rhophi_eta_t, VR.lorentz_dot.k_xy_theta_tau_rhophi_eta_t, c08_lorentz_t_xy_theta_tau, VS.lorentz_t.rhophi_eta_t_eq, VS.spatial_dot.xy_theta_rhophi_eta_eq, h0, VR.P.nanToNum_eq]

theorem c08_lorentz_dot_k_xy_theta_tau_rhophi_eta_tau (coord11 coord12 coord13 coord14 coord21 coord22 coord23 coord24 : ℝ) (h0 : 0 ≤ coord14) (h1 : 0 ≤ coord24) :
    VS.lorentz_dot.k_xy_theta_tau_rhophi_eta_tau coord11 coord12 coord13 coord14 coord21 coord22 coord23 coord24 = VR.lorentz_dot.k_xy_theta_tau_rhophi_eta_tau coord11 coord12 coord13 coord14 coord21 coord22 coord23 coord24 := by
  simp only [VS.lorentz_dot.k_xy_theta_tau_rhophi_eta_tau, VR.lorentz_dot.k_xy_theta_tau_rhophi_eta_tau, c08_lorentz_t_xy_theta_tau, c08_lorentz_t_rhophi_eta_tau, VS.spatial_dot.xy_theta_rhophi_eta_eq, h0, h1, VR.P.nanToNum_eq]

theorem c08_lorentz_dot_k_xy_theta_tau_rhophi_theta_t (coord11 coord12 coord13 coord14 coord21 coord22 coord23 coord24 : ℝ) (h0 : 0 ≤ coord14) :
    VS.lorentz_dot.k_xy_theta_tau_rhophi_theta_t coord11 coord12 coord13 coord14 coord21 coord22 coord23 coord24 = VR.lorentz_dot.k_xy_theta_tau_rhophi_theta_t coord11 coord12 coord13 coord14 coord21 coord22 coord23 coord24 := by
  simp only [VS.lorentz_dot.k_xy_theta_tau_rhophi_theta_t, VR.lorentz_dot.k_xy_theta_tau_rhophi_theta_t, c08_lorentz_t_xy_theta_tau, VS.lorentz_t.rhophi_theta_t_eq, VS.spatial_dot.xy_theta_rhophi_theta_eq, h0, VR.P.nanToNum_eq]

theorem c08_lorentz_dot_k_xy_theta_tau_rhophi_theta_tau (coord11 coord12 coord13 coord14 coord21 coord22 coord23 coord24 : ℝ) (h0 : 0 ≤ coord14) (h1 : 0 ≤ coord24) :
    VS.lorentz_dot.k_xy_theta_tau_rhophi_theta_tau coord11 coord12 coord13 coord14 coord21 coord22 coord23 coord24 = VR.lorentz_dot.k_xy_theta_tau_rhophi_theta_tau coord11 coord12 coord13 coord14 coord21 coord22 coord23 coord24 := by
  simp only [VS.lorentz_dot.k_xy_theta_tau_rhophi_theta_tau, VR.lorentz_dot.k_xy_theta_tau_rhophi_theta_tau, c08_lorentz_t_xy_theta_tau, c08_lorentz_t_rhophi_theta_tau, VS.spatial_dot.xy_theta_rhophi_theta_eq, h0, h1, VR.P.nanToNum_eq]

theorem c08_lorentz_dot_k_xy_theta_tau_rhophi_z_t (coord11 coord12 coord13 coord14 coord21 coord22 coord23 coord24 : ℝ) (h0 : 0 ≤ coord14) :
    VS.lorentz_dot.k_xy_theta_tau_rhophi_z_t coord11 coord12 coord13 coord14 coord21 coord22 coord23 coord24 = VR.lorentz_dot.k_xy_theta_tau_rhophi_z_t coord11 coord12 coord13 coord14 coord21 coord22 coord23 coord24 := by
  simp only [VS.lorentz_dot.k_xy_theta_tau_rhophi_z_t, VR.lorentz_dot.k_xy_theta_tau_rhophi_z_t, c08_lorentz_t_xy_theta_tau, VS.lorentz_t.rhophi_z_t_eq, VS.spatial_dot.xy_theta_rhophi_z_eq, h0, VR.P.nanToNum_eq]

theorem c08_lorentz_dot_k_xy_theta_tau_rhophi_z_tau (coord11 coord12 coord13 coord14 coord21 coord22 coord23 coord24 : ℝ) (h0 : 0 ≤ coord14) (h1 : 0 ≤ coord24) :
    VS.lorentz_dot.k_xy_theta_tau_rhophi_z_tau coord11 coord12 coord13 coord14 coord21 coord22 coord23 coord24 = VR.lorentz_dot.k_xy_theta_tau_rhophi_z_tau coord11 coord12 coord13 coord14 coord21 coord22 coord23 coord24 := by
  simp only [VS.lorentz_dot.k_xy_theta_tau_rhophi_z_tau, VR.lorentz_dot.k_xy_theta_tau_rhophi_z_tau, c08_lorentz_t_xy_theta_tau, c08_lorentz_t_rhophi_z_tau, VS.spatial_dot.xy_theta_rhophi_z_eq, h0, h1, VR.P.nanToNum_eq]

theorem c08_lorentz_dot_k_xy_theta_tau_xy_eta_t (coord11 coord12 coord13 coord14 coord21 coord22 coord23 coord24 : ℝ) (h0 : 0 ≤ coord14) :
    VS.lorentz_dot.k_xy_theta_tau_xy_eta_t coord11 coord12 coord13 coord14 coord21 coord22 coord23 coord24 = VR.lorentz_dot.k_xy_theta_tau_xy_eta_t coord11 coord12 coord13 coord14 coord21 coord22 coord23 coord24 := by
  simp only [VS.lorentz_dot.k_xy_theta_tau_xy_eta_t, VR.lorentz_dot.k_xy_theta_tau_xy_eta_t, c08_lorentz_t_xy_theta_tau, VS.lorentz_t.xy_eta_t_eq, VS.spatial_dot.xy_theta_xy_eta_eq, h0, VR.P.nanToNum_eq]

theorem c08_lorentz_dot_k_xy_theta_tau_xy_eta_tau (coord11 coord12 coord13 coord14 coord21 coord22 coord23 coord24 : ℝ) (h0 : 0 ≤ coord14) (h1 : 0 ≤ coord24) :
    VS.lorentz_dot.k_xy_theta_tau_xy_eta_tau coord11 coord12 coord13 coord14 coord21 coord22 coord23 coord24 = VR.lorentz_dot.k_xy_theta_tau_xy_eta_tau coord11 coord12 coord13 coord14 coord21 coord22 coord23 coord24 := by
  simp only [VS.lorentz_dot.k_xy_theta_tau_xy_eta_tau, VR.lorentz_dot.k_xy_theta_tau_xy_eta_tau, c08_lorentz_t_xy_theta_tau, c08_lorentz_t_xy_eta_tau, VS.spatial_dot.xy_theta_xy_eta_eq, h0, h1, VR.P.nanToNum_eq]

theorem c08_lorentz_dot_k_xy_theta_tau_xy_theta_t (coord11 coord12 coord13 coord14 coord21 coord22 coord23 coord24 : ℝ) (h0 : 0 ≤ coord14) :
    VS.lorentz_dot.k_xy_theta_tau_xy_theta_t coord11 coord12 coord13 coord14 coord21 coord22 coord23 coord24 = VR.lorentz_dot.k_xy_theta_tau_xy_theta_t coord11 coord12 coord13 coord14 coord21 coord22 coord23 coord24 := by
  simp only [VS.lorentz_dot.k_xy_theta_tau_xy_theta_t, VR.lorentz_dot.k_xy_theta_tau_xy_theta_t, c08_lorentz_t_xy_theta_tau, VS.lorentz_t.xy_theta_t_eq, VS.spatial_dot.xy_theta_xy_theta_eq, h0, VR.P.nanToNum_eq]

theorem c08_lorentz_dot_k_xy_theta_tau_xy_theta_tau (coord11 coord12 coord13 coord14 coord21 coord22 coord23 coord24 : ℝ) (h0 : 0 ≤ coord14) (h1 : 0 ≤ coord24) :
    VS.lorentz_dot.k_xy_theta_tau_xy_theta_tau coord11 coord12 coord13 coord14 coord21 coord22 coord23 coord24 = VR.lorentz_dot.k_xy_theta_tau_xy_theta_tau coord11 coord12 coord13 coord14 coord21 coord22 coord23 coord24 := by
  simp only [VS.lorentz_dot.k_xy_theta_tau_xy_theta_tau, VR.lorentz_dot.k_xy_theta_tau_xy_theta_tau, c08_lorentz_t_xy_theta_tau, VS.spatial_dot.xy_theta_xy_theta_eq, h0, h1, VR.P.nanToNum_eq]

theorem c08_lorentz_dot_k_xy_theta_tau_xy_z_t (coord11 coord12 coord13 coord14 coord21 coord22 coord23 coord24 : ℝ) (h0 : 0 ≤ coord14) :
    VS.lorentz_dot.k_xy_theta_tau_xy_z_t coord11 coord12 coord13 coord14 coord21 coord22 coord23 coord24 = VR.lorentz_dot.k_xy_theta_tau_xy_z_t coord11 coord12 coord13 coord14 coord21 coord22 coord23 coord24 := by
  simp only [VS.lorentz_dot.k_xy_theta_tau_xy_z_t, VR.lorentz_dot.k_xy_theta_tau_xy_z_t, c08_lorentz_t_xy_theta_tau, VS.lorentz_t.xy_z_t_eq, VS.spatial_dot.xy_theta_xy_z_eq, h0, VR.P.nanToNum_eq]

theorem c08_lorentz_dot_k_xy_theta_tau_xy_z_tau (coord11 coord12 coord13 coord14 coord21 coord22 coord23 coord24 : ℝ) (h0 : 0 ≤ coord14) (h1 : 0 ≤ coord24) :
    VS.lorentz_dot.k_xy_theta_tau_xy_z_tau coord11 coord12 coord13 coord14 coord21 coord22 coord23 coord24 = VR.lorentz_dot.k_xy_theta_tau_xy_z_tau coord11 coord12 coord13 coord14 coord21 coord22 coord23 coord24 := by
  simp only [VS.lorentz_dot.k_xy_theta_tau_xy_z_tau, VR.lorentz_dot.k_xy_theta_tau_xy_z_tau, c08_lorentz_t_xy_theta_tau, c08_lorentz_t_xy_z_tau, VS.spatial_dot.xy_theta_xy_z_eq, h0, h1, VR.P.nanToNum_eq]

theorem c08_lorentz_dot_k_xy_z_t_rhophi_eta_tau (coord11 coord12 coord13 coord14 coord21 coord22 coord23 coord24 : ℝ) (h0 : 0 ≤ coord24) :
    VS.lorentz_dot.k_xy_z_t_rhophi_eta_tau coord11 coord12 coord13 coord14 coord21 coord22 coord23 coord24 = VR.lorentz_dot.k_xy_z_t_rhophi_eta_tau coord11 coord12 coord13 coord14 coord21 coord22 coord23 coord24 := by
  simp only [VS.lorentz_dot.k_xy_z_t_rhophi_eta_tau, VR.lorentz_dot.k_xy_z_t_rhophi_eta_tau, VS.lorentz_t.xy_z_t_eq, c08_lorentz_t_rhophi_eta_tau, VS.spatial_dot.xy_z_rhophi_eta_eq, h0, VR.P.nanToNum_eq]

theorem c08_lorentz_dot_k_xy_z_t_rhophi_theta_tau (coord11 coord12 coord13 coord14 coord21 coord22 coord23 coord24 : ℝ) (h0 : 0 ≤ coord24) :
    VS.lorentz_dot.k_xy_z_t_rhophi_theta_tau coord11 coord12 coord13 coord14 coord21 coord22 coord23 coord24 = VR.lorentz_dot.k_xy_z_t_rhophi_theta_tau coord11 coord12 coord13 coord14 coord21 coord22 coord23 coord24 := by
  simp only [VS.lorentz_dot.k_xy_z_t_rhophi_theta_tau, VR.lorentz_dot.k_xy_z_t_rhophi_theta_tau, VS.lorentz_t.xy_z_t_eq, c08_lorentz_t_rhophi_theta_tau, VS.spatial_dot.xy_z_rhophi_theta_eq, h0, VR.P.nanToNum_eq]

theorem c08_lorentz_dot_k_xy_z_t_rhophi_z_tau (coord11 coord12 coord13 coord14 coord21 coord22 coord23 coord24 : ℝ) (h0 : 0 ≤ coord24) :
    VS.lorentz_dot.k_xy_z_t_rhophi_z_tau coord11 coord12 coord13 coord14 coord21 coord22 coord23 coord24 = VR.lorentz_dot.k_xy_z_t_rhophi_z_tau coord11 coord12 coord13 coord14 coord21 coord22 coord23 coord24 := by
  simp only [VS.lorentz_dot.k_xy_z_t_rhophi_z_tau, VR.lorentz_dot.k_xy_z_t_rhophi_z_tau, VS.lorentz_t.xy_z_t_eq, c08_lorentz_t_rhophi_z_tau, VS.spatial_dot.xy_z_rhophi_z_eq, h0, VR.P.nanToNum_eq]

theorem c08_lorentz_dot_k_xy_z_t_xy_eta_tau (coord11 coord12 coord13 coord14 coord21 coord22 coord23 coord24 : ℝ) (h0 : 0 ≤ coord24) :
    VS.lorentz_dot.k_xy_z_t_xy_eta_tau coord11 coord12 coord13 coord14 coord21 coord22 coord23 coord24 = VR.lorentz_dot.k_xy_z_t_xy_eta_tau coord11 coord12 coord13 coord14 coord21 coord22 coord23 coord24 := by
  simp only [VS.lorentz_dot.k_xy_z_t_xy_eta_tau, VR.lorentz_dot.k_xy_z_t_xy_eta_tau, VS.lorentz_t.xy_z_t_eq, c08_lorentz_t_xy_eta_tau, VS.spatial_dot.xy_z_xy_eta_eq, h0, VR.P.nanToNum_eq]

theorem c08_lorentz_dot_k_xy_z_t_xy_theta_tau (coord11 coord12 coord13 coord14 coord21 coord22 coord23 coord24 : ℝ) (h0 : 0 ≤ coord24) :
    VS.lorentz_dot.k_xy_z_t_xy_theta_tau coord11 coord12 coord13 coord14 coord21 coord22 coord23 coord24 = VR.lorentz_dot.k_xy_z_t_xy_theta_tau coord11 coord12 coord13 coord14 coord21 coord22 coord23 coord24 := by
  simp only [VS.lorentz_dot.k_xy_z_t_xy_theta_tau, VR.lorentz_dot.k_xy_z_t_xy_theta_tau, VS.lorentz_t.xy_z_t_eq, c08_lorentz_t_xy_theta_tau, VS.spatial_dot.xy_z_xy_theta_eq, h0, VR.P.nanToNum_eq]

theorem c08_lorentz_dot_k_xy_z_t_xy_z_tau (coord11 coord12 coord13 coord14 coord21 coord22 coord23 coord24 : ℝ) (h0 : 0 ≤ coord24) :
    VS.lorentz_dot.k_xy_z_t_xy_z_tau coord11 coord12 coord13 coord14 coord21 coord22 coord23 coord24 = VR.lorentz_dot.k_xy_z_t_xy_z_tau coord11 coord12 coord13 coord14 coord21 coord22 coord23 coord24 := by
  simp only [VS.lorentz_dot.k_xy_z_t_xy_z_tau, VR.lorentz_dot.k_xy_z_t_xy_z_tau, VS.lorentz_t.xy_z_t_eq, c08_lorentz_t_xy_z_tau, VS.spatial_dot.xy_z_xy_z_eq, h0, VR.P.nanToNum_eq]

theorem c08_lorentz_dot_k_xy_z_tau_rhophi_eta_t (coord11 coord12 coord13 coord14 coord21 coord22 coord23 coord24 : ℝ) (h0 : 0 ≤ coord14) :
    VS.lorentz_dot.k_xy_z_tau_rhophi_eta_t coord11 coord12 coord13 coord14 coord21 coord22 coord23 coord24 = VR.lorentz_dot.k_xy_z_tau_rhophi_eta_t coord11 coord12 coord13 coord14 coord21 coord22 coord23 coord24 := by
  simp only [VS.lorentz_dot.k_xy_z_tau_rhophi_eta_t, VR.lorentz_dot.k_xy_z_tau_rhophi_eta_t, c08_lorentz_t_xy_z_tau, VS.lorentz_t.rhophi_eta_t_eq, VS.spatial_dot.xy_z_rhophi_eta_eq, h0, VR.P.nanToNum_eq]

theorem c08_lorentz_dot_k_xy_z_tau_rhophi_eta_tau (coord11 coord12 coord13 coord14 coord21 coord22 coord23 coord24 : ℝ) (h0 : 0 ≤ coord14) (h1 : 0 ≤ coord24) :
    VS.lorentz_dot.k_xy_z_tau_rhophi_eta_tau coord11 coord12 coord13 coord14 coord21 coord22 coord23 coord24 = VR.lorentz_dot.k_xy_z_tau_rhophi_eta_tau coord11 coord12 coord13 coord14 coord21 coord22 coord23 coord24 := by
  simp only [VS.lorentz_dot.k_xy_z_tau_rhophi_eta_tau, VR.lorentz_dot.k_xy_z_tau_rhophi_eta_tau, c08_lorentz_t_xy_z_tau, c08_lorentz_t_rhophi_eta_tau, VS.spatial_dot.xy_z_rhophi_eta_eq, h0, h1, VR.P.nanToNum_eq]

theorem c08_lorentz_dot_k_xy_z_tau_rhophi_theta_t (coord11 coord12 coord13 coord14 coord21 coord22 coord23 coord24 : ℝ) (h0 : 0 ≤ coord14) :
    VS.lorentz_dot.k_xy_z_tau_rhophi_theta_t coord11 coord12 coord13 coord14 coord21 coord22 coord23 coord24 = VR.lorentz_dot.k_xy_z_tau_rhophi_theta_t coord11 coord12 coord13 coord14 coord21 coord22 coord23 coord24 := by
  simp only [VS.lorentz_dot.k_xy_z_tau_rhophi_theta_t, VR.lorentz_dot.k_xy_z_tau_rhophi_theta_t, c08_lorentz_t_xy_z_tau, VS.lorentz_t.rhophi_theta_t_eq, VS.spatial_dot.xy_z_rhophi_theta_eq, h0, VR.P.nanToNum_eq]

theorem c08_lorentz_dot_k_xy_z_tau_rhophi_theta_tau (coord11 coord12 coord13 coord14 coord21 coord22 coord23 coord24 : ℝ) (h0 : 0 ≤ coord14) (h1 : 0 ≤ coord24) :
    VS.lorentz_dot.k_xy_z_tau_rhophi_theta_tau coord11 coord12 coord13 coord14 coord21 coord22 coord23 coord24 = VR.lorentz_dot.k_xy_z_tau_rhophi_theta_tau coord11 coord12 coord13 coord14 coord21 coord22 coord23 coord24 := by
  simp only [VS.lorentz_dot.k_xy_z_tau_rhophi_theta_tau, VR.lorentz_dot.k_xy_z_tau_rhophi_theta_tau, c08_lorentz_t_xy_z_tau, c08_lorentz_t_rhophi_theta_tau, VS.spatial_dot.xy_z_rhophi_theta_eq, h0, h1, VR.P.nanToNum_eq]

theorem c08_lorentz_dot_k_xy_z_tau_rhophi_z_t (coord11 coord12 coord13 coord14 coord21 coord22 coord23 coord24 : ℝ) (h0 : 0 ≤ coord14) :
    VS.lorentz_dot.k_xy_z_tau_rhophi_z_t coord11 coord12 coord13 coord14 coord21 coord22 coord23 coord24 = VR.lorentz_dot.k_xy_z_tau_rhophi_z_t coord11 coord12 coord13 coord14 coord21 coord22 coord23 coord24 := by
  simp only [VS.lorentz_dot.k_xy_z_tau_rhophi_z_t, VR.lorentz_dot.k_xy_z_tau_rhophi_z_t, c08_lorentz_t_xy_z_tau, VS.lorentz_t.rhophi_z_t_eq, VS.spatial_dot.xy_z_rhophi_z_eq, h0, VR.P.nanToNum_eq]

theorem c08_lorentz_dot_k_xy_z_tau_rhophi_z_tau (coord11 coord12 coord13 coord14 coord21 coord22 coord23 coord24 : ℝ) (h0 : 0 ≤ coord14) (h1 : 0 ≤ coord24) :
    VS.lorentz_dot.k_xy_z_tau_rhophi_z_tau coord11 coord12 coord13 coord14 coord21 coord22 coord23 coord24 = VR.lorentz_dot.k_xy_z_tau_rhophi_z_tau coord11 coord12 coord13 coord14 coord21 coord22 coord23 coord24 := by
  simp only [VS.lorentz_dot.k_xy_z_tau_rhophi_z_tau, VR.lorentz_dot.k_xy_z_tau_rhophi_z_tau, c08_lorentz_t_xy_z_tau, c08_lorentz_t_rhophi_z_tau, VS.spatial_dot.xy_z_rhophi_z_eq, h0, h1, VR.P.nanToNum_eq]

theorem c08_lorentz_dot_k_xy_z_tau_xy_eta_t (coord11 coord12 coord13 coord14 coord21 coord22 coord23 coord24 : ℝ) (h0 : 0 ≤ coord14) :
    VS.lorentz_dot.k_xy_z_tau_xy_eta_t coord11 coord12 coord13 coord14 coord21 coord22 coord23 coord24 = VR.lorentz_dot.k_xy_z_tau_xy_eta_t coord11 coord12 coord13 coord14 coord21 coord22 coord23 coord24 := by
  simp only [VS.lorentz_dot.k_xy_z_tau_xy_eta_t, VR.lorentz_dot.k_xy_z_tau_xy_eta_t, c08_lorentz_t_xy_z_tau, VS.lorentz_t.xy_eta_t_eq, VS.spatial_dot.xy_z_xy_eta_eq, h0, VR.P.nanToNum_eq]

theorem c08_lorentz_dot_k_xy_z_tau_xy_eta_tau (coord11 coord12 coord13 coord14 coord21 coord22 coord23 coord24 : ℝ) (h0 : 0 ≤ coord14) (h1 : 0 ≤ coord24) :
    VS.lorentz_dot.k_xy_z_tau_xy_eta_tau coord11 coord12 coord13 coord14 coord21 coord22 coord23 coord24 = VR.lorentz_dot.k_xy_z_tau_xy_eta_tau coord11 coord12 coord13 coord14 coord21 coord22 coord23 coord24 := by
  simp only [VS.lorentz_dot.k_xy_z_tau_xy_eta_tau, VR.lorentz_dot.k_xy_z_tau_xy_eta_tau, c08_lorentz_t_xy_z_tau, c08_lorentz_t_xy_eta_tau, VS.spatial_dot.xy_z_xy_eta_eq, h0, h1, VR.P.nanToNum_eq]

theorem c08_lorentz_dot_k_xy_z_tau_xy_theta_t (coord11 coord12 coord13 coord14 coord21 coord22 coord23 coord24 : ℝ) (h0 : 0 ≤ coord14) :
    VS.lorentz_dot.k_xy_z_tau_xy_theta_t coord11 coord12 coord13 coord14 coord21 coord22 coord23 coord24 = VR.lorentz_dot.k_xy_z_tau_xy_theta_t coord11 coord12 coord13 coord14 coord21 coord22 coord23 coord24 := by
  simp only [VS.lorentz_dot.k_xy_z_tau_xy_theta_t, VR.lorentz_dot.k_xy_z_tau_xy_theta_t, c08_lorentz_t_xy_z_tau, VS.lorentz_t.xy_theta_t_eq, VS.spatial_dot.xy_z_xy_theta_eq, h0, VR.P.nanToNum_eq]

theorem c08_lorentz_dot_k_xy_z_tau_xy_theta_tau (coord11 coord12 coord13 coord14 coord21 coord22 coord23 coord24 : ℝ) (h0 : 0 ≤ coord14) (h1 : 0 ≤ coord24) :
    VS.lorentz_dot.k_xy_z_tau_xy_theta_tau coord11 coord12 coord13 coord14 coord21 coord22 coord23 coord24 = VR.lorentz_dot.k_xy_z_tau_xy_theta_tau coord11 coord12 coord13 coord14 coord21 coord22 coord23 coord24 := by
  simp only [VS.lorentz_dot.k_xy_z_tau_xy_theta_tau, VR.lorentz_dot.k_xy_z_tau_xy_theta_tau, c08_lorentz_t_xy_z_tau, c08_lorentz_t_xy_theta_tau, VS.spatial_dot.xy_z_xy_theta_eq, h0, h1, VR.P.nanToNum_eq]

theorem c08_lorentz_dot_k_xy_z_tau_xy_z_t (coord11 coord12 coord13 coord14 coord21 coord22 coord23 coord24 : ℝ) (h0 : 0 ≤ coord14) :
    VS.lorentz_dot.k_xy_z_tau_xy_z_t coord11 coord12 coord13 coord14 coord21 coord22 coord23 coord24 = VR.lorentz_dot.k_xy_z_tau_xy_z_t coord11 coord12 coord13 coord14 coord21 coord22 coord23 coord24 := by
  simp only [VS.lorentz_dot.k_xy_z_tau_xy_z_t, VR.lorentz_dot.k_xy_z_tau_xy_z_t, c08_lorentz_t_xy_z_tau, VS.lorentz_t.xy_z_t_eq, VS.spatial_dot.xy_z_xy_z_eq, h0, VR.P.nanToNum_eq]

theorem c08_lorentz_dot_k_xy_z_tau_xy_z_tau (coord11 coord12 coord13 coord14 coord21 coord22 coord23 coord24 : ℝ) (h0 : 0 ≤ coord14) (h1 : 0 ≤ coord24) :
    VS.lorentz_dot.k_xy_z_tau_xy_z_tau coord11 coord12 coord13 coord14 coord21 coord22 coord23 coord24 = VR.lorentz_dot.k_xy_z_tau_xy_z_tau coord11 coord12 coord13 coord14 coord21 coord22 coord23 coord24 := by
  simp only [VS.lorentz_dot.k_xy_z_tau_xy_z_tau, VR.lorentz_dot.k_xy_z_tau_xy_z_tau, c08_lorentz_t_xy_z_tau, VS.spatial_dot.xy_z_xy_z_eq, h0, h1, VR.P.nanToNum_eq]


/-! ### `lorentz_equal` -/

theorem c08_lorentz_equal_k_rhophi_eta_t_rhophi_eta_tau (coord11 coord12 coord13 coord14 coord21 coord22 coord23 coord24 : ℝ) (h0 : 0 ≤ coord24) :
    VS.lorentz_equal.k_rhophi_eta_t_rhophi_eta_tau coord11 coord12 coord13 coord14 coord21 coord22 coord23 coord24 = VR.lorentz_equal.k_rhophi_eta_t_rhophi_eta_tau coord11 coord12 coord13 coord14 coord21 coord22 coord23 coord24 := by
  simp only [VS.lorentz_equal.k_rhophi_eta_t_rhophi_eta_tau, VR.lorentz_equal.k_rhophi_eta_t_rhophi_eta_tau, VS.lorentz_t.rhophi_eta_t_eq, c08_lorentz_t_rhophi_eta_tau, VS.spatial_equal.rhophi_eta_rhophi_eta_eq, h0, VR.P.nanToNum_eq]

theorem c08_lorentz_equal_k_rhophi_eta_t_rhophi_theta_tau (coord11 coord12 coord13 coord14 coord21 coord22 coord23 coord24 : ℝ) (h0 : 0 ≤ coord24) :
    VS.lorentz_equal.k_rhophi_eta_t_rhophi_theta_tau coord11 coord12 coord13 coord14 coord21 coord22 coord23 coord24 = VR.lorentz_equal.k_rhophi_eta_t_rhophi_theta_tau coord11 coord12 coord13 coord14 coord21 coord22 coord23 coord24 := by
  simp only [VS.lorentz_equal.k_rhophi_eta_t_rhophi_theta_tau, VR.lorentz_equal.k_rhophi_eta_t_rhophi_theta_tau, VS.lorentz_t.rhophi_eta_t_eq, c08_lorentz_t_rhophi_theta_tau, VS.spatial_equal.rhophi_eta_rhophi_theta_eq, h0, VR.P.nanToNum_eq]

theorem c08_lorentz_equal_k_rhophi_eta_t_rhophi_z_tau (coord11 coord12 coord13 coord14 coord21 coord22 coord23 coord24 : ℝ) (h0 : 0 ≤ coord24) :
    VS.lorentz_equal.k_rhophi_eta_t_rhophi_z_tau coord11 coord12 coord13 coord14 coord21 coord22 coord23 coord24 = VR.lorentz_equal.k_rhophi_eta_t_rhophi_z_tau coord11 coord12 coord13 coord14 coord21 coord22 coord23 coord24 := by
  simp only [VS.lorentz_equal.k_rhophi_eta_t_rhophi_z_tau, VR.lorentz_equal.k_rhophi_eta_t_rhophi_z_tau, VS.lorentz_t.rhophi_eta_t_eq, c08_lorentz_t_rhophi_z_tau, VS.spatial_equal.rhophi_eta_rhophi_z_eq, h0, VR.P.nanToNum_eq]

theorem c08_lorentz_equal_k_rhophi_eta_t_xy_eta_tau (coord11 coord12 coord13 coord14 coord21 coord22 coord23 coord24 : ℝ) (h0 : 0 ≤ coord24) :
    VS.lorentz_equal.k_rhophi_eta_t_xy_eta_tau coord11 coord12 coord13 coord14 coord21 coord22 coord23 coord24 = VR.lorentz_equal.k_rhophi_eta_t_xy_eta_tau coord11 coord12 coord13 coord14 coord21 coord22 coord23 coord24 := by
  simp only [VS.lorentz_equal.k_rhophi_eta_t_xy_eta_tau, VR.lorentz_equal.k_rhophi_eta_t_xy_eta_tau, VS.lorentz_t.rhophi_eta_t_eq, c08_lorentz_t_xy_eta_tau, VS.spatial_equal.rhophi_eta_xy_eta_eq, h0, VR.P.nanToNum_eq]

theorem c08_lorentz_equal_k_rhophi_eta_t_xy_theta_tau (coord11 coord12 coord13 coord14 coord21 coord22 coord23 coord24 : ℝ) (h0 : 0 ≤ coord24) :
    VS.lorentz_equal.k_rhophi_eta_t_xy_theta_tau coord11 coord12 coord13 coord14 coord21 coord22 coord23 coord24 = VR.lorentz_equal.k_rhophi_eta_t_xy_theta_tau coord11 coord12 coord13 coord14 coord21 coord22 coord23 coord24 := by
  simp only [VS.lorentz_equal.k_rhophi_eta_t_xy_theta_tau, VR.lorentz_equal.k_rhophi_eta_t_xy_theta_tau, VS.lorentz_t.rhophi_eta_t_eq, c08_lorentz_t_xy_theta_tau, VS.spatial_equal.rhophi_eta_xy_theta_eq, h0, VR.P.nanToNum_eq]

theorem c08_lorentz_equal_k_rhophi_eta_t_xy_z_tau (coord11 coord12 coord13 coord14 coord21 coord22 coord23 coord24 : ℝ) (h0 : 0 ≤ coord24) :
    VS.lorentz_equal.k_rhophi_eta_t_xy_z_tau coord11 coord12 coord13 coord14 coord21 coord22 coord23 coord24 = VR.lorentz_equal.k_rhophi_eta_t_xy_z_tau coord11 coord12 coord13 coord14 coord21 coord22 coord23 coord24 := by
  simp only [VS.lorentz_equal.k_rhophi_eta_t_xy_z_tau, VR.lorentz_equal.k_rhophi_eta_t_xy_z_tau, VS.lorentz_t.rhophi_eta_t_eq, c08_lorentz_t_xy_z_tau, VS.spatial_equal.rhophi_eta_xy_z_eq, h0, VR.P.nanToNum_eq]

theorem c08_lorentz_equal_k_rhophi_eta_tau_rhophi_eta_t (coord11 coord12 coord13 coord14 coord21 coord22 coord23 coord24 : ℝ) (h0 : 0 ≤ coord14) :
    VS.lorentz_equal.k_rhophi_eta_tau_rhophi_eta_t coord11 coord12 coord13 coord14 coord21 coord22 coord23 coord24 = VR.lorentz_equal.k_rhophi_eta_tau_rhophi_eta_t coord11 coord12 coord13 coord14 coord21 coord22 coord23 coord24 := by
  simp only [VS.lorentz_equal.k_rhophi_eta_tau_rhophi_eta_t, VR.lorentz_equal.k_rhophi_eta_tau_rhophi_eta_t, c08_lorentz_t_rhophi_eta_tau, VS.lorentz_t.rhophi_eta_t_eq, VS.spatial_equal.rhophi_eta_rhophi_eta_eq, h0, VR.P.nanToNum_eq]

theorem c08_lorentz_equal_k_rhophi_eta_tau_rhophi_theta_t (coord11 coord12 coord13 coord14 coord21 coord22 coord23 coord24 : ℝ) (h0 : 0 ≤ coord14) :
    VS.lorentz_equal.k_rhophi_eta_tau_rhophi_theta_t coord11 coord12 coord13 coord14 coord21 coord22 coord23 coord24 = VR.lorentz_equal.k_rhophi_eta_tau_rhophi_theta_t coord11 coord12 coord13 coord14 coord21 coord22 coord23 coord24 := by
  simp only [VS.lorentz_equal.k_rhophi_eta_tau_rhophi_theta_t, VR.lorentz_equal.k_rhophi_eta_tau_rhophi_theta_t, c08_lorentz_t_rhophi_eta_tau, VS.lorentz_t.rhophi_theta_t_eq, VS.spatial_equal.rhophi_eta_rhophi_theta_eq, h0, VR.P.nanToNum_eq]

theorem c08_lorentz_equal_k_rhophi_eta_tau_rhophi_z_t (coord11 coord12 coord13 coord14 coord21 coord22 coord23 coord24 : ℝ) (h0 : 0 ≤ coord14) :
    VS.lorentz_equal.k_rhophi_eta_tau_rhophi_z_t coord11 coord12 coord13 coord14 coord21 coord22 coord23 coord24 = VR.lorentz_equal.k_rhophi_eta_tau_rhophi_z_t coord11 coord12 coord13 coord14 coord21 coord22 coord23 coord24 := by
  simp only [VS.lorentz_equal.k_rhophi_eta_tau_rhophi_z_t, VR.lorentz_equal.k_rhophi_eta_tau_rhophi_z_t, c08_lorentz_t_rhophi_eta_tau, VS.lorentz_t.rhophi_z_t_eq, VS.spatial_equal.rhophi_eta_rhophi_z_eq, h0, VR.P.nanToNum_eq]

theorem c08_lorentz_equal_k_rhophi_eta_tau_xy_eta_t (coord11 coord12 coord13 coord14 coord21 coord22 coord23 coord24 : ℝ) (h0 : 0 ≤ coord14) :
    VS.lorentz_equal.k_rhophi_eta_tau_xy_eta_t coord11 coord12 coord13 coord14 coord21 coord22 coord23 coord24 = VR.lorentz_equal.k_rhophi_eta_tau_xy_eta_t coord11 coord12 coord13 coord14 coord21 coord22 coord23 coord24 := by
  simp only [VS.lorentz_equal.k_rhophi_eta_tau_xy_eta_t, VR.lorentz_equal.k_rhophi_eta_tau_xy_eta_t, c08_lorentz_t_rhophi_eta_tau, VS.lorentz_t.xy_eta_t_eq, VS.spatial_equal.rhophi_eta_xy_eta_eq, h0, VR.P.nanToNum_eq]

theorem c08_lorentz_equal_k_rhophi_eta_tau_xy_theta_t (coord11 coord12 coord13 coord14 coord21 coord22 coord23 coord24 : ℝ) (h0 : 0 ≤ coord14) :
    VS.lorentz_equal.k_rhophi_eta_tau_xy_theta_t coord11 coord12 coord13 coord14 coord21 coord22 coord23 coord24 = VR.lorentz_equal.k_rhophi_eta_tau_xy_theta_t coord11 coord12 coord13 coord14 coord21 coord22 coord23 coord24 := by
  simp only [VS.lorentz_equal.k_rhophi_eta_tau_xy_theta_t, VR.lorentz_equal.k_rhophi_eta_tau_xy_theta_t, c08_lorentz_t_rhophi_eta_tau, VS.lorentz_t.xy_theta_t_eq, VS.spatial_equal.rhophi_eta_xy_theta_eq, h0, VR.P.nanToNum_eq]

theorem c08_lorentz_equal_k_rhophi_eta_tau_xy_z_t (coord11 coord12 coord13 coord14 coord21 coord22 coord23 coord24 : ℝ) (h0 : 0 ≤ coord14) :
    VS.lorentz_equal.k_rhophi_eta_tau_xy_z_t coord11 coord12 coord13 coord14 coord21 coord22 coord23 coord24 = VR.lorentz_equal.k_rhophi_eta_tau_xy_z_t coord11 coord12 coord13 coord14 coord21 coord22 coord23 coord24 := by
  simp only [VS.lorentz_equal.k_rhophi_eta_tau_xy_z_t, VR.lorentz_equal.k_rhophi_eta_tau_xy_z_t, c08_lorentz_t_rhophi_eta_tau, VS.lorentz_t.xy_z_t_eq, VS.spatial_equal.rhophi_eta_xy_z_eq, h0, VR.P.nanToNum_eq]

theorem c08_lorentz_equal_k_rhophi_theta_t_rhophi_eta_tau (coord11 coord12 coord13 coord14 coord21 coord22 coord23 coord24 : ℝ) (h0 : 0 ≤ coord24) :
    VS.lorentz_equal.k_rhophi_theta_t_rhophi_eta_tau coord11 coord12 coord13 coord14 coord21 coord22 coord23 coord24 = VR.lorentz_equal.k_rhophi_theta_t_rhophi_eta_tau coord11 coord12 coord13 coord14 coord21 coord22 coord23 coord24 := by
  simp only [VS.lorentz_equal.k_rhophi_theta_t_rhophi_eta_tau, VR.lorentz_equal.k_rhophi_theta_t_rhophi_eta_tau, VS.lorentz_t.rhophi_theta_t_eq, c08_lorentz_t_rhophi_eta_tau, VS.spatial_equal.rhophi_theta_rhophi_eta_eq, h0, VR.P.nanToNum_eq]

theorem c08_lorentz_equal_k_rhophi_theta_t_rhophi_theta_tau (coord11 coord12 coord13 coord14 coord21 coord22 coord23 coord24 : ℝ) (h0 : 0 ≤ coord24) :
    VS.lorentz_equal.k_rhophi_theta_t_rhophi_theta_tau coord11 coord12 coord13 coord14 coord21 coord22 coord23 coord24 = VR.lorentz_equal.k_rhophi_theta_t_rhophi_theta_tau coord11 coord12 coord13 coord14 coord21 coord22 coord23 coord24 := by
  simp only [VS.lorentz_equal.k_rhophi_theta_t_rhophi_theta_tau, VR.lorentz_equal.k_rhophi_theta_t_rhophi_theta_tau, VS.lorentz_t.rhophi_theta_t_eq, c08_lorentz_t_rhophi_theta_tau, VS.spatial_equal.rhophi_theta_rhophi_theta_eq, h0, VR.P.nanToNum_eq]

theorem c08_lorentz_equal_k_rhophi_theta_t_rhophi_z_tau (coord11 coord12 coord13 coord14 coord21 coord22 coord23 coord24 : ℝ) (h0 : 0 ≤ coord24) :
    VS.lorentz_equal.k_rhophi_theta_t_rhophi_z_tau coord11 coord12 coord13 coord14 coord21 coord22 coord23 coord24 = VR.lorentz_equal.k_rhophi_theta_t_rhophi_z_tau coord11 coord12 coord13 coord14 coord21 coord22 coord23 coord24 := by
  simp only [VS.lorentz_equal.k_rhophi_theta_t_rhophi_z_tau, VR.lorentz_equal.k_rhophi_theta_t_rhophi_z_tau, VS.lorentz_t.rhophi_theta_t_eq, c08_lorentz_t_rhophi_z_tau, VS.spatial_equal.rhophi_theta_rhophi_z_eq, h0, VR.P.nanToNum_eq]

theorem c08_lorentz_equal_k_rhophi_theta_t_xy_eta_tau (coord11 coord12 coord13 coord14 coord21 coord22 coord23 coord24 : ℝ) (h0 : 0 ≤ coord24) :
    VS.lorentz_equal.k_rhophi_theta_t_xy_eta_tau coord11 coord12 coord13 coord14 coord21 coord22 coord23 coord24 = VR.lorentz_equal.k_rhophi_theta_t_xy_eta_tau coord11 coord12 coord13 coord14 coord21 coord22 coord23 coord24 := by
  simp only [VS.lorentz_equal.k_rhophi_theta_t_xy_eta_tau, VR.lorentz_equal.k_rhophi_theta_t_xy_eta_tau, VS.lorentz_t.rhophi_theta_t_eq, c08_lorentz_t_xy_eta_tau, VS.spatial_equal.rhophi_theta_xy_eta_eq, h0, VR.P.nanToNum_eq]

theorem c08_lorentz_equal_k_rhophi_theta_t_xy_theta_tau (coord11 coord12 coord13 coord14 coord21 coord22 coord23 coord24 : ℝ) (h0 : 0 ≤ coord24) :
    VS.lorentz_equal.k_rhophi_theta_t_xy_theta_tau coord11 coord12 coord13 coord14 coord21 coord22 coord23 coord24 = VR.lorentz_equal.k_rhophi_theta_t_xy_theta_tau coord11 coord12 coord13 coord14 coord21 coord22 coord23 coord24 := by
  simp only [VS.lorentz_equal.k_rhophi_theta_t_xy_theta_tau, VR.lorentz_equal.k_rhophi_theta_t_xy_theta_tau, VS.lorentz_t.rhophi_theta_t_eq, c08_lorentz_t_xy_theta_tau, VS.spatial_equal.rhophi_theta_xy_theta_eq, h0, VR.P.nanToNum_eq]

theorem c08_lorentz_equal_k_rhophi_theta_t_xy_z_tau (coord11 coord12 coord13 coord14 coord21 coord22 coord23 coord24 : ℝ) (h0 : 0 ≤ coord24) :
    VS.lorentz_equal.k_rhophi_theta_t_xy_z_tau coord11 coord12 coord13 coord14 coord21 coord22 coord23 coord24 = VR.lorentz_equal.k_rhophi_theta_t_xy_z_tau coord11 coord12 coord13 coord14 coord21 coord22 coord23 coord24 := by
  simp only [VS.lorentz_equal.k_rhophi_theta_t_xy_z_tau, VR.lorentz_equal.k_rhophi_theta_t_xy_z_tau, VS.lorentz_t.rhophi_theta_t_eq, c08_lorentz_t_xy_z_tau, VS.spatial_equal.rhophi_theta_xy_z_eq, h0, VR.P.nanToNum_eq]

theorem c08_lorentz_equal_k_rhophi_theta_tau_rhophi_eta_t (coord11 coord12 coord13 coord14 coord21 coord22 coord23 coord24 : ℝ) (h0 : 0 ≤ coord14) :
    VS.lorentz_equal.k_rhophi_theta_tau_rhophi_eta_t coord11 coord12 coord13 coord14 coord21 coord22 coord23 coord24 = VR.lorentz_equal.k_rhophi_theta_tau_rhophi_eta_t coord11 coord12 coord13 coord14 coord21 coord22 coord23 coord24 := by
  simp only [VS.lorentz_equal.k_rhophi_theta_tau_rhophi_eta_t, VR.lorentz_equal.k_rhophi_theta_tau_rhophi_eta_t, c08_lorentz_t_rhophi_theta_tau, VS.lorentz_t.rhophi_eta_t_eq, VS.spatial_equal.rhophi_theta_rhophi_eta_eq, h0, VR.P.nanToNum_eq]

theorem c08_lorentz_equal_k_rhophi_theta_tau_rhophi_theta_t (coord11 coord12 coord13 coord14 coord21 coord22 coord23 coord24 : ℝ) (h0 : 0 ≤ coord14) :
    VS.lorentz_equal.k_rhophi_theta_tau_rhophi_theta_t coord11 coord12 coord13 coord14 coord21 coord22 coord23 coord24 = VR.lorentz_equal.k_rhophi_theta_tau_rhophi_theta_t coord11 coord12 coord13 coord14 coord21 coord22 coord23 coord24 := by
  simp only [VS.lorentz_equal.k_rhophi_theta_tau_rhophi_theta_t, VR.lorentz_equal.k_rhophi_theta_tau_rhophi_theta_t, c08_lorentz_t_rhophi_theta_tau, VS.lorentz_t.rhophi_theta_t_eq, VS.spatial_equal.rhophi_theta_rhophi_theta_eq, h0, VR.P.nanToNum_eq]

theorem c08_lorentz_equal_k_rhophi_theta_tau_rhophi_z_t (coord11 coord12 coord13 coord14 coord21 coord22 coord23 coord24 : ℝ) (h0 : 0 ≤ coord14) :
    VS.lorentz_equal.k_rhophi_theta_tau_rhophi_z_t coord11 coord12 coord13 coord14 coord21 coord22 coord23 coord24 = VR.lorentz_equal.k_rhophi_theta_tau_rhophi_z_t coord11 coord12 coord13 coord14 coord21 coord22 coord23 coord24 := by
  simp only [VS.lorentz_equal.k_rhophi_theta_tau_rhophi_z_t, VR.lorentz_equal.k_rhophi_theta_tau_rhophi_z_t, c08_lorentz_t_rhophi_theta_tau, VS.lorentz_t.rhophi_z_t_eq, VS.spatial_equal.rhophi_theta_rhophi_z_eq, h0, VR.P.nanToNum_eq]

theorem c08_lorentz_equal_k_rhophi_theta_tau_xy_eta_t (coord11 coord12 coord13 coord14 coord21 coord22 coord23 coord24 : ℝ) (h0 : 0 ≤ coord14) :
    VS.lorentz_equal.k_rhophi_theta_tau_xy_eta_t coord11 coord12 coord13 coord14 coord21 coord22 coord23 coord24 = VR.lorentz_equal.k_rhophi_theta_tau_xy_eta_t coord11 coord12 coord13 coord14 coord21 coord22 coord23 coord24 := by
  simp only [VS.lorentz_equal.k_rhophi_theta_tau_xy_eta_t, VR.lorentz_equal.k_rhophi_theta_tau_xy_eta_t, c08_lorentz_t_rhophi_theta_tau, VS.lorentz_t.xy_eta_t_eq, VS.spatial_equal.rhophi_theta_xy_eta_eq, h0, VR.P.nanToNum_eq]

theorem c08_lorentz_equal_k_rhophi_theta_tau_xy_theta_t (coord11 coord12 coord13 coord14 coord21 coord22 coord23 coord24 : ℝ) (h0 : 0 ≤ coord14) :
    VS.lorentz_equal.k_rhophi_theta_tau_xy_theta_t coord11 coord12 coord13 coord14 coord21 coord22 coord23 coord24 = VR.lorentz_equal.k_rhophi_theta_tau_xy_theta_t coord11 coord12 coord13 coord14 coord21 coord22 coord23 coord24 := by
  simp only [VS.lorentz_equal.k_rhophi_theta_tau_xy_theta_t, VR.lorentz_equal.k_rhophi_theta_tau_xy_theta_t, c08_lorentz_t_rhophi_theta_tau, VS.lorentz_t.xy_theta_t_eq, VS.spatial_equal.rhophi_theta_xy_theta_eq, h0, VR.P.nanToNum_eq]

theorem c08_lorentz_equal_k_rhophi_theta_tau_xy_z_t (coord11 coord12 coord13 coord14 coord21 coord22 coord23 coord24 : ℝ) (h0 : 0 ≤ coord14) :
    VS.lorentz_equal.k_rhophi_theta_tau_xy_z_t coord11 coord12 coord13 coord14 coord21 coord22 coord23 coord24 = VR.lorentz_equal.k_rhophi_theta_tau_xy_z_t coord11 coord12 coord13 coord14 coord21 coord22 coord23 coord24 := by
  simp only [VS.lorentz_equal.k_rhophi_theta_tau_xy_z_t, VR.lorentz_equal.k_rhophi_theta_tau_xy_z_t, c08_lorentz_t_rhophi_theta_tau, VS.lorentz_t.xy_z_t_eq, VS.spatial_equal.rhophi_theta_xy_z_eq, h0, VR.P.nanToNum_eq]

theorem c08_lorentz_equal_k_rhophi_z_t_rhophi_eta_tau (coord11 coord12 coord13 coord14 coord21 coord22 coord23 coord24 : ℝ) (h0 : 0 ≤ coord24) :
    VS.lorentz_equal.k_rhophi_z_t_rhophi_eta_tau coord11 coord12 coord13 coord14 coord21 coord22 coord23 coord24 = VR.lorentz_equal.k_rhophi_z_t_rhophi_eta_tau coord11 coord12 coord13 coord14 coord21 coord22 coord23 coord24 := by
  simp only [VS.lorentz_equal.k_rhophi_z_t_rhophi_eta_tau, VR.lorentz_equal.k_rhophi_z_t_rhophi_eta_tau, VS.lorentz_t.rhophi_z_t_eq, c08_lorentz_t_rhophi_eta_tau, VS.spatial_equal.rhophi_z_rhophi_eta_eq, h0, VR.P.nanToNum_eq]

theorem c08_lorentz_equal_k_rhophi_z_t_rhophi_theta_tau (coord11 coord12 coord13 coord14 coord21 coord22 coord23 coord24 : ℝ) (h0 : 0 ≤ coord24) :
    VS.lorentz_equal.k_rhophi_z_t_rhophi_theta_tau coord11 coord12 coord13 coord14 coord21 coord22 coord23 coord24 = VR.lorentz_equal.k_rhophi_z_t_rhophi_theta_tau coord11 coord12 coord13 coord14 coord21 coord22 coord23 coord24 := by
  simp only [VS.lorentz_equal.k_rhophi_z_t_rhophi_theta_tau, VR.lorentz_equal.k_rhophi_z_t_rhophi_theta_tau, VS.lorentz_t.rhophi_z_t_eq, c08_lorentz_t_rhophi_theta_tau, VS.spatial_equal.rhophi_z_rhophi_theta_eq, h0, VR.P.nanToNum_eq]

theorem c08_lorentz_equal_k_rhophi_z_t_rhophi_z_tau (coord11 coord12 coord13 coord14 coord21 coord22 coord23 coord24 : ℝ) (h0 : 0 ≤ coord24) :
    VS.lorentz_equal.k_rhophi_z_t_rhophi_z_tau coord11 coord12 coord13 coord14 coord21 coord22 coord23 coord24 = VR.lorentz_equal.k_rhophi_z_t_rhophi_z_tau coord11 coord12 coord13 coord14 coord21 coord22 coord23 coord24 := by
  simp only [VS.lorentz_equal.k_rhophi_z_t_rhophi_z_tau, VR.lorentz_equal.k_rhophi_z_t_rhophi_z_tau, VS.lorentz_t.rhophi_z_t_eq, c08_lorentz_t_rhophi_z_tau, VS.spatial_equal.rhophi_z_rhophi_z_eq, h0, VR.P.nanToNum_eq]

theorem c08_lorentz_equal_k_rhophi_z_t_xy_eta_tau (coord11 coord12 coord13 coord14 coord21 coord22 coord23 coord24 : ℝ) (h0 : 0 ≤ coord24) :
    VS.lorentz_equal.k_rhophi_z_t_xy_eta_tau coord11 coord12 coord13 coord14 coord21 coord22 coord23 coord24 = VR.lorentz_equal.k_rhophi_z_t_xy_eta_tau coord11 coord12 coord13 coord14 coord21 coord22 coord23 coord24 := by
  simp only [VS.lorentz_equal.k_rhophi_z_t_xy_eta_tau, VR.lorentz_equal.k_rhophi_z_t_xy_eta_tau, VS.lorentz_t.rhophi_z_t_eq, c08_lorentz_t_xy_eta_tau, VS.spatial_equal.rhophi_z_xy_eta_eq, h0, VR.P.nanToNum_eq]

theorem c08_lorentz_equal_k_rhophi_z_t_xy_theta_tau (coord11 coord12 coord13 coord14 coord21 coord22 coord23 coord24 : ℝ) (h0 : 0 ≤ coord24) :
    VS.lorentz_equal.k_rhophi_z_t_xy_theta_tau coord11 coord12 coord13 coord14 coord21 coord22 coord23 coord24 = VR.lorentz_equal.k_rhophi_z_t_xy_theta_tau coord11 coord12 coord13 coord14 coord21 coord22 coord23 coord24 := by
  simp only [VS.lorentz_equal.k_rhophi_z_t_xy_theta_tau, VR.lorentz_equal.k_rhophi_z_t_xy_theta_tau, VS.lorentz_t.rhophi_z_t_eq, c08_lorentz_t_xy_theta_tau, VS.spatial_equal.rhophi_z_xy_theta_eq, h0, VR.P.nanToNum_eq]

theorem c08_lorentz_equal_k_rhophi_z_t_xy_z_tau (coord11 coord12 coord13 coord14 coord21 coord22 coord23 coord24 : ℝ) (h0 : 0 ≤ coord24) :
    VS.lorentz_equal.k_rhophi_z_t_xy_z_tau coord11 coord12 coord13 coord14 coord21 coord22 coord23 coord24 = VR.lorentz_equal.k_rhophi_z_t_xy_z_tau coord11 coord12 coord13 coord14 coord21 coord22 coord23 coord24 := by
  simp only [VS.lorentz_equal.k_rhophi_z_t_xy_z_tau, VR.lorentz_equal.k_rhophi_z_t_xy_z_tau, VS.lorentz_t.rhophi_z_t_eq, c08_lorentz_t_xy_z_tau, VS.spatial_equal.rhophi_z_xy_z_eq, h0, VR.P.nanToNum_eq]

theorem c08_lorentz_equal_k_rhophi_z_tau_rhophi_eta_t (coord11 coord12 coord13 coord14 coord21 coord22 coord23 coord24 : ℝ) (h0 : 0 ≤ coord14) :
    VS.lorentz_equal.k_rhophi_z_tau_rhophi_eta_t coord11 coord12 coord13 coord14 coord21 coord22 coord23 coord24 = VR.lorentz_equal.k_rhophi_z_tau_rhophi_eta_t coord11 coord12 coord13 coord14 coord21 coord22 coord23 coord24 := by
  simp only [VS.lorentz_equal.k_rhophi_z_tau_rhophi_eta_t, VR.lorentz_equal.k_rhophi_z_tau_rhophi_eta_t, c08_lorentz_t_rhophi_z_tau, VS.lorentz_t.rhophi_eta_t_eq, VS.spatial_equal.rhophi_z_rhophi_eta_eq, h0, VR.P.nanToNum_eq]

theorem c08_lorentz_equal_k_rhophi_z_tau_rhophi_theta_t (coord11 coord12 coord13 coord14 coord21 coord22 coord23 coord24 : ℝ) (h0 : 0 ≤ coord14) :
    VS.lorentz_equal.k_rhophi_z_tau_rhophi_theta_t coord11 coord12 coord13 coord14 coord21 coord22 coord23 coord24 = VR.lorentz_equal.k_rhophi_z_tau_rhophi_theta_t coord11 coord12 coord13 coord14 coord21 coord22 coord23 coord24 := by
  simp only [VS.lorentz_equal.k_rhophi_z_tau_rhophi_theta_t, VR.lorentz_equal.k_rhophi_z_tau_rhophi_theta_t, c08_lorentz_t_rhophi_z_tau, VS.lorentz_t.rhophi_theta_t_eq, VS.spatial_equal.rhophi_z_rhophi_theta_eq, h0, VR.P.nanToNum_eq]

theorem c08_lorentz_equal_k_rhophi_z_tau_rhophi_z_t (coord11 coord12 coord13 coord14 coord21 coord22 coord23 coord24 : ℝ) (h0 : 0 ≤ coord14) :
    VS.lorentz_equal.k_rhophi_z_tau_rhophi_z_t coord11 coord12 coord13 coord14 coord21 coord22 coord23 coord24 = VR.lorentz_equal.k_rhophi_z_tau_rhophi_z_t coord11 coord12 coord13 coord14 coord21 coord22 coord23 coord24 := by
  simp only [VS.lorentz_equal.k_rhophi_z_tau_rhophi_z_t, VR.lorentz_equal.k_rhophi_z_tau_rhophi_z_t, c08_lorentz_t_rhophi_z_tau, VS.lorentz_t.rhophi_z_t_eq, VS.spatial_equal.rhophi_z_rhophi_z_eq, h0, VR.P.nanToNum_eq]

theorem c08_lorentz_equal_k_rhophi_z_tau_xy_eta_t (coord11 coord12 coord13 coord14 coord21 coord22 coord23 coord24 : ℝ) (h0 : 0 ≤ coord14) :
    VS.lorentz_equal.k_rhophi_z_tau_xy_eta_t coord11 coord12 coord13 coord14 coord21 coord22 coord23 coord24 = VR.lorentz_equal.k_rhophi_z_tau_xy_eta_t coord11 coord12 coord13 coord14 coord21 coord22 coord23 coord24 := by
  simp only [VS.lorentz_equal.k_rhophi_z_tau_xy_eta_t, VR.lorentz_equal.k_rhophi_z_tau_xy_eta_t, c08_lorentz_t_rhophi_z_tau, VS.lorentz_t.xy_eta_t_eq, VS.spatial_equal.rhophi_z_xy_eta_eq, h0, VR.P.nanToNum_eq]

theorem c08_lorentz_equal_k_rhophi_z_tau_xy_theta_t (coord11 coord12 coord13 coord14 coord21 coord22 coord23 coord24 : ℝ) (h0 : 0 ≤ coord14) :
    VS.lorentz_equal.k_rhophi_z_tau_xy_theta_t coord11 coord12 coord13 coord14 coord21 coord22 coord23 coord24 = VR.lorentz_equal.k_rhophi_z_tau_xy_theta_t coord11 coord12 coord13 coord14 coord21 coord22 coord23 coord24 := by
  simp only [VS.lorentz_equal.k_rhophi_z_tau_xy_theta_t, VR.lorentz_equal.k_rhophi_z_tau_xy_theta_t, c08_lorentz_t_rhophi_z_tau, VS.lorentz_t.xy_theta_t_eq, VS.spatial_equal.rhophi_z_xy_theta_eq, h0, VR.P.nanToNum_eq]

theorem c08_lorentz_equal_k_rhophi_z_tau_xy_z_t (coord11 coord12 coord13 coord14 coord21 coord22 coord23 coord24 : ℝ) (h0 : 0 ≤ coord14) :
    VS.lorentz_equal.k_rhophi_z_tau_xy_z_t coord11 coord12 coord13 coord14 coord21 coord22 coord23 coord24 = VR.lorentz_equal.k_rhophi_z_tau_xy_z_t coord11 coord12 coord13 coord14 coord21 coord22 coord23 coord24 := by
  simp only [VS.lorentz_equal.k_rhophi_z_tau_xy_z_t, VR.lorentz_equal.k_rhophi_z_tau_xy_z_t, c08_lorentz_t_rhophi_z_tau, VS.lorentz_t.xy_z_t_eq, VS.spatial_equal.rhophi_z_xy_z_eq, h0, VR.P.nanToNum_eq]

theorem c08_lorentz_equal_k_xy_eta_t_rhophi_eta_tau (coord11 coord12 coord13 coord14 coord21 coord22 coord23 coord24 : ℝ) (h0 : 0 ≤ coord24) :
    VS.lorentz_equal.k_xy_eta_t_rhophi_eta_tau coord11 coord12 coord13 coord14 coord21 coord22 coord23 coord24 = VR.lorentz_equal.k_xy_eta_t_rhophi_eta_tau coord11 coord12 coord13 coord14 coord21 coord22 coord23 coord24 := by
  simp only [VS.lorentz_equal.k_xy_eta_t_rhophi_eta_tau, VR.lorentz_equal.k_xy_eta_t_rhophi_eta_tau, VS.lorentz_t.xy_eta_t_eq, c08_lorentz_t_rhophi_eta_tau, VS.spatial_equal.xy_eta_rhophi_eta_eq, h0, VR.P.nanToNum_eq]

theorem c08_lorentz_equal_k_xy_eta_t_rhophi_theta_tau (coord11 coord12 coord13 coord14 coord21 coord22 coord23 coord24 : ℝ) (h0 : 0 ≤ coord24) :
    VS.lorentz_equal.k_xy_eta_t_rhophi_theta_tau coord11 coord12 coord13 coord14 coord21 coord22 coord23 coord24 = VR.lorentz_equal.k_xy_eta_t_rhophi_theta_tau coord11 coord12 coord13 coord14 coord21 coord22 coord23 coord24 := by
  simp only [VS.lorentz_equal.k_xy_eta_t_rhophi_theta_tau, VR.lorentz_equal.k_xy_eta_t_rhophi_theta_tau, VS.lorentz_t.xy_eta_t_eq, c08_lorentz_t_rhophi_theta_tau, VS.spatial_equal.xy_eta_rhophi_theta_eq, h0, VR.P.nanToNum_eq]

theorem c08_lorentz_equal_k_xy_eta_t_rhophi_z_tau (coord11 coord12 coord13 coord14 coord21 coord22 coord23 coord24 : ℝ) (h0 : 0 ≤ coord24) :
    VS.lorentz_equal.k_xy_eta_t_rhophi_z_tau coord11 coord12 coord13 coord14 coord21 coord22 coord23 coord24 = VR.lorentz_equal.k_xy_eta_t_rhophi_z_tau coord11 coord12 coord13 coord14 coord21 coord22 coord23 coord24 := by
  simp only [VS.lorentz_equal.k_xy_eta_t_rhophi_z_tau, VR.lorentz_equal.k_xy_eta_t_rhophi_z_tau, VS.lorentz_t.xy_eta_t_eq, c08_lorentz_t_rhophi_z_tau, VS.spatial_equal.xy_eta_rhophi_z_eq, h0, VR.P.nanToNum_eq]

theorem c08_lorentz_equal_k_xy_eta_t_xy_eta_tau (coord11 coord12 coord13 coord14 coord21 coord22 coord23 coord24 : ℝ) (h0 : 0 ≤ coord24) :
    VS.lorentz_equal.k_xy_eta_t_xy_eta_tau coord11 coord12 coord13 coord14 coord21 coord22 coord23 coord24 = VR.lorentz_equal.k_xy_eta_t_xy_eta_tau coord11 coord12 coord13 coord14 coord21 coord22 coord23 coord24 := by
  simp only [VS.lorentz_equal.k_xy_eta_t_xy_eta_tau, VR.lorentz_equal.k_xy_eta_t_xy_eta_tau, VS.lorentz_t.xy_eta_t_eq, c08_lorentz_t_xy_eta_tau, VS.spatial_equal.xy_eta_xy_eta_eq, h0, VR.P.nanToNum_eq]

theorem c08_lorentz_equal_k_xy_eta_t_xy_theta_tau (coord11 coord12 coord13 coord14 coord21 coord22 coord23 coord24 : ℝ) (h0 : 0 ≤ coord24) :
    VS.lorentz_equal.k_xy_eta_t_xy_theta_tau coord11 coord12 coord13 coord14 coord21 coord22 coord23 coord24 = VR.lorentz_equal.k_xy_eta_t_xy_theta_tau coord11 coord12 coord13 coord14 coord21 coord22 coord23 coord24 := by
  simp only [VS.lorentz_equal.k_xy_eta_t_xy_theta_tau, VR.lorentz_equal.k_xy_eta_t_xy_theta_tau, VS.lorentz_t.xy_eta_t_eq, c08_lorentz_t_xy_theta_tau, VS.spatial_equal.xy_eta_xy_theta_eq, h0, VR.P.nanToNum_eq]

theorem c08_lorentz_equal_k_xy_eta_t_xy_z_tau (coord11 coord12 coord13 coord14 coord21 coord22 coord23 coord24 : ℝ) (h0 : 0 ≤ coord24) :
    VS.lorentz_equal.k_xy_eta_t_xy_z_tau coord11 coord12 coord13 coord14 coord21 coord22 coord23 coord24 = VR.lorentz_equal.k_xy_eta_t_xy_z_tau coord11 coord12 coord13 coord14 coord21 coord22 coord23 coord24 := by
  simp only [VS.lorentz_equal.k_xy_eta_t_xy_z_tau, VR.lorentz_equal.k_xy_eta_t_xy_z_tau, VS.lorentz_t.xy_eta_t_eq, c08_lorentz_t_xy_z_tau, VS.spatial_equal.xy_eta_xy_z_eq, h0, VR.P.nanToNum_eq]

theorem c08_lorentz_equal_k_xy_eta_tau_rhophi_eta_t (coord11 coord12 coord13 coord14 coord21 coord22 coord23 coord24 : ℝ) (h0 : 0 ≤ coord14) :
    VS.lorentz_equal.k_xy_eta_tau_rhophi_eta_t coord11 coord12 coord13 coord14 coord21 coord22 coord23 coord24 = VR.lorentz_equal.k_xy_eta_tau_rhophi_eta_t coord11 coord12 coord13 coord14 coord21 coord22 coord23 coord24 := by
  simp only [VS.lorentz_equal.k_xy_eta_tau_rhophi_eta_t, VR.lorentz_equal.k_xy_eta_tau_rhophi_eta_t, c08_lorentz_t_xy_eta_tau, VS.lorentz_t.rhophi_eta_t_eq, VS.spatial_equal.xy_eta_rhophi_eta_eq, h0, VR.P.nanToNum_eq]

theorem c08_lorentz_equal_k_xy_eta_tau_rhophi_theta_t (coord11 coord12 coord13 coord14 coord21 coord22 coord23 coord24 : ℝ) (h0 : 0 ≤ coord14) :
    VS.lorentz_equal.k_xy_eta_tau_rhophi_theta_t coord11 coord12 coord13 coord14 coord21 coord22 coord23 coord24 = VR.lorentz_equal.k_xy_eta_tau_rhophi_theta_t coord11 coord12 coord13 coord14 coord21 coord22 coord23 coord24 := by
  simp only [VS.lorentz_equal.k_xy_eta_tau_rhophi_theta_t, VR.lorentz_equal.k_xy_eta_tau_rhophi_theta_t, c08_lorentz_t_xy_eta_tau, VS.lorentz_t.rhophi_theta_t_eq, VS.spatial_equal.xy_eta_rhophi_theta_eq, h0, VR.P.nanToNum_eq]

theorem c08_lorentz_equal_k_xy_eta_tau_rhophi_z_t (coord11 coord12 coord13 coord14 coord21 coord22 coord23 coord24 : ℝ) (h0 : 0 ≤ coord14) :
    VS.lorentz_equal.k_xy_eta_tau_rhophi_z_t coord11 coord12 coord13 coord14 coord21 coord22 coord23 coord24 = VR.lorentz_equal.k_xy_eta_tau_rhophi_z_t coord11 coord12 coord13 coord14 coord21 coord22 coord23 coord24 := by
  simp only [VS.lorentz_equal.k_xy_eta_tau_rhophi_z_t, VR.lorentz_equal.k_xy_eta_tau_rhophi_z_t, c08_lorentz_t_xy_eta_tau, VS.lorentz_t.rhophi_z_t_eq, VS.spatial_equal.xy_eta_rhophi_z_eq, h0, VR.P.nanToNum_eq]

theorem c08_lorentz_equal_k_xy_eta_tau_xy_eta_t (coord11 coord12 coord13 coord14 coord21 coord22 coord23 coord24 : ℝ) (h0 : 0 ≤ coord14) :
    VS.lorentz_equal.k_xy_eta_tau_xy_eta_t coord11 coord12 coord13 coord14 coord21 coord22 coord23 coord24 = VR.lorentz_equal.k_xy_eta_tau_xy_eta_t coord11 coord12 coord13 coord14 coord21 coord22 coord23 coord24 := by
  simp only [VS.lorentz_equal.k_xy_eta_tau_xy_eta_t, VR.lorentz_equal.k_xy_eta_tau_xy_eta_t, c08_lorentz_t_xy_eta_tau, VS.lorentz_t.xy_eta_t_eq, VS.spatial_equal.xy_eta_xy_eta_eq, h0, VR.P.nanToNum_eq]

theorem c08_lorentz_equal_k_xy_eta_tau_xy_theta_t (coord11 coord12 coord13 coord14 coord21 coord22 coord23 coord24 : ℝ) (h0 : 0 ≤ coord14) :
    VS.lorentz_equal.k_xy_eta_tau_xy_theta_t coord11 coord12 coord13 coord14 coord21 coord22 coord23 coord24 = VR.lorentz_equal.k_xy_eta_tau_xy_theta_t coord11 coord12 coord13 coord14 coord21 coord22 coord23 coord24 := by
  simp only [VS.lorentz_equal.k_xy_eta_tau_xy_theta_t, VR.lorentz_equal.k_xy_eta_tau_xy_theta_t, c08_lorentz_t_xy_eta_tau, VS.lorentz_t.xy_theta_t_eq, VS.spatial_equal.xy_eta_xy_theta_eq, h0, VR.P.nanToNum_eq]

theorem c08_lorentz_equal_k_xy_eta_tau_xy_z_t (coord11 coord12 coord13 coord14 coord21 coord22 coord23 coord24 : ℝ) (h0 : 0 ≤ coord14) :
    VS.lorentz_equal.k_xy_eta_tau_xy_z_t coord11 coord12 coord13 coord14 coord21 coord22 coord23 coord24 = VR.lorentz_equal.k_xy_eta_tau_xy_z_t coord11 coord12 coord13 coord14 coord21 coord22 coord23 coord24 := by
  simp only [VS.lorentz_equal.k_xy_eta_tau_xy_z_t, VR.lorentz_equal.k_xy_eta_tau_xy_z_t, c08_lorentz_t_xy_eta_tau, VS.lorentz_t.xy_z_t_eq, VS.spatial_equal.xy_eta_xy_z_eq, h0, VR.P.nanToNum_eq]

theorem c08_lorentz_equal_k_xy_theta_t_rhophi_eta_tau (coord11 coord12 coord13 coord14 coord21 coord22 coord23 coord24 : ℝ) (h0 : 0 ≤ coord24) :
    VS.lorentz_equal.k_xy_theta_t_rhophi_eta_tau coord11 coord12 coord13 coord14 coord21 coord22 coord23 coord24 = VR.lorentz_equal.k_xy_theta_t_rhophi_eta_tau coord11 coord12 coord13 coord14 coord21 coord22 coord23 coord24 := by
  simp only [VS.lorentz_equal.k_xy_theta_t_rhophi_eta_tau, VR.lorentz_equal.k_xy_theta_t_rhophi_eta_tau, VS.lorentz_t.xy_theta_t_eq, c08_lorentz_t_rhophi_eta_tau, VS.spatial_equal.xy_theta_rhophi_eta_eq, h0, VR.P.nanToNum_eq]

theorem c08_lorentz_equal_k_xy_theta_t_rhophi_theta_tau (coord11 coord12 coord13 coord14 coord21 coord22 coord23 coord24 : ℝ) (h0 : 0 ≤ coord24) :
    VS.lorentz_equal.k_xy_theta_t_rhophi_theta_tau coord11 coord12 coord13 coord14 coord21 coord22 coord23 coord24 = VR.lorentz_equal.k_xy_theta_t_rhophi_theta_tau coord11 coord12 coord13 coord14 coord21 coord22 coord23 coord24 := by
  simp only [VS.lorentz_equal.k_xy_theta_t_rhophi_theta_tau, VR.lorentz_equal.k_xy_theta_t_rhophi_theta_tau, VS.lorentz_t.xy_theta_t_eq, c08_lorentz_t_rhophi_theta_tau, VS.spatial_equal.xy_theta_rhophi_theta_eq, h0, VR.P.nanToNum_eq]

theorem c08_lorentz_equal_k_xy_theta_t_rhophi_z_tau (coord11 coord12 coord13 coord14 coord21 coord22 coord23 coord24 : ℝ) (h0 : 0 ≤ coord24) :
    VS.lorentz_equal.k_xy_theta_t_rhophi_z_tau coord11 coord12 coord13 coord14 coord21 coord22 coord23 coord24 = VR.lorentz_equal.k_xy_theta_t_rhophi_z_tau coord11 coord12 coord13 coord14 coord21 coord22 coord23 coord24 := by
  simp only [VS.lorentz_equal.k_xy_theta_t_rhophi_z_tau, VR.lorentz_equal.k_xy_theta_t_rhophi_z_tau, VS.lorentz_t.xy_theta_t_eq, c08_lorentz_t_rhophi_z_tau, VS.spatial_equal.xy_theta_rhophi_z_eq, h0, VR.P.nanToNum_eq]

theorem c08_lorentz_equal_k_xy_theta_t_xy_eta_tau (coord11 coord12 coord13 coord14 coord21 coord22 coord23 coord24 : ℝ) (h0 : 0 ≤ coord24) :
    VS.lorentz_equal.k_xy_theta_t_xy_eta_tau coord11 coord12 coord13 coord14 coord21 coord22 coord23 coord24 = VR.lorentz_equal.k_xy_theta_t_xy_eta_tau coord11 coord12 coord13 coord14 coord21 coord22 coord23 coord24 := by
  simp only [VS.lorentz_equal.k_xy_theta_t_xy_eta_tau, VR.lorentz_equal.k_xy_theta_t_xy_eta_tau, VS.lorentz_t.xy_theta_t_eq, c08_lorentz_t_xy_eta_tau, VS.spatial_equal.xy_theta_xy_eta_eq, h0, VR.P.nanToNum_eq]

theorem c08_lorentz_equal_k_xy_theta_t_xy_theta_tau (coord11 coord12 coord13 coord14 coord21 coord22 coord23 coord24 : ℝ) (h0 : 0 ≤ coord24) :
    VS.lorentz_equal.k_xy_theta_t_xy_theta_tau coord11 coord12 coord13 coord14 coord21 coord22 coord23 coord24 = VR.lorentz_equal.k_xy_theta_t_xy_theta_tau coord11 coord12 coord13 coord14 coord21 coord22 coord23 coord24 := by
  simp only [VS.lorentz_equal.k_xy_theta_t_xy_theta_tau, VR.lorentz_equal.k_xy_theta_t_xy_theta_tau, VS.lorentz_t.xy_theta_t_eq, c08_lorentz_t_xy_theta_tau, VS.spatial_equal.xy_theta_xy_theta_eq, h0, VR.P.nanToNum_eq]

theorem c08_lorentz_equal_k_xy_theta_t_xy_z_tau (coord11 coord12 coord13 coord14 coord21 coord22 coord23 coord24 : ℝ) (h0 : 0 ≤ coord24) :
    VS.lorentz_equal.k_xy_theta_t_xy_z_tau coord11 coord12 coord13 coord14 coord21 coord22 coord23 coord24 = VR.lorentz_equal.k_xy_theta_t_xy_z_tau coord11 coord12 coord13 coord14 coord21 coord22 coord23 coord24 := by
  simp only [VS.lorentz_equal.k_xy_theta_t_xy_z_tau, VR.lorentz_equal.k_xy_theta_t_xy_z_tau, VS.lorentz_t.xy_theta_t_eq, c08_lorentz_t_xy_z_tau, VS.spatial_equal.xy_theta_xy_z_eq, h0, VR.P.nanToNum_eq]

theorem c08_lorentz_equal_k_xy_theta_tau_rhophi_eta_t (coord11 coord12 coord13 coord14 coord21 coord22 coord23 coord24 : ℝ) (h0 : 0 ≤ coord14) :
    VS.lorentz_equal.k_xy_theta_tau_rhophi_eta_t coord11 coord12 coord13 coord14 coord21 coord22 coord23 coord24 = VR.lorentz_equal.k_xy_theta_tau_rhophi_eta_t coord11 coord12 coord13 coord14 coord21 coord22 coord23 coord24 := by
  simp only [VS.lorentz_equal.k_xy_theta_tau_rhophi_eta_t, VR.lorentz_equal.k_xy_theta_tau_rhophi_eta_t, c08_lorentz_t_xy_theta_tau, VS.lorentz_t.rhophi_eta_t_eq, VS.spatial_equal.xy_theta_rhophi_eta_eq, h0, VR.P.nanToNum_eq]

theorem c08_lorentz_equal_k_xy_theta_tau_rhophi_theta_t (coord11 coord12 coord13 coord14 coord21 coord22 coord23 coord24 : ℝ) (h0 : 0 ≤ coord14) :
    VS.lorentz_equal.k_xy_theta_tau_rhophi_theta_t coord11 coord12 coord13 coord14 coord21 coord22 coord23 coord24 = VR.lorentz_equal.k_xy_theta_tau_rhophi_theta_t coord11 coord12 coord13 coord14 coord21 coord22 coord23 coord24 := by
  simp only [VS.lorentz_equal.k_xy_theta_tau_rhophi_theta_t, VR.lorentz_equal.k_xy_theta_tau_rhophi_theta_t, c08_lorentz_t_xy_theta_tau, VS.lorentz_t.rhophi_theta_t_eq, VS.spatial_equal.xy_theta_rhophi_theta_eq, h0, VR.P.nanToNum_eq]

theorem c08_lorentz_equal_k_xy_theta_tau_rhophi_z_t (coord11 coord12 coord13 coord14 coord21 coord22 coord23 coord24 : ℝ) (h0 : 0 ≤ coord14) :
    VS.lorentz_equal.k_xy_theta_tau_rhophi_z_t coord11 coord12 coord13 coord14 coord21 coord22 coord23 coord24 = VR.lorentz_equal.k_xy_theta_tau_rhophi_z_t coord11 coord12 coord13 coord14 coord21 coord22 coord23 coord24 := by
  simp only [VS.lorentz_equal.k_xy_theta_tau_rhophi_z_t, VR.lorentz_equal.k_xy_theta_tau_rhophi_z_t, c08_lorentz_t_xy_theta_tau, VS.lorentz_t.rhophi_z_t_eq, VS.spatial_equal.xy_theta_rhophi_z_eq, h0, VR.P.nanToNum_eq]

theorem c08_lorentz_equal_k_xy_theta_tau_xy_eta_t (coord11 coord12 coord13 coord14 coord21 coord22 coord23 coord24 : ℝ) (h0 : 0 ≤ coord14) :
    VS.lorentz_equal.k_xy_theta_tau_xy_eta_t coord11 coord12 coord13 coord14 coord21 coord22 coord23 coord24 = VR.lorentz_equal.k_xy_theta_tau_xy_eta_t coord11 coord12 coord13 coord14 coord21 coord22 coord23 coord24 := by
  simp only [VS.lorentz_equal.k_xy_theta_tau_xy_eta_t, VR.lorentz_equal.k_xy_theta_tau_xy_eta_t, c08_lorentz_t_xy_theta_tau, VS.lorentz_t.xy_eta_t_eq, VS.spatial_equal.xy_theta_xy_eta_eq, h0, VR.P.nanToNum_eq]

theorem c08_lorentz_equal_k_xy_theta_tau_xy_theta_t (coord11 coord12 coord13 coord14 coord21 coord22 coord23 coord24 : ℝ) (h0 : 0 ≤ coord14) :
    VS.lorentz_equal.k_xy_theta_tau_xy_theta_t coord11 coord12 coord13 coord14 coord21 coord22 coord23 coord24 = VR.lorentz_equal.k_xy_theta_tau_xy_theta_t coord11 coord12 coord13 coord14 coord21 coord22 coord23 coord24 := by
  simp only [VS.lorentz_equal.k_xy_theta_tau_xy_theta_t, VR.lorentz_equal.k_xy_theta_tau_xy_theta_t, c08_lorentz_t_xy_theta_tau, VS.lorentz_t.xy_theta_t_eq, VS.spatial_equal.xy_theta_xy_theta_eq, h0, VR.P.nanToNum_eq]

theorem c08_lorentz_equal_k_xy_theta_tau_xy_z_t (coord11 coord12 coord13 coord14 coord21 coord22 coord23 coord24 : ℝ) (h0 : 0 ≤ coord14) :
    VS.lorentz_equal.k_xy_theta_tau_xy_z_t coord11 coord12 coord13 coord14 coord21 coord22 coord23 coord24 = VR.lorentz_equal.k_xy_theta_tau_xy_z_t coord11 coord12 coord13 coord14 coord21 coord22 coord23 coord24 := by
  simp only [VS.lorentz_equal.k_xy_theta_tau_xy_z_t, VR.lorentz_equal.k_xy_theta_tau_xy_z_t, c08_lorentz_t_xy_theta_tau, VS.lorentz_t.xy_z_t_eq, VS.spatial_equal.xy_theta_xy_z_eq, h0, VR.P.nanToNum_eq]

theorem c08_lorentz_equal_k_xy_z_t_rhophi_eta_tau (coord11 coord12 coord13 coord14 coord21 coord22 coord23 coord24 : ℝ) (h0 : 0 ≤ coord24) :
    VS.lorentz_equal.k_xy_z_t_rhophi_eta_tau coord11 coord12 coord13 coord14 coord21 coord22 coord23 coord24 = VR.lorentz_equal.k_xy_z_t_rhophi_eta_tau coord11 coord12 coord13 coord14 coord21 coord22 coord23 coord24 := by
  simp only [VS.lorentz_equal.k_xy_z_t_rhophi_eta_tau, VR.lorentz_equal.k_xy_z_t_rhophi_eta_tau, VS.lorentz_t.xy_z_t_eq, c08_lorentz_t_rhophi_eta_tau, VS.spatial_equal.xy_z_rhophi_eta_eq, h0, VR.P.nanToNum_eq]

theorem c08_lorentz_equal_k_xy_z_t_rhophi_theta_tau (coord11 coord12 coord13 coord14 coord21 coord22 coord23 coord24 : ℝ) (h0 : 0 ≤ coord24) :
    VS.lorentz_equal.k_xy_z_t_rhophi_theta_tau coord11 coord12 coord13 coord14 coord21 coord22 coord23 coord24 = VR.lorentz_equal.k_xy_z_t_rhophi_theta_tau coord11 coord12 coord13 coord14 coord21 coord22 coord23 coord24 := by
  simp only [VS.lorentz_equal.k_xy_z_t_rhophi_theta_tau, VR.lorentz_equal.k_xy_z_t_rhophi_theta_tau, VS.lorentz_t.xy_z_t_eq, c08_lorentz_t_rhophi_theta_tau, VS.spatial_equal.xy_z_rhophi_theta_eq, h0, VR.P.nanToNum_eq]

theorem c08_lorentz_equal_k_xy_z_t_rhophi_z_tau (coord11 coord12 coord13 coord14 coord21 coord22 coord23 coord24 : ℝ) (h0 : 0 ≤ coord24) :
    VS.lorentz_equal.k_xy_z_t_rhophi_z_tau coord11 coord12 coord13 coord14 coord21 coord22 coord23 coord24 = VR.lorentz_equal.k_xy_z_t_rhophi_z_tau coord11 coord12 coord13 coord14 coord21 coord22 coord23 coord24 := by
  simp only [VS.lorentz_equal.k_xy_z_t_rhophi_z_tau, VR.lorentz_equal.k_xy_z_t_rhophi_z_tau, VS.lorentz_t.xy_z_t_eq, c08_lorentz_t_rhophi_z_tau, VS.spatial_equal.xy_z_rhophi_z_eq, h0, VR.P.nanToNum_eq]

theorem c08_lorentz_equal_k_xy_z_t_xy_eta_tau (coord11 coord12 coord13 coord14 coord21 coord22 coord23 coord24 : ℝ) (h0 : 0 ≤ coord24) :
    VS.lorentz_equal.k_xy_z_t_xy_eta_tau coord11 coord12 coord13 coord14 coord21 coord22 coord23 coord24 = VR.lorentz_equal.k_xy_z_t_xy_eta_tau coord11 coord12 coord13 coord14 coord21 coord22 coord23 coord24 := by
  simp only [VS.lorentz_equal.k_xy_z_t_xy_eta_tau, VR.lorentz_equal.k_xy_z_t_xy_eta_tau, VS.lorentz_t.xy_z_t_eq, c08_lorentz_t_xy_eta_tau, VS.spatial_equal.xy_z_xy_eta_eq, h0, VR.P.nanToNum_eq]

theorem c08_lorentz_equal_k_xy_z_t_xy_theta_tau (coord11 coord12 coord13 coord14 coord21 coord22 coord23 coord24 : ℝ) (h0 : 0 ≤ coord24) :
    VS.lorentz_equal.k_xy_z_t_xy_theta_tau coord11 coord12 coord13 coord14 coord21 coord22 coord23 coord24 = VR.lorentz_equal.k_xy_z_t_xy_theta_tau coord11 coord12 coord13 coord14 coord21 coord22 coord23 coord24 := by
  simp only [VS.lorentz_equal.k_xy_z_t_xy_theta_tau, VR.lorentz_equal.k_xy_z_t_xy_theta_tau, VS.lorentz_t.xy_z_t_eq, c08_lorentz_t_xy_theta_tau, VS.spatial_equal.xy_z_xy_theta_eq, h0, VR.P.nanToNum_eq]

theorem c08_lorentz_equal_k_xy_z_t_xy_z_tau (coord11 coord12 coord13 coord14 coord21 coord22 coord23 coord24 : ℝ) (h0 : 0 ≤ coord24) :
    VS.lorentz_equal.k_xy_z_t_xy_z_tau coord11 coord12 coord13 coord14 coord21 coord22 coord23 coord24 = VR.lorentz_equal.k_xy_z_t_xy_z_tau coord11 coord12 coord13 coord14 coord21 coord22 coord23 coord24 := by
  simp only [VS.lorentz_equal.k_xy_z_t_xy_z_tau, VR.lorentz_equal.k_xy_z_t_xy_z_tau, VS.lorentz_t.xy_z_t_eq, c08_lorentz_t_xy_z_tau, VS.spatial_equal.xy_z_xy_z_eq, h0, VR.P.nanToNum_eq]

theorem c08_lorentz_equal_k_xy_z_tau_rhophi_eta_t (coord11 coord12 coord13 coord14 coord21 coord22 coord23 coord24 : ℝ) (h0 : 0 ≤ coord14) :
    VS.lorentz_equal.k_xy_z_tau_rhophi_eta_t coord11 coord12 coord13 coord14 coord21 coord22 coord23 coord24 = VR.lorentz_equal.k_xy_z_tau_rhophi_eta_t coord11 coord12 coord13 coord14 coord21 coord22 coord23 coord24 := by
  simp only [VS.lorentz_equal.k_xy_z_tau_rhophi_eta_t, VR.lorentz_equal.k_xy_z_tau_rhophi_eta_t, c08_lorentz_t_xy_z_tau, VS.lorentz_t.rhophi_eta_t_eq, VS.spatial_equal.xy_z_rhophi_eta_eq, h0, VR.P.nanToNum_eq]

theorem c08_lorentz_equal_k_xy_z_tau_rhophi_theta_t (coord11 coord12 coord13 coord14 coord21 coord22 coord23 coord24 : ℝ) (h0 : 0 ≤ coord14) :
    VS.lorentz_equal.k_xy_z_tau_rhophi_theta_t coord11 coord12 coord13 coord14 coord21 coord22 coord23 coord24 = VR.lorentz_equal.k_xy_z_tau_rhophi_theta_t coord11 coord12 coord13 coord14 coord21 coord22 coord23 coord24 := by
  simp only [VS.lorentz_equal.k_xy_z_tau_rhophi_theta_t, VR.lorentz_equal.k_xy_z_tau_rhophi_theta_t, c08_lorentz_t_xy_z_tau, VS.lorentz_t.rhophi_theta_t_eq, VS.spatial_equal.xy_z_rhophi_theta_eq, h0, VR.P.nanToNum_eq]

theorem c08_lorentz_equal_k_xy_z_tau_rhophi_z_t (coord11 coord12 coord13 coord14 coord21 coord22 coord23 coord24 : ℝ) (h0 : 0 ≤ coord14) :
    VS.lorentz_equal.k_xy_z_tau_rhophi_z_t coord11 coord12 coord13 coord14 coord21 coord22 coord23 coord24 = VR.lorentz_equal.k_xy_z_tau_rhophi_z_t coord11 coord12 coord13 coord14 coord21 coord22 coord23 coord24 := by
  simp only [VS.lorentz_equal.k_xy_z_tau_rhophi_z_t, VR.lorentz_equal.k_xy_z_tau_rhophi_z_t, c08_lorentz_t_xy_z_tau, VS.lorentz_t.rhophi_z_t_eq, VS.spatial_equal.xy_z_rhophi_z_eq, h0, VR.P.nanToNum_eq]

theorem c08_lorentz_equal_k_xy_z_tau_xy_eta_t (coord11 coord12 coord13 coord14 coord21 coord22 coord23 coord24 : ℝ) (h0 : 0 ≤ coord14) :
    VS.lorentz_equal.k_xy_z_tau_xy_eta_t coord11 coord12 coord13 coord14 coord21 coord22 coord23 coord24 = VR.lorentz_equal.k_xy_z_tau_xy_eta_t coord11 coord12 coord13 coord14 coord21 coord22 coord23 coord24 := by
  simp only [VS.lorentz_equal.k_xy_z_tau_xy_eta_t, VR.lorentz_equal.k_xy_z_tau_xy_eta_t, c08_lorentz_t_xy_z_tau, VS.lorentz_t.xy_eta_t_eq, VS.spatial_equal.xy_z_xy_eta_eq, h0, VR.P.nanToNum_eq]

theorem c08_lorentz_equal_k_xy_z_tau_xy_theta_t (coord11 coord12 coord13 coord14 coord21 coord22 coord23 coord24 : ℝ) (h0 : 0 ≤ coord14) :
    VS.lorentz_equal.k_xy_z_tau_xy_theta_t coord11 coord12 coord13 coord14 coord21 coord22 coord23 coord24 = VR.lorentz_equal.k_xy_z_tau_xy_theta_t coord11 coord12 coord13 coord14 coord21 coord22 coord23 coord24 := by
  simp only [VS.lorentz_equal.k_xy_z_tau_xy_theta_t, VR.lorentz_equal.k_xy_z_tau_xy_theta_t, c08_lorentz_t_xy_z_tau, VS.lorentz_t.xy_theta_t_eq, VS.spatial_equal.xy_z_xy_theta_eq, h0, VR.P.nanToNum_eq]

theorem c08_lorentz_equal_k_xy_z_tau_xy_z_t (coord11 coord12 coord13 coord14 coord21 coord22 coord23 coord24 : ℝ) (h0 : 0 ≤ coord14) :
    VS.lorentz_equal.k_xy_z_tau_xy_z_t coord11 coord12 coord13 coord14 coord21 coord22 coord23 coord24 = VR.lorentz_equal.k_xy_z_tau_xy_z_t coord11 coord12 coord13 coord14 coord21 coord22 coord23 coord24 := by
  simp only [VS.lorentz_equal.k_xy_z_tau_xy_z_t, VR.lorentz_equal.k_xy_z_tau_xy_z_t, c08_lorentz_t_xy_z_tau, VS.lorentz_t.xy_z_t_eq, VS.spatial_equal.xy_z_xy_z_eq, h0, VR.P.nanToNum_eq]


/-! ### `lorentz_gamma` -/

theorem c08_lorentz_gamma_rhophi_eta_t (rho phi eta t : ℝ) (h0 : 0 ≤ VR.lorentz_tau2.rhophi_eta_t rho phi eta t) :
    VS.lorentz_gamma.rhophi_eta_t rho phi eta t = VR.lorentz_gamma.rhophi_eta_t rho phi eta t := by
  simp only [VS.lorentz_gamma.rhophi_eta_t, VR.lorentz_gamma.rhophi_eta_t, c08_lorentz_tau_rhophi_eta_t, h0, VR.P.nanToNum_eq]

theorem c08_lorentz_gamma_rhophi_eta_tau (rho phi eta tau : ℝ) (h0 : 0 ≤ tau) :
    VS.lorentz_gamma.rhophi_eta_tau rho phi eta tau = VR.lorentz_gamma.rhophi_eta_tau rho phi eta tau := by
  simp only [VS.lorentz_gamma.rhophi_eta_tau, VR.lorentz_gamma.rhophi_eta_tau, c08_lorentz_t_rhophi_eta_tau, h0, VR.P.nanToNum_eq]

theorem c08_lorentz_gamma_rhophi_theta_t (rho phi theta t : ℝ) (h0 : 0 ≤ VR.lorentz_tau2.rhophi_theta_t rho phi theta t) :
    VS.lorentz_gamma.rhophi_theta_t rho phi theta t = VR.lorentz_gamma.rhophi_theta_t rho phi theta t := by
  simp only [VS.lorentz_gamma.rhophi_theta_t, VR.lorentz_gamma.rhophi_theta_t, c08_lorentz_tau_rhophi_theta_t, h0, VR.P.nanToNum_eq]

theorem c08_lorentz_gamma_rhophi_theta_tau (rho phi theta tau : ℝ) (h0 : 0 ≤ tau) :
    VS.lorentz_gamma.rhophi_theta_tau rho phi theta tau = VR.lorentz_gamma.rhophi_theta_tau rho phi theta tau := by
  simp only [VS.lorentz_gamma.rhophi_theta_tau, VR.lorentz_gamma.rhophi_theta_tau, c08_lorentz_t_rhophi_theta_tau, h0, VR.P.nanToNum_eq]

theorem c08_lorentz_gamma_rhophi_z_t (rho phi z t : ℝ) (h0 : 0 ≤ VR.lorentz_tau2.rhophi_z_t rho phi z t) :
    VS.lorentz_gamma.rhophi_z_t rho phi z t = VR.lorentz_gamma.rhophi_z_t rho phi z t := by
  simp only [VS.lorentz_gamma.rhophi_z_t, VR.lorentz_gamma.rhophi_z_t, c08_lorentz_tau_rhophi_z_t, h0, VR.P.nanToNum_eq]

theorem c08_lorentz_gamma_rhophi_z_tau (rho phi z tau : ℝ) (h0 : 0 ≤ tau) :
    VS.lorentz_gamma.rhophi_z_tau rho phi z tau = VR.lorentz_gamma.rhophi_z_tau rho phi z tau := by
  simp only [VS.lorentz_gamma.rhophi_z_tau, VR.lorentz_gamma.rhophi_z_tau, c08_lorentz_t_rhophi_z_tau, h0, VR.P.nanToNum_eq]

theorem c08_lorentz_gamma_xy_eta_t (x y eta t : ℝ) (h0 : 0 ≤ VR.lorentz_tau2.xy_eta_t x y eta t) :
    VS.lorentz_gamma.xy_eta_t x y eta t = VR.lorentz_gamma.xy_eta_t x y eta t := by
  simp only [VS.lorentz_gamma.xy_eta_t, VR.lorentz_gamma.xy_eta_t, c08_lorentz_tau_xy_eta_t, h0, VR.P.nanToNum_eq]

theorem c08_lorentz_gamma_xy_eta_tau (x y eta tau : ℝ) (h0 : 0 ≤ tau) :
    VS.lorentz_gamma.xy_eta_tau x y eta tau = VR.lorentz_gamma.xy_eta_tau x y eta tau := by
  simp only [VS.lorentz_gamma.xy_eta_tau, VR.lorentz_gamma.xy_eta_tau, c08_lorentz_t_xy_eta_tau, h0, VR.P.nanToNum_eq]

theorem c08_lorentz_gamma_xy_theta_t (x y theta t : ℝ) (h0 : 0 ≤ VR.lorentz_tau2.xy_theta_t x y theta t) :
    VS.lorentz_gamma.xy_theta_t x y theta t = VR.lorentz_gamma.xy_theta_t x y theta t := by
  simp only [VS.lorentz_gamma.xy_theta_t, VR.lorentz_gamma.xy_theta_t, c08_lorentz_tau_xy_theta_t, h0, VR.P.nanToNum_eq]

theorem c08_lorentz_gamma_xy_theta_tau (x y theta tau : ℝ) (h0 : 0 ≤ tau) :
    VS.lorentz_gamma.xy_theta_tau x y theta tau = VR.lorentz_gamma.xy_theta_tau x y theta tau := by
  simp only [VS.lorentz_gamma.xy_theta_tau, VR.lorentz_gamma.xy_theta_tau, c08_lorentz_t_xy_theta_tau, h0, VR.P.nanToNum_eq]

theorem c08_lorentz_gamma_xy_z_t (x y z t : ℝ) (h0 : 0 ≤ VR.lorentz_tau2.xy_z_t x y z t) :
    VS.lorentz_gamma.xy_z_t x y z t = VR.lorentz_gamma.xy_z_t x y z t := by
  simp only [VS.lorentz_gamma.xy_z_t, VR.lorentz_gamma.xy_z_t, c08_lorentz_tau_xy_z_t, h0, VR.P.nanToNum_eq]

theorem c08_lorentz_gamma_xy_z_tau (x y z tau : ℝ) (h0 : 0 ≤ tau) :
    VS.lorentz_gamma.xy_z_tau x y z tau = VR.lorentz_gamma.xy_z_tau x y z tau := by
  simp only [VS.lorentz_gamma.xy_z_tau, VR.lorentz_gamma.xy_z_tau, c08_lorentz_t_xy_z_tau, h0, VR.P.nanToNum_eq]


/-! ### `lorentz_is_lightlike` -/

theorem c08_lorentz_is_lightlike_k_rhophi_eta_tau (tolerance coord1 coord2 coord3 coord4 : ℝ) (h0 : 0 ≤ coord4) :
    VS.lorentz_is_lightlike.k_rhophi_eta_tau tolerance coord1 coord2 coord3 coord4 = VR.lorentz_is_lightlike.k_rhophi_eta_tau tolerance coord1 coord2 coord3 coord4 := by
  simp only [VS.lorentz_is_lightlike.k_rhophi_eta_tau, VR.lorentz_is_lightlike.k_rhophi_eta_tau, c08_lorentz_dot_k_rhophi_eta_tau_rhophi_eta_tau, h0, VR.P.nanToNum_eq]

theorem c08_lorentz_is_lightlike_k_rhophi_theta_tau (tolerance coord1 coord2 coord3 coord4 : ℝ) (h0 : 0 ≤ coord4) :
    VS.lorentz_is_lightlike.k_rhophi_theta_tau tolerance coord1 coord2 coord3 coord4 = VR.lorentz_is_lightlike.k_rhophi_theta_tau tolerance coord1 coord2 coord3 coord4 := by
  simp only [VS.lorentz_is_lightlike.k_rhophi_theta_tau, VR.lorentz_is_lightlike.k_rhophi_theta_tau, c08_lorentz_dot_k_rhophi_theta_tau_rhophi_theta_tau, h0, VR.P.nanToNum_eq]

theorem c08_lorentz_is_lightlike_k_rhophi_z_tau (tolerance coord1 coord2 coord3 coord4 : ℝ) (h0 : 0 ≤ coord4) :
    VS.lorentz_is_lightlike.k_rhophi_z_tau tolerance coord1 coord2 coord3 coord4 = VR.lorentz_is_lightlike.k_rhophi_z_tau tolerance coord1 coord2 coord3 coord4 := by
  simp only [VS.lorentz_is_lightlike.k_rhophi_z_tau, VR.lorentz_is_lightlike.k_rhophi_z_tau, c08_lorentz_dot_k_rhophi_z_tau_rhophi_z_tau, h0, VR.P.nanToNum_eq]

theorem c08_lorentz_is_lightlike_k_xy_eta_tau (tolerance coord1 coord2 coord3 coord4 : ℝ) (h0 : 0 ≤ coord4) :
    VS.lorentz_is_lightlike.k_xy_eta_tau tolerance coord1 coord2 coord3 coord4 = VR.lorentz_is_lightlike.k_xy_eta_tau tolerance coord1 coord2 coord3 coord4 := by
  simp only [VS.lorentz_is_lightlike.k_xy_eta_tau, VR.lorentz_is_lightlike.k_xy_eta_tau, c08_lorentz_dot_k_xy_eta_tau_xy_eta_tau, h0, VR.P.nanToNum_eq]

theorem c08_lorentz_is_lightlike_k_xy_theta_tau (tolerance coord1 coord2 coord3 coord4 : ℝ) (h0 : 0 ≤ coord4) :
    VS.lorentz_is_lightlike.k_xy_theta_tau tolerance coord1 coord2 coord3 coord4 = VR.lorentz_is_lightlike.k_xy_theta_tau tolerance coord1 coord2 coord3 coord4 := by
  simp only [VS.lorentz_is_lightlike.k_xy_theta_tau, VR.lorentz_is_lightlike.k_xy_theta_tau, c08_lorentz_dot_k_xy_theta_tau_xy_theta_tau, h0, VR.P.nanToNum_eq]

theorem c08_lorentz_is_lightlike_k_xy_z_tau (tolerance coord1 coord2 coord3 coord4 : ℝ) (h0 : 0 ≤ coord4) :
    VS.lorentz_is_lightlike.k_xy_z_tau tolerance coord1 coord2 coord3 coord4 = VR.lorentz_is_lightlike.k_xy_z_tau tolerance coord1 coord2 coord3 coord4 := by
  simp only [VS.lorentz_is_lightlike.k_xy_z_tau, VR.lorentz_is_lightlike.k_xy_z_tau, c08_lorentz_dot_k_xy_z_tau_xy_z_tau, h0, VR.P.nanToNum_eq]


/-! ### `lorentz_is_spacelike` -/

theorem c08_lorentz_is_spacelike_k_rhophi_eta_tau (tolerance coord1 coord2 coord3 coord4 : ℝ) (h0 : 0 ≤ coord4) :
    VS.lorentz_is_spacelike.k_rhophi_eta_tau tolerance coord1 coord2 coord3 coord4 = VR.lorentz_is_spacelike.k_rhophi_eta_tau tolerance coord1 coord2 coord3 coord4 := by
  simp only [VS.lorentz_is_spacelike.k_rhophi_eta_tau, VR.lorentz_is_spacelike.k_rhophi_eta_tau, c08_lorentz_dot_k_rhophi_eta_tau_rhophi_eta_tau, h0, VR.P.nanToNum_eq]

theorem c08_lorentz_is_spacelike_k_rhophi_theta_tau (tolerance coord1 coord2 coord3 coord4 : ℝ) (h0 : 0 ≤ coord4) :
    VS.lorentz_is_spacelike.k_rhophi_theta_tau tolerance coord1 coord2 coord3 coord4 = VR.lorentz_is_spacelike.k_rhophi_theta_tau tolerance coord1 coord2 coord3 coord4 := by
  simp only [VS.lorentz_is_spacelike.k_rhophi_theta_tau, VR.lorentz_is_spacelike.k_rhophi_theta_tau, c08_lorentz_dot_k_rhophi_theta_tau_rhophi_theta_tau, h0, VR.P.nanToNum_eq]

theorem c08_lorentz_is_spacelike_k_rhophi_z_tau (tolerance coord1 coord2 coord3 coord4 : ℝ) (h0 : 0 ≤ coord4) :
    VS.lorentz_is_spacelike.k_rhophi_z_tau tolerance coord1 coord2 coord3 coord4 = VR.lorentz_is_spacelike.k_rhophi_z_tau tolerance coord1 coord2 coord3 coord4 := by
  simp only [VS.lorentz_is_spacelike.k_rhophi_z_tau, VR.lorentz_is_spacelike.k_rhophi_z_tau, c08_lorentz_dot_k_rhophi_z_tau_rhophi_z_tau, h0, VR.P.nanToNum_eq]

theorem c08_lorentz_is_spacelike_k_xy_eta_tau (tolerance coord1 coord2 coord3 coord4 : ℝ) (h0 : 0 ≤ coord4) :
    VS.lorentz_is_spacelike.k_xy_eta_tau tolerance coord1 coord2 coord3 coord4 = VR.lorentz_is_spacelike.k_xy_eta_tau tolerance coord1 coord2 coord3 coord4 := by
  simp only [VS.lorentz_is_spacelike.k_xy_eta_tau, VR.lorentz_is_spacelike.k_xy_eta_tau, c08_lorentz_dot_k_xy_eta_tau_xy_eta_tau, h0, VR.P.nanToNum_eq]

theorem c08_lorentz_is_spacelike_k_xy_theta_tau (tolerance coord1 coord2 coord3 coord4 : ℝ) (h0 : 0 ≤ coord4) :
    VS.lorentz_is_spacelike.k_xy_theta_tau tolerance coord1 coord2 coord3 coord4 = VR.lorentz_is_spacelike.k_xy_theta_tau tolerance coord1 coord2 coord3 coord4 := by
  simp only [VS.lorentz_is_spacelike.k_xy_theta_tau, VR.lorentz_is_spacelike.k_xy_theta_tau, c08_lorentz_dot_k_xy_theta_tau_xy_theta_tau, h0, VR.P.nanToNum_eq]

theorem c08_lorentz_is_spacelike_k_xy_z_tau (tolerance coord1 coord2 coord3 coord4 : ℝ) (h0 : 0 ≤ coord4) :
    VS.lorentz_is_spacelike.k_xy_z_tau tolerance coord1 coord2 coord3 coord4 = VR.lorentz_is_spacelike.k_xy_z_tau tolerance coord1 coord2 coord3 coord4 := by
  simp only [VS.lorentz_is_spacelike.k_xy_z_tau, VR.lorentz_is_spacelike.k_xy_z_tau, c08_lorentz_dot_k_xy_z_tau_xy_z_tau, h0, VR.P.nanToNum_eq]


/-! ### `lorentz_is_timelike` -/

theorem c08_lorentz_is_timelike_k_rhophi_eta_tau (tolerance coord1 coord2 coord3 coord4 : ℝ) (h0 : 0 ≤ coord4) :
    VS.lorentz_is_timelike.k_rhophi_eta_tau tolerance coord1 coord2 coord3 coord4 = VR.lorentz_is_timelike.k_rhophi_eta_tau tolerance coord1 coord2 coord3 coord4 := by
  simp only [VS.lorentz_is_timelike.k_rhophi_eta_tau, VR.lorentz_is_timelike.k_rhophi_eta_tau, c08_lorentz_dot_k_rhophi_eta_tau_rhophi_eta_tau, h0, VR.P.nanToNum_eq]

theorem c08_lorentz_is_timelike_k_rhophi_theta_tau (tolerance coord1 coord2 coord3 coord4 : ℝ) (h0 : 0 ≤ coord4) :
    VS.lorentz_is_timelike.k_rhophi_theta_tau tolerance coord1 coord2 coord3 coord4 = VR.lorentz_is_timelike.k_rhophi_theta_tau tolerance coord1 coord2 coord3 coord4 := by
  simp only [VS.lorentz_is_timelike.k_rhophi_theta_tau, VR.lorentz_is_timelike.k_rhophi_theta_tau, c08_lorentz_dot_k_rhophi_theta_tau_rhophi_theta_tau, h0, VR.P.nanToNum_eq]

theorem c08_lorentz_is_timelike_k_rhophi_z_tau (tolerance coord1 coord2 coord3 coord4 : ℝ) (h0 : 0 ≤ coord4) :
    VS.lorentz_is_timelike.k_rhophi_z_tau tolerance coord1 coord2 coord3 coord4 = VR.lorentz_is_timelike.k_rhophi_z_tau tolerance coord1 coord2 coord3 coord4 := by
  simp only [VS.lorentz_is_timelike.k_rhophi_z_tau, VR.lorentz_is_timelike.k_rhophi_z_tau, c08_lorentz_dot_k_rhophi_z_tau_rhophi_z_tau, h0, VR.P.nanToNum_eq]

theorem c08_lorentz_is_timelike_k_xy_eta_tau (tolerance coord1 coord2 coord3 coord4 : ℝ) (h0 : 0 ≤ coord4) :
    VS.lorentz_is_timelike.k_xy_eta_tau tolerance coord1 coord2 coord3 coord4 = VR.lorentz_is_timelike.k_xy_eta_tau tolerance coord1 coord2 coord3 coord4 := by
  simp only [VS.lorentz_is_timelike.k_xy_eta_tau, VR.lorentz_is_timelike.k_xy_eta_tau, c08_lorentz_dot_k_xy_eta_tau_xy_eta_tau, h0, VR.P.nanToNum_eq]

theorem c08_lorentz_is_timelike_k_xy_theta_tau (tolerance coord1 coord2 coord3 coord4 : ℝ) (h0 : 0 ≤ coord4) :
    VS.lorentz_is_timelike.k_xy_theta_tau tolerance coord1 coord2 coord3 coord4 = VR.lorentz_is_timelike.k_xy_theta_tau tolerance coord1 coord2 coord3 coord4 := by
  simp only [VS.lorentz_is_timelike.k_xy_theta_tau, VR.lorentz_is_timelike.k_xy_theta_tau, c08_lorentz_dot_k_xy_theta_tau_xy_theta_tau, h0, VR.P.nanToNum_eq]

theorem c08_lorentz_is_timelike_k_xy_z_tau (tolerance coord1 coord2 coord3 coord4 : ℝ) (h0 : 0 ≤ coord4) :
    VS.lorentz_is_timelike.k_xy_z_tau tolerance coord1 coord2 coord3 coord4 = VR.lorentz_is_timelike.k_xy_z_tau tolerance coord1 coord2 coord3 coord4 := by
  simp only [VS.lorentz_is_timelike.k_xy_z_tau, VR.lorentz_is_timelike.k_xy_z_tau, c08_lorentz_dot_k_xy_z_tau_xy_z_tau, h0, VR.P.nanToNum_eq]


/-! ### `lorentz_not_equal` -/

theorem c08_lorentz_not_equal_k_rhophi_eta_t_rhophi_eta_tau (coord11 coord12 coord13 coord14 coord21 coord22 coord23 coord24 : ℝ) (h0 : 0 ≤ coord24) :
    VS.lorentz_not_equal.k_rhophi_eta_t_rhophi_eta_tau coord11 coord12 coord13 coord14 coord21 coord22 coord23 coord24 = VR.lorentz_not_equal.k_rhophi_eta_t_rhophi_eta_tau coord11 coord12 coord13 coord14 coord21 coord22 coord23 coord24 := by
  simp only [VS.lorentz_not_equal.k_rhophi_eta_t_rhophi_eta_tau, VR.lorentz_not_equal.k_rhophi_eta_t_rhophi_eta_tau, VS.lorentz_t.rhophi_eta_t_eq, c08_lorentz_t_rhophi_eta_tau, VS.spatial_not_equal.rhophi_eta_rhophi_eta_eq, h0, VR.P.nanToNum_eq]

theorem c08_lorentz_not_equal_k_rhophi_eta_t_rhophi_theta_tau (coord11 coord12 coord13 coord14 coord21 coord22 coord23 coord24 : ℝ) (h0 : 0 ≤ coord24) :
    VS.lorentz_not_equal.k_rhophi_eta_t_rhophi_theta_tau coord11 coord12 coord13 coord14 coord21 coord22 coord23 coord24 = VR.lorentz_not_equal.k_rhophi_eta_t_rhophi_theta_tau coord11 coord12 coord13 coord14 coord21 coord22 coord23 coord24 := by
  simp only [VS.lorentz_not_equal.k_rhophi_eta_t_rhophi_theta_tau, VR.lorentz_not_equal.k_rhophi_eta_t_rhophi_theta_tau, VS.lorentz_t.rhophi_eta_t_eq, c08_lorentz_t_rhophi_theta_tau, VS.spatial_not_equal.rhophi_eta_rhophi_theta_eq, h0, VR.P.nanToNum_eq]

theorem c08_lorentz_not_equal_k_rhophi_eta_t_rhophi_z_tau (coord11 coord12 coord13 coord14 coord21 coord22 coord23 coord24 : ℝ) (h0 : 0 ≤ coord24) :
    VS.lorentz_not_equal.k_rhophi_eta_t_rhophi_z_tau coord11 coord12 coord13 coord14 coord21 coord22 coord23 coord24 = VR.lorentz_not_equal.k_rhophi_eta_t_rhophi_z_tau coord11 coord12 coord13 coord14 coord21 coord22 coord23 coord24 := by
  simp only [VS.lorentz_not_equal.k_rhophi_eta_t_rhophi_z_tau, VR.lorentz_not_equal.k_rhophi_eta_t_rhophi_z_tau, VS.lorentz_t.rhophi_eta_t_eq, c08_lorentz_t_rhophi_z_tau, VS.spatial_not_equal.rhophi_eta_rhophi_z_eq, h0, VR.P.nanToNum_eq]

theorem c08_lorentz_not_equal_k_rhophi_eta_t_xy_eta_tau (coord11 coord12 coord13 coord14 coord21 coord22 coord23 coord24 : ℝ) (h0 : 0 ≤ coord24) :
    VS.lorentz_not_equal.k_rhophi_eta_t_xy_eta_tau coord11 coord12 coord13 coord14 coord21 coord22 coord23 coord24 = VR.lorentz_not_equal.k_rhophi_eta_t_xy_eta_tau coord11 coord12 coord13 coord14 coord21 coord22 coord23 coord24 := by
  simp only [VS.lorentz_not_equal.k_rhophi_eta_t_xy_eta_tau, VR.lorentz_not_equal.k_rhophi_eta_t_xy_eta_tau, VS.lorentz_t.rhophi_eta_t_eq, c08_lorentz_t_xy_eta_tau, VS.spatial_not_equal.rhophi_eta_xy_eta_eq, h0, VR.P.nanToNum_eq]

theorem c08_lorentz_not_equal_k_rhophi_eta_t_xy_theta_tau (coord11 coord12 coord13 coord14 coord21 coord22 coord23 coord24 : ℝ) (h0 : 0 ≤ coord24) :
    VS.lorentz_not_equal.k_rhophi_eta_t_xy_theta_tau coord11 coord12 coord13 coord14 coord21 coord22 coord23 coord24 = VR.lorentz_not_equal.k_rhophi_eta_t_xy_theta_tau coord11 coord12 coord13 coord14 coord21 coord22 coord23 coord24 := by
  simp only [VS.lorentz_not_equal.k_rhophi_eta_t_xy_theta_tau, VR.lorentz_not_equal.k_rhophi_eta_t_xy_theta_tau, VS.lorentz_t.rhophi_eta_t_eq, c08_lorentz_t_xy_theta_tau, VS.spatial_not_equal.rhophi_eta_xy_theta_eq, h0, VR.P.nanToNum_eq]

theorem c08_lorentz_not_equal_k_rhophi_eta_t_xy_z_tau (coord11 coord12 coord13 coord14 coord21 coord22 coord23 coord24 : ℝ) (h0 : 0 ≤ coord24) :
    VS.lorentz_not_equal.k_rhophi_eta_t_xy_z_tau coord11 coord12 coord13 coord14 coord21 coord22 coord23 coord24 = VR.lorentz_not_equal.k_rhophi_eta_t_xy_z_tau coord11 coord12 coord13 coord14 coord21 coord22 coord23 coord24 := by
  simp only [VS.lorentz_not_equal.k_rhophi_eta_t_xy_z_tau, VR.lorentz_not_equal.k_rhophi_eta_t_xy_z_tau, VS.lorentz_t.rhophi_eta_t_eq, c08_lorentz_t_xy_z_tau, VS.spatial_not_equal.rhophi_eta_xy_z_eq, h0, VR.P.nanToNum_eq]

theorem c08_lorentz_not_equal_k_rhophi_eta_tau_rhophi_eta_t (coord11 coord12 coord13 coord14 coord21 coord22 coord23 coord24 : ℝ) (h0 : 0 ≤ coord14) :
    VS.lorentz_not_equal.k_rhophi_eta_tau_rhophi_eta_t coord11 coord12 coord13 coord14 coord21 coord22 coord23 coord24 = VR.lorentz_not_equal.k_rhophi_eta_tau_rhophi_eta_t coord11 coord12 coord13 coord14 coord21 coord22 coord23 coord24 := by
  simp only [VS.lorentz_not_equal.k_rhophi_eta_tau_rhophi_eta_t, VR.lorentz_not_equal.k_rhophi_eta_tau_rhophi_eta_t, c08_lorentz_t_rhophi_eta_tau, VS.lorentz_t.rhophi_eta_t_eq, VS.spatial_not_equal.rhophi_eta_rhophi_eta_eq, h0, VR.P.nanToNum_eq]

theorem c08_lorentz_not_equal_k_rhophi_eta_tau_rhophi_theta_t (coord11 coord12 coord13 coord14 coord21 coord22 coord23 coord24 : ℝ) (h0 : 0 ≤ coord14) :
    VS.lorentz_not_equal.k_rhophi_eta_tau_rhophi_theta_t coord11 coord12 coord13 coord14 coord21 coord22 coord23 coord24 = VR.lorentz_not_equal.k_rhophi_eta_tau_rhophi_theta_t coord11 coord12 coord13 coord14 coord21 coord22 coord23 coord24 := by
  simp only [VS.lorentz_not_equal.k_rhophi_eta_tau_rhophi_theta_t, VR.lorentz_not_equal.k_rhophi_eta_tau_rhophi_theta_t, c08_lorentz_t_rhophi_eta_tau, VS.lorentz_t.rhophi_theta_t_eq, VS.spatial_not_equal.rhophi_eta_rhophi_theta_eq, h0, VR.P.nanToNum_eq]

theorem c08_lorentz_not_equal_k_rhophi_eta_tau_rhophi_z_t (coord11 coord12 coord13 coord14 coord21 coord22 coord23 coord24 : ℝ) (h0 : 0 ≤ coord14) :
    VS.lorentz_not_equal.k_rhophi_eta_tau_rhophi_z_t coord11 coord12 coord13 coord14 coord21 coord22 coord23 coord24 = VR.lorentz_not_equal.k_rhophi_eta_tau_rhophi_z_t coord11 coord12 coord13 coord14 coord21 coord22 coord23 coord24 := by
  simp only [VS.lorentz_not_equal.k_rhophi_eta_tau_rhophi_z_t, VR.lorentz_not_equal.k_rhophi_eta_tau_rhophi_z_t, c08_lorentz_t_rhophi_eta_tau, VS.lorentz_t.rhophi_z_t_eq, VS.spatial_not_equal.rhophi_eta_rhophi_z_eq, h0, VR.P.nanToNum_eq]

theorem c08_lorentz_not_equal_k_rhophi_eta_tau_xy_eta_t (coord11 coord12 coord13 coord14 coord21 coord22 coord23 coord24 : ℝ) (h0 : 0 ≤ coord14) :
    VS.lorentz_not_equal.k_rhophi_eta_tau_xy_eta_t coord11 coord12 coord13 coord14 coord21 coord22 coord23 coord24 = VR.lorentz_not_equal.k_rhophi_eta_tau_xy_eta_t coord11 coord12 coord13 coord14 coord21 coord22 coord23 coord24 := by
  simp only [VS.lorentz_not_equal.k_rhophi_eta_tau_xy_eta_t, VR.lorentz_not_equal.k_rhophi_eta_tau_xy_eta_t, c08_lorentz_t_rhophi_eta_tau, VS.lorentz_t.xy_eta_t_eq, VS.spatial_not_equal.rhophi_eta_xy_eta_eq, h0, VR.P.nanToNum_eq]

theorem c08_lorentz_not_equal_k_rhophi_eta_tau_xy_theta_t (coord11 coord12 coord13 coord14 coord21 coord22 coord23 coord24 : ℝ) (h0 : 0 ≤ coord14) :
    VS.lorentz_not_equal.k_rhophi_eta_tau_xy_theta_t coord11 coord12 coord13 coord14 coord21 coord22 coord23 coord24 = VR.lorentz_not_equal.k_rhophi_eta_tau_xy_theta_t coord11 coord12 coord13 coord14 coord21 coord22 coord23 coord24 := by
  simp only [VS.lorentz_not_equal.k_rhophi_eta_tau_xy_theta_t, VR.lorentz_not_equal.k_rhophi_eta_tau_xy_theta_t, c08_lorentz_t_rhophi_eta_tau, VS.lorentz_t.xy_theta_t_eq, VS.spatial_not_equal.rhophi_eta_xy_theta_eq, h0, VR.P.nanToNum_eq]

theorem c08_lorentz_not_equal_k_rhophi_eta_tau_xy_z_t (coord11 coord12 coord13 coord14 coord21 coord22 coord23 coord24 : ℝ) (h0 : 0 ≤ coord14) :
    VS.lorentz_not_equal.k_rhophi_eta_tau_xy_z_t coord11 coord12 coord13 coord14 coord21 coord22 coord23 coord24 = VR.lorentz_not_equal.k_rhophi_eta_tau_xy_z_t coord11 coord12 coord13 coord14 coord21 coord22 coord23 coord24 := by
  simp only [VS.lorentz_not_equal.k_rhophi_eta_tau_xy_z_t, VR.lorentz_not_equal.k_rhophi_eta_tau_xy_z_t, c08_lorentz_t_rhophi_eta_tau, VS.lorentz_t.xy_z_t_eq, VS.spatial_not_equal.rhophi_eta_xy_z_eq, h0, VR.P.nanToNum_eq]

theorem c08_lorentz_not_equal_k_rhophi_theta_t_rhophi_eta_tau (coord11 coord12 coord13 coord14 coord21 coord22 coord23 coord24 : ℝ) (h0 : 0 ≤ coord24) :
    VS.lorentz_not_equal.k_rhophi_theta_t_rhophi_eta_tau coord11 coord12 coord13 coord14 coord21 coord22 coord23 coord24 = VR.lorentz_not_equal.k_rhophi_theta_t_rhophi_eta_tau coord11 coord12 coord13 coord14 coord21 coord22 coord23 coord24 := by
  simp only [VS.lorentz_not_equal.k_rhophi_theta_t_rhophi_eta_tau, VR.lorentz_not_equal.k_rhophi_theta_t_rhophi_eta_tau, VS.lorentz_t.rhophi_theta_t_eq, c08_lorentz_t_rhophi_eta_tau, VS.spatial_not_equal.rhophi_theta_rhophi_eta_eq, h0, VR.P.nanToNum_eq]

theorem c08_lorentz_not_equal_k_rhophi_theta_t_rhophi_theta_tau (coord11 coord12 coord13 coord14 coord21 coord22 coord23 coord24 : ℝ) (h0 : 0 ≤ coord24) :
    VS.lorentz_not_equal.k_rhophi_theta_t_rhophi_theta_tau coord11 coord12 coord13 coord14 coord21 coord22 coord23 coord24 = VR.lorentz_not_equal.k_rhophi_theta_t_rhophi_theta_tau coord11 coord12 coord13 coord14 coord21 coord22 coord23 coord24 := by
  simp only [VS.lorentz_not_equal.k_rhophi_theta_t_rhophi_theta_tau, VR.lorentz_not_equal.k_rhophi_theta_t_rhophi_theta_tau, VS.lorentz_t.rhophi_theta_t_eq, c08_lorentz_t_rhophi_theta_tau, VS.spatial_not_equal.rhophi_theta_rhophi_theta_eq, h0, VR.P.nanToNum_eq]

theorem c08_lorentz_not_equal_k_rhophi_theta_t_rhophi_z_tau (coord11 coord12 coord13 coord14 coord21 coord22 coord23 coord24 : ℝ) (h0 : 0 ≤ coord24) :
    VS.lorentz_not_equal.k_rhophi_theta_t_rhophi_z_tau coord11 coord12 coord13 coord14 coord21 coord22 coord23 coord24 = VR.lorentz_not_equal.k_rhophi_theta_t_rhophi_z_tau coord11 coord12 coord13 coord14 coord21 coord22 coord23 coord24 := by
  simp only [VS.lorentz_not_equal.k_rhophi_theta_t_rhophi_z_tau, VR.lorentz_not_equal.k_rhophi_theta_t_rhophi_z_tau, VS.lorentz_t.rhophi_theta_t_eq, c08_lorentz_t_rhophi_z_tau, VS.spatial_not_equal.rhophi_theta_rhophi_z_eq, h0, VR.P.nanToNum_eq]

theorem c08_lorentz_not_equal_k_rhophi_theta_t_xy_eta_tau (coord11 coord12 coord13 coord14 coord21 coord22 coord23 coord24 : ℝ) (h0 : 0 ≤ coord24) :
    VS.lorentz_not_equal.k_rhophi_theta_t_xy_eta_tau coord11 coord12 coord13 coord14 coord21 coord22 coord23 coord24 = VR.lorentz_not_equal.k_rhophi_theta_t_xy_eta_tau coord11 coord12 coord13 coord14 coord21 coord22 coord23 coord24 := by
  simp only [VS.lorentz_not_equal.k_rhophi_theta_t_xy_eta_tau, VR.lorentz_not_equal.k_rhophi_theta_t_xy_eta_tau, VS.lorentz_t.rhophi_theta_t_eq, c08_lorentz_t_xy_eta_tau, VS.spatial_not_equal.rhophi_theta_xy_eta_eq, h0, VR.P.nanToNum_eq]

theorem c08_lorentz_not_equal_k_rhophi_theta_t_xy_theta_tau (coord11 coord12 coord13 coord14 coord21 coord22 coord23 coord24 : ℝ) (h0 : 0 ≤ coord24) :
    VS.lorentz_not_equal.k_rhophi_theta_t_xy_theta_tau coord11 coord12 coord13 coord14 coord21 coord22 coord23 coord24 = VR.lorentz_not_equal.k_rhophi_theta_t_xy_theta_tau coord11 coord12 coord13 coord14 coord21 coord22 coord23 coord24 := by
  simp only [VS.lorentz_not_equal.k_rhophi_theta_t_xy_theta_tau, VR.lorentz_not_equal.k_rhophi_theta_t_xy_theta_tau, VS.lorentz_t.rhophi_theta_t_eq, c08_lorentz_t_xy_theta_tau, VS.spatial_not_equal.rhophi_theta_xy_theta_eq, h0, VR.P.nanToNum_eq]

theorem c08_lorentz_not_equal_k_rhophi_theta_t_xy_z_tau (coord11 coord12 coord13 coord14 coord21 coord22 coord23 coord24 : ℝ) (h0 : 0 ≤ coord24) :
    VS.lorentz_not_equal.k_rhophi_theta_t_xy_z_tau coord11 coord12 coord13 coord14 coord21 coord22 coord23 coord24 = VR.lorentz_not_equal.k_rhophi_theta_t_xy_z_tau coord11 coord12 coord13 coord14 coord21 coord22 coord23 coord24 := by
  simp only [VS.lorentz_not_equal.k_rhophi_theta_t_xy_z_tau, VR.lorentz_not_equal.k_rhophi_theta_t_xy_z_tau, VS.lorentz_t.rhophi_theta_t_eq, c08_lorentz_t_xy_z_tau, VS.spatial_not_equal.rhophi_theta_xy_z_eq, h0, VR.P.nanToNum_eq]

theorem c08_lorentz_not_equal_k_rhophi_theta_tau_rhophi_eta_t (coord11 coord12 coord13 coord14 coord21 coord22 coord23 coord24 : ℝ) (h0 : 0 ≤ coord14) :
    VS.lorentz_not_equal.k_rhophi_theta_tau_rhophi_eta_t coord11 coord12 coord13 coord14 coord21 coord22 coord23 coord24 = VR.lorentz_not_equal.k_rhophi_theta_tau_rhophi_eta_t coord11 coord12 coord13 coord14 coord21 coord22 coord23 coord24 := by
  simp only [VS.lorentz_not_equal.k_rhophi_theta_tau_rhophi_eta_t, VR.lorentz_not_equal.k_rhophi_theta_tau_rhophi_eta_t, c08_lorentz_t_rhophi_theta_tau, VS.lorentz_t.rhophi_eta_t_eq, VS.spatial_not_equal.rhophi_theta_rhophi_eta_eq, h0, VR.P.nanToNum_eq]

theorem c08_lorentz_not_equal_k_rhophi_theta_tau_rhophi_theta_t (coord11 coord12 coord13 coord14 coord21 coord22 coord23 coord24 : ℝ) (h0 : 0 ≤ coord14) :
    VS.lorentz_not_equal.k_rhophi_theta_tau_rhophi_theta_t coord11 coord12 coord13 coord14 coord21 coord22 coord23 coord24 = VR.lorentz_not_equal.k_rhophi_theta_tau_rhophi_theta_t coord11 coord12 coord13 coord14 coord21 coord22 coord23 coord24 := by
  simp only [VS.lorentz_not_equal.k_rhophi_theta_tau_rhophi_theta_t, VR.lorentz_not_equal.k_rhophi_theta_tau_rhophi_theta_t, c08_lorentz_t_rhophi_theta_tau, VS.lorentz_t.rhophi_theta_t_eq, VS.spatial_not_equal.rhophi_theta_rhophi_theta_eq, h0, VR.P.nanToNum_eq]

theorem c08_lorentz_not_equal_k_rhophi_theta_tau_rhophi_z_t (coord11 coord12 coord13 coord14 coord21 coord22 coord23 coord24 : ℝ) (h0 : 0 ≤ coord14) :
    VS.lorentz_not_equal.k_rhophi_theta_tau_rhophi_z_t coord11 coord12 coord13 coord14 coord21 coord22 coord23 coord24 = VR.lorentz_not_equal.k_rhophi_theta_tau_rhophi_z_t coord11 coord12 coord13 coord14 coord21 coord22 coord23 coord24 := by
  simp only [VS.lorentz_not_equal.k_rhophi_theta_tau_rhophi_z_t, VR.lorentz_not_equal.k_rhophi_theta_tau_rhophi_z_t, c08_lorentz_t_rhophi_theta_tau, VS.lorentz_t.rhophi_z_t_eq, VS.spatial_not_equal.rhophi_theta_rhophi_z_eq, h0, VR.P.nanToNum_eq]

theorem c08_lorentz_not_equal_k_rhophi_theta_tau_xy_eta_t (coord11 coord12 coord13 coord14 coord21 coord22 coord23 coord24 : ℝ) (h0 : 0 ≤ coord14) :
    VS.lorentz_not_equal.k_rhophi_theta_tau_xy_eta_t coord11 coord12 coord13 coord14 coord21 coord22 coord23 coord24 = VR.lorentz_not_equal.k_rhophi_theta_tau_xy_eta_t coord11 coord12 coord13 coord14 coord21 coord22 coord23 coord24 := by
  simp only [VS.lorentz_not_equal.k_rhophi_theta_tau_xy_eta_t, VR.lorentz_not_equal.k_rhophi_theta_tau_xy_eta_t, c08_lorentz_t_rhophi_theta_tau, VS.lorentz_t.xy_eta_t_eq, VS.spatial_not_equal.rhophi_theta_xy_eta_eq, h0, VR.P.nanToNum_eq]

theorem c08_lorentz_not_equal_k_rhophi_theta_tau_xy_theta_t (coord11 coord12 coord13 coord14 coord21 coord22 coord23 coord24 : ℝ) (h0 : 0 ≤ coord14) :
    VS.lorentz_not_equal.k_rhophi_theta_tau_xy_theta_t coord11 coord12 coord13 coord14 coord21 coord22 coord23 coord24 = VR.lorentz_not_equal.k_rhophi_theta_tau_xy_theta_t coord11 coord12 coord13 coord14 coord21 coord22 coord23 coord24 := by
  simp only [VS.lorentz_not_equal.k_rhophi_theta_tau_xy_theta_t, VR.lorentz_not_equal.k_rhophi_theta_tau_xy_theta_t, c08_lorentz_t_rhophi_theta_tau, VS.lorentz_t.xy_theta_t_eq, VS.spatial_not_equal.rhophi_theta_xy_theta_eq, h0, VR.P.nanToNum_eq]

theorem c08_lorentz_not_equal_k_rhophi_theta_tau_xy_z_t (coord11 coord12 coord13 coord14 coord21 coord22 coord23 coord24 : ℝ) (h0 : 0 ≤ coord14) :
    VS.lorentz_not_equal.k_rhophi_theta_tau_xy_z_t coord11 coord12 coord13 coord14 coord21 coord22 coord23 coord24 = VR.lorentz_not_equal.k_rhophi_theta_tau_xy_z_t coord11 coord12 coord13 coord14 coord21 coord22 coord23 coord24 := by
  simp only [VS.lorentz_not_equal.k_rhophi_theta_tau_xy_z_t, VR.lorentz_not_equal.k_rhophi_theta_tau_xy_z_t, c08_lorentz_t_rhophi_theta_tau, VS.lorentz_t.xy_z_t_eq, VS.spatial_not_equal.rhophi_theta_xy_z_eq, h0, VR.P.nanToNum_eq]

theorem c08_lorentz_not_equal_k_rhophi_z_t_rhophi_eta_tau (coord11 coord12 coord13 coord14 coord21 coord22 coord23 coord24 : ℝ) (h0 : 0 ≤ coord24) :
    VS.lorentz_not_equal.k_rhophi_z_t_rhophi_eta_tau coord11 coord12 coord13 coord14 coord21 coord22 coord23 coord24 = VR.lorentz_not_equal.k_rhophi_z_t_rhophi_eta_tau coord11 coord12 coord13 coord14 coord21 coord22 coord23 coord24 := by
  simp only [VS.lorentz_not_equal.k_rhophi_z_t_rhophi_eta_tau, VR.lorentz_not_equal.k_rhophi_z_t_rhophi_eta_tau, VS.lorentz_t.rhophi_z_t_eq, c08_lorentz_t_rhophi_eta_tau, VS.spatial_not_equal.rhophi_z_rhophi_eta_eq, h0, VR.P.nanToNum_eq]

theorem c08_lorentz_not_equal_k_rhophi_z_t_rhophi_theta_tau (coord11 coord12 coord13 coord14 coord21 coord22 coord23 coord24 : ℝ) (h0 : 0 ≤ coord24) :
    VS.lorentz_not_equal.k_rhophi_z_t_rhophi_theta_tau coord11 coord12 coord13 coord14 coord21 coord22 coord23 coord24 = VR.lorentz_not_equal.k_rhophi_z_t_rhophi_theta_tau coord11 coord12 coord13 coord14 coord21 coord22 coord23 coord24 := by
  simp only [VS.lorentz_not_equal.k_rhophi_z_t_rhophi_theta_tau, VR.lorentz_not_equal.k_rhophi_z_t_rhophi_theta_tau, VS.lorentz_t.rhophi_z_t_eq, c08_lorentz_t_rhophi_theta_tau, VS.spatial_not_equal.rhophi_z_rhophi_theta_eq, h0, VR.P.nanToNum_eq]

theorem c08_lorentz_not_equal_k_rhophi_z_t_rhophi_z_tau (coord11 coord12 coord13 coord14 coord21 coord22 coord23 coord24 : ℝ) (h0 : 0 ≤ coord24) :
    VS.lorentz_not_equal.k_rhophi_z_t_rhophi_z_tau coord11 coord12 coord13 coord14 coord21 coord22 coord23 coord24 = VR.lorentz_not_equal.k_rhophi_z_t_rhophi_z_tau coord11 coord12 coord13 coord14 coord21 coord22 coord23 coord24 := by
  simp only [VS.lorentz_not_equal.k_rhophi_z_t_rhophi_z_tau, VR.lorentz_not_equal.k_rhophi_z_t_rhophi_z_tau, VS.lorentz_t.rhophi_z_t_eq, c08_lorentz_t_rhophi_z_tau, VS.spatial_not_equal.rhophi_z_rhophi_z_eq, h0, VR.P.nanToNum_eq]

theorem c08_lorentz_not_equal_k_rhophi_z_t_xy_eta_tau (coord11 coord12 coord13 coord14 coord21 coord22 coord23 coord24 : ℝ) (h0 : 0 ≤ coord24) :
    VS.lorentz_not_equal.k_rhophi_z_t_xy_eta_tau coord11 coord12 coord13 coord14 coord21 coord22 coord23 coord24 = VR.lorentz_not_equal.k_rhophi_z_t_xy_eta_tau coord11 coord12 coord13 coord14 coord21 coord22 coord23 coord24 := by
  simp only [VS.lorentz_not_equal.k_rhophi_z_t_xy_eta_tau, VR.lorentz_not_equal.k_rhophi_z_t_xy_eta_tau, VS.lorentz_t.rhophi_z_t_eq, c08_lorentz_t_xy_eta_tau, VS.spatial_not_equal.rhophi_z_xy_eta_eq, h0, VR.P.nanToNum_eq]

theorem c08_lorentz_not_equal_k_rhophi_z_t_xy_theta_tau (coord11 coord12 coord13 coord14 coord21 coord22 coord23 coord24 : ℝ) (h0 : 0 ≤ coord24) :
    VS.lorentz_not_equal.k_rhophi_z_t_xy_theta_tau coord11 coord12 coord13 coord14 coord21 coord22 coord23 coord24 = VR.lorentz_not_equal.k_rhophi_z_t_xy_theta_tau coord11 coord12 coord13 coord14 coord21 coord22 coord23 coord24 := by
  simp only [VS.lorentz_not_equal.k_rhophi_z_t_xy_theta_tau, VR.lorentz_not_equal.k_rhophi_z_t_xy_theta_tau, VS.lorentz_t.rhophi_z_t_eq, c08_lorentz_t_xy_theta_tau, VS.spatial_not_equal.rhophi_z_xy_theta_eq, h0, VR.P.nanToNum_eq]

theorem c08_lorentz_not_equal_k_rhophi_z_t_xy_z_tau (coord11 coord12 coord13 coord14 coord21 coord22 coord23 coord24 : ℝ) (h0 : 0 ≤ coord24) :
    VS.lorentz_not_equal.k_rhophi_z_t_xy_z_tau coord11 coord12 coord13 coord14 coord21 coord22 coord23 coord24 = VR.lorentz_not_equal.k_rhophi_z_t_xy_z_tau coord11 coord12 coord13 coord14 coord21 coord22 coord23 coord24 := by
  simp only [VS.lorentz_not_equal.k_rhophi_z_t_xy_z_tau, VR.lorentz_not_equal.k_rhophi_z_t_xy_z_tau, VS.lorentz_t.rhophi_z_t_eq, c08_lorentz_t_xy_z_tau, VS.spatial_not_equal.rhophi_z_xy_z_eq, h0, VR.P.nanToNum_eq]

theorem c08_lorentz_not_equal_k_rhophi_z_tau_rhophi_eta_t (coord11 coord12 coord13 coord14 coord21 coord22 coord23 coord24 : ℝ) (h0 : 0 ≤ coord14) :
    VS.lorentz_not_equal.k_rhophi_z_tau_rhophi_eta_t coord11 coord12 coord13 coord14 coord21 coord22 coord23 coord24 = VR.lorentz_not_equal.k_rhophi_z_tau_rhophi_eta_t coord11 coord12 coord13 coord14 coord21 coord22 coord23 coord24 := by
  simp only [VS.lorentz_not_equal.k_rhophi_z_tau_rhophi_eta_t, VR.lorentz_not_equal.k_rhophi_z_tau_rhophi_eta_t, c08_lorentz_t_rhophi_z_tau, VS.lorentz_t.rhophi_eta_t_eq, VS.spatial_not_equal.rhophi_z_rhophi_eta_eq, h0, VR.P.nanToNum_eq]

theorem c08_lorentz_not_equal_k_rhophi_z_tau_rhophi_theta_t (coord11 coord12 coord13 coord14 coord21 coord22 coord23 coord24 : ℝ) (h0 : 0 ≤ coord14) :
    VS.lorentz_not_equal.k_rhophi_z_tau_rhophi_theta_t coord11 coord12 coord13 coord14 coord21 coord22 coord23 coord24 = VR.lorentz_not_equal.k_rhophi_z_tau_rhophi_theta_t coord11 coord12 coord13 coord14 coord21 coord22 coord23 coord24 := by
  simp only [VS.lorentz_not_equal.k_rhophi_z_tau_rhophi_theta_t, VR.lorentz_not_equal.k_rhophi_z_tau_rhophi_theta_t, c08_lorentz_t_rhophi_z_tau, VS.lorentz_t.rhophi_theta_t_eq, VS.spatial_not_equal.rhophi_z_rhophi_theta_eq, h0, VR.P.nanToNum_eq]

theorem c08_lorentz_not_equal_k_rhophi_z_tau_rhophi_z_t (coord11 coord12 coord13 coord14 coord21 coord22 coord23 coord24 : ℝ) (h0 : 0 ≤ coord14) :
    VS.lorentz_not_equal.k_rhophi_z_tau_rhophi_z_t coord11 coord12 coord13 coord14 coord21 coord22 coord23 coord24 = VR.lorentz_not_equal.k_rhophi_z_tau_rhophi_z_t coord11 coord12 coord13 coord14 coord21 coord22 coord23 coord24 := by
  simp only [VS.lorentz_not_equal.k_rhophi_z_tau_rhophi_z_t, VR.lorentz_not_equal.k_rhophi_z_tau_rhophi_z_t, c08_lorentz_t_rhophi_z_tau, VS.lorentz_t.rhophi_z_t_eq, VS.spatial_not_equal.rhophi_z_rhophi_z_eq, h0, VR.P.nanToNum_eq]

theorem c08_lorentz_not_equal_k_rhophi_z_tau_xy_eta_t (coord11 coord12 coord13 coord14 coord21 coord22 coord23 coord24 : ℝ) (h0 : 0 ≤ coord14) :
    VS.lorentz_not_equal.k_rhophi_z_tau_xy_eta_t coord11 coord12 coord13 coord14 coord21 coord22 coord23 coord24 = VR.lorentz_not_equal.k_rhophi_z_tau_xy_eta_t coord11 coord12 coord13 coord14 coord21 coord22 coord23 coord24 := by
  simp only [VS.lorentz_not_equal.k_rhophi_z_tau_xy_eta_t, VR.lorentz_not_equal.k_rhophi_z_tau_xy_eta_t, c08_lorentz_t_rhophi_z_tau, VS.lorentz_t.xy_eta_t_eq, VS.spatial_not_equal.rhophi_z_xy_eta_eq, h0, VR.P.nanToNum_eq]

theorem c08_lorentz_not_equal_k_rhophi_z_tau_xy_theta_t (coord11 coord12 coord13 coord14 coord21 coord22 coord23 coord24 : ℝ) (h0 : 0 ≤ coord14) :
    VS.lorentz_not_equal.k_rhophi_z_tau_xy_theta_t coord11 coord12 coord13 coord14 coord21 coord22 coord23 coord24 = VR.lorentz_not_equal.k_rhophi_z_tau_xy_theta_t coord11 coord12 coord13 coord14 coord21 coord22 coord23 coord24 := by
  simp only [VS.lorentz_not_equal.k_rhophi_z_tau_xy_theta_t, VR.lorentz_not_equal.k_rhophi_z_tau_xy_theta_t, c08_lorentz_t_rhophi_z_tau, VS.lorentz_t.xy_theta_t_eq, VS.spatial_not_equal.rhophi_z_xy_theta_eq, h0, VR.P.nanToNum_eq]

theorem c08_lorentz_not_equal_k_rhophi_z_tau_xy_z_t (coord11 coord12 coord13 coord14 coord21 coord22 coord23 coord24 : ℝ) (h0 : 0 ≤ coord14) :
    VS.lorentz_not_equal.k_rhophi_z_tau_xy_z_t coord11 coord12 coord13 coord14 coord21 coord22 coord23 coord24 = VR.lorentz_not_equal.k_rhophi_z_tau_xy_z_t coord11 coord12 coord13 coord14 coord21 coord22 coord23 coord24 := by
  simp only [VS.lorentz_not_equal.k_rhophi_z_tau_xy_z_t, VR.lorentz_not_equal.k_rhophi_z_tau_xy_z_t, c08_lorentz_t_rhophi_z_tau, VS.lorentz_t.xy_z_t_eq, VS.spatial_not_equal.rhophi_z_xy_z_eq, h0, VR.P.nanToNum_eq]

theorem c08_lorentz_not_equal_k_xy_eta_t_rhophi_eta_tau (coord11 coord12 coord13 coord14 coord21 coord22 coord23 coord24 : ℝ) (h0 : 0 ≤ coord24) :
    VS.lorentz_not_equal.k_xy_eta_t_rhophi_eta_tau coord11 coord12 coord13 coord14 coord21 coord22 coord23 coord24 = VR.lorentz_not_equal.k_xy_eta_t_rhophi_eta_tau coord11 coord12 coord13 coord14 coord21 coord22 coord23 coord24 := by
  simp only [VS.lorentz_not_equal.k_xy_eta_t_rhophi_eta_tau, VR.lorentz_not_equal.k_xy_eta_t_rhophi_eta_tau, VS.lorentz_t.xy_eta_t_eq, c08_lorentz_t_rhophi_eta_tau, VS.spatial_not_equal.xy_eta_rhophi_eta_eq, h0, VR.P.nanToNum_eq]

theorem c08_lorentz_not_equal_k_xy_eta_t_rhophi_theta_tau (coord11 coord12 coord13 coord14 coord21 coord22 coord23 coord24 : ℝ) (h0 : 0 ≤ coord24) :
    VS.lorentz_not_equal.k_xy_eta_t_rhophi_theta_tau coord11 coord12 coord13 coord14 coord21 coord22 coord23 coord24 = VR.lorentz_not_equal.k_xy_eta_t_rhophi_theta_tau coord11 coord12 coord13 coord14 coord21 coord22 coord23 coord24 := by
  simp only [VS.lorentz_not_equal.k_xy_eta_t_rhophi_theta_tau, VR.lorentz_not_equal.k_xy_eta_t_rhophi_theta_tau, VS.lorentz_t.xy_eta_t_eq, c08_lorentz_t_rhophi_theta_tau, VS.spatial_not_equal.xy_eta_rhophi_theta_eq, h0, VR.P.nanToNum_eq]

theorem c08_lorentz_not_equal_k_xy_eta_t_rhophi_z_tau (coord11 coord12 coord13 coord14 coord21 coord22 coord23 coord24 : ℝ) (h0 : 0 ≤ coord24) :
    VS.lorentz_not_equal.k_xy_eta_t_rhophi_z_tau coord11 coord12 coord13 coord14 coord21 coord22 coord23 coord24 = VR.lorentz_not_equal.k_xy_eta_t_rhophi_z_tau coord11 coord12 coord13 coord14 coord21 coord22 coord23 coord24 := by
  simp only [VS.lorentz_not_equal.k_xy_eta_t_rhophi_z_tau, VR.lorentz_not_equal.k_xy_eta_t_rhophi_z_tau, VS.lorentz_t.xy_eta_t_eq, c08_lorentz_t_rhophi_z_tau, VS.spatial_not_equal.xy_eta_rhophi_z_eq, h0, VR.P.nanToNum_eq]

theorem c08_lorentz_not_equal_k_xy_eta_t_xy_eta_tau (coord11 coord12 coord13 coord14 coord21 coord22 coord23 coord24 : ℝ) (h0 : 0 ≤ coord24) :
    VS.lorentz_not_equal.k_xy_eta_t_xy_eta_tau coord11 coord12 coord13 coord14 coord21 coord22 coord23 coord24 = VR.lorentz_not_equal.k_xy_eta_t_xy_eta_tau coord11 coord12 coord13 coord14 coord21 coord22 coord23 coord24 := by
  simp only [VS.lorentz_not_equal.k_xy_eta_t_xy_eta_tau, VR.lorentz_not_equal.k_xy_eta_t_xy_eta_tau, VS.lorentz_t.xy_eta_t_eq, c08_lorentz_t_xy_eta_tau, VS.spatial_not_equal.xy_eta_xy_eta_eq, h0, VR.P.nanToNum_eq]

theorem c08_lorentz_not_equal_k_xy_eta_t_xy_theta_tau (coord11 coord12 coord13 coord14 coord21 coord22 coord23 coord24 : ℝ) (h0 : 0 ≤ coord24) :
    VS.lorentz_not_equal.k_xy_eta_t_xy_theta_tau coord11 coord12 coord13 coord14 coord21 coord22 coord23 coord24 = VR.lorentz_not_equal.k_xy_eta_t_xy_theta_tau coord11 coord12 coord13 coord14 coord21 coord22 coord23 coord24 := by
  simp only [VS.lorentz_not_equal.k_xy_eta_t_xy_theta_tau, VR.lorentz_not_equal.k_xy_eta_t_xy_theta_tau, VS.lorentz_t.xy_eta_t_eq, c08_lorentz_t_xy_theta_tau, VS.spatial_not_equal.xy_eta_xy_theta_eq, h0, VR.P.nanToNum_eq]

theorem c08_lorentz_not_equal_k_xy_eta_t_xy_z_tau (coord11 coord12 coord13 coord14 coord21 coord22 coord23 coord24 : ℝ) (h0 : 0 ≤ coord24) :
    VS.lorentz_not_equal.k_xy_eta_t_xy_z_tau coord11 coord12 coord13 coord14 coord21 coord22 coord23 coord24 = VR.lorentz_not_equal.k_xy_eta_t_xy_z_tau coord11 coord12 coord13 coord14 coord21 coord22 coord23 coord24 := by
  simp only [VS.lorentz_not_equal.k_xy_eta_t_xy_z_tau, VR.lorentz_not_equal.k_xy_eta_t_xy_z_tau, VS.lorentz_t.xy_eta_t_eq, c08_lorentz_t_xy_z_tau, VS.spatial_not_equal.xy_eta_xy_z_eq, h0, VR.P.nanToNum_eq]

theorem c08_lorentz_not_equal_k_xy_eta_tau_rhophi_eta_t (coord11 coord12 coord13 coord14 coord21 coord22 coord23 coord24 : ℝ) (h0 : 0 ≤ coord14) :
    VS.lorentz_not_equal.k_xy_eta_tau_rhophi_eta_t coord11 coord12 coord13 coord14 coord21 coord22 coord23 coord24 = VR.lorentz_not_equal.k_xy_eta_tau_rhophi_eta_t coord11 coord12 coord13 coord14 coord21 coord22 coord23 coord24 := by
  simp only [VS.lorentz_not_equal.k_xy_eta_tau_rhophi_eta_t, VR.lorentz_not_equal.k_xy_eta_tau_rhophi_eta_t, c08_lorentz_t_xy_eta_tau, VS.lorentz_t.rhophi_eta_t_eq, VS.spatial_not_equal.xy_eta_rhophi_eta_eq, h0, VR.P.nanToNum_eq]

theorem c08_lorentz_not_equal_k_xy_eta_tau_rhophi_theta_t (coord11 coord12 coord13 coord14 coord21 coord22 coord23 coord24 : ℝ) (h0 : 0 ≤ coord14) :
    VS.lorentz_not_equal.k_xy_eta_tau_rhophi_theta_t coord11 coord12 coord13 coord14 coord21 coord22 coord23 coord24 = VR.lorentz_not_equal.k_xy_eta_tau_rhophi_theta_t coord11 coord12 coord13 coord14 coord21 coord22 coord23 coord24 := by
  simp only [VS.lorentz_not_equal.k_xy_eta_tau_rhophi_theta_t, VR.lorentz_not_equal.k_xy_eta_tau_rhophi_theta_t, c08_lorentz_t_xy_eta_tau, VS.lorentz_t.rhophi_theta_t_eq, VS.spatial_not_equal.xy_eta_rhophi_theta_eq, h0, VR.P.nanToNum_eq]

theorem c08_lorentz_not_equal_k_xy_eta_tau_rhophi_z_t (coord11 coord12 coord13 coord14 coord21 coord22 coord23 coord24 : ℝ) (h0 : 0 ≤ coord14) :
    VS.lorentz_not_equal.k_xy_eta_tau_rhophi_z_t coord11 coord12 coord13 coord14 coord21 coord22 coord23 coord24 = VR.lorentz_not_equal.k_xy_eta_tau_rhophi_z_t coord11 coord12 coord13 coord14 coord21 coord22 coord23 coord24 := by
  simp only [VS.lorentz_not_equal.k_xy_eta_tau_rhophi_z_t, VR.lorentz_not_equal.k_xy_eta_tau_rhophi_z_t, c08_lorentz_t_xy_eta_tau, VS.lorentz_t.rhophi_z_t_eq, VS.spatial_not_equal.xy_eta_rhophi_z_eq, h0, VR.P.nanToNum_eq]

theorem c08_lorentz_not_equal_k_xy_eta_tau_xy_eta_t (coord11 coord12 coord13 coord14 coord21 coord22 coord23 coord24 : ℝ) (h0 : 0 ≤ coord14) :
    VS.lorentz_not_equal.k_xy_eta_tau_xy_eta_t coord11 coord12 coord13 coord14 coord21 coord22 coord23 coord24 = VR.lorentz_not_equal.k_xy_eta_tau_xy_eta_t coord11 coord12 coord13 coord14 coord21 coord22 coord23 coord24 := by
  simp only [VS.lorentz_not_equal.k_xy_eta_tau_xy_eta_t, VR.lorentz_not_equal.k_xy_eta_tau_xy_eta_t, c08_lorentz_t_xy_eta_tau, VS.lorentz_t.xy_eta_t_eq, VS.spatial_not_equal.xy_eta_xy_eta_eq, h0, VR.P.nanToNum_eq]

theorem c08_lorentz_not_equal_k_xy_eta_tau_xy_theta_t (coord11 coord12 coord13 coord14 coord21 coord22 coord23 coord24 : ℝ) (h0 : 0 ≤ coord14) :
    VS.lorentz_not_equal.k_xy_eta_tau_xy_theta_t coord11 coord12 coord13 coord14 coord21 coord22 coord23 coord24 = VR.lorentz_not_equal.k_xy_eta_tau_xy_theta_t coord11 coord12 coord13 coord14 coord21 coord22 coord23 coord24 := by
  simp only [VS.lorentz_not_equal.k_xy_eta_tau_xy_theta_t, VR.lorentz_not_equal.k_xy_eta_tau_xy_theta_t, c08_lorentz_t_xy_eta_tau, VS.lorentz_t.xy_theta_t_eq, VS.spatial_not_equal.xy_eta_xy_theta_eq, h0, VR.P.nanToNum_eq]

theorem c08_lorentz_not_equal_k_xy_eta_tau_xy_z_t (coord11 coord12 coord13 coord14 coord21 coord22 coord23 coord24 : ℝ) (h0 : 0 ≤ coord14) :
    VS.lorentz_not_equal.k_xy_eta_tau_xy_z_t coord11 coord12 coord13 coord14 coord21 coord22 coord23 coord24 = VR.lorentz_not_equal.k_xy_eta_tau_xy_z_t coord11 coord12 coord13 coord14 coord21 coord22 coord23 coord24 := by
  simp only [VS.lorentz_not_equal.k_xy_eta_tau_xy_z_t, VR.lorentz_not_equal.k_xy_eta_tau_xy_z_t, c08_lorentz_t_xy_eta_tau, VS.lorentz_t.xy_z_t_eq, VS.spatial_not_equal.xy_eta_xy_z_eq, h0, VR.P.nanToNum_eq]

theorem c08_lorentz_not_equal_k_xy_theta_t_rhophi_eta_tau (coord11 coord12 coord13 coord14 coord21 coord22 coord23 coord24 : ℝ) (h0 : 0 ≤ coord24) :
    VS.lorentz_not_equal.k_xy_theta_t_rhophi_eta_tau coord11 coord12 coord13 coord14 coord21 coord22 coord23 coord24 = VR.lorentz_not_equal.k_xy_theta_t_rhophi_eta_tau coord11 coord12 coord13 coord14 coord21 coord22 coord23 coord24 := by
  simp only [VS.lorentz_not_equal.k_xy_theta_t_rhophi_eta_tau, VR.lorentz_not_equal.k_xy_theta_t_rhophi_eta_tau, VS.lorentz_t.xy_theta_t_eq, c08_lorentz_t_rhophi_eta_tau, VS.spatial_not_equal.xy_theta_rhophi_eta_eq, h0, VR.P.nanToNum_eq]

theorem c08_lorentz_not_equal_k_xy_theta_t_rhophi_theta_tau (coord11 coord12 coord13 coord14 coord21 coord22 coord23 coord24 : ℝ) (h0 : 0 ≤ coord24) :
    VS.lorentz_not_equal.k_xy_theta_t_rhophi_theta_tau coord11 coord12 coord13 coord14 coord21 coord22 coord23 coord24 = VR.lorentz_not_equal.k_xy_theta_t_rhophi_theta_tau coord11 coord12 coord13 coord14 coord21 coord22 coord23 coord24 := by
  simp only [VS.lorentz_not_equal.k_xy_theta_t_rhophi_theta_tau, VR.lorentz_not_equal.k_xy_theta_t_rhophi_theta_tau, VS.lorentz_t.xy_theta_t_eq, c08_lorentz_t_rhophi_theta_tau, VS.spatial_not_equal.xy_theta_rhophi_theta_eq, h0, VR.P.nanToNum_eq]

theorem c08_lorentz_not_equal_k_xy_theta_t_rhophi_z_tau (coord11 coord12 coord13 coord14 coord21 coord22 coord23 coord24 : ℝ) (h0 : 0 ≤ coord24) :
    VS.lorentz_not_equal.k_xy_theta_t_rhophi_z_tau coord11 coord12 coord13 coord14 coord21 coord22 coord23 coord24 = VR.lorentz_not_equal.k_xy_theta_t_rhophi_z_tau coord11 coord12 coord13 coord14 coord21 coord22 coord23 coord24 := by
  simp only [VS.lorentz_not_equal.k_xy_theta_t_rhophi_z_tau, VR.lorentz_not_equal.k_xy_theta_t_rhophi_z_tau, VS.lorentz_t.xy_theta_t_eq, c08_lorentz_t_rhophi_z_tau, VS.spatial_not_equal.xy_theta_rhophi_z_eq, h0, VR.P.nanToNum_eq]

theorem c08_lorentz_not_equal_k_xy_theta_t_xy_eta_tau (coord11 coord12 coord13 coord14 coord21 coord22 coord23 coord24 : ℝ) (h0 : 0 ≤ coord24) :
    VS.lorentz_not_equal.k_xy_theta_t_xy_eta_tau coord11 coord12 coord13 coord14 coord21 coord22 coord23 coord24 = VR.lorentz_not_equal.k_xy_theta_t_xy_eta_tau coord11 coord12 coord13 coord14 coord21 coord22 coord23 coord24 := by
  simp only [VS.lorentz_not_equal.k_xy_theta_t_xy_eta_tau, VR.lorentz_not_equal.k_xy_theta_t_xy_eta_tau, VS.lorentz_t.xy_theta_t_eq, c08_lorentz_t_xy_eta_tau, VS.spatial_not_equal.xy_theta_xy_eta_eq, h0, VR.P.nanToNum_eq]

theorem c08_lorentz_not_equal_k_xy_theta_t_xy_theta_tau (coord11 coord12 coord13 coord14 coord21 coord22 coord23 coord24 : ℝ) (h0 : 0 ≤ coord24) :
    VS.lorentz_not_equal.k_xy_theta_t_xy_theta_tau coord11 coord12 coord13 coord14 coord21 coord22 coord23 coord24 = VR.lorentz_not_equal.k_xy_theta_t_xy_theta_tau coord11 coord12 coord13 coord14 coord21 coord22 coord23 coord24 := by
  simp only [VS.lorentz_not_equal.k_xy_theta_t_xy_theta_tau, VR.lorentz_not_equal.k_xy_theta_t_xy_theta_tau, VS.lorentz_t.xy_theta_t_eq, c08_lorentz_t_xy_theta_tau, VS.spatial_not_equal.xy_theta_xy_theta_eq, h0, VR.P.nanToNum_eq]

theorem c08_lorentz_not_equal_k_xy_theta_t_xy_z_tau (coord11 coord12 coord13 coord14 coord21 coord22 coord23 coord24 : ℝ) (h0 : 0 ≤ coord24) :
    VS.lorentz_not_equal.k_xy_theta_t_xy_z_tau coord11 coord12 coord13 coord14 coord21 coord22 coord23 coord24 = VR.lorentz_not_equal.k_xy_theta_t_xy_z_tau coord11 coord12 coord13 coord14 coord21 coord22 coord23 coord24 := by
  simp only [VS.lorentz_not_equal.k_xy_theta_t_xy_z_tau, VR.lorentz_not_equal.k_xy_theta_t_xy_z_tau, VS.lorentz_t.xy_theta_t_eq, c08_lorentz_t_xy_z_tau, VS.spatial_not_equal.xy_theta_xy_z_eq, h0, VR.P.nanToNum_eq]

theorem c08_lorentz_not_equal_k_xy_theta_tau_rhophi_eta_t (coord11 coord12 coord13 coord14 coord21 coord22 coord23 coord24 : ℝ) (h0 : 0 ≤ coord14) :
    VS.lorentz_not_equal.k_xy_theta_tau_rhophi_eta_t coord11 coord12 coord13 coord14 coord21 coord22 coord23 coord24 = VR.lorentz_not_equal.k_xy_theta_tau_rhophi_eta_t coord11 coord12 coord13 coord14 coord21 coord22 coord23 coord24 := by
  simp only [VS.lorentz_not_equal.k_xy_theta_tau_rhophi_eta_t, VR.lorentz_not_equal.k_xy_theta_tau_rhophi_eta_t, c08_lorentz_t_xy_theta_tau, VS.lorentz_t.rhophi_eta_t_eq, VS.spatial_not_equal.xy_theta_rhophi_eta_eq, h0, VR.P.nanToNum_eq]

theorem c08_lorentz_not_equal_k_xy_theta_tau_rhophi_theta_t (coord11 coord12 coord13 coord14 coord21 coord22 coord23 coord24 : ℝ) (h0 : 0 ≤ coord14) :
    VS.lorentz_not_equal.k_xy_theta_tau_rhophi_theta_t coord11 coord12 coord13 coord14 coord21 coord22 coord23 coord24 = VR.lorentz_not_equal.k_xy_theta_tau_rhophi_theta_t coord11 coord12 coord13 coord14 coord21 coord22 coord23 coord24 := by
  simp only [VS.lorentz_not_equal.k_xy_theta_tau_rhophi_theta_t, VR.lorentz_not_equal.k_xy_theta_tau_rhophi_theta_t, c08_lorentz_t_xy_theta_tau, VS.lorentz_t.rhophi_theta_t_eq, VS.spatial_not_equal.xy_theta_rhophi_theta_eq, h0, VR.P.nanToNum_eq]

theorem c08_lorentz_not_equal_k_xy_theta_tau_rhophi_z_t (coord11 coord12 coord13 coord14 coord21 coord22 coord23 coord24 : ℝ) (h0 : 0 ≤ coord14) :
    VS.lorentz_not_equal.k_xy_theta_tau_rhophi_z_t coord11 coord12 coord13 coord14 coord21 coord22 coord23 coord24 = VR.lorentz_not_equal.k_xy_theta_tau_rhophi_z_t coord11 coord12 coord13 coord14 coord21 coord22 coord23 coord24 := by
  simp only [VS.lorentz_not_equal.k_xy_theta_tau_rhophi_z_t, VR.lorentz_not_equal.k_xy_theta_tau_rhophi_z_t, c08_lorentz_t_xy_theta_tau, VS.lorentz_t.rhophi_z_t_eq, VS.spatial_not_equal.xy_theta_rhophi_z_eq, h0, VR.P.nanToNum_eq]

theorem c08_lorentz_not_equal_k_xy_theta_tau_xy_eta_t (coord11 coord12 coord13 coord14 coord21 coord22 coord23 coord24 : ℝ) (h0 : 0 ≤ coord14) :
    VS.lorentz_not_equal.k_xy_theta_tau_xy_eta_t coord11 coord12 coord13 coord14 coord21 coord22 coord23 coord24 = VR.lorentz_not_equal.k_xy_theta_tau_xy_eta_t coord11 coord12 coord13 coord14 coord21 coord22 coord23 coord24 := by
  simp only [VS.lorentz_not_equal.k_xy_theta_tau_xy_eta_t, VR.lorentz_not_equal.k_xy_theta_tau_xy_eta_t, c08_lorentz_t_xy_theta_tau, VS.lorentz_t.xy_eta_t_eq, VS.spatial_not_equal.xy_theta_xy_eta_eq, h0, VR.P.nanToNum_eq]

theorem c08_lorentz_not_equal_k_xy_theta_tau_xy_theta_t (coord11 coord12 coord13 coord14 coord21 coord22 coord23 coord24 : ℝ) (h0 : 0 ≤ coord14) :
    VS.lorentz_not_equal.k_xy_theta_tau_xy_theta_t coord11 coord12 coord13 coord14 coord21 coord22 coord23 coord24 = VR.lorentz_not_equal.k_xy_theta_tau_xy_theta_t coord11 coord12 coord13 coord14 coord21 coord22 coord23 coord24 := by
  simp only [VS.lorentz_not_equal.k_xy_theta_tau_xy_theta_t, VR.lorentz_not_equal.k_xy_theta_tau_xy_theta_t, c08_lorentz_t_xy_theta_tau, VS.lorentz_t.xy_theta_t_eq, VS.spatial_not_equal.xy_theta_xy_theta_eq, h0, VR.P.nanToNum_eq]

theorem c08_lorentz_not_equal_k_xy_theta_tau_xy_z_t (coord11 coord12 coord13 coord14 coord21 coord22 coord23 coord24 : ℝ) (h0 : 0 ≤ coord14) :
    VS.lorentz_not_equal.k_xy_theta_tau_xy_z_t coord11 coord12 coord13 coord14 coord21 coord22 coord23 coord24 = VR.lorentz_not_equal.k_xy_theta_tau_xy_z_t coord11 coord12 coord13 coord14 coord21 coord22 coord23 coord24 := by
  simp only [VS.lorentz_not_equal.k_xy_theta_tau_xy_z_t, VR.lorentz_not_equal.k_xy_theta_tau_xy_z_t, c08_lorentz_t_xy_theta_tau, VS.lorentz_t.xy_z_t_eq, VS.spatial_not_equal.xy_theta_xy_z_eq, h0, VR.P.nanToNum_eq]

theorem c08_lorentz_not_equal_k_xy_z_t_rhophi_eta_tau (coord11 coord12 coord13 coord14 coord21 coord22 coord23 coord24 : ℝ) (h0 : 0 ≤ coord24) :
    VS.lorentz_not_equal.k_xy_z_t_rhophi_eta_tau coord11 coord12 coord13 coord14 coord21 coord22 coord23 coord24 = VR.lorentz_not_equal.k_xy_z_t_rhophi_eta_tau coord11 coord12 coord13 coord14 coord21 coord22 coord23 coord24 := by
  simp only [VS.lorentz_not_equal.k_xy_z_t_rhophi_eta_tau, VR.lorentz_not_equal.k_xy_z_t_rhophi_eta_tau, VS.lorentz_t.xy_z_t_eq, c08_lorentz_t_rhophi_eta_tau, VS.spatial_not_equal.xy_z_rhophi_eta_eq, h0, VR.P.nanToNum_eq]

theorem c08_lorentz_not_equal_k_xy_z_t_rhophi_theta_tau (coord11 coord12 coord13 coord14 coord21 coord22 coord23 coord24 : ℝ) (h0 : 0 ≤ coord24) :
    VS.lorentz_not_equal.k_xy_z_t_rhophi_theta_tau coord11 coord12 coord13 coord14 coord21 coord22 coord23 coord24 = VR.lorentz_not_equal.k_xy_z_t_rhophi_theta_tau coord11 coord12 coord13 coord14 coord21 coord22 coord23 coord24 := by
  simp only [VS.lorentz_not_equal.k_xy_z_t_rhophi_theta_tau, VR.lorentz_not_equal.k_xy_z_t_rhophi_theta_tau, VS.lorentz_t.xy_z_t_eq, c08_lorentz_t_rhophi_theta_tau, VS.spatial_not_equal.xy_z_rhophi_theta_eq, h0, VR.P.nanToNum_eq]

theorem c08_lorentz_not_equal_k_xy_z_t_rhophi_z_tau (coord11 coord12 coord13 coord14 coord21 coord22 coord23 coord24 : ℝ) (h0 : 0 ≤ coord24) :
    VS.lorentz_not_equal.k_xy_z_t_rhophi_z_tau coord11 coord12 coord13 coord14 coord21 coord22 coord23 coord24 = VR.lorentz_not_equal.k_xy_z_t_rhophi_z_tau coord11 coord12 coord13 coord14 coord21 coord22 coord23 coord24 := by
  simp only [VS.lorentz_not_equal.k_xy_z_t_rhophi_z_tau, VR.lorentz_not_equal.k_xy_z_t_rhophi_z_tau, VS.lorentz_t.xy_z_t_eq, c08_lorentz_t_rhophi_z_tau, VS.spatial_not_equal.xy_z_rhophi_z_eq, h0, VR.P.nanToNum_eq]

theorem c08_lorentz_not_equal_k_xy_z_t_xy_eta_tau (coord11 coord12 coord13 coord14 coord21 coord22 coord23 coord24 : ℝ) (h0 : 0 ≤ coord24) :
    VS.lorentz_not_equal.k_xy_z_t_xy_eta_tau coord11 coord12 coord13 coord14 coord21 coord22 coord23 coord24 = VR.lorentz_not_equal.k_xy_z_t_xy_eta_tau coord11 coord12 coord13 coord14 coord21 coord22 coord23 coord24 := by
  simp only [VS.lorentz_not_equal.k_xy_z_t_xy_eta_tau, VR.lorentz_not_equal.k_xy_z_t_xy_eta_tau, VS.lorentz_t.xy_z_t_eq, c08_lorentz_t_xy_eta_tau, VS.spatial_not_equal.xy_z_xy_eta_eq, h0, VR.P.nanToNum_eq]

theorem c08_lorentz_not_equal_k_xy_z_t_xy_theta_tau (coord11 coord12 coord13 coord14 coord21 coord22 coord23 coord24 : ℝ) (h0 : 0 ≤ coord24) :
    VS.lorentz_not_equal.k_xy_z_t_xy_theta_tau coord11 coord12 coord13 coord14 coord21 coord22 coord23 coord24 = VR.lorentz_not_equal.k_xy_z_t_xy_theta_tau coord11 coord12 coord13 coord14 coord21 coord22 coord23 coord24 := by
  simp only [VS.lorentz_not_equal.k_xy_z_t_xy_theta_tau, VR.lorentz_not_equal.k_xy_z_t_xy_theta_tau, VS.lorentz_t.xy_z_t_eq, c08_lorentz_t_xy_theta_tau, VS.spatial_not_equal.xy_z_xy_theta_eq, h0, VR.P.nanToNum_eq]

theorem c08_lorentz_not_equal_k_xy_z_t_xy_z_tau (coord11 coord12 coord13 coord14 coord21 coord22 coord23 coord24 : ℝ) (h0 : 0 ≤ coord24) :
    VS.lorentz_not_equal.k_xy_z_t_xy_z_tau coord11 coord12 coord13 coord14 coord21 coord22 coord23 coord24 = VR.lorentz_not_equal.k_xy_z_t_xy_z_tau coord11 coord12 coord13 coord14 coord21 coord22 coord23 coord24 := by
  simp only [VS.lorentz_not_equal.k_xy_z_t_xy_z_tau, VR.lorentz_not_equal.k_xy_z_t_xy_z_tau, VS.lorentz_t.xy_z_t_eq, c08_lorentz_t_xy_z_tau, VS.spatial_not_equal.xy_z_xy_z_eq, h0, VR.P.nanToNum_eq]

theorem c08_lorentz_not_equal_k_xy_z_tau_rhophi_eta_t (coord11 coord12 coord13 coord14 coord21 coord22 coord23 coord24 : ℝ) (h0 : 0 ≤ coord14) :
    VS.lorentz_not_equal.k_xy_z_tau_rhophi_eta_t coord11 coord12 coord13 coord14 coord21 coord22 coord23 coord24 = VR.lorentz_not_equal.k_xy_z_tau_rhophi_eta_t coord11 coord12 coord13 coord14 coord21 coord22 coord23 coord24 := by
  simp only [VS.lorentz_not_equal.k_xy_z_tau_rhophi_eta_t, VR.lorentz_not_equal.k_xy_z_tau_rhophi_eta_t, c08_lorentz_t_xy_z_tau, VS.lorentz_t.rhophi_eta_t_eq, VS.spatial_not_equal.xy_z_rhophi_eta_eq, h0, VR.P.nanToNum_eq]

theorem c08_lorentz_not_equal_k_xy_z_tau_rhophi_theta_t (coord11 coord12 coord13 coord14 coord21 coord22 coord23 coord24 : ℝ) (h0 : 0 ≤ coord14) :
    VS.lorentz_not_equal.k_xy_z_tau_rhophi_theta_t coord11 coord12 coord13 coord14 coord21 coord22 coord23 coord24 = VR.lorentz_not_equal.k_xy_z_tau_rhophi_theta_t coord11 coord12 coord13 coord14 coord21 coord22 coord23 coord24 := by
  simp only [VS.lorentz_not_equal.k_xy_z_tau_rhophi_theta_t, VR.lorentz_not_equal.k_xy_z_tau_rhophi_theta_t, c08_lorentz_t_xy_z_tau, VS.lorentz_t.rhophi_theta_t_eq, VS.spatial_not_equal.xy_z_rhophi_theta_eq, h0, VR.P.nanToNum_eq]

theorem c08_lorentz_not_equal_k_xy_z_tau_rhophi_z_t (coord11 coord12 coord13 coord14 coord21 coord22 coord23 coord24 : ℝ) (h0 : 0 ≤ coord14) :
    VS.lorentz_not_equal.k_xy_z_tau_rhophi_z_t coord11 coord12 coord13 coord14 coord21 coord22 coord23 coord24 = VR.lorentz_not_equal.k_xy_z_tau_rhophi_z_t coord11 coord12 coord13 coord14 coord21 coord22 coord23 coord24 := by
  simp only [VS.lorentz_not_equal.k_xy_z_tau_rhophi_z_t, VR.lorentz_not_equal.k_xy_z_tau_rhophi_z_t, c08_lorentz_t_xy_z_tau, VS.lorentz_t.rhophi_z_t_eq, VS.spatial_not_equal.xy_z_rhophi_z_eq, h0, VR.P.nanToNum_eq]

theorem c08_lorentz_not_equal_k_xy_z_tau_xy_eta_t (coord11 coord12 coord13 coord14 coord21 coord22 coord23 coord24 : ℝ) (h0 : 0 ≤ coord14) :
    VS.lorentz_not_equal.k_xy_z_tau_xy_eta_t coord11 coord12 coord13 coord14 coord21 coord22 coord23 coord24 = VR.lorentz_not_equal.k_xy_z_tau_xy_eta_t coord11 coord12 coord13 coord14 coord21 coord22 coord23 coord24 := by
  simp only [VS.lorentz_not_equal.k_xy_z_tau_xy_eta_t, VR.lorentz_not_equal.k_xy_z_tau_xy_eta_t, c08_lorentz_t_xy_z_tau, VS.lorentz_t.xy_eta_t_eq, VS.spatial_not_equal.xy_z_xy_eta_eq, h0, VR.P.nanToNum_eq]

theorem c08_lorentz_not_equal_k_xy_z_tau_xy_theta_t (coord11 coord12 coord13 coord14 coord21 coord22 coord23 coord24 : ℝ) (h0 : 0 ≤ coord14) :
    VS.lorentz_not_equal.k_xy_z_tau_xy_theta_t coord11 coord12 coord13 coord14 coord21 coord22 coord23 coord24 = VR.lorentz_not_equal.k_xy_z_tau_xy_theta_t coord11 coord12 coord13 coord14 coord21 coord22 coord23 coord24 := by
  simp only [VS.lorentz_not_equal.k_xy_z_tau_xy_theta_t, VR.lorentz_not_equal.k_xy_z_tau_xy_theta_t, c08_lorentz_t_xy_z_tau, VS.lorentz_t.xy_theta_t_eq, VS.spatial_not_equal.xy_z_xy_theta_eq, h0, VR.P.nanToNum_eq]

theorem c08_lorentz_not_equal_k_xy_z_tau_xy_z_t (coord11 coord12 coord13 coord14 coord21 coord22 coord23 coord24 : ℝ) (h0 : 0 ≤ coord14) :
    VS.lorentz_not_equal.k_xy_z_tau_xy_z_t coord11 coord12 coord13 coord14 coord21 coord22 coord23 coord24 = VR.lorentz_not_equal.k_xy_z_tau_xy_z_t coord11 coord12 coord13 coord14 coord21 coord22 coord23 coord24 := by
  simp only [VS.lorentz_not_equal.k_xy_z_tau_xy_z_t, VR.lorentz_not_equal.k_xy_z_tau_xy_z_t, c08_lorentz_t_xy_z_tau, VS.lorentz_t.xy_z_t_eq, VS.spatial_not_equal.xy_z_xy_z_eq, h0, VR.P.nanToNum_eq]


/-! ### `lorentz_rapidity` -/

theorem c08_lorentz_rapidity_rhophi_eta_tau (rho phi eta tau : ℝ) (h0 : 0 ≤ tau) :
    VS.lorentz_rapidity.rhophi_eta_tau rho phi eta tau = VR.lorentz_rapidity.rhophi_eta_tau rho phi eta tau := by
  simp only [VS.lorentz_rapidity.rhophi_eta_tau, VR.lorentz_rapidity.rhophi_eta_tau, VS.lorentz_rapidity.rhophi_z_t_eq, VS.spatial_z.rhophi_eta_eq, c08_lorentz_t_rhophi_eta_tau, h0, VR.P.nanToNum_eq]

theorem c08_lorentz_rapidity_rhophi_theta_tau (rho phi theta tau : ℝ) (h0 : 0 ≤ tau) :
    VS.lorentz_rapidity.rhophi_theta_tau rho phi theta tau = VR.lorentz_rapidity.rhophi_theta_tau rho phi theta tau := by
  simp only [VS.lorentz_rapidity.rhophi_theta_tau, VR.lorentz_rapidity.rhophi_theta_tau, VS.lorentz_rapidity.rhophi_z_t_eq, VS.spatial_z.rhophi_theta_eq, c08_lorentz_t_rhophi_theta_tau, h0, VR.P.nanToNum_eq]

theorem c08_lorentz_rapidity_rhophi_z_tau (rho phi z tau : ℝ) (h0 : 0 ≤ tau) :
    VS.lorentz_rapidity.rhophi_z_tau rho phi z tau = VR.lorentz_rapidity.rhophi_z_tau rho phi z tau := by
  simp only [VS.lorentz_rapidity.rhophi_z_tau, VR.lorentz_rapidity.rhophi_z_tau, VS.lorentz_rapidity.rhophi_z_t_eq, c08_lorentz_t_rhophi_z_tau, h0, VR.P.nanToNum_eq]

theorem c08_lorentz_rapidity_xy_eta_tau (x y eta tau : ℝ) (h0 : 0 ≤ tau) :
    VS.lorentz_rapidity.xy_eta_tau x y eta tau = VR.lorentz_rapidity.xy_eta_tau x y eta tau := by
  simp only [VS.lorentz_rapidity.xy_eta_tau, VR.lorentz_rapidity.xy_eta_tau, VS.lorentz_rapidity.xy_z_t_eq, VS.spatial_z.xy_eta_eq, c08_lorentz_t_xy_eta_tau, h0, VR.P.nanToNum_eq]

theorem c08_lorentz_rapidity_xy_theta_tau (x y theta tau : ℝ) (h0 : 0 ≤ tau) :
    VS.lorentz_rapidity.xy_theta_tau x y theta tau = VR.lorentz_rapidity.xy_theta_tau x y theta tau := by
  simp only [VS.lorentz_rapidity.xy_theta_tau, VR.lorentz_rapidity.xy_theta_tau, VS.lorentz_rapidity.xy_z_t_eq, VS.spatial_z.xy_theta_eq, c08_lorentz_t_xy_theta_tau, h0, VR.P.nanToNum_eq]

theorem c08_lorentz_rapidity_xy_z_tau (x y z tau : ℝ) (h0 : 0 ≤ tau) :
    VS.lorentz_rapidity.xy_z_tau x y z tau = VR.lorentz_rapidity.xy_z_tau x y z tau := by
  simp only [VS.lorentz_rapidity.xy_z_tau, VR.lorentz_rapidity.xy_z_tau, VS.lorentz_rapidity.xy_z_t_eq, c08_lorentz_t_xy_z_tau, h0, VR.P.nanToNum_eq]


/-! ### `lorentz_subtract` -/

theorem c08_lorentz_subtract_k_rhophi_eta_t_rhophi_eta_tau (coord11 coord12 coord13 coord14 coord21 coord22 coord23 coord24 : ℝ) (h0 : 0 ≤ coord24) :
    VS.lorentz_subtract.k_rhophi_eta_t_rhophi_eta_tau coord11 coord12 coord13 coord14 coord21 coord22 coord23 coord24 = VR.lorentz_subtract.k_rhophi_eta_t_rhophi_eta_tau coord11 coord12 coord13 coord14 coord21 coord22 coord23 coord24 := by
  simp only [VS.lorentz_subtract.k_rhophi_eta_t_rhophi_eta_tau, VR.lorentz_subtract.k_rhophi_eta_t_rhophi_eta_tau, VS.spatial_subtract.rhophi_eta_rhophi_eta_eq, VS.lorentz_t.rhophi_eta_t_eq, c08_lorentz_t_rhophi_eta_tau, h0, VR.P.nanToNum_eq]

theorem c08_lorentz_subtract_k_rhophi_eta_t_rhophi_theta_tau (coord11 coord12 coord13 coord14 coord21 coord22 coord23 coord24 : ℝ) (h0 : 0 ≤ coord24) :
    VS.lorentz_subtract.k_rhophi_eta_t_rhophi_theta_tau coord11 coord12 coord13 coord14 coord21 coord22 coord23 coord24 = VR.lorentz_subtract.k_rhophi_eta_t_rhophi_theta_tau coord11 coord12 coord13 coord14 coord21 coord22 coord23 coord24 := by
  simp only [VS.lorentz_subtract.k_rhophi_eta_t_rhophi_theta_tau, VR.lorentz_subtract.k_rhophi_eta_t_rhophi_theta_tau, VS.spatial_subtract.rhophi_eta_rhophi_theta_eq, VS.lorentz_t.rhophi_eta_t_eq, c08_lorentz_t_rhophi_theta_tau, h0, VR.P.nanToNum_eq]

theorem c08_lorentz_subtract_k_rhophi_eta_t_rhophi_z_tau (coord11 coord12 coord13 coord14 coord21 coord22 coord23 coord24 : ℝ) (h0 : 0 ≤ coord24) :
    VS.lorentz_subtract.k_rhophi_eta_t_rhophi_z_tau coord11 coord12 coord13 coord14 coord21 coord22 coord23 coord24 = VR.lorentz_subtract.k_rhophi_eta_t_rhophi_z_tau coord11 coord12 coord13 coord14 coord21 coord22 coord23 coord24 := by
  simp only [VS.lorentz_subtract.k_rhophi_eta_t_rhophi_z_tau, VR.lorentz_subtract.k_rhophi_eta_t_rhophi_z_tau, VS.spatial_subtract.rhophi_eta_rhophi_z_eq, VS.lorentz_t.rhophi_eta_t_eq, c08_lorentz_t_rhophi_z_tau, h0, VR.P.nanToNum_eq]

theorem c08_lorentz_subtract_k_rhophi_eta_t_xy_eta_tau (coord11 coord12 coord13 coord14 coord21 coord22 coord23 coord24 : ℝ) (h0 : 0 ≤ coord24) :
    VS.lorentz_subtract.k_rhophi_eta_t_xy_eta_tau coord11 coord12 coord13 coord14 coord21 coord22 coord23 coord24 = VR.lorentz_subtract.k_rhophi_eta_t_xy_eta_tau coord11 coord12 coord13 coord14 coord21 coord22 coord23 coord24 := by
  simp only [VS.lorentz_subtract.k_rhophi_eta_t_xy_eta_tau, VR.lorentz_subtract.k_rhophi_eta_t_xy_eta_tau, VS.spatial_subtract.rhophi_eta_xy_eta_eq, VS.lorentz_t.rhophi_eta_t_eq, c08_lorentz_t_xy_eta_tau, h0, VR.P.nanToNum_eq]

theorem c08_lorentz_subtract_k_rhophi_eta_t_xy_theta_tau (coord11 coord12 coord13 coord14 coord21 coord22 coord23 coord24 : ℝ) (h0 : 0 ≤ coord24) :
    VS.lorentz_subtract.k_rhophi_eta_t_xy_theta_tau coord11 coord12 coord13 coord14 coord21 coord22 coord23 coord24 = VR.lorentz_subtract.k_rhophi_eta_t_xy_theta_tau coord11 coord12 coord13 coord14 coord21 coord22 coord23 coord24 := by
  simp only [VS.lorentz_subtract.k_rhophi_eta_t_xy_theta_tau, VR.lorentz_subtract.k_rhophi_eta_t_xy_theta_tau, VS.spatial_subtract.rhophi_eta_xy_theta_eq, VS.lorentz_t.rhophi_eta_t_eq, c08_lorentz_t_xy_theta_tau, h0, VR.P.nanToNum_eq]

theorem c08_lorentz_subtract_k_rhophi_eta_t_xy_z_tau (coord11 coord12 coord13 coord14 coord21 coord22 coord23 coord24 : ℝ) (h0 : 0 ≤ coord24) :
    VS.lorentz_subtract.k_rhophi_eta_t_xy_z_tau coord11 coord12 coord13 coord14 coord21 coord22 coord23 coord24 = VR.lorentz_subtract.k_rhophi_eta_t_xy_z_tau coord11 coord12 coord13 coord14 coord21 coord22 coord23 coord24 := by
  simp only [VS.lorentz_subtract.k_rhophi_eta_t_xy_z_tau, VR.lorentz_subtract.k_rhophi_eta_t_xy_z_tau, VS.spatial_subtract.rhophi_eta_xy_z_eq, VS.lorentz_t.rhophi_eta_t_eq, c08_lorentz_t_xy_z_tau, h0, VR.P.nanToNum_eq]

theorem c08_lorentz_subtract_k_rhophi_eta_tau_rhophi_eta_t (coord11 coord12 coord13 coord14 coord21 coord22 coord23 coord24 : ℝ) (h0 : 0 ≤ coord14) :
    VS.lorentz_subtract.k_rhophi_eta_tau_rhophi_eta_t coord11 coord12 coord13 coord14 coord21 coord22 coord23 coord24 = VR.lorentz_subtract.k_rhophi_eta_tau_rhophi_eta_t coord11 coord12 coord13 coord14 coord21 coord22 coord23 coord24 := by
  simp only [VS.lorentz_subtract.k_rhophi_eta_tau_rhophi_eta_t, VR.lorentz_subtract.k_rhophi_eta_tau_rhophi_eta_t, VS.spatial_subtract.rhophi_eta_rhophi_eta_eq, c08_lorentz_t_rhophi_eta_tau, VS.lorentz_t.rhophi_eta_t_eq, h0, VR.P.nanToNum_eq]

theorem c08_lorentz_subtract_k_rhophi_eta_tau_rhophi_eta_tau (coord11 coord12 coord13 coord14 coord21 coord22 coord23 coord24 : ℝ) (h0 : 0 ≤ coord14) (h1 : 0 ≤ coord24) (hres : 0 ≤ (VR.lorentz_subtract.k_rhophi_eta_tau_rhophi_eta_tau coord11 coord12 coord13 coord14 coord21 coord22 coord23 coord24).2.2.2) :
    VS.lorentz_subtract.k_rhophi_eta_tau_rhophi_eta_tau coord11 coord12 coord13 coord14 coord21 coord22 coord23 coord24 = VR.lorentz_subtract.k_rhophi_eta_tau_rhophi_eta_tau coord11 coord12 coord13 coord14 coord21 coord22 coord23 coord24 := by
  simp only [VR.lorentz_subtract.k_rhophi_eta_tau_rhophi_eta_tau] at hres
  simp only [VS.lorentz_subtract.k_rhophi_eta_tau_rhophi_eta_tau, VR.lorentz_subtract.k_rhophi_eta_tau_rhophi_eta_tau, VS.spatial_subtract.rhophi_eta_rhophi_eta_eq, c08_lorentz_t_rhophi_eta_tau, c08_lorentz_tau_rhophi_eta_t, h0, h1, VR.P.nanToNum_eq]
  rw [c08_lorentz_tau_rhophi_eta_t_of_result _ _ _ _ hres]

theorem c08_lorentz_subtract_k_rhophi_eta_tau_rhophi_theta_t (coord11 coord12 coord13 coord14 coord21 coord22 coord23 coord24 : ℝ) (h0 : 0 ≤ coord14) :
    VS.lorentz_subtract.k_rhophi_eta_tau_rhophi_theta_t coord11 coord12 coord13 coord14 coord21 coord22 coord23 coord24 = VR.lorentz_subtract.k_rhophi_eta_tau_rhophi_theta_t coord11 coord12 coord13 coord14 coord21 coord22 coord23 coord24 := by
  simp only [VS.lorentz_subtract.k_rhophi_eta_tau_rhophi_theta_t, VR.lorentz_subtract.k_rhophi_eta_tau_rhophi_theta_t, VS.spatial_subtract.rhophi_eta_rhophi_theta_eq, c08_lorentz_t_rhophi_eta_tau, VS.lorentz_t.rhophi_theta_t_eq, h0, VR.P.nanToNum_eq]

theorem c08_lorentz_subtract_k_rhophi_eta_tau_rhophi_theta_tau (coord11 coord12 coord13 coord14 coord21 coord22 coord23 coord24 : ℝ) (h0 : 0 ≤ coord14) (h1 : 0 ≤ coord24) (hres : 0 ≤ (VR.lorentz_subtract.k_rhophi_eta_tau_rhophi_theta_tau coord11 coord12 coord13 coord14 coord21 coord22 coord23 coord24).2.2.2) :
    VS.lorentz_subtract.k_rhophi_eta_tau_rhophi_theta_tau coord11 coord12 coord13 coord14 coord21 coord22 coord23 coord24 = VR.lorentz_subtract.k_rhophi_eta_tau_rhophi_theta_tau coord11 coord12 coord13 coord14 coord21 coord22 coord23 coord24 := by
  simp only [VR.lorentz_subtract.k_rhophi_eta_tau_rhophi_theta_tau] at hres
  simp only [VS.lorentz_subtract.k_rhophi_eta_tau_rhophi_theta_tau, VR.lorentz_subtract.k_rhophi_eta_tau_rhophi_theta_tau, VS.spatial_subtract.rhophi_eta_rhophi_theta_eq, c08_lorentz_t_rhophi_eta_tau, c08_lorentz_t_rhophi_theta_tau, c08_lorentz_tau_xy_z_t, h0, h1, VR.P.nanToNum_eq]
  rw [c08_lorentz_tau_xy_z_t_of_result _ _ _ _ hres]

theorem c08_lorentz_subtract_k_rhophi_eta_tau_rhophi_z_t (coord11 coord12 coord13 coord14 coord21 coord22 coord23 coord24 : ℝ) (h0 : 0 ≤ coord14) :
    VS.lorentz_subtract.k_rhophi_eta_tau_rhophi_z_t coord11 coord12 coord13 coord14 coord21 coord22 coord23 coord24 = VR.lorentz_subtract.k_rhophi_eta_tau_rhophi_z_t coord11 coord12 coord13 coord14 coord21 coord22 coord23 coord24 := by
  simp only [VS.lorentz_subtract.k_rhophi_eta_tau_rhophi_z_t, VR.lorentz_subtract.k_rhophi_eta_tau_rhophi_z_t, VS.spatial_subtract.rhophi_eta_rhophi_z_eq, c08_lorentz_t_rhophi_eta_tau, VS.lorentz_t.rhophi_z_t_eq, h0, VR.P.nanToNum_eq]

theorem c08_lorentz_subtract_k_rhophi_eta_tau_rhophi_z_tau (coord11 coord12 coord13 coord14 coord21 coord22 coord23 coord24 : ℝ) (h0 : 0 ≤ coord14) (h1 : 0 ≤ coord24) (hres : 0 ≤ (VR.lorentz_subtract.k_rhophi_eta_tau_rhophi_z_tau coord11 coord12 coord13 coord14 coord21 coord22 coord23 coord24).2.2.2) :
    VS.lorentz_subtract.k_rhophi_eta_tau_rhophi_z_tau coord11 coord12 coord13 coord14 coord21 coord22 coord23 coord24 = VR.lorentz_subtract.k_rhophi_eta_tau_rhophi_z_tau coord11 coord12 coord13 coord14 coord21 coord22 coord23 coord24 := by
  simp only [VR.lorentz_subtract.k_rhophi_eta_tau_rhophi_z_tau] at hres
  simp only [VS.lorentz_subtract.k_rhophi_eta_tau_rhophi_z_tau, VR.lorentz_subtract.k_rhophi_eta_tau_rhophi_z_tau, VS.spatial_subtract.rhophi_eta_rhophi_z_eq, c08_lorentz_t_rhophi_eta_tau, c08_lorentz_t_rhophi_z_tau, c08_lorentz_tau_xy_z_t, h0, h1, VR.P.nanToNum_eq]
  rw [c08_lorentz_tau_xy_z_t_of_result _ _ _ _ hres]

theorem c08_lorentz_subtract_k_rhophi_eta_tau_xy_eta_t (coord11 coord12 coord13 coord14 coord21 coord22 coord23 coord24 : ℝ) (h0 : 0 ≤ coord14) :
    VS.lorentz_subtract.k_rhophi_eta_tau_xy_eta_t coord11 coord12 coord13 coord14 coord21 coord22 coord23 coord24 = VR.lorentz_subtract.k_rhophi_eta_tau_xy_eta_t coord11 coord12 coord13 coord14 coord21 coord22 coord23 coord24 := by
  simp only [VS.lorentz_subtract.k_rhophi_eta_tau_xy_eta_t, VR.lorentz_subtract.k_rhophi_eta_tau_xy_eta_t, VS.spatial_subtract.rhophi_eta_xy_eta_eq, c08_lorentz_t_rhophi_eta_tau, VS.lorentz_t.xy_eta_t_eq, h0, VR.P.nanToNum_eq]

theorem c08_lorentz_subtract_k_rhophi_eta_tau_xy_eta_tau (coord11 coord12 coord13 coord14 coord21 coord22 coord23 coord24 : ℝ) (h0 : 0 ≤ coord14) (h1 : 0 ≤ coord24) (hres : 0 ≤ (VR.lorentz_subtract.k_rhophi_eta_tau_xy_eta_tau coord11 coord12 coord13 coord14 coord21 coord22 coord23 coord24).2.2.2) :
    VS.lorentz_subtract.k_rhophi_eta_tau_xy_eta_tau coord11 coord12 coord13 coord14 coord21 coord22 coord23 coord24 = VR.lorentz_subtract.k_rhophi_eta_tau_xy_eta_tau coord11 coord12 coord13 coord14 coord21 coord22 coord23 coord24 := by
  simp only [VR.lorentz_subtract.k_rhophi_eta_tau_xy_eta_tau] at hres
  simp only [VS.lorentz_subtract.k_rhophi_eta_tau_xy_eta_tau, VR.lorentz_subtract.k_rhophi_eta_tau_xy_eta_tau, VS.spatial_subtract.rhophi_eta_xy_eta_eq, c08_lorentz_t_rhophi_eta_tau, c08_lorentz_t_xy_eta_tau, c08_lorentz_tau_xy_z_t, h0, h1, VR.P.nanToNum_eq]
  rw [c08_lorentz_tau_xy_z_t_of_result _ _ _ _ hres]

theorem c08_lorentz_subtract_k_rhophi_eta_tau_xy_theta_t (coord11 coord12 coord13 coord14 coord21 coord22 coord23 coord24 : ℝ) (h0 : 0 ≤ coord14) :
    VS.lorentz_subtract.k_rhophi_eta_tau_xy_theta_t coord11 coord12 coord13 coord14 coord21 coord22 coord23 coord24 = VR.lorentz_subtract.k_rhophi_eta_tau_xy_theta_t coord11 coord12 coord13 coord14 coord21 coord22 coord23 coord24 := by
  simp only [VS.lorentz_subtract.k_rhophi_eta_tau_xy_theta_t, VR.lorentz_subtract.k_rhophi_eta_tau_xy_theta_t, VS.spatial_subtract.rhophi_eta_xy_theta_eq, c08_lorentz_t_rhophi_eta_tau, VS.lorentz_t.xy_theta_t_eq, h0, VR.P.nanToNum_eq]

theorem c08_lorentz_subtract_k_rhophi_eta_tau_xy_theta_tau (coord11 coord12 coord13 coord14 coord21 coord22 coord23 coord24 : ℝ) (h0 : 0 ≤ coord14) (h1 : 0 ≤ coord24) (hres : 0 ≤ (VR.lorentz_subtract.k_rhophi_eta_tau_xy_theta_tau coord11 coord12 coord13 coord14 coord21 coord22 coord23 coord24).2.2.2) :
    VS.lorentz_subtract.k_rhophi_eta_tau_xy_theta_tau coord11 coord12 coord13 coord14 coord21 coord22 coord23 coord24 = VR.lorentz_subtract.k_rhophi_eta_tau_xy_theta_tau coord11 coord12 coord13 coord14 coord21 coord22 coord23 coord24 := by
  simp only [VR.lorentz_subtract.k_rhophi_eta_tau_xy_theta_tau] at hres
  simp only [VS.lorentz_subtract.k_rhophi_eta_tau_xy_theta_tau, VR.lorentz_subtract.k_rhophi_eta_tau_xy_theta_tau, VS.spatial_subtract.rhophi_eta_xy_theta_eq, c08_lorentz_t_rhophi_eta_tau, c08_lorentz_t_xy_theta_tau, c08_lorentz_tau_xy_z_t, h0, h1, VR.P.nanToNum_eq]
  rw [c08_lorentz_tau_xy_z_t_of_result _ _ _ _ hres]

theorem c08_lorentz_subtract_k_rhophi_eta_tau_xy_z_t (coord11 coord12 coord13 coord14 coord21 coord22 coord23 coord24 : ℝ) (h0 : 0 ≤ coord14) :
    VS.lorentz_subtract.k_rhophi_eta_tau_xy_z_t coord11 coord12 coord13 coord14 coord21 coord22 coord23 coord24 = VR.lorentz_subtract.k_rhophi_eta_tau_xy_z_t coord11 coord12 coord13 coord14 coord21 coord22 coord23 coord24 := by
  simp only [VS.lorentz_subtract.k_rhophi_eta_tau_xy_z_t, VR.lorentz_subtract.k_rhophi_eta_tau_xy_z_t, VS.spatial_subtract.rhophi_eta_xy_z_eq, c08_lorentz_t_rhophi_eta_tau, VS.lorentz_t.xy_z_t_eq, h0, VR.P.nanToNum_eq]

theorem c08_lorentz_subtract_k_rhophi_eta_tau_xy_z_tau (coord11 coord12 coord13 coord14 coord21 coord22 coord23 coord24 : ℝ) (h0 : 0 ≤ coord14) (h1 : 0 ≤ coord24) (hres : 0 ≤ (VR.lorentz_subtract.k_rhophi_eta_tau_xy_z_tau coord11 coord12 coord13 coord14 coord21 coord22 coord23 coord24).2.2.2) :
    VS.lorentz_subtract.k_rhophi_eta_tau_xy_z_tau coord11 coord12 coord13 coord14 coord21 coord22 coord23 coord24 = VR.lorentz_subtract.k_rhophi_eta_tau_xy_z_tau coord11 coord12 coord13 coord14 coord21 coord22 coord23 coord24 := by
  simp only [VR.lorentz_subtract.k_rhophi_eta_tau_xy_z_tau] at hres
  simp only [VS.lorentz_subtract.k_rhophi_eta_tau_xy_z_tau, VR.lorentz_subtract.k_rhophi_eta_tau_xy_z_tau, VS.spatial_subtract.rhophi_eta_xy_z_eq, c08_lorentz_t_rhophi_eta_tau, c08_lorentz_t_xy_z_tau, c08_lorentz_tau_xy_z_t, h0, h1, VR.P.nanToNum_eq]
  rw [c08_lorentz_tau_xy_z_t_of_result _ _ _ _ hres]

theorem c08_lorentz_subtract_k_rhophi_theta_t_rhophi_eta_tau (coord11 coord12 coord13 coord14 coord21 coord22 coord23 coord24 : ℝ) (h0 : 0 ≤ coord24) :
    VS.lorentz_subtract.k_rhophi_theta_t_rhophi_eta_tau coord11 coord12 coord13 coord14 coord21 coord22 coord23 coord24 = VR.lorentz_subtract.k_rhophi_theta_t_rhophi_eta_tau coord11 coord12 coord13 coord14 coord21 coord22 coord23 coord24 := by
  simp only [VS.lorentz_subtract.k_rhophi_theta_t_rhophi_eta_tau, VR.lorentz_subtract.k_rhophi_theta_t_rhophi_eta_tau, VS.spatial_subtract.rhophi_theta_rhophi_eta_eq, VS.lorentz_t.rhophi_theta_t_eq, c08_lorentz_t_rhophi_eta_tau, h0, VR.P.nanToNum_eq]

theorem c08_lorentz_subtract_k_rhophi_theta_t_rhophi_theta_tau (coord11 coord12 coord13 coord14 coord21 coord22 coord23 coord24 : ℝ) (h0 : 0 ≤ coord24) :
    VS.lorentz_subtract.k_rhophi_theta_t_rhophi_theta_tau coord11 coord12 coord13 coord14 coord21 coord22 coord23 coord24 = VR.lorentz_subtract.k_rhophi_theta_t_rhophi_theta_tau coord11 coord12 coord13 coord14 coord21 coord22 coord23 coord24 := by
  simp only [VS.lorentz_subtract.k_rhophi_theta_t_rhophi_theta_tau, VR.lorentz_subtract.k_rhophi_theta_t_rhophi_theta_tau, VS.spatial_subtract.rhophi_theta_rhophi_theta_eq, VS.lorentz_t.rhophi_theta_t_eq, c08_lorentz_t_rhophi_theta_tau, h0, VR.P.nanToNum_eq]

theorem c08_lorentz_subtract_k_rhophi_theta_t_rhophi_z_tau (coord11 coord12 coord13 coord14 coord21 coord22 coord23 coord24 : ℝ) (h0 : 0 ≤ coord24) :
    VS.lorentz_subtract.k_rhophi_theta_t_rhophi_z_tau coord11 coord12 coord13 coord14 coord21 coord22 coord23 coord24 = VR.lorentz_subtract.k_rhophi_theta_t_rhophi_z_tau coord11 coord12 coord13 coord14 coord21 coord22 coord23 coord24 := by
  simp only [VS.lorentz_subtract.k_rhophi_theta_t_rhophi_z_tau, VR.lorentz_subtract.k_rhophi_theta_t_rhophi_z_tau, VS.spatial_subtract.rhophi_theta_rhophi_z_eq, VS.lorentz_t.rhophi_theta_t_eq, c08_lorentz_t_rhophi_z_tau, h0, VR.P.nanToNum_eq]

theorem c08_lorentz_subtract_k_rhophi_theta_t_xy_eta_tau (coord11 coord12 coord13 coord14 coord21 coord22 coord23 coord24 : ℝ) (h0 : 0 ≤ coord24) :
    VS.lorentz_subtract.k_rhophi_theta_t_xy_eta_tau coord11 coord12 coord13 coord14 coord21 coord22 coord23 coord24 = VR.lorentz_subtract.k_rhophi_theta_t_xy_eta_tau coord11 coord12 coord13 coord14 coord21 coord22 coord23 coord24 := by
  simp only [VS.lorentz_subtract.k_rhophi_theta_t_xy_eta_tau, VR.lorentz_subtract.k_rhophi_theta_t_xy_eta_tau, VS.spatial_subtract.rhophi_theta_xy_eta_eq, VS.lorentz_t.rhophi_theta_t_eq, c08_lorentz_t_xy_eta_tau, h0, VR.P.nanToNum_eq]

theorem c08_lorentz_subtract_k_rhophi_theta_t_xy_theta_tau (coord11 coord12 coord13 coord14 coord21 coord22 coord23 coord24 : ℝ) (h0 : 0 ≤ coord24) :
    VS.lorentz_subtract.k_rhophi_theta_t_xy_theta_tau coord11 coord12 coord13 coord14 coord21 coord22 coord23 coord24 = VR.lorentz_subtract.k_rhophi_theta_t_xy_theta_tau coord11 coord12 coord13 coord14 coord21 coord22 coord23 coord24 := by
  simp only [VS.lorentz_subtract.k_rhophi_theta_t_xy_theta_tau, VR.lorentz_subtract.k_rhophi_theta_t_xy_theta_tau, VS.spatial_subtract.rhophi_theta_xy_theta_eq, VS.lorentz_t.rhophi_theta_t_eq, c08_lorentz_t_xy_theta_tau, h0, VR.P.nanToNum_eq]

theorem c08_lorentz_subtract_k_rhophi_theta_t_xy_z_tau (coord11 coord12 coord13 coord14 coord21 coord22 coord23 coord24 : ℝ) (h0 : 0 ≤ coord24) :
    VS.lorentz_subtract.k_rhophi_theta_t_xy_z_tau coord11 coord12 coord13 coord14 coord21 coord22 coord23 coord24 = VR.lorentz_subtract.k_rhophi_theta_t_xy_z_tau coord11 coord12 coord13 coord14 coord21 coord22 coord23 coord24 := by
  simp only [VS.lorentz_subtract.k_rhophi_theta_t_xy_z_tau, VR.lorentz_subtract.k_rhophi_theta_t_xy_z_tau, VS.spatial_subtract.rhophi_theta_xy_z_eq, VS.lorentz_t.rhophi_theta_t_eq, c08_lorentz_t_xy_z_tau, h0, VR.P.nanToNum_eq]

theorem c08_lorentz_subtract_k_rhophi_theta_tau_rhophi_eta_t (coord11 coord12 coord13 coord14 coord21 coord22 coord23 coord24 : ℝ) (h0 : 0 ≤ coord14) :
    VS.lorentz_subtract.k_rhophi_theta_tau_rhophi_eta_t coord11 coord12 coord13 coord14 coord21 coord22 coord23 coord24 = VR.lorentz_subtract.k_rhophi_theta_tau_rhophi_eta_t coord11 coord12 coord13 coord14 coord21 coord22 coord23 coord24 := by
  simp only [VS.lorentz_subtract.k_rhophi_theta_tau_rhophi_eta_t, VR.lorentz_subtract.k_rhophi_theta_tau_rhophi_eta_t, VS.spatial_subtract.rhophi_theta_rhophi_eta_eq, c08_lorentz_t_rhophi_theta_tau, VS.lorentz_t.rhophi_eta_t_eq, h0, VR.P.nanToNum_eq]

theorem c08_lorentz_subtract_k_rhophi_theta_tau_rhophi_eta_tau (coord11 coord12 coord13 coord14 coord21 coord22 coord23 coord24 : ℝ) (h0 : 0 ≤ coord14) (h1 : 0 ≤ coord24) (hres : 0 ≤ (VR.lorentz_subtract.k_rhophi_theta_tau_rhophi_eta_tau coord11 coord12 coord13 coord14 coord21 coord22 coord23 coord24).2.2.2) :
    VS.lorentz_subtract.k_rhophi_theta_tau_rhophi_eta_tau coord11 coord12 coord13 coord14 coord21 coord22 coord23 coord24 = VR.lorentz_subtract.k_rhophi_theta_tau_rhophi_eta_tau coord11 coord12 coord13 coord14 coord21 coord22 coord23 coord24 := by
  simp only [VR.lorentz_subtract.k_rhophi_theta_tau_rhophi_eta_tau] at hres
  simp only [VS.lorentz_subtract.k_rhophi_theta_tau_rhophi_eta_tau, VR.lorentz_subtract.k_rhophi_theta_tau_rhophi_eta_tau, VS.spatial_subtract.rhophi_theta_rhophi_eta_eq, c08_lorentz_t_rhophi_theta_tau, c08_lorentz_t_rhophi_eta_tau, c08_lorentz_tau_xy_z_t, h0, h1, VR.P.nanToNum_eq]
  rw [c08_lorentz_tau_xy_z_t_of_result _ _ _ _ hres]

theorem c08_lorentz_subtract_k_rhophi_theta_tau_rhophi_theta_t (coord11 coord12 coord13 coord14 coord21 coord22 coord23 coord24 : ℝ) (h0 : 0 ≤ coord14) :
    VS.lorentz_subtract.k_rhophi_theta_tau_rhophi_theta_t coord11 coord12 coord13 coord14 coord21 coord22 coord23 coord24 = VR.lorentz_subtract.k_rhophi_theta_tau_rhophi_theta_t coord11 coord12 coord13 coord14 coord21 coord22 coord23 coord24 := by
  simp only [VS.lorentz_subtract.k_rhophi_theta_tau_rhophi_theta_t, VR.lorentz_subtract.k_rhophi_theta_tau_rhophi_theta_t, VS.spatial_subtract.rhophi_theta_rhophi_theta_eq, c08_lorentz_t_rhophi_theta_tau, VS.lorentz_t.rhophi_theta_t_eq, h0, VR.P.nanToNum_eq]

theorem c08_lorentz_subtract_k_rhophi_theta_tau_rhophi_theta_tau (coord11 coord12 coord13 coord14 coord21 coord22 coord23 coord24 : ℝ) (h0 : 0 ≤ coord14) (h1 : 0 ≤ coord24) (hres : 0 ≤ (VR.lorentz_subtract.k_rhophi_theta_tau_rhophi_theta_tau coord11 coord12 coord13 coord14 coord21 coord22 coord23 coord24).2.2.2) :
    VS.lorentz_subtract.k_rhophi_theta_tau_rhophi_theta_tau coord11 coord12 coord13 coord14 coord21 coord22 coord23 coord24 = VR.lorentz_subtract.k_rhophi_theta_tau_rhophi_theta_tau coord11 coord12 coord13 coord14 coord21 coord22 coord23 coord24 := by
  simp only [VR.lorentz_subtract.k_rhophi_theta_tau_rhophi_theta_tau] at hres
  simp only [VS.lorentz_subtract.k_rhophi_theta_tau_rhophi_theta_tau, VR.lorentz_subtract.k_rhophi_theta_tau_rhophi_theta_tau, VS.spatial_subtract.rhophi_theta_rhophi_theta_eq, c08_lorentz_t_rhophi_theta_tau, c08_lorentz_tau_rhophi_theta_t, h0, h1, VR.P.nanToNum_eq]
  rw [c08_lorentz_tau_rhophi_theta_t_of_result _ _ _ _ hres]

theorem c08_lorentz_subtract_k_rhophi_theta_tau_rhophi_z_t (coord11 coord12 coord13 coord14 coord21 coord22 coord23 coord24 : ℝ) (h0 : 0 ≤ coord14) :
    VS.lorentz_subtract.k_rhophi_theta_tau_rhophi_z_t coord11 coord12 coord13 coord14 coord21 coord22 coord23 coord24 = VR.lorentz_subtract.k_rhophi_theta_tau_rhophi_z_t coord11 coord12 coord13 coord14 coord21 coord22 coord23 coord24 := by
  simp only [VS.lorentz_subtract.k_rhophi_theta_tau_rhophi_z_t, VR.lorentz_subtract.k_rhophi_theta_tau_rhophi_z_t, VS.spatial_subtract.rhophi_theta_rhophi_z_eq, c08_lorentz_t_rhophi_theta_tau, VS.lorentz_t.rhophi_z_t_eq, h0, VR.P.nanToNum_eq]

theorem c08_lorentz_subtract_k_rhophi_theta_tau_rhophi_z_tau (coord11 coord12 coord13 coord14 coord21 coord22 coord23 coord24 : ℝ) (h0 : 0 ≤ coord14) (h1 : 0 ≤ coord24) (hres : 0 ≤ (VR.lorentz_subtract.k_rhophi_theta_tau_rhophi_z_tau coord11 coord12 coord13 coord14 coord21 coord22 coord23 coord24).2.2.2) :
    VS.lorentz_subtract.k_rhophi_theta_tau_rhophi_z_tau coord11 coord12 coord13 coord14 coord21 coord22 coord23 coord24 = VR.lorentz_subtract.k_rhophi_theta_tau_rhophi_z_tau coord11 coord12 coord13 coord14 coord21 coord22 coord23 coord24 := by
  simp only [VR.lorentz_subtract.k_rhophi_theta_tau_rhophi_z_tau] at hres
  simp only [VS.lorentz_subtract.k_rhophi_theta_tau_rhophi_z_tau, VR.lorentz_subtract.k_rhophi_theta_tau_rhophi_z_tau, VS.spatial_subtract.rhophi_theta_rhophi_z_eq, c08_lorentz_t_rhophi_theta_tau, c08_lorentz_t_rhophi_z_tau, c08_lorentz_tau_xy_z_t, h0, h1, VR.P.nanToNum_eq]
  rw [c08_lorentz_tau_xy_z_t_of_result _ _ _ _ hres]

theorem c08_lorentz_subtract_k_rhophi_theta_tau_xy_eta_t (coord11 coord12 coord13 coord14 coord21 coord22 coord23 coord24 : ℝ) (h0 : 0 ≤ coord14) :
    VS.lorentz_subtract.k_rhophi_theta_tau_xy_eta_t coord11 coord12 coord13 coord14 coord21 coord22 coord23 coord24 = VR.lorentz_subtract.k_rhophi_theta_tau_xy_eta_t coord11 coord12 coord13 coord14 coord21 coord22 coord23 coord24 := by
  simp only [VS.lorentz_subtract.k_rhophi_theta_tau_xy_eta_t, VR.lorentz_subtract.k_rhophi_theta_tau_xy_eta_t, VS.spatial_subtract.rhophi_theta_xy_eta_eq, c08_lorentz_t_rhophi_theta_tau, VS.lorentz_t.xy_eta_t_eq, h0, VR.P.nanToNum_eq]

theorem c08_lorentz_subtract_k_rhophi_theta_tau_xy_eta_tau (coord11 coord12 coord13 coord14 coord21 coord22 coord23 coord24 : ℝ) (h0 : 0 ≤ coord14) (h1 : 0 ≤ coord24) (hres : 0 ≤ (VR.lorentz_subtract.k_rhophi_theta_tau_xy_eta_tau coord11 coord12 coord13 coord14 coord21 coord22 coord23 coord24).2.2.2) :
    VS.lorentz_subtract.k_rhophi_theta_tau_xy_eta_tau coord11 coord12 coord13 coord14 coord21 coord22 coord23 coord24 = VR.lorentz_subtract.k_rhophi_theta_tau_xy_eta_tau coord11 coord12 coord13 coord14 coord21 coord22 coord23 coord24 := by
  simp only [VR.lorentz_subtract.k_rhophi_theta_tau_xy_eta_tau] at hres
  simp only [VS.lorentz_subtract.k_rhophi_theta_tau_xy_eta_tau, VR.lorentz_subtract.k_rhophi_theta_tau_xy_eta_tau, VS.spatial_subtract.rhophi_theta_xy_eta_eq, c08_lorentz_t_rhophi_theta_tau, c08_lorentz_t_xy_eta_tau, c08_lorentz_tau_xy_z_t, h0, h1, VR.P.nanToNum_eq]
  rw [c08_lorentz_tau_xy_z_t_of_result _ _ _ _ hres]

theorem c08_lorentz_subtract_k_rhophi_theta_tau_xy_theta_t (coord11 coord12 coord13 coord14 coord21 coord22 coord23 coord24 : ℝ) (h0 : 0 ≤ coord14) :
    VS.lorentz_subtract.k_rhophi_theta_tau_xy_theta_t coord11 coord12 coord13 coord14 coord21 coord22 coord23 coord24 = VR.lorentz_subtract.k_rhophi_theta_tau_xy_theta_t coord11 coord12 coord13 coord14 coord21 coord22 coord23 coord24 := by
  simp only [VS.lorentz_subtract.k_rhophi_theta_tau_xy_theta_t, VR.lorentz_subtract.k_rhophi_theta_tau_xy_theta_t, VS.spatial_subtract.rhophi_theta_xy_theta_eq, c08_lorentz_t_rhophi_theta_tau, VS.lorentz_t.xy_theta_t_eq, h0, VR.P.nanToNum_eq]

theorem c08_lorentz_subtract_k_rhophi_theta_tau_xy_theta_tau (coord11 coord12 coord13 coord14 coord21 coord22 coord23 coord24 : ℝ) (h0 : 0 ≤ coord14) (h1 : 0 ≤ coord24) (hres : 0 ≤ (VR.lorentz_subtract.k_rhophi_theta_tau_xy_theta_tau coord11 coord12 coord13 coord14 coord21 coord22 coord23 coord24).2.2.2) :
    VS.lorentz_subtract.k_rhophi_theta_tau_xy_theta_tau coord11 coord12 coord13 coord14 coord21 coord22 coord23 coord24 = VR.lorentz_subtract.k_rhophi_theta_tau_xy_theta_tau coord11 coord12 coord13 coord14 coord21 coord22 coord23 coord24 := by
  simp only [VR.lorentz_subtract.k_rhophi_theta_tau_xy_theta_tau] at hres
  simp only [VS.lorentz_subtract.k_rhophi_theta_tau_xy_theta_tau, VR.lorentz_subtract.k_rhophi_theta_tau_xy_theta_tau, VS.spatial_subtract.rhophi_theta_xy_theta_eq, c08_lorentz_t_rhophi_theta_tau, c08_lorentz_t_xy_theta_tau, c08_lorentz_tau_xy_z_t, h0, h1, VR.P.nanToNum_eq]
  rw [c08_lorentz_tau_xy_z_t_of_result _ _ _ _ hres]

theorem c08_lorentz_subtract_k_rhophi_theta_tau_xy_z_t (coord11 coord12 coord13 coord14 coord21 coord22 coord23 coord24 : ℝ) (h0 : 0 ≤ coord14) :
    VS.lorentz_subtract.k_rhophi_theta_tau_xy_z_t coord11 coord12 coord13 coord14 coord21 coord22 coord23 coord24 = VR.lorentz_subtract.k_rhophi_theta_tau_xy_z_t coord11 coord12 coord13 coord14 coord21 coord22 coord23 coord24 := by
  simp only [VS.lorentz_subtract.k_rhophi_theta_tau_xy_z_t, VR.lorentz_subtract.k_rhophi_theta_tau_xy_z_t, VS.spatial_subtract.rhophi_theta_xy_z_eq, c08_lorentz_t_rhophi_theta_tau, VS.lorentz_t.xy_z_t_eq, h0, VR.P.nanToNum_eq]

theorem c08_lorentz_subtract_k_rhophi_theta_tau_xy_z_tau (coord11 coord12 coord13 coord14 coord21 coord22 coord23 coord24 : ℝ) (h0 : 0 ≤ coord14) (h1 : 0 ≤ coord24) (hres : 0 ≤ (VR.lorentz_subtract.k_rhophi_theta_tau_xy_z_tau coord11 coord12 coord13 coord14 coord21 coord22 coord23 coord24).2.2.2) :
    VS.lorentz_subtract.k_rhophi_theta_tau_xy_z_tau coord11 coord12 coord13 coord14 coord21 coord22 coord23 coord24 = VR.lorentz_subtract.k_rhophi_theta_tau_xy_z_tau coord11 coord12 coord13 coord14 coord21 coord22 coord23 coord24 := by
  simp only [VR.lorentz_subtract.k_rhophi_theta_tau_xy_z_tau] at hres
  simp only [VS.lorentz_subtract.k_rhophi_theta_tau_xy_z_tau, VR.lorentz_subtract.k_rhophi_theta_tau_xy_z_tau, VS.spatial_subtract.rhophi_theta_xy_z_eq, c08_lorentz_t_rhophi_theta_tau, c08_lorentz_t_xy_z_tau, c08_lorentz_tau_xy_z_t, h0, h1, VR.P.nanToNum_eq]
  rw [c08_lorentz_tau_xy_z_t_of_result _ _ _ _ hres]

theorem c08_lorentz_subtract_k_rhophi_z_t_rhophi_eta_tau (coord11 coord12 coord13 coord14 coord21 coord22 coord23 coord24 : ℝ) (h0 : 0 ≤ coord24) :
    VS.lorentz_subtract.k_rhophi_z_t_rhophi_eta_tau coord11 coord12 coord13 coord14 coord21 coord22 coord23 coord24 = VR.lorentz_subtract.k_rhophi_z_t_rhophi_eta_tau coord11 coord12 coord13 coord14 coord21 coord22 coord23 coord24 := by
  simp only [VS.lorentz_subtract.k_rhophi_z_t_rhophi_eta_tau, VR.lorentz_subtract.k_rhophi_z_t_rhophi_eta_tau, VS.spatial_subtract.rhophi_z_rhophi_eta_eq, VS.lorentz_t.rhophi_z_t_eq, c08_lorentz_t_rhophi_eta_tau, h0, VR.P.nanToNum_eq]

theorem c08_lorentz_subtract_k_rhophi_z_t_rhophi_theta_tau (coord11 coord12 coord13 coord14 coord21 coord22 coord23 coord24 : ℝ) (h0 : 0 ≤ coord24) :
    VS.lorentz_subtract.k_rhophi_z_t_rhophi_theta_tau coord11 coord12 coord13 coord14 coord21 coord22 coord23 coord24 = VR.lorentz_subtract.k_rhophi_z_t_rhophi_theta_tau coord11 coord12 coord13 coord14 coord21 coord22 coord23 coord24 := by
  simp only [VS.lorentz_subtract.k_rhophi_z_t_rhophi_theta_tau, VR.lorentz_subtract.k_rhophi_z_t_rhophi_theta_tau, VS.spatial_subtract.rhophi_z_rhophi_theta_eq, VS.lorentz_t.rhophi_z_t_eq, c08_lorentz_t_rhophi_theta_tau, h0, VR.P.nanToNum_eq]

theorem c08_lorentz_subtract_k_rhophi_z_t_rhophi_z_tau (coord11 coord12 coord13 coord14 coord21 coord22 coord23 coord24 : ℝ) (h0 : 0 ≤ coord24) :
    VS.lorentz_subtract.k_rhophi_z_t_rhophi_z_tau coord11 coord12 coord13 coord14 coord21 coord22 coord23 coord24 = VR.lorentz_subtract.k_rhophi_z_t_rhophi_z_tau coord11 coord12 coord13 coord14 coord21 coord22 coord23 coord24 := by
  simp only [VS.lorentz_subtract.k_rhophi_z_t_rhophi_z_tau, VR.lorentz_subtract.k_rhophi_z_t_rhophi_z_tau, VS.spatial_subtract.rhophi_z_rhophi_z_eq, VS.lorentz_t.rhophi_z_t_eq, c08_lorentz_t_rhophi_z_tau, h0, VR.P.nanToNum_eq]

theorem c08_lorentz_subtract_k_rhophi_z_t_xy_eta_tau (coord11 coord12 coord13 coord14 coord21 coord22 coord23 coord24 : ℝ) (h0 : 0 ≤ coord24) :
    VS.lorentz_subtract.k_rhophi_z_t_xy_eta_tau coord11 coord12 coord13 coord14 coord21 coord22 coord23 coord24 = VR.lorentz_subtract.k_rhophi_z_t_xy_eta_tau coord11 coord12 coord13 coord14 coord21 coord22 coord23 coord24 := by
  simp only [VS.lorentz_subtract.k_rhophi_z_t_xy_eta_tau, VR.lorentz_subtract.k_rhophi_z_t_xy_eta_tau, VS.spatial_subtract.rhophi_z_xy_eta_eq, VS.lorentz_t.rhophi_z_t_eq, c08_lorentz_t_xy_eta_tau, h0, VR.P.nanToNum_eq]

theorem c08_lorentz_subtract_k_rhophi_z_t_xy_theta_tau (coord11 coord12 coord13 coord14 coord21 coord22 coord23 coord24 : ℝ) (h0 : 0 ≤ coord24) :
    VS.lorentz_subtract.k_rhophi_z_t_xy_theta_tau coord11 coord12 coord13 coord14 coord21 coord22 coord23 coord24 = VR.lorentz_subtract.k_rhophi_z_t_xy_theta_tau coord11 coord12 coord13 coord14 coord21 coord22 coord23 coord24 := by
  simp only [VS.lorentz_subtract.k_rhophi_z_t_xy_theta_tau, VR.lorentz_subtract.k_rhophi_z_t_xy_theta_tau, VS.spatial_subtract.rhophi_z_xy_theta_eq, VS.lorentz_t.rhophi_z_t_eq, c08_lorentz_t_xy_theta_tau, h0, VR.P.nanToNum_eq]

theorem c08_lorentz_subtract_k_rhophi_z_t_xy_z_tau (coord11 coord12 coord13 coord14 coord21 coord22 coord23 coord24 : ℝ) (h0 : 0 ≤ coord24) :
    VS.lorentz_subtract.k_rhophi_z_t_xy_z_tau coord11 coord12 coord13 coord14 coord21 coord22 coord23 coord24 = VR.lorentz_subtract.k_rhophi_z_t_xy_z_tau coord11 coord12 coord13 coord14 coord21 coord22 coord23 coord24 := by
  simp only [VS.lorentz_subtract.k_rhophi_z_t_xy_z_tau, VR.lorentz_subtract.k_rhophi_z_t_xy_z_tau, VS.spatial_subtract.rhophi_z_xy_z_eq, VS.lorentz_t.rhophi_z_t_eq, c08_lorentz_t_xy_z_tau, h0, VR.P.nanToNum_eq]

theorem c08_lorentz_subtract_k_rhophi_z_tau_rhophi_eta_t (coord11 coord12 coord13 coord14 coord21 coord22 coord23 coord24 : ℝ) (h0 : 0 ≤ coord14) :
    VS.lorentz_subtract.k_rhophi_z_tau_rhophi_eta_t coord11 coord12 coord13 coord14 coord21 coord22 coord23 coord24 = VR.lorentz_subtract.k_rhophi_z_tau_rhophi_eta_t coord11 coord12 coord13 coord14 coord21 coord22 coord23 coord24 := by
  simp only [VS.lorentz_subtract.k_rhophi_z_tau_rhophi_eta_t, VR.lorentz_subtract.k_rhophi_z_tau_rhophi_eta_t, VS.spatial_subtract.rhophi_z_rhophi_eta_eq, c08_lorentz_t_rhophi_z_tau, VS.lorentz_t.rhophi_eta_t_eq, h0, VR.P.nanToNum_eq]

theorem c08_lorentz_subtract_k_rhophi_z_tau_rhophi_eta_tau (coord11 coord12 coord13 coord14 coord21 coord22 coord23 coord24 : ℝ) (h0 : 0 ≤ coord14) (h1 : 0 ≤ coord24) (hres : 0 ≤ (VR.lorentz_subtract.k_rhophi_z_tau_rhophi_eta_tau coord11 coord12 coord13 coord14 coord21 coord22 coord23 coord24).2.2.2) :
    VS.lorentz_subtract.k_rhophi_z_tau_rhophi_eta_tau coord11 coord12 coord13 coord14 coord21 coord22 coord23 coord24 = VR.lorentz_subtract.k_rhophi_z_tau_rhophi_eta_tau coord11 coord12 coord13 coord14 coord21 coord22 coord23 coord24 := by
  simp only [VR.lorentz_subtract.k_rhophi_z_tau_rhophi_eta_tau] at hres
  simp only [VS.lorentz_subtract.k_rhophi_z_tau_rhophi_eta_tau, VR.lorentz_subtract.k_rhophi_z_tau_rhophi_eta_tau, VS.spatial_subtract.rhophi_z_rhophi_eta_eq, c08_lorentz_t_rhophi_z_tau, c08_lorentz_t_rhophi_eta_tau, c08_lorentz_tau_xy_z_t, h0, h1, VR.P.nanToNum_eq]
  rw [c08_lorentz_tau_xy_z_t_of_result _ _ _ _ hres]

theorem c08_lorentz_subtract_k_rhophi_z_tau_rhophi_theta_t (coord11 coord12 coord13 coord14 coord21 coord22 coord23 coord24 : ℝ) (h0 : 0 ≤ coord14) :
    VS.lorentz_subtract.k_rhophi_z_tau_rhophi_theta_t coord11 coord12 coord13 coord14 coord21 coord22 coord23 coord24 = VR.lorentz_subtract.k_rhophi_z_tau_rhophi_theta_t coord11 coord12 coord13 coord14 coord21 coord22 coord23 coord24 := by
  simp only [VS.lorentz_subtract.k_rhophi_z_tau_rhophi_theta_t, VR.lorentz_subtract.k_rhophi_z_tau_rhophi_theta_t, VS.spatial_subtract.rhophi_z_rhophi_theta_eq, c08_lorentz_t_rhophi_z_tau, VS.lorentz_t.rhophi_theta_t_eq, h0, VR.P.nanToNum_eq]

theorem c08_lorentz_subtract_k_rhophi_z_tau_rhophi_theta_tau (coord11 coord12 coord13 coord14 coord21 coord22 coord23 coord24 : ℝ) (h0 : 0 ≤ coord14) (h1 : 0 ≤ coord24) (hres : 0 ≤ (VR.lorentz_subtract.k_rhophi_z_tau_rhophi_theta_tau coord11 coord12 coord13 coord14 coord21 coord22 coord23 coord24).2.2.2) :
    VS.lorentz_subtract.k_rhophi_z_tau_rhophi_theta_tau coord11 coord12 coord13 coord14 coord21 coord22 coord23 coord24 = VR.lorentz_subtract.k_rhophi_z_tau_rhophi_theta_tau coord11 coord12 coord13 coord14 coord21 coord22 coord23 coord24 := by
  simp only [VR.lorentz_subtract.k_rhophi_z_tau_rhophi_theta_tau] at hres
  simp only [VS.lorentz_subtract.k_rhophi_z_tau_rhophi_theta_tau, VR.lorentz_subtract.k_rhophi_z_tau_rhophi_theta_tau, VS.spatial_subtract.rhophi_z_rhophi_theta_eq, c08_lorentz_t_rhophi_z_tau, c08_lorentz_t_rhophi_theta_tau, c08_lorentz_tau_xy_z_t, h0, h1, VR.P.nanToNum_eq]
  rw [c08_lorentz_tau_xy_z_t_of_result _ _ _ _ hres]

theorem c08_lorentz_subtract_k_rhophi_z_tau_rhophi_z_t (coord11 coord12 coord13 coord14 coord21 coord22 coord23 coord24 : ℝ) (h0 : 0 ≤ coord14) :
    VS.lorentz_subtract.k_rhophi_z_tau_rhophi_z_t coord11 coord12 coord13 coord14 coord21 coord22 coord23 coord24 = VR.lorentz_subtract.k_rhophi_z_tau_rhophi_z_t coord11 coord12 coord13 coord14 coord21 coord22 coord23 coord24 := by
  simp only [VS.lorentz_subtract.k_rhophi_z_tau_rhophi_z_t, VR.lorentz_subtract.k_rhophi_z_tau_rhophi_z_t, VS.spatial_subtract.rhophi_z_rhophi_z_eq, c08_lorentz_t_rhophi_z_tau, VS.lorentz_t.rhophi_z_t_eq, h0, VR.P.nanToNum_eq]

theorem c08_lorentz_subtract_k_rhophi_z_tau_rhophi_z_tau (coord11 coord12 coord13 coord14 coord21 coord22 coord23 coord24 : ℝ) (h0 : 0 ≤ coord14) (h1 : 0 ≤ coord24) (hres : 0 ≤ (VR.lorentz_subtract.k_rhophi_z_tau_rhophi_z_tau coord11 coord12 coord13 coord14 coord21 coord22 coord23 coord24).2.2.2) :
    VS.lorentz_subtract.k_rhophi_z_tau_rhophi_z_tau coord11 coord12 coord13 coord14 coord21 coord22 coord23 coord24 = VR.lorentz_subtract.k_rhophi_z_tau_rhophi_z_tau coord11 coord12 coord13 coord14 coord21 coord22 coord23 coord24 := by
  simp only [VR.lorentz_subtract.k_rhophi_z_tau_rhophi_z_tau] at hres
  simp only [VS.lorentz_subtract.k_rhophi_z_tau_rhophi_z_tau, VR.lorentz_subtract.k_rhophi_z_tau_rhophi_z_tau, VS.spatial_subtract.rhophi_z_rhophi_z_eq, c08_lorentz_t_rhophi_z_tau, c08_lorentz_tau_rhophi_z_t, h0, h1, VR.P.nanToNum_eq]
  rw [c08_lorentz_tau_rhophi_z_t_of_result _ _ _ _ hres]

theorem c08_lorentz_subtract_k_rhophi_z_tau_xy_eta_t (coord11 coord12 coord13 coord14 coord21 coord22 coord23 coord24 : ℝ) (h0 : 0 ≤ coord14) :
    VS.lorentz_subtract.k_rhophi_z_tau_xy_eta_t coord11 coord12 coord13 coord14 coord21 coord22 coord23 coord24 = VR.lorentz_subtract.k_rhophi_z_tau_xy_eta_t coord11 coord12 coord13 coord14 coord21 coord22 coord23 coord24 := by
  simp only [VS.lorentz_subtract.k_rhophi_z_tau_xy_eta_t, VR.lorentz_subtract.k_rhophi_z_tau_xy_eta_t, VS.spatial_subtract.rhophi_z_xy_eta_eq, c08_lorentz_t_rhophi_z_tau, VS.lorentz_t.xy_eta_t_eq, h0, VR.P.nanToNum_eq]

theorem c08_lorentz_subtract_k_rhophi_z_tau_xy_eta_tau (coord11 coord12 coord13 coord14 coord21 coord22 coord23 coord24 : ℝ) (h0 : 0 ≤ coord14) (h1 : 0 ≤ coord24) (hres : 0 ≤ (VR.lorentz_subtract.k_rhophi_z_tau_xy_eta_tau coord11 coord12 coord13 coord14 coord21 coord22 coord23 coord24).2.2.2) :
    VS.lorentz_subtract.k_rhophi_z_tau_xy_eta_tau coord11 coord12 coord13 coord14 coord21 coord22 coord23 coord24 = VR.lorentz_subtract.k_rhophi_z_tau_xy_eta_tau coord11 coord12 coord13 coord14 coord21 coord22 coord23 coord24 := by
  simp only [VR.lorentz_subtract.k_rhophi_z_tau_xy_eta_tau] at hres
  simp only [VS.lorentz_subtract.k_rhophi_z_tau_xy_eta_tau, VR.lorentz_subtract.k_rhophi_z_tau_xy_eta_tau, VS.spatial_subtract.rhophi_z_xy_eta_eq, c08_lorentz_t_rhophi_z_tau, c08_lorentz_t_xy_eta_tau, c08_lorentz_tau_xy_z_t, h0, h1, VR.P.nanToNum_eq]
  rw [c08_lorentz_tau_xy_z_t_of_result _ _ _ _ hres]

theorem c08_lorentz_subtract_k_rhophi_z_tau_xy_theta_t (coord11 coord12 coord13 coord14 coord21 coord22 coord23 coord24 : ℝ) (h0 : 0 ≤ coord14) :
    VS.lorentz_subtract.k_rhophi_z_tau_xy_theta_t coord11 coord12 coord13 coord14 coord21 coord22 coord23 coord24 = VR.lorentz_subtract.k_rhophi_z_tau_xy_theta_t coord11 coord12 coord13 coord14 coord21 coord22 coord23 coord24 := by
  simp only [VS.lorentz_subtract.k_rhophi_z_tau_xy_theta_t, VR.lorentz_subtract.k_rhophi_z_tau_xy_theta_t, VS.spatial_subtract.rhophi_z_xy_theta_eq, c08_lorentz_t_rhophi_z_tau, VS.lorentz_t.xy_theta_t_eq, h0, VR.P.nanToNum_eq]

theorem c08_lorentz_subtract_k_rhophi_z_tau_xy_theta_tau (coord11 coord12 coord13 coord14 coord21 coord22 coord23 coord24 : ℝ) (h0 : 0 ≤ coord14) (h1 : 0 ≤ coord24) (hres : 0 ≤ (VR.lorentz_subtract.k_rhophi_z_tau_xy_theta_tau coord11 coord12 coord13 coord14 coord21 coord22 coord23 coord24).2.2.2) :
    VS.lorentz_subtract.k_rhophi_z_tau_xy_theta_tau coord11 coord12 coord13 coord14 coord21 coord22 coord23 coord24 = VR.lorentz_subtract.k_rhophi_z_tau_xy_theta_tau coord11 coord12 coord13 coord14 coord21 coord22 coord23 coord24 := by
  simp only [VR.lorentz_subtract.k_rhophi_z_tau_xy_theta_tau] at hres
  simp only [VS.lorentz_subtract.k_rhophi_z_tau_xy_theta_tau, VR.lorentz_subtract.k_rhophi_z_tau_xy_theta_tau, VS.spatial_subtract.rhophi_z_xy_theta_eq, c08_lorentz_t_rhophi_z_tau, c08_lorentz_t_xy_theta_tau, c08_lorentz_tau_xy_z_t, h0, h1, VR.P.nanToNum_eq]
  rw [c08_lorentz_tau_xy_z_t_of_result _ _ _ _ hres]

theorem c08_lorentz_subtract_k_rhophi_z_tau_xy_z_t (coord11 coord12 coord13 coord14 coord21 coord22 coord23 coord24 : ℝ) (h0 : 0 ≤ coord14) :
    VS.lorentz_subtract.k_rhophi_z_tau_xy_z_t coord11 coord12 coord13 coord14 coord21 coord22 coord23 coord24 = VR.lorentz_subtract.k_rhophi_z_tau_xy_z_t coord11 coord12 coord13 coord14 coord21 coord22 coord23 coord24 := by
  simp only [VS.lorentz_subtract.k_rhophi_z_tau_xy_z_t, VR.lorentz_subtract.k_rhophi_z_tau_xy_z_t, VS.spatial_subtract.rhophi_z_xy_z_eq, c08_lorentz_t_rhophi_z_tau, VS.lorentz_t.xy_z_t_eq, h0, VR.P.nanToNum_eq]

theorem c08_lorentz_subtract_k_rhophi_z_tau_xy_z_tau (coord11 coord12 coord13 coord14 coord21 coord22 coord23 coord24 : ℝ) (h0 : 0 ≤ coord14) (h1 : 0 ≤ coord24) (hres : 0 ≤ (VR.lorentz_subtract.k_rhophi_z_tau_xy_z_tau coord11 coord12 coord13 coord14 coord21 coord22 coord23 coord24).2.2.2) :
    VS.lorentz_subtract.k_rhophi_z_tau_xy_z_tau coord11 coord12 coord13 coord14 coord21 coord22 coord23 coord24 = VR.lorentz_subtract.k_rhophi_z_tau_xy_z_tau coord11 coord12 coord13 coord14 coord21 coord22 coord23 coord24 := by
  simp only [VR.lorentz_subtract.k_rhophi_z_tau_xy_z_tau] at hres
  simp only [VS.lorentz_subtract.k_rhophi_z_tau_xy_z_tau, VR.lorentz_subtract.k_rhophi_z_tau_xy_z_tau, VS.spatial_subtract.rhophi_z_xy_z_eq, c08_lorentz_t_rhophi_z_tau, c08_lorentz_t_xy_z_tau, c08_lorentz_tau_xy_z_t, h0, h1, VR.P.nanToNum_eq]
  rw [c08_lorentz_tau_xy_z_t_of_result _ _ _ _ hres]

theorem c08_lorentz_subtract_k_xy_eta_t_rhophi_eta_tau (coord11 coord12 coord13 coord14 coord21 coord22 coord23 coord24 : ℝ) (h0 : 0 ≤ coord24) :
    VS.lorentz_subtract.k_xy_eta_t_rhophi_eta_tau coord11 coord12 coord13 coord14 coord21 coord22 coord23 coord24 = VR.lorentz_subtract.k_xy_eta_t_rhophi_eta_tau coord11 coord12 coord13 coord14 coord21 coord22 coord23 coord24 := by
  simp only [VS.lorentz_subtract.k_xy_eta_t_rhophi_eta_tau, VR.lorentz_subtract.k_xy_eta_t_rhophi_eta_tau, VS.spatial_subtract.xy_eta_rhophi_eta_eq, VS.lorentz_t.xy_eta_t_eq, c08_lorentz_t_rhophi_eta_tau, h0, VR.P.nanToNum_eq]

theorem c08_lorentz_subtract_k_xy_eta_t_rhophi_theta_tau (coord11 coord12 coord13 coord14 coord21 coord22 coord23 coord24 : ℝ) (h0 : 0 ≤ coord24) :
    VS.lorentz_subtract.k_xy_eta_t_rhophi_theta_tau coord11 coord12 coord13 coord14 coord21 coord22 coord23 coord24 = VR.lorentz_subtract.k_xy_eta_t_rhophi_theta_tau coord11 coord12 coord13 coord14 coord21 coord22 coord23 coord24 := by
  simp only [VS.lorentz_subtract.k_xy_eta_t_rhophi_theta_tau, VR.lorentz_subtract.k_xy_eta_t_rhophi_theta_tau, VS.spatial_subtract.xy_eta_rhophi_theta_eq, VS.lorentz_t.xy_eta_t_eq, c08_lorentz_t_rhophi_theta_tau, h0, VR.P.nanToNum_eq]

theorem c08_lorentz_subtract_k_xy_eta_t_rhophi_z_tau (coord11 coord12 coord13 coord14 coord21 coord22 coord23 coord24 : ℝ) (h0 : 0 ≤ coord24) :
    VS.lorentz_subtract.k_xy_eta_t_rhophi_z_tau coord11 coord12 coord13 coord14 coord21 coord22 coord23 coord24 = VR.lorentz_subtract.k_xy_eta_t_rhophi_z_tau coord11 coord12 coord13 coord14 coord21 coord22 coord23 coord24 := by
  simp only [VS.lorentz_subtract.k_xy_eta_t_rhophi_z_tau, VR.lorentz_subtract.k_xy_eta_t_rhophi_z_tau, VS.spatial_subtract.xy_eta_rhophi_z_eq, VS.lorentz_t.xy_eta_t_eq, c08_lorentz_t_rhophi_z_tau, h0, VR.P.nanToNum_eq]

theorem c08_lorentz_subtract_k_xy_eta_t_xy_eta_tau (coord11 coord12 coord13 coord14 coord21 coord22 coord23 coord24 : ℝ) (h0 : 0 ≤ coord24) :
    VS.lorentz_subtract.k_xy_eta_t_xy_eta_tau coord11 coord12 coord13 coord14 coord21 coord22 coord23 coord24 = VR.lorentz_subtract.k_xy_eta_t_xy_eta_tau coord11 coord12 coord13 coord14 coord21 coord22 coord23 coord24 := by
  simp only [VS.lorentz_subtract.k_xy_eta_t_xy_eta_tau, VR.lorentz_subtract.k_xy_eta_t_xy_eta_tau, VS.spatial_subtract.xy_eta_xy_eta_eq, VS.lorentz_t.xy_eta_t_eq, c08_lorentz_t_xy_eta_tau, h0, VR.P.nanToNum_eq]

theorem c08_lorentz_subtract_k_xy_eta_t_xy_theta_tau (coord11 coord12 coord13 coord14 coord21 coord22 coord23 coord24 : ℝ) (h0 : 0 ≤ coord24) :
    VS.lorentz_subtract.k_xy_eta_t_xy_theta_tau coord11 coord12 coord13 coord14 coord21 coord22 coord23 coord24 = VR.lorentz_subtract.k_xy_eta_t_xy_theta_tau coord11 coord12 coord13 coord14 coord21 coord22 coord23 coord24 := by
  simp only [VS.lorentz_subtract.k_xy_eta_t_xy_theta_tau, VR.lorentz_subtract.k_xy_eta_t_xy_theta_tau, VS.spatial_subtract.xy_eta_xy_theta_eq, VS.lorentz_t.xy_eta_t_eq, c08_lorentz_t_xy_theta_tau, h0, VR.P.nanToNum_eq]

theorem c08_lorentz_subtract_k_xy_eta_t_xy_z_tau (coord11 coord12 coord13 coord14 coord21 coord22 coord23 coord24 : ℝ) (h0 : 0 ≤ coord24) :
    VS.lorentz_subtract.k_xy_eta_t_xy_z_tau coord11 coord12 coord13 coord14 coord21 coord22 coord23 coord24 = VR.lorentz_subtract.k_xy_eta_t_xy_z_tau coord11 coord12 coord13 coord14 coord21 coord22 coord23 coord24 := by
  simp only [VS.lorentz_subtract.k_xy_eta_t_xy_z_tau, VR.lorentz_subtract.k_xy_eta_t_xy_z_tau, VS.spatial_subtract.xy_eta_xy_z_eq, VS.lorentz_t.xy_eta_t_eq, c08_lorentz_t_xy_z_tau, h0, VR.P.nanToNum_eq]

theorem c08_lorentz_subtract_k_xy_eta_tau_rhophi_eta_t (coord11 coord12 coord13 coord14 coord21 coord22 coord23 coord24 : ℝ) (h0 : 0 ≤ coord14) :
    VS.lorentz_subtract.k_xy_eta_tau_rhophi_eta_t coord11 coord12 coord13 coord14 coord21 coord22 coord23 coord24 = VR.lorentz_subtract.k_xy_eta_tau_rhophi_eta_t coord11 coord12 coord13 coord14 coord21 coord22 coord23 coord24 := by
  simp only [VS.lorentz_subtract.k_xy_eta_tau_rhophi_eta_t, VR.lorentz_subtract.k_xy_eta_tau_rhophi_eta_t, VS.spatial_subtract.xy_eta_rhophi_eta_eq, c08_lorentz_t_xy_eta_tau, VS.lorentz_t.rhophi_eta_t_eq, h0, VR.P.nanToNum_eq]

theorem c08_lorentz_subtract_k_xy_eta_tau_rhophi_eta_tau (coord11 coord12 coord13 coord14 coord21 coord22 coord23 coord24 : ℝ) (h0 : 0 ≤ coord14) (h1 : 0 ≤ coord24) (hres : 0 ≤ (VR.lorentz_subtract.k_xy_eta_tau_rhophi_eta_tau coord11 coord12 coord13 coord14 coord21 coord22 coord23 coord24).2.2.2) :
    VS.lorentz_subtract.k_xy_eta_tau_rhophi_eta_tau coord11 coord12 coord13 coord14 coord21 coord22 coord23 coord24 = VR.lorentz_subtract.k_xy_eta_tau_rhophi_eta_tau coord11 coord12 coord13 coord14 coord21 coord22 coord23 coord24 := by
  simp only [VR.lorentz_subtract.k_xy_eta_tau_rhophi_eta_tau] at hres
  simp only [VS.lorentz_subtract.k_xy_eta_tau_rhophi_eta_tau, VR.lorentz_subtract.k_xy_eta_tau_rhophi_eta_tau, VS.spatial_subtract.xy_eta_rhophi_eta_eq, c08_lorentz_t_xy_eta_tau, c08_lorentz_t_rhophi_eta_tau, c08_lorentz_tau_xy_z_t, h0, h1, VR.P.nanToNum_eq]
  rw [c08_lorentz_tau_xy_z_t_of_result _ _ _ _ hres]

theorem c08_lorentz_subtract_k_xy_eta_tau_rhophi_theta_t (coord11 coord12 coord13 coord14 coord21 coord22 coord23 coord24 : ℝ) (h0 : 0 ≤ coord14) :
    VS.lorentz_subtract.k_xy_eta_tau_rhophi_theta_t coord11 coord12 coord13 coord14 coord21 coord22 coord23 coord24 = VR.lorentz_subtract.k_xy_eta_tau_rhophi_theta_t coord11 coord12 coord13 coord14 coord21 coord22 coord23 coord24 := by
  simp only [VS.lorentz_subtract.k_xy_eta_tau_rhophi_theta_t, VR.lorentz_subtract.k_xy_eta_tau_rhophi_theta_t, VS.spatial_subtract.xy_eta_rhophi_theta_eq, c08_lorentz_t_xy_eta_tau, VS.lorentz_t.rhophi_theta_t_eq, h0, VR.P.nanToNum_eq]

theorem c08_lorentz_subtract_k_xy_eta_tau_rhophi_theta_tau (coord11 coord12 coord13 coord14 coord21 coord22 coord23 coord24 : ℝ) (h0 : 0 ≤ coord14) (h1 : 0 ≤ coord24) (hres : 0 ≤ (VR.lorentz_subtract.k_xy_eta_tau_rhophi_theta_tau coord11 coord12 coord13 coord14 coord21 coord22 coord23 coord24).2.2.2) :
    VS.lorentz_subtract.k_xy_eta_tau_rhophi_theta_tau coord11 coord12 coord13 coord14 coord21 coord22 coord23 coord24 = VR.lorentz_subtract.k_xy_eta_tau_rhophi_theta_tau coord11 coord12 coord13 coord14 coord21 coord22 coord23 coord24 := by
  simp only [VR.lorentz_subtract.k_xy_eta_tau_rhophi_theta_tau] at hres
  simp only [VS.lorentz_subtract.k_xy_eta_tau_rhophi_theta_tau, VR.lorentz_subtract.k_xy_eta_tau_rhophi_theta_tau, VS.spatial_subtract.xy_eta_rhophi_theta_eq, c08_lorentz_t_xy_eta_tau, c08_lorentz_t_rhophi_theta_tau, c08_lorentz_tau_xy_z_t, h0, h1, VR.P.nanToNum_eq]
  rw [c08_lorentz_tau_xy_z_t_of_result _ _ _ _ hres]

theorem c08_lorentz_subtract_k_xy_eta_tau_rhophi_z_t (coord11 coord12 coord13 coord14 coord21 coord22 coord23 coord24 : ℝ) (h0 : 0 ≤ coord14) :
    VS.lorentz_subtract.k_xy_eta_tau_rhophi_z_t coord11 coord12 coord13 coord14 coord21 coord22 coord23 coord24 = VR.lorentz_subtract.k_xy_eta_tau_rhophi_z_t coord11 coord12 coord13 coord14 coord21 coord22 coord23 coord24 := by
  simp only [VS.lorentz_subtract.k_xy_eta_tau_rhophi_z_t, VR.lorentz_subtract.k_xy_eta_tau_rhophi_z_t, VS.spatial_subtract.xy_eta_rhophi_z_eq, c08_lorentz_t_xy_eta_tau, VS.lorentz_t.rhophi_z_t_eq, h0, VR.P.nanToNum_eq]

theorem c08_lorentz_subtract_k_xy_eta_tau_rhophi_z_tau (coord11 coord12 coord13 coord14 coord21 coord22 coord23 coord24 : ℝ) (h0 : 0 ≤ coord14) (h1 : 0 ≤ coord24) (hres : 0 ≤ (VR.lorentz_subtract.k_xy_eta_tau_rhophi_z_tau coord11 coord12 coord13 coord14 coord21 coord22 coord23 coord24).2.2.2) :
    VS.lorentz_subtract.k_xy_eta_tau_rhophi_z_tau coord11 coord12 coord13 coord14 coord21 coord22 coord23 coord24 = VR.lorentz_subtract.k_xy_eta_tau_rhophi_z_tau coord11 coord12 coord13 coord14 coord21 coord22 coord23 coord24 := by
  simp only [VR.lorentz_subtract.k_xy_eta_tau_rhophi_z_tau] at hres
  simp only [VS.lorentz_subtract.k_xy_eta_tau_rhophi_z_tau, VR.lorentz_subtract.k_xy_eta_tau_rhophi_z_tau, VS.spatial_subtract.xy_eta_rhophi_z_eq, c08_lorentz_t_xy_eta_tau, c08_lorentz_t_rhophi_z_tau, c08_lorentz_tau_xy_z_t, h0, h1, VR.P.nanToNum_eq]
  rw [c08_lorentz_tau_xy_z_t_of_result _ _ _ _ hres]

theorem c08_lorentz_subtract_k_xy_eta_tau_xy_eta_t (coord11 coord12 coord13 coord14 coord21 coord22 coord23 coord24 : ℝ) (h0 : 0 ≤ coord14) :
    VS.lorentz_subtract.k_xy_eta_tau_xy_eta_t coord11 coord12 coord13 coord14 coord21 coord22 coord23 coord24 = VR.lorentz_subtract.k_xy_eta_tau_xy_eta_t coord11 coord12 coord13 coord14 coord21 coord22 coord23 coord24 := by
  simp only [VS.lorentz_subtract.k_xy_eta_tau_xy_eta_t, VR.lorentz_subtract.k_xy_eta_tau_xy_eta_t, VS.spatial_subtract.xy_eta_xy_eta_eq, c08_lorentz_t_xy_eta_tau, VS.lorentz_t.xy_eta_t_eq, h0, VR.P.nanToNum_eq]

theorem c08_lorentz_subtract_k_xy_eta_tau_xy_eta_tau (coord11 coord12 coord13 coord14 coord21 coord22 coord23 coord24 : ℝ) (h0 : 0 ≤ coord14) (h1 : 0 ≤ coord24) (hres : 0 ≤ (VR.lorentz_subtract.k_xy_eta_tau_xy_eta_tau coord11 coord12 coord13 coord14 coord21 coord22 coord23 coord24).2.2.2) :
    VS.lorentz_subtract.k_xy_eta_tau_xy_eta_tau coord11 coord12 coord13 coord14 coord21 coord22 coord23 coord24 = VR.lorentz_subtract.k_xy_eta_tau_xy_eta_tau coord11 coord12 coord13 coord14 coord21 coord22 coord23 coord24 := by
  simp only [VR.lorentz_subtract.k_xy_eta_tau_xy_eta_tau] at hres
  simp only [VS.lorentz_subtract.k_xy_eta_tau_xy_eta_tau, VR.lorentz_subtract.k_xy_eta_tau_xy_eta_tau, VS.spatial_subtract.xy_eta_xy_eta_eq, c08_lorentz_t_xy_eta_tau, c08_lorentz_tau_xy_eta_t, h0, h1, VR.P.nanToNum_eq]
  rw [c08_lorentz_tau_xy_eta_t_of_result _ _ _ _ hres]

theorem c08_lorentz_subtract_k_xy_eta_tau_xy_theta_t (coord11 coord12 coord13 coord14 coord21 coord22 coord23 coord24 : ℝ) (h0 : 0 ≤ coord14) :
    VS.lorentz_subtract.k_xy_eta_tau_xy_theta_t coord11 coord12 coord13 coord14 coord21 coord22 coord23 coord24 = VR.lorentz_subtract.k_xy_eta_tau_xy_theta_t coord11 coord12 coord13 coord14 coord21 coord22 coord23 coord24 := by
  simp only [VS.lorentz_subtract.k_xy_eta_tau_xy_theta_t, VR.lorentz_subtract.k_xy_eta_tau_xy_theta_t, VS.spatial_subtract.xy_eta_xy_theta_eq, c08_lorentz_t_xy_eta_tau, VS.lorentz_t.xy_theta_t_eq, h0, VR.P.nanToNum_eq]

theorem c08_lorentz_subtract_k_xy_eta_tau_xy_theta_tau (coord11 coord12 coord13 coord14 coord21 coord22 coord23 coord24 : ℝ) (h0 : 0 ≤ coord14) (h1 : 0 ≤ coord24) (hres : 0 ≤ (VR.lorentz_subtract.k_xy_eta_tau_xy_theta_tau coord11 coord12 coord13 coord14 coord21 coord22 coord23 coord24).2.2.2) :
    VS.lorentz_subtract.k_xy_eta_tau_xy_theta_tau coord11 coord12 coord13 coord14 coord21 coord22 coord23 coord24 = VR.lorentz_subtract.k_xy_eta_tau_xy_theta_tau coord11 coord12 coord13 coord14 coord21 coord22 coord23 coord24 := by
  simp only [VR.lorentz_subtract.k_xy_eta_tau_xy_theta_tau] at hres
  simp only [VS.lorentz_subtract.k_xy_eta_tau_xy_theta_tau, VR.lorentz_subtract.k_xy_eta_tau_xy_theta_tau, VS.spatial_subtract.xy_eta_xy_theta_eq, c08_lorentz_t_xy_eta_tau, c08_lorentz_t_xy_theta_tau, c08_lorentz_tau_xy_z_t, h0, h1, VR.P.nanToNum_eq]
  rw [c08_lorentz_tau_xy_z_t_of_result _ _ _ _ hres]

theorem c08_lorentz_subtract_k_xy_eta_tau_xy_z_t (coord11 coord12 coord13 coord14 coord21 coord22 coord23 coord24 : ℝ) (h0 : 0 ≤ coord14) :
    VS.lorentz_subtract.k_xy_eta_tau_xy_z_t coord11 coord12 coord13 coord14 coord21 coord22 coord23 coord24 = VR.lorentz_subtract.k_xy_eta_tau_xy_z_t coord11 coord12 coord13 coord14 coord21 coord22 coord23 coord24 := by
  simp only [VS.lorentz_subtract.k_xy_eta_tau_xy_z_t, VR.lorentz_subtract.k_xy_eta_tau_xy_z_t, VS.spatial_subtract.xy_eta_xy_z_eq, c08_lorentz_t_xy_eta_tau, VS.lorentz_t.xy_z_t_eq, h0, VR.P.nanToNum_eq]

theorem c08_lorentz_subtract_k_xy_eta_tau_xy_z_tau (coord11 coord12 coord13 coord14 coord21 coord22 coord23 coord24 : ℝ) (h0 : 0 ≤ coord14) (h1 : 0 ≤ coord24) (hres : 0 ≤ (VR.lorentz_subtract.k_xy_eta_tau_xy_z_tau coord11 coord12 coord13 coord14 coord21 coord22 coord23 coord24).2.2.2) :
    VS.lorentz_subtract.k_xy_eta_tau_xy_z_tau coord11 coord12 coord13 coord14 coord21 coord22 coord23 coord24 = VR.lorentz_subtract.k_xy_eta_tau_xy_z_tau coord11 coord12 coord13 coord14 coord21 coord22 coord23 coord24 := by
  simp only [VR.lorentz_subtract.k_xy_eta_tau_xy_z_tau] at hres
  simp only [VS.lorentz_subtract.k_xy_eta_tau_xy_z_tau, VR.lorentz_subtract.k_xy_eta_tau_xy_z_tau, VS.spatial_subtract.xy_eta_xy_z_eq, c08_lorentz_t_xy_eta_tau, c08_lorentz_t_xy_z_tau, c08_lorentz_tau_xy_z_t, h0, h1, VR.P.nanToNum_eq]
  rw [c08_lorentz_tau_xy_z_t_of_result _ _ _ _ hres]

theorem c08_lorentz_subtract_k_xy_theta_t_rhophi_eta_tau (coord11 coord12 coord13 coord14 coord21 coord22 coord23 coord24 : ℝ) (h0 : 0 ≤ coord24) :
    VS.lorentz_subtract.k_xy_theta_t_rhophi_eta_tau coord11 coord12 coord13 coord14 coord21 coord22 coord23 coord24 = VR.lorentz_subtract.k_xy_theta_t_rhophi_eta_tau coord11 coord12 coord13 coord14 coord21 coord22 coord23 coord24 := by
  simp only [VS.lorentz_subtract.k_xy_theta_t_rhophi_eta_tau, VR.lorentz_subtract.k_xy_theta_t_rhophi_eta_tau, VS.spatial_subtract.xy_theta_rhophi_eta_eq, VS.lorentz_t.xy_theta_t_eq, c08_lorentz_t_rhophi_eta_tau, h0, VR.P.nanToNum_eq]

theorem c08_lorentz_subtract_k_xy_theta_t_rhophi_theta_tau (coord11 coord12 coord13 coord14 coord21 coord22 coord23 coord24 : ℝ) (h0 : 0 ≤ coord24) :
    VS.lorentz_subtract.k_xy_theta_t_rhophi_theta_tau coord11 coord12 coord13 coord14 coord21 coord22 coord23 coord24 = VR.lorentz_subtract.k_xy_theta_t_rhophi_theta_tau coord11 coord12 coord13 coord14 coord21 coord22 coord23 coord24 := by
  simp only [VS.lorentz_subtract.k_xy_theta_t_rhophi_theta_tau, VR.lorentz_subtract.k_xy_theta_t_rhophi_theta_tau, VS.spatial_subtract.xy_theta_rhophi_theta_eq, VS.lorentz_t.xy_theta_t_eq, c08_lorentz_t_rhophi_theta_tau, h0, VR.P.nanToNum_eq]

theorem c08_lorentz_subtract_k_xy_theta_t_rhophi_z_tau (coord11 coord12 coord13 coord14 coord21 coord22 coord23 coord24 : ℝ) (h0 : 0 ≤ coord24) :
    VS.lorentz_subtract.k_xy_theta_t_rhophi_z_tau coord11 coord12 coord13 coord14 coord21 coord22 coord23 coord24 = VR.lorentz_subtract.k_xy_theta_t_rhophi_z_tau coord11 coord12 coord13 coord14 coord21 coord22 coord23 coord24 := by
  simp only [VS.lorentz_subtract.k_xy_theta_t_rhophi_z_tau, VR.lorentz_subtract.k_xy_theta_t_rhophi_z_tau, VS.spatial_subtract.xy_theta_rhophi_z_eq, VS.lorentz_t.xy_theta_t_eq, c08_lorentz_t_rhophi_z_tau, h0, VR.P.nanToNum_eq]

theorem c08_lorentz_subtract_k_xy_theta_t_xy_eta_tau (coord11 coord12 coord13 coord14 coord21 coord22 coord23 coord24 : ℝ) (h0 : 0 ≤ coord24) :
    VS.lorentz_subtract.k_xy_theta_t_xy_eta_tau coord11 coord12 coord13 coord14 coord21 coord22 coord23 coord24 = VR.lorentz_subtract.k_xy_theta_t_xy_eta_tau coord11 coord12 coord13 coord14 coord21 coord22 coord23 coord24 := by
  simp only [VS.lorentz_subtract.k_xy_theta_t_xy_eta_tau, VR.lorentz_subtract.k_xy_theta_t_xy_eta_tau, VS.spatial_subtract.xy_theta_xy_eta_eq, VS.lorentz_t.xy_theta_t_eq, c08_lorentz_t_xy_eta_tau, h0, VR.P.nanToNum_eq]

theorem c08_lorentz_subtract_k_xy_theta_t_xy_theta_tau (coord11 coord12 coord13 coord14 coord21 coord22 coord23 coord24 : ℝ) (h0 : 0 ≤ coord24) :
    VS.lorentz_subtract.k_xy_theta_t_xy_theta_tau coord11 coord12 coord13 coord14 coord21 coord22 coord23 coord24 = VR.lorentz_subtract.k_xy_theta_t_xy_theta_tau coord11 coord12 coord13 coord14 coord21 coord22 coord23 coord24 := by
  simp only [VS.lorentz_subtract.k_xy_theta_t_xy_theta_tau, VR.lorentz_subtract.k_xy_theta_t_xy_theta_tau, VS.spatial_subtract.xy_theta_xy_theta_eq, VS.lorentz_t.xy_theta_t_eq, c08_lorentz_t_xy_theta_tau, h0, VR.P.nanToNum_eq]

theorem c08_lorentz_subtract_k_xy_theta_t_xy_z_tau (coord11 coord12 coord13 coord14 coord21 coord22 coord23 coord24 : ℝ) (h0 : 0 ≤ coord24) :
    VS.lorentz_subtract.k_xy_theta_t_xy_z_tau coord11 coord12 coord13 coord14 coord21 coord22 coord23 coord24 = VR.lorentz_subtract.k_xy_theta_t_xy_z_tau coord11 coord12 coord13 coord14 coord21 coord22 coord23 coord24 := by
  simp only [VS.lorentz_subtract.k_xy_theta_t_xy_z_tau, VR.lorentz_subtract.k_xy_theta_t_xy_z_tau, VS.spatial_subtract.xy_theta_xy_z_eq, VS.lorentz_t.xy_theta_t_eq, c08_lorentz_t_xy_z_tau, h0, VR.P.nanToNum_eq]

theorem c08_lorentz_subtract_k_xy_theta_tau_rhophi_eta_t (coord11 coord12 coord13 coord14 coord21 coord22 coord23 coord24 : ℝ) (h0 : 0 ≤ coord14) :
    VS.lorentz_subtract.k_xy_theta_tau_rhophi_eta_t coord11 coord12 coord13 coord14 coord21 coord22 coord23 coord24 = VR.lorentz_subtract.k_xy_theta_tau_rhophi_eta_t coord11 coord12 coord13 coord14 coord21 coord22 coord23 coord24 := by
  simp only [VS.lorentz_subtract.k_xy_theta_tau_rhophi_eta_t, VR.lorentz_subtract.k_xy_theta_tau_rhophi_eta_t, VS.spatial_subtract.xy_theta_rhophi_eta_eq, c08_lorentz_t_xy_theta_tau, VS.lorentz_t.rhophi_eta_t_eq, h0, VR.P.nanToNum_eq]

theorem c08_lorentz_subtract_k_xy_theta_tau_rhophi_eta_tau (coord11 coord12 coord13 coord14 coord21 coord22 coord23 coord24 : ℝ) (h0 : 0 ≤ coord14) (h1 : 0 ≤ coord24) (hres : 0 ≤ (VR.lorentz_subtract.k_xy_theta_tau_rhophi_eta_tau coord11 coord12 coord13 coord14 coord21 coord22 coord23 coord24).2.2.2) :
    VS.lorentz_subtract.k_xy_theta_tau_rhophi_eta_tau coord11 coord12 coord13 coord14 coord21 coord22 coord23 coord24 = VR.lorentz_subtract.k_xy_theta_tau_rhophi_eta_tau coord11 coord12 coord13 coord14 coord21 coord22 coord23 coord24 := by
  simp only [VR.lorentz_subtract.k_xy_theta_tau_rhophi_eta_tau] at hres
  simp only [VS.lorentz_subtract.k_xy_theta_tau_rhophi_eta_tau, VR.lorentz_subtract.k_xy_theta_tau_rhophi_eta_tau, VS.spatial_subtract.xy_theta_rhophi_eta_eq, c08_lorentz_t_xy_theta_tau, c08_lorentz_t_rhophi_eta_tau, c08_lorentz_tau_xy_z_t, h0, h1, VR.P.nanToNum_eq]
  rw [c08_lorentz_tau_xy_z_t_of_result _ _ _ _ hres]

theorem c08_lorentz_subtract_k_xy_theta_tau_rhophi_theta_t (coord11 coord12 coord13 coord14 coord21 coord22 coord23 coord24 : ℝ) (h0 : 0 ≤ coord14) :
    VS.lorentz_subtract.k_xy_theta_tau_rhophi_theta_t coord11 coord12 coord13 coord14 coord21 coord22 coord23 coord24 = VR.lorentz_subtract.k_xy_theta_tau_rhophi_theta_t coord11 coord12 coord13 coord14 coord21 coord22 coord23 coord24 := by
  simp only [VS.lorentz_subtract.k_xy_theta_tau_rhophi_theta_t, VR.lorentz_subtract.k_xy_theta_tau_rhophi_theta_t, VS.spatial_subtract.xy_theta_rhophi_theta_eq, c08_lorentz_t_xy_theta_tau, VS.lorentz_t.rhophi_theta_t_eq, h0, VR.P.nanToNum_eq]

theorem c08_lorentz_subtract_k_xy_theta_tau_rhophi_theta_tau (coord11 coord12 coord13 coord14 coord21 coord22 coord23 coord24 : ℝ) (h0 : 0 ≤ coord14) (h1 : 0 ≤ coord24) (hres : 0 ≤ (VR.lorentz_subtract.k_xy_theta_tau_rhophi_theta_tau coord11 coord12 coord13 coord14 coord21 coord22 coord23 coord24).2.2.2) :
    VS.lorentz_subtract.k_xy_theta_tau_rhophi_theta_tau coord11 coord12 coord13 coord14 coord21 coord22 coord23 coord24 = VR.lorentz_subtract.k_xy_theta_tau_rhophi_theta_tau coord11 coord12 coord13 coord14 coord21 coord22 coord23 coord24 := by
  simp only [VR.lorentz_subtract.k_xy_theta_tau_rhophi_theta_tau] at hres
  simp only [VS.lorentz_subtract.k_xy_theta_tau_rhophi_theta_tau, VR.lorentz_subtract.k_xy_theta_tau_rhophi_theta_tau, VS.spatial_subtract.xy_theta_rhophi_theta_eq, c08_lorentz_t_xy_theta_tau, c08_lorentz_t_rhophi_theta_tau, c08_lorentz_tau_xy_z_t, h0, h1, VR.P.nanToNum_eq]
  rw [c08_lorentz_tau_xy_z_t_of_result _ _ _ _ hres]

theorem c08_lorentz_subtract_k_xy_theta_tau_rhophi_z_t (coord11 coord12 coord13 coord14 coord21 coord22 coord23 coord24 : ℝ) (h0 : 0 ≤ coord14) :
    VS.lorentz_subtract.k_xy_theta_tau_rhophi_z_t coord11 coord12 coord13 coord14 coord21 coord22 coord23 coord24 = VR.lorentz_subtract.k_xy_theta_tau_rhophi_z_t coord11 coord12 coord13 coord14 coord21 coord22 coord23 coord24 := by
  simp only [VS.lorentz_subtract.k_xy_theta_tau_rhophi_z_t, VR.lorentz_subtract.k_xy_theta_tau_rhophi_z_t, VS.spatial_subtract.xy_theta_rhophi_z_eq, c08_lorentz_t_xy_theta_tau, VS.lorentz_t.rhophi_z_t_eq, h0, VR.P.nanToNum_eq]

theorem c08_lorentz_subtract_k_xy_theta_tau_rhophi_z_tau (coord11 coord12 coord13 coord14 coord21 coord22 coord23 coord24 : ℝ) (h0 : 0 ≤ coord14) (h1 : 0 ≤ coord24) (hres : 0 ≤ (VR.lorentz_subtract.k_xy_theta_tau_rhophi_z_tau coord11 coord12 coord13 coord14 coord21 coord22 coord23 coord24).2.2.2) :
    VS.lorentz_subtract.k_xy_theta_tau_rhophi_z_tau coord11 coord12 coord13 coord14 coord21 coord22 coord23 coord24 = VR.lorentz_subtract.k_xy_theta_tau_rhophi_z_tau coord11 coord12 coord13 coord14 coord21 coord22 coord23 coord24 := by
  simp only [VR.lorentz_subtract.k_xy_theta_tau_rhophi_z_tau] at hres
  simp only [VS.lorentz_subtract.k_xy_theta_tau_rhophi_z_tau, VR.lorentz_subtract.k_xy_theta_tau_rhophi_z_tau, VS.spatial_subtract.xy_theta_rhophi_z_eq, c08_lorentz_t_xy_theta_tau, c08_lorentz_t_rhophi_z_tau, c08_lorentz_tau_xy_z_t, h0, h1, VR.P.nanToNum_eq]
  rw [c08_lorentz_tau_xy_z_t_of_result _ _ _ _ hres]

theorem c08_lorentz_subtract_k_xy_theta_tau_xy_eta_t (coord11 coord12 coord13 coord14 coord21 coord22 coord23 coord24 : ℝ) (h0 : 0 ≤ coord14) :
    VS.lorentz_subtract.k_xy_theta_tau_xy_eta_t coord11 coord12 coord13 coord14 coord21 coord22 coord23 coord24 = VR.lorentz_subtract.k_xy_theta_tau_xy_eta_t coord11 coord12 coord13 coord14 coord21 coord22 coord23 coord24 := by
  simp only [VS.lorentz_subtract.k_xy_theta_tau_xy_eta_t, VR.lorentz_subtract.k_xy_theta_tau_xy_eta_t, VS.spatial_subtract.xy_theta_xy_eta_eq, c08_lorentz_t_xy_theta_tau, VS.lorentz_t.xy_eta_t_eq, h0, VR.P.nanToNum_eq]

theorem c08_lorentz_subtract_k_xy_theta_tau_xy_eta_tau (coord11 coord12 coord13 coord14 coord21 coord22 coord23 coord24 : ℝ) (h0 : 0 ≤ coord14) (h1 : 0 ≤ coord24) (hres : 0 ≤ (VR.lorentz_subtract.k_xy_theta_tau_xy_eta_tau coord11 coord12 coord13 coord14 coord21 coord22 coord23 coord24).2.2.2) :
    VS.lorentz_subtract.k_xy_theta_tau_xy_eta_tau coord11 coord12 coord13 coord14 coord21 coord22 coord23 coord24 = VR.lorentz_subtract.k_xy_theta_tau_xy_eta_tau coord11 coord12 coord13 coord14 coord21 coord22 coord23 coord24 := by
  simp only [VR.lorentz_subtract.k_xy_theta_tau_xy_eta_tau] at hres
  simp only [VS.lorentz_subtract.k_xy_theta_tau_xy_eta_tau, VR.lorentz_subtract.k_xy_theta_tau_xy_eta_tau, VS.spatial_subtract.xy_theta_xy_eta_eq, c08_lorentz_t_xy_theta_tau, c08_lorentz_t_xy_eta_tau, c08_lorentz_tau_xy_z_t, h0, h1, VR.P.nanToNum_eq]
  rw [c08_lorentz_tau_xy_z_t_of_result _ _ _ _ hres]

theorem c08_lorentz_subtract_k_xy_theta_tau_xy_theta_t (coord11 coord12 coord13 coord14 coord21 coord22 coord23 coord24 : ℝ) (h0 : 0 ≤ coord14) :
    VS.lorentz_subtract.k_xy_theta_tau_xy_theta_t coord11 coord12 coord13 coord14 coord21 coord22 coord23 coord24 = VR.lorentz_subtract.k_xy_theta_tau_xy_theta_t coord11 coord12 coord13 coord14 coord21 coord22 coord23 coord24 := by
  simp only [VS.lorentz_subtract.k_xy_theta_tau_xy_theta_t, VR.lorentz_subtract.k_xy_theta_tau_xy_theta_t, VS.spatial_subtract.xy_theta_xy_theta_eq, c08_lorentz_t_xy_theta_tau, VS.lorentz_t.xy_theta_t_eq, h0, VR.P.nanToNum_eq]

theorem c08_lorentz_subtract_k_xy_theta_tau_xy_theta_tau (coord11 coord12 coord13 coord14 coord21 coord22 coord23 coord24 : ℝ) (h0 : 0 ≤ coord14) (h1 : 0 ≤ coord24) (hres : 0 ≤ (VR.lorentz_subtract.k_xy_theta_tau_xy_theta_tau coord11 coord12 coord13 coord14 coord21 coord22 coord23 coord24).2.2.2) :
    VS.lorentz_subtract.k_xy_theta_tau_xy_theta_tau coord11 coord12 coord13 coord14 coord21 coord22 coord23 coord24 = VR.lorentz_subtract.k_xy_theta_tau_xy_theta_tau coord11 coord12 coord13 coord14 coord21 coord22 coord23 coord24 := by
  simp only [VR.lorentz_subtract.k_xy_theta_tau_xy_theta_tau] at hres
  simp only [VS.lorentz_subtract.k_xy_theta_tau_xy_theta_tau, VR.lorentz_subtract.k_xy_theta_tau_xy_theta_tau, VS.spatial_subtract.xy_theta_xy_theta_eq, c08_lorentz_t_xy_theta_tau, c08_lorentz_tau_xy_theta_t, h0, h1, VR.P.nanToNum_eq]
  rw [c08_lorentz_tau_xy_theta_t_of_result _ _ _ _ hres]

theorem c08_lorentz_subtract_k_xy_theta_tau_xy_z_t (coord11 coord12 coord13 coord14 coord21 coord22 coord23 coord24 : ℝ) (h0 : 0 ≤ coord14) :
    VS.lorentz_subtract.k_xy_theta_tau_xy_z_t coord11 coord12 coord13 coord14 coord21 coord22 coord23 coord24 = VR.lorentz_subtract.k_xy_theta_tau_xy_z_t coord11 coord12 coord13 coord14 coord21 coord22 coord23 coord24 := by
  simp only [VS.lorentz_subtract.k_xy_theta_tau_xy_z_t, VR.lorentz_subtract.k_xy_theta_tau_xy_z_t, VS.spatial_subtract.xy_theta_xy_z_eq, c08_lorentz_t_xy_theta_tau, VS.lorentz_t.xy_z_t_eq, h0, VR.P.nanToNum_eq]

theorem c08_lorentz_subtract_k_xy_theta_tau_xy_z_tau (coord11 coord12 coord13 coord14 coord21 coord22 coord23 coord24 : ℝ) (h0 : 0 ≤ coord14) (h1 : 0 ≤ coord24) (hres : 0 ≤ (VR.lorentz_subtract.k_xy_theta_tau_xy_z_tau coord11 coord12 coord13 coord14 coord21 coord22 coord23 coord24).2.2.2) :
    VS.lorentz_subtract.k_xy_theta_tau_xy_z_tau coord11 coord12 coord13 coord14 coord21 coord22 coord23 coord24 = VR.lorentz_subtract.k_xy_theta_tau_xy_z_tau coord11 coord12 coord13 coord14 coord21 coord22 coord23 coord24 := by
  simp only [VR.lorentz_subtract.k_xy_theta_tau_xy_z_tau] at hres
  simp only [VS.lorentz_subtract.k_xy_theta_tau_xy_z_tau, VR.lorentz_subtract.k_xy_theta_tau_xy_z_tau, VS.spatial_subtract.xy_theta_xy_z_eq, c08_lorentz_t_xy_theta_tau, c08_lorentz_t_xy_z_tau, c08_lorentz_tau_xy_z_t, h0, h1, VR.P.nanToNum_eq]
  rw [c08_lorentz_tau_xy_z_t_of_result _ _ _ _ hres]

theorem c08_lorentz_subtract_k_xy_z_t_rhophi_eta_tau (coord11 coord12 coord13 coord14 coord21 coord22 coord23 coord24 : ℝ) (h0 : 0 ≤ coord24) :
    VS.lorentz_subtract.k_xy_z_t_rhophi_eta_tau coord11 coord12 coord13 coord14 coord21 coord22 coord23 coord24 = VR.lorentz_subtract.k_xy_z_t_rhophi_eta_tau coord11 coord12 coord13 coord14 coord21 coord22 coord23 coord24 := by
  simp only [VS.lorentz_subtract.k_xy_z_t_rhophi_eta_tau, VR.lorentz_subtract.k_xy_z_t_rhophi_eta_tau, VS.spatial_subtract.xy_z_rhophi_eta_eq, VS.lorentz_t.xy_z_t_eq, c08_lorentz_t_rhophi_eta_tau, h0, VR.P.nanToNum_eq]

theorem c08_lorentz_subtract_k_xy_z_t_rhophi_theta_tau (coord11 coord12 coord13 coord14 coord21 coord22 coord23 coord24 : ℝ) (h0 : 0 ≤ coord24) :
    VS.lorentz_subtract.k_xy_z_t_rhophi_theta_tau coord11 coord12 coord13 coord14 coord21 coord22 coord23 coord24 = VR.lorentz_subtract.k_xy_z_t_rhophi_theta_tau coord11 coord12 coord13 coord14 coord21 coord22 coord23 coord24 := by
  simp only [VS.lorentz_subtract.k_xy_z_t_rhophi_theta_tau, VR.lorentz_subtract.k_xy_z_t_rhophi_theta_tau, VS.spatial_subtract.xy_z_rhophi_theta_eq, VS.lorentz_t.xy_z_t_eq, c08_lorentz_t_rhophi_theta_tau, h0, VR.P.nanToNum_eq]

theorem c08_lorentz_subtract_k_xy_z_t_rhophi_z_tau (coord11 coord12 coord13 coord14 coord21 coord22 coord23 coord24 : ℝ) (h0 : 0 ≤ coord24) :
    VS.lorentz_subtract.k_xy_z_t_rhophi_z_tau coord11 coord12 coord13 coord14 coord21 coord22 coord23 coord24 = VR.lorentz_subtract.k_xy_z_t_rhophi_z_tau coord11 coord12 coord13 coord14 coord21 coord22 coord23 coord24 := by
  simp only [VS.lorentz_subtract.k_xy_z_t_rhophi_z_tau, VR.lorentz_subtract.k_xy_z_t_rhophi_z_tau, VS.spatial_subtract.xy_z_rhophi_z_eq, VS.lorentz_t.xy_z_t_eq, c08_lorentz_t_rhophi_z_tau, h0, VR.P.nanToNum_eq]

theorem c08_lorentz_subtract_k_xy_z_t_xy_eta_tau (coord11 coord12 coord13 coord14 coord21 coord22 coord23 coord24 : ℝ) (h0 : 0 ≤ coord24) :
    VS.lorentz_subtract.k_xy_z_t_xy_eta_tau coord11 coord12 coord13 coord14 coord21 coord22 coord23 coord24 = VR.lorentz_subtract.k_xy_z_t_xy_eta_tau coord11 coord12 coord13 coord14 coord21 coord22 coord23 coord24 := by
  simp only [VS.lorentz_subtract.k_xy_z_t_xy_eta_tau, VR.lorentz_subtract.k_xy_z_t_xy_eta_tau, VS.spatial_subtract.xy_z_xy_eta_eq, VS.lorentz_t.xy_z_t_eq, c08_lorentz_t_xy_eta_tau, h0, VR.P.nanToNum_eq]

theorem c08_lorentz_subtract_k_xy_z_t_xy_theta_tau (coord11 coord12 coord13 coord14 coord21 coord22 coord23 coord24 : ℝ) (h0 : 0 ≤ coord24) :
    VS.lorentz_subtract.k_xy_z_t_xy_theta_tau coord11 coord12 coord13 coord14 coord21 coord22 coord23 coord24 = VR.lorentz_subtract.k_xy_z_t_xy_theta_tau coord11 coord12 coord13 coord14 coord21 coord22 coord23 coord24 := by
  simp only [VS.lorentz_subtract.k_xy_z_t_xy_theta_tau, VR.lorentz_subtract.k_xy_z_t_xy_theta_tau, VS.spatial_subtract.xy_z_xy_theta_eq, VS.lorentz_t.xy_z_t_eq, c08_lorentz_t_xy_theta_tau, h0, VR.P.nanToNum_eq]

theorem c08_lorentz_subtract_k_xy_z_t_xy_z_tau (coord11 coord12 coord13 coord14 coord21 coord22 coord23 coord24 : ℝ) (h0 : 0 ≤ coord24) :
    VS.lorentz_subtract.k_xy_z_t_xy_z_tau coord11 coord12 coord13 coord14 coord21 coord22 coord23 coord24 = VR.lorentz_subtract.k_xy_z_t_xy_z_tau coord11 coord12 coord13 coord14 coord21 coord22 coord23 coord24 := by
  simp only [VS.lorentz_subtract.k_xy_z_t_xy_z_tau, VR.lorentz_subtract.k_xy_z_t_xy_z_tau, VS.spatial_subtract.xy_z_xy_z_eq, VS.lorentz_t.xy_z_t_eq, c08_lorentz_t_xy_z_tau, h0, VR.P.nanToNum_eq]

theorem c08_lorentz_subtract_k_xy_z_tau_rhophi_eta_t (coord11 coord12 coord13 coord14 coord21 coord22 coord23 coord24 : ℝ) (h0 : 0 ≤ coord14) :
    VS.lorentz_subtract.k_xy_z_tau_rhophi_eta_t coord11 coord12 coord13 coord14 coord21 coord22 coord23 coord24 = VR.lorentz_subtract.k_xy_z_tau_rhophi_eta_t coord11 coord12 coord13 coord14 coord21 coord22 coord23 coord24 := by
  simp only [VS.lorentz_subtract.k_xy_z_tau_rhophi_eta_t, VR.lorentz_subtract.k_xy_z_tau_rhophi_eta_t, VS.spatial_subtract.xy_z_rhophi_eta_eq, c08_lorentz_t_xy_z_tau, VS.lorentz_t.rhophi_eta_t_eq, h0, VR.P.nanToNum_eq]

theorem c08_lorentz_subtract_k_xy_z_tau_rhophi_eta_tau (coord11 coord12 coord13 coord14 coord21 coord22 coord23 coord24 : ℝ) (h0 : 0 ≤ coord14) (h1 : 0 ≤ coord24) (hres : 0 ≤ (VR.lorentz_subtract.k_xy_z_tau_rhophi_eta_tau coord11 coord12 coord13 coord14 coord21 coord22 coord23 coord24).2.2.2) :
    VS.lorentz_subtract.k_xy_z_tau_rhophi_eta_tau coord11 coord12 coord13 coord14 coord21 coord22 coord23 coord24 = VR.lorentz_subtract.k_xy_z_tau_rhophi_eta_tau coord11 coord12 coord13 coord14 coord21 coord22 coord23 coord24 := by
  simp only [VR.lorentz_subtract.k_xy_z_tau_rhophi_eta_tau] at hres
  simp only [VS.lorentz_subtract.k_xy_z_tau_rhophi_eta_tau, VR.lorentz_subtract.k_xy_z_tau_rhophi_eta_tau, VS.spatial_subtract.xy_z_rhophi_eta_eq, c08_lorentz_t_xy_z_tau, c08_lorentz_t_rhophi_eta_tau, c08_lorentz_tau_xy_z_t, h0, h1, VR.P.nanToNum_eq]
  rw [c08_lorentz_tau_xy_z_t_of_result _ _ _ _ hres]

theorem c08_lorentz_subtract_k_xy_z_tau_rhophi_theta_t (coord11 coord12 coord13 coord14 coord21 coord22 coord23 coord24 : ℝ) (h0 : 0 ≤ coord14) :
    VS.lorentz_subtract.k_xy_z_tau_rhophi_theta_t coord11 coord12 coord13 coord14 coord21 coord22 coord23 coord24 = VR.lorentz_subtract.k_xy_z_tau_rhophi_theta_t coord11 coord12 coord13 coord14 coord21 coord22 coord23 coord24 := by
  simp only [VS.lorentz_subtract.k_xy_z_tau_rhophi_theta_t, VR.lorentz_subtract.k_xy_z_tau_rhophi_theta_t, VS.spatial_subtract.xy_z_rhophi_theta_eq, c08_lorentz_t_xy_z_tau, VS.lorentz_t.rhophi_theta_t_eq, h0, VR.P.nanToNum_eq]

theorem c08_lorentz_subtract_k_xy_z_tau_rhophi_theta_tau (coord11 coord12 coord13 coord14 coord21 coord22 coord23 coord24 : ℝ) (h0 : 0 ≤ coord14) (h1 : 0 ≤ coord24) (hres : 0 ≤ (VR.lorentz_subtract.k_xy_z_tau_rhophi_theta_tau coord11 coord12 coord13 coord14 coord21 coord22 coord23 coord24).2.2.2) :
    VS.lorentz_subtract.k_xy_z_tau_rhophi_theta_tau coord11 coord12 coord13 coord14 coord21 coord22 coord23 coord24 = VR.lorentz_subtract.k_xy_z_tau_rhophi_theta_tau coord11 coord12 coord13 coord14 coord21 coord22 coord23 coord24 := by
  simp only [VR.lorentz_subtract.k_xy_z_tau_rhophi_theta_tau] at hres
  simp only [VS.lorentz_subtract.k_xy_z_tau_rhophi_theta_tau, VR.lorentz_subtract.k_xy_z_tau_rhophi_theta_tau, VS.spatial_subtract.xy_z_rhophi_theta_eq, c08_lorentz_t_xy_z_tau, c08_lorentz_t_rhophi_theta_tau, c08_lorentz_tau_xy_z_t, h0, h1, VR.P.nanToNum_eq]
  rw [c08_lorentz_tau_xy_z_t_of_result _ _ _ _ hres]

theorem c08_lorentz_subtract_k_xy_z_tau_rhophi_z_t (coord11 coord12 coord13 coord14 coord21 coord22 coord23 coord24 : ℝ) (h0 : 0 ≤ coord14) :
    VS.lorentz_subtract.k_xy_z_tau_rhophi_z_t coord11 coord12 coord13 coord14 coord21 coord22 coord23 coord24 = VR.lorentz_subtract.k_xy_z_tau_rhophi_z_t coord11 coord12 coord13 coord14 coord21 coord22 coord23 coord24 := by
  simp only [VS.lorentz_subtract.k_xy_z_tau_rhophi_z_t, VR.lorentz_subtract.k_xy_z_tau_rhophi_z_t, VS.spatial_subtract.xy_z_rhophi_z_eq, c08_lorentz_t_xy_z_tau, VS.lorentz_t.rhophi_z_t_eq, h0, VR.P.nanToNum_eq]

theorem c08_lorentz_subtract_k_xy_z_tau_rhophi_z_tau (coord11 coord12 coord13 coord14 coord21 coord22 coord23 coord24 : ℝ) (h0 : 0 ≤ coord14) (h1 : 0 ≤ coord24) (hres : 0 ≤ (VR.lorentz_subtract.k_xy_z_tau_rhophi_z_tau coord11 coord12 coord13 coord14 coord21 coord22 coord23 coord24).2.2.2) :
    VS.lorentz_subtract.k_xy_z_tau_rhophi_z_tau coord11 coord12 coord13 coord14 coord21 coord22 coord23 coord24 = VR.lorentz_subtract.k_xy_z_tau_rhophi_z_tau coord11 coord12 coord13 coord14 coord21 coord22 coord23 coord24 := by
  simp only [VR.lorentz_subtract.k_xy_z_tau_rhophi_z_tau] at hres
  simp only [VS.lorentz_subtract.k_xy_z_tau_rhophi_z_tau, VR.lorentz_subtract.k_xy_z_tau_rhophi_z_tau, VS.spatial_subtract.xy_z_rhophi_z_eq, c08_lorentz_t_xy_z_tau, c08_lorentz_t_rhophi_z_tau, c08_lorentz_tau_xy_z_t, h0, h1, VR.P.nanToNum_eq]
  rw [c08_lorentz_tau_xy_z_t_of_result _ _ _ _ hres]

theorem c08_lorentz_subtract_k_xy_z_tau_xy_eta_t (coord11 coord12 coord13 coord14 coord21 coord22 coord23 coord24 : ℝ) (h0 : 0 ≤ coord14) :
    VS.lorentz_subtract.k_xy_z_tau_xy_eta_t coord11 coord12 coord13 coord14 coord21 coord22 coord23 coord24 = VR.lorentz_subtract.k_xy_z_tau_xy_eta_t coord11 coord12 coord13 coord14 coord21 coord22 coord23 coord24 := by
  simp only [VS.lorentz_subtract.k_xy_z_tau_xy_eta_t, VR.lorentz_subtract.k_xy_z_tau_xy_eta_t, VS.spatial_subtract.xy_z_xy_eta_eq, c08_lorentz_t_xy_z_tau, VS.lorentz_t.xy_eta_t_eq, h0, VR.P.nanToNum_eq]

theorem c08_lorentz_subtract_k_xy_z_tau_xy_eta_tau (coord11 coord12 coord13 coord14 coord21 coord22 coord23 coord24 : ℝ) (h0 : 0 ≤ coord14) (h1 : 0 ≤ coord24) (hres : 0 ≤ (VR.lorentz_subtract.k_xy_z_tau_xy_eta_tau coord11 coord12 coord13 coord14 coord21 coord22 coord23 coord24).2.2.2) :
    VS.lorentz_subtract.k_xy_z_tau_xy_eta_tau coord11 coord12 coord13 coord14 coord21 coord22 coord23 coord24 = VR.lorentz_subtract.k_xy_z_tau_xy_eta_tau coord11 coord12 coord13 coord14 coord21 coord22 coord23 coord24 := by
  simp only [VR.lorentz_subtract.k_xy_z_tau_xy_eta_tau] at hres
  simp only [VS.lorentz_subtract.k_xy_z_tau_xy_eta_tau, VR.lorentz_subtract.k_xy_z_tau_xy_eta_tau, VS.spatial_subtract.xy_z_xy_eta_eq, c08_lorentz_t_xy_z_tau, c08_lorentz_t_xy_eta_tau, c08_lorentz_tau_xy_z_t, h0, h1, VR.P.nanToNum_eq]
  rw [c08_lorentz_tau_xy_z_t_of_result _ _ _ _ hres]

theorem c08_lorentz_subtract_k_xy_z_tau_xy_theta_t (coord11 coord12 coord13 coord14 coord21 coord22 coord23 coord24 : ℝ) (h0 : 0 ≤ coord14) :
    VS.lorentz_subtract.k_xy_z_tau_xy_theta_t coord11 coord12 coord13 coord14 coord21 coord22 coord23 coord24 = VR.lorentz_subtract.k_xy_z_tau_xy_theta_t coord11 coord12 coord13 coord14 coord21 coord22 coord23 coord24 := by
  simp only [VS.lorentz_subtract.k_xy_z_tau_xy_theta_t, VR.lorentz_subtract.k_xy_z_tau_xy_theta_t, VS.spatial_subtract.xy_z_xy_theta_eq, c08_lorentz_t_xy_z_tau, VS.lorentz_t.xy_theta_t_eq, h0, VR.P.nanToNum_eq]

theorem c08_lorentz_subtract_k_xy_z_tau_xy_theta_tau (coord11 coord12 coord13 coord14 coord21 coord22 coord23 coord24 : ℝ) (h0 : 0 ≤ coord14) (h1 : 0 ≤ coord24) (hres : 0 ≤ (VR.lorentz_subtract.k_xy_z_tau_xy_theta_tau coord11 coord12 coord13 coord14 coord21 coord22 coord23 coord24).2.2.2) :
    VS.lorentz_subtract.k_xy_z_tau_xy_theta_tau coord11 coord12 coord13 coord14 coord21 coord22 coord23 coord24 = VR.lorentz_subtract.k_xy_z_tau_xy_theta_tau coord11 coord12 coord13 coord14 coord21 coord22 coord23 coord24 := by
  simp only [VR.lorentz_subtract.k_xy_z_tau_xy_theta_tau] at hres
  simp only [VS.lorentz_subtract.k_xy_z_tau_xy_theta_tau, VR.lorentz_subtract.k_xy_z_tau_xy_theta_tau, VS.spatial_subtract.xy_z_xy_theta_eq, c08_lorentz_t_xy_z_tau, c08_lorentz_t_xy_theta_tau, c08_lorentz_tau_xy_z_t, h0, h1, VR.P.nanToNum_eq]
  rw [c08_lorentz_tau_xy_z_t_of_result _ _ _ _ hres]

theorem c08_lorentz_subtract_k_xy_z_tau_xy_z_t (coord11 coord12 coord13 coord14 coord21 coord22 coord23 coord24 : ℝ) (h0 : 0 ≤ coord14) :
    VS.lorentz_subtract.k_xy_z_tau_xy_z_t coord11 coord12 coord13 coord14 coord21 coord22 coord23 coord24 = VR.lorentz_subtract.k_xy_z_tau_xy_z_t coord11 coord12 coord13 coord14 coord21 coord22 coord23 coord24 := by
  simp only [VS.lorentz_subtract.k_xy_z_tau_xy_z_t, VR.lorentz_subtract.k_xy_z_tau_xy_z_t, VS.spatial_subtract.xy_z_xy_z_eq, c08_lorentz_t_xy_z_tau, VS.lorentz_t.xy_z_t_eq, h0, VR.P.nanToNum_eq]

theorem c08_lorentz_subtract_k_xy_z_tau_xy_z_tau (coord11 coord12 coord13 coord14 coord21 coord22 coord23 coord24 : ℝ) (h0 : 0 ≤ coord14) (h1 : 0 ≤ coord24) (hres : 0 ≤ (VR.lorentz_subtract.k_xy_z_tau_xy_z_tau coord11 coord12 coord13 coord14 coord21 coord22 coord23 coord24).2.2.2) :
    VS.lorentz_subtract.k_xy_z_tau_xy_z_tau coord11 coord12 coord13 coord14 coord21 coord22 coord23 coord24 = VR.lorentz_subtract.k_xy_z_tau_xy_z_tau coord11 coord12 coord13 coord14 coord21 coord22 coord23 coord24 := by
  simp only [VR.lorentz_subtract.k_xy_z_tau_xy_z_tau] at hres
  simp only [VS.lorentz_subtract.k_xy_z_tau_xy_z_tau, VR.lorentz_subtract.k_xy_z_tau_xy_z_tau, VS.spatial_subtract.xy_z_xy_z_eq, c08_lorentz_t_xy_z_tau, c08_lorentz_tau_xy_z_t, h0, h1, VR.P.nanToNum_eq]
  rw [c08_lorentz_tau_xy_z_t_of_result _ _ _ _ hres]


/-! ### `lorentz_deltaRapidityPhi2` -/

theorem c08_lorentz_deltaRapidityPhi2_k_rhophi_eta_t_rhophi_eta_tau (coord11 coord12 coord13 coord14 coord21 coord22 coord23 coord24 : ℝ) (h0 : 0 ≤ coord24) :
    VS.lorentz_deltaRapidityPhi2.k_rhophi_eta_t_rhophi_eta_tau coord11 coord12 coord13 coord14 coord21 coord22 coord23 coord24 = VR.lorentz_deltaRapidityPhi2.k_rhophi_eta_t_rhophi_eta_tau coord11 coord12 coord13 coord14 coord21 coord22 coord23 coord24 := by
  simp only [VS.lorentz_deltaRapidityPhi2.k_rhophi_eta_t_rhophi_eta_tau, VR.lorentz_deltaRapidityPhi2.k_rhophi_eta_t_rhophi_eta_tau, VS.planar_deltaphi.rhophi_rhophi_eq, VS.lorentz_rapidity.rhophi_eta_t_eq, c08_lorentz_rapidity_rhophi_eta_tau, h0, VR.P.nanToNum_eq]

theorem c08_lorentz_deltaRapidityPhi2_k_rhophi_eta_t_rhophi_theta_tau (coord11 coord12 coord13 coord14 coord21 coord22 coord23 coord24 : ℝ) (h0 : 0 ≤ coord24) :
    VS.lorentz_deltaRapidityPhi2.k_rhophi_eta_t_rhophi_theta_tau coord11 coord12 coord13 coord14 coord21 coord22 coord23 coord24 = VR.lorentz_deltaRapidityPhi2.k_rhophi_eta_t_rhophi_theta_tau coord11 coord12 coord13 coord14 coord21 coord22 coord23 coord24 := by
  simp only [VS.lorentz_deltaRapidityPhi2.k_rhophi_eta_t_rhophi_theta_tau, VR.lorentz_deltaRapidityPhi2.k_rhophi_eta_t_rhophi_theta_tau, VS.planar_deltaphi.rhophi_rhophi_eq, VS.lorentz_rapidity.rhophi_eta_t_eq, c08_lorentz_rapidity_rhophi_theta_tau, h0, VR.P.nanToNum_eq]

theorem c08_lorentz_deltaRapidityPhi2_k_rhophi_eta_t_rhophi_z_tau (coord11 coord12 coord13 coord14 coord21 coord22 coord23 coord24 : ℝ) (h0 : 0 ≤ coord24) :
    VS.lorentz_deltaRapidityPhi2.k_rhophi_eta_t_rhophi_z_tau coord11 coord12 coord13 coord14 coord21 coord22 coord23 coord24 = VR.lorentz_deltaRapidityPhi2.k_rhophi_eta_t_rhophi_z_tau coord11 coord12 coord13 coord14 coord21 coord22 coord23 coord24 := by
  simp only [VS.lorentz_deltaRapidityPhi2.k_rhophi_eta_t_rhophi_z_tau, VR.lorentz_deltaRapidityPhi2.k_rhophi_eta_t_rhophi_z_tau, VS.planar_deltaphi.rhophi_rhophi_eq, VS.lorentz_rapidity.rhophi_eta_t_eq, c08_lorentz_rapidity_rhophi_z_tau, h0, VR.P.nanToNum_eq]

theorem c08_lorentz_deltaRapidityPhi2_k_rhophi_eta_t_xy_eta_tau (coord11 coord12 coord13 coord14 coord21 coord22 coord23 coord24 : ℝ) (h0 : 0 ≤ coord24) :
    VS.lorentz_deltaRapidityPhi2.k_rhophi_eta_t_xy_eta_tau coord11 coord12 coord13 coord14 coord21 coord22 coord23 coord24 = VR.lorentz_deltaRapidityPhi2.k_rhophi_eta_t_xy_eta_tau coord11 coord12 coord13 coord14 coord21 coord22 coord23 coord24 := by
  simp only [VS.lorentz_deltaRapidityPhi2.k_rhophi_eta_t_xy_eta_tau, VR.lorentz_deltaRapidityPhi2.k_rhophi_eta_t_xy_eta_tau, VS.planar_deltaphi.rhophi_xy_eq, VS.lorentz_rapidity.rhophi_eta_t_eq, c08_lorentz_rapidity_xy_eta_tau, h0, VR.P.nanToNum_eq]

theorem c08_lorentz_deltaRapidityPhi2_k_rhophi_eta_t_xy_theta_tau (coord11 coord12 coord13 coord14 coord21 coord22 coord23 coord24 : ℝ) (h0 : 0 ≤ coord24) :
    VS.lorentz_deltaRapidityPhi2.k_rhophi_eta_t_xy_theta_tau coord11 coord12 coord13 coord14 coord21 coord22 coord23 coord24 = VR.lorentz_deltaRapidityPhi2.k_rhophi_eta_t_xy_theta_tau coord11 coord12 coord13 coord14 coord21 coord22 coord23 coord24 := by
  simp only [VS.lorentz_deltaRapidityPhi2.k_rhophi_eta_t_xy_theta_tau, VR.lorentz_deltaRapidityPhi2.k_rhophi_eta_t_xy_theta_tau, VS.planar_deltaphi.rhophi_xy_eq, VS.lorentz_rapidity.rhophi_eta_t_eq, c08_lorentz_rapidity_xy_theta_tau, h0, VR.P.nanToNum_eq]

theorem c08_lorentz_deltaRapidityPhi2_k_rhophi_eta_t_xy_z_tau (coord11 coord12 coord13 coord14 coord21 coord22 coord23 coord24 : ℝ) (h0 : 0 ≤ coord24) :
    VS.lorentz_deltaRapidityPhi2.k_rhophi_eta_t_xy_z_tau coord11 coord12 coord13 coord14 coord21 coord22 coord23 coord24 = VR.lorentz_deltaRapidityPhi2.k_rhophi_eta_t_xy_z_tau coord11 coord12 coord13 coord14 coord21 coord22 coord23 coord24 := by
  simp only [VS.lorentz_deltaRapidityPhi2.k_rhophi_eta_t_xy_z_tau, VR.lorentz_deltaRapidityPhi2.k_rhophi_eta_t_xy_z_tau, VS.planar_deltaphi.rhophi_xy_eq, VS.lorentz_rapidity.rhophi_eta_t_eq, c08_lorentz_rapidity_xy_z_tau, h0, VR.P.nanToNum_eq]

theorem c08_lorentz_deltaRapidityPhi2_k_rhophi_eta_tau_rhophi_eta_t (coord11 coord12 coord13 coord14 coord21 coord22 coord23 coord24 : ℝ) (h0 : 0 ≤ coord14) :
    VS.lorentz_deltaRapidityPhi2.k_rhophi_eta_tau_rhophi_eta_t coord11 coord12 coord13 coord14 coord21 coord22 coord23 coord24 = VR.lorentz_deltaRapidityPhi2.k_rhophi_eta_tau_rhophi_eta_t coord11 coord12 coord13 coord14 coord21 coord22 coord23 coord24 := by
  simp only [VS.lorentz_deltaRapidityPhi2.k_rhophi_eta_tau_rhophi_eta_t, VR.lorentz_deltaRapidityPhi2.k_rhophi_eta_tau_rhophi_eta_t, VS.planar_deltaphi.rhophi_rhophi_eq, c08_lorentz_rapidity_rhophi_eta_tau, VS.lorentz_rapidity.rhophi_eta_t_eq, h0, VR.P.nanToNum_eq]

theorem c08_lorentz_deltaRapidityPhi2_k_rhophi_eta_tau_rhophi_eta_tau (coord11 coord12 coord13 coord14 coord21 coord22 coord23 coord24 : ℝ) (h0 : 0 ≤ coord14) (h1 : 0 ≤ coord24) :
    VS.lorentz_deltaRapidityPhi2.k_rhophi_eta_tau_rhophi_eta_tau coord11 coord12 coord13 coord14 coord21 coord22 coord23 coord24 = VR.lorentz_deltaRapidityPhi2.k_rhophi_eta_tau_rhophi_eta_tau coord11 coord12 coord13 coord14 coord21 coord22 coord23 coord24 := by
  simp only [VS.lorentz_deltaRapidityPhi2.k_rhophi_eta_tau_rhophi_eta_tau, VR.lorentz_deltaRapidityPhi2.k_rhophi_eta_tau_rhophi_eta_tau, VS.planar_deltaphi.rhophi_rhophi_eq, c08_lorentz_rapidity_rhophi_eta_tau, h0, h1, VR.P.nanToNum_eq]

theorem c08_lorentz_deltaRapidityPhi2_k_rhophi_eta_tau_rhophi_theta_t (coord11 coord12 coord13 coord14 coord21 coord22 coord23 coord24 : ℝ) (h0 : 0 ≤ coord14) :
    VS.lorentz_deltaRapidityPhi2.k_rhophi_eta_tau_rhophi_theta_t coord11 coord12 coord13 coord14 coord21 coord22 coord23 coord24 = VR.lorentz_deltaRapidityPhi2.k_rhophi_eta_tau_rhophi_theta_t coord11 coord12 coord13 coord14 coord21 coord22 coord23 coord24 := by
  simp only [VS.lorentz_deltaRapidityPhi2.k_rhophi_eta_tau_rhophi_theta_t, VR.lorentz_deltaRapidityPhi2.k_rhophi_eta_tau_rhophi_theta_t, VS.planar_deltaphi.rhophi_rhophi_eq, c08_lorentz_rapidity_rhophi_eta_tau, VS.lorentz_rapidity.rhophi_theta_t_eq, h0, VR.P.nanToNum_eq]

theorem c08_lorentz_deltaRapidityPhi2_k_rhophi_eta_tau_rhophi_theta_tau (coord11 coord12 coord13 coord14 coord21 coord22 coord23 coord24 : ℝ) (h0 : 0 ≤ coord14) (h1 : 0 ≤ coord24) :
    VS.lorentz_deltaRapidityPhi2.k_rhophi_eta_tau_rhophi_theta_tau coord11 coord12 coord13 coord14 coord21 coord22 coord23 coord24 = VR.lorentz_deltaRapidityPhi2.k_rhophi_eta_tau_rhophi_theta_tau coord11 coord12 coord13 coord14 coord21 coord22 coord23 coord24 := by
  simp only [VS.lorentz_deltaRapidityPhi2.k_rhophi_eta_tau_rhophi_theta_tau, VR.lorentz_deltaRapidityPhi2.k_rhophi_eta_tau_rhophi_theta_tau, VS.planar_deltaphi.rhophi_rhophi_eq, c08_lorentz_rapidity_rhophi_eta_tau, c08_lorentz_rapidity_rhophi_theta_tau, h0, h1, VR.P.nanToNum_eq]

theorem c08_lorentz_deltaRapidityPhi2_k_rhophi_eta_tau_rhophi_z_t (coord11 coord12 coord13 coord14 coord21 coord22 coord23 coord24 : ℝ) (h0 : 0 ≤ coord14) :
    VS.lorentz_deltaRapidityPhi2.k_rhophi_eta_tau_rhophi_z_t coord11 coord12 coord13 coord14 coord21 coord22 coord23 coord24 = VR.lorentz_deltaRapidityPhi2.k_rhophi_eta_tau_rhophi_z_t coord11 coord12 coord13 coord14 coord21 coord22 coord23 coord24 := by
  simp only [VS.lorentz_deltaRapidityPhi2.k_rhophi_eta_tau_rhophi_z_t, VR.lorentz_deltaRapidityPhi2.k_rhophi_eta_tau_rhophi_z_t, VS.planar_deltaphi.rhophi_rhophi_eq, c08_lorentz_rapidity_rhophi_eta_tau, VS.lorentz_rapidity.rhophi_z_t_eq, h0, VR.P.nanToNum_eq]

theorem c08_lorentz_deltaRapidityPhi2_k_rhophi_eta_tau_rhophi_z_tau (coord11 coord12 coord13 coord14 coord21 coord22 coord23 coord24 : ℝ) (h0 : 0 ≤ coord14) (h1 : 0 ≤ coord24) :
    VS.lorentz_deltaRapidityPhi2.k_rhophi_eta_tau_rhophi_z_tau coord11 coord12 coord13 coord14 coord21 coord22 coord23 coord24 = VR.lorentz_deltaRapidityPhi2.k_rhophi_eta_tau_rhophi_z_tau coord11 coord12 coord13 coord14 coord21 coord22 coord23 coord24 := by
  simp only [VS.lorentz_deltaRapidityPhi2.k_rhophi_eta_tau_rhophi_z_tau, VR.lorentz_deltaRapidityPhi2.k_rhophi_eta_tau_rhophi_z_tau, VS.planar_deltaphi.rhophi_rhophi_eq, c08_lorentz_rapidity_rhophi_eta_tau, c08_lorentz_rapidity_rhophi_z_tau, h0, h1, VR.P.nanToNum_eq]

theorem c08_lorentz_deltaRapidityPhi2_k_rhophi_eta_tau_xy_eta_t (coord11 coord12 coord13 coord14 coord21 coord22 coord23 coord24 : ℝ) (h0 : 0 ≤ coord14) :
    VS.lorentz_deltaRapidityPhi2.k_rhophi_eta_tau_xy_eta_t coord11 coord12 coord13 coord14 coord21 coord22 coord23 coord24 = VR.lorentz_deltaRapidityPhi2.k_rhophi_eta_tau_xy_eta_t coord11 coord12 coord13 coord14 coord21 coord22 coord23 coord24 := by
  simp only [VS.lorentz_deltaRapidityPhi2.k_rhophi_eta_tau_xy_eta_t, VR.lorentz_deltaRapidityPhi2.k_rhophi_eta_tau_xy_eta_t, VS.planar_deltaphi.rhophi_xy_eq, c08_lorentz_rapidity_rhophi_eta_tau, VS.lorentz_rapidity.xy_eta_t_eq, h0, VR.P.nanToNum_eq]

theorem c08_lorentz_deltaRapidityPhi2_k_rhophi_eta_tau_xy_eta_tau (coord11 coord12 coord13 coord14 coord21 coord22 coord23 coord24 : ℝ) (h0 : 0 ≤ coord14) (h1 : 0 ≤ coord24) :
    VS.lorentz_deltaRapidityPhi2.k_rhophi_eta_tau_xy_eta_tau coord11 coord12 coord13 coord14 coord21 coord22 coord23 coord24 = VR.lorentz_deltaRapidityPhi2.k_rhophi_eta_tau_xy_eta_tau coord11 coord12 coord13 coord14 coord21 coord22 coord23 coord24 := by
  simp only [VS.lorentz_deltaRapidityPhi2.k_rhophi_eta_tau_xy_eta_tau, VR.lorentz_deltaRapidityPhi2.k_rhophi_eta_tau_xy_eta_tau, VS.planar_deltaphi.rhophi_xy_eq, c08_lorentz_rapidity_rhophi_eta_tau, c08_lorentz_rapidity_xy_eta_tau, h0, h1, VR.P.nanToNum_eq]

theorem c08_lorentz_deltaRapidityPhi2_k_rhophi_eta_tau_xy_theta_t (coord11 coord12 coord13 coord14 coord21 coord22 coord23 coord24 : ℝ) (h0 : 0 ≤ coord14) :
    VS.lorentz_deltaRapidityPhi2.k_rhophi_eta_tau_xy_theta_t coord11 coord12 coord13 coord14 coord21 coord22 coord23 coord24 = VR.lorentz_deltaRapidityPhi2.k_rhophi_eta_tau_xy_theta_t coord11 coord12 coord13 coord14 coord21 coord22 coord23 coord24 := by
  simp only [VS.lorentz_deltaRapidityPhi2.k_rhophi_eta_tau_xy_theta_t, VR.lorentz_deltaRapidityPhi2.k_rhophi_eta_tau_xy_theta_t, VS.planar_deltaphi.rhophi_xy_eq, c08_lorentz_rapidity_rhophi_eta_tau, VS.lorentz_rapidity.xy_theta_t_eq, h0, VR.P.nanToNum_eq]

theorem c08_lorentz_deltaRapidityPhi2_k_rhophi_eta_tau_xy_theta_tau (coord11 coord12 coord13 coord14 coord21 coord22 coord23 coord24 : ℝ) (h0 : 0 ≤ coord14) (h1 : 0 ≤ coord24) :
    VS.lorentz_deltaRapidityPhi2.k_rhophi_eta_tau_xy_theta_tau coord11 coord12 coord13 coord14 coord21 coord22 coord23 coord24 = VR.lorentz_deltaRapidityPhi2.k_rhophi_eta_tau_xy_theta_tau coord11 coord12 coord13 coord14 coord21 coord22 coord23 coord24 := by
  simp only [VS.lorentz_deltaRapidityPhi2.k_rhophi_eta_tau_xy_theta_tau, VR.lorentz_deltaRapidityPhi2.k_rhophi_eta_tau_xy_theta_tau, VS.planar_deltaphi.rhophi_xy_eq, c08_lorentz_rapidity_rhophi_eta_tau, c08_lorentz_rapidity_xy_theta_tau, h0, h1, VR.P.nanToNum_eq]

theorem c08_lorentz_deltaRapidityPhi2_k_rhophi_eta_tau_xy_z_t (coord11 coord12 coord13 coord14 coord21 coord22 coord23 coord24 : ℝ) (h0 : 0 ≤ coord14) :
    VS.lorentz_deltaRapidityPhi2.k_rhophi_eta_tau_xy_z_t coord11 coord12 coord13 coord14 coord21 coord22 coord23 coord24 = VR.lorentz_deltaRapidityPhi2.k_rhophi_eta_tau_xy_z_t coord11 coord12 coord13 coord14 coord21 coord22 coord23 coord24 := by
  simp only [VS.lorentz_deltaRapidityPhi2.k_rhophi_eta_tau_xy_z_t, VR.lorentz_deltaRapidityPhi2.k_rhophi_eta_tau_xy_z_t, VS.planar_deltaphi.rhophi_xy_eq, c08_lorentz_rapidity_rhophi_eta_tau, VS.lorentz_rapidity.xy_z_t_eq, h0, VR.P.nanToNum_eq]

theorem c08_lorentz_deltaRapidityPhi2_k_rhophi_eta_tau_xy_z_tau (coord11 coord12 coord13 coord14 coord21 coord22 coord23 coord24 : ℝ) (h0 : 0 ≤ coord14) (h1 : 0 ≤ coord24) :
    VS.lorentz_deltaRapidityPhi2.k_rhophi_eta_tau_xy_z_tau coord11 coord12 coord13 coord14 coord21 coord22 coord23 coord24 = VR.lorentz_deltaRapidityPhi2.k_rhophi_eta_tau_xy_z_tau coord11 coord12 coord13 coord14 coord21 coord22 coord23 coord24 := by
  simp only [VS.lorentz_deltaRapidityPhi2.k_rhophi_eta_tau_xy_z_tau, VR.lorentz_deltaRapidityPhi2.k_rhophi_eta_tau_xy_z_tau, VS.planar_deltaphi.rhophi_xy_eq, c08_lorentz_rapidity_rhophi_eta_tau, c08_lorentz_rapidity_xy_z_tau, h0, h1, VR.P.nanToNum_eq]

theorem c08_lorentz_deltaRapidityPhi2_k_rhophi_theta_t_rhophi_eta_tau (coord11 coord12 coord13 coord14 coord21 coord22 coord23 coord24 : ℝ) (h0 : 0 ≤ coord24) :
    VS.lorentz_deltaRapidityPhi2.k_rhophi_theta_t_rhophi_eta_tau coord11 coord12 coord13 coord14 coord21 coord22 coord23 coord24 = VR.lorentz_deltaRapidityPhi2.k_rhophi_theta_t_rhophi_eta_tau coord11 coord12 coord13 coord14 coord21 coord22 coord23 coord24 := by
  simp only [VS.lorentz_deltaRapidityPhi2.k_rhophi_theta_t_rhophi_eta_tau, VR.lorentz_deltaRapidityPhi2.k_rhophi_theta_t_rhophi_eta_tau, VS.planar_deltaphi.rhophi_rhophi_eq, VS.lorentz_rapidity.rhophi_theta_t_eq, c08_lorentz_rapidity_rhophi_eta_tau, h0, VR.P.nanToNum_eq]

theorem c08_lorentz_deltaRapidityPhi2_k_rhophi_theta_t_rhophi_theta_tau (coord11 coord12 coord13 coord14 coord21 coord22 coord23 coord24 : ℝ) (h0 : 0 ≤ coord24) :
    VS.lorentz_deltaRapidityPhi2.k_rhophi_theta_t_rhophi_theta_tau coord11 coord12 coord13 coord14 coord21 coord22 coord23 coord24 = VR.lorentz_deltaRapidityPhi2.k_rhophi_theta_t_rhophi_theta_tau coord11 coord12 coord13 coord14 coord21 coord22 coord23 coord24 := by
  simp only [VS.lorentz_deltaRapidityPhi2.k_rhophi_theta_t_rhophi_theta_tau, VR.lorentz_deltaRapidityPhi2.k_rhophi_theta_t_rhophi_theta_tau, VS.planar_deltaphi.rhophi_rhophi_eq, VS.lorentz_rapidity.rhophi_theta_t_eq, c08_lorentz_rapidity_rhophi_theta_tau, h0, VR.P.nanToNum_eq]

theorem c08_lorentz_deltaRapidityPhi2_k_rhophi_theta_t_rhophi_z_tau (coord11 coord12 coord13 coord14 coord21 coord22 coord23 coord24 : ℝ) (h0 : 0 ≤ coord24) :
    VS.lorentz_deltaRapidityPhi2.k_rhophi_theta_t_rhophi_z_tau coord11 coord12 coord13 coord14 coord21 coord22 coord23 coord24 = VR.lorentz_deltaRapidityPhi2.k_rhophi_theta_t_rhophi_z_tau coord11 coord12 coord13 coord14 coord21 coord22 coord23 coord24 := by
  simp only [VS.lorentz_deltaRapidityPhi2.k_rhophi_theta_t_rhophi_z_tau, VR.lorentz_deltaRapidityPhi2.k_rhophi_theta_t_rhophi_z_tau, VS.planar_deltaphi.rhophi_rhophi_eq, VS.lorentz_rapidity.rhophi_theta_t_eq, c08_lorentz_rapidity_rhophi_z_tau, h0, VR.P.nanToNum_eq]

theorem c08_lorentz_deltaRapidityPhi2_k_rhophi_theta_t_xy_eta_tau (coord11 coord12 coord13 coord14 coord21 coord22 coord23 coord24 : ℝ) (h0 : 0 ≤ coord24) :
    VS.lorentz_deltaRapidityPhi2.k_rhophi_theta_t_xy_eta_tau coord11 coord12 coord13 coord14 coord21 coord22 coord23 coord24 = VR.lorentz_deltaRapidityPhi2.k_rhophi_theta_t_xy_eta_tau coord11 coord12 coord13 coord14 coord21 coord22 coord23 coord24 := by
  simp only [VS.lorentz_deltaRapidityPhi2.k_rhophi_theta_t_xy_eta_tau, VR.lorentz_deltaRapidityPhi2.k_rhophi_theta_t_xy_eta_tau, VS.planar_deltaphi.rhophi_xy_eq, VS.lorentz_rapidity.rhophi_theta_t_eq, c08_lorentz_rapidity_xy_eta_tau, h0, VR.P.nanToNum_eq]

theorem c08_lorentz_deltaRapidityPhi2_k_rhophi_theta_t_xy_theta_tau (coord11 coord12 coord13 coord14 coord21 coord22 coord23 coord24 : ℝ) (h0 : 0 ≤ coord24) :
    VS.lorentz_deltaRapidityPhi2.k_rhophi_theta_t_xy_theta_tau coord11 coord12 coord13 coord14 coord21 coord22 coord23 coord24 = VR.lorentz_deltaRapidityPhi2.k_rhophi_theta_t_xy_theta_tau coord11 coord12 coord13 coord14 coord21 coord22 coord23 coord24 := by
  simp only [VS.lorentz_deltaRapidityPhi2.k_rhophi_theta_t_xy_theta_tau, VR.lorentz_deltaRapidityPhi2.k_rhophi_theta_t_xy_theta_tau, VS.planar_deltaphi.rhophi_xy_eq, VS.lorentz_rapidity.rhophi_theta_t_eq, c08_lorentz_rapidity_xy_theta_tau, h0, VR.P.nanToNum_eq]

theorem c08_lorentz_deltaRapidityPhi2_k_rhophi_theta_t_xy_z_tau (coord11 coord12 coord13 coord14 coord21 coord22 coord23 coord24 : ℝ) (h0 : 0 ≤ coord24) :
    VS.lorentz_deltaRapidityPhi2.k_rhophi_theta_t_xy_z_tau coord11 coord12 coord13 coord14 coord21 coord22 coord23 coord24 = VR.lorentz_deltaRapidityPhi2.k_rhophi_theta_t_xy_z_tau coord11 coord12 coord13 coord14 coord21 coord22 coord23 coord24 := by
  simp only [VS.lorentz_deltaRapidityPhi2.k_rhophi_theta_t_xy_z_tau, VR.lorentz_deltaRapidityPhi2.k_rhophi_theta_t_xy_z_tau, VS.planar_deltaphi.rhophi_xy_eq, VS.lorentz_rapidity.rhophi_theta_t_eq, c08_lorentz_rapidity_xy_z_tau, h0, VR.P.nanToNum_eq]

theorem c08_lorentz_deltaRapidityPhi2_k_rhophi_theta_tau_rhophi_eta_t (coord11 coord12 coord13 coord14 coord21 coord22 coord23 coord24 : ℝ) (h0 : 0 ≤ coord14) :
    VS.lorentz_deltaRapidityPhi2.k_rhophi_theta_tau_rhophi_eta_t coord11 coord12 coord13 coord14 coord21 coord22 coord23 coord24 = VR.lorentz_deltaRapidityPhi2.k_rhophi_theta_tau_rhophi_eta_t coord11 coord12 coord13 coord14 coord21 coord22 coord23 coord24 := by
  simp only [VS.lorentz_deltaRapidityPhi2.k_rhophi_theta_tau_rhophi_eta_t, VR.lorentz_deltaRapidityPhi2.k_rhophi_theta_tau_rhophi_eta_t, VS.planar_deltaphi.rhophi_rhophi_eq, c08_lorentz_rapidity_rhophi_theta_tau, VS.lorentz_rapidity.rhophi_eta_t_eq, h0, VR.P.nanToNum_eq]

theorem c08_lorentz_deltaRapidityPhi2_k_rhophi_theta_tau_rhophi_eta_tau (coord11 coord12 coord13 coord14 coord21 coord22 coord23 coord24 : ℝ) (h0 : 0 ≤ coord14) (h1 : 0 ≤ coord24) :
    VS.lorentz_deltaRapidityPhi2.k_rhophi_theta_tau_rhophi_eta_tau coord11 coord12 coord13 coord14 coord21 coord22 coord23 coord24 = VR.lorentz_deltaRapidityPhi2.k_rhophi_theta_tau_rhophi_eta_tau coord11 coord12 coord13 coord14 coord21 coord22 coord23 coord24 := by
  simp only [VS.lorentz_deltaRapidityPhi2.k_rhophi_theta_tau_rhophi_eta_tau, VR.lorentz_deltaRapidityPhi2.k_rhophi_theta_tau_rhophi_eta_tau, VS.planar_deltaphi.rhophi_rhophi_eq, c08_lorentz_rapidity_rhophi_theta_tau, c08_lorentz_rapidity_rhophi_eta_tau, h0, h1, VR.P.nanToNum_eq]

theorem c08_lorentz_deltaRapidityPhi2_k_rhophi_theta_tau_rhophi_theta_t (coord11 coord12 coord13 coord14 coord21 coord22 coord23 coord24 : ℝ) (h0 : 0 ≤ coord14) :
    VS.lorentz_deltaRapidityPhi2.k_rhophi_theta_tau_rhophi_theta_t coord11 coord12 coord13 coord14 coord21 coord22 coord23 coord24 = VR.lorentz_deltaRapidityPhi2.k_rhophi_theta_tau_rhophi_theta_t coord11 coord12 coord13 coord14 coord21 coord22 coord23 coord24 := by
  simp only [VS.lorentz_deltaRapidityPhi2.k_rhophi_theta_tau_rhophi_theta_t, VR.lorentz_deltaRapidityPhi2.k_rhophi_theta_tau_rhophi_theta_t, VS.planar_deltaphi.rhophi_rhophi_eq, c08_lorentz_rapidity_rhophi_theta_tau, VS.lorentz_rapidity.rhophi_theta_t_eq, h0, VR.P.nanToNum_eq]

theorem c08_lorentz_deltaRapidityPhi2_k_rhophi_theta_tau_rhophi_theta_tau (coord11 coord12 coord13 coord14 coord21 coord22 coord23 coord24 : ℝ) (h0 : 0 ≤ coord14) (h1 : 0 ≤ coord24) :
    VS.lorentz_deltaRapidityPhi2.k_rhophi_theta_tau_rhophi_theta_tau coord11 coord12 coord13 coord14 coord21 coord22 coord23 coord24 = VR.lorentz_deltaRapidityPhi2.k_rhophi_theta_tau_rhophi_theta_tau coord11 coord12 coord13 coord14 coord21 coord22 coord23 coord24 := by
  simp only [VS.lorentz_deltaRapidityPhi2.k_rhophi_theta_tau_rhophi_theta_tau, VR.lorentz_deltaRapidityPhi2.k_rhophi_theta_tau_rhophi_theta_tau, VS.planar_deltaphi.rhophi_rhophi_eq, c08_lorentz_rapidity_rhophi_theta_tau, h0, h1, VR.P.nanToNum_eq]

theorem c08_lorentz_deltaRapidityPhi2_k_rhophi_theta_tau_rhophi_z_t (coord11 coord12 coord13 coord14 coord21 coord22 coord23 coord24 : ℝ) (h0 : 0 ≤ coord14) :
    VS.lorentz_deltaRapidityPhi2.k_rhophi_theta_tau_rhophi_z_t coord11 coord12 coord13 coord14 coord21 coord22 coord23 coord24 = VR.lorentz_deltaRapidityPhi2.k_rhophi_theta_tau_rhophi_z_t coord11 coord12 coord13 coord14 coord21 coord22 coord23 coord24 := by
  simp only [VS.lorentz_deltaRapidityPhi2.k_rhophi_theta_tau_rhophi_z_t, VR.lorentz_deltaRapidityPhi2.k_rhophi_theta_tau_rhophi_z_t, VS.planar_deltaphi.rhophi_rhophi_eq, c08_lorentz_rapidity_rhophi_theta_tau, VS.lorentz_rapidity.rhophi_z_t_eq, h0, VR.P.nanToNum_eq]

theorem c08_lorentz_deltaRapidityPhi2_k_rhophi_theta_tau_rhophi_z_tau (coord11 coord12 coord13 coord14 coord21 coord22 coord23 coord24 : ℝ) (h0 : 0 ≤ coord14) (h1 : 0 ≤ coord24) :
    VS.lorentz_deltaRapidityPhi2.k_rhophi_theta_tau_rhophi_z_tau coord11 coord12 coord13 coord14 coord21 coord22 coord23 coord24 = VR.lorentz_deltaRapidityPhi2.k_rhophi_theta_tau_rhophi_z_tau coord11 coord12 coord13 coord14 coord21 coord22 coord23 coord24 := by
  simp only [VS.lorentz_deltaRapidityPhi2.k_rhophi_theta_tau_rhophi_z_tau, VR.lorentz_deltaRapidityPhi2.k_rhophi_theta_tau_rhophi_z_tau, VS.planar_deltaphi.rhophi_rhophi_eq, c08_lorentz_rapidity_rhophi_theta_tau, c08_lorentz_rapidity_rhophi_z_tau, h0, h1, VR.P.nanToNum_eq]

theorem c08_lorentz_deltaRapidityPhi2_k_rhophi_theta_tau_xy_eta_t (coord11 coord12 coord13 coord14 coord21 coord22 coord23 coord24 : ℝ) (h0 : 0 ≤ coord14) :
    VS.lorentz_deltaRapidityPhi2.k_rhophi_theta_tau_xy_eta_t coord11 coord12 coord13 coord14 coord21 coord22 coord23 coord24 = VR.lorentz_deltaRapidityPhi2.k_rhophi_theta_tau_xy_eta_t coord11 coord12 coord13 coord14 coord21 coord22 coord23 coord24 := by
  simp only [VS.lorentz_deltaRapidityPhi2.k_rhophi_theta_tau_xy_eta_t, VR.lorentz_deltaRapidityPhi2.k_rhophi_theta_tau_xy_eta_t, VS.planar_deltaphi.rhophi_xy_eq, c08_lorentz_rapidity_rhophi_theta_tau, VS.lorentz_rapidity.xy_eta_t_eq, h0, VR.P.nanToNum_eq]

theorem c08_lorentz_deltaRapidityPhi2_k_rhophi_theta_tau_xy_eta_tau (coord11 coord12 coord13 coord14 coord21 coord22 coord23 coord24 : ℝ) (h0 : 0 ≤ coord14) (h1 : 0 ≤ coord24) :
    VS.lorentz_deltaRapidityPhi2.k_rhophi_theta_tau_xy_eta_tau coord11 coord12 coord13 coord14 coord21 coord22 coord23 coord24 = VR.lorentz_deltaRapidityPhi2.k_rhophi_theta_tau_xy_eta_tau coord11 coord12 coord13 coord14 coord21 coord22 coord23 coord24 := by
  simp only [VS.lorentz_deltaRapidityPhi2.k_rhophi_theta_tau_xy_eta_tau, VR.lorentz_deltaRapidityPhi2.k_rhophi_theta_tau_xy_eta_tau, VS.planar_deltaphi.rhophi_xy_eq, c08_lorentz_rapidity_rhophi_theta_tau, c08_lorentz_rapidity_xy_eta_tau, h0, h1, VR.P.nanToNum_eq]

theorem c08_lorentz_deltaRapidityPhi2_k_rhophi_theta_tau_xy_theta_t (coord11 coord12 coord13 coord14 coord21 coord22 coord23 coord24 : ℝ) (h0 : 0 ≤ coord14) :
    VS.lorentz_deltaRapidityPhi2.k_rhophi_theta_tau_xy_theta_t coord11 coord12 coord13 coord14 coord21 coord22 coord23 coord24 = VR.lorentz_deltaRapidityPhi2.k_rhophi_theta_tau_xy_theta_t coord11 coord12 coord13 coord14 coord21 coord22 coord23 coord24 := by
  simp only [VS.lorentz_deltaRapidityPhi2.k_rhophi_theta_tau_xy_theta_t, VR.lorentz_deltaRapidityPhi2.k_rhophi_theta_tau_xy_theta_t, VS.planar_deltaphi.rhophi_xy_eq, c08_lorentz_rapidity_rhophi_theta_tau, VS.lorentz_rapidity.xy_theta_t_eq, h0, VR.P.nanToNum_eq]

theorem c08_lorentz_deltaRapidityPhi2_k_rhophi_theta_tau_xy_theta_tau (coord11 coord12 coord13 coord14 coord21 coord22 coord23 coord24 : ℝ) (h0 : 0 ≤ coord14) (h1 : 0 ≤ coord24) :
    VS.lorentz_deltaRapidityPhi2.k_rhophi_theta_tau_xy_theta_tau coord11 coord12 coord13 coord14 coord21 coord22 coord23 coord24 = VR.lorentz_deltaRapidityPhi2.k_rhophi_theta_tau_xy_theta_tau coord11 coord12 coord13 coord14 coord21 coord22 coord23 coord24 := by
  simp only [VS.lorentz_deltaRapidityPhi2.k_rhophi_theta_tau_xy_theta_tau, VR.lorentz_deltaRapidityPhi2.k_rhophi_theta_tau_xy_theta_tau, VS.planar_deltaphi.rhophi_xy_eq, c08_lorentz_rapidity_rhophi_theta_tau, c08_lorentz_rapidity_xy_theta_tau, h0, h1, VR.P.nanToNum_eq]

theorem c08_lorentz_deltaRapidityPhi2_k_rhophi_theta_tau_xy_z_t (coord11 coord12 coord13 coord14 coord21 coord22 coord23 coord24 : ℝ) (h0 : 0 ≤ coord14) :
    VS.lorentz_deltaRapidityPhi2.k_rhophi_theta_tau_xy_z_t coord11 coord12 coord13 coord14 coord21 coord22 coord23 coord24 = VR.lorentz_deltaRapidityPhi2.k_rhophi_theta_tau_xy_z_t coord11 coord12 coord13 coord14 coord21 coord22 coord23 coord24 := by
  simp only [VS.lorentz_deltaRapidityPhi2.k_rhophi_theta_tau_xy_z_t, VR.lorentz_deltaRapidityPhi2.k_rhophi_theta_tau_xy_z_t, VS.planar_deltaphi.rhophi_xy_eq, c08_lorentz_rapidity_rhophi_theta_tau, VS.lorentz_rapidity.xy_z_t_eq, h0, VR.P.nanToNum_eq]

theorem c08_lorentz_deltaRapidityPhi2_k_rhophi_theta_tau_xy_z_tau (coord11 coord12 coord13 coord14 coord21 coord22 coord23 coord24 : ℝ) (h0 : 0 ≤ coord14) (h1 : 0 ≤ coord24) :
    VS.lorentz_deltaRapidityPhi2.k_rhophi_theta_tau_xy_z_tau coord11 coord12 coord13 coord14 coord21 coord22 coord23 coord24 = VR.lorentz_deltaRapidityPhi2.k_rhophi_theta_tau_xy_z_tau coord11 coord12 coord13 coord14 coord21 coord22 coord23 coord24 := by
  simp only [VS.lorentz_deltaRapidityPhi2.k_rhophi_theta_tau_xy_z_tau, VR.lorentz_deltaRapidityPhi2.k_rhophi_theta_tau_xy_z_tau, VS.planar_deltaphi.rhophi_xy_eq, c08_lorentz_rapidity_rhophi_theta_tau, c08_lorentz_rapidity_xy_z_tau, h0, h1, VR.P.nanToNum_eq]

theorem c08_lorentz_deltaRapidityPhi2_k_rhophi_z_t_rhophi_eta_tau (coord11 coord12 coord13 coord14 coord21 coord22 coord23 coord24 : ℝ) (h0 : 0 ≤ coord24) :
    VS.lorentz_deltaRapidityPhi2.k_rhophi_z_t_rhophi_eta_tau coord11 coord12 coord13 coord14 coord21 coord22 coord23 coord24 = VR.lorentz_deltaRapidityPhi2.k_rhophi_z_t_rhophi_eta_tau coord11 coord12 coord13 coord14 coord21 coord22 coord23 coord24 := by
  simp only [VS.lorentz_deltaRapidityPhi2.k_rhophi_z_t_rhophi_eta_tau, VR.lorentz_deltaRapidityPhi2.k_rhophi_z_t_rhophi_eta_tau, VS.planar_deltaphi.rhophi_rhophi_eq, VS.lorentz_rapidity.rhophi_z_t_eq, c08_lorentz_rapidity_rhophi_eta_tau, h0, VR.P.nanToNum_eq]

theorem c08_lorentz_deltaRapidityPhi2_k_rhophi_z_t_rhophi_theta_tau (coord11 coord12 coord13 coord14 coord21 coord22 coord23 coord24 : ℝ) (h0 : 0 ≤ coord24) :
    VS.lorentz_deltaRapidityPhi2.k_rhophi_z_t_rhophi_theta_tau coord11 coord12 coord13 coord14 coord21 coord22 coord23 coord24 = VR.lorentz_deltaRapidityPhi2.k_rhophi_z_t_rhophi_theta_tau coord11 coord12 coord13 coord14 coord21 coord22 coord23 coord24 := by
  simp only [VS.lorentz_deltaRapidityPhi2.k_rhophi_z_t_rhophi_theta_tau, VR.lorentz_deltaRapidityPhi2.k_rhophi_z_t_rhophi_theta_tau, VS.planar_deltaphi.rhophi_rhophi_eq, VS.lorentz_rapidity.rhophi_z_t_eq, c08_lorentz_rapidity_rhophi_theta_tau, h0, VR.P.nanToNum_eq]

theorem c08_lorentz_deltaRapidityPhi2_k_rhophi_z_t_rhophi_z_tau (coord11 coord12 coord13 coord14 coord21 coord22 coord23 coord24 : ℝ) (h0 : 0 ≤ coord24) :
    VS.lorentz_deltaRapidityPhi2.k_rhophi_z_t_rhophi_z_tau coord11 coord12 coord13 coord14 coord21 coord22 coord23 coord24 = VR.lorentz_deltaRapidityPhi2.k_rhophi_z_t_rhophi_z_tau coord11 coord12 coord13 coord14 coord21 coord22 coord23 coord24 := by
  simp only [VS.lorentz_deltaRapidityPhi2.k_rhophi_z_t_rhophi_z_tau, VR.lorentz_deltaRapidityPhi2.k_rhophi_z_t_rhophi_z_tau, VS.planar_deltaphi.rhophi_rhophi_eq, VS.lorentz_rapidity.rhophi_z_t_eq, c08_lorentz_rapidity_rhophi_z_tau, h0, VR.P.nanToNum_eq]

theorem c08_lorentz_deltaRapidityPhi2_k_rhophi_z_t_xy_eta_tau (coord11 coord12 coord13 coord14 coord21 coord22 coord23 coord24 : ℝ) (h0 : 0 ≤ coord24) :
    VS.lorentz_deltaRapidityPhi2.k_rhophi_z_t_xy_eta_tau coord11 coord12 coord13 coord14 coord21 coord22 coord23 coord24 = VR.lorentz_deltaRapidityPhi2.k_rhophi_z_t_xy_eta_tau coord11 coord12 coord13 coord14 coord21 coord22 coord23 coord24 := by
  simp only [VS.lorentz_deltaRapidityPhi2.k_rhophi_z_t_xy_eta_tau, VR.lorentz_deltaRapidityPhi2.k_rhophi_z_t_xy_eta_tau, VS.planar_deltaphi.rhophi_xy_eq, VS.lorentz_rapidity.rhophi_z_t_eq, c08_lorentz_rapidity_xy_eta_tau, h0, VR.P.nanToNum_eq]

theorem c08_lorentz_deltaRapidityPhi2_k_rhophi_z_t_xy_theta_tau (coord11 coord12 coord13 coord14 coord21 coord22 coord23 coord24 : ℝ) (h0 : 0 ≤ coord24) :
    VS.lorentz_deltaRapidityPhi2.k_rhophi_z_t_xy_theta_tau coord11 coord12 coord13 coord14 coord21 coord22 coord23 coord24 = VR.lorentz_deltaRapidityPhi2.k_rhophi_z_t_xy_theta_tau coord11 coord12 coord13 coord14 coord21 coord22 coord23 coord24 := by
  simp only [VS.lorentz_deltaRapidityPhi2.k_rhophi_z_t_xy_theta_tau, VR.lorentz_deltaRapidityPhi2.k_rhophi_z_t_xy_theta_tau, VS.planar_deltaphi.rhophi_xy_eq, VS.lorentz_rapidity.rhophi_z_t_eq, c08_lorentz_rapidity_xy_theta_tau, h0, VR.P.nanToNum_eq]

theorem c08_lorentz_deltaRapidityPhi2_k_rhophi_z_t_xy_z_tau (coord11 coord12 coord13 coord14 coord21 coord22 coord23 coord24 : ℝ) (h0 : 0 ≤ coord24) :
    VS.lorentz_deltaRapidityPhi2.k_rhophi_z_t_xy_z_tau coord11 coord12 coord13 coord14 coord21 coord22 coord23 coord24 = VR.lorentz_deltaRapidityPhi2.k_rhophi_z_t_xy_z_tau coord11 coord12 coord13 coord14 coord21 coord22 coord23 coord24 := by
  simp only [VS.lorentz_deltaRapidityPhi2.k_rhophi_z_t_xy_z_tau, VR.lorentz_deltaRapidityPhi2.k_rhophi_z_t_xy_z_tau, VS.planar_deltaphi.rhophi_xy_eq, VS.lorentz_rapidity.rhophi_z_t_eq, c08_lorentz_rapidity_xy_z_tau, h0, VR.P.nanToNum_eq]

theorem c08_lorentz_deltaRapidityPhi2_k_rhophi_z_tau_rhophi_eta_t (coord11 coord12 coord13 coord14 coord21 coord22 coord23 coord24 : ℝ) (h0 : 0 ≤ coord14) :
    VS.lorentz_deltaRapidityPhi2.k_rhophi_z_tau_rhophi_eta_t coord11 coord12 coord13 coord14 coord21 coord22 coord23 coord24 = VR.lorentz_deltaRapidityPhi2.k_rhophi_z_tau_rhophi_eta_t coord11 coord12 coord13 coord14 coord21 coord22 coord23 coord24 := by
  simp only [VS.lorentz_deltaRapidityPhi2.k_rhophi_z_tau_rhophi_eta_t, VR.lorentz_deltaRapidityPhi2.k_rhophi_z_tau_rhophi_eta_t, VS.planar_deltaphi.rhophi_rhophi_eq, c08_lorentz_rapidity_rhophi_z_tau, VS.lorentz_rapidity.rhophi_eta_t_eq, h0, VR.P.nanToNum_eq]

theorem c08_lorentz_deltaRapidityPhi2_k_rhophi_z_tau_rhophi_eta_tau (coord11 coord12 coord13 coord14 coord21 coord22 coord23 coord24 : ℝ) (h0 : 0 ≤ coord14) (h1 : 0 ≤ coord24) :
    VS.lorentz_deltaRapidityPhi2.k_rhophi_z_tau_rhophi_eta_tau coord11 coord12 coord13 coord14 coord21 coord22 coord23 coord24 = VR.lorentz_deltaRapidityPhi2.k_rhophi_z_tau_rhophi_eta_tau coord11 coord12 coord13 coord14 coord21 coord22 coord23 coord24 := by
  simp only [VS.lorentz_deltaRapidityPhi2.k_rhophi_z_tau_rhophi_eta_tau, VR.lorentz_deltaRapidityPhi2.k_rhophi_z_tau_rhophi_eta_tau, VS.planar_deltaphi.rhophi_rhophi_eq, c08_lorentz_rapidity_rhophi_z_tau, c08_lorentz_rapidity_rhophi_eta_tau, h0, h1, VR.P.nanToNum_eq]

theorem c08_lorentz_deltaRapidityPhi2_k_rhophi_z_tau_rhophi_theta_t (coord11 coord12 coord13 coord14 coord21 coord22 coord23 coord24 : ℝ) (h0 : 0 ≤ coord14) :
    VS.lorentz_deltaRapidityPhi2.k_rhophi_z_tau_rhophi_theta_t coord11 coord12 coord13 coord14 coord21 coord22 coord23 coord24 = VR.lorentz_deltaRapidityPhi2.k_rhophi_z_tau_rhophi_theta_t coord11 coord12 coord13 coord14 coord21 coord22 coord23 coord24 := by
  simp only [VS.lorentz_deltaRapidityPhi2.k_rhophi_z_tau_rhophi_theta_t, VR.lorentz_deltaRapidityPhi2.k_rhophi_z_tau_rhophi_theta_t, VS.planar_deltaphi.rhophi_rhophi_eq, c08_lorentz_rapidity_rhophi_z_tau, VS.lorentz_rapidity.rhophi_theta_t_eq, h0, VR.P.nanToNum_eq]

theorem c08_lorentz_deltaRapidityPhi2_k_rhophi_z_tau_rhophi_theta_tau (coord11 coord12 coord13 coord14 coord21 coord22 coord23 coord24 : ℝ) (h0 : 0 ≤ coord14) (h1 : 0 ≤ coord24) :
    VS.lorentz_deltaRapidityPhi2.k_rhophi_z_tau_rhophi_theta_tau coord11 coord12 coord13 coord14 coord21 coord22 coord23 coord24 = VR.lorentz_deltaRapidityPhi2.k_rhophi_z_tau_rhophi_theta_tau coord11 coord12 coord13 coord14 coord21 coord22 coord23 coord24 := by
  simp only [VS.lorentz_deltaRapidityPhi2.k_rhophi_z_tau_rhophi_theta_tau, VR.lorentz_deltaRapidityPhi2.k_rhophi_z_tau_rhophi_theta_tau, VS.planar_deltaphi.rhophi_rhophi_eq, c08_lorentz_rapidity_rhophi_z_tau, c08_lorentz_rapidity_rhophi_theta_tau, h0, h1, VR.P.nanToNum_eq]

theorem c08_lorentz_deltaRapidityPhi2_k_rhophi_z_tau_rhophi_z_t (coord11 coord12 coord13 coord14 coord21 coord22 coord23 coord24 : ℝ) (h0 : 0 ≤ coord14) :
    VS.lorentz_deltaRapidityPhi2.k_rhophi_z_tau_rhophi_z_t coord11 coord12 coord13 coord14 coord21 coord22 coord23 coord24 = VR.lorentz_deltaRapidityPhi2.k_rhophi_z_tau_rhophi_z_t coord11 coord12 coord13 coord14 coord21 coord22 coord23 coord24 := by
  simp only [VS.lorentz_deltaRapidityPhi2.k_rhophi_z_tau_rhophi_z_t, VR.lorentz_deltaRapidityPhi2.k_rhophi_z_tau_rhophi_z_t, VS.planar_deltaphi.rhophi_rhophi_eq, c08_lorentz_rapidity_rhophi_z_tau, VS.lorentz_rapidity.rhophi_z_t_eq, h0, VR.P.nanToNum_eq]

theorem c08_lorentz_deltaRapidityPhi2_k_rhophi_z_tau_rhophi_z_tau (coord11 coord12 coord13 coord14 coord21 coord22 coord23 coord24 : ℝ) (h0 : 0 ≤ coord14) (h1 : 0 ≤ coord24) :
    VS.lorentz_deltaRapidityPhi2.k_rhophi_z_tau_rhophi_z_tau coord11 coord12 coord13 coord14 coord21 coord22 coord23 coord24 = VR.lorentz_deltaRapidityPhi2.k_rhophi_z_tau_rhophi_z_tau coord11 coord12 coord13 coord14 coord21 coord22 coord23 coord24 := by
  simp only [VS.lorentz_deltaRapidityPhi2.k_rhophi_z_tau_rhophi_z_tau, VR.lorentz_deltaRapidityPhi2.k_rhophi_z_tau_rhophi_z_tau, VS.planar_deltaphi.rhophi_rhophi_eq, c08_lorentz_rapidity_rhophi_z_tau, h0, h1, VR.P.nanToNum_eq]

theorem c08_lorentz_deltaRapidityPhi2_k_rhophi_z_tau_xy_eta_t (coord11 coord12 coord13 coord14 coord21 coord22 coord23 coord24 : ℝ) (h0 : 0 ≤ coord14) :
    VS.lorentz_deltaRapidityPhi2.k_rhophi_z_tau_xy_eta_t coord11 coord12 coord13 coord14 coord21 coord22 coord23 coord24 = VR.lorentz_deltaRapidityPhi2.k_rhophi_z_tau_xy_eta_t coord11 coord12 coord13 coord14 coord21 coord22 coord23 coord24 := by
  simp only [VS.lorentz_deltaRapidityPhi2.k_rhophi_z_tau_xy_eta_t, VR.lorentz_deltaRapidityPhi2.k_rhophi_z_tau_xy_eta_t, VS.planar_deltaphi.rhophi_xy_eq, c08_lorentz_rapidity_rhophi_z_tau, VS.lorentz_rapidity.xy_eta_t_eq, h0, VR.P.nanToNum_eq]

theorem c08_lorentz_deltaRapidityPhi2_k_rhophi_z_tau_xy_eta_tau (coord11 coord12 coord13 coord14 coord21 coord22 coord23 coord24 : ℝ) (h0 : 0 ≤ coord14) (h1 : 0 ≤ coord24) :
    VS.lorentz_deltaRapidityPhi2.k_rhophi_z_tau_xy_eta_tau coord11 coord12 coord13 coord14 coord21 coord22 coord23 coord24 = VR.lorentz_deltaRapidityPhi2.k_rhophi_z_tau_xy_eta_tau coord11 coord12 coord13 coord14 coord21 coord22 coord23 coord24 := by
  simp only [VS.lorentz_deltaRapidityPhi2.k_rhophi_z_tau_xy_eta_tau, VR.lorentz_deltaRapidityPhi2.k_rhophi_z_tau_xy_eta_tau, VS.planar_deltaphi.rhophi_xy_eq, c08_lorentz_rapidity_rhophi_z_tau, c08_lorentz_rapidity_xy_eta_tau, h0, h1, VR.P.nanToNum_eq]

theorem c08_lorentz_deltaRapidityPhi2_k_rhophi_z_tau_xy_theta_t (coord11 coord12 coord13 coord14 coord21 coord22 coord23 coord24 : ℝ) (h0 : 0 ≤ coord14) :
    VS.lorentz_deltaRapidityPhi2.k_rhophi_z_tau_xy_theta_t coord11 coord12 coord13 coord14 coord21 coord22 coord23 coord24 = VR.lorentz_deltaRapidityPhi2.k_rhophi_z_tau_xy_theta_t coord11 coord12 coord13 coord14 coord21 coord22 coord23 coord24 := by
  simp only [VS.lorentz_deltaRapidityPhi2.k_rhophi_z_tau_xy_theta_t, VR.lorentz_deltaRapidityPhi2.k_rhophi_z_tau_xy_theta_t, VS.planar_deltaphi.rhophi_xy_eq, c08_lorentz_rapidity_rhophi_z_tau, VS.lorentz_rapidity.xy_theta_t_eq, h0, VR.P.nanToNum_eq]

theorem c08_lorentz_deltaRapidityPhi2_k_rhophi_z_tau_xy_theta_tau (coord11 coord12 coord13 coord14 coord21 coord22 coord23 coord24 : ℝ) (h0 : 0 ≤ coord14) (h1 : 0 ≤ coord24) :
    VS.lorentz_deltaRapidityPhi2.k_rhophi_z_tau_xy_theta_tau coord11 coord12 coord13 coord14 coord21 coord22 coord23 coord24 = VR.lorentz_deltaRapidityPhi2.k_rhophi_z_tau_xy_theta_tau coord11 coord12 coord13 coord14 coord21 coord22 coord23 coord24 := by
  simp only [VS.lorentz_deltaRapidityPhi2.k_rhophi_z_tau_xy_theta_tau, VR.lorentz_deltaRapidityPhi2.k_rhophi_z_tau_xy_theta_tau, VS.planar_deltaphi.rhophi_xy_eq, c08_lorentz_rapidity_rhophi_z_tau, c08_lorentz_rapidity_xy_theta_tau, h0, h1, VR.P.nanToNum_eq]

theorem c08_lorentz_deltaRapidityPhi2_k_rhophi_z_tau_xy_z_t (coord11 coord12 coord13 coord14 coord21 coord22 coord23 coord24 : ℝ) (h0 : 0 ≤ coord14) :
    VS.lorentz_deltaRapidityPhi2.k_rhophi_z_tau_xy_z_t coord11 coord12 coord13 coord14 coord21 coord22 coord23 coord24 = VR.lorentz_deltaRapidityPhi2.k_rhophi_z_tau_xy_z_t coord11 coord12 coord13 coord14 coord21 coord22 coord23 coord24 := by
  simp only [VS.lorentz_deltaRapidityPhi2.k_rhophi_z_tau_xy_z_t, VR.lorentz_deltaRapidityPhi2.k_rhophi_z_tau_xy_z_t, VS.planar_deltaphi.rhophi_xy_eq, c08_lorentz_rapidity_rhophi_z_tau, VS.lorentz_rapidity.xy_z_t_eq, h0, VR.P.nanToNum_eq]

theorem c08_lorentz_deltaRapidityPhi2_k_rhophi_z_tau_xy_z_tau (coord11 coord12 coord13 coord14 coord21 coord22 coord23 coord24 : ℝ) (h0 : 0 ≤ coord14) (h1 : 0 ≤ coord24) :
    VS.lorentz_deltaRapidityPhi2.k_rhophi_z_tau_xy_z_tau coord11 coord12 coord13 coord14 coord21 coord22 coord23 coord24 = VR.lorentz_deltaRapidityPhi2.k_rhophi_z_tau_xy_z_tau coord11 coord12 coord13 coord14 coord21 coord22 coord23 coord24 := by
  simp only [VS.lorentz_deltaRapidityPhi2.k_rhophi_z_tau_xy_z_tau, VR.lorentz_deltaRapidityPhi2.k_rhophi_z_tau_xy_z_tau, VS.planar_deltaphi.rhophi_xy_eq, c08_lorentz_rapidity_rhophi_z_tau, c08_lorentz_rapidity_xy_z_tau, h0, h1, VR.P.nanToNum_eq]

theorem c08_lorentz_deltaRapidityPhi2_k_xy_eta_t_rhophi_eta_tau (coord11 coord12 coord13 coord14 coord21 coord22 coord23 coord24 : ℝ) (h0 : 0 ≤ coord24) :
    VS.lorentz_deltaRapidityPhi2.k_xy_eta_t_rhophi_eta_tau coord11 coord12 coord13 coord14 coord21 coord22 coord23 coord24 = VR.lorentz_deltaRapidityPhi2.k_xy_eta_t_rhophi_eta_tau coord11 coord12 coord13 coord14 coord21 coord22 coord23 coord24 := by
  simp only [VS.lorentz_deltaRapidityPhi2.k_xy_eta_t_rhophi_eta_tau, VR.lorentz_deltaRapidityPhi2.k_xy_eta_t_rhophi_eta_tau, VS.planar_deltaphi.xy_rhophi_eq, VS.lorentz_rapidity.xy_eta_t_eq, c08_lorentz_rapidity_rhophi_eta_tau, h0, VR.P.nanToNum_eq]

theorem c08_lorentz_deltaRapidityPhi2_k_xy_eta_t_rhophi_theta_tau (coord11 coord12 coord13 coord14 coord21 coord22 coord23 coord24 : ℝ) (h0 : 0 ≤ coord24) :
    VS.lorentz_deltaRapidityPhi2.k_xy_eta_t_rhophi_theta_tau coord11 coord12 coord13 coord14 coord21 coord22 coord23 coord24 = VR.lorentz_deltaRapidityPhi2.k_xy_eta_t_rhophi_theta_tau coord11 coord12 coord13 coord14 coord21 coord22 coord23 coord24 := by
  simp only [VS.lorentz_deltaRapidityPhi2.k_xy_eta_t_rhophi_theta_tau, VR.lorentz_deltaRapidityPhi2.k_xy_eta_t_rhophi_theta_tau, VS.planar_deltaphi.xy_rhophi_eq, VS.lorentz_rapidity.xy_eta_t_eq, c08_lorentz_rapidity_rhophi_theta_tau, h0, VR.P.nanToNum_eq]

theorem c08_lorentz_deltaRapidityPhi2_k_xy_eta_t_rhophi_z_tau (coord11 coord12 coord13 coord14 coord21 coord22 coord23 coord24 : ℝ) (h0 : 0 ≤ coord24) :
    VS.lorentz_deltaRapidityPhi2.k_xy_eta_t_rhophi_z_tau coord11 coord12 coord13 coord14 coord21 coord22 coord23 coord24 = VR.lorentz_deltaRapidityPhi2.k_xy_eta_t_rhophi_z_tau coord11 coord12 coord13 coord14 coord21 coord22 coord23 coord24 := by
  simp only [VS.lorentz_deltaRapidityPhi2.k_xy_eta_t_rhophi_z_tau, VR.lorentz_deltaRapidityPhi2.k_xy_eta_t_rhophi_z_tau, VS.planar_deltaphi.xy_rhophi_eq, VS.lorentz_rapidity.xy_eta_t_eq, c08_lorentz_rapidity_rhophi_z_tau, h0, VR.P.nanToNum_eq]

theorem c08_lorentz_deltaRapidityPhi2_k_xy_eta_t_xy_eta_tau (coord11 coord12 coord13 coord14 coord21 coord22 coord23 coord24 : ℝ) (h0 : 0 ≤ coord24) :
    VS.lorentz_deltaRapidityPhi2.k_xy_eta_t_xy_eta_tau coord11 coord12 coord13 coord14 coord21 coord22 coord23 coord24 = VR.lorentz_deltaRapidityPhi2.k_xy_eta_t_xy_eta_tau coord11 coord12 coord13 coord14 coord21 coord22 coord23 coord24 := by
  simp only [VS.lorentz_deltaRapidityPhi2.k_xy_eta_t_xy_eta_tau, VR.lorentz_deltaRapidityPhi2.k_xy_eta_t_xy_eta_tau, VS.planar_deltaphi.xy_xy_eq, VS.lorentz_rapidity.xy_eta_t_eq, c08_lorentz_rapidity_xy_eta_tau, h0, VR.P.nanToNum_eq]

theorem c08_lorentz_deltaRapidityPhi2_k_xy_eta_t_xy_theta_tau (coord11 coord12 coord13 coord14 coord21 coord22 coord23 coord24 : ℝ) (h0 : 0 ≤ coord24) :
    VS.lorentz_deltaRapidityPhi2.k_xy_eta_t_xy_theta_tau coord11 coord12 coord13 coord14 coord21 coord22 coord23 coord24 = VR.lorentz_deltaRapidityPhi2.k_xy_eta_t_xy_theta_tau coord11 coord12 coord13 coord14 coord21 coord22 coord23 coord24 := by
  simp only [VS.lorentz_deltaRapidityPhi2.k_xy_eta_t_xy_theta_tau, VR.lorentz_deltaRapidityPhi2.k_xy_eta_t_xy_theta_tau, VS.planar_deltaphi.xy_xy_eq, VS.lorentz_rapidity.xy_eta_t_eq, c08_lorentz_rapidity_xy_theta_tau, h0, VR.P.nanToNum_eq]

theorem c08_lorentz_deltaRapidityPhi2_k_xy_eta_t_xy_z_tau (coord11 coord12 coord13 coord14 coord21 coord22 coord23 coord24 : ℝ) (h0 : 0 ≤ coord24) :
    VS.lorentz_deltaRapidityPhi2.k_xy_eta_t_xy_z_tau coord11 coord12 coord13 coord14 coord21 coord22 coord23 coord24 = VR.lorentz_deltaRapidityPhi2.k_xy_eta_t_xy_z_tau coord11 coord12 coord13 coord14 coord21 coord22 coord23 coord24 := by
  simp only [VS.lorentz_deltaRapidityPhi2.k_xy_eta_t_xy_z_tau, VR.lorentz_deltaRapidityPhi2.k_xy_eta_t_xy_z_tau, VS.planar_deltaphi.xy_xy_eq, VS.lorentz_rapidity.xy_eta_t_eq, c08_lorentz_rapidity_xy_z_tau, h0, VR.P.nanToNum_eq]

theorem c08_lorentz_deltaRapidityPhi2_k_xy_eta_tau_rhophi_eta_t (coord11 coord12 coord13 coord14 coord21 coord22 coord23 coord24 : ℝ) (h0 : 0 ≤ coord14) :
    VS.lorentz_deltaRapidityPhi2.k_xy_eta_tau_rhophi_eta_t coord11 coord12 coord13 coord14 coord21 coord22 coord23 coord24 = VR.lorentz_deltaRapidityPhi2.k_xy_eta_tau_rhophi_eta_t coord11 coord12 coord13 coord14 coord21 coord22 coord23 coord24 := by
  simp only [VS.lorentz_deltaRapidityPhi2.k_xy_eta_tau_rhophi_eta_t, VR.lorentz_deltaRapidityPhi2.k_xy_eta_tau_rhophi_eta_t, VS.planar_deltaphi.xy_rhophi_eq, c08_lorentz_rapidity_xy_eta_tau, VS.lorentz_rapidity.rhophi_eta_t_eq, h0, VR.P.nanToNum_eq]

theorem c08_lorentz_deltaRapidityPhi2_k_xy_eta_tau_rhophi_eta_tau (coord11 coord12 coord13 coord14 coord21 coord22 coord23 coord24 : ℝ) (h0 : 0 ≤ coord14) (h1 : 0 ≤ coord24) :
    VS.lorentz_deltaRapidityPhi2.k_xy_eta_tau_rhophi_eta_tau coord11 coord12 coord13 coord14 coord21 coord22 coord23 coord24 = VR.lorentz_deltaRapidityPhi2.k_xy_eta_tau_rhophi_eta_tau coord11 coord12 coord13 coord14 coord21 coord22 coord23 coord24 := by
  simp only [VS.lorentz_deltaRapidityPhi2.k_xy_eta_tau_rhophi_eta_tau, VR.lorentz_deltaRapidityPhi2.k_xy_eta_tau_rhophi_eta_tau, VS.planar_deltaphi.xy_rhophi_eq, c08_lorentz_rapidity_xy_eta_tau, c08_lorentz_rapidity_rhophi_eta_tau, h0, h1, VR.P.nanToNum_eq]

theorem c08_lorentz_deltaRapidityPhi2_k_xy_eta_tau_rhophi_theta_t (coord11 coord12 coord13 coord14 coord21 coord22 coord23 coord24 : ℝ) (h0 : 0 ≤ coord14) :
    VS.lorentz_deltaRapidityPhi2.k_xy_eta_tau_rhophi_theta_t coord11 coord12 coord13 coord14 coord21 coord22 coord23 coord24 = VR.lorentz_deltaRapidityPhi2.k_xy_eta_tau_rhophi_theta_t coord11 coord12 coord13 coord14 coord21 coord22 coord23 coord24 := by
  simp only [VS.lorentz_deltaRapidityPhi2.k_xy_eta_tau_rhophi_theta_t, VR.lorentz_deltaRapidityPhi2.k_xy_eta_tau_rhophi_theta_t, VS.planar_deltaphi.xy_rhophi_eq, c08_lorentz_rapidity_xy_eta_tau, VS.lorentz_rapidity.rhophi_theta_t_eq, h0, VR.P.nanToNum_eq]

theorem c08_lorentz_deltaRapidityPhi2_k_xy_eta_tau_rhophi_theta_tau (coord11 coord12 coord13 coord14 coord21 coord22 coord23 coord24 : ℝ) (h0 : 0 ≤ coord14) (h1 : 0 ≤ coord24) :
    VS.lorentz_deltaRapidityPhi2.k_xy_eta_tau_rhophi_theta_tau coord11 coord12 coord13 coord14 coord21 coord22 coord23 coord24 = VR.lorentz_deltaRapidityPhi2.k_xy_eta_tau_rhophi_theta_tau coord11 coord12 coord13 coord14 coord21 coord22 coord23 coord24 := by
  simp only [VS.lorentz_deltaRapidityPhi2.k_xy_eta_tau_rhophi_theta_tau, VR.lorentz_deltaRapidityPhi2.k_xy_eta_tau_rhophi_theta_tau, VS.planar_deltaphi.xy_rhophi_eq, c08_lorentz_rapidity_xy_eta_tau, c08_lorentz_rapidity_rhophi_theta_tau, h0, h1, VR.P.nanToNum_eq]

theorem c08_lorentz_deltaRapidityPhi2_k_xy_eta_tau_rhophi_z_t (coord11 coord12 coord13 coord14 coord21 coord22 coord23 coord24 : ℝ) (h0 : 0 ≤ coord14) :
    VS.lorentz_deltaRapidityPhi2.k_xy_eta_tau_rhophi_z_t coord11 coord12 coord13 coord14 coord21 coord22 coord23 coord24 = VR.lorentz_deltaRapidityPhi2.k_xy_eta_tau_rhophi_z_t coord11 coord12 coord13 coord14 coord21 coord22 coord23 coord24 := by
  simp only [VS.lorentz_deltaRapidityPhi2.k_xy_eta_tau_rhophi_z_t, VR.lorentz_deltaRapidityPhi2.k_xy_eta_tau_rhophi_z_t, VS.planar_deltaphi.xy_rhophi_eq, c08_lorentz_rapidity_xy_eta_tau, VS.lorentz_rapidity.rhophi_z_t_eq, h0, VR.P.nanToNum_eq]

theorem c08_lorentz_deltaRapidityPhi2_k_xy_eta_tau_rhophi_z_tau (coord11 coord12 coord13 coord14 coord21 coord22 coord23 coord24 : ℝ) (h0 : 0 ≤ coord14) (h1 : 0 ≤ coord24) :
    VS.lorentz_deltaRapidityPhi2.k_xy_eta_tau_rhophi_z_tau coord11 coord12 coord13 coord14 coord21 coord22 coord23 coord24 = VR.lorentz_deltaRapidityPhi2.k_xy_eta_tau_rhophi_z_tau coord11 coord12 coord13 coord14 coord21 coord22 coord23 coord24 := by
  simp only [VS.lorentz_deltaRapidityPhi2.k_xy_eta_tau_rhophi_z_tau, VR.lorentz_deltaRapidityPhi2.k_xy_eta_tau_rhophi_z_tau, VS.planar_deltaphi.xy_rhophi_eq, c08_lorentz_rapidity_xy_eta_tau, c08_lorentz_rapidity_rhophi_z_tau, h0, h1, VR.P.nanToNum_eq]

theorem c08_lorentz_deltaRapidityPhi2_k_xy_eta_tau_xy_eta_t (coord11 coord12 coord13 coord14 coord21 coord22 coord23 coord24 : ℝ) (h0 : 0 ≤ coord14) :
    VS.lorentz_deltaRapidityPhi2.k_xy_eta_tau_xy_eta_t coord11 coord12 coord13 coord14 coord21 coord22 coord23 coord24 = VR.lorentz_deltaRapidityPhi2.k_xy_eta_tau_xy_eta_t coord11 coord12 coord13 coord14 coord21 coord22 coord23 coord24 := by
  simp only [VS.lorentz_deltaRapidityPhi2.k_xy_eta_tau_xy_eta_t, VR.lorentz_deltaRapidityPhi2.k_xy_eta_tau_xy_eta_t, VS.planar_deltaphi.xy_xy_eq, c08_lorentz_rapidity_xy_eta_tau, VS.lorentz_rapidity.xy_eta_t_eq, h0, VR.P.nanToNum_eq]

theorem c08_lorentz_deltaRapidityPhi2_k_xy_eta_tau_xy_eta_tau (coord11 coord12 coord13 coord14 coord21 coord22 coord23 coord24 : ℝ) (h0 : 0 ≤ coord14) (h1 : 0 ≤ coord24) :
    VS.lorentz_deltaRapidityPhi2.k_xy_eta_tau_xy_eta_tau coord11 coord12 coord13 coord14 coord21 coord22 coord23 coord24 = VR.lorentz_deltaRapidityPhi2.k_xy_eta_tau_xy_eta_tau coord11 coord12 coord13 coord14 coord21 coord22 coord23 coord24 := by
  simp only [VS.lorentz_deltaRapidityPhi2.k_xy_eta_tau_xy_eta_tau, VR.lorentz_deltaRapidityPhi2.k_xy_eta_tau_xy_eta_tau, VS.planar_deltaphi.xy_xy_eq, c08_lorentz_rapidity_xy_eta_tau, h0, h1, VR.P.nanToNum_eq]

theorem c08_lorentz_deltaRapidityPhi2_k_xy_eta_tau_xy_theta_t (coord11 coord12 coord13 coord14 coord21 coord22 coord23 coord24 : ℝ) (h0 : 0 ≤ coord14) :
    VS.lorentz_deltaRapidityPhi2.k_xy_eta_tau_xy_theta_t coord11 coord12 coord13 coord14 coord21 coord22 coord23 coord24 = VR.lorentz_deltaRapidityPhi2.k_xy_eta_tau_xy_theta_t coord11 coord12 coord13 coord14 coord21 coord22 coord23 coord24 := by
  simp only [VS.lorentz_deltaRapidityPhi2.k_xy_eta_tau_xy_theta_t, VR.lorentz_deltaRapidityPhi2.k_xy_eta_tau_xy_theta_t, VS.planar_deltaphi.xy_xy_eq, c08_lorentz_rapidity_xy_eta_tau, VS.lorentz_rapidity.xy_theta_t_eq, h0, VR.P.nanToNum_eq]

theorem c08_lorentz_deltaRapidityPhi2_k_xy_eta_tau_xy_theta_tau (coord11 coord12 coord13 coord14 coord21 coord22 coord23 coord24 : ℝ) (h0 : 0 ≤ coord14) (h1 : 0 ≤ coord24) :
    VS.lorentz_deltaRapidityPhi2.k_xy_eta_tau_xy_theta_tau coord11 coord12 coord13 coord14 coord21 coord22 coord23 coord24 = VR.lorentz_deltaRapidityPhi2.k_xy_eta_tau_xy_theta_tau coord11 coord12 coord13 coord14 coord21 coord22 coord23 coord24 := by
  simp only [VS.lorentz_deltaRapidityPhi2.k_xy_eta_tau_xy_theta_tau, VR.lorentz_deltaRapidityPhi2.k_xy_eta_tau_xy_theta_tau, VS.planar_deltaphi.xy_xy_eq, c08_lorentz_rapidity_xy_eta_tau, c08_lorentz_rapidity_xy_theta_tau, h0, h1, VR.P.nanToNum_eq]

theorem c08_lorentz_deltaRapidityPhi2_k_xy_eta_tau_xy_z_t (coord11 coord12 coord13 coord14 coord21 coord22 coord23 coord24 : ℝ) (h0 : 0 ≤ coord14) :
    VS.lorentz_deltaRapidityPhi2.k_xy_eta_tau_xy_z_t coord11 coord12 coord13 coord14 coord21 coord22 coord23 coord24 = VR.lorentz_deltaRapidityPhi2.k_xy_eta_tau_xy_z_t coord11 coord12 coord13 coord14 coord21 coord22 coord23 coord24 := by
  simp only [VS.lorentz_deltaRapidityPhi2.k_xy_eta_tau_xy_z_t, VR.lorentz_deltaRapidityPhi2.k_xy_eta_tau_xy_z_t, VS.planar_deltaphi.xy_xy_eq, c08_lorentz_rapidity_xy_eta_tau, VS.lorentz_rapidity.xy_z_t_eq, h0, VR.P.nanToNum_eq]

theorem c08_lorentz_deltaRapidityPhi2_k_xy_eta_tau_xy_z_tau (coord11 coord12 coord13 coord14 coord21 coord22 coord23 coord24 : ℝ) (h0 : 0 ≤ coord14) (h1 : 0 ≤ coord24) :
    VS.lorentz_deltaRapidityPhi2.k_xy_eta_tau_xy_z_tau coord11 coord12 coord13 coord14 coord21 coord22 coord23 coord24 = VR.lorentz_deltaRapidityPhi2.k_xy_eta_tau_xy_z_tau coord11 coord12 coord13 coord14 coord21 coord22 coord23 coord24 := by
  simp only [VS.lorentz_deltaRapidityPhi2.k_xy_eta_tau_xy_z_tau, VR.lorentz_deltaRapidityPhi2.k_xy_eta_tau_xy_z_tau, VS.planar_deltaphi.xy_xy_eq, c08_lorentz_rapidity_xy_eta_tau, c08_lorentz_rapidity_xy_z_tau, h0, h1, VR.P.nanToNum_eq]

theorem c08_lorentz_deltaRapidityPhi2_k_xy_theta_t_rhophi_eta_tau (coord11 coord12 coord13 coord14 coord21 coord22 coord23 coord24 : ℝ) (h0 : 0 ≤ coord24) :
    VS.lorentz_deltaRapidityPhi2.k_xy_theta_t_rhophi_eta_tau coord11 coord12 coord13 coord14 coord21 coord22 coord23 coord24 = VR.lorentz_deltaRapidityPhi2.k_xy_theta_t_rhophi_eta_tau coord11 coord12 coord13 coord14 coord21 coord22 coord23 coord24 := by
  simp only [VS.lorentz_deltaRapidityPhi2.k_xy_theta_t_rhophi_eta_tau, VR.lorentz_deltaRapidityPhi2.k_xy_theta_t_rhophi_eta_tau, VS.planar_deltaphi.xy_rhophi_eq, VS.lorentz_rapidity.xy_theta_t_eq, c08_lorentz_rapidity_rhophi_eta_tau, h0, VR.P.nanToNum_eq]

theorem c08_lorentz_deltaRapidityPhi2_k_xy_theta_t_rhophi_theta_tau (coord11 coord12 coord13 coord14 coord21 coord22 coord23 coord24 : ℝ) (h0 : 0 ≤ coord24) :
    VS.lorentz_deltaRapidityPhi2.k_xy_theta_t_rhophi_theta_tau coord11 coord12 coord13 coord14 coord21 coord22 coord23 coord24 = VR.lorentz_deltaRapidityPhi2.k_xy_theta_t_rhophi_theta_tau coord11 coord12 coord13 coord14 coord21 coord22 coord23 coord24 := by
  simp only [VS.lorentz_deltaRapidityPhi2.k_xy_theta_t_rhophi_theta_tau, VR.lorentz_deltaRapidityPhi2.k_xy_theta_t_rhophi_theta_tau, VS.planar_deltaphi.xy_rhophi_eq, VS.lorentz_rapidity.xy_theta_t_eq, c08_lorentz_rapidity_rhophi_theta_tau, h0, VR.P.nanToNum_eq]

theorem c08_lorentz_deltaRapidityPhi2_k_xy_theta_t_rhophi_z_tau (coord11 coord12 coord13 coord14 coord21 coord22 coord23 coord24 : ℝ) (h0 : 0 ≤ coord24) :
    VS.lorentz_deltaRapidityPhi2.k_xy_theta_t_rhophi_z_tau coord11 coord12 coord13 coord14 coord21 coord22 coord23 coord24 = VR.lorentz_deltaRapidityPhi2.k_xy_theta_t_rhophi_z_tau coord11 coord12 coord13 coord14 coord21 coord22 coord23 coord24 := by
  simp only [VS.lorentz_deltaRapidityPhi2.k_xy_theta_t_rhophi_z_tau, VR.lorentz_deltaRapidityPhi2.k_xy_theta_t_rhophi_z_tau, VS.planar_deltaphi.xy_rhophi_eq, VS.lorentz_rapidity.xy_theta_t_eq, c08_lorentz_rapidity_rhophi_z_tau, h0, VR.P.nanToNum_eq]

theorem c08_lorentz_deltaRapidityPhi2_k_xy_theta_t_xy_eta_tau (coord11 coord12 coord13 coord14 coord21 coord22 coord23 coord24 : ℝ) (h0 : 0 ≤ coord24) :
    VS.lorentz_deltaRapidityPhi2.k_xy_theta_t_xy_eta_tau coord11 coord12 coord13 coord14 coord21 coord22 coord23 coord24 = VR.lorentz_deltaRapidityPhi2.k_xy_theta_t_xy_eta_tau coord11 coord12 coord13 coord14 coord21 coord22 coord23 coord24 := by
  simp only [VS.lorentz_deltaRapidityPhi2.k_xy_theta_t_xy_eta_tau, VR.lorentz_deltaRapidityPhi2.k_xy_theta_t_xy_eta_tau, VS.planar_deltaphi.xy_xy_eq, VS.lorentz_rapidity.xy_theta_t_eq, c08_lorentz_rapidity_xy_eta_tau, h0, VR.P.nanToNum_eq]

theorem c08_lorentz_deltaRapidityPhi2_k_xy_theta_t_xy_theta_tau (coord11 coord12 coord13 coord14 coord21 coord22 coord23 coord24 : ℝ) (h0 : 0 ≤ coord24) :
    VS.lorentz_deltaRapidityPhi2.k_xy_theta_t_xy_theta_tau coord11 coord12 coord13 coord14 coord21 coord22 coord23 coord24 = VR.lorentz_deltaRapidityPhi2.k_xy_theta_t_xy_theta_tau coord11 coord12 coord13 coord14 coord21 coord22 coord23 coord24 := by
  simp only [VS.lorentz_deltaRapidityPhi2.k_xy_theta_t_xy_theta_tau, VR.lorentz_deltaRapidityPhi2.k_xy_theta_t_xy_theta_tau, VS.planar_deltaphi.xy_xy_eq, VS.lorentz_rapidity.xy_theta_t_eq, c08_lorentz_rapidity_xy_theta_tau, h0, VR.P.nanToNum_eq]

theorem c08_lorentz_deltaRapidityPhi2_k_xy_theta_t_xy_z_tau (coord11 coord12 coord13 coord14 coord21 coord22 coord23 coord24 : ℝ) (h0 : 0 ≤ coord24) :
    VS.lorentz_deltaRapidityPhi2.k_xy_theta_t_xy_z_tau coord11 coord12 coord13 coord14 coord21 coord22 coord23 coord24 = VR.lorentz_deltaRapidityPhi2.k_xy_theta_t_xy_z_tau coord11 coord12 coord13 coord14 coord21 coord22 coord23 coord24 := by
  simp only [VS.lorentz_deltaRapidityPhi2.k_xy_theta_t_xy_z_tau, VR.lorentz_deltaRapidityPhi2.k_xy_theta_t_xy_z_tau, VS.planar_deltaphi.xy_xy_eq, VS.lorentz_rapidity.xy_theta_t_eq, c08_lorentz_rapidity_xy_z_tau, h0, VR.P.nanToNum_eq]

theorem c08_lorentz_deltaRapidityPhi2_k_xy_theta_tau_rhophi_eta_t (coord11 coord12 coord13 coord14 coord21 coord22 coord23 coord24 : ℝ) (h0 : 0 ≤ coord14) :
    VS.lorentz_deltaRapidityPhi2.k_xy_theta_tau_rhophi_eta_t coord11 coord12 coord13 coord14 coord21 coord22 coord23 coord24 = VR.lorentz_deltaRapidityPhi2.k_xy_theta_tau_rhophi_eta_t coord11 coord12 coord13 coord14 coord21 coord22 coord23 coord24 := by
  simp only [VS.lorentz_deltaRapidityPhi2.k_xy_theta_tau_rhophi_eta_t, VR.lorentz_deltaRapidityPhi2.k_xy_theta_tau_rhophi_eta_t, VS.planar_deltaphi.xy_rhophi_eq, c08_lorentz_rapidity_xy_theta_tau, VS.lorentz_rapidity.rhophi_eta_t_eq, h0, VR.P.nanToNum_eq]

theorem c08_lorentz_deltaRapidityPhi2_k_xy_theta_tau_rhophi_eta_tau (coord11 coord12 coord13 coord14 coord21 coord22 coord23 coord24 : ℝ) (h0 : 0 ≤ coord14) (h1 : 0 ≤ coord24) :
    VS.lorentz_deltaRapidityPhi2.k_xy_theta_tau_rhophi_eta_tau coord11 coord12 coord13 coord14 coord21 coord22 coord23 coord24 = VR.lorentz_deltaRapidityPhi2.k_xy_theta_tau_rhophi_eta_tau coord11 coord12 coord13 coord14 coord21 coord22 coord23 coord24 := by
  simp only [VS.lorentz_deltaRapidityPhi2.k_xy_theta_tau_rhophi_eta_tau, VR.lorentz_deltaRapidityPhi2.k_xy_theta_tau_rhophi_eta_tau, VS.planar_deltaphi.xy_rhophi_eq, c08_lorentz_rapidity_xy_theta_tau, c08_lorentz_rapidity_rhophi_eta_tau, h0, h1, VR.P.nanToNum_eq]

theorem c08_lorentz_deltaRapidityPhi2_k_xy_theta_tau_rhophi_theta_t (coord11 coord12 coord13 coord14 coord21 coord22 coord23 coord24 : ℝ) (h0 : 0 ≤ coord14) :
    VS.lorentz_deltaRapidityPhi2.k_xy_theta_tau_rhophi_theta_t coord11 coord12 coord13 coord14 coord21 coord22 coord23 coord24 = VR.lorentz_deltaRapidityPhi2.k_xy_theta_tau_rhophi_theta_t coord11 coord12 coord13 coord14 coord21 coord22 coord23 coord24 := by
  simp only [VS.lorentz_deltaRapidityPhi2.k_xy_theta_tau_rhophi_theta_t, VR.lorentz_deltaRapidityPhi2.k_xy_theta_tau_rhophi_theta_t, VS.planar_deltaphi.xy_rhophi_eq, c08_lorentz_rapidity_xy_theta_tau, VS.lorentz_rapidity.rhophi_theta_t_eq, h0, VR.P.nanToNum_eq]

theorem c08_lorentz_deltaRapidityPhi2_k_xy_theta_tau_rhophi_theta_tau (coord11 coord12 coord13 coord14 coord21 coord22 coord23 coord24 : ℝ) (h0 : 0 ≤ coord14) (h1 : 0 ≤ coord24) :
    VS.lorentz_deltaRapidityPhi2.k_xy_theta_tau_rhophi_theta_tau coord11 coord12 coord13 coord14 coord21 coord22 coord23 coord24 = VR.lorentz_deltaRapidityPhi2.k_xy_theta_tau_rhophi_theta_tau coord11 coord12 coord13 coord14 coord21 coord22 coord23 coord24 := by
  simp only [VS.lorentz_deltaRapidityPhi2.k_xy_theta_tau_rhophi_theta_tau, VR.lorentz_deltaRapidityPhi2.k_xy_theta_tau_rhophi_theta_tau, VS.planar_deltaphi.xy_rhophi_eq, c08_lorentz_rapidity_xy_theta_tau, c08_lorentz_rapidity_rhophi_theta_tau, h0, h1, VR.P.nanToNum_eq]

theorem c08_lorentz_deltaRapidityPhi2_k_xy_theta_tau_rhophi_z_t (coord11 coord12 coord13 coord14 coord21 coord22 coord23 coord24 : ℝ) (h0 : 0 ≤ coord14) :
    VS.lorentz_deltaRapidityPhi2.k_xy_theta_tau_rhophi_z_t coord11 coord12 coord13 coord14 coord21 coord22 coord23 coord24 = VR.lorentz_deltaRapidityPhi2.k_xy_theta_tau_rhophi_z_t coord11 coord12 coord13 coord14 coord21 coord22 coord23 coord24 := by
  simp only [VS.lorentz_deltaRapidityPhi2.k_xy_theta_tau_rhophi_z_t, VR.lorentz_deltaRapidityPhi2.k_xy_theta_tau_rhophi_z_t, VS.planar_deltaphi.xy_rhophi_eq, c08_lorentz_rapidity_xy_theta_tau, VS.lorentz_rapidity.rhophi_z_t_eq, h0, VR.P.nanToNum_eq]

theorem c08_lorentz_deltaRapidityPhi2_k_xy_theta_tau_rhophi_z_tau (coord11 coord12 coord13 coord14 coord21 coord22 coord23 coord24 : ℝ) (h0 : 0 ≤ coord14) (h1 : 0 ≤ coord24) :
    VS.lorentz_deltaRapidityPhi2.k_xy_theta_tau_rhophi_z_tau coord11 coord12 coord13 coord14 coord21 coord22 coord23 coord24 = VR.lorentz_deltaRapidityPhi2.k_xy_theta_tau_rhophi_z_tau coord11 coord12 coord13 coord14 coord21 coord22 coord23 coord24 := by
  simp only [VS.lorentz_deltaRapidityPhi2.k_xy_theta_tau_rhophi_z_tau, VR.lorentz_deltaRapidityPhi2.k_xy_theta_tau_rhophi_z_tau, VS.planar_deltaphi.xy_rhophi_eq, c08_lorentz_rapidity_xy_theta_tau, c08_lorentz_rapidity_rhophi_z_tau, h0, h1, VR.P.nanToNum_eq]

theorem c08_lorentz_deltaRapidityPhi2_k_xy_theta_tau_xy_eta_t (coord11 coord12 coord13 coord14 coord21 coord22 coord23 coord24 : ℝ) (h0 : 0 ≤ coord14) :
    VS.lorentz_deltaRapidityPhi2.k_xy_theta_tau_xy_eta_t coord11 coord12 coord13 coord14 coord21 coord22 coord23 coord24 = VR.lorentz_deltaRapidityPhi2.k_xy_theta_tau_xy_eta_t coord11 coord12 coord13 coord14 coord21 coord22 coord23 coord24 := by
  simp only [VS.lorentz_deltaRapidityPhi2.k_xy_theta_tau_xy_eta_t, VR.lorentz_deltaRapidityPhi2.k_xy_theta_tau_xy_eta_t, VS.planar_deltaphi.xy_xy_eq, c08_lorentz_rapidity_xy_theta_tau, VS.lorentz_rapidity.xy_eta_t_eq, h0, VR.P.nanToNum_eq]

theorem c08_lorentz_deltaRapidityPhi2_k_xy_theta_tau_xy_eta_tau (coord11 coord12 coord13 coord14 coord21 coord22 coord23 coord24 : ℝ) (h0 : 0 ≤ coord14) (h1 : 0 ≤ coord24) :
    VS.lorentz_deltaRapidityPhi2.k_xy_theta_tau_xy_eta_tau coord11 coord12 coord13 coord14 coord21 coord22 coord23 coord24 = VR.lorentz_deltaRapidityPhi2.k_xy_theta_tau_xy_eta_tau coord11 coord12 coord13 coord14 coord21 coord22 coord23 coord24 := by
  simp only [VS.lorentz_deltaRapidityPhi2.k_xy_theta_tau_xy_eta_tau, VR.lorentz_deltaRapidityPhi2.k_xy_theta_tau_xy_eta_tau, VS.planar_deltaphi.xy_xy_eq, c08_lorentz_rapidity_xy_theta_tau, c08_lorentz_rapidity_xy_eta_tau, h0, h1, VR.P.nanToNum_eq]

theorem c08_lorentz_deltaRapidityPhi2_k_xy_theta_tau_xy_theta_t (coord11 coord12 coord13 coord14 coord21 coord22 coord23 coord24 : ℝ) (h0 : 0 ≤ coord14) :
    VS.lorentz_deltaRapidityPhi2.k_xy_theta_tau_xy_theta_t coord11 coord12 coord13 coord14 coord21 coord22 coord23 coord24 = VR.lorentz_deltaRapidityPhi2.k_xy_theta_tau_xy_theta_t coord11 coord12 coord13 coord14 coord21 coord22 coord23 coord24 := by
  simp only [VS.lorentz_deltaRapidityPhi2.k_xy_theta_tau_xy_theta_t, VR.lorentz_deltaRapidityPhi2.k_xy_theta_tau_xy_theta_t, VS.planar_deltaphi.xy_xy_eq, c08_lorentz_rapidity_xy_theta_tau, VS.lorentz_rapidity.xy_theta_t_eq, h0, VR.P.nanToNum_eq]

theorem c08_lorentz_deltaRapidityPhi2_k_xy_theta_tau_xy_theta_tau (coord11 coord12 coord13 coord14 coord21 coord22 coord23 coord24 : ℝ) (h0 : 0 ≤ coord14) (h1 : 0 ≤ coord24) :
    VS.lorentz_deltaRapidityPhi2.k_xy_theta_tau_xy_theta_tau coord11 coord12 coord13 coord14 coord21 coord22 coord23 coord24 = VR.lorentz_deltaRapidityPhi2.k_xy_theta_tau_xy_theta_tau coord11 coord12 coord13 coord14 coord21 coord22 coord23 coord24 := by
  simp only [VS.lorentz_deltaRapidityPhi2.k_xy_theta_tau_xy_theta_tau, VR.lorentz_deltaRapidityPhi2.k_xy_theta_tau_xy_theta_tau, VS.planar_deltaphi.xy_xy_eq, c08_lorentz_rapidity_xy_theta_tau, h0, h1, VR.P.nanToNum_eq]

theorem c08_lorentz_deltaRapidityPhi2_k_xy_theta_tau_xy_z_t (coord11 coord12 coord13 coord14 coord21 coord22 coord23 coord24 : ℝ) (h0 : 0 ≤ coord14) :
    VS.lorentz_deltaRapidityPhi2.k_xy_theta_tau_xy_z_t coord11 coord12 coord13 coord14 coord21 coord22 coord23 coord24 = VR.lorentz_deltaRapidityPhi2.k_xy_theta_tau_xy_z_t coord11 coord12 coord13 coord14 coord21 coord22 coord23 coord24 := by
  simp only [VS.lorentz_deltaRapidityPhi2.k_xy_theta_tau_xy_z_t, VR.lorentz_deltaRapidityPhi2.k_xy_theta_tau_xy_z_t, VS.planar_deltaphi.xy_xy_eq, c08_lorentz_rapidity_xy_theta_tau, VS.lorentz_rapidity.xy_z_t_eq, h0, VR.P.nanToNum_eq]

theorem c08_lorentz_deltaRapidityPhi2_k_xy_theta_tau_xy_z_tau (coord11 coord12 coord13 coord14 coord21 coord22 coord23 coord24 : ℝ) (h0 : 0 ≤ coord14) (h1 : 0 ≤ coord24) :
    VS.lorentz_deltaRapidityPhi2.k_xy_theta_tau_xy_z_tau coord11 coord12 coord13 coord14 coord21 coord22 coord23 coord24 = VR.lorentz_deltaRapidityPhi2.k_xy_theta_tau_xy_z_tau coord11 coord12 coord13 coord14 coord21 coord22 coord23 coord24 := by
  simp only [VS.lorentz_deltaRapidityPhi2.k_xy_theta_tau_xy_z_tau, VR.lorentz_deltaRapidityPhi2.k_xy_theta_tau_xy_z_tau, VS.planar_deltaphi.xy_xy_eq, c08_lorentz_rapidity_xy_theta_tau, c08_lorentz_rapidity_xy_z_tau, h0, h1, VR.P.nanToNum_eq]

theorem c08_lorentz_deltaRapidityPhi2_k_xy_z_t_rhophi_eta_tau (coord11 coord12 coord13 coord14 coord21 coord22 coord23 coord24 : ℝ) (h0 : 0 ≤ coord24) :
    VS.lorentz_deltaRapidityPhi2.k_xy_z_t_rhophi_eta_tau coord11 coord12 coord13 coord14 coord21 coord22 coord23 coord24 = VR.lorentz_deltaRapidityPhi2.k_xy_z_t_rhophi_eta_tau coord11 coord12 coord13 coord14 coord21 coord22 coord23 coord24 := by
  simp only [VS.lorentz_deltaRapidityPhi2.k_xy_z_t_rhophi_eta_tau, VR.lorentz_deltaRapidityPhi2.k_xy_z_t_rhophi_eta_tau, VS.planar_deltaphi.xy_rhophi_eq, VS.lorentz_rapidity.xy_z_t_eq, c08_lorentz_rapidity_rhophi_eta_tau, h0, VR.P.nanToNum_eq]

theorem c08_lorentz_deltaRapidityPhi2_k_xy_z_t_rhophi_theta_tau (coord11 coord12 coord13 coord14 coord21 coord22 coord23 coord24 : ℝ) (h0 : 0 ≤ coord24) :
    VS.lorentz_deltaRapidityPhi2.k_xy_z_t_rhophi_theta_tau coord11 coord12 coord13 coord14 coord21 coord22 coord23 coord24 = VR.lorentz_deltaRapidityPhi2.k_xy_z_t_rhophi_theta_tau coord11 coord12 coord13 coord14 coord21 coord22 coord23 coord24 := by
  simp only [VS.lorentz_deltaRapidityPhi2.k_xy_z_t_rhophi_theta_tau, VR.lorentz_deltaRapidityPhi2.k_xy_z_t_rhophi_theta_tau, VS.planar_deltaphi.xy_rhophi_eq, VS.lorentz_rapidity.xy_z_t_eq, c08_lorentz_rapidity_rhophi_theta_tau, h0, VR.P.nanToNum_eq]

theorem c08_lorentz_deltaRapidityPhi2_k_xy_z_t_rhophi_z_tau (coord11 coord12 coord13 coord14 coord21 coord22 coord23 coord24 : ℝ) (h0 : 0 ≤ coord24) :
    VS.lorentz_deltaRapidityPhi2.k_xy_z_t_rhophi_z_tau coord11 coord12 coord13 coord14 coord21 coord22 coord23 coord24 = VR.lorentz_deltaRapidityPhi2.k_xy_z_t_rhophi_z_tau coord11 coord12 coord13 coord14 coord21 coord22 coord23 coord24 := by
  simp only [VS.lorentz_deltaRapidityPhi2.k_xy_z_t_rhophi_z_tau, VR.lorentz_deltaRapidityPhi2.k_xy_z_t_rhophi_z_tau, VS.planar_deltaphi.xy_rhophi_eq, VS.lorentz_rapidity.xy_z_t_eq, c08_lorentz_rapidity_rhophi_z_tau, h0, VR.P.nanToNum_eq]

theorem c08_lorentz_deltaRapidityPhi2_k_xy_z_t_xy_eta_tau (coord11 coord12 coord13 coord14 coord21 coord22 coord23 coord24 : ℝ) (h0 : 0 ≤ coord24) :
    VS.lorentz_deltaRapidityPhi2.k_xy_z_t_xy_eta_tau coord11 coord12 coord13 coord14 coord21 coord22 coord23 coord24 = VR.lorentz_deltaRapidityPhi2.k_xy_z_t_xy_eta_tau coord11 coord12 coord13 coord14 coord21 coord22 coord23 coord24 := by
  simp only [VS.lorentz_deltaRapidityPhi2.k_xy_z_t_xy_eta_tau, VR.lorentz_deltaRapidityPhi2.k_xy_z_t_xy_eta_tau, VS.planar_deltaphi.xy_xy_eq, VS.lorentz_rapidity.xy_z_t_eq, c08_lorentz_rapidity_xy_eta_tau, h0, VR.P.nanToNum_eq]

theorem c08_lorentz_deltaRapidityPhi2_k_xy_z_t_xy_theta_tau (coord11 coord12 coord13 coord14 coord21 coord22 coord23 coord24 : ℝ) (h0 : 0 ≤ coord24) :
    VS.lorentz_deltaRapidityPhi2.k_xy_z_t_xy_theta_tau coord11 coord12 coord13 coord14 coord21 coord22 coord23 coord24 = VR.lorentz_deltaRapidityPhi2.k_xy_z_t_xy_theta_tau coord11 coord12 coord13 coord14 coord21 coord22 coord23 coord24 := by
  simp only [VS.lorentz_deltaRapidityPhi2.k_xy_z_t_xy_theta_tau, VR.lorentz_deltaRapidityPhi2.k_xy_z_t_xy_theta_tau, VS.planar_deltaphi.xy_xy_eq, VS.lorentz_rapidity.xy_z_t_eq, c08_lorentz_rapidity_xy_theta_tau, h0, VR.P.nanToNum_eq]

theorem c08_lorentz_deltaRapidityPhi2_k_xy_z_t_xy_z_tau (coord11 coord12 coord13 coord14 coord21 coord22 coord23 coord24 : ℝ) (h0 : 0 ≤ coord24) :
    VS.lorentz_deltaRapidityPhi2.k_xy_z_t_xy_z_tau coord11 coord12 coord13 coord14 coord21 coord22 coord23 coord24 = VR.lorentz_deltaRapidityPhi2.k_xy_z_t_xy_z_tau coord11 coord12 coord13 coord14 coord21 coord22 coord23 coord24 := by
  simp only [VS.lorentz_deltaRapidityPhi2.k_xy_z_t_xy_z_tau, VR.lorentz_deltaRapidityPhi2.k_xy_z_t_xy_z_tau, VS.planar_deltaphi.xy_xy_eq, VS.lorentz_rapidity.xy_z_t_eq, c08_lorentz_rapidity_xy_z_tau, h0, VR.P.nanToNum_eq]

theorem c08_lorentz_deltaRapidityPhi2_k_xy_z_tau_rhophi_eta_t (coord11 coord12 coord13 coord14 coord21 coord22 coord23 coord24 : ℝ) (h0 : 0 ≤ coord14) :
    VS.lorentz_deltaRapidityPhi2.k_xy_z_tau_rhophi_eta_t coord11 coord12 coord13 coord14 coord21 coord22 coord23 coord24 = VR.lorentz_deltaRapidityPhi2.k_xy_z_tau_rhophi_eta_t coord11 coord12 coord13 coord14 coord21 coord22 coord23 coord24 := by
  simp only [VS.lorentz_deltaRapidityPhi2.k_xy_z_tau_rhophi_eta_t, VR.lorentz_deltaRapidityPhi2.k_xy_z_tau_rhophi_eta_t, VS.planar_deltaphi.xy_rhophi_eq, c08_lorentz_rapidity_xy_z_tau, VS.lorentz_rapidity.rhophi_eta_t_eq, h0, VR.P.nanToNum_eq]

theorem c08_lorentz_deltaRapidityPhi2_k_xy_z_tau_rhophi_eta_tau (coord11 coord12 coord13 coord14 coord21 coord22 coord23 coord24 : ℝ) (h0 : 0 ≤ coord14) (h1 : 0 ≤ coord24) :
    VS.lorentz_deltaRapidityPhi2.k_xy_z_tau_rhophi_eta_tau coord11 coord12 coord13 coord14 coord21 coord22 coord23 coord24 = VR.lorentz_deltaRapidityPhi2.k_xy_z_tau_rhophi_eta_tau coord11 coord12 coord13 coord14 coord21 coord22 coord23 coord24 := by
  simp only [VS.lorentz_deltaRapidityPhi2.k_xy_z_tau_rhophi_eta_tau, VR.lorentz_deltaRapidityPhi2.k_xy_z_tau_rhophi_eta_tau, VS.planar_deltaphi.xy_rhophi_eq, c08_lorentz_rapidity_xy_z_tau, c08_lorentz_rapidity_rhophi_eta_tau, h0, h1, VR.P.nanToNum_eq]

theorem c08_lorentz_deltaRapidityPhi2_k_xy_z_tau_rhophi_theta_t (coord11 coord12 coord13 coord14 coord21 coord22 coord23 coord24 : ℝ) (h0 : 0 ≤ coord14) :
    VS.lorentz_deltaRapidityPhi2.k_xy_z_tau_rhophi_theta_t coord11 coord12 coord13 coord14 coord21 coord22 coord23 coord24 = VR.lorentz_deltaRapidityPhi2.k_xy_z_tau_rhophi_theta_t coord11 coord12 coord13 coord14 coord21 coord22 coord23 coord24 := by
  simp only [VS.lorentz_deltaRapidityPhi2.k_xy_z_tau_rhophi_theta_t, VR.lorentz_deltaRapidityPhi2.k_xy_z_tau_rhophi_theta_t, VS.planar_deltaphi.xy_rhophi_eq, c08_lorentz_rapidity_xy_z_tau, VS.lorentz_rapidity.rhophi_theta_t_eq, h0, VR.P.nanToNum_eq]

theorem c08_lorentz_deltaRapidityPhi2_k_xy_z_tau_rhophi_theta_tau (coord11 coord12 coord13 coord14 coord21 coord22 coord23 coord24 : ℝ) (h0 : 0 ≤ coord14) (h1 : 0 ≤ coord24) :
    VS.lorentz_deltaRapidityPhi2.k_xy_z_tau_rhophi_theta_tau coord11 coord12 coord13 coord14 coord21 coord22 coord23 coord24 = VR.lorentz_deltaRapidityPhi2.k_xy_z_tau_rhophi_theta_tau coord11 coord12 coord13 coord14 coord21 coord22 coord23 coord24 := by
  simp only [VS.lorentz_deltaRapidityPhi2.k_xy_z_tau_rhophi_theta_tau, VR.lorentz_deltaRapidityPhi2.k_xy_z_tau_rhophi_theta_tau, VS.planar_deltaphi.xy_rhophi_eq, c08_lorentz_rapidity_xy_z_tau, c08_lorentz_rapidity_rhophi_theta_tau, h0, h1, VR.P.nanToNum_eq]

theorem c08_lorentz_deltaRapidityPhi2_k_xy_z_tau_rhophi_z_t (coord11 coord12 coord13 coord14 coord21 coord22 coord23 coord24 : ℝ) (h0 : 0 ≤ coord14) :
    VS.lorentz_deltaRapidityPhi2.k_xy_z_tau_rhophi_z_t coord11 coord12 coord13 coord14 coord21 coord22 coord23 coord24 = VR.lorentz_deltaRapidityPhi2.k_xy_z_tau_rhophi_z_t coord11 coord12 coord13 coord14 coord21 coord22 coord23 coord24 := by
  simp only [VS.lorentz_deltaRapidityPhi2.k_xy_z_tau_rhophi_z_t, VR.lorentz_deltaRapidityPhi2.k_xy_z_tau_rhophi_z_t, VS.planar_deltaphi.xy_rhophi_eq, c08_lorentz_rapidity_xy_z_tau, VS.lorentz_rapidity.rhophi_z_t_eq, h0, VR.P.nanToNum_eq]

theorem c08_lorentz_deltaRapidityPhi2_k_xy_z_tau_rhophi_z_tau (coord11 coord12 coord13 coord14 coord21 coord22 coord23 coord24 : ℝ) (h0 : 0 ≤ coord14) (h1 : 0 ≤ coord24) :
    VS.lorentz_deltaRapidityPhi2.k_xy_z_tau_rhophi_z_tau coord11 coord12 coord13 coord14 coord21 coord22 coord23 coord24 = VR.lorentz_deltaRapidityPhi2.k_xy_z_tau_rhophi_z_tau coord11 coord12 coord13 coord14 coord21 coord22 coord23 coord24 := by
  simp only [VS.lorentz_deltaRapidityPhi2.k_xy_z_tau_rhophi_z_tau, VR.lorentz_deltaRapidityPhi2.k_xy_z_tau_rhophi_z_tau, VS.planar_deltaphi.xy_rhophi_eq, c08_lorentz_rapidity_xy_z_tau, c08_lorentz_rapidity_rhophi_z_tau, h0, h1, VR.P.nanToNum_eq]

theorem c08_lorentz_deltaRapidityPhi2_k_xy_z_tau_xy_eta_t (coord11 coord12 coord13 coord14 coord21 coord22 coord23 coord24 : ℝ) (h0 : 0 ≤ coord14) :
    VS.lorentz_deltaRapidityPhi2.k_xy_z_tau_xy_eta_t coord11 coord12 coord13 coord14 coord21 coord22 coord23 coord24 = VR.lorentz_deltaRapidityPhi2.k_xy_z_tau_xy_eta_t coord11 coord12 coord13 coord14 coord21 coord22 coord23 coord24 := by
  simp only [VS.lorentz_deltaRapidityPhi2.k_xy_z_tau_xy_eta_t, VR.lorentz_deltaRapidityPhi2.k_xy_z_tau_xy_eta_t, VS.planar_deltaphi.xy_xy_eq, c08_lorentz_rapidity_xy_z_tau, VS.lorentz_rapidity.xy_eta_t_eq, h0, VR.P.nanToNum_eq]

theorem c08_lorentz_deltaRapidityPhi2_k_xy_z_tau_xy_eta_tau (coord11 coord12 coord13 coord14 coord21 coord22 coord23 coord24 : ℝ) (h0 : 0 ≤ coord14) (h1 : 0 ≤ coord24) :
    VS.lorentz_deltaRapidityPhi2.k_xy_z_tau_xy_eta_tau coord11 coord12 coord13 coord14 coord21 coord22 coord23 coord24 = VR.lorentz_deltaRapidityPhi2.k_xy_z_tau_xy_eta_tau coord11 coord12 coord13 coord14 coord21 coord22 coord23 coord24 := by
  simp only [VS.lorentz_deltaRapidityPhi2.k_xy_z_tau_xy_eta_tau, VR.lorentz_deltaRapidityPhi2.k_xy_z_tau_xy_eta_tau, VS.planar_deltaphi.xy_xy_eq, c08_lorentz_rapidity_xy_z_tau, c08_lorentz_rapidity_xy_eta_tau, h0, h1, VR.P.nanToNum_eq]

theorem c08_lorentz_deltaRapidityPhi2_k_xy_z_tau_xy_theta_t (coord11 coord12 coord13 coord14 coord21 coord22 coord23 coord24 : ℝ) (h0 : 0 ≤ coord14) :
    VS.lorentz_deltaRapidityPhi2.k_xy_z_tau_xy_theta_t coord11 coord12 coord13 coord14 coord21 coord22 coord23 coord24 = VR.lorentz_deltaRapidityPhi2.k_xy_z_tau_xy_theta_t coord11 coord12 coord13 coord14 coord21 coord22 coord23 coord24 := by
  simp only [VS.lorentz_deltaRapidityPhi2.k_xy_z_tau_xy_theta_t, VR.lorentz_deltaRapidityPhi2.k_xy_z_tau_xy_theta_t, VS.planar_deltaphi.xy_xy_eq, c08_lorentz_rapidity_xy_z_tau, VS.lorentz_rapidity.xy_theta_t_eq, h0, VR.P.nanToNum_eq]

theorem c08_lorentz_deltaRapidityPhi2_k_xy_z_tau_xy_theta_tau (coord11 coord12 coord13 coord14 coord21 coord22 coord23 coord24 : ℝ) (h0 : 0 ≤ coord14) (h1 : 0 ≤ coord24) :
    VS.lorentz_deltaRapidityPhi2.k_xy_z_tau_xy_theta_tau coord11 coord12 coord13 coord14 coord21 coord22 coord23 coord24 = VR.lorentz_deltaRapidityPhi2.k_xy_z_tau_xy_theta_tau coord11 coord12 coord13 coord14 coord21 coord22 coord23 coord24 := by
  simp only [VS.lorentz_deltaRapidityPhi2.k_xy_z_tau_xy_theta_tau, VR.lorentz_deltaRapidityPhi2.k_xy_z_tau_xy_theta_tau, VS.planar_deltaphi.xy_xy_eq, c08_lorentz_rapidity_xy_z_tau, c08_lorentz_rapidity_xy_theta_tau, h0, h1, VR.P.nanToNum_eq]

theorem c08_lorentz_deltaRapidityPhi2_k_xy_z_tau_xy_z_t (coord11 coord12 coord13 coord14 coord21 coord22 coord23 coord24 : ℝ) (h0 : 0 ≤ coord14) :
    VS.lorentz_deltaRapidityPhi2.k_xy_z_tau_xy_z_t coord11 coord12 coord13 coord14 coord21 coord22 coord23 coord24 = VR.lorentz_deltaRapidityPhi2.k_xy_z_tau_xy_z_t coord11 coord12 coord13 coord14 coord21 coord22 coord23 coord24 := by
  simp only [VS.lorentz_deltaRapidityPhi2.k_xy_z_tau_xy_z_t, VR.lorentz_deltaRapidityPhi2.k_xy_z_tau_xy_z_t, VS.planar_deltaphi.xy_xy_eq, c08_lorentz_rapidity_xy_z_tau, VS.lorentz_rapidity.xy_z_t_eq, h0, VR.P.nanToNum_eq]

theorem c08_lorentz_deltaRapidityPhi2_k_xy_z_tau_xy_z_tau (coord11 coord12 coord13 coord14 coord21 coord22 coord23 coord24 : ℝ) (h0 : 0 ≤ coord14) (h1 : 0 ≤ coord24) :
    VS.lorentz_deltaRapidityPhi2.k_xy_z_tau_xy_z_tau coord11 coord12 coord13 coord14 coord21 coord22 coord23 coord24 = VR.lorentz_deltaRapidityPhi2.k_xy_z_tau_xy_z_tau coord11 coord12 coord13 coord14 coord21 coord22 coord23 coord24 := by
  simp only [VS.lorentz_deltaRapidityPhi2.k_xy_z_tau_xy_z_tau, VR.lorentz_deltaRapidityPhi2.k_xy_z_tau_xy_z_tau, VS.planar_deltaphi.xy_xy_eq, c08_lorentz_rapidity_xy_z_tau, h0, h1, VR.P.nanToNum_eq]


/-! ### `lorentz_deltaRapidityPhi` -/

theorem c08_lorentz_deltaRapidityPhi_k_rhophi_eta_t_rhophi_eta_tau (coord11 coord12 coord13 coord14 coord21 coord22 coord23 coord24 : ℝ) (h0 : 0 ≤ coord24) :
    VS.lorentz_deltaRapidityPhi.k_rhophi_eta_t_rhophi_eta_tau coord11 coord12 coord13 coord14 coord21 coord22 coord23 coord24 = VR.lorentz_deltaRapidityPhi.k_rhophi_eta_t_rhophi_eta_tau coord11 coord12 coord13 coord14 coord21 coord22 coord23 coord24 := by
  simp only [VS.lorentz_deltaRapidityPhi.k_rhophi_eta_t_rhophi_eta_tau, VR.lorentz_deltaRapidityPhi.k_rhophi_eta_t_rhophi_eta_tau, c08_lorentz_deltaRapidityPhi2_k_rhophi_eta_t_rhophi_eta_tau, h0, VR.P.nanToNum_eq]

theorem c08_lorentz_deltaRapidityPhi_k_rhophi_eta_t_rhophi_theta_tau (coord11 coord12 coord13 coord14 coord21 coord22 coord23 coord24 : ℝ) (h0 : 0 ≤ coord24) :
    VS.lorentz_deltaRapidityPhi.k_rhophi_eta_t_rhophi_theta_tau coord11 coord12 coord13 coord14 coord21 coord22 coord23 coord24 = VR.lorentz_deltaRapidityPhi.k_rhophi_eta_t_rhophi_theta_tau coord11 coord12 coord13 coord14 coord21 coord22 coord23 coord24 := by
  simp only [VS.lorentz_deltaRapidityPhi.k_rhophi_eta_t_rhophi_theta_tau, VR.lorentz_deltaRapidityPhi.k_rhophi_eta_t_rhophi_theta_tau, c08_lorentz_deltaRapidityPhi2_k_rhophi_eta_t_rhophi_theta_tau, h0, VR.P.nanToNum_eq]

theorem c08_lorentz_deltaRapidityPhi_k_rhophi_eta_t_rhophi_z_tau (coord11 coord12 coord13 coord14 coord21 coord22 coord23 coord24 : ℝ) (h0 : 0 ≤ coord24) :
    VS.lorentz_deltaRapidityPhi.k_rhophi_eta_t_rhophi_z_tau coord11 coord12 coord13 coord14 coord21 coord22 coord23 coord24 = VR.lorentz_deltaRapidityPhi.k_rhophi_eta_t_rhophi_z_tau coord11 coord12 coord13 coord14 coord21 coord22 coord23 coord24 := by
  simp only [VS.lorentz_deltaRapidityPhi.k_rhophi_eta_t_rhophi_z_tau, VR.lorentz_deltaRapidityPhi.k_rhophi_eta_t_rhophi_z_tau, c08_lorentz_deltaRapidityPhi2_k_rhophi_eta_t_rhophi_z_tau, h0, VR.P.nanToNum_eq]

theorem c08_lorentz_deltaRapidityPhi_k_rhophi_eta_t_xy_eta_tau (coord11 coord12 coord13 coord14 coord21 coord22 coord23 coord24 : ℝ) (h0 : 0 ≤ coord24) :
    VS.lorentz_deltaRapidityPhi.k_rhophi_eta_t_xy_eta_tau coord11 coord12 coord13 coord14 coord21 coord22 coord23 coord24 = VR.lorentz_deltaRapidityPhi.k_rhophi_eta_t_xy_eta_tau coord11 coord12 coord13 coord14 coord21 coord22 coord23 coord24 := by
  simp only [VS.lorentz_deltaRapidityPhi.k_rhophi_eta_t_xy_eta_tau, VR.lorentz_deltaRapidityPhi.k_rhophi_eta_t_xy_eta_tau, c08_lorentz_deltaRapidityPhi2_k_rhophi_eta_t_xy_eta_tau, h0, VR.P.nanToNum_eq]

theorem c08_lorentz_deltaRapidityPhi_k_rhophi_eta_t_xy_theta_tau (coord11 coord12 coord13 coord14 coord21 coord22 coord23 coord24 : ℝ) (h0 : 0 ≤ coord24) :
    VS.lorentz_deltaRapidityPhi.k_rhophi_eta_t_xy_theta_tau coord11 coord12 coord13 coord14 coord21 coord22 coord23 coord24 = VR.lorentz_deltaRapidityPhi.k_rhophi_eta_t_xy_theta_tau coord11 coord12 coord13 coord14 coord21 coord22 coord23 coord24 := by
  simp only [VS.lorentz_deltaRapidityPhi.k_rhophi_eta_t_xy_theta_tau, VR.lorentz_deltaRapidityPhi.k_rhophi_eta_t_xy_theta_tau, c08_lorentz_deltaRapidityPhi2_k_rhophi_eta_t_xy_theta_tau, h0, VR.P.nanToNum_eq]

theorem c08_lorentz_deltaRapidityPhi_k_rhophi_eta_t_xy_z_tau (coord11 coord12 coord13 coord14 coord21 coord22 coord23 coord24 : ℝ) (h0 : 0 ≤ coord24) :
    VS.lorentz_deltaRapidityPhi.k_rhophi_eta_t_xy_z_tau coord11 coord12 coord13 coord14 coord21 coord22 coord23 coord24 = VR.lorentz_deltaRapidityPhi.k_rhophi_eta_t_xy_z_tau coord11 coord12 coord13 coord14 coord21 coord22 coord23 coord24 := by
  simp only [VS.lorentz_deltaRapidityPhi.k_rhophi_eta_t_xy_z_tau, VR.lorentz_deltaRapidityPhi.k_rhophi_eta_t_xy_z_tau, c08_lorentz_deltaRapidityPhi2_k_rhophi_eta_t_xy_z_tau, h0, VR.P.nanToNum_eq]

theorem c08_lorentz_deltaRapidityPhi_k_rhophi_eta_tau_rhophi_eta_t (coord11 coord12 coord13 coord14 coord21 coord22 coord23 coord24 : ℝ) (h0 : 0 ≤ coord14) :
    VS.lorentz_deltaRapidityPhi.k_rhophi_eta_tau_rhophi_eta_t coord11 coord12 coord13 coord14 coord21 coord22 coord23 coord24 = VR.lorentz_deltaRapidityPhi.k_rhophi_eta_tau_rhophi_eta_t coord11 coord12 coord13 coord14 coord21 coord22 coord23 coord24 := by
  simp only [VS.lorentz_deltaRapidityPhi.k_rhophi_eta_tau_rhophi_eta_t, VR.lorentz_deltaRapidityPhi.k_rhophi_eta_tau_rhophi_eta_t, c08_lorentz_deltaRapidityPhi2_k_rhophi_eta_tau_rhophi_eta_t, h0, VR.P.nanToNum_eq]

theorem c08_lorentz_deltaRapidityPhi_k_rhophi_eta_tau_rhophi_eta_tau (coord11 coord12 coord13 coord14 coord21 coord22 coord23 coord24 : ℝ) (h0 : 0 ≤ coord14) (h1 : 0 ≤ coord24) :
    VS.lorentz_deltaRapidityPhi.k_rhophi_eta_tau_rhophi_eta_tau coord11 coord12 coord13 coord14 coord21 coord22 coord23 coord24 = VR.lorentz_deltaRapidityPhi.k_rhophi_eta_tau_rhophi_eta_tau coord11 coord12 coord13 coord14 coord21 coord22 coord23 coord24 := by
  simp only [VS.lorentz_deltaRapidityPhi.k_rhophi_eta_tau_rhophi_eta_tau, VR.lorentz_deltaRapidityPhi.k_rhophi_eta_tau_rhophi_eta_tau, c08_lorentz_deltaRapidityPhi2_k_rhophi_eta_tau_rhophi_eta_tau, h0, h1, VR.P.nanToNum_eq]

theorem c08_lorentz_deltaRapidityPhi_k_rhophi_eta_tau_rhophi_theta_t (coord11 coord12 coord13 coord14 coord21 coord22 coord23 coord24 : ℝ) (h0 : 0 ≤ coord14) :
    VS.lorentz_deltaRapidityPhi.k_rhophi_eta_tau_rhophi_theta_t coord11 coord12 coord13 coord14 coord21 coord22 coord23 coord24 = VR.lorentz_deltaRapidityPhi.k_rhophi_eta_tau_rhophi_theta_t coord11 coord12 coord13 coord14 coord21 coord22 coord23 coord24 := by
  simp only [VS.lorentz_deltaRapidityPhi.k_rhophi_eta_tau_rhophi_theta_t, VR.lorentz_deltaRapidityPhi.k_rhophi_eta_tau_rhophi_theta_t, c08_lorentz_deltaRapidityPhi2_k_rhophi_eta_tau_rhophi_theta_t, h0, VR.P.nanToNum_eq]

theorem c08_lorentz_deltaRapidityPhi_k_rhophi_eta_tau_rhophi_theta_tau (coord11 coord12 coord13 coord14 coord21 coord22 coord23 coord24 : ℝ) (h0 : 0 ≤ coord14) (h1 : 0 ≤ coord24) :
    VS.lorentz_deltaRapidityPhi.k_rhophi_eta_tau_rhophi_theta_tau coord11 coord12 coord13 coord14 coord21 coord22 coord23 coord24 = VR.lorentz_deltaRapidityPhi.k_rhophi_eta_tau_rhophi_theta_tau coord11 coord12 coord13 coord14 coord21 coord22 coord23 coord24 := by
  simp only [VS.lorentz_deltaRapidityPhi.k_rhophi_eta_tau_rhophi_theta_tau, VR.lorentz_deltaRapidityPhi.k_rhophi_eta_tau_rhophi_theta_tau, c08_lorentz_deltaRapidityPhi2_k_rhophi_eta_tau_rhophi_theta_tau, h0, h1, VR.P.nanToNum_eq]

theorem c08_lorentz_deltaRapidityPhi_k_rhophi_eta_tau_rhophi_z_t (coord11 coord12 coord13 coord14 coord21 coord22 coord23 coord24 : ℝ) (h0 : 0 ≤ coord14) :
    VS.lorentz_deltaRapidityPhi.k_rhophi_eta_tau_rhophi_z_t coord11 coord12 coord13 coord14 coord21 coord22 coord23 coord24 = VR.lorentz_deltaRapidityPhi.k_rhophi_eta_tau_rhophi_z_t coord11 coord12 coord13 coord14 coord21 coord22 coord23 coord24 := by
  simp only [VS.lorentz_deltaRapidityPhi.k_rhophi_eta_tau_rhophi_z_t, VR.lorentz_deltaRapidityPhi.k_rhophi_eta_tau_rhophi_z_t, c08_lorentz_deltaRapidityPhi2_k_rhophi_eta_tau_rhophi_z_t, h0, VR.P.nanToNum_eq]

theorem c08_lorentz_deltaRapidityPhi_k_rhophi_eta_tau_rhophi_z_tau (coord11 coord12 coord13 coord14 coord21 coord22 coord23 coord24 : ℝ) (h0 : 0 ≤ coord14) (h1 : 0 ≤ coord24) :
    VS.lorentz_deltaRapidityPhi.k_rhophi_eta_tau_rhophi_z_tau coord11 coord12 coord13 coord14 coord21 coord22 coord23 coord24 = VR.lorentz_deltaRapidityPhi.k_rhophi_eta_tau_rhophi_z_tau coord11 coord12 coord13 coord14 coord21 coord22 coord23 coord24 := by
  simp only [VS.lorentz_deltaRapidityPhi.k_rhophi_eta_tau_rhophi_z_tau, VR.lorentz_deltaRapidityPhi.k_rhophi_eta_tau_rhophi_z_tau, c08_lorentz_deltaRapidityPhi2_k_rhophi_eta_tau_rhophi_z_tau, h0, h1, VR.P.nanToNum_eq]

theorem c08_lorentz_deltaRapidityPhi_k_rhophi_eta_tau_xy_eta_t (coord11 coord12 coord13 coord14 coord21 coord22 coord23 coord24 : ℝ) (h0 : 0 ≤ coord14) :
    VS.lorentz_deltaRapidityPhi.k_rhophi_eta_tau_xy_eta_t coord11 coord12 coord13 coord14 coord21 coord22 coord23 coord24 = VR.lorentz_deltaRapidityPhi.k_rhophi_eta_tau_xy_eta_t coord11 coord12 coord13 coord14 coord21 coord22 coord23 coord24 := by
  simp only [VS.lorentz_deltaRapidityPhi.k_rhophi_eta_tau_xy_eta_t, VR.lorentz_deltaRapidityPhi.k_rhophi_eta_tau_xy_eta_t, c08_lorentz_deltaRapidityPhi2_k_rhophi_eta_tau_xy_eta_t, h0, VR.P.nanToNum_eq]

theorem c08_lorentz_deltaRapidityPhi_k_rhophi_eta_tau_xy_eta_tau (coord11 coord12 coord13 coord14 coord21 coord22 coord23 coord24 : ℝ) (h0 : 0 ≤ coord14) (h1 : 0 ≤ coord24) :
    VS.lorentz_deltaRapidityPhi.k_rhophi_eta_tau_xy_eta_tau coord11 coord12 coord13 coord14 coord21 coord22 coord23 coord24 = VR.lorentz_deltaRapidityPhi.k_rhophi_eta_tau_xy_eta_tau coord11 coord12 coord13 coord14 coord21 coord22 coord23 coord24 := by
  simp only [VS.lorentz_deltaRapidityPhi.k_rhophi_eta_tau_xy_eta_tau, VR.lorentz_deltaRapidityPhi.k_rhophi_eta_tau_xy_eta_tau, c08_lorentz_deltaRapidityPhi2_k_rhophi_eta_tau_xy_eta_tau, h0, h1, VR.P.nanToNum_eq]

theorem c08_lorentz_deltaRapidityPhi_k_rhophi_eta_tau_xy_theta_t (coord11 coord12 coord13 coord14 coord21 coord22 coord23 coord24 : ℝ) (h0 : 0 ≤ coord14) :
    VS.lorentz_deltaRapidityPhi.k_rhophi_eta_tau_xy_theta_t coord11 coord12 coord13 coord14 coord21 coord22 coord23 coord24 = VR.lorentz_deltaRapidityPhi.k_rhophi_eta_tau_xy_theta_t coord11 coord12 coord13 coord14 coord21 coord22 coord23 coord24 := by
  simp only [VS.lorentz_deltaRapidityPhi.k_rhophi_eta_tau_xy_theta_t, VR.lorentz_deltaRapidityPhi.k_rhophi_eta_tau_xy_theta_t, c08_lorentz_deltaRapidityPhi2_k_rhophi_eta_tau_xy_theta_t, h0, VR.P.nanToNum_eq]

theorem c08_lorentz_deltaRapidityPhi_k_rhophi_eta_tau_xy_theta_tau (coord11 coord12 coord13 coord14 coord21 coord22 coord23 coord24 : ℝ) (h0 : 0 ≤ coord14) (h1 : 0 ≤ coord24) :
    VS.lorentz_deltaRapidityPhi.k_rhophi_eta_tau_xy_theta_tau coord11 coord12 coord13 coord14 coord21 coord22 coord23 coord24 = VR.lorentz_deltaRapidityPhi.k_rhophi_eta_tau_xy_theta_tau coord11 coord12 coord13 coord14 coord21 coord22 coord23 coord24 := by
  simp only [VS.lorentz_deltaRapidityPhi.k_rhophi_eta_tau_xy_theta_tau, VR.lorentz_deltaRapidityPhi.k_rhophi_eta_tau_xy_theta_tau, c08_lorentz_deltaRapidityPhi2_k_rhophi_eta_tau_xy_theta_tau, h0, h1, VR.P.nanToNum_eq]

theorem c08_lorentz_deltaRapidityPhi_k_rhophi_eta_tau_xy_z_t (coord11 coord12 coord13 coord14 coord21 coord22 coord23 coord24 : ℝ) (h0 : 0 ≤ coord14) :
    VS.lorentz_deltaRapidityPhi.k_rhophi_eta_tau_xy_z_t coord11 coord12 coord13 coord14 coord21 coord22 coord23 coord24 = VR.lorentz_deltaRapidityPhi.k_rhophi_eta_tau_xy_z_t coord11 coord12 coord13 coord14 coord21 coord22 coord23 coord24 := by
  simp only [VS.lorentz_deltaRapidityPhi.k_rhophi_eta_tau_xy_z_t, VR.lorentz_deltaRapidityPhi.k_rhophi_eta_tau_xy_z_t, c08_lorentz_deltaRapidityPhi2_k_rhophi_eta_tau_xy_z_t, h0, VR.P.nanToNum_eq]

theorem c08_lorentz_deltaRapidityPhi_k_rhophi_eta_tau_xy_z_tau (coord11 coord12 coord13 coord14 coord21 coord22 coord23 coord24 : ℝ) (h0 : 0 ≤ coord14) (h1 : 0 ≤ coord24) :
    VS.lorentz_deltaRapidityPhi.k_rhophi_eta_tau_xy_z_tau coord11 coord12 coord13 coord14 coord21 coord22 coord23 coord24 = VR.lorentz_deltaRapidityPhi.k_rhophi_eta_tau_xy_z_tau coord11 coord12 coord13 coord14 coord21 coord22 coord23 coord24 := by
  simp only [VS.lorentz_deltaRapidityPhi.k_rhophi_eta_tau_xy_z_tau, VR.lorentz_deltaRapidityPhi.k_rhophi_eta_tau_xy_z_tau, c08_lorentz_deltaRapidityPhi2_k_rhophi_eta_tau_xy_z_tau, h0, h1, VR.P.nanToNum_eq]

theorem c08_lorentz_deltaRapidityPhi_k_rhophi_theta_t_rhophi_eta_tau (coord11 coord12 coord13 coord14 coord21 coord22 coord23 coord24 : ℝ) (h0 : 0 ≤ coord24) :
    VS.lorentz_deltaRapidityPhi.k_rhophi_theta_t_rhophi_eta_tau coord11 coord12 coord13 coord14 coord21 coord22 coord23 coord24 = VR.lorentz_deltaRapidityPhi.k_rhophi_theta_t_rhophi_eta_tau coord11 coord12 coord13 coord14 coord21 coord22 coord23 coord24 := by
  simp only [VS.lorentz_deltaRapidityPhi.k_rhophi_theta_t_rhophi_eta_tau, VR.lorentz_deltaRapidityPhi.k_rhophi_theta_t_rhophi_eta_tau, c08_lorentz_deltaRapidityPhi2_k_rhophi_theta_t_rhophi_eta_tau, h0, VR.P.nanToNum_eq]

theorem c08_lorentz_deltaRapidityPhi_k_rhophi_theta_t_rhophi_theta_tau (coord11 coord12 coord13 coord14 coord21 coord22 coord23 coord24 : ℝ) (h0 : 0 ≤ coord24) :
    VS.lorentz_deltaRapidityPhi.k_rhophi_theta_t_rhophi_theta_tau coord11 coord12 coord13 coord14 coord21 coord22 coord23 coord24 = VR.lorentz_deltaRapidityPhi.k_rhophi_theta_t_rhophi_theta_tau coord11 coord12 coord13 coord14 coord21 coord22 coord23 coord24 := by
  simp only [VS.lorentz_deltaRapidityPhi.k_rhophi_theta_t_rhophi_theta_tau, VR.lorentz_deltaRapidityPhi.k_rhophi_theta_t_rhophi_theta_tau, c08_lorentz_deltaRapidityPhi2_k_rhophi_theta_t_rhophi_theta_tau, h0, VR.P.nanToNum_eq]

theorem c08_lorentz_deltaRapidityPhi_k_rhophi_theta_t_rhophi_z_tau (coord11 coord12 coord13 coord14 coord21 coord22 coord23 coord24 : ℝ) (h0 : 0 ≤ coord24) :
    VS.lorentz_deltaRapidityPhi.k_rhophi_theta_t_rhophi_z_tau coord11 coord12 coord13 coord14 coord21 coord22 coord23 coord24 = VR.lorentz_deltaRapidityPhi.k_rhophi_theta_t_rhophi_z_tau coord11 coord12 coord13 coord14 coord21 coord22 coord23 coord24 := by
  simp only [VS.lorentz_deltaRapidityPhi.k_rhophi_theta_t_rhophi_z_tau, VR.lorentz_deltaRapidityPhi.k_rhophi_theta_t_rhophi_z_tau, c08_lorentz_deltaRapidityPhi2_k_rhophi_theta_t_rhophi_z_tau, h0, VR.P.nanToNum_eq]

theorem c08_lorentz_deltaRapidityPhi_k_rhophi_theta_t_xy_eta_tau (coord11 coord12 coord13 coord14 coord21 coord22 coord23 coord24 : ℝ) (h0 : 0 ≤ coord24) :
    VS.lorentz_deltaRapidityPhi.k_rhophi_theta_t_xy_eta_tau coord11 coord12 coord13 coord14 coord21 coord22 coord23 coord24 = VR.lorentz_deltaRapidityPhi.k_rhophi_theta_t_xy_eta_tau coord11 coord12 coord13 coord14 coord21 coord22 coord23 coord24 := by
  simp only [VS.lorentz_deltaRapidityPhi.k_rhophi_theta_t_xy_eta_tau, VR.lorentz_deltaRapidityPhi.k_rhophi_theta_t_xy_eta_tau, c08_lorentz_deltaRapidityPhi2_k_rhophi_theta_t_xy_eta_tau, h0, VR.P.nanToNum_eq]

theorem c08_lorentz_deltaRapidityPhi_k_rhophi_theta_t_xy_theta_tau (coord11 coord12 coord13 coord14 coord21 coord22 coord23 coord24 : ℝ) (h0 : 0 ≤ coord24) :
    VS.lorentz_deltaRapidityPhi.k_rhophi_theta_t_xy_theta_tau coord11 coord12 coord13 coord14 coord21 coord22 coord23 coord24 = VR.lorentz_deltaRapidityPhi.k_rhophi_theta_t_xy_theta_tau coord11 coord12 coord13 coord14 coord21 coord22 coord23 coord24 := by
  simp only [VS.lorentz_deltaRapidityPhi.k_rhophi_theta_t_xy_theta_tau, VR.lorentz_deltaRapidityPhi.k_rhophi_theta_t_xy_theta_tau, c08_lorentz_deltaRapidityPhi2_k_rhophi_theta_t_xy_theta_tau, h0, VR.P.nanToNum_eq]

theorem c08_lorentz_deltaRapidityPhi_k_rhophi_theta_t_xy_z_tau (coord11 coord12 coord13 coord14 coord21 coord22 coord23 coord24 : ℝ) (h0 : 0 ≤ coord24) :
    VS.lorentz_deltaRapidityPhi.k_rhophi_theta_t_xy_z_tau coord11 coord12 coord13 coord14 coord21 coord22 coord23 coord24 = VR.lorentz_deltaRapidityPhi.k_rhophi_theta_t_xy_z_tau coord11 coord12 coord13 coord14 coord21 coord22 coord23 coord24 := by
  simp only [VS.lorentz_deltaRapidityPhi.k_rhophi_theta_t_xy_z_tau, VR.lorentz_deltaRapidityPhi.k_rhophi_theta_t_xy_z_tau, c08_lorentz_deltaRapidityPhi2_k_rhophi_theta_t_xy_z_tau, h0, VR.P.nanToNum_eq]

theorem c08_lorentz_deltaRapidityPhi_k_rhophi_theta_tau_rhophi_eta_t (coord11 coord12 coord13 coord14 coord21 coord22 coord23 coord24 : ℝ) (h0 : 0 ≤ coord14) :
    VS.lorentz_deltaRapidityPhi.k_rhophi_theta_tau_rhophi_eta_t coord11 coord12 coord13 coord14 coord21 coord22 coord23 coord24 = VR.lorentz_deltaRapidityPhi.k_rhophi_theta_tau_rhophi_eta_t coord11 coord12 coord13 coord14 coord21 coord22 coord23 coord24 := by
  simp only [VS.lorentz_deltaRapidityPhi.k_rhophi_theta_tau_rhophi_eta_t, VR.lorentz_deltaRapidityPhi.k_rhophi_theta_tau_rhophi_eta_t, c08_lorentz_deltaRapidityPhi2_k_rhophi_theta_tau_rhophi_eta_t, h0, VR.P.nanToNum_eq]

theorem c08_lorentz_deltaRapidityPhi_k_rhophi_theta_tau_rhophi_eta_tau (coord11 coord12 coord13 coord14 coord21 coord22 coord23 coord24 : ℝ) (h0 : 0 ≤ coord14) (h1 : 0 ≤ coord24) :
    VS.lorentz_deltaRapidityPhi.k_rhophi_theta_tau_rhophi_eta_tau coord11 coord12 coord13 coord14 coord21 coord22 coord23 coord24 = VR.lorentz_deltaRapidityPhi.k_rhophi_theta_tau_rhophi_eta_tau coord11 coord12 coord13 coord14 coord21 coord22 coord23 coord24 := by
  simp only [VS.lorentz_deltaRapidityPhi.k_rhophi_theta_tau_rhophi_eta_tau, VR.lorentz_deltaRapidityPhi.k_rhophi_theta_tau_rhophi_eta_tau, c08_lorentz_deltaRapidityPhi2_k_rhophi_theta_tau_rhophi_eta_tau, h0, h1, VR.P.nanToNum_eq]

theorem c08_lorentz_deltaRapidityPhi_k_rhophi_theta_tau_rhophi_theta_t (coord11 coord12 coord13 coord14 coord21 coord22 coord23 coord24 : ℝ) (h0 : 0 ≤ coord14) :
    VS.lorentz_deltaRapidityPhi.k_rhophi_theta_tau_rhophi_theta_t coord11 coord12 coord13 coord14 coord21 coord22 coord23 coord24 = VR.lorentz_deltaRapidityPhi.k_rhophi_theta_tau_rhophi_theta_t coord11 coord12 coord13 coord14 coord21 coord22 coord23 coord24 := by
  simp only [VS.lorentz_deltaRapidityPhi.k_rhophi_theta_tau_rhophi_theta_t, VR.lorentz_deltaRapidityPhi.k_rhophi_theta_tau_rhophi_theta_t, c08_lorentz_deltaRapidityPhi2_k_rhophi_theta_tau_rhophi_theta_t, h0, VR.P.nanToNum_eq]

theorem c08_lorentz_deltaRapidityPhi_k_rhophi_theta_tau_rhophi_theta_tau (coord11 coord12 coord13 coord14 coord21 coord22 coord23 coord24 : ℝ) (h0 : 0 ≤ coord14) (h1 : 0 ≤ coord24) :
    VS.lorentz_deltaRapidityPhi.k_rhophi_theta_tau_rhophi_theta_tau coord11 coord12 coord13 coord14 coord21 coord22 coord23 coord24 = VR.lorentz_deltaRapidityPhi.k_rhophi_theta_tau_rhophi_theta_tau coord11 coord12 coord13 coord14 coord21 coord22 coord23 coord24 := by
  simp only [VS.lorentz_deltaRapidityPhi.k_rhophi_theta_tau_rhophi_theta_tau, VR.lorentz_deltaRapidityPhi.k_rhophi_theta_tau_rhophi_theta_tau, c08_lorentz_deltaRapidityPhi2_k_rhophi_theta_tau_rhophi_theta_tau, h0, h1, VR.P.nanToNum_eq]

theorem c08_lorentz_deltaRapidityPhi_k_rhophi_theta_tau_rhophi_z_t (coord11 coord12 coord13 coord14 coord21 coord22 coord23 coord24 : ℝ) (h0 : 0 ≤ coord14) :
    VS.lorentz_deltaRapidityPhi.k_rhophi_theta_tau_rhophi_z_t coord11 coord12 coord13 coord14 coord21 coord22 coord23 coord24 = VR.lorentz_deltaRapidityPhi.k_rhophi_theta_tau_rhophi_z_t coord11 coord12 coord13 coord14 coord21 coord22 coord23 coord24 := by
  simp only [VS.lorentz_deltaRapidityPhi.k_rhophi_theta_tau_rhophi_z_t, VR.lorentz_deltaRapidityPhi.k_rhophi_theta_tau_rhophi_z_t, c08_lorentz_deltaRapidityPhi2_k_rhophi_theta_tau_rhophi_z_t, h0, VR.P.nanToNum_eq]

theorem c08_lorentz_deltaRapidityPhi_k_rhophi_theta_tau_rhophi_z_tau (coord11 coord12 coord13 coord14 coord21 coord22 coord23 coord24 : ℝ) (h0 : 0 ≤ coord14) (h1 : 0 ≤ coord24) :
    VS.lorentz_deltaRapidityPhi.k_rhophi_theta_tau_rhophi_z_tau coord11 coord12 coord13 coord14 coord21 coord22 coord23 coord24 = VR.lorentz_deltaRapidityPhi.k_rhophi_theta_tau_rhophi_z_tau coord11 coord12 coord13 coord14 coord21 coord22 coord23 coord24 := by
  simp only [VS.lorentz_deltaRapidityPhi.k_rhophi_theta_tau_rhophi_z_tau, VR.lorentz_deltaRapidityPhi.k_rhophi_theta_tau_rhophi_z_tau, c08_lorentz_deltaRapidityPhi2_k_rhophi_theta_tau_rhophi_z_tau, h0, h1, VR.P.nanToNum_eq]

theorem c08_lorentz_deltaRapidityPhi_k_rhophi_theta_tau_xy_eta_t (coord11 coord12 coord13 coord14 coord21 coord22 coord23 coord24 : ℝ) (h0 : 0 ≤ coord14) :
    VS.lorentz_deltaRapidityPhi.k_rhophi_theta_tau_xy_eta_t coord11 coord12 coord13 coord14 coord21 coord22 coord23 coord24 = VR.lorentz_deltaRapidityPhi.k_rhophi_theta_tau_xy_eta_t coord11 coord12 coord13 coord14 coord21 coord22 coord23 coord24 := by
  simp only [VS.lorentz_deltaRapidityPhi.k_rhophi_theta_tau_xy_eta_t, VR.lorentz_deltaRapidityPhi.k_rhophi_theta_tau_xy_eta_t, c08_lorentz_deltaRapidityPhi2_k_rhophi_theta_tau_xy_eta_t, h0, VR.P.nanToNum_eq]

theorem c08_lorentz_deltaRapidityPhi_k_rhophi_theta_tau_xy_eta_tau (coord11 coord12 coord13 coord14 coord21 coord22 coord23 coord24 : ℝ) (h0 : 0 ≤ coord14) (h1 : 0 ≤ coord24) :
    VS.lorentz_deltaRapidityPhi.k_rhophi_theta_tau_xy_eta_tau coord11 coord12 coord13 coord14 coord21 coord22 coord23 coord24 = VR.lorentz_deltaRapidityPhi.k_rhophi_theta_tau_xy_eta_tau coord11 coord12 coord13 coord14 coord21 coord22 coord23 coord24 := by
  simp only [VS.lorentz_deltaRapidityPhi.k_rhophi_theta_tau_xy_eta_tau, VR.lorentz_deltaRapidityPhi.k_rhophi_theta_tau_xy_eta_tau, c08_lorentz_deltaRapidityPhi2_k_rhophi_theta_tau_xy_eta_tau, h0, h1, VR.P.nanToNum_eq]

theorem c08_lorentz_deltaRapidityPhi_k_rhophi_theta_tau_xy_theta_t (coord11 coord12 coord13 coord14 coord21 coord22 coord23 coord24 : ℝ) (h0 : 0 ≤ coord14) :
    VS.lorentz_deltaRapidityPhi.k_rhophi_theta_tau_xy_theta_t coord11 coord12 coord13 coord14 coord21 coord22 coord23 coord24 = VR.lorentz_deltaRapidityPhi.k_rhophi_theta_tau_xy_theta_t coord11 coord12 coord13 coord14 coord21 coord22 coord23 coord24 := by
  simp only [VS.lorentz_deltaRapidityPhi.k_rhophi_theta_tau_xy_theta_t, VR.lorentz_deltaRapidityPhi.k_rhophi_theta_tau_xy_theta_t, c08_lorentz_deltaRapidityPhi2_k_rhophi_theta_tau_xy_theta_t, h0, VR.P.nanToNum_eq]

theorem c08_lorentz_deltaRapidityPhi_k_rhophi_theta_tau_xy_theta_tau (coord11 coord12 coord13 coord14 coord21 coord22 coord23 coord24 : ℝ) (h0 : 0 ≤ coord14) (h1 : 0 ≤ coord24) :
    VS.lorentz_deltaRapidityPhi.k_rhophi_theta_tau_xy_theta_tau coord11 coord12 coord13 coord14 coord21 coord22 coord23 coord24 = VR.lorentz_deltaRapidityPhi.k_rhophi_theta_tau_xy_theta_tau coord11 coord12 coord13 coord14 coord21 coord22 coord23 coord24 := by
  simp only [VS.lorentz_deltaRapidityPhi.k_rhophi_theta_tau_xy_theta_tau, VR.lorentz_deltaRapidityPhi.k_rhophi_theta_tau_xy_theta_tau, c08_lorentz_deltaRapidityPhi2_k_rhophi_theta_tau_xy_theta_tau, h0, h1, VR.P.nanToNum_eq]

theorem c08_lorentz_deltaRapidityPhi_k_rhophi_theta_tau_xy_z_t (coord11 coord12 coord13 coord14 coord21 coord22 coord23 coord24 : ℝ) (h0 : 0 ≤ coord14) :
    VS.lorentz_deltaRapidityPhi.k_rhophi_theta_tau_xy_z_t coord11 coord12 coord13 coord14 coord21 coord22 coord23 coord24 = VR.lorentz_deltaRapidityPhi.k_rhophi_theta_tau_xy_z_t coord11 coord12 coord13 coord14 coord21 coord22 coord23 coord24 := by
  simp only [VS.lorentz_deltaRapidityPhi.k_rhophi_theta_tau_xy_z_t, VR.lorentz_deltaRapidityPhi.k_rhophi_theta_tau_xy_z_t, c08_lorentz_deltaRapidityPhi2_k_rhophi_theta_tau_xy_z_t, h0, VR.P.nanToNum_eq]

theorem c08_lorentz_deltaRapidityPhi_k_rhophi_theta_tau_xy_z_tau (coord11 coord12 coord13 coord14 coord21 coord22 coord23 coord24 : ℝ) (h0 : 0 ≤ coord14) (h1 : 0 ≤ coord24) :
    VS.lorentz_deltaRapidityPhi.k_rhophi_theta_tau_xy_z_tau coord11 coord12 coord13 coord14 coord21 coord22 coord23 coord24 = VR.lorentz_deltaRapidityPhi.k_rhophi_theta_tau_xy_z_tau coord11 coord12 coord13 coord14 coord21 coord22 coord23 coord24 := by
  simp only [VS.lorentz_deltaRapidityPhi.k_rhophi_theta_tau_xy_z_tau, VR.lorentz_deltaRapidityPhi.k_rhophi_theta_tau_xy_z_tau, c08_lorentz_deltaRapidityPhi2_k_rhophi_theta_tau_xy_z_tau, h0, h1, VR.P.nanToNum_eq]

theorem c08_lorentz_deltaRapidityPhi_k_rhophi_z_t_rhophi_eta_tau (coord11 coord12 coord13 coord14 coord21 coord22 coord23 coord24 : ℝ) (h0 : 0 ≤ coord24) :
    VS.lorentz_deltaRapidityPhi.k_rhophi_z_t_rhophi_eta_tau coord11 coord12 coord13 coord14 coord21 coord22 coord23 coord24 = VR.lorentz_deltaRapidityPhi.k_rhophi_z_t_rhophi_eta_tau coord11 coord12 coord13 coord14 coord21 coord22 coord23 coord24 := by
  simp only [VS.lorentz_deltaRapidityPhi.k_rhophi_z_t_rhophi_eta_tau, VR.lorentz_deltaRapidityPhi.k_rhophi_z_t_rhophi_eta_tau, c08_lorentz_deltaRapidityPhi2_k_rhophi_z_t_rhophi_eta_tau, h0, VR.P.nanToNum_eq]

theorem c08_lorentz_deltaRapidityPhi_k_rhophi_z_t_rhophi_theta_tau (coord11 coord12 coord13 coord14 coord21 coord22 coord23 coord24 : ℝ) (h0 : 0 ≤ coord24) :
    VS.lorentz_deltaRapidityPhi.k_rhophi_z_t_rhophi_theta_tau coord11 coord12 coord13 coord14 coord21 coord22 coord23 coord24 = VR.lorentz_deltaRapidityPhi.k_rhophi_z_t_rhophi_theta_tau coord11 coord12 coord13 coord14 coord21 coord22 coord23 coord24 := by
  simp only [VS.lorentz_deltaRapidityPhi.k_rhophi_z_t_rhophi_theta_tau, VR.lorentz_deltaRapidityPhi.k_rhophi_z_t_rhophi_theta_tau, c08_lorentz_deltaRapidityPhi2_k_rhophi_z_t_rhophi_theta_tau, h0, VR.P.nanToNum_eq]

theorem c08_lorentz_deltaRapidityPhi_k_rhophi_z_t_rhophi_z_tau (coord11 coord12 coord13 coord14 coord21 coord22 coord23 coord24 : ℝ) (h0 : 0 ≤ coord24) :
    VS.lorentz_deltaRapidityPhi.k_rhophi_z_t_rhophi_z_tau coord11 coord12 coord13 coord14 coord21 coord22 coord23 coord24 = VR.lorentz_deltaRapidityPhi.k_rhophi_z_t_rhophi_z_tau coord11 coord12 coord13 coord14 coord21 coord22 coord23 coord24 := by
  simp only [VS.lorentz_deltaRapidityPhi.k_rhophi_z_t_rhophi_z_tau, VR.lorentz_deltaRapidityPhi.k_rhophi_z_t_rhophi_z_tau, c08_lorentz_deltaRapidityPhi2_k_rhophi_z_t_rhophi_z_tau, h0, VR.P.nanToNum_eq]

theorem c08_lorentz_deltaRapidityPhi_k_rhophi_z_t_xy_eta_tau (coord11 coord12 coord13 coord14 coord21 coord22 coord23 coord24 : ℝ) (h0 : 0 ≤ coord24) :
    VS.lorentz_deltaRapidityPhi.k_rhophi_z_t_xy_eta_tau coord11 coord12 coord13 coord14 coord21 coord22 coord23 coord24 = VR.lorentz_deltaRapidityPhi.k_rhophi_z_t_xy_eta_tau coord11 coord12 coord13 coord14 coord21 coord22 coord23 coord24 := by
  simp only [VS.lorentz_deltaRapidityPhi.k_rhophi_z_t_xy_eta_tau, VR.lorentz_deltaRapidityPhi.k_rhophi_z_t_xy_eta_tau, c08_lorentz_deltaRapidityPhi2_k_rhophi_z_t_xy_eta_tau, h0, VR.P.nanToNum_eq]

theorem c08_lorentz_deltaRapidityPhi_k_rhophi_z_t_xy_theta_tau (coord11 coord12 coord13 coord14 coord21 coord22 coord23 coord24 : ℝ) (h0 : 0 ≤ coord24) :
    VS.lorentz_deltaRapidityPhi.k_rhophi_z_t_xy_theta_tau coord11 coord12 coord13 coord14 coord21 coord22 coord23 coord24 = VR.lorentz_deltaRapidityPhi.k_rhophi_z_t_xy_theta_tau coord11 coord12 coord13 coord14 coord21 coord22 coord23 coord24 := by
  simp only [VS.lorentz_deltaRapidityPhi.k_rhophi_z_t_xy_theta_tau, VR.lorentz_deltaRapidityPhi.k_rhophi_z_t_xy_theta_tau, c08_lorentz_deltaRapidityPhi2_k_rhophi_z_t_xy_theta_tau, h0, VR.P.nanToNum_eq]

theorem c08_lorentz_deltaRapidityPhi_k_rhophi_z_t_xy_z_tau (coord11 coord12 coord13 coord14 coord21 coord22 coord23 coord24 : ℝ) (h0 : 0 ≤ coord24) :
    VS.lorentz_deltaRapidityPhi.k_rhophi_z_t_xy_z_tau coord11 coord12 coord13 coord14 coord21 coord22 coord23 coord24 = VR.lorentz_deltaRapidityPhi.k_rhophi_z_t_xy_z_tau coord11 coord12 coord13 coord14 coord21 coord22 coord23 coord24 := by
  simp only [VS.lorentz_deltaRapidityPhi.k_rhophi_z_t_xy_z_tau, VR.lorentz_deltaRapidityPhi.k_rhophi_z_t_xy_z_tau, c08_lorentz_deltaRapidityPhi2_k_rhophi_z_t_xy_z_tau, h0, VR.P.nanToNum_eq]

theorem c08_lorentz_deltaRapidityPhi_k_rhophi_z_tau_rhophi_eta_t (coord11 coord12 coord13 coord14 coord21 coord22 coord23 coord24 : ℝ) (h0 : 0 ≤ coord14) :
    VS.lorentz_deltaRapidityPhi.k_rhophi_z_tau_rhophi_eta_t coord11 coord12 coord13 coord14 coord21 coord22 coord23 coord24 = VR.lorentz_deltaRapidityPhi.k_rhophi_z_tau_rhophi_eta_t coord11 coord12 coord13 coord14 coord21 coord22 coord23 coord24 := by
  simp only [VS.lorentz_deltaRapidityPhi.k_rhophi_z_tau_rhophi_eta_t, VR.lorentz_deltaRapidityPhi.k_rhophi_z_tau_rhophi_eta_t, c08_lorentz_deltaRapidityPhi2_k_rhophi_z_tau_rhophi_eta_t, h0, VR.P.nanToNum_eq]

theorem c08_lorentz_deltaRapidityPhi_k_rhophi_z_tau_rhophi_eta_tau (coord11 coord12 coord13 coord14 coord21 coord22 coord23 coord24 : ℝ) (h0 : 0 ≤ coord14) (h1 : 0 ≤ coord24) :
    VS.lorentz_deltaRapidityPhi.k_rhophi_z_tau_rhophi_eta_tau coord11 coord12 coord13 coord14 coord21 coord22 coord23 coord24 = VR.lorentz_deltaRapidityPhi.k_rhophi_z_tau_rhophi_eta_tau coord11 coord12 coord13 coord14 coord21 coord22 coord23 coord24 := by
  simp only [VS.lorentz_deltaRapidityPhi.k_rhophi_z_tau_rhophi_eta_tau, VR.lorentz_deltaRapidityPhi.k_rhophi_z_tau_rhophi_eta_tau, c08_lorentz_deltaRapidityPhi2_k_rhophi_z_tau_rhophi_eta_tau, h0, h1, VR.P.nanToNum_eq]

theorem c08_lorentz_deltaRapidityPhi_k_rhophi_z_tau_rhophi_theta_t (coord11 coord12 coord13 coord14 coord21 coord22 coord23 coord24 : ℝ) (h0 : 0 ≤ coord14) :
    VS.lorentz_deltaRapidityPhi.k_rhophi_z_tau_rhophi_theta_t coord11 coord12 coord13 coord14 coord21 coord22 coord23 coord24 = VR.lorentz_deltaRapidityPhi.k_rhophi_z_tau_rhophi_theta_t coord11 coord12 coord13 coord14 coord21 coord22 coord23 coord24 := by
  simp only [VS.lorentz_deltaRapidityPhi.k_rhophi_z_tau_rhophi_theta_t, VR.lorentz_deltaRapidityPhi.k_rhophi_z_tau_rhophi_theta_t, c08_lorentz_deltaRapidityPhi2_k_rhophi_z_tau_rhophi_theta_t, h0, VR.P.nanToNum_eq]

theorem c08_lorentz_deltaRapidityPhi_k_rhophi_z_tau_rhophi_theta_tau (coord11 coord12 coord13 coord14 coord21 coord22 coord23 coord24 : ℝ) (h0 : 0 ≤ coord14) (h1 : 0 ≤ coord24) :
    VS.lorentz_deltaRapidityPhi.k_rhophi_z_tau_rhophi_theta_tau coord11 coord12 coord13 coord14 coord21 coord22 coord23 coord24 = VR.lorentz_deltaRapidityPhi.k_rhophi_z_tau_rhophi_theta_tau coord11 coord12 coord13 coord14 coord21 coord22 coord23 coord24 := by
  simp only [VS.lorentz_deltaRapidityPhi.k_rhophi_z_tau_rhophi_theta_tau, VR.lorentz_deltaRapidityPhi.k_rhophi_z_tau_rhophi_theta_tau, c08_lorentz_deltaRapidityPhi2_k_rhophi_z_tau_rhophi_theta_tau, h0, h1, VR.P.nanToNum_eq]

theorem c08_lorentz_deltaRapidityPhi_k_rhophi_z_tau_rhophi_z_t (coord11 coord12 coord13 coord14 coord21 coord22 coord23 coord24 : ℝ) (h0 : 0 ≤ coord14) :
    VS.lorentz_deltaRapidityPhi.k_rhophi_z_tau_rhophi_z_t coord11 coord12 coord13 coord14 coord21 coord22 coord23 coord24 = VR.lorentz_deltaRapidityPhi.k_rhophi_z_tau_rhophi_z_t coord11 coord12 coord13 coord14 coord21 coord22 coord23 coord24 := by
  simp only [VS.lorentz_deltaRapidityPhi.k_rhophi_z_tau_rhophi_z_t, VR.lorentz_deltaRapidityPhi.k_rhophi_z_tau_rhophi_z_t, c08_lorentz_deltaRapidityPhi2_k_rhophi_z_tau_rhophi_z_t, h0, VR.P.nanToNum_eq]

theorem c08_lorentz_deltaRapidityPhi_k_rhophi_z_tau_rhophi_z_tau (coord11 coord12 coord13 coord14 coord21 coord22 coord23 coord24 : ℝ) (h0 : 0 ≤ coord14) (h1 : 0 ≤ coord24) :
    VS.lorentz_deltaRapidityPhi.k_rhophi_z_tau_rhophi_z_tau coord11 coord12 coord13 coord14 coord21 coord22 coord23 coord24 = VR.lorentz_deltaRapidityPhi.k_rhophi_z_tau_rhophi_z_tau coord11 coord12 coord13 coord14 coord21 coord22 coord23 coord24 := by
  simp only [VS.lorentz_deltaRapidityPhi.k_rhophi_z_tau_rhophi_z_tau, VR.lorentz_deltaRapidityPhi.k_rhophi_z_tau_rhophi_z_tau, c08_lorentz_deltaRapidityPhi2_k_rhophi_z_tau_rhophi_z_tau, h0, h1, VR.P.nanToNum_eq]

theorem c08_lorentz_deltaRapidityPhi_k_rhophi_z_tau_xy_eta_t (coord11 coord12 coord13 coord14 coord21 coord22 coord23 coord24 : ℝ) (h0 : 0 ≤ coord14) :
    VS.lorentz_deltaRapidityPhi.k_rhophi_z_tau_xy_eta_t coord11 coord12 coord13 coord14 coord21 coord22 coord23 coord24 = VR.lorentz_deltaRapidityPhi.k_rhophi_z_tau_xy_eta_t coord11 coord12 coord13 coord14 coord21 coord22 coord23 coord24 := by
  simp only [VS.lorentz_deltaRapidityPhi.k_rhophi_z_tau_xy_eta_t, VR.lorentz_deltaRapidityPhi.k_rhophi_z_tau_xy_eta_t, c08_lorentz_deltaRapidityPhi2_k_rhophi_z_tau_xy_eta_t, h0, VR.P.nanToNum_eq]

theorem c08_lorentz_deltaRapidityPhi_k_rhophi_z_tau_xy_eta_tau (coord11 coord12 coord13 coord14 coord21 coord22 coord23 coord24 : ℝ) (h0 : 0 ≤ coord14) (h1 : 0 ≤ coord24) :
    VS.lorentz_deltaRapidityPhi.k_rhophi_z_tau_xy_eta_tau coord11 coord12 coord13 coord14 coord21 coord22 coord23 coord24 = VR.lorentz_deltaRapidityPhi.k_rhophi_z_tau_xy_eta_tau coord11 coord12 coord13 coord14 coord21 coord22 coord23 coord24 := by
  simp only [VS.lorentz_deltaRapidityPhi.k_rhophi_z_tau_xy_eta_tau, VR.lorentz_deltaRapidityPhi.k_rhophi_z_tau_xy_eta_tau, c08_lorentz_deltaRapidityPhi2_k_rhophi_z_tau_xy_eta_tau, h0, h1, VR.P.nanToNum_eq]

theorem c08_lorentz_deltaRapidityPhi_k_rhophi_z_tau_xy_theta_t (coord11 coord12 coord13 coord14 coord21 coord22 coord23 coord24 : ℝ) (h0 : 0 ≤ coord14) :
    VS.lorentz_deltaRapidityPhi.k_rhophi_z_tau_xy_theta_t coord11 coord12 coord13 coord14 coord21 coord22 coord23 coord24 = VR.lorentz_deltaRapidityPhi.k_rhophi_z_tau_xy_theta_t coord11 coord12 coord13 coord14 coord21 coord22 coord23 coord24 := by
  simp only [VS.lorentz_deltaRapidityPhi.k_rhophi_z_tau_xy_theta_t, VR.lorentz_deltaRapidityPhi.k_rhophi_z_tau_xy_theta_t, c08_lorentz_deltaRapidityPhi2_k_rhophi_z_tau_xy_theta_t, h0, VR.P.nanToNum_eq]

theorem c08_lorentz_deltaRapidityPhi_k_rhophi_z_tau_xy_theta_tau (coord11 coord12 coord13 coord14 coord21 coord22 coord23 coord24 : ℝ) (h0 : 0 ≤ coord14) (h1 : 0 ≤ coord24) :
    VS.lorentz_deltaRapidityPhi.k_rhophi_z_tau_xy_theta_tau coord11 coord12 coord13 coord14 coord21 coord22 coord23 coord24 = VR.lorentz_deltaRapidityPhi.k_rhophi_z_tau_xy_theta_tau coord11 coord12 coord13 coord14 coord21 coord22 coord23 coord24 := by
  simp only [VS.lorentz_deltaRapidityPhi.k_rhophi_z_tau_xy_theta_tau, VR.lorentz_deltaRapidityPhi.k_rhophi_z_tau_xy_theta_tau, c08_lorentz_deltaRapidityPhi2_k_rhophi_z_tau_xy_theta_tau, h0, h1, VR.P.nanToNum_eq]

theorem c08_lorentz_deltaRapidityPhi_k_rhophi_z_tau_xy_z_t (coord11 coord12 coord13 coord14 coord21 coord22 coord23 coord24 : ℝ) (h0 : 0 ≤ coord14) :
    VS.lorentz_deltaRapidityPhi.k_rhophi_z_tau_xy_z_t coord11 coord12 coord13 coord14 coord21 coord22 coord23 coord24 = VR.lorentz_deltaRapidityPhi.k_rhophi_z_tau_xy_z_t coord11 coord12 coord13 coord14 coord21 coord22 coord23 coord24 := by
  simp only [VS.lorentz_deltaRapidityPhi.k_rhophi_z_tau_xy_z_t, VR.lorentz_deltaRapidityPhi.k_rhophi_z_tau_xy_z_t, c08_lorentz_deltaRapidityPhi2_k_rhophi_z_tau_xy_z_t, h0, VR.P.nanToNum_eq]

theorem c08_lorentz_deltaRapidityPhi_k_rhophi_z_tau_xy_z_tau (coord11 coord12 coord13 coord14 coord21 coord22 coord23 coord24 : ℝ) (h0 : 0 ≤ coord14) (h1 : 0 ≤ coord24) :
    VS.lorentz_deltaRapidityPhi.k_rhophi_z_tau_xy_z_tau coord11 coord12 coord13 coord14 coord21 coord22 coord23 coord24 = VR.lorentz_deltaRapidityPhi.k_rhophi_z_tau_xy_z_tau coord11 coord12 coord13 coord14 coord21 coord22 coord23 coord24 := by
  simp only [VS.lorentz_deltaRapidityPhi.k_rhophi_z_tau_xy_z_tau, VR.lorentz_deltaRapidityPhi.k_rhophi_z_tau_xy_z_tau, c08_lorentz_deltaRapidityPhi2_k_rhophi_z_tau_xy_z_tau, h0, h1, VR.P.nanToNum_eq]

theorem c08_lorentz_deltaRapidityPhi_k_xy_eta_t_rhophi_eta_tau (coord11 coord12 coord13 coord14 coord21 coord22 coord23 coord24 : ℝ) (h0 : 0 ≤ coord24) :
    VS.lorentz_deltaRapidityPhi.k_xy_eta_t_rhophi_eta_tau coord11 coord12 coord13 coord14 coord21 coord22 coord23 coord24 = VR.lorentz_deltaRapidityPhi.k_xy_eta_t_rhophi_eta_tau coord11 coord12 coord13 coord14 coord21 coord22 coord23 coord24 := by
  simp only [VS.lorentz_deltaRapidityPhi.k_xy_eta_t_rhophi_eta_tau, VR.lorentz_deltaRapidityPhi.k_xy_eta_t_rhophi_eta_tau, c08_lorentz_deltaRapidityPhi2_k_xy_eta_t_rhophi_eta_tau, h0, VR.P.nanToNum_eq]

theorem c08_lorentz_deltaRapidityPhi_k_xy_eta_t_rhophi_theta_tau (coord11 coord12 coord13 coord14 coord21 coord22 coord23 coord24 : ℝ) (h0 : 0 ≤ coord24) :
    VS.lorentz_deltaRapidityPhi.k_xy_eta_t_rhophi_theta_tau coord11 coord12 coord13 coord14 coord21 coord22 coord23 coord24 = VR.lorentz_deltaRapidityPhi.k_xy_eta_t_rhophi_theta_tau coord11 coord12 coord13 coord14 coord21 coord22 coord23 coord24 := by
  simp only [VS.lorentz_deltaRapidityPhi.k_xy_eta_t_rhophi_theta_tau, VR.lorentz_deltaRapidityPhi.k_xy_eta_t_rhophi_theta_tau, c08_lorentz_deltaRapidityPhi2_k_xy_eta_t_rhophi_theta_tau, h0, VR.P.nanToNum_eq]

theorem c08_lorentz_deltaRapidityPhi_k_xy_eta_t_rhophi_z_tau (coord11 coord12 coord13 coord14 coord21 coord22 coord23 coord24 : ℝ) (h0 : 0 ≤ coord24) :
    VS.lorentz_deltaRapidityPhi.k_xy_eta_t_rhophi_z_tau coord11 coord12 coord13 coord14 coord21 coord22 coord23 coord24 = VR.lorentz_deltaRapidityPhi.k_xy_eta_t_rhophi_z_tau coord11 coord12 coord13 coord14 coord21 coord22 coord23 coord24 := by
  simp only [VS.lorentz_deltaRapidityPhi.k_xy_eta_t_rhophi_z_tau, VR.lorentz_deltaRapidityPhi.k_xy_eta_t_rhophi_z_tau, c08_lorentz_deltaRapidityPhi2_k_xy_eta_t_rhophi_z_tau, h0, VR.P.nanToNum_eq]

theorem c08_lorentz_deltaRapidityPhi_k_xy_eta_t_xy_eta_tau (coord11 coord12 coord13 coord14 coord21 coord22 coord23 coord24 : ℝ) (h0 : 0 ≤ coord24) :
    VS.lorentz_deltaRapidityPhi.k_xy_eta_t_xy_eta_tau coord11 coord12 coord13 coord14 coord21 coord22 coord23 coord24 = VR.lorentz_deltaRapidityPhi.k_xy_eta_t_xy_eta_tau coord11 coord12 coord13 coord14 coord21 coord22 coord23 coord24 := by
  simp only [VS.lorentz_deltaRapidityPhi.k_xy_eta_t_xy_eta_tau, VR.lorentz_deltaRapidityPhi.k_xy_eta_t_xy_eta_tau, c08_lorentz_deltaRapidityPhi2_k_xy_eta_t_xy_eta_tau, h0, VR.P.nanToNum_eq]

theorem c08_lorentz_deltaRapidityPhi_k_xy_eta_t_xy_theta_tau (coord11 coord12 coord13 coord14 coord21 coord22 coord23 coord24 : ℝ) (h0 : 0 ≤ coord24) :
    VS.lorentz_deltaRapidityPhi.k_xy_eta_t_xy_theta_tau coord11 coord12 coord13 coord14 coord21 coord22 coord23 coord24 = VR.lorentz_deltaRapidityPhi.k_xy_eta_t_xy_theta_tau coord11 coord12 coord13 coord14 coord21 coord22 coord23 coord24 := by
  simp only [VS.lorentz_deltaRapidityPhi.k_xy_eta_t_xy_theta_tau, VR.lorentz_deltaRapidityPhi.k_xy_eta_t_xy_theta_tau, c08_lorentz_deltaRapidityPhi2_k_xy_eta_t_xy_theta_tau, h0, VR.P.nanToNum_eq]

theorem c08_lorentz_deltaRapidityPhi_k_xy_eta_t_xy_z_tau (coord11 coord12 coord13 coord14 coord21 coord22 coord23 coord24 : ℝ) (h0 : 0 ≤ coord24) :
    VS.lorentz_deltaRapidityPhi.k_xy_eta_t_xy_z_tau coord11 coord12 coord13 coord14 coord21 coord22 coord23 coord24 = VR.lorentz_deltaRapidityPhi.k_xy_eta_t_xy_z_tau coord11 coord12 coord13 coord14 coord21 coord22 coord23 coord24 := by
  simp only [VS.lorentz_deltaRapidityPhi.k_xy_eta_t_xy_z_tau, VR.lorentz_deltaRapidityPhi.k_xy_eta_t_xy_z_tau, c08_lorentz_deltaRapidityPhi2_k_xy_eta_t_xy_z_tau, h0, VR.P.nanToNum_eq]

theorem c08_lorentz_deltaRapidityPhi_k_xy_eta_tau_rhophi_eta_t (coord11 coord12 coord13 coord14 coord21 coord22 coord23 coord24 : ℝ) (h0 : 0 ≤ coord14) :
    VS.lorentz_deltaRapidityPhi.k_xy_eta_tau_rhophi_eta_t coord11 coord12 coord13 coord14 coord21 coord22 coord23 coord24 = VR.lorentz_deltaRapidityPhi.k_xy_eta_tau_rhophi_eta_t coord11 coord12 coord13 coord14 coord21 coord22 coord23 coord24 := by
  simp only [VS.lorentz_deltaRapidityPhi.k_xy_eta_tau_rhophi_eta_t, VR.lorentz_deltaRapidityPhi.k_xy_eta_tau_rhophi_eta_t, c08_lorentz_deltaRapidityPhi2_k_xy_eta_tau_rhophi_eta_t, h0, VR.P.nanToNum_eq]

theorem c08_lorentz_deltaRapidityPhi_k_xy_eta_tau_rhophi_eta_tau (coord11 coord12 coord13 coord14 coord21 coord22 coord23 coord24 : ℝ) (h0 : 0 ≤ coord14) (h1 : 0 ≤ coord24) :
    VS.lorentz_deltaRapidityPhi.k_xy_eta_tau_rhophi_eta_tau coord11 coord12 coord13 coord14 coord21 coord22 coord23 coord24 = VR.lorentz_deltaRapidityPhi.k_xy_eta_tau_rhophi_eta_tau coord11 coord12 coord13 coord14 coord21 coord22 coord23 coord24 := by
  simp only [VS.lorentz_deltaRapidityPhi.k_xy_eta_tau_rhophi_eta_tau, VR.lorentz_deltaRapidityPhi.k_xy_eta_tau_rhophi_eta_tau, c08_lorentz_deltaRapidityPhi2_k_xy_eta_tau_rhophi_eta_tau, h0, h1, VR.P.nanToNum_eq]

theorem c08_lorentz_deltaRapidityPhi_k_xy_eta_tau_rhophi_theta_t (coord11 coord12 coord13 coord14 coord21 coord22 coord23 coord24 : ℝ) (h0 : 0 ≤ coord14) :
    VS.lorentz_deltaRapidityPhi.k_xy_eta_tau_rhophi_theta_t coord11 coord12 coord13 coord14 coord21 coord22 coord23 coord24 = VR.lorentz_deltaRapidityPhi.k_xy_eta_tau_rhophi_theta_t coord11 coord12 coord13 coord14 coord21 coord22 coord23 coord24 := by
  simp only [VS.lorentz_deltaRapidityPhi.k_xy_eta_tau_rhophi_theta_t, VR.lorentz_deltaRapidityPhi.k_xy_eta_tau_rhophi_theta_t, c08_lorentz_deltaRapidityPhi2_k_xy_eta_tau_rhophi_theta_t, h0, VR.P.nanToNum_eq]

theorem c08_lorentz_deltaRapidityPhi_k_xy_eta_tau_rhophi_theta_tau (coord11 coord12 coord13 coord14 coord21 coord22 coord23 coord24 : ℝ) (h0 : 0 ≤ coord14) (h1 : 0 ≤ coord24) :
    VS.lorentz_deltaRapidityPhi.k_xy_eta_tau_rhophi_theta_tau coord11 coord12 coord13 coord14 coord21 coord22 coord23 coord24 = VR.lorentz_deltaRapidityPhi.k_xy_eta_tau_rhophi_theta_tau coord11 coord12 coord13 coord14 coord21 coord22 coord23 coord24 := by
  simp only [VS.lorentz_deltaRapidityPhi.k_xy_eta_tau_rhophi_theta_tau, VR.lorentz_deltaRapidityPhi.k_xy_eta_tau_rhophi_theta_tau, c08_lorentz_deltaRapidityPhi2_k_xy_eta_tau_rhophi_theta_tau, h0, h1, VR.P.nanToNum_eq]

theorem c08_lorentz_deltaRapidityPhi_k_xy_eta_tau_rhophi_z_t (coord11 coord12 coord13 coord14 coord21 coord22 coord23 coord24 : ℝ) (h0 : 0 ≤ coord14) :
    VS.lorentz_deltaRapidityPhi.k_xy_eta_tau_rhophi_z_t coord11 coord12 coord13 coord14 coord21 coord22 coord23 coord24 = VR.lorentz_deltaRapidityPhi.k_xy_eta_tau_rhophi_z_t coord11 coord12 coord13 coord14 coord21 coord22 coord23 coord24 := by
  simp only [VS.lorentz_deltaRapidityPhi.k_xy_eta_tau_rhophi_z_t, VR.lorentz_deltaRapidityPhi.k_xy_eta_tau_rhophi_z_t, c08_lorentz_deltaRapidityPhi2_k_xy_eta_tau_rhophi_z_t, h0, VR.P.nanToNum_eq]

theorem c08_lorentz_deltaRapidityPhi_k_xy_eta_tau_rhophi_z_tau (coord11 coord12 coord13 coord14 coord21 coord22 coord23 coord24 : ℝ) (h0 : 0 ≤ coord14) (h1 : 0 ≤ coord24) :
    VS.lorentz_deltaRapidityPhi.k_xy_eta_tau_rhophi_z_tau coord11 coord12 coord13 coord14 coord21 coord22 coord23 coord24 = VR.lorentz_deltaRapidityPhi.k_xy_eta_tau_rhophi_z_tau coord11 coord12 coord13 coord14 coord21 coord22 coord23 coord24 := by
  simp only [VS.lorentz_deltaRapidityPhi.k_xy_eta_tau_rhophi_z_tau, VR.lorentz_deltaRapidityPhi.k_xy_eta_tau_rhophi_z_tau, c08_lorentz_deltaRapidityPhi2_k_xy_eta_tau_rhophi_z_tau, h0, h1, VR.P.nanToNum_eq]

theorem c08_lorentz_deltaRapidityPhi_k_xy_eta_tau_xy_eta_t (coord11 coord12 coord13 coord14 coord21 coord22 coord23 coord24 : ℝ) (h0 : 0 ≤ coord14) :
    VS.lorentz_deltaRapidityPhi.k_xy_eta_tau_xy_eta_t coord11 coord12 coord13 coord14 coord21 coord22 coord23 coord24 = VR.lorentz_deltaRapidityPhi.k_xy_eta_tau_xy_eta_t coord11 coord12 coord13 coord14 coord21 coord22 coord23 coord24 := by
  simp only [VS.lorentz_deltaRapidityPhi.k_xy_eta_tau_xy_eta_t, VR.lorentz_deltaRapidityPhi.k_xy_eta_tau_xy_eta_t, c08_lorentz_deltaRapidityPhi2_k_xy_eta_tau_xy_eta_t, h0, VR.P.nanToNum_eq]

theorem c08_lorentz_deltaRapidityPhi_k_xy_eta_tau_xy_eta_tau (coord11 coord12 coord13 coord14 coord21 coord22 coord23 coord24 : ℝ) (h0 : 0 ≤ coord14) (h1 : 0 ≤ coord24) :
    VS.lorentz_deltaRapidityPhi.k_xy_eta_tau_xy_eta_tau coord11 coord12 coord13 coord14 coord21 coord22 coord23 coord24 = VR.lorentz_deltaRapidityPhi.k_xy_eta_tau_xy_eta_tau coord11 coord12 coord13 coord14 coord21 coord22 coord23 coord24 := by
  simp only [VS.lorentz_deltaRapidityPhi.k_xy_eta_tau_xy_eta_tau, VR.lorentz_deltaRapidityPhi.k_xy_eta_tau_xy_eta_tau, c08_lorentz_deltaRapidityPhi2_k_xy_eta_tau_xy_eta_tau, h0, h1, VR.P.nanToNum_eq]

theorem c08_lorentz_deltaRapidityPhi_k_xy_eta_tau_xy_theta_t (coord11 coord12 coord13 coord14 coord21 coord22 coord23 coord24 : ℝ) (h0 : 0 ≤ coord14) :
    VS.lorentz_deltaRapidityPhi.k_xy_eta_tau_xy_theta_t coord11 coord12 coord13 coord14 coord21 coord22 coord23 coord24 = VR.lorentz_deltaRapidityPhi.k_xy_eta_tau_xy_theta_t coord11 coord12 coord13 coord14 coord21 coord22 coord23 coord24 := by
  simp only [VS.lorentz_deltaRapidityPhi.k_xy_eta_tau_xy_theta_t, VR.lorentz_deltaRapidityPhi.k_xy_eta_tau_xy_theta_t, c08_lorentz_deltaRapidityPhi2_k_xy_eta_tau_xy_theta_t, h0, VR.P.nanToNum_eq]

theorem c08_lorentz_deltaRapidityPhi_k_xy_eta_tau_xy_theta_tau (coord11 coord12 coord13 coord14 coord21 coord22 coord23 coord24 : ℝ) (h0 : 0 ≤ coord14) (h1 : 0 ≤ coord24) :
    VS.lorentz_deltaRapidityPhi.k_xy_eta_tau_xy_theta_tau coord11 coord12 coord13 coord14 coord21 coord22 coord23 coord24 = VR.lorentz_deltaRapidityPhi.k_xy_eta_tau_xy_theta_tau coord11 coord12 coord13 coord14 coord21 coord22 coord23 coord24 := by
  simp only [VS.lorentz_deltaRapidityPhi.k_xy_eta_tau_xy_theta_tau, VR.lorentz_deltaRapidityPhi.k_xy_eta_tau_xy_theta_tau, c08_lorentz_deltaRapidityPhi2_k_xy_eta_tau_xy_theta_tau, h0, h1, VR.P.nanToNum_eq]

theorem c08_lorentz_deltaRapidityPhi_k_xy_eta_tau_xy_z_t (coord11 coord12 coord13 coord14 coord21 coord22 coord23 coord24 : ℝ) (h0 : 0 ≤ coord14) :
    VS.lorentz_deltaRapidityPhi.k_xy_eta_tau_xy_z_t coord11 coord12 coord13 coord14 coord21 coord22 coord23 coord24 = VR.lorentz_deltaRapidityPhi.k_xy_eta_tau_xy_z_t coord11 coord12 coord13 coord14 coord21 coord22 coord23 coord24 := by
  simp only [VS.lorentz_deltaRapidityPhi.k_xy_eta_tau_xy_z_t, VR.lorentz_deltaRapidityPhi.k_xy_eta_tau_xy_z_t, c08_lorentz_deltaRapidityPhi2_k_xy_eta_tau_xy_z_t, h0, VR.P.nanToNum_eq]

theorem c08_lorentz_deltaRapidityPhi_k_xy_eta_tau_xy_z_tau (coord11 coord12 coord13 coord14 coord21 coord22 coord23 coord24 : ℝ) (h0 : 0 ≤ coord14) (h1 : 0 ≤ coord24) :
    VS.lorentz_deltaRapidityPhi.k_xy_eta_tau_xy_z_tau coord11 coord12 coord13 coord14 coord21 coord22 coord23 coord24 = VR.lorentz_deltaRapidityPhi.k_xy_eta_tau_xy_z_tau coord11 coord12 coord13 coord14 coord21 coord22 coord23 coord24 := by
  simp only [VS.lorentz_deltaRapidityPhi.k_xy_eta_tau_xy_z_tau, VR.lorentz_deltaRapidityPhi.k_xy_eta_tau_xy_z_tau, c08_lorentz_deltaRapidityPhi2_k_xy_eta_tau_xy_z_tau, h0, h1, VR.P.nanToNum_eq]

theorem c08_lorentz_deltaRapidityPhi_k_xy_theta_t_rhophi_eta_tau (coord11 coord12 coord13 coord14 coord21 coord22 coord23 coord24 : ℝ) (h0 : 0 ≤ coord24) :
    VS.lorentz_deltaRapidityPhi.k_xy_theta_t_rhophi_eta_tau coord11 coord12 coord13 coord14 coord21 coord22 coord23 coord24 = VR.lorentz_deltaRapidityPhi.k_xy_theta_t_rhophi_eta_tau coord11 coord12 coord13 coord14 coord21 coord22 coord23 coord24 := by
  simp only [VS.lorentz_deltaRapidityPhi.k_xy_theta_t_rhophi_eta_tau, VR.lorentz_deltaRapidityPhi.k_xy_theta_t_rhophi_eta_tau, c08_lorentz_deltaRapidityPhi2_k_xy_theta_t_rhophi_eta_tau, h0, VR.P.nanToNum_eq]

theorem c08_lorentz_deltaRapidityPhi_k_xy_theta_t_rhophi_theta_tau (coord11 coord12 coord13 coord14 coord21 coord22 coord23 coord24 : ℝ) (h0 : 0 ≤ coord24) :
    VS.lorentz_deltaRapidityPhi.k_xy_theta_t_rhophi_theta_tau coord11 coord12 coord13 coord14 coord21 coord22 coord23 coord24 = VR.lorentz_deltaRapidityPhi.k_xy_theta_t_rhophi_theta_tau coord11 coord12 coord13 coord14 coord21 coord22 coord23 coord24 := by
  simp only [VS.lorentz_deltaRapidityPhi.k_xy_theta_t_rhophi_theta_tau, VR.lorentz_deltaRapidityPhi.k_xy_theta_t_rhophi_theta_tau, c08_lorentz_deltaRapidityPhi2_k_xy_theta_t_rhophi_theta_tau, h0, VR.P.nanToNum_eq]

theorem c08_lorentz_deltaRapidityPhi_k_xy_theta_t_rhophi_z_tau (coord11 coord12 coord13 coord14 coord21 coord22 coord23 coord24 : ℝ) (h0 : 0 ≤ coord24) :
    VS.lorentz_deltaRapidityPhi.k_xy_theta_t_rhophi_z_tau coord11 coord12 coord13 coord14 coord21 coord22 coord23 coord24 = VR.lorentz_deltaRapidityPhi.k_xy_theta_t_rhophi_z_tau coord11 coord12 coord13 coord14 coord21 coord22 coord23 coord24 := by
  simp only [VS.lorentz_deltaRapidityPhi.k_xy_theta_t_rhophi_z_tau, VR.lorentz_deltaRapidityPhi.k_xy_theta_t_rhophi_z_tau, c08_lorentz_deltaRapidityPhi2_k_xy_theta_t_rhophi_z_tau, h0, VR.P.nanToNum_eq]

theorem c08_lorentz_deltaRapidityPhi_k_xy_theta_t_xy_eta_tau (coord11 coord12 coord13 coord14 coord21 coord22 coord23 coord24 : ℝ) (h0 : 0 ≤ coord24) :
    VS.lorentz_deltaRapidityPhi.k_xy_theta_t_xy_eta_tau coord11 coord12 coord13 coord14 coord21 coord22 coord23 coord24 = VR.lorentz_deltaRapidityPhi.k_xy_theta_t_xy_eta_tau coord11 coord12 coord13 coord14 coord21 coord22 coord23 coord24 := by
  simp only [VS.lorentz_deltaRapidityPhi.k_xy_theta_t_xy_eta_tau, VR.lorentz_deltaRapidityPhi.k_xy_theta_t_xy_eta_tau, c08_lorentz_deltaRapidityPhi2_k_xy_theta_t_xy_eta_tau, h0, VR.P.nanToNum_eq]

theorem c08_lorentz_deltaRapidityPhi_k_xy_theta_t_xy_theta_tau (coord11 coord12 coord13 coord14 coord21 coord22 coord23 coord24 : ℝ) (h0 : 0 ≤ coord24) :
    VS.lorentz_deltaRapidityPhi.k_xy_theta_t_xy_theta_tau coord11 coord12 coord13 coord14 coord21 coord22 coord23 coord24 = VR.lorentz_deltaRapidityPhi.k_xy_theta_t_xy_theta_tau coord11 coord12 coord13 coord14 coord21 coord22 coord23 coord24 := by
  simp only [VS.lorentz_deltaRapidityPhi.k_xy_theta_t_xy_theta_tau, VR.lorentz_deltaRapidityPhi.k_xy_theta_t_xy_theta_tau, c08_lorentz_deltaRapidityPhi2_k_xy_theta_t_xy_theta_tau, h0, VR.P.nanToNum_eq]

theorem c08_lorentz_deltaRapidityPhi_k_xy_theta_t_xy_z_tau (coord11 coord12 coord13 coord14 coord21 coord22 coord23 coord24 : ℝ) (h0 : 0 ≤ coord24) :
    VS.lorentz_deltaRapidityPhi.k_xy_theta_t_xy_z_tau coord11 coord12 coord13 coord14 coord21 coord22 coord23 coord24 = VR.lorentz_deltaRapidityPhi.k_xy_theta_t_xy_z_tau coord11 coord12 coord13 coord14 coord21 coord22 coord23 coord24 := by
  simp only [VS.lorentz_deltaRapidityPhi.k_xy_theta_t_xy_z_tau, VR.lorentz_deltaRapidityPhi.k_xy_theta_t_xy_z_tau, c08_lorentz_deltaRapidityPhi2_k_xy_theta_t_xy_z_tau, h0, VR.P.nanToNum_eq]

theorem c08_lorentz_deltaRapidityPhi_k_xy_theta_tau_rhophi_eta_t (coord11 coord12 coord13 coord14 coord21 coord22 coord23 coord24 : ℝ) (h0 : 0 ≤ coord14) :
    VS.lorentz_deltaRapidityPhi.k_xy_theta_tau_rhophi_eta_t coord11 coord12 coord13 coord14 coord21 coord22 coord23 coord24 = VR.lorentz_deltaRapidityPhi.k_xy_theta_tau_rhophi_eta_t coord11 coord12 coord13 coord14 coord21 coord22 coord23 coord24 := by
  simp only [VS.lorentz_deltaRapidityPhi.k_xy_theta_tau_rhophi_eta_t, VR.lorentz_deltaRapidityPhi.k_xy_theta_tau_rhophi_eta_t, c08_lorentz_deltaRapidityPhi2_k_xy_theta_tau_rhophi_eta_t, h0, VR.P.nanToNum_eq]

theorem c08_lorentz_deltaRapidityPhi_k_xy_theta_tau_rhophi_eta_tau (coord11 coord12 coord13 coord14 coord21 coord22 coord23 coord24 : ℝ) (h0 : 0 ≤ coord14) (h1 : 0 ≤ coord24) :
    VS.lorentz_deltaRapidityPhi.k_xy_theta_tau_rhophi_eta_tau coord11 coord12 coord13 coord14 coord21 coord22 coord23 coord24 = VR.lorentz_deltaRapidityPhi.k_xy_theta_tau_rhophi_eta_tau coord11 coord12 coord13 coord14 coord21 coord22 coord23 coord24 := by
  simp only [VS.lorentz_deltaRapidityPhi.k_xy_theta_tau_rhophi_eta_tau, VR.lorentz_deltaRapidityPhi.k_xy_theta_tau_rhophi_eta_tau, c08_lorentz_deltaRapidityPhi2_k_xy_theta_tau_rhophi_eta_tau, h0, h1, VR.P.nanToNum_eq]

theorem c08_lorentz_deltaRapidityPhi_k_xy_theta_tau_rhophi_theta_t (coord11 coord12 coord13 coord14 coord21 coord22 coord23 coord24 : ℝ) (h0 : 0 ≤ coord14) :
    VS.lorentz_deltaRapidityPhi.k_xy_theta_tau_rhophi_theta_t coord11 coord12 coord13 coord14 coord21 coord22 coord23 coord24 = VR.lorentz_deltaRapidityPhi.k_xy_theta_tau_rhophi_theta_t coord11 coord12 coord13 coord14 coord21 coord22 coord23 coord24 := by
  simp only [VS.lorentz_deltaRapidityPhi.k_xy_theta_tau_rhophi_theta_t, VR.lorentz_deltaRapidityPhi.k_xy_theta_tau_rhophi_theta_t, c08_lorentz_deltaRapidityPhi2_k_xy_theta_tau_rhophi_theta_t, h0, VR.P.nanToNum_eq]

theorem c08_lorentz_deltaRapidityPhi_k_xy_theta_tau_rhophi_theta_tau (coord11 coord12 coord13 coord14 coord21 coord22 coord23 coord24 : ℝ) (h0 : 0 ≤ coord14) (h1 : 0 ≤ coord24) :
    VS.lorentz_deltaRapidityPhi.k_xy_theta_tau_rhophi_theta_tau coord11 coord12 coord13 coord14 coord21 coord22 coord23 coord24 = VR.lorentz_deltaRapidityPhi.k_xy_theta_tau_rhophi_theta_tau coord11 coord12 coord13 coord14 coord21 coord22 coord23 coord24 := by
  simp only [VS.lorentz_deltaRapidityPhi.k_xy_theta_tau_rhophi_theta_tau, VR.lorentz_deltaRapidityPhi.k_xy_theta_tau_rhophi_theta_tau, c08_lorentz_deltaRapidityPhi2_k_xy_theta_tau_rhophi_theta_tau, h0, h1, VR.P.nanToNum_eq]

theorem c08_lorentz_deltaRapidityPhi_k_xy_theta_tau_rhophi_z_t (coord11 coord12 coord13 coord14 coord21 coord22 coord23 coord24 : ℝ) (h0 : 0 ≤ coord14) :
    VS.lorentz_deltaRapidityPhi.k_xy_theta_tau_rhophi_z_t coord11 coord12 coord13 coord14 coord21 coord22 coord23 coord24 = VR.lorentz_deltaRapidityPhi.k_xy_theta_tau_rhophi_z_t coord11 coord12 coord13 coord14 coord21 coord22 coord23 coord24 := by
  simp only [VS.lorentz_deltaRapidityPhi.k_xy_theta_tau_rhophi_z_t, VR.lorentz_deltaRapidityPhi.k_xy_theta_tau_rhophi_z_t, c08_lorentz_deltaRapidityPhi2_k_xy_theta_tau_rhophi_z_t, h0, VR.P.nanToNum_eq]

theorem c08_lorentz_deltaRapidityPhi_k_xy_theta_tau_rhophi_z_tau (coord11 coord12 coord13 coord14 coord21 coord22 coord23 coord24 : ℝ) (h0 : 0 ≤ coord14) (h1 : 0 ≤ coord24) :
    VS.lorentz_deltaRapidityPhi.k_xy_theta_tau_rhophi_z_tau coord11 coord12 coord13 coord14 coord21 coord22 coord23 coord24 = VR.lorentz_deltaRapidityPhi.k_xy_theta_tau_rhophi_z_tau coord11 coord12 coord13 coord14 coord21 coord22 coord23 coord24 := by
  simp only [VS.lorentz_deltaRapidityPhi.k_xy_theta_tau_rhophi_z_tau, VR.lorentz_deltaRapidityPhi.k_xy_theta_tau_rhophi_z_tau, c08_lorentz_deltaRapidityPhi2_k_xy_theta_tau_rhophi_z_tau, h0, h1, VR.P.nanToNum_eq]

theorem c08_lorentz_deltaRapidityPhi_k_xy_theta_tau_xy_eta_t (coord11 coord12 coord13 coord14 coord21 coord22 coord23 coord24 : ℝ) (h0 : 0 ≤ coord14) :
    VS.lorentz_deltaRapidityPhi.k_xy_theta_tau_xy_eta_t coord11 coord12 coord13 coord14 coord21 coord22 coord23 coord24 = VR.lorentz_deltaRapidityPhi.k_xy_theta_tau_xy_eta_t coord11 coord12 coord13 coord14 coord21 coord22 coord23 coord24 := by
  simp only [VS.lorentz_deltaRapidityPhi.k_xy_theta_tau_xy_eta_t, VR.lorentz_deltaRapidityPhi.k_xy_theta_tau_xy_eta_t, c08_lorentz_deltaRapidityPhi2_k_xy_theta_tau_xy_eta_t, h0, VR.P.nanToNum_eq]

theorem c08_lorentz_deltaRapidityPhi_k_xy_theta_tau_xy_eta_tau (coord11 coord12 coord13 coord14 coord21 coord22 coord23 coord24 : ℝ) (h0 : 0 ≤ coord14) (h1 : 0 ≤ coord24) :
    VS.lorentz_deltaRapidityPhi.k_xy_theta_tau_xy_eta_tau coord11 coord12 coord13 coord14 coord21 coord22 coord23 coord24 = VR.lorentz_deltaRapidityPhi.k_xy_theta_tau_xy_eta_tau coord11 coord12 coord13 coord14 coord21 coord22 coord23 coord24 := by
  simp only [VS.lorentz_deltaRapidityPhi.k_xy_theta_tau_xy_eta_tau, VR.lorentz_deltaRapidityPhi.k_xy_theta_tau_xy_eta_tau, c08_lorentz_deltaRapidityPhi2_k_xy_theta_tau_xy_eta_tau, h0, h1, VR.P.nanToNum_eq]

theorem c08_lorentz_deltaRapidityPhi_k_xy_theta_tau_xy_theta_t (coord11 coord12 coord13 coord14 coord21 coord22 coord23 coord24 : ℝ) (h0 : 0 ≤ coord14) :
    VS.lorentz_deltaRapidityPhi.k_xy_theta_tau_xy_theta_t coord11 coord12 coord13 coord14 coord21 coord22 coord23 coord24 = VR.lorentz_deltaRapidityPhi.k_xy_theta_tau_xy_theta_t coord11 coord12 coord13 coord14 coord21 coord22 coord23 coord24 := by
  simp only [VS.lorentz_deltaRapidityPhi.k_xy_theta_tau_xy_theta_t, VR.lorentz_deltaRapidityPhi.k_xy_theta_tau_xy_theta_t, c08_lorentz_deltaRapidityPhi2_k_xy_theta_tau_xy_theta_t, h0, VR.P.nanToNum_eq]

theorem c08_lorentz_deltaRapidityPhi_k_xy_theta_tau_xy_theta_tau (coord11 coord12 coord13 coord14 coord21 coord22 coord23 coord24 : ℝ) (h0 : 0 ≤ coord14) (h1 : 0 ≤ coord24) :
    VS.lorentz_deltaRapidityPhi.k_xy_theta_tau_xy_theta_tau coord11 coord12 coord13 coord14 coord21 coord22 coord23 coord24 = VR.lorentz_deltaRapidityPhi.k_xy_theta_tau_xy_theta_tau coord11 coord12 coord13 coord14 coord21 coord22 coord23 coord24 := by
  simp only [VS.lorentz_deltaRapidityPhi.k_xy_theta_tau_xy_theta_tau, VR.lorentz_deltaRapidityPhi.k_xy_theta_tau_xy_theta_tau, c08_lorentz_deltaRapidityPhi2_k_xy_theta_tau_xy_theta_tau, h0, h1, VR.P.nanToNum_eq]

theorem c08_lorentz_deltaRapidityPhi_k_xy_theta_tau_xy_z_t (coord11 coord12 coord13 coord14 coord21 coord22 coord23 coord24 : ℝ) (h0 : 0 ≤ coord14) :
    VS.lorentz_deltaRapidityPhi.k_xy_theta_tau_xy_z_t coord11 coord12 coord13 coord14 coord21 coord22 coord23 coord24 = VR.lorentz_deltaRapidityPhi.k_xy_theta_tau_xy_z_t coord11 coord12 coord13 coord14 coord21 coord22 coord23 coord24 := by
  simp only [VS.lorentz_deltaRapidityPhi.k_xy_theta_tau_xy_z_t, VR.lorentz_deltaRapidityPhi.k_xy_theta_tau_xy_z_t, c08_lorentz_deltaRapidityPhi2_k_xy_theta_tau_xy_z_t, h0, VR.P.nanToNum_eq]

theorem c08_lorentz_deltaRapidityPhi_k_xy_theta_tau_xy_z_tau (coord11 coord12 coord13 coord14 coord21 coord22 coord23 coord24 : ℝ) (h0 : 0 ≤ coord14) (h1 : 0 ≤ coord24) :
    VS.lorentz_deltaRapidityPhi.k_xy_theta_tau_xy_z_tau coord11 coord12 coord13 coord14 coord21 coord22 coord23 coord24 = VR.lorentz_deltaRapidityPhi.k_xy_theta_tau_xy_z_tau coord11 coord12 coord13 coord14 coord21 coord22 coord23 coord24 := by
  simp only [VS.lorentz_deltaRapidityPhi.k_xy_theta_tau_xy_z_tau, VR.lorentz_deltaRapidityPhi.k_xy_theta_tau_xy_z_tau, c08_lorentz_deltaRapidityPhi2_k_xy_theta_tau_xy_z_tau, h0, h1, VR.P.nanToNum_eq]

theorem c08_lorentz_deltaRapidityPhi_k_xy_z_t_rhophi_eta_tau (coord11 coord12 coord13 coord14 coord21 coord22 coord23 coord24 : ℝ) (h0 : 0 ≤ coord24) :
    VS.lorentz_deltaRapidityPhi.k_xy_z_t_rhophi_eta_tau coord11 coord12 coord13 coord14 coord21 coord22 coord23 coord24 = VR.lorentz_deltaRapidityPhi.k_xy_z_t_rhophi_eta_tau coord11 coord12 coord13 coord14 coord21 coord22 coord23 coord24 := by
  simp only [VS.lorentz_deltaRapidityPhi.k_xy_z_t_rhophi_eta_tau, VR.lorentz_deltaRapidityPhi.k_xy_z_t_rhophi_eta_tau, c08_lorentz_deltaRapidityPhi2_k_xy_z_t_rhophi_eta_tau, h0, VR.P.nanToNum_eq]

theorem c08_lorentz_deltaRapidityPhi_k_xy_z_t_rhophi_theta_tau (coord11 coord12 coord13 coord14 coord21 coord22 coord23 coord24 : ℝ) (h0 : 0 ≤ coord24) :
    VS.lorentz_deltaRapidityPhi.k_xy_z_t_rhophi_theta_tau coord11 coord12 coord13 coord14 coord21 coord22 coord23 coord24 = VR.lorentz_deltaRapidityPhi.k_xy_z_t_rhophi_theta_tau coord11 coord12 coord13 coord14 coord21 coord22 coord23 coord24 := by
  simp only [VS.lorentz_deltaRapidityPhi.k_xy_z_t_rhophi_theta_tau, VR.lorentz_deltaRapidityPhi.k_xy_z_t_rhophi_theta_tau, c08_lorentz_deltaRapidityPhi2_k_xy_z_t_rhophi_theta_tau, h0, VR.P.nanToNum_eq]

theorem c08_lorentz_deltaRapidityPhi_k_xy_z_t_rhophi_z_tau (coord11 coord12 coord13 coord14 coord21 coord22 coord23 coord24 : ℝ) (h0 : 0 ≤ coord24) :
    VS.lorentz_deltaRapidityPhi.k_xy_z_t_rhophi_z_tau coord11 coord12 coord13 coord14 coord21 coord22 coord23 coord24 = VR.lorentz_deltaRapidityPhi.k_xy_z_t_rhophi_z_tau coord11 coord12 coord13 coord14 coord21 coord22 coord23 coord24 := by
  simp only [VS.lorentz_deltaRapidityPhi.k_xy_z_t_rhophi_z_tau, VR.lorentz_deltaRapidityPhi.k_xy_z_t_rhophi_z_tau, c08_lorentz_deltaRapidityPhi2_k_xy_z_t_rhophi_z_tau, h0, VR.P.nanToNum_eq]

theorem c08_lorentz_deltaRapidityPhi_k_xy_z_t_xy_eta_tau (coord11 coord12 coord13 coord14 coord21 coord22 coord23 coord24 : ℝ) (h0 : 0 ≤ coord24) :
    VS.lorentz_deltaRapidityPhi.k_xy_z_t_xy_eta_tau coord11 coord12 coord13 coord14 coord21 coord22 coord23 coord24 = VR.lorentz_deltaRapidityPhi.k_xy_z_t_xy_eta_tau coord11 coord12 coord13 coord14 coord21 coord22 coord23 coord24 := by
  simp only [VS.lorentz_deltaRapidityPhi.k_xy_z_t_xy_eta_tau, VR.lorentz_deltaRapidityPhi.k_xy_z_t_xy_eta_tau, c08_lorentz_deltaRapidityPhi2_k_xy_z_t_xy_eta_tau, h0, VR.P.nanToNum_eq]

theorem c08_lorentz_deltaRapidityPhi_k_xy_z_t_xy_theta_tau (coord11 coord12 coord13 coord14 coord21 coord22 coord23 coord24 : ℝ) (h0 : 0 ≤ coord24) :
    VS.lorentz_deltaRapidityPhi.k_xy_z_t_xy_theta_tau coord11 coord12 coord13 coord14 coord21 coord22 coord23 coord24 = VR.lorentz_deltaRapidityPhi.k_xy_z_t_xy_theta_tau coord11 coord12 coord13 coord14 coord21 coord22 coord23 coord24 := by
  simp only [VS.lorentz_deltaRapidityPhi.k_xy_z_t_xy_theta_tau, VR.lorentz_deltaRapidityPhi.k_xy_z_t_xy_theta_tau, c08_lorentz_deltaRapidityPhi2_k_xy_z_t_xy_theta_tau, h0, VR.P.nanToNum_eq]

theorem c08_lorentz_deltaRapidityPhi_k_xy_z_t_xy_z_tau (coord11 coord12 coord13 coord14 coord21 coord22 coord23 coord24 : ℝ) (h0 : 0 ≤ coord24) :
    VS.lorentz_deltaRapidityPhi.k_xy_z_t_xy_z_tau coord11 coord12 coord13 coord14 coord21 coord22 coord23 coord24 = VR.lorentz_deltaRapidityPhi.k_xy_z_t_xy_z_tau coord11 coord12 coord13 coord14 coord21 coord22 coord23 coord24 := by
  simp only [VS.lorentz_deltaRapidityPhi.k_xy_z_t_xy_z_tau, VR.lorentz_deltaRapidityPhi.k_xy_z_t_xy_z_tau, c08_lorentz_deltaRapidityPhi2_k_xy_z_t_xy_z_tau, h0, VR.P.nanToNum_eq]

theorem c08_lorentz_deltaRapidityPhi_k_xy_z_tau_rhophi_eta_t (coord11 coord12 coord13 coord14 coord21 coord22 coord23 coord24 : ℝ) (h0 : 0 ≤ coord14) :
    VS.lorentz_deltaRapidityPhi.k_xy_z_tau_rhophi_eta_t coord11 coord12 coord13 coord14 coord21 coord22 coord23 coord24 = VR.lorentz_deltaRapidityPhi.k_xy_z_tau_rhophi_eta_t coord11 coord12 coord13 coord14 coord21 coord22 coord23 coord24 := by
  simp only [VS.lorentz_deltaRapidityPhi.k_xy_z_tau_rhophi_eta_t, VR.lorentz_deltaRapidityPhi.k_xy_z_tau_rhophi_eta_t, c08_lorentz_deltaRapidityPhi2_k_xy_z_tau_rhophi_eta_t, h0, VR.P.nanToNum_eq]

theorem c08_lorentz_deltaRapidityPhi_k_xy_z_tau_rhophi_eta_tau (coord11 coord12 coord13 coord14 coord21 coord22 coord23 coord24 : ℝ) (h0 : 0 ≤ coord14) (h1 : 0 ≤ coord24) :
    VS.lorentz_deltaRapidityPhi.k_xy_z_tau_rhophi_eta_tau coord11 coord12 coord13 coord14 coord21 coord22 coord23 coord24 = VR.lorentz_deltaRapidityPhi.k_xy_z_tau_rhophi_eta_tau coord11 coord12 coord13 coord14 coord21 coord22 coord23 coord24 := by
  simp only [VS.lorentz_deltaRapidityPhi.k_xy_z_tau_rhophi_eta_tau, VR.lorentz_deltaRapidityPhi.k_xy_z_tau_rhophi_eta_tau, c08_lorentz_deltaRapidityPhi2_k_xy_z_tau_rhophi_eta_tau, h0, h1, VR.P.nanToNum_eq]

theorem c08_lorentz_deltaRapidityPhi_k_xy_z_tau_rhophi_theta_t (coord11 coord12 coord13 coord14 coord21 coord22 coord23 coord24 : ℝ) (h0 : 0 ≤ coord14) :
    VS.lorentz_deltaRapidityPhi.k_xy_z_tau_rhophi_theta_t coord11 coord12 coord13 coord14 coord21 coord22 coord23 coord24 = VR.lorentz_deltaRapidityPhi.k_xy_z_tau_rhophi_theta_t coord11 coord12 coord13 coord14 coord21 coord22 coord23 coord24 := by
  simp only [VS.lorentz_deltaRapidityPhi.k_xy_z_tau_rhophi_theta_t, VR.lorentz_deltaRapidityPhi.k_xy_z_tau_rhophi_theta_t, c08_lorentz_deltaRapidityPhi2_k_xy_z_tau_rhophi_theta_t, h0, VR.P.nanToNum_eq]

theorem c08_lorentz_deltaRapidityPhi_k_xy_z_tau_rhophi_theta_tau (coord11 coord12 coord13 coord14 coord21 coord22 coord23 coord24 : ℝ) (h0 : 0 ≤ coord14) (h1 : 0 ≤ coord24) :
    VS.lorentz_deltaRapidityPhi.k_xy_z_tau_rhophi_theta_tau coord11 coord12 coord13 coord14 coord21 coord22 coord23 coord24 = VR.lorentz_deltaRapidityPhi.k_xy_z_tau_rhophi_theta_tau coord11 coord12 coord13 coord14 coord21 coord22 coord23 coord24 := by
  simp only [VS.lorentz_deltaRapidityPhi.k_xy_z_tau_rhophi_theta_tau, VR.lorentz_deltaRapidityPhi.k_xy_z_tau_rhophi_theta_tau, c08_lorentz_deltaRapidityPhi2_k_xy_z_tau_rhophi_theta_tau, h0, h1, VR.P.nanToNum_eq]

theorem c08_lorentz_deltaRapidityPhi_k_xy_z_tau_rhophi_z_t (coord11 coord12 coord13 coord14 coord21 coord22 coord23 coord24 : ℝ) (h0 : 0 ≤ coord14) :
    VS.lorentz_deltaRapidityPhi.k_xy_z_tau_rhophi_z_t coord11 coord12 coord13 coord14 coord21 coord22 coord23 coord24 = VR.lorentz_deltaRapidityPhi.k_xy_z_tau_rhophi_z_t coord11 coord12 coord13 coord14 coord21 coord22 coord23 coord24 := by
  simp only [VS.lorentz_deltaRapidityPhi.k_xy_z_tau_rhophi_z_t, VR.lorentz_deltaRapidityPhi.k_xy_z_tau_rhophi_z_t, c08_lorentz_deltaRapidityPhi2_k_xy_z_tau_rhophi_z_t, h0, VR.P.nanToNum_eq]

theorem c08_lorentz_deltaRapidityPhi_k_xy_z_tau_rhophi_z_tau (coord11 coord12 coord13 coord14 coord21 coord22 coord23 coord24 : ℝ) (h0 : 0 ≤ coord14) (h1 : 0 ≤ coord24) :
    VS.lorentz_deltaRapidityPhi.k_xy_z_tau_rhophi_z_tau coord11 coord12 coord13 coord14 coord21 coord22 coord23 coord24 = VR.lorentz_deltaRapidityPhi.k_xy_z_tau_rhophi_z_tau coord11 coord12 coord13 coord14 coord21 coord22 coord23 coord24 := by
  simp only [VS.lorentz_deltaRapidityPhi.k_xy_z_tau_rhophi_z_tau, VR.lorentz_deltaRapidityPhi.k_xy_z_tau_rhophi_z_tau, c08_lorentz_deltaRapidityPhi2_k_xy_z_tau_rhophi_z_tau, h0, h1, VR.P.nanToNum_eq]

theorem c08_lorentz_deltaRapidityPhi_k_xy_z_tau_xy_eta_t (coord11 coord12 coord13 coord14 coord21 coord22 coord23 coord24 : ℝ) (h0 : 0 ≤ coord14) :
    VS.lorentz_deltaRapidityPhi.k_xy_z_tau_xy_eta_t coord11 coord12 coord13 coord14 coord21 coord22 coord23 coord24 = VR.lorentz_deltaRapidityPhi.k_xy_z_tau_xy_eta_t coord11 coord12 coord13 coord14 coord21 coord22 coord23 coord24 := by
  simp only [VS.lorentz_deltaRapidityPhi.k_xy_z_tau_xy_eta_t, VR.lorentz_deltaRapidityPhi.k_xy_z_tau_xy_eta_t, c08_lorentz_deltaRapidityPhi2_k_xy_z_tau_xy_eta_t, h0, VR.P.nanToNum_eq]

theorem c08_lorentz_deltaRapidityPhi_k_xy_z_tau_xy_eta_tau (coord11 coord12 coord13 coord14 coord21 coord22 coord23 coord24 : ℝ) (h0 : 0 ≤ coord14) (h1 : 0 ≤ coord24) :
    VS.lorentz_deltaRapidityPhi.k_xy_z_tau_xy_eta_tau coord11 coord12 coord13 coord14 coord21 coord22 coord23 coord24 = VR.lorentz_deltaRapidityPhi.k_xy_z_tau_xy_eta_tau coord11 coord12 coord13 coord14 coord21 coord22 coord23 coord24 := by
  simp only [VS.lorentz_deltaRapidityPhi.k_xy_z_tau_xy_eta_tau, VR.lorentz_deltaRapidityPhi.k_xy_z_tau_xy_eta_tau, c08_lorentz_deltaRapidityPhi2_k_xy_z_tau_xy_eta_tau, h0, h1, VR.P.nanToNum_eq]

theorem c08_lorentz_deltaRapidityPhi_k_xy_z_tau_xy_theta_t (coord11 coord12 coord13 coord14 coord21 coord22 coord23 coord24 : ℝ) (h0 : 0 ≤ coord14) :
    VS.lorentz_deltaRapidityPhi.k_xy_z_tau_xy_theta_t coord11 coord12 coord13 coord14 coord21 coord22 coord23 coord24 = VR.lorentz_deltaRapidityPhi.k_xy_z_tau_xy_theta_t coord11 coord12 coord13 coord14 coord21 coord22 coord23 coord24 := by
  simp only [VS.lorentz_deltaRapidityPhi.k_xy_z_tau_xy_theta_t, VR.lorentz_deltaRapidityPhi.k_xy_z_tau_xy_theta_t, c08_lorentz_deltaRapidityPhi2_k_xy_z_tau_xy_theta_t, h0, VR.P.nanToNum_eq]

theorem c08_lorentz_deltaRapidityPhi_k_xy_z_tau_xy_theta_tau (coord11 coord12 coord13 coord14 coord21 coord22 coord23 coord24 : ℝ) (h0 : 0 ≤ coord14) (h1 : 0 ≤ coord24) :
    VS.lorentz_deltaRapidityPhi.k_xy_z_tau_xy_theta_tau coord11 coord12 coord13 coord14 coord21 coord22 coord23 coord24 = VR.lorentz_deltaRapidityPhi.k_xy_z_tau_xy_theta_tau coord11 coord12 coord13 coord14 coord21 coord22 coord23 coord24 := by
  simp only [VS.lorentz_deltaRapidityPhi.k_xy_z_tau_xy_theta_tau, VR.lorentz_deltaRapidityPhi.k_xy_z_tau_xy_theta_tau, c08_lorentz_deltaRapidityPhi2_k_xy_z_tau_xy_theta_tau, h0, h1, VR.P.nanToNum_eq]

theorem c08_lorentz_deltaRapidityPhi_k_xy_z_tau_xy_z_t (coord11 coord12 coord13 coord14 coord21 coord22 coord23 coord24 : ℝ) (h0 : 0 ≤ coord14) :
    VS.lorentz_deltaRapidityPhi.k_xy_z_tau_xy_z_t coord11 coord12 coord13 coord14 coord21 coord22 coord23 coord24 = VR.lorentz_deltaRapidityPhi.k_xy_z_tau_xy_z_t coord11 coord12 coord13 coord14 coord21 coord22 coord23 coord24 := by
  simp only [VS.lorentz_deltaRapidityPhi.k_xy_z_tau_xy_z_t, VR.lorentz_deltaRapidityPhi.k_xy_z_tau_xy_z_t, c08_lorentz_deltaRapidityPhi2_k_xy_z_tau_xy_z_t, h0, VR.P.nanToNum_eq]

theorem c08_lorentz_deltaRapidityPhi_k_xy_z_tau_xy_z_tau (coord11 coord12 coord13 coord14 coord21 coord22 coord23 coord24 : ℝ) (h0 : 0 ≤ coord14) (h1 : 0 ≤ coord24) :
    VS.lorentz_deltaRapidityPhi.k_xy_z_tau_xy_z_tau coord11 coord12 coord13 coord14 coord21 coord22 coord23 coord24 = VR.lorentz_deltaRapidityPhi.k_xy_z_tau_xy_z_tau coord11 coord12 coord13 coord14 coord21 coord22 coord23 coord24 := by
  simp only [VS.lorentz_deltaRapidityPhi.k_xy_z_tau_xy_z_tau, VR.lorentz_deltaRapidityPhi.k_xy_z_tau_xy_z_tau, c08_lorentz_deltaRapidityPhi2_k_xy_z_tau_xy_z_tau, h0, h1, VR.P.nanToNum_eq]

/-! ## Per-module theorems over ALL keys -/

/-- `lorentz_tau`: all 12 keys -/
theorem c08_lorentz_tau (k0 : Az) (k1 : Lon) (k2 : Tmp) (a0 a1 a2 a3 : ℝ)
    (hs : 0 ≤ VR.lorentz_tau2.eval k0 k1 k2 a0 a1 a2 a3) :
    VS.lorentz_tau.eval k0 k1 k2 a0 a1 a2 a3 =
      VR.lorentz_tau.eval k0 k1 k2 a0 a1 a2 a3 := by
  cases k0 <;> cases k1 <;> cases k2
  · exact c08_lorentz_tau_xy_z_t a0 a1 a2 a3 hs
  · exact VS.lorentz_tau.xy_z_tau_eq a0 a1 a2 a3
  · exact c08_lorentz_tau_xy_theta_t a0 a1 a2 a3 hs
  · exact VS.lorentz_tau.xy_theta_tau_eq a0 a1 a2 a3
  · exact c08_lorentz_tau_xy_eta_t a0 a1 a2 a3 hs
  · exact VS.lorentz_tau.xy_eta_tau_eq a0 a1 a2 a3
  · exact c08_lorentz_tau_rhophi_z_t a0 a1 a2 a3 hs
  · exact VS.lorentz_tau.rhophi_z_tau_eq a0 a1 a2 a3
  · exact c08_lorentz_tau_rhophi_theta_t a0 a1 a2 a3 hs
  · exact VS.lorentz_tau.rhophi_theta_tau_eq a0 a1 a2 a3
  · exact c08_lorentz_tau_rhophi_eta_t a0 a1 a2 a3 hs
  · exact VS.lorentz_tau.rhophi_eta_tau_eq a0 a1 a2 a3

/-- `lorentz_tau2`: all 12 keys -/
theorem c08_lorentz_tau2 (k0 : Az) (k1 : Lon) (k2 : Tmp) (a0 a1 a2 a3 : ℝ)
    (hc3 : CanonTmp k2 a3) :
    VS.lorentz_tau2.eval k0 k1 k2 a0 a1 a2 a3 =
      VR.lorentz_tau2.eval k0 k1 k2 a0 a1 a2 a3 := by
  cases k0 <;> cases k1 <;> cases k2
  · exact VS.lorentz_tau2.xy_z_t_eq a0 a1 a2 a3
  · exact c08_lorentz_tau2_xy_z_tau a0 a1 a2 a3 hc3
  · exact VS.lorentz_tau2.xy_theta_t_eq a0 a1 a2 a3
  · exact c08_lorentz_tau2_xy_theta_tau a0 a1 a2 a3 hc3
  · exact VS.lorentz_tau2.xy_eta_t_eq a0 a1 a2 a3
  · exact c08_lorentz_tau2_xy_eta_tau a0 a1 a2 a3 hc3
  · exact VS.lorentz_tau2.rhophi_z_t_eq a0 a1 a2 a3
  · exact c08_lorentz_tau2_rhophi_z_tau a0 a1 a2 a3 hc3
  · exact VS.lorentz_tau2.rhophi_theta_t_eq a0 a1 a2 a3
  · exact c08_lorentz_tau2_rhophi_theta_tau a0 a1 a2 a3 hc3
  · exact VS.lorentz_tau2.rhophi_eta_t_eq a0 a1 a2 a3
  · exact c08_lorentz_tau2_rhophi_eta_tau a0 a1 a2 a3 hc3

/-- `lorentz_unit`: all 12 keys -/
theorem c08_lorentz_unit (k0 : Az) (k1 : Lon) (k2 : Tmp) (a0 a1 a2 a3 : ℝ)
    (hc3 : CanonTmp k2 a3) :
    VS.lorentz_unit.eval k0 k1 k2 a0 a1 a2 a3 =
      VR.lorentz_unit.eval k0 k1 k2 a0 a1 a2 a3 := by
  cases k0 <;> cases k1 <;> cases k2
  · exact VS.lorentz_unit.xy_z_t_eq a0 a1 a2 a3
  · exact c08_lorentz_unit_xy_z_tau a0 a1 a2 a3 hc3
  · exact VS.lorentz_unit.xy_theta_t_eq a0 a1 a2 a3
  · exact c08_lorentz_unit_xy_theta_tau a0 a1 a2 a3 hc3
  · exact VS.lorentz_unit.xy_eta_t_eq a0 a1 a2 a3
  · exact c08_lorentz_unit_xy_eta_tau a0 a1 a2 a3 hc3
  · exact VS.lorentz_unit.rhophi_z_t_eq a0 a1 a2 a3
  · exact c08_lorentz_unit_rhophi_z_tau a0 a1 a2 a3 hc3
  · exact VS.lorentz_unit.rhophi_theta_t_eq a0 a1 a2 a3
  · exact c08_lorentz_unit_rhophi_theta_tau a0 a1 a2 a3 hc3
  · exact VS.lorentz_unit.rhophi_eta_t_eq a0 a1 a2 a3
  · exact c08_lorentz_unit_rhophi_eta_tau a0 a1 a2 a3 hc3

/-- `planar_scale`: all 2 keys -/
theorem c08_planar_scale (k0 : Az) (a0 a1 a2 : ℝ) :
    VS.planar_scale.eval k0 a0 a1 a2 =
      VR.planar_scale.eval k0 a0 a1 a2 := by
  cases k0
  · exact VS.planar_scale.xy_eq a0 a1 a2
  · exact c08_planar_scale_rhophi a0 a1 a2

/-- `spatial_deltaangle`: all 36 keys -/
theorem c08_spatial_deltaangle (k0 : Az) (k1 : Lon) (k2 : Az) (k3 : Lon) (a0 a1 a2 a3 a4 a5 : ℝ)
    (hlo : -1 ≤ VR.spatial_dot.eval k0 k1 k2 k3 a0 a1 a2 a3 a4 a5 / VR.spatial_mag.eval k0 k1 a0 a1 a2 / VR.spatial_mag.eval k2 k3 a3 a4 a5)
    (hhi : VR.spatial_dot.eval k0 k1 k2 k3 a0 a1 a2 a3 a4 a5 / VR.spatial_mag.eval k0 k1 a0 a1 a2 / VR.spatial_mag.eval k2 k3 a3 a4 a5 ≤ 1) :
    VS.spatial_deltaangle.eval k0 k1 k2 k3 a0 a1 a2 a3 a4 a5 =
      VR.spatial_deltaangle.eval k0 k1 k2 k3 a0 a1 a2 a3 a4 a5 := by
  cases k0 <;> cases k1 <;> cases k2 <;> cases k3
  · exact c08_spatial_deltaangle_xy_z_xy_z a0 a1 a2 a3 a4 a5 hlo hhi
  · exact c08_spatial_deltaangle_xy_z_xy_theta a0 a1 a2 a3 a4 a5 hlo hhi
  · exact c08_spatial_deltaangle_xy_z_xy_eta a0 a1 a2 a3 a4 a5 hlo hhi
  · exact c08_spatial_deltaangle_xy_z_rhophi_z a0 a1 a2 a3 a4 a5 hlo hhi
  · exact c08_spatial_deltaangle_xy_z_rhophi_theta a0 a1 a2 a3 a4 a5 hlo hhi
  · exact c08_spatial_deltaangle_xy_z_rhophi_eta a0 a1 a2 a3 a4 a5 hlo hhi
  · exact c08_spatial_deltaangle_xy_theta_xy_z a0 a1 a2 a3 a4 a5 hlo hhi
  · exact c08_spatial_deltaangle_xy_theta_xy_theta a0 a1 a2 a3 a4 a5 hlo hhi
  · exact c08_spatial_deltaangle_xy_theta_xy_eta a0 a1 a2 a3 a4 a5 hlo hhi
  · exact c08_spatial_deltaangle_xy_theta_rhophi_z a0 a1 a2 a3 a4 a5 hlo hhi
  · exact c08_spatial_deltaangle_xy_theta_rhophi_theta a0 a1 a2 a3 a4 a5 hlo hhi
  · exact c08_spatial_deltaangle_xy_theta_rhophi_eta a0 a1 a2 a3 a4 a5 hlo hhi
  · exact c08_spatial_deltaangle_xy_eta_xy_z a0 a1 a2 a3 a4 a5 hlo hhi
  · exact c08_spatial_deltaangle_xy_eta_xy_theta a0 a1 a2 a3 a4 a5 hlo hhi
  · exact c08_spatial_deltaangle_xy_eta_xy_eta a0 a1 a2 a3 a4 a5 hlo hhi
  · exact c08_spatial_deltaangle_xy_eta_rhophi_z a0 a1 a2 a3 a4 a5 hlo hhi
  · exact c08_spatial_deltaangle_xy_eta_rhophi_theta a0 a1 a2 a3 a4 a5 hlo hhi
  · exact c08_spatial_deltaangle_xy_eta_rhophi_eta a0 a1 a2 a3 a4 a5 hlo hhi
  · exact c08_spatial_deltaangle_rhophi_z_xy_z a0 a1 a2 a3 a4 a5 hlo hhi
  · exact c08_spatial_deltaangle_rhophi_z_xy_theta a0 a1 a2 a3 a4 a5 hlo hhi
  · exact c08_spatial_deltaangle_rhophi_z_xy_eta a0 a1 a2 a3 a4 a5 hlo hhi
  · exact c08_spatial_deltaangle_rhophi_z_rhophi_z a0 a1 a2 a3 a4 a5 hlo hhi
  · exact c08_spatial_deltaangle_rhophi_z_rhophi_theta a0 a1 a2 a3 a4 a5 hlo hhi
  · exact c08_spatial_deltaangle_rhophi_z_rhophi_eta a0 a1 a2 a3 a4 a5 hlo hhi
  · exact c08_spatial_deltaangle_rhophi_theta_xy_z a0 a1 a2 a3 a4 a5 hlo hhi
  · exact c08_spatial_deltaangle_rhophi_theta_xy_theta a0 a1 a2 a3 a4 a5 hlo hhi
  · exact c08_spatial_deltaangle_rhophi_theta_xy_eta a0 a1 a2 a3 a4 a5 hlo hhi
  · exact c08_spatial_deltaangle_rhophi_theta_rhophi_z a0 a1 a2 a3 a4 a5 hlo hhi
  · exact c08_spatial_deltaangle_rhophi_theta_rhophi_theta a0 a1 a2 a3 a4 a5 hlo hhi
  · exact c08_spatial_deltaangle_rhophi_theta_rhophi_eta a0 a1 a2 a3 a4 a5 hlo hhi
  · exact c08_spatial_deltaangle_rhophi_eta_xy_z a0 a1 a2 a3 a4 a5 hlo hhi
  · exact c08_spatial_deltaangle_rhophi_eta_xy_theta a0 a1 a2 a3 a4 a5 hlo hhi
  · exact c08_spatial_deltaangle_rhophi_eta_xy_eta a0 a1 a2 a3 a4 a5 hlo hhi
  · exact c08_spatial_deltaangle_rhophi_eta_rhophi_z a0 a1 a2 a3 a4 a5 hlo hhi
  · exact c08_spatial_deltaangle_rhophi_eta_rhophi_theta a0 a1 a2 a3 a4 a5 hlo hhi
  · exact c08_spatial_deltaangle_rhophi_eta_rhophi_eta a0 a1 a2 a3 a4 a5 hlo hhi

/-- `spatial_scale`: all 6 keys -/
theorem c08_spatial_scale (k0 : Az) (k1 : Lon) (a0 a1 a2 a3 : ℝ) :
    VS.spatial_scale.eval k0 k1 a0 a1 a2 a3 =
      VR.spatial_scale.eval k0 k1 a0 a1 a2 a3 := by
  cases k0 <;> cases k1
  · exact VS.spatial_scale.xy_z_eq a0 a1 a2 a3
  · exact c08_spatial_scale_xy_theta a0 a1 a2 a3
  · exact c08_spatial_scale_xy_eta a0 a1 a2 a3
  · exact c08_spatial_scale_rhophi_z a0 a1 a2 a3
  · exact c08_spatial_scale_rhophi_theta a0 a1 a2 a3
  · exact c08_spatial_scale_rhophi_eta a0 a1 a2 a3

/-- `lorentz_Mt2`: all 12 keys -/
theorem c08_lorentz_Mt2 (k0 : Az) (k1 : Lon) (k2 : Tmp) (a0 a1 a2 a3 : ℝ)
    (hc3 : CanonTmp k2 a3) :
    VS.lorentz_Mt2.eval k0 k1 k2 a0 a1 a2 a3 =
      VR.lorentz_Mt2.eval k0 k1 k2 a0 a1 a2 a3 := by
  cases k0 <;> cases k1 <;> cases k2
  · exact VS.lorentz_Mt2.xy_z_t_eq a0 a1 a2 a3
  · exact c08_lorentz_Mt2_xy_z_tau a0 a1 a2 a3 hc3
  · exact VS.lorentz_Mt2.xy_theta_t_eq a0 a1 a2 a3
  · exact c08_lorentz_Mt2_xy_theta_tau a0 a1 a2 a3 hc3
  · exact VS.lorentz_Mt2.xy_eta_t_eq a0 a1 a2 a3
  · exact c08_lorentz_Mt2_xy_eta_tau a0 a1 a2 a3 hc3
  · exact VS.lorentz_Mt2.rhophi_z_t_eq a0 a1 a2 a3
  · exact c08_lorentz_Mt2_rhophi_z_tau a0 a1 a2 a3 hc3
  · exact VS.lorentz_Mt2.rhophi_theta_t_eq a0 a1 a2 a3
  · exact c08_lorentz_Mt2_rhophi_theta_tau a0 a1 a2 a3 hc3
  · exact VS.lorentz_Mt2.rhophi_eta_t_eq a0 a1 a2 a3
  · exact c08_lorentz_Mt2_rhophi_eta_tau a0 a1 a2 a3 hc3

/-- `lorentz_scale`: all 12 keys -/
theorem c08_lorentz_scale (k0 : Az) (k1 : Lon) (k2 : Tmp) (a0 a1 a2 a3 a4 : ℝ) :
    VS.lorentz_scale.eval k0 k1 k2 a0 a1 a2 a3 a4 =
      VR.lorentz_scale.eval k0 k1 k2 a0 a1 a2 a3 a4 := by
  cases k0 <;> cases k1 <;> cases k2
  · exact VS.lorentz_scale.xy_z_t_eq a0 a1 a2 a3 a4
  · exact VS.lorentz_scale.xy_z_tau_eq a0 a1 a2 a3 a4
  · exact c08_lorentz_scale_xy_theta_t a0 a1 a2 a3 a4
  · exact c08_lorentz_scale_xy_theta_tau a0 a1 a2 a3 a4
  · exact c08_lorentz_scale_xy_eta_t a0 a1 a2 a3 a4
  · exact c08_lorentz_scale_xy_eta_tau a0 a1 a2 a3 a4
  · exact c08_lorentz_scale_rhophi_z_t a0 a1 a2 a3 a4
  · exact c08_lorentz_scale_rhophi_z_tau a0 a1 a2 a3 a4
  · exact c08_lorentz_scale_rhophi_theta_t a0 a1 a2 a3 a4
  · exact c08_lorentz_scale_rhophi_theta_tau a0 a1 a2 a3 a4
  · exact c08_lorentz_scale_rhophi_eta_t a0 a1 a2 a3 a4
  · exact c08_lorentz_scale_rhophi_eta_tau a0 a1 a2 a3 a4

/-- `lorentz_t2`: all 12 keys -/
theorem c08_lorentz_t2 (k0 : Az) (k1 : Lon) (k2 : Tmp) (a0 a1 a2 a3 : ℝ)
    (hc3 : CanonTmp k2 a3) :
    VS.lorentz_t2.eval k0 k1 k2 a0 a1 a2 a3 =
      VR.lorentz_t2.eval k0 k1 k2 a0 a1 a2 a3 := by
  cases k0 <;> cases k1 <;> cases k2
  · exact VS.lorentz_t2.xy_z_t_eq a0 a1 a2 a3
  · exact c08_lorentz_t2_xy_z_tau a0 a1 a2 a3 hc3
  · exact VS.lorentz_t2.xy_theta_t_eq a0 a1 a2 a3
  · exact c08_lorentz_t2_xy_theta_tau a0 a1 a2 a3 hc3
  · exact VS.lorentz_t2.xy_eta_t_eq a0 a1 a2 a3
  · exact c08_lorentz_t2_xy_eta_tau a0 a1 a2 a3 hc3
  · exact VS.lorentz_t2.rhophi_z_t_eq a0 a1 a2 a3
  · exact c08_lorentz_t2_rhophi_z_tau a0 a1 a2 a3 hc3
  · exact VS.lorentz_t2.rhophi_theta_t_eq a0 a1 a2 a3
  · exact c08_lorentz_t2_rhophi_theta_tau a0 a1 a2 a3 hc3
  · exact VS.lorentz_t2.rhophi_eta_t_eq a0 a1 a2 a3
  · exact c08_lorentz_t2_rhophi_eta_tau a0 a1 a2 a3 hc3

/-- `lorentz_Mt`: all 12 keys -/
theorem c08_lorentz_Mt (k0 : Az) (k1 : Lon) (k2 : Tmp) (a0 a1 a2 a3 : ℝ)
    (hc3 : CanonTmp k2 a3) :
    VS.lorentz_Mt.eval k0 k1 k2 a0 a1 a2 a3 =
      VR.lorentz_Mt.eval k0 k1 k2 a0 a1 a2 a3 := by
  cases k0 <;> cases k1 <;> cases k2
  · exact VS.lorentz_Mt.xy_z_t_eq a0 a1 a2 a3
  · exact c08_lorentz_Mt_xy_z_tau a0 a1 a2 a3 hc3
  · exact VS.lorentz_Mt.xy_theta_t_eq a0 a1 a2 a3
  · exact c08_lorentz_Mt_xy_theta_tau a0 a1 a2 a3 hc3
  · exact VS.lorentz_Mt.xy_eta_t_eq a0 a1 a2 a3
  · exact c08_lorentz_Mt_xy_eta_tau a0 a1 a2 a3 hc3
  · exact VS.lorentz_Mt.rhophi_z_t_eq a0 a1 a2 a3
  · exact c08_lorentz_Mt_rhophi_z_tau a0 a1 a2 a3 hc3
  · exact VS.lorentz_Mt.rhophi_theta_t_eq a0 a1 a2 a3
  · exact c08_lorentz_Mt_rhophi_theta_tau a0 a1 a2 a3 hc3
  · exact VS.lorentz_Mt.rhophi_eta_t_eq a0 a1 a2 a3
  · exact c08_lorentz_Mt_rhophi_eta_tau a0 a1 a2 a3 hc3

/-- `lorentz_t`: all 12 keys -/
theorem c08_lorentz_t (k0 : Az) (k1 : Lon) (k2 : Tmp) (a0 a1 a2 a3 : ℝ)
    (hc3 : CanonTmp k2 a3) :
    VS.lorentz_t.eval k0 k1 k2 a0 a1 a2 a3 =
      VR.lorentz_t.eval k0 k1 k2 a0 a1 a2 a3 := by
  cases k0 <;> cases k1 <;> cases k2
  · exact VS.lorentz_t.xy_z_t_eq a0 a1 a2 a3
  · exact c08_lorentz_t_xy_z_tau a0 a1 a2 a3 hc3
  · exact VS.lorentz_t.xy_theta_t_eq a0 a1 a2 a3
  · exact c08_lorentz_t_xy_theta_tau a0 a1 a2 a3 hc3
  · exact VS.lorentz_t.xy_eta_t_eq a0 a1 a2 a3
  · exact c08_lorentz_t_xy_eta_tau a0 a1 a2 a3 hc3
  · exact VS.lorentz_t.rhophi_z_t_eq a0 a1 a2 a3
  · exact c08_lorentz_t_rhophi_z_tau a0 a1 a2 a3 hc3
  · exact VS.lorentz_t.rhophi_theta_t_eq a0 a1 a2 a3
  · exact c08_lorentz_t_rhophi_theta_tau a0 a1 a2 a3 hc3
  · exact VS.lorentz_t.rhophi_eta_t_eq a0 a1 a2 a3
  · exact c08_lorentz_t_rhophi_eta_tau a0 a1 a2 a3 hc3

/-- `lorentz_to_beta3`: all 12 keys -/
theorem c08_lorentz_to_beta3 (k0 : Az) (k1 : Lon) (k2 : Tmp) (a0 a1 a2 a3 : ℝ)
    (hc3 : CanonTmp k2 a3) :
    VS.lorentz_to_beta3.eval k0 k1 k2 a0 a1 a2 a3 =
      VR.lorentz_to_beta3.eval k0 k1 k2 a0 a1 a2 a3 := by
  cases k0 <;> cases k1 <;> cases k2
  · exact VS.lorentz_to_beta3.xy_z_t_eq a0 a1 a2 a3
  · exact c08_lorentz_to_beta3_xy_z_tau a0 a1 a2 a3 hc3
  · exact VS.lorentz_to_beta3.xy_theta_t_eq a0 a1 a2 a3
  · exact c08_lorentz_to_beta3_xy_theta_tau a0 a1 a2 a3 hc3
  · exact VS.lorentz_to_beta3.xy_eta_t_eq a0 a1 a2 a3
  · exact c08_lorentz_to_beta3_xy_eta_tau a0 a1 a2 a3 hc3
  · exact VS.lorentz_to_beta3.rhophi_z_t_eq a0 a1 a2 a3
  · exact c08_lorentz_to_beta3_rhophi_z_tau a0 a1 a2 a3 hc3
  · exact VS.lorentz_to_beta3.rhophi_theta_t_eq a0 a1 a2 a3
  · exact c08_lorentz_to_beta3_rhophi_theta_tau a0 a1 a2 a3 hc3
  · exact VS.lorentz_to_beta3.rhophi_eta_t_eq a0 a1 a2 a3
  · exact c08_lorentz_to_beta3_rhophi_eta_tau a0 a1 a2 a3 hc3

/-- `lorentz_transform4D`: all 12 keys -/
theorem c08_lorentz_transform4D (k0 : Az) (k1 : Lon) (k2 : Tmp) (a0 a1 a2 a3 a4 a5 a6 a7 a8 a9 a10 a11 a12 a13 a14 a15 a16 a17 a18 a19 : ℝ)
    (hc19 : CanonTmp k2 a19) :
    VS.lorentz_transform4D.eval k0 k1 k2 a0 a1 a2 a3 a4 a5 a6 a7 a8 a9 a10 a11 a12 a13 a14 a15 a16 a17 a18 a19 =
      VR.lorentz_transform4D.eval k0 k1 k2 a0 a1 a2 a3 a4 a5 a6 a7 a8 a9 a10 a11 a12 a13 a14 a15 a16 a17 a18 a19 := by
  cases k0 <;> cases k1 <;> cases k2
  · exact VS.lorentz_transform4D.cartesian_t_eq a0 a1 a2 a3 a4 a5 a6 a7 a8 a9 a10 a11 a12 a13 a14 a15 a16 a17 a18 a19
  · exact c08_lorentz_transform4D_k_xy_z_tau a0 a1 a2 a3 a4 a5 a6 a7 a8 a9 a10 a11 a12 a13 a14 a15 a16 a17 a18 a19 hc19
  · exact VS.lorentz_transform4D.k_xy_theta_t_eq a0 a1 a2 a3 a4 a5 a6 a7 a8 a9 a10 a11 a12 a13 a14 a15 a16 a17 a18 a19
  · exact c08_lorentz_transform4D_k_xy_theta_tau a0 a1 a2 a3 a4 a5 a6 a7 a8 a9 a10 a11 a12 a13 a14 a15 a16 a17 a18 a19 hc19
  · exact VS.lorentz_transform4D.k_xy_eta_t_eq a0 a1 a2 a3 a4 a5 a6 a7 a8 a9 a10 a11 a12 a13 a14 a15 a16 a17 a18 a19
  · exact c08_lorentz_transform4D_k_xy_eta_tau a0 a1 a2 a3 a4 a5 a6 a7 a8 a9 a10 a11 a12 a13 a14 a15 a16 a17 a18 a19 hc19
  · exact VS.lorentz_transform4D.k_rhophi_z_t_eq a0 a1 a2 a3 a4 a5 a6 a7 a8 a9 a10 a11 a12 a13 a14 a15 a16 a17 a18 a19
  · exact c08_lorentz_transform4D_k_rhophi_z_tau a0 a1 a2 a3 a4 a5 a6 a7 a8 a9 a10 a11 a12 a13 a14 a15 a16 a17 a18 a19 hc19
  · exact VS.lorentz_transform4D.k_rhophi_theta_t_eq a0 a1 a2 a3 a4 a5 a6 a7 a8 a9 a10 a11 a12 a13 a14 a15 a16 a17 a18 a19
  · exact c08_lorentz_transform4D_k_rhophi_theta_tau a0 a1 a2 a3 a4 a5 a6 a7 a8 a9 a10 a11 a12 a13 a14 a15 a16 a17 a18 a19 hc19
  · exact VS.lorentz_transform4D.k_rhophi_eta_t_eq a0 a1 a2 a3 a4 a5 a6 a7 a8 a9 a10 a11 a12 a13 a14 a15 a16 a17 a18 a19
  · exact c08_lorentz_transform4D_k_rhophi_eta_tau a0 a1 a2 a3 a4 a5 a6 a7 a8 a9 a10 a11 a12 a13 a14 a15 a16 a17 a18 a19 hc19

/-- `lorentz_Et`: all 12 keys -/
theorem c08_lorentz_Et (k0 : Az) (k1 : Lon) (k2 : Tmp) (a0 a1 a2 a3 : ℝ)
    (hc3 : CanonTmp k2 a3) :
    VS.lorentz_Et.eval k0 k1 k2 a0 a1 a2 a3 =
      VR.lorentz_Et.eval k0 k1 k2 a0 a1 a2 a3 := by
  cases k0 <;> cases k1 <;> cases k2
  · exact VS.lorentz_Et.xy_z_t_eq a0 a1 a2 a3
  · exact c08_lorentz_Et_xy_z_tau a0 a1 a2 a3 hc3
  · exact VS.lorentz_Et.xy_theta_t_eq a0 a1 a2 a3
  · exact c08_lorentz_Et_xy_theta_tau a0 a1 a2 a3 hc3
  · exact VS.lorentz_Et.xy_eta_t_eq a0 a1 a2 a3
  · exact c08_lorentz_Et_xy_eta_tau a0 a1 a2 a3 hc3
  · exact VS.lorentz_Et.rhophi_z_t_eq a0 a1 a2 a3
  · exact c08_lorentz_Et_rhophi_z_tau a0 a1 a2 a3 hc3
  · exact VS.lorentz_Et.rhophi_theta_t_eq a0 a1 a2 a3
  · exact c08_lorentz_Et_rhophi_theta_tau a0 a1 a2 a3 hc3
  · exact VS.lorentz_Et.rhophi_eta_t_eq a0 a1 a2 a3
  · exact c08_lorentz_Et_rhophi_eta_tau a0 a1 a2 a3 hc3

/-- `lorentz_Et2`: all 12 keys -/
theorem c08_lorentz_Et2 (k0 : Az) (k1 : Lon) (k2 : Tmp) (a0 a1 a2 a3 : ℝ)
    (hc3 : CanonTmp k2 a3) :
    VS.lorentz_Et2.eval k0 k1 k2 a0 a1 a2 a3 =
      VR.lorentz_Et2.eval k0 k1 k2 a0 a1 a2 a3 := by
  cases k0 <;> cases k1 <;> cases k2
  · exact VS.lorentz_Et2.xy_z_t_eq a0 a1 a2 a3
  · exact c08_lorentz_Et2_xy_z_tau a0 a1 a2 a3 hc3
  · exact VS.lorentz_Et2.xy_theta_t_eq a0 a1 a2 a3
  · exact c08_lorentz_Et2_xy_theta_tau a0 a1 a2 a3 hc3
  · exact VS.lorentz_Et2.xy_eta_t_eq a0 a1 a2 a3
  · exact c08_lorentz_Et2_xy_eta_tau a0 a1 a2 a3 hc3
  · exact VS.lorentz_Et2.rhophi_z_t_eq a0 a1 a2 a3
  · exact c08_lorentz_Et2_rhophi_z_tau a0 a1 a2 a3 hc3
  · exact VS.lorentz_Et2.rhophi_theta_t_eq a0 a1 a2 a3
  · exact c08_lorentz_Et2_rhophi_theta_tau a0 a1 a2 a3 hc3
  · exact VS.lorentz_Et2.rhophi_eta_t_eq a0 a1 a2 a3
  · exact c08_lorentz_Et2_rhophi_eta_tau a0 a1 a2 a3 hc3

/-- `lorentz_add`: all 144 keys -/
theorem c08_lorentz_add (k0 : Az) (k1 : Lon) (k2 : Tmp) (k3 : Az) (k4 : Lon) (k5 : Tmp) (a0 a1 a2 a3 a4 a5 a6 a7 : ℝ)
    (hc3 : CanonTmp k2 a3)
    (hc7 : CanonTmp k5 a7)
    (hres : k2 = .tau → k5 = .tau → 0 ≤ (VR.lorentz_add.eval k0 k1 k2 k3 k4 k5 a0 a1 a2 a3 a4 a5 a6 a7).2.2.2) :
    VS.lorentz_add.eval k0 k1 k2 k3 k4 k5 a0 a1 a2 a3 a4 a5 a6 a7 =
      VR.lorentz_add.eval k0 k1 k2 k3 k4 k5 a0 a1 a2 a3 a4 a5 a6 a7 := by
  cases k0 <;> cases k1 <;> cases k2 <;> cases k3 <;> cases k4 <;> cases k5
  · exact VS.lorentz_add.k_xy_z_t_xy_z_t_eq a0 a1 a2 a3 a4 a5 a6 a7
  · exact c08_lorentz_add_k_xy_z_t_xy_z_tau a0 a1 a2 a3 a4 a5 a6 a7 hc7
  · exact VS.lorentz_add.k_xy_z_t_xy_theta_t_eq a0 a1 a2 a3 a4 a5 a6 a7
  · exact c08_lorentz_add_k_xy_z_t_xy_theta_tau a0 a1 a2 a3 a4 a5 a6 a7 hc7
  · exact VS.lorentz_add.k_xy_z_t_xy_eta_t_eq a0 a1 a2 a3 a4 a5 a6 a7
  · exact c08_lorentz_add_k_xy_z_t_xy_eta_tau a0 a1 a2 a3 a4 a5 a6 a7 hc7
  · exact VS.lorentz_add.k_xy_z_t_rhophi_z_t_eq a0 a1 a2 a3 a4 a5 a6 a7
  · exact c08_lorentz_add_k_xy_z_t_rhophi_z_tau a0 a1 a2 a3 a4 a5 a6 a7 hc7
  · exact VS.lorentz_add.k_xy_z_t_rhophi_theta_t_eq a0 a1 a2 a3 a4 a5 a6 a7
  · exact c08_lorentz_add_k_xy_z_t_rhophi_theta_tau a0 a1 a2 a3 a4 a5 a6 a7 hc7
  · exact VS.lorentz_add.k_xy_z_t_rhophi_eta_t_eq a0 a1 a2 a3 a4 a5 a6 a7
  · exact c08_lorentz_add_k_xy_z_t_rhophi_eta_tau a0 a1 a2 a3 a4 a5 a6 a7 hc7
  · exact c08_lorentz_add_k_xy_z_tau_xy_z_t a0 a1 a2 a3 a4 a5 a6 a7 hc3
  · exact c08_lorentz_add_k_xy_z_tau_xy_z_tau a0 a1 a2 a3 a4 a5 a6 a7 hc3 hc7 (hres rfl rfl)
  · exact c08_lorentz_add_k_xy_z_tau_xy_theta_t a0 a1 a2 a3 a4 a5 a6 a7 hc3
  · exact c08_lorentz_add_k_xy_z_tau_xy_theta_tau a0 a1 a2 a3 a4 a5 a6 a7 hc3 hc7 (hres rfl rfl)
  · exact c08_lorentz_add_k_xy_z_tau_xy_eta_t a0 a1 a2 a3 a4 a5 a6 a7 hc3
  · exact c08_lorentz_add_k_xy_z_tau_xy_eta_tau a0 a1 a2 a3 a4 a5 a6 a7 hc3 hc7 (hres rfl rfl)
  · exact c08_lorentz_add_k_xy_z_tau_rhophi_z_t a0 a1 a2 a3 a4 a5 a6 a7 hc3
  · exact c08_lorentz_add_k_xy_z_tau_rhophi_z_tau a0 a1 a2 a3 a4 a5 a6 a7 hc3 hc7 (hres rfl rfl)
  · exact c08_lorentz_add_k_xy_z_tau_rhophi_theta_t a0 a1 a2 a3 a4 a5 a6 a7 hc3
  · exact c08_lorentz_add_k_xy_z_tau_rhophi_theta_tau a0 a1 a2 a3 a4 a5 a6 a7 hc3 hc7 (hres rfl rfl)
  · exact c08_lorentz_add_k_xy_z_tau_rhophi_eta_t a0 a1 a2 a3 a4 a5 a6 a7 hc3
  · exact c08_lorentz_add_k_xy_z_tau_rhophi_eta_tau a0 a1 a2 a3 a4 a5 a6 a7 hc3 hc7 (hres rfl rfl)
  · exact VS.lorentz_add.k_xy_theta_t_xy_z_t_eq a0 a1 a2 a3 a4 a5 a6 a7
  · exact c08_lorentz_add_k_xy_theta_t_xy_z_tau a0 a1 a2 a3 a4 a5 a6 a7 hc7
  · exact VS.lorentz_add.k_xy_theta_t_xy_theta_t_eq a0 a1 a2 a3 a4 a5 a6 a7
  · exact c08_lorentz_add_k_xy_theta_t_xy_theta_tau a0 a1 a2 a3 a4 a5 a6 a7 hc7
  · exact VS.lorentz_add.k_xy_theta_t_xy_eta_t_eq a0 a1 a2 a3 a4 a5 a6 a7
  · exact c08_lorentz_add_k_xy_theta_t_xy_eta_tau a0 a1 a2 a3 a4 a5 a6 a7 hc7
  · exact VS.lorentz_add.k_xy_theta_t_rhophi_z_t_eq a0 a1 a2 a3 a4 a5 a6 a7
  · exact c08_lorentz_add_k_xy_theta_t_rhophi_z_tau a0 a1 a2 a3 a4 a5 a6 a7 hc7
  · exact VS.lorentz_add.k_xy_theta_t_rhophi_theta_t_eq a0 a1 a2 a3 a4 a5 a6 a7
  · exact c08_lorentz_add_k_xy_theta_t_rhophi_theta_tau a0 a1 a2 a3 a4 a5 a6 a7 hc7
  · exact VS.lorentz_add.k_xy_theta_t_rhophi_eta_t_eq a0 a1 a2 a3 a4 a5 a6 a7
  · exact c08_lorentz_add_k_xy_theta_t_rhophi_eta_tau a0 a1 a2 a3 a4 a5 a6 a7 hc7
  · exact c08_lorentz_add_k_xy_theta_tau_xy_z_t a0 a1 a2 a3 a4 a5 a6 a7 hc3
  · exact c08_lorentz_add_k_xy_theta_tau_xy_z_tau a0 a1 a2 a3 a4 a5 a6 a7 hc3 hc7 (hres rfl rfl)
  · exact c08_lorentz_add_k_xy_theta_tau_xy_theta_t a0 a1 a2 a3 a4 a5 a6 a7 hc3
  · exact c08_lorentz_add_k_xy_theta_tau_xy_theta_tau a0 a1 a2 a3 a4 a5 a6 a7 hc3 hc7 (hres rfl rfl)
  · exact c08_lorentz_add_k_xy_theta_tau_xy_eta_t a0 a1 a2 a3 a4 a5 a6 a7 hc3
  · exact c08_lorentz_add_k_xy_theta_tau_xy_eta_tau a0 a1 a2 a3 a4 a5 a6 a7 hc3 hc7 (hres rfl rfl)
  · exact c08_lorentz_add_k_xy_theta_tau_rhophi_z_t a0 a1 a2 a3 a4 a5 a6 a7 hc3
  · exact c08_lorentz_add_k_xy_theta_tau_rhophi_z_tau a0 a1 a2 a3 a4 a5 a6 a7 hc3 hc7 (hres rfl rfl)
  · exact c08_lorentz_add_k_xy_theta_tau_rhophi_theta_t a0 a1 a2 a3 a4 a5 a6 a7 hc3
  · exact c08_lorentz_add_k_xy_theta_tau_rhophi_theta_tau a0 a1 a2 a3 a4 a5 a6 a7 hc3 hc7 (hres rfl rfl)
  · exact c08_lorentz_add_k_xy_theta_tau_rhophi_eta_t a0 a1 a2 a3 a4 a5 a6 a7 hc3
  · exact c08_lorentz_add_k_xy_theta_tau_rhophi_eta_tau a0 a1 a2 a3 a4 a5 a6 a7 hc3 hc7 (hres rfl rfl)
  · exact VS.lorentz_add.k_xy_eta_t_xy_z_t_eq a0 a1 a2 a3 a4 a5 a6 a7
  · exact c08_lorentz_add_k_xy_eta_t_xy_z_tau a0 a1 a2 a3 a4 a5 a6 a7 hc7
  · exact VS.lorentz_add.k_xy_eta_t_xy_theta_t_eq a0 a1 a2 a3 a4 a5 a6 a7
  · exact c08_lorentz_add_k_xy_eta_t_xy_theta_tau a0 a1 a2 a3 a4 a5 a6 a7 hc7
  · exact VS.lorentz_add.k_xy_eta_t_xy_eta_t_eq a0 a1 a2 a3 a4 a5 a6 a7
  · exact c08_lorentz_add_k_xy_eta_t_xy_eta_tau a0 a1 a2 a3 a4 a5 a6 a7 hc7
  · exact VS.lorentz_add.k_xy_eta_t_rhophi_z_t_eq a0 a1 a2 a3 a4 a5 a6 a7
  · exact c08_lorentz_add_k_xy_eta_t_rhophi_z_tau a0 a1 a2 a3 a4 a5 a6 a7 hc7
  · exact VS.lorentz_add.k_xy_eta_t_rhophi_theta_t_eq a0 a1 a2 a3 a4 a5 a6 a7
  · exact c08_lorentz_add_k_xy_eta_t_rhophi_theta_tau a0 a1 a2 a3 a4 a5 a6 a7 hc7
  · exact VS.lorentz_add.k_xy_eta_t_rhophi_eta_t_eq a0 a1 a2 a3 a4 a5 a6 a7
  · exact c08_lorentz_add_k_xy_eta_t_rhophi_eta_tau a0 a1 a2 a3 a4 a5 a6 a7 hc7
  · exact c08_lorentz_add_k_xy_eta_tau_xy_z_t a0 a1 a2 a3 a4 a5 a6 a7 hc3
  · exact c08_lorentz_add_k_xy_eta_tau_xy_z_tau a0 a1 a2 a3 a4 a5 a6 a7 hc3 hc7 (hres rfl rfl)
  · exact c08_lorentz_add_k_xy_eta_tau_xy_theta_t a0 a1 a2 a3 a4 a5 a6 a7 hc3
  · exact c08_lorentz_add_k_xy_eta_tau_xy_theta_tau a0 a1 a2 a3 a4 a5 a6 a7 hc3 hc7 (hres rfl rfl)
  · exact c08_lorentz_add_k_xy_eta_tau_xy_eta_t a0 a1 a2 a3 a4 a5 a6 a7 hc3
  · exact c08_lorentz_add_k_xy_eta_tau_xy_eta_tau a0 a1 a2 a3 a4 a5 a6 a7 hc3 hc7 (hres rfl rfl)
  · exact c08_lorentz_add_k_xy_eta_tau_rhophi_z_t a0 a1 a2 a3 a4 a5 a6 a7 hc3
  · exact c08_lorentz_add_k_xy_eta_tau_rhophi_z_tau a0 a1 a2 a3 a4 a5 a6 a7 hc3 hc7 (hres rfl rfl)
  · exact c08_lorentz_add_k_xy_eta_tau_rhophi_theta_t a0 a1 a2 a3 a4 a5 a6 a7 hc3
  · exact c08_lorentz_add_k_xy_eta_tau_rhophi_theta_tau a0 a1 a2 a3 a4 a5 a6 a7 hc3 hc7 (hres rfl rfl)
  · exact c08_lorentz_add_k_xy_eta_tau_rhophi_eta_t a0 a1 a2 a3 a4 a5 a6 a7 hc3
  · exact c08_lorentz_add_k_xy_eta_tau_rhophi_eta_tau a0 a1 a2 a3 a4 a5 a6 a7 hc3 hc7 (hres rfl rfl)
  · exact VS.lorentz_add.k_rhophi_z_t_xy_z_t_eq a0 a1 a2 a3 a4 a5 a6 a7
  · exact c08_lorentz_add_k_rhophi_z_t_xy_z_tau a0 a1 a2 a3 a4 a5 a6 a7 hc7
  · exact VS.lorentz_add.k_rhophi_z_t_xy_theta_t_eq a0 a1 a2 a3 a4 a5 a6 a7
  · exact c08_lorentz_add_k_rhophi_z_t_xy_theta_tau a0 a1 a2 a3 a4 a5 a6 a7 hc7
  · exact VS.lorentz_add.k_rhophi_z_t_xy_eta_t_eq a0 a1 a2 a3 a4 a5 a6 a7
  · exact c08_lorentz_add_k_rhophi_z_t_xy_eta_tau a0 a1 a2 a3 a4 a5 a6 a7 hc7
  · exact VS.lorentz_add.k_rhophi_z_t_rhophi_z_t_eq a0 a1 a2 a3 a4 a5 a6 a7
  · exact c08_lorentz_add_k_rhophi_z_t_rhophi_z_tau a0 a1 a2 a3 a4 a5 a6 a7 hc7
  · exact VS.lorentz_add.k_rhophi_z_t_rhophi_theta_t_eq a0 a1 a2 a3 a4 a5 a6 a7
  · exact c08_lorentz_add_k_rhophi_z_t_rhophi_theta_tau a0 a1 a2 a3 a4 a5 a6 a7 hc7
  · exact VS.lorentz_add.k_rhophi_z_t_rhophi_eta_t_eq a0 a1 a2 a3 a4 a5 a6 a7
  · exact c08_lorentz_add_k_rhophi_z_t_rhophi_eta_tau a0 a1 a2 a3 a4 a5 a6 a7 hc7
  · exact c08_lorentz_add_k_rhophi_z_tau_xy_z_t a0 a1 a2 a3 a4 a5 a6 a7 hc3
  · exact c08_lorentz_add_k_rhophi_z_tau_xy_z_tau a0 a1 a2 a3 a4 a5 a6 a7 hc3 hc7 (hres rfl rfl)
  · exact c08_lorentz_add_k_rhophi_z_tau_xy_theta_t a0 a1 a2 a3 a4 a5 a6 a7 hc3
  · exact c08_lorentz_add_k_rhophi_z_tau_xy_theta_tau a0 a1 a2 a3 a4 a5 a6 a7 hc3 hc7 (hres rfl rfl)
  · exact c08_lorentz_add_k_rhophi_z_tau_xy_eta_t a0 a1 a2 a3 a4 a5 a6 a7 hc3
  · exact c08_lorentz_add_k_rhophi_z_tau_xy_eta_tau a0 a1 a2 a3 a4 a5 a6 a7 hc3 hc7 (hres rfl rfl)
  · exact c08_lorentz_add_k_rhophi_z_tau_rhophi_z_t a0 a1 a2 a3 a4 a5 a6 a7 hc3
  · exact c08_lorentz_add_k_rhophi_z_tau_rhophi_z_tau a0 a1 a2 a3 a4 a5 a6 a7 hc3 hc7 (hres rfl rfl)
  · exact c08_lorentz_add_k_rhophi_z_tau_rhophi_theta_t a0 a1 a2 a3 a4 a5 a6 a7 hc3
  · exact c08_lorentz_add_k_rhophi_z_tau_rhophi_theta_tau a0 a1 a2 a3 a4 a5 a6 a7 hc3 hc7 (hres rfl rfl)
  · exact c08_lorentz_add_k_rhophi_z_tau_rhophi_eta_t a0 a1 a2 a3 a4 a5 a6 a7 hc3
  · exact c08_lorentz_add_k_rhophi_z_tau_rhophi_eta_tau a0 a1 a2 a3 a4 a5 a6 a7 hc3 hc7 (hres rfl rfl)
  · exact VS.lorentz_add.k_rhophi_theta_t_xy_z_t_eq a0 a1 a2 a3 a4 a5 a6 a7
  · exact c08_lorentz_add_k_rhophi_theta_t_xy_z_tau a0 a1 a2 a3 a4 a5 a6 a7 hc7
  · exact VS.lorentz_add.k_rhophi_theta_t_xy_theta_t_eq a0 a1 a2 a3 a4 a5 a6 a7
  · exact c08_lorentz_add_k_rhophi_theta_t_xy_theta_tau a0 a1 a2 a3 a4 a5 a6 a7 hc7
  · exact VS.lorentz_add.k_rhophi_theta_t_xy_eta_t_eq a0 a1 a2 a3 a4 a5 a6 a7
  · exact c08_lorentz_add_k_rhophi_theta_t_xy_eta_tau a0 a1 a2 a3 a4 a5 a6 a7 hc7
  · exact VS.lorentz_add.k_rhophi_theta_t_rhophi_z_t_eq a0 a1 a2 a3 a4 a5 a6 a7
  · exact c08_lorentz_add_k_rhophi_theta_t_rhophi_z_tau a0 a1 a2 a3 a4 a5 a6 a7 hc7
  · exact VS.lorentz_add.k_rhophi_theta_t_rhophi_theta_t_eq a0 a1 a2 a3 a4 a5 a6 a7
  · exact c08_lorentz_add_k_rhophi_theta_t_rhophi_theta_tau a0 a1 a2 a3 a4 a5 a6 a7 hc7
  · exact VS.lorentz_add.k_rhophi_theta_t_rhophi_eta_t_eq a0 a1 a2 a3 a4 a5 a6 a7
  · exact c08_lorentz_add_k_rhophi_theta_t_rhophi_eta_tau a0 a1 a2 a3 a4 a5 a6 a7 hc7
  · exact c08_lorentz_add_k_rhophi_theta_tau_xy_z_t a0 a1 a2 a3 a4 a5 a6 a7 hc3
  · exact c08_lorentz_add_k_rhophi_theta_tau_xy_z_tau a0 a1 a2 a3 a4 a5 a6 a7 hc3 hc7 (hres rfl rfl)
  · exact c08_lorentz_add_k_rhophi_theta_tau_xy_theta_t a0 a1 a2 a3 a4 a5 a6 a7 hc3
  · exact c08_lorentz_add_k_rhophi_theta_tau_xy_theta_tau a0 a1 a2 a3 a4 a5 a6 a7 hc3 hc7 (hres rfl rfl)
  · exact c08_lorentz_add_k_rhophi_theta_tau_xy_eta_t a0 a1 a2 a3 a4 a5 a6 a7 hc3
  · exact c08_lorentz_add_k_rhophi_theta_tau_xy_eta_tau a0 a1 a2 a3 a4 a5 a6 a7 hc3 hc7 (hres rfl rfl)
  · exact c08_lorentz_add_k_rhophi_theta_tau_rhophi_z_t a0 a1 a2 a3 a4 a5 a6 a7 hc3
  · exact c08_lorentz_add_k_rhophi_theta_tau_rhophi_z_tau a0 a1 a2 a3 a4 a5 a6 a7 hc3 hc7 (hres rfl rfl)
  · exact c08_lorentz_add_k_rhophi_theta_tau_rhophi_theta_t a0 a1 a2 a3 a4 a5 a6 a7 hc3
  · exact c08_lorentz_add_k_rhophi_theta_tau_rhophi_theta_tau a0 a1 a2 a3 a4 a5 a6 a7 hc3 hc7 (hres rfl rfl)
  · exact c08_lorentz_add_k_rhophi_theta_tau_rhophi_eta_t a0 a1 a2 a3 a4 a5 a6 a7 hc3
  · exact c08_lorentz_add_k_rhophi_theta_tau_rhophi_eta_tau a0 a1 a2 a3 a4 a5 a6 a7 hc3 hc7 (hres rfl rfl)
  · exact VS.lorentz_add.k_rhophi_eta_t_xy_z_t_eq a0 a1 a2 a3 a4 a5 a6 a7
  · exact c08_lorentz_add_k_rhophi_eta_t_xy_z_tau a0 a1 a2 a3 a4 a5 a6 a7 hc7
  · exact VS.lorentz_add.k_rhophi_eta_t_xy_theta_t_eq a0 a1 a2 a3 a4 a5 a6 a7
  · exact c08_lorentz_add_k_rhophi_eta_t_xy_theta_tau a0 a1 a2 a3 a4 a5 a6 a7 hc7
  · exact VS.lorentz_add.k_rhophi_eta_t_xy_eta_t_eq a0 a1 a2 a3 a4 a5 a6 a7
  · exact c08_lorentz_add_k_rhophi_eta_t_xy_eta_tau a0 a1 a2 a3 a4 a5 a6 a7 hc7
  · exact VS.lorentz_add.k_rhophi_eta_t_rhophi_z_t_eq a0 a1 a2 a3 a4 a5 a6 a7
  · exact c08_lorentz_add_k_rhophi_eta_t_rhophi_z_tau a0 a1 a2 a3 a4 a5 a6 a7 hc7
  · exact VS.lorentz_add.k_rhophi_eta_t_rhophi_theta_t_eq a0 a1 a2 a3 a4 a5 a6 a7
  · exact c08_lorentz_add_k_rhophi_eta_t_rhophi_theta_tau a0 a1 a2 a3 a4 a5 a6 a7 hc7
  · exact VS.lorentz_add.k_rhophi_eta_t_rhophi_eta_t_eq a0 a1 a2 a3 a4 a5 a6 a7
  · exact c08_lorentz_add_k_rhophi_eta_t_rhophi_eta_tau a0 a1 a2 a3 a4 a5 a6 a7 hc7
  · exact c08_lorentz_add_k_rhophi_eta_tau_xy_z_t a0 a1 a2 a3 a4 a5 a6 a7 hc3
  · exact c08_lorentz_add_k_rhophi_eta_tau_xy_z_tau a0 a1 a2 a3 a4 a5 a6 a7 hc3 hc7 (hres rfl rfl)
  · exact c08_lorentz_add_k_rhophi_eta_tau_xy_theta_t a0 a1 a2 a3 a4 a5 a6 a7 hc3
  · exact c08_lorentz_add_k_rhophi_eta_tau_xy_theta_tau a0 a1 a2 a3 a4 a5 a6 a7 hc3 hc7 (hres rfl rfl)
  · exact c08_lorentz_add_k_rhophi_eta_tau_xy_eta_t a0 a1 a2 a3 a4 a5 a6 a7 hc3
  · exact c08_lorentz_add_k_rhophi_eta_tau_xy_eta_tau a0 a1 a2 a3 a4 a5 a6 a7 hc3 hc7 (hres rfl rfl)
  · exact c08_lorentz_add_k_rhophi_eta_tau_rhophi_z_t a0 a1 a2 a3 a4 a5 a6 a7 hc3
  · exact c08_lorentz_add_k_rhophi_eta_tau_rhophi_z_tau a0 a1 a2 a3 a4 a5 a6 a7 hc3 hc7 (hres rfl rfl)
  · exact c08_lorentz_add_k_rhophi_eta_tau_rhophi_theta_t a0 a1 a2 a3 a4 a5 a6 a7 hc3
  · exact c08_lorentz_add_k_rhophi_eta_tau_rhophi_theta_tau a0 a1 a2 a3 a4 a5 a6 a7 hc3 hc7 (hres rfl rfl)
  · exact c08_lorentz_add_k_rhophi_eta_tau_rhophi_eta_t a0 a1 a2 a3 a4 a5 a6 a7 hc3
  · exact c08_lorentz_add_k_rhophi_eta_tau_rhophi_eta_tau a0 a1 a2 a3 a4 a5 a6 a7 hc3 hc7 (hres rfl rfl)

/-- `lorentz_beta`: all 12 keys -/
theorem c08_lorentz_beta (k0 : Az) (k1 : Lon) (k2 : Tmp) (a0 a1 a2 a3 : ℝ)
    (hc3 : CanonTmp k2 a3) :
    VS.lorentz_beta.eval k0 k1 k2 a0 a1 a2 a3 =
      VR.lorentz_beta.eval k0 k1 k2 a0 a1 a2 a3 := by
  cases k0 <;> cases k1 <;> cases k2
  · exact VS.lorentz_beta.xy_z_t_eq a0 a1 a2 a3
  · exact c08_lorentz_beta_xy_z_tau a0 a1 a2 a3 hc3
  · exact VS.lorentz_beta.xy_theta_t_eq a0 a1 a2 a3
  · exact c08_lorentz_beta_xy_theta_tau a0 a1 a2 a3 hc3
  · exact VS.lorentz_beta.xy_eta_t_eq a0 a1 a2 a3
  · exact c08_lorentz_beta_xy_eta_tau a0 a1 a2 a3 hc3
  · exact VS.lorentz_beta.rhophi_z_t_eq a0 a1 a2 a3
  · exact c08_lorentz_beta_rhophi_z_tau a0 a1 a2 a3 hc3
  · exact VS.lorentz_beta.rhophi_theta_t_eq a0 a1 a2 a3
  · exact c08_lorentz_beta_rhophi_theta_tau a0 a1 a2 a3 hc3
  · exact VS.lorentz_beta.rhophi_eta_t_eq a0 a1 a2 a3
  · exact c08_lorentz_beta_rhophi_eta_tau a0 a1 a2 a3 hc3

/-- `lorentz_boostX_beta`: all 12 keys -/
theorem c08_lorentz_boostX_beta (k0 : Az) (k1 : Lon) (k2 : Tmp) (a0 a1 a2 a3 a4 : ℝ)
    (hc4 : CanonTmp k2 a4) :
    VS.lorentz_boostX_beta.eval k0 k1 k2 a0 a1 a2 a3 a4 =
      VR.lorentz_boostX_beta.eval k0 k1 k2 a0 a1 a2 a3 a4 := by
  cases k0 <;> cases k1 <;> cases k2
  · exact VS.lorentz_boostX_beta.xy_z_t_eq a0 a1 a2 a3 a4
  · exact c08_lorentz_boostX_beta_xy_z_tau a0 a1 a2 a3 a4 hc4
  · exact VS.lorentz_boostX_beta.xy_theta_t_eq a0 a1 a2 a3 a4
  · exact c08_lorentz_boostX_beta_xy_theta_tau a0 a1 a2 a3 a4 hc4
  · exact VS.lorentz_boostX_beta.xy_eta_t_eq a0 a1 a2 a3 a4
  · exact c08_lorentz_boostX_beta_xy_eta_tau a0 a1 a2 a3 a4 hc4
  · exact VS.lorentz_boostX_beta.rhophi_z_t_eq a0 a1 a2 a3 a4
  · exact c08_lorentz_boostX_beta_rhophi_z_tau a0 a1 a2 a3 a4 hc4
  · exact VS.lorentz_boostX_beta.rhophi_theta_t_eq a0 a1 a2 a3 a4
  · exact c08_lorentz_boostX_beta_rhophi_theta_tau a0 a1 a2 a3 a4 hc4
  · exact VS.lorentz_boostX_beta.rhophi_eta_t_eq a0 a1 a2 a3 a4
  · exact c08_lorentz_boostX_beta_rhophi_eta_tau a0 a1 a2 a3 a4 hc4

/-- `lorentz_boostX_gamma`: all 12 keys -/
theorem c08_lorentz_boostX_gamma (k0 : Az) (k1 : Lon) (k2 : Tmp) (a0 a1 a2 a3 a4 : ℝ)
    (ha0 : 0 ≤ a0)
    (hc4 : CanonTmp k2 a4) :
    VS.lorentz_boostX_gamma.eval k0 k1 k2 a0 a1 a2 a3 a4 =
      VR.lorentz_boostX_gamma.eval k0 k1 k2 a0 a1 a2 a3 a4 := by
  cases k0 <;> cases k1 <;> cases k2
  · exact c08_lorentz_boostX_gamma_xy_z_t a0 a1 a2 a3 a4 ha0
  · exact c08_lorentz_boostX_gamma_xy_z_tau a0 a1 a2 a3 a4 ha0 hc4
  · exact c08_lorentz_boostX_gamma_xy_theta_t a0 a1 a2 a3 a4 ha0
  · exact c08_lorentz_boostX_gamma_xy_theta_tau a0 a1 a2 a3 a4 ha0 hc4
  · exact c08_lorentz_boostX_gamma_xy_eta_t a0 a1 a2 a3 a4 ha0
  · exact c08_lorentz_boostX_gamma_xy_eta_tau a0 a1 a2 a3 a4 ha0 hc4
  · exact c08_lorentz_boostX_gamma_rhophi_z_t a0 a1 a2 a3 a4 ha0
  · exact c08_lorentz_boostX_gamma_rhophi_z_tau a0 a1 a2 a3 a4 ha0 hc4
  · exact c08_lorentz_boostX_gamma_rhophi_theta_t a0 a1 a2 a3 a4 ha0
  · exact c08_lorentz_boostX_gamma_rhophi_theta_tau a0 a1 a2 a3 a4 ha0 hc4
  · exact c08_lorentz_boostX_gamma_rhophi_eta_t a0 a1 a2 a3 a4 ha0
  · exact c08_lorentz_boostX_gamma_rhophi_eta_tau a0 a1 a2 a3 a4 ha0 hc4

/-- `lorentz_boostY_beta`: all 12 keys -/
theorem c08_lorentz_boostY_beta (k0 : Az) (k1 : Lon) (k2 : Tmp) (a0 a1 a2 a3 a4 : ℝ)
    (hc4 : CanonTmp k2 a4) :
    VS.lorentz_boostY_beta.eval k0 k1 k2 a0 a1 a2 a3 a4 =
      VR.lorentz_boostY_beta.eval k0 k1 k2 a0 a1 a2 a3 a4 := by
  cases k0 <;> cases k1 <;> cases k2
  · exact VS.lorentz_boostY_beta.xy_z_t_eq a0 a1 a2 a3 a4
  · exact c08_lorentz_boostY_beta_xy_z_tau a0 a1 a2 a3 a4 hc4
  · exact VS.lorentz_boostY_beta.xy_theta_t_eq a0 a1 a2 a3 a4
  · exact c08_lorentz_boostY_beta_xy_theta_tau a0 a1 a2 a3 a4 hc4
  · exact VS.lorentz_boostY_beta.xy_eta_t_eq a0 a1 a2 a3 a4
  · exact c08_lorentz_boostY_beta_xy_eta_tau a0 a1 a2 a3 a4 hc4
  · exact VS.lorentz_boostY_beta.rhophi_z_t_eq a0 a1 a2 a3 a4
  · exact c08_lorentz_boostY_beta_rhophi_z_tau a0 a1 a2 a3 a4 hc4
  · exact VS.lorentz_boostY_beta.rhophi_theta_t_eq a0 a1 a2 a3 a4
  · exact c08_lorentz_boostY_beta_rhophi_theta_tau a0 a1 a2 a3 a4 hc4
  · exact VS.lorentz_boostY_beta.rhophi_eta_t_eq a0 a1 a2 a3 a4
  · exact c08_lorentz_boostY_beta_rhophi_eta_tau a0 a1 a2 a3 a4 hc4

/-- `lorentz_boostY_gamma`: all 12 keys -/
theorem c08_lorentz_boostY_gamma (k0 : Az) (k1 : Lon) (k2 : Tmp) (a0 a1 a2 a3 a4 : ℝ)
    (ha0 : 0 ≤ a0)
    (hc4 : CanonTmp k2 a4) :
    VS.lorentz_boostY_gamma.eval k0 k1 k2 a0 a1 a2 a3 a4 =
      VR.lorentz_boostY_gamma.eval k0 k1 k2 a0 a1 a2 a3 a4 := by
  cases k0 <;> cases k1 <;> cases k2
  · exact c08_lorentz_boostY_gamma_xy_z_t a0 a1 a2 a3 a4 ha0
  · exact c08_lorentz_boostY_gamma_xy_z_tau a0 a1 a2 a3 a4 ha0 hc4
  · exact c08_lorentz_boostY_gamma_xy_theta_t a0 a1 a2 a3 a4 ha0
  · exact c08_lorentz_boostY_gamma_xy_theta_tau a0 a1 a2 a3 a4 ha0 hc4
  · exact c08_lorentz_boostY_gamma_xy_eta_t a0 a1 a2 a3 a4 ha0
  · exact c08_lorentz_boostY_gamma_xy_eta_tau a0 a1 a2 a3 a4 ha0 hc4
  · exact c08_lorentz_boostY_gamma_rhophi_z_t a0 a1 a2 a3 a4 ha0
  · exact c08_lorentz_boostY_gamma_rhophi_z_tau a0 a1 a2 a3 a4 ha0 hc4
  · exact c08_lorentz_boostY_gamma_rhophi_theta_t a0 a1 a2 a3 a4 ha0
  · exact c08_lorentz_boostY_gamma_rhophi_theta_tau a0 a1 a2 a3 a4 ha0 hc4
  · exact c08_lorentz_boostY_gamma_rhophi_eta_t a0 a1 a2 a3 a4 ha0
  · exact c08_lorentz_boostY_gamma_rhophi_eta_tau a0 a1 a2 a3 a4 ha0 hc4

/-- `lorentz_boostZ_beta`: all 12 keys -/
theorem c08_lorentz_boostZ_beta (k0 : Az) (k1 : Lon) (k2 : Tmp) (a0 a1 a2 a3 a4 : ℝ)
    (hc4 : CanonTmp k2 a4) :
    VS.lorentz_boostZ_beta.eval k0 k1 k2 a0 a1 a2 a3 a4 =
      VR.lorentz_boostZ_beta.eval k0 k1 k2 a0 a1 a2 a3 a4 := by
  cases k0 <;> cases k1 <;> cases k2
  · exact VS.lorentz_boostZ_beta.xy_z_t_eq a0 a1 a2 a3 a4
  · exact c08_lorentz_boostZ_beta_xy_z_tau a0 a1 a2 a3 a4 hc4
  · exact VS.lorentz_boostZ_beta.xy_theta_t_eq a0 a1 a2 a3 a4
  · exact c08_lorentz_boostZ_beta_xy_theta_tau a0 a1 a2 a3 a4 hc4
  · exact VS.lorentz_boostZ_beta.xy_eta_t_eq a0 a1 a2 a3 a4
  · exact c08_lorentz_boostZ_beta_xy_eta_tau a0 a1 a2 a3 a4 hc4
  · exact VS.lorentz_boostZ_beta.rhophi_z_t_eq a0 a1 a2 a3 a4
  · exact c08_lorentz_boostZ_beta_rhophi_z_tau a0 a1 a2 a3 a4 hc4
  · exact VS.lorentz_boostZ_beta.rhophi_theta_t_eq a0 a1 a2 a3 a4
  · exact c08_lorentz_boostZ_beta_rhophi_theta_tau a0 a1 a2 a3 a4 hc4
  · exact VS.lorentz_boostZ_beta.rhophi_eta_t_eq a0 a1 a2 a3 a4
  · exact c08_lorentz_boostZ_beta_rhophi_eta_tau a0 a1 a2 a3 a4 hc4

/-- `lorentz_boostZ_gamma`: all 12 keys -/
theorem c08_lorentz_boostZ_gamma (k0 : Az) (k1 : Lon) (k2 : Tmp) (a0 a1 a2 a3 a4 : ℝ)
    (ha0 : 0 ≤ a0)
    (hc4 : CanonTmp k2 a4) :
    VS.lorentz_boostZ_gamma.eval k0 k1 k2 a0 a1 a2 a3 a4 =
      VR.lorentz_boostZ_gamma.eval k0 k1 k2 a0 a1 a2 a3 a4 := by
  cases k0 <;> cases k1 <;> cases k2
  · exact c08_lorentz_boostZ_gamma_xy_z_t a0 a1 a2 a3 a4 ha0
  · exact c08_lorentz_boostZ_gamma_xy_z_tau a0 a1 a2 a3 a4 ha0 hc4
  · exact c08_lorentz_boostZ_gamma_xy_theta_t a0 a1 a2 a3 a4 ha0
  · exact c08_lorentz_boostZ_gamma_xy_theta_tau a0 a1 a2 a3 a4 ha0 hc4
  · exact c08_lorentz_boostZ_gamma_xy_eta_t a0 a1 a2 a3 a4 ha0
  · exact c08_lorentz_boostZ_gamma_xy_eta_tau a0 a1 a2 a3 a4 ha0 hc4
  · exact c08_lorentz_boostZ_gamma_rhophi_z_t a0 a1 a2 a3 a4 ha0
  · exact c08_lorentz_boostZ_gamma_rhophi_z_tau a0 a1 a2 a3 a4 ha0 hc4
  · exact c08_lorentz_boostZ_gamma_rhophi_theta_t a0 a1 a2 a3 a4 ha0
  · exact c08_lorentz_boostZ_gamma_rhophi_theta_tau a0 a1 a2 a3 a4 ha0 hc4
  · exact c08_lorentz_boostZ_gamma_rhophi_eta_t a0 a1 a2 a3 a4 ha0
  · exact c08_lorentz_boostZ_gamma_rhophi_eta_tau a0 a1 a2 a3 a4 ha0 hc4

/-- `lorentz_boost_beta3`: all 72 keys -/
theorem c08_lorentz_boost_beta3 (k0 : Az) (k1 : Lon) (k2 : Tmp) (k3 : Az) (k4 : Lon) (a0 a1 a2 a3 a4 a5 a6 : ℝ)
    (hc3 : CanonTmp k2 a3) :
    VS.lorentz_boost_beta3.eval k0 k1 k2 k3 k4 a0 a1 a2 a3 a4 a5 a6 =
      VR.lorentz_boost_beta3.eval k0 k1 k2 k3 k4 a0 a1 a2 a3 a4 a5 a6 := by
  cases k0 <;> cases k1 <;> cases k2 <;> cases k3 <;> cases k4
  · exact VS.lorentz_boost_beta3.cartesian_t_xy_z_eq a0 a1 a2 a3 a4 a5 a6
  · exact VS.lorentz_boost_beta3.cartesian_t_xy_theta_eq a0 a1 a2 a3 a4 a5 a6
  · exact VS.lorentz_boost_beta3.cartesian_t_xy_eta_eq a0 a1 a2 a3 a4 a5 a6
  · exact VS.lorentz_boost_beta3.cartesian_t_rhophi_z_eq a0 a1 a2 a3 a4 a5 a6
  · exact VS.lorentz_boost_beta3.cartesian_t_rhophi_theta_eq a0 a1 a2 a3 a4 a5 a6
  · exact VS.lorentz_boost_beta3.cartesian_t_rhophi_eta_eq a0 a1 a2 a3 a4 a5 a6
  · exact c08_lorentz_boost_beta3_k_xy_z_tau_xy_z a0 a1 a2 a3 a4 a5 a6 hc3
  · exact c08_lorentz_boost_beta3_k_xy_z_tau_xy_theta a0 a1 a2 a3 a4 a5 a6 hc3
  · exact c08_lorentz_boost_beta3_k_xy_z_tau_xy_eta a0 a1 a2 a3 a4 a5 a6 hc3
  · exact c08_lorentz_boost_beta3_k_xy_z_tau_rhophi_z a0 a1 a2 a3 a4 a5 a6 hc3
  · exact c08_lorentz_boost_beta3_k_xy_z_tau_rhophi_theta a0 a1 a2 a3 a4 a5 a6 hc3
  · exact c08_lorentz_boost_beta3_k_xy_z_tau_rhophi_eta a0 a1 a2 a3 a4 a5 a6 hc3
  · exact VS.lorentz_boost_beta3.k_xy_theta_t_xy_z_eq a0 a1 a2 a3 a4 a5 a6
  · exact VS.lorentz_boost_beta3.k_xy_theta_t_xy_theta_eq a0 a1 a2 a3 a4 a5 a6
  · exact VS.lorentz_boost_beta3.k_xy_theta_t_xy_eta_eq a0 a1 a2 a3 a4 a5 a6
  · exact VS.lorentz_boost_beta3.k_xy_theta_t_rhophi_z_eq a0 a1 a2 a3 a4 a5 a6
  · exact VS.lorentz_boost_beta3.k_xy_theta_t_rhophi_theta_eq a0 a1 a2 a3 a4 a5 a6
  · exact VS.lorentz_boost_beta3.k_xy_theta_t_rhophi_eta_eq a0 a1 a2 a3 a4 a5 a6
  · exact c08_lorentz_boost_beta3_k_xy_theta_tau_xy_z a0 a1 a2 a3 a4 a5 a6 hc3
  · exact c08_lorentz_boost_beta3_k_xy_theta_tau_xy_theta a0 a1 a2 a3 a4 a5 a6 hc3
  · exact c08_lorentz_boost_beta3_k_xy_theta_tau_xy_eta a0 a1 a2 a3 a4 a5 a6 hc3
  · exact c08_lorentz_boost_beta3_k_xy_theta_tau_rhophi_z a0 a1 a2 a3 a4 a5 a6 hc3
  · exact c08_lorentz_boost_beta3_k_xy_theta_tau_rhophi_theta a0 a1 a2 a3 a4 a5 a6 hc3
  · exact c08_lorentz_boost_beta3_k_xy_theta_tau_rhophi_eta a0 a1 a2 a3 a4 a5 a6 hc3
  · exact VS.lorentz_boost_beta3.k_xy_eta_t_xy_z_eq a0 a1 a2 a3 a4 a5 a6
  · exact VS.lorentz_boost_beta3.k_xy_eta_t_xy_theta_eq a0 a1 a2 a3 a4 a5 a6
  · exact VS.lorentz_boost_beta3.k_xy_eta_t_xy_eta_eq a0 a1 a2 a3 a4 a5 a6
  · exact VS.lorentz_boost_beta3.k_xy_eta_t_rhophi_z_eq a0 a1 a2 a3 a4 a5 a6
  · exact VS.lorentz_boost_beta3.k_xy_eta_t_rhophi_theta_eq a0 a1 a2 a3 a4 a5 a6
  · exact VS.lorentz_boost_beta3.k_xy_eta_t_rhophi_eta_eq a0 a1 a2 a3 a4 a5 a6
  · exact c08_lorentz_boost_beta3_k_xy_eta_tau_xy_z a0 a1 a2 a3 a4 a5 a6 hc3
  · exact c08_lorentz_boost_beta3_k_xy_eta_tau_xy_theta a0 a1 a2 a3 a4 a5 a6 hc3
  · exact c08_lorentz_boost_beta3_k_xy_eta_tau_xy_eta a0 a1 a2 a3 a4 a5 a6 hc3
  · exact c08_lorentz_boost_beta3_k_xy_eta_tau_rhophi_z a0 a1 a2 a3 a4 a5 a6 hc3
  · exact c08_lorentz_boost_beta3_k_xy_eta_tau_rhophi_theta a0 a1 a2 a3 a4 a5 a6 hc3
  · exact c08_lorentz_boost_beta3_k_xy_eta_tau_rhophi_eta a0 a1 a2 a3 a4 a5 a6 hc3
  · exact VS.lorentz_boost_beta3.k_rhophi_z_t_xy_z_eq a0 a1 a2 a3 a4 a5 a6
  · exact VS.lorentz_boost_beta3.k_rhophi_z_t_xy_theta_eq a0 a1 a2 a3 a4 a5 a6
  · exact VS.lorentz_boost_beta3.k_rhophi_z_t_xy_eta_eq a0 a1 a2 a3 a4 a5 a6
  · exact VS.lorentz_boost_beta3.k_rhophi_z_t_rhophi_z_eq a0 a1 a2 a3 a4 a5 a6
  · exact VS.lorentz_boost_beta3.k_rhophi_z_t_rhophi_theta_eq a0 a1 a2 a3 a4 a5 a6
  · exact VS.lorentz_boost_beta3.k_rhophi_z_t_rhophi_eta_eq a0 a1 a2 a3 a4 a5 a6
  · exact c08_lorentz_boost_beta3_k_rhophi_z_tau_xy_z a0 a1 a2 a3 a4 a5 a6 hc3
  · exact c08_lorentz_boost_beta3_k_rhophi_z_tau_xy_theta a0 a1 a2 a3 a4 a5 a6 hc3
  · exact c08_lorentz_boost_beta3_k_rhophi_z_tau_xy_eta a0 a1 a2 a3 a4 a5 a6 hc3
  · exact c08_lorentz_boost_beta3_k_rhophi_z_tau_rhophi_z a0 a1 a2 a3 a4 a5 a6 hc3
  · exact c08_lorentz_boost_beta3_k_rhophi_z_tau_rhophi_theta a0 a1 a2 a3 a4 a5 a6 hc3
  · exact c08_lorentz_boost_beta3_k_rhophi_z_tau_rhophi_eta a0 a1 a2 a3 a4 a5 a6 hc3
  · exact VS.lorentz_boost_beta3.k_rhophi_theta_t_xy_z_eq a0 a1 a2 a3 a4 a5 a6
  · exact VS.lorentz_boost_beta3.k_rhophi_theta_t_xy_theta_eq a0 a1 a2 a3 a4 a5 a6
  · exact VS.lorentz_boost_beta3.k_rhophi_theta_t_xy_eta_eq a0 a1 a2 a3 a4 a5 a6
  · exact VS.lorentz_boost_beta3.k_rhophi_theta_t_rhophi_z_eq a0 a1 a2 a3 a4 a5 a6
  · exact VS.lorentz_boost_beta3.k_rhophi_theta_t_rhophi_theta_eq a0 a1 a2 a3 a4 a5 a6
  · exact VS.lorentz_boost_beta3.k_rhophi_theta_t_rhophi_eta_eq a0 a1 a2 a3 a4 a5 a6
  · exact c08_lorentz_boost_beta3_k_rhophi_theta_tau_xy_z a0 a1 a2 a3 a4 a5 a6 hc3
  · exact c08_lorentz_boost_beta3_k_rhophi_theta_tau_xy_theta a0 a1 a2 a3 a4 a5 a6 hc3
  · exact c08_lorentz_boost_beta3_k_rhophi_theta_tau_xy_eta a0 a1 a2 a3 a4 a5 a6 hc3
  · exact c08_lorentz_boost_beta3_k_rhophi_theta_tau_rhophi_z a0 a1 a2 a3 a4 a5 a6 hc3
  · exact c08_lorentz_boost_beta3_k_rhophi_theta_tau_rhophi_theta a0 a1 a2 a3 a4 a5 a6 hc3
  · exact c08_lorentz_boost_beta3_k_rhophi_theta_tau_rhophi_eta a0 a1 a2 a3 a4 a5 a6 hc3
  · exact VS.lorentz_boost_beta3.k_rhophi_eta_t_xy_z_eq a0 a1 a2 a3 a4 a5 a6
  · exact VS.lorentz_boost_beta3.k_rhophi_eta_t_xy_theta_eq a0 a1 a2 a3 a4 a5 a6
  · exact VS.lorentz_boost_beta3.k_rhophi_eta_t_xy_eta_eq a0 a1 a2 a3 a4 a5 a6
  · exact VS.lorentz_boost_beta3.k_rhophi_eta_t_rhophi_z_eq a0 a1 a2 a3 a4 a5 a6
  · exact VS.lorentz_boost_beta3.k_rhophi_eta_t_rhophi_theta_eq a0 a1 a2 a3 a4 a5 a6
  · exact VS.lorentz_boost_beta3.k_rhophi_eta_t_rhophi_eta_eq a0 a1 a2 a3 a4 a5 a6
  · exact c08_lorentz_boost_beta3_k_rhophi_eta_tau_xy_z a0 a1 a2 a3 a4 a5 a6 hc3
  · exact c08_lorentz_boost_beta3_k_rhophi_eta_tau_xy_theta a0 a1 a2 a3 a4 a5 a6 hc3
  · exact c08_lorentz_boost_beta3_k_rhophi_eta_tau_xy_eta a0 a1 a2 a3 a4 a5 a6 hc3
  · exact c08_lorentz_boost_beta3_k_rhophi_eta_tau_rhophi_z a0 a1 a2 a3 a4 a5 a6 hc3
  · exact c08_lorentz_boost_beta3_k_rhophi_eta_tau_rhophi_theta a0 a1 a2 a3 a4 a5 a6 hc3
  · exact c08_lorentz_boost_beta3_k_rhophi_eta_tau_rhophi_eta a0 a1 a2 a3 a4 a5 a6 hc3

/-- `lorentz_boost_p4`: all 144 keys -/
theorem c08_lorentz_boost_p4 (k0 : Az) (k1 : Lon) (k2 : Tmp) (k3 : Az) (k4 : Lon) (k5 : Tmp) (a0 a1 a2 a3 a4 a5 a6 a7 : ℝ)
    (hc3 : CanonTmp k2 a3) :
    VS.lorentz_boost_p4.eval k0 k1 k2 k3 k4 k5 a0 a1 a2 a3 a4 a5 a6 a7 =
      VR.lorentz_boost_p4.eval k0 k1 k2 k3 k4 k5 a0 a1 a2 a3 a4 a5 a6 a7 := by
  cases k0 <;> cases k1 <;> cases k2 <;> cases k3 <;> cases k4 <;> cases k5
  · exact VS.lorentz_boost_p4.cartesian_t_xy_z_t_eq a0 a1 a2 a3 a4 a5 a6 a7
  · exact VS.lorentz_boost_p4.cartesian_t_xy_z_tau_eq a0 a1 a2 a3 a4 a5 a6 a7
  · exact VS.lorentz_boost_p4.cartesian_t_xy_theta_t_eq a0 a1 a2 a3 a4 a5 a6 a7
  · exact VS.lorentz_boost_p4.cartesian_t_xy_theta_tau_eq a0 a1 a2 a3 a4 a5 a6 a7
  · exact VS.lorentz_boost_p4.cartesian_t_xy_eta_t_eq a0 a1 a2 a3 a4 a5 a6 a7
  · exact VS.lorentz_boost_p4.cartesian_t_xy_eta_tau_eq a0 a1 a2 a3 a4 a5 a6 a7
  · exact VS.lorentz_boost_p4.cartesian_t_rhophi_z_t_eq a0 a1 a2 a3 a4 a5 a6 a7
  · exact VS.lorentz_boost_p4.cartesian_t_rhophi_z_tau_eq a0 a1 a2 a3 a4 a5 a6 a7
  · exact VS.lorentz_boost_p4.cartesian_t_rhophi_theta_t_eq a0 a1 a2 a3 a4 a5 a6 a7
  · exact VS.lorentz_boost_p4.cartesian_t_rhophi_theta_tau_eq a0 a1 a2 a3 a4 a5 a6 a7
  · exact VS.lorentz_boost_p4.cartesian_t_rhophi_eta_t_eq a0 a1 a2 a3 a4 a5 a6 a7
  · exact VS.lorentz_boost_p4.cartesian_t_rhophi_eta_tau_eq a0 a1 a2 a3 a4 a5 a6 a7
  · exact c08_lorentz_boost_p4_k_xy_z_tau_xy_z_t a0 a1 a2 a3 a4 a5 a6 a7 hc3
  · exact c08_lorentz_boost_p4_k_xy_z_tau_xy_z_tau a0 a1 a2 a3 a4 a5 a6 a7 hc3
  · exact c08_lorentz_boost_p4_k_xy_z_tau_xy_theta_t a0 a1 a2 a3 a4 a5 a6 a7 hc3
  · exact c08_lorentz_boost_p4_k_xy_z_tau_xy_theta_tau a0 a1 a2 a3 a4 a5 a6 a7 hc3
  · exact c08_lorentz_boost_p4_k_xy_z_tau_xy_eta_t a0 a1 a2 a3 a4 a5 a6 a7 hc3
  · exact c08_lorentz_boost_p4_k_xy_z_tau_xy_eta_tau a0 a1 a2 a3 a4 a5 a6 a7 hc3
  · exact c08_lorentz_boost_p4_k_xy_z_tau_rhophi_z_t a0 a1 a2 a3 a4 a5 a6 a7 hc3
  · exact c08_lorentz_boost_p4_k_xy_z_tau_rhophi_z_tau a0 a1 a2 a3 a4 a5 a6 a7 hc3
  · exact c08_lorentz_boost_p4_k_xy_z_tau_rhophi_theta_t a0 a1 a2 a3 a4 a5 a6 a7 hc3
  · exact c08_lorentz_boost_p4_k_xy_z_tau_rhophi_theta_tau a0 a1 a2 a3 a4 a5 a6 a7 hc3
  · exact c08_lorentz_boost_p4_k_xy_z_tau_rhophi_eta_t a0 a1 a2 a3 a4 a5 a6 a7 hc3
  · exact c08_lorentz_boost_p4_k_xy_z_tau_rhophi_eta_tau a0 a1 a2 a3 a4 a5 a6 a7 hc3
  · exact VS.lorentz_boost_p4.k_xy_theta_t_xy_z_t_eq a0 a1 a2 a3 a4 a5 a6 a7
  · exact VS.lorentz_boost_p4.k_xy_theta_t_xy_z_tau_eq a0 a1 a2 a3 a4 a5 a6 a7
  · exact VS.lorentz_boost_p4.k_xy_theta_t_xy_theta_t_eq a0 a1 a2 a3 a4 a5 a6 a7
  · exact VS.lorentz_boost_p4.k_xy_theta_t_xy_theta_tau_eq a0 a1 a2 a3 a4 a5 a6 a7
  · exact VS.lorentz_boost_p4.k_xy_theta_t_xy_eta_t_eq a0 a1 a2 a3 a4 a5 a6 a7
  · exact VS.lorentz_boost_p4.k_xy_theta_t_xy_eta_tau_eq a0 a1 a2 a3 a4 a5 a6 a7
  · exact VS.lorentz_boost_p4.k_xy_theta_t_rhophi_z_t_eq a0 a1 a2 a3 a4 a5 a6 a7
  · exact VS.lorentz_boost_p4.k_xy_theta_t_rhophi_z_tau_eq a0 a1 a2 a3 a4 a5 a6 a7
  · exact VS.lorentz_boost_p4.k_xy_theta_t_rhophi_theta_t_eq a0 a1 a2 a3 a4 a5 a6 a7
  · exact VS.lorentz_boost_p4.k_xy_theta_t_rhophi_theta_tau_eq a0 a1 a2 a3 a4 a5 a6 a7
  · exact VS.lorentz_boost_p4.k_xy_theta_t_rhophi_eta_t_eq a0 a1 a2 a3 a4 a5 a6 a7
  · exact VS.lorentz_boost_p4.k_xy_theta_t_rhophi_eta_tau_eq a0 a1 a2 a3 a4 a5 a6 a7
  · exact c08_lorentz_boost_p4_k_xy_theta_tau_xy_z_t a0 a1 a2 a3 a4 a5 a6 a7 hc3
  · exact c08_lorentz_boost_p4_k_xy_theta_tau_xy_z_tau a0 a1 a2 a3 a4 a5 a6 a7 hc3
  · exact c08_lorentz_boost_p4_k_xy_theta_tau_xy_theta_t a0 a1 a2 a3 a4 a5 a6 a7 hc3
  · exact c08_lorentz_boost_p4_k_xy_theta_tau_xy_theta_tau a0 a1 a2 a3 a4 a5 a6 a7 hc3
  · exact c08_lorentz_boost_p4_k_xy_theta_tau_xy_eta_t a0 a1 a2 a3 a4 a5 a6 a7 hc3
  · exact c08_lorentz_boost_p4_k_xy_theta_tau_xy_eta_tau a0 a1 a2 a3 a4 a5 a6 a7 hc3
  · exact c08_lorentz_boost_p4_k_xy_theta_tau_rhophi_z_t a0 a1 a2 a3 a4 a5 a6 a7 hc3
  · exact c08_lorentz_boost_p4_k_xy_theta_tau_rhophi_z_tau a0 a1 a2 a3 a4 a5 a6 a7 hc3
  · exact c08_lorentz_boost_p4_k_xy_theta_tau_rhophi_theta_t a0 a1 a2 a3 a4 a5 a6 a7 hc3
  · exact c08_lorentz_boost_p4_k_xy_theta_tau_rhophi_theta_tau a0 a1 a2 a3 a4 a5 a6 a7 hc3
  · exact c08_lorentz_boost_p4_k_xy_theta_tau_rhophi_eta_t a0 a1 a2 a3 a4 a5 a6 a7 hc3
  · exact c08_lorentz_boost_p4_k_xy_theta_tau_rhophi_eta_tau a0 a1 a2 a3 a4 a5 a6 a7 hc3
  · exact VS.lorentz_boost_p4.k_xy_eta_t_xy_z_t_eq a0 a1 a2 a3 a4 a5 a6 a7
  · exact VS.lorentz_boost_p4.k_xy_eta_t_xy_z_tau_eq a0 a1 a2 a3 a4 a5 a6 a7
  · exact VS.lorentz_boost_p4.k_xy_eta_t_xy_theta_t_eq a0 a1 a2 a3 a4 a5 a6 a7
  · exact VS.lorentz_boost_p4.k_xy_eta_t_xy_theta_tau_eq a0 a1 a2 a3 a4 a5 a6 a7
  · exact VS.lorentz_boost_p4.k_xy_eta_t_xy_eta_t_eq a0 a1 a2 a3 a4 a5 a6 a7
  · exact VS.lorentz_boost_p4.k_xy_eta_t_xy_eta_tau_eq a0 a1 a2 a3 a4 a5 a6 a7
  · exact VS.lorentz_boost_p4.k_xy_eta_t_rhophi_z_t_eq a0 a1 a2 a3 a4 a5 a6 a7
  · exact VS.lorentz_boost_p4.k_xy_eta_t_rhophi_z_tau_eq a0 a1 a2 a3 a4 a5 a6 a7
  · exact VS.lorentz_boost_p4.k_xy_eta_t_rhophi_theta_t_eq a0 a1 a2 a3 a4 a5 a6 a7
  · exact VS.lorentz_boost_p4.k_xy_eta_t_rhophi_theta_tau_eq a0 a1 a2 a3 a4 a5 a6 a7
  · exact VS.lorentz_boost_p4.k_xy_eta_t_rhophi_eta_t_eq a0 a1 a2 a3 a4 a5 a6 a7
  · exact VS.lorentz_boost_p4.k_xy_eta_t_rhophi_eta_tau_eq a0 a1 a2 a3 a4 a5 a6 a7
  · exact c08_lorentz_boost_p4_k_xy_eta_tau_xy_z_t a0 a1 a2 a3 a4 a5 a6 a7 hc3
  · exact c08_lorentz_boost_p4_k_xy_eta_tau_xy_z_tau a0 a1 a2 a3 a4 a5 a6 a7 hc3
  · exact c08_lorentz_boost_p4_k_xy_eta_tau_xy_theta_t a0 a1 a2 a3 a4 a5 a6 a7 hc3
  · exact c08_lorentz_boost_p4_k_xy_eta_tau_xy_theta_tau a0 a1 a2 a3 a4 a5 a6 a7 hc3
  · exact c08_lorentz_boost_p4_k_xy_eta_tau_xy_eta_t a0 a1 a2 a3 a4 a5 a6 a7 hc3
  · exact c08_lorentz_boost_p4_k_xy_eta_tau_xy_eta_tau a0 a1 a2 a3 a4 a5 a6 a7 hc3
  · exact c08_lorentz_boost_p4_k_xy_eta_tau_rhophi_z_t a0 a1 a2 a3 a4 a5 a6 a7 hc3
  · exact c08_lorentz_boost_p4_k_xy_eta_tau_rhophi_z_tau a0 a1 a2 a3 a4 a5 a6 a7 hc3
  · exact c08_lorentz_boost_p4_k_xy_eta_tau_rhophi_theta_t a0 a1 a2 a3 a4 a5 a6 a7 hc3
  · exact c08_lorentz_boost_p4_k_xy_eta_tau_rhophi_theta_tau a0 a1 a2 a3 a4 a5 a6 a7 hc3
  · exact c08_lorentz_boost_p4_k_xy_eta_tau_rhophi_eta_t a0 a1 a2 a3 a4 a5 a6 a7 hc3
  · exact c08_lorentz_boost_p4_k_xy_eta_tau_rhophi_eta_tau a0 a1 a2 a3 a4 a5 a6 a7 hc3
  · exact VS.lorentz_boost_p4.k_rhophi_z_t_xy_z_t_eq a0 a1 a2 a3 a4 a5 a6 a7
  · exact VS.lorentz_boost_p4.k_rhophi_z_t_xy_z_tau_eq a0 a1 a2 a3 a4 a5 a6 a7
  · exact VS.lorentz_boost_p4.k_rhophi_z_t_xy_theta_t_eq a0 a1 a2 a3 a4 a5 a6 a7
  · exact VS.lorentz_boost_p4.k_rhophi_z_t_xy_theta_tau_eq a0 a1 a2 a3 a4 a5 a6 a7
  · exact VS.lorentz_boost_p4.k_rhophi_z_t_xy_eta_t_eq a0 a1 a2 a3 a4 a5 a6 a7
  · exact VS.lorentz_boost_p4.k_rhophi_z_t_xy_eta_tau_eq a0 a1 a2 a3 a4 a5 a6 a7
  · exact VS.lorentz_boost_p4.k_rhophi_z_t_rhophi_z_t_eq a0 a1 a2 a3 a4 a5 a6 a7
  · exact VS.lorentz_boost_p4.k_rhophi_z_t_rhophi_z_tau_eq a0 a1 a2 a3 a4 a5 a6 a7
  · exact VS.lorentz_boost_p4.k_rhophi_z_t_rhophi_theta_t_eq a0 a1 a2 a3 a4 a5 a6 a7
  · exact VS.lorentz_boost_p4.k_rhophi_z_t_rhophi_theta_tau_eq a0 a1 a2 a3 a4 a5 a6 a7
  · exact VS.lorentz_boost_p4.k_rhophi_z_t_rhophi_eta_t_eq a0 a1 a2 a3 a4 a5 a6 a7
  · exact VS.lorentz_boost_p4.k_rhophi_z_t_rhophi_eta_tau_eq a0 a1 a2 a3 a4 a5 a6 a7
  · exact c08_lorentz_boost_p4_k_rhophi_z_tau_xy_z_t a0 a1 a2 a3 a4 a5 a6 a7 hc3
  · exact c08_lorentz_boost_p4_k_rhophi_z_tau_xy_z_tau a0 a1 a2 a3 a4 a5 a6 a7 hc3
  · exact c08_lorentz_boost_p4_k_rhophi_z_tau_xy_theta_t a0 a1 a2 a3 a4 a5 a6 a7 hc3
  · exact c08_lorentz_boost_p4_k_rhophi_z_tau_xy_theta_tau a0 a1 a2 a3 a4 a5 a6 a7 hc3
  · exact c08_lorentz_boost_p4_k_rhophi_z_tau_xy_eta_t a0 a1 a2 a3 a4 a5 a6 a7 hc3
  · exact c08_lorentz_boost_p4_k_rhophi_z_tau_xy_eta_tau a0 a1 a2 a3 a4 a5 a6 a7 hc3
  · exact c08_lorentz_boost_p4_k_rhophi_z_tau_rhophi_z_t a0 a1 a2 a3 a4 a5 a6 a7 hc3
  · exact c08_lorentz_boost_p4_k_rhophi_z_tau_rhophi_z_tau a0 a1 a2 a3 a4 a5 a6 a7 hc3
  · exact c08_lorentz_boost_p4_k_rhophi_z_tau_rhophi_theta_t a0 a1 a2 a3 a4 a5 a6 a7 hc3
  · exact c08_lorentz_boost_p4_k_rhophi_z_tau_rhophi_theta_tau a0 a1 a2 a3 a4 a5 a6 a7 hc3
  · exact c08_lorentz_boost_p4_k_rhophi_z_tau_rhophi_eta_t a0 a1 a2 a3 a4 a5 a6 a7 hc3
  · exact c08_lorentz_boost_p4_k_rhophi_z_tau_rhophi_eta_tau a0 a1 a2 a3 a4 a5 a6 a7 hc3
  · exact VS.lorentz_boost_p4.k_rhophi_theta_t_xy_z_t_eq a0 a1 a2 a3 a4 a5 a6 a7
  · exact VS.lorentz_boost_p4.k_rhophi_theta_t_xy_z_tau_eq a0 a1 a2 a3 a4 a5 a6 a7
  · exact VS.lorentz_boost_p4.k_rhophi_theta_t_xy_theta_t_eq a0 a1 a2 a3 a4 a5 a6 a7
  · exact VS.lorentz_boost_p4.k_rhophi_theta_t_xy_theta_tau_eq a0 a1 a2 a3 a4 a5 a6 a7
  · exact VS.lorentz_boost_p4.k_rhophi_theta_t_xy_eta_t_eq a0 a1 a2 a3 a4 a5 a6 a7
  · exact VS.lorentz_boost_p4.k_rhophi_theta_t_xy_eta_tau_eq a0 a1 a2 a3 a4 a5 a6 a7
  · exact VS.lorentz_boost_p4.k_rhophi_theta_t_rhophi_z_t_eq a0 a1 a2 a3 a4 a5 a6 a7
  · exact VS.lorentz_boost_p4.k_rhophi_theta_t_rhophi_z_tau_eq a0 a1 a2 a3 a4 a5 a6 a7
  · exact VS.lorentz_boost_p4.k_rhophi_theta_t_rhophi_theta_t_eq a0 a1 a2 a3 a4 a5 a6 a7
  · exact VS.lorentz_boost_p4.k_rhophi_theta_t_rhophi_theta_tau_eq a0 a1 a2 a3 a4 a5 a6 a7
  · exact VS.lorentz_boost_p4.k_rhophi_theta_t_rhophi_eta_t_eq a0 a1 a2 a3 a4 a5 a6 a7
  · exact VS.lorentz_boost_p4.k_rhophi_theta_t_rhophi_eta_tau_eq a0 a1 a2 a3 a4 a5 a6 a7
  · exact c08_lorentz_boost_p4_k_rhophi_theta_tau_xy_z_t a0 a1 a2 a3 a4 a5 a6 a7 hc3
  · exact c08_lorentz_boost_p4_k_rhophi_theta_tau_xy_z_tau a0 a1 a2 a3 a4 a5 a6 a7 hc3
  · exact c08_lorentz_boost_p4_k_rhophi_theta_tau_xy_theta_t a0 a1 a2 a3 a4 a5 a6 a7 hc3
  · exact c08_lorentz_boost_p4_k_rhophi_theta_tau_xy_theta_tau a0 a1 a2 a3 a4 a5 a6 a7 hc3
  · exact c08_lorentz_boost_p4_k_rhophi_theta_tau_xy_eta_t a0 a1 a2 a3 a4 a5 a6 a7 hc3
  · exact c08_lorentz_boost_p4_k_rhophi_theta_tau_xy_eta_tau a0 a1 a2 a3 a4 a5 a6 a7 hc3
  · exact c08_lorentz_boost_p4_k_rhophi_theta_tau_rhophi_z_t a0 a1 a2 a3 a4 a5 a6 a7 hc3
  · exact c08_lorentz_boost_p4_k_rhophi_theta_tau_rhophi_z_tau a0 a1 a2 a3 a4 a5 a6 a7 hc3
  · exact c08_lorentz_boost_p4_k_rhophi_theta_tau_rhophi_theta_t a0 a1 a2 a3 a4 a5 a6 a7 hc3
  · exact c08_lorentz_boost_p4_k_rhophi_theta_tau_rhophi_theta_tau a0 a1 a2 a3 a4 a5 a6 a7 hc3
  · exact c08_lorentz_boost_p4_k_rhophi_theta_tau_rhophi_eta_t a0 a1 a2 a3 a4 a5 a6 a7 hc3
  · exact c08_lorentz_boost_p4_k_rhophi_theta_tau_rhophi_eta_tau a0 a1 a2 a3 a4 a5 a6 a7 hc3
  · exact VS.lorentz_boost_p4.k_rhophi_eta_t_xy_z_t_eq a0 a1 a2 a3 a4 a5 a6 a7
  · exact VS.lorentz_boost_p4.k_rhophi_eta_t_xy_z_tau_eq a0 a1 a2 a3 a4 a5 a6 a7
  · exact VS.lorentz_boost_p4.k_rhophi_eta_t_xy_theta_t_eq a0 a1 a2 a3 a4 a5 a6 a7
  · exact VS.lorentz_boost_p4.k_rhophi_eta_t_xy_theta_tau_eq a0 a1 a2 a3 a4 a5 a6 a7
  · exact VS.lorentz_boost_p4.k_rhophi_eta_t_xy_eta_t_eq a0 a1 a2 a3 a4 a5 a6 a7
  · exact VS.lorentz_boost_p4.k_rhophi_eta_t_xy_eta_tau_eq a0 a1 a2 a3 a4 a5 a6 a7
  · exact VS.lorentz_boost_p4.k_rhophi_eta_t_rhophi_z_t_eq a0 a1 a2 a3 a4 a5 a6 a7
  · exact VS.lorentz_boost_p4.k_rhophi_eta_t_rhophi_z_tau_eq a0 a1 a2 a3 a4 a5 a6 a7
  · exact VS.lorentz_boost_p4.k_rhophi_eta_t_rhophi_theta_t_eq a0 a1 a2 a3 a4 a5 a6 a7
  · exact VS.lorentz_boost_p4.k_rhophi_eta_t_rhophi_theta_tau_eq a0 a1 a2 a3 a4 a5 a6 a7
  · exact VS.lorentz_boost_p4.k_rhophi_eta_t_rhophi_eta_t_eq a0 a1 a2 a3 a4 a5 a6 a7
  · exact VS.lorentz_boost_p4.k_rhophi_eta_t_rhophi_eta_tau_eq a0 a1 a2 a3 a4 a5 a6 a7
  · exact c08_lorentz_boost_p4_k_rhophi_eta_tau_xy_z_t a0 a1 a2 a3 a4 a5 a6 a7 hc3
  · exact c08_lorentz_boost_p4_k_rhophi_eta_tau_xy_z_tau a0 a1 a2 a3 a4 a5 a6 a7 hc3
  · exact c08_lorentz_boost_p4_k_rhophi_eta_tau_xy_theta_t a0 a1 a2 a3 a4 a5 a6 a7 hc3
  · exact c08_lorentz_boost_p4_k_rhophi_eta_tau_xy_theta_tau a0 a1 a2 a3 a4 a5 a6 a7 hc3
  · exact c08_lorentz_boost_p4_k_rhophi_eta_tau_xy_eta_t a0 a1 a2 a3 a4 a5 a6 a7 hc3
  · exact c08_lorentz_boost_p4_k_rhophi_eta_tau_xy_eta_tau a0 a1 a2 a3 a4 a5 a6 a7 hc3
  · exact c08_lorentz_boost_p4_k_rhophi_eta_tau_rhophi_z_t a0 a1 a2 a3 a4 a5 a6 a7 hc3
  · exact c08_lorentz_boost_p4_k_rhophi_eta_tau_rhophi_z_tau a0 a1 a2 a3 a4 a5 a6 a7 hc3
  · exact c08_lorentz_boost_p4_k_rhophi_eta_tau_rhophi_theta_t a0 a1 a2 a3 a4 a5 a6 a7 hc3
  · exact c08_lorentz_boost_p4_k_rhophi_eta_tau_rhophi_theta_tau a0 a1 a2 a3 a4 a5 a6 a7 hc3
  · exact c08_lorentz_boost_p4_k_rhophi_eta_tau_rhophi_eta_t a0 a1 a2 a3 a4 a5 a6 a7 hc3
  · exact c08_lorentz_boost_p4_k_rhophi_eta_tau_rhophi_eta_tau a0 a1 a2 a3 a4 a5 a6 a7 hc3

/-- `lorentz_dot`: all 144 keys -/
theorem c08_lorentz_dot (k0 : Az) (k1 : Lon) (k2 : Tmp) (k3 : Az) (k4 : Lon) (k5 : Tmp) (a0 a1 a2 a3 a4 a5 a6 a7 : ℝ)
    (hc3 : CanonTmp k2 a3)
    (hc7 : CanonTmp k5 a7) :
    VS.lorentz_dot.eval k0 k1 k2 k3 k4 k5 a0 a1 a2 a3 a4 a5 a6 a7 =
      VR.lorentz_dot.eval k0 k1 k2 k3 k4 k5 a0 a1 a2 a3 a4 a5 a6 a7 := by
  cases k0 <;> cases k1 <;> cases k2 <;> cases k3 <;> cases k4 <;> cases k5
  · exact VS.lorentz_dot.k_xy_z_t_xy_z_t_eq a0 a1 a2 a3 a4 a5 a6 a7
  · exact c08_lorentz_dot_k_xy_z_t_xy_z_tau a0 a1 a2 a3 a4 a5 a6 a7 hc7
  · exact VS.lorentz_dot.k_xy_z_t_xy_theta_t_eq a0 a1 a2 a3 a4 a5 a6 a7
  · exact c08_lorentz_dot_k_xy_z_t_xy_theta_tau a0 a1 a2 a3 a4 a5 a6 a7 hc7
  · exact VS.lorentz_dot.k_xy_z_t_xy_eta_t_eq a0 a1 a2 a3 a4 a5 a6 a7
  · exact c08_lorentz_dot_k_xy_z_t_xy_eta_tau a0 a1 a2 a3 a4 a5 a6 a7 hc7
  · exact VS.lorentz_dot.k_xy_z_t_rhophi_z_t_eq a0 a1 a2 a3 a4 a5 a6 a7
  · exact c08_lorentz_dot_k_xy_z_t_rhophi_z_tau a0 a1 a2 a3 a4 a5 a6 a7 hc7
  · exact VS.lorentz_dot.k_xy_z_t_rhophi_theta_t_eq a0 a1 a2 a3 a4 a5 a6 a7
  · exact c08_lorentz_dot_k_xy_z_t_rhophi_theta_tau a0 a1 a2 a3 a4 a5 a6 a7 hc7
  · exact VS.lorentz_dot.k_xy_z_t_rhophi_eta_t_eq a0 a1 a2 a3 a4 a5 a6 a7
  · exact c08_lorentz_dot_k_xy_z_t_rhophi_eta_tau a0 a1 a2 a3 a4 a5 a6 a7 hc7
  · exact c08_lorentz_dot_k_xy_z_tau_xy_z_t a0 a1 a2 a3 a4 a5 a6 a7 hc3
  · exact c08_lorentz_dot_k_xy_z_tau_xy_z_tau a0 a1 a2 a3 a4 a5 a6 a7 hc3 hc7
  · exact c08_lorentz_dot_k_xy_z_tau_xy_theta_t a0 a1 a2 a3 a4 a5 a6 a7 hc3
  · exact c08_lorentz_dot_k_xy_z_tau_xy_theta_tau a0 a1 a2 a3 a4 a5 a6 a7 hc3 hc7
  · exact c08_lorentz_dot_k_xy_z_tau_xy_eta_t a0 a1 a2 a3 a4 a5 a6 a7 hc3
  · exact c08_lorentz_dot_k_xy_z_tau_xy_eta_tau a0 a1 a2 a3 a4 a5 a6 a7 hc3 hc7
  · exact c08_lorentz_dot_k_xy_z_tau_rhophi_z_t a0 a1 a2 a3 a4 a5 a6 a7 hc3
  · exact c08_lorentz_dot_k_xy_z_tau_rhophi_z_tau a0 a1 a2 a3 a4 a5 a6 a7 hc3 hc7
  · exact c08_lorentz_dot_k_xy_z_tau_rhophi_theta_t a0 a1 a2 a3 a4 a5 a6 a7 hc3
  · exact c08_lorentz_dot_k_xy_z_tau_rhophi_theta_tau a0 a1 a2 a3 a4 a5 a6 a7 hc3 hc7
  · exact c08_lorentz_dot_k_xy_z_tau_rhophi_eta_t a0 a1 a2 a3 a4 a5 a6 a7 hc3
  · exact c08_lorentz_dot_k_xy_z_tau_rhophi_eta_tau a0 a1 a2 a3 a4 a5 a6 a7 hc3 hc7
  · exact VS.lorentz_dot.k_xy_theta_t_xy_z_t_eq a0 a1 a2 a3 a4 a5 a6 a7
  · exact c08_lorentz_dot_k_xy_theta_t_xy_z_tau a0 a1 a2 a3 a4 a5 a6 a7 hc7
  · exact VS.lorentz_dot.k_xy_theta_t_xy_theta_t_eq a0 a1 a2 a3 a4 a5 a6 a7
  · exact c08_lorentz_dot_k_xy_theta_t_xy_theta_tau a0 a1 a2 a3 a4 a5 a6 a7 hc7
  · exact VS.lorentz_dot.k_xy_theta_t_xy_eta_t_eq a0 a1 a2 a3 a4 a5 a6 a7
  · exact c08_lorentz_dot_k_xy_theta_t_xy_eta_tau a0 a1 a2 a3 a4 a5 a6 a7 hc7
  · exact VS.lorentz_dot.k_xy_theta_t_rhophi_z_t_eq a0 a1 a2 a3 a4 a5 a6 a7
  · exact c08_lorentz_dot_k_xy_theta_t_rhophi_z_tau a0 a1 a2 a3 a4 a5 a6 a7 hc7
  · exact VS.lorentz_dot.k_xy_theta_t_rhophi_theta_t_eq a0 a1 a2 a3 a4 a5 a6 a7
  · exact c08_lorentz_dot_k_xy_theta_t_rhophi_theta_tau a0 a1 a2 a3 a4 a5 a6 a7 hc7
  · exact VS.lorentz_dot.k_xy_theta_t_rhophi_eta_t_eq a0 a1 a2 a3 a4 a5 a6 a7
  · exact c08_lorentz_dot_k_xy_theta_t_rhophi_eta_tau a0 a1 a2 a3 a4 a5 a6 a7 hc7
  · exact c08_lorentz_dot_k_xy_theta_tau_xy_z_t a0 a1 a2 a3 a4 a5 a6 a7 hc3
  · exact c08_lorentz_dot_k_xy_theta_tau_xy_z_tau a0 a1 a2 a3 a4 a5 a6 a7 hc3 hc7
  · exact c08_lorentz_dot_k_xy_theta_tau_xy_theta_t a0 a1 a2 a3 a4 a5 a6 a7 hc3
  · exact c08_lorentz_dot_k_xy_theta_tau_xy_theta_tau a0 a1 a2 a3 a4 a5 a6 a7 hc3 hc7
  · exact c08_lorentz_dot_k_xy_theta_tau_xy_eta_t a0 a1 a2 a3 a4 a5 a6 a7 hc3
  · exact c08_lorentz_dot_k_xy_theta_tau_xy_eta_tau a0 a1 a2 a3 a4 a5 a6 a7 hc3 hc7
  · exact c08_lorentz_dot_k_xy_theta_tau_rhophi_z_t a0 a1 a2 a3 a4 a5 a6 a7 hc3
  · exact c08_lorentz_dot_k_xy_theta_tau_rhophi_z_tau a0 a1 a2 a3 a4 a5 a6 a7 hc3 hc7
  · exact c08_lorentz_dot_k_xy_theta_tau_rhophi_theta_t a0 a1 a2 a3 a4 a5 a6 a7 hc3
  · exact c08_lorentz_dot_k_xy_theta_tau_rhophi_theta_tau a0 a1 a2 a3 a4 a5 a6 a7 hc3 hc7
  · exact c08_lorentz_dot_k_xy_theta_tau_rhophi_eta_t a0 a1 a2 a3 a4 a5 a6 a7 hc3
  · exact c08_lorentz_dot_k_xy_theta_tau_rhophi_eta_tau a0 a1 a2 a3 a4 a5 a6 a7 hc3 hc7
  · exact VS.lorentz_dot.k_xy_eta_t_xy_z_t_eq a0 a1 a2 a3 a4 a5 a6 a7
  · exact c08_lorentz_dot_k_xy_eta_t_xy_z_tau a0 a1 a2 a3 a4 a5 a6 a7 hc7
  · exact VS.lorentz_dot.k_xy_eta_t_xy_theta_t_eq a0 a1 a2 a3 a4 a5 a6 a7
  · exact c08_lorentz_dot_k_xy_eta_t_xy_theta_tau a0 a1 a2 a3 a4 a5 a6 a7 hc7
  · exact VS.lorentz_dot.k_xy_eta_t_xy_eta_t_eq a0 a1 a2 a3 a4 a5 a6 a7
  · exact c08_lorentz_dot_k_xy_eta_t_xy_eta_tau a0 a1 a2 a3 a4 a5 a6 a7 hc7
  · exact VS.lorentz_dot.k_xy_eta_t_rhophi_z_t_eq a0 a1 a2 a3 a4 a5 a6 a7
  · exact c08_lorentz_dot_k_xy_eta_t_rhophi_z_tau a0 a1 a2 a3 a4 a5 a6 a7 hc7
  · exact VS.lorentz_dot.k_xy_eta_t_rhophi_theta_t_eq a0 a1 a2 a3 a4 a5 a6 a7
  · exact c08_lorentz_dot_k_xy_eta_t_rhophi_theta_tau a0 a1 a2 a3 a4 a5 a6 a7 hc7
  · exact VS.lorentz_dot.k_xy_eta_t_rhophi_eta_t_eq a0 a1 a2 a3 a4 a5 a6 a7
  · exact c08_lorentz_dot_k_xy_eta_t_rhophi_eta_tau a0 a1 a2 a3 a4 a5 a6 a7 hc7
  · exact c08_lorentz_dot_k_xy_eta_tau_xy_z_t a0 a1 a2 a3 a4 a5 a6 a7 hc3
  · exact c08_lorentz_dot_k_xy_eta_tau_xy_z_tau a0 a1 a2 a3 a4 a5 a6 a7 hc3 hc7
  · exact c08_lorentz_dot_k_xy_eta_tau_xy_theta_t a0 a1 a2 a3 a4 a5 a6 a7 hc3
  · exact c08_lorentz_dot_k_xy_eta_tau_xy_theta_tau a0 a1 a2 a3 a4 a5 a6 a7 hc3 hc7
  · exact c08_lorentz_dot_k_xy_eta_tau_xy_eta_t a0 a1 a2 a3 a4 a5 a6 a7 hc3
  · exact c08_lorentz_dot_k_xy_eta_tau_xy_eta_tau a0 a1 a2 a3 a4 a5 a6 a7 hc3 hc7
  · exact c08_lorentz_dot_k_xy_eta_tau_rhophi_z_t a0 a1 a2 a3 a4 a5 a6 a7 hc3
  · exact c08_lorentz_dot_k_xy_eta_tau_rhophi_z_tau a0 a1 a2 a3 a4 a5 a6 a7 hc3 hc7
  · exact c08_lorentz_dot_k_xy_eta_tau_rhophi_theta_t a0 a1 a2 a3 a4 a5 a6 a7 hc3
  · exact c08_lorentz_dot_k_xy_eta_tau_rhophi_theta_tau a0 a1 a2 a3 a4 a5 a6 a7 hc3 hc7
  · exact c08_lorentz_dot_k_xy_eta_tau_rhophi_eta_t a0 a1 a2 a3 a4 a5 a6 a7 hc3
  · exact c08_lorentz_dot_k_xy_eta_tau_rhophi_eta_tau a0 a1 a2 a3 a4 a5 a6 a7 hc3 hc7
  · exact VS.lorentz_dot.k_rhophi_z_t_xy_z_t_eq a0 a1 a2 a3 a4 a5 a6 a7
  · exact c08_lorentz_dot_k_rhophi_z_t_xy_z_tau a0 a1 a2 a3 a4 a5 a6 a7 hc7
  · exact VS.lorentz_dot.k_rhophi_z_t_xy_theta_t_eq a0 a1 a2 a3 a4 a5 a6 a7
  · exact c08_lorentz_dot_k_rhophi_z_t_xy_theta_tau a0 a1 a2 a3 a4 a5 a6 a7 hc7
  · exact VS.lorentz_dot.k_rhophi_z_t_xy_eta_t_eq a0 a1 a2 a3 a4 a5 a6 a7
  · exact c08_lorentz_dot_k_rhophi_z_t_xy_eta_tau a0 a1 a2 a3 a4 a5 a6 a7 hc7
  · exact VS.lorentz_dot.k_rhophi_z_t_rhophi_z_t_eq a0 a1 a2 a3 a4 a5 a6 a7
  · exact c08_lorentz_dot_k_rhophi_z_t_rhophi_z_tau a0 a1 a2 a3 a4 a5 a6 a7 hc7
  · exact VS.lorentz_dot.k_rhophi_z_t_rhophi_theta_t_eq a0 a1 a2 a3 a4 a5 a6 a7
  · exact c08_lorentz_dot_k_rhophi_z_t_rhophi_theta_tau a0 a1 a2 a3 a4 a5 a6 a7 hc7
  · exact VS.lorentz_dot.k_rhophi_z_t_rhophi_eta_t_eq a0 a1 a2 a3 a4 a5 a6 a7
  · exact c08_lorentz_dot_k_rhophi_z_t_rhophi_eta_tau a0 a1 a2 a3 a4 a5 a6 a7 hc7
  · exact c08_lorentz_dot_k_rhophi_z_tau_xy_z_t a0 a1 a2 a3 a4 a5 a6 a7 hc3
  · exact c08_lorentz_dot_k_rhophi_z_tau_xy_z_tau a0 a1 a2 a3 a4 a5 a6 a7 hc3 hc7
  · exact c08_lorentz_dot_k_rhophi_z_tau_xy_theta_t a0 a1 a2 a3 a4 a5 a6 a7 hc3
  · exact c08_lorentz_dot_k_rhophi_z_tau_xy_theta_tau a0 a1 a2 a3 a4 a5 a6 a7 hc3 hc7
  · exact c08_lorentz_dot_k_rhophi_z_tau_xy_eta_t a0 a1 a2 a3 a4 a5 a6 a7 hc3
  · exact c08_lorentz_dot_k_rhophi_z_tau_xy_eta_tau a0 a1 a2 a3 a4 a5 a6 a7 hc3 hc7
  · exact c08_lorentz_dot_k_rhophi_z_tau_rhophi_z_t a0 a1 a2 a3 a4 a5 a6 a7 hc3
  · exact c08_lorentz_dot_k_rhophi_z_tau_rhophi_z_tau a0 a1 a2 a3 a4 a5 a6 a7 hc3 hc7
  · exact c08_lorentz_dot_k_rhophi_z_tau_rhophi_theta_t a0 a1 a2 a3 a4 a5 a6 a7 hc3
  · exact c08_lorentz_dot_k_rhophi_z_tau_rhophi_theta_tau a0 a1 a2 a3 a4 a5 a6 a7 hc3 hc7
  · exact c08_lorentz_dot_k_rhophi_z_tau_rhophi_eta_t a0 a1 a2 a3 a4 a5 a6 a7 hc3
  · exact c08_lorentz_dot_k_rhophi_z_tau_rhophi_eta_tau a0 a1 a2 a3 a4 a5 a6 a7 hc3 hc7
  · exact VS.lorentz_dot.k_rhophi_theta_t_xy_z_t_eq a0 a1 a2 a3 a4 a5 a6 a7
  · exact c08_lorentz_dot_k_rhophi_theta_t_xy_z_tau a0 a1 a2 a3 a4 a5 a6 a7 hc7
  · exact VS.lorentz_dot.k_rhophi_theta_t_xy_theta_t_eq a0 a1 a2 a3 a4 a5 a6 a7
  · exact c08_lorentz_dot_k_rhophi_theta_t_xy_theta_tau a0 a1 a2 a3 a4 a5 a6 a7 hc7
  · exact VS.lorentz_dot.k_rhophi_theta_t_xy_eta_t_eq a0 a1 a2 a3 a4 a5 a6 a7
  · exact c08_lorentz_dot_k_rhophi_theta_t_xy_eta_tau a0 a1 a2 a3 a4 a5 a6 a7 hc7
  · exact VS.lorentz_dot.k_rhophi_theta_t_rhophi_z_t_eq a0 a1 a2 a3 a4 a5 a6 a7
  · exact c08_lorentz_dot_k_rhophi_theta_t_rhophi_z_tau a0 a1 a2 a3 a4 a5 a6 a7 hc7
  · exact VS.lorentz_dot.k_rhophi_theta_t_rhophi_theta_t_eq a0 a1 a2 a3 a4 a5 a6 a7
  · exact c08_lorentz_dot_k_rhophi_theta_t_rhophi_theta_tau a0 a1 a2 a3 a4 a5 a6 a7 hc7
  · exact VS.lorentz_dot.k_rhophi_theta_t_rhophi_eta_t_eq a0 a1 a2 a3 a4 a5 a6 a7
  · exact c08_lorentz_dot_k_rhophi_theta_t_rhophi_eta_tau a0 a1 a2 a3 a4 a5 a6 a7 hc7
  · exact c08_lorentz_dot_k_rhophi_theta_tau_xy_z_t a0 a1 a2 a3 a4 a5 a6 a7 hc3
  · exact c08_lorentz_dot_k_rhophi_theta_tau_xy_z_tau a0 a1 a2 a3 a4 a5 a6 a7 hc3 hc7
  · exact c08_lorentz_dot_k_rhophi_theta_tau_xy_theta_t a0 a1 a2 a3 a4 a5 a6 a7 hc3
  · exact c08_lorentz_dot_k_rhophi_theta_tau_xy_theta_tau a0 a1 a2 a3 a4 a5 a6 a7 hc3 hc7
  · exact c08_lorentz_dot_k_rhophi_theta_tau_xy_eta_t a0 a1 a2 a3 a4 a5 a6 a7 hc3
  · exact c08_lorentz_dot_k_rhophi_theta_tau_xy_eta_tau a0 a1 a2 a3 a4 a5 a6 a7 hc3 hc7
  · exact c08_lorentz_dot_k_rhophi_theta_tau_rhophi_z_t a0 a1 a2 a3 a4 a5 a6 a7 hc3
  · exact c08_lorentz_dot_k_rhophi_theta_tau_rhophi_z_tau a0 a1 a2 a3 a4 a5 a6 a7 hc3 hc7
  · exact c08_lorentz_dot_k_rhophi_theta_tau_rhophi_theta_t a0 a1 a2 a3 a4 a5 a6 a7 hc3
  · exact c08_lorentz_dot_k_rhophi_theta_tau_rhophi_theta_tau a0 a1 a2 a3 a4 a5 a6 a7 hc3 hc7
  · exact c08_lorentz_dot_k_rhophi_theta_tau_rhophi_eta_t a0 a1 a2 a3 a4 a5 a6 a7 hc3
  · exact c08_lorentz_dot_k_rhophi_theta_tau_rhophi_eta_tau a0 a1 a2 a3 a4 a5 a6 a7 hc3 hc7
  · exact VS.lorentz_dot.k_rhophi_eta_t_xy_z_t_eq a0 a1 a2 a3 a4 a5 a6 a7
  · exact c08_lorentz_dot_k_rhophi_eta_t_xy_z_tau a0 a1 a2 a3 a4 a5 a6 a7 hc7
  · exact VS.lorentz_dot.k_rhophi_eta_t_xy_theta_t_eq a0 a1 a2 a3 a4 a5 a6 a7
  · exact c08_lorentz_dot_k_rhophi_eta_t_xy_theta_tau a0 a1 a2 a3 a4 a5 a6 a7 hc7
  · exact VS.lorentz_dot.k_rhophi_eta_t_xy_eta_t_eq a0 a1 a2 a3 a4 a5 a6 a7
  · exact c08_lorentz_dot_k_rhophi_eta_t_xy_eta_tau a0 a1 a2 a3 a4 a5 a6 a7 hc7
  · exact VS.lorentz_dot.k_rhophi_eta_t_rhophi_z_t_eq a0 a1 a2 a3 a4 a5 a6 a7
  · exact c08_lorentz_dot_k_rhophi_eta_t_rhophi_z_tau a0 a1 a2 a3 a4 a5 a6 a7 hc7
  · exact VS.lorentz_dot.k_rhophi_eta_t_rhophi_theta_t_eq a0 a1 a2 a3 a4 a5 a6 a7
  · exact c08_lorentz_dot_k_rhophi_eta_t_rhophi_theta_tau a0 a1 a2 a3 a4 a5 a6 a7 hc7
  · exact VS.lorentz_dot.k_rhophi_eta_t_rhophi_eta_t_eq a0 a1 a2 a3 a4 a5 a6 a7
  · exact c08_lorentz_dot_k_rhophi_eta_t_rhophi_eta_tau a0 a1 a2 a3 a4 a5 a6 a7 hc7
  · exact c08_lorentz_dot_k_rhophi_eta_tau_xy_z_t a0 a1 a2 a3 a4 a5 a6 a7 hc3
  · exact c08_lorentz_dot_k_rhophi_eta_tau_xy_z_tau a0 a1 a2 a3 a4 a5 a6 a7 hc3 hc7
  · exact c08_lorentz_dot_k_rhophi_eta_tau_xy_theta_t a0 a1 a2 a3 a4 a5 a6 a7 hc3
  · exact c08_lorentz_dot_k_rhophi_eta_tau_xy_theta_tau a0 a1 a2 a3 a4 a5 a6 a7 hc3 hc7
  · exact c08_lorentz_dot_k_rhophi_eta_tau_xy_eta_t a0 a1 a2 a3 a4 a5 a6 a7 hc3
  · exact c08_lorentz_dot_k_rhophi_eta_tau_xy_eta_tau a0 a1 a2 a3 a4 a5 a6 a7 hc3 hc7
  · exact c08_lorentz_dot_k_rhophi_eta_tau_rhophi_z_t a0 a1 a2 a3 a4 a5 a6 a7 hc3
  · exact c08_lorentz_dot_k_rhophi_eta_tau_rhophi_z_tau a0 a1 a2 a3 a4 a5 a6 a7 hc3 hc7
  · exact c08_lorentz_dot_k_rhophi_eta_tau_rhophi_theta_t a0 a1 a2 a3 a4 a5 a6 a7 hc3
  · exact c08_lorentz_dot_k_rhophi_eta_tau_rhophi_theta_tau a0 a1 a2 a3 a4 a5 a6 a7 hc3 hc7
  · exact c08_lorentz_dot_k_rhophi_eta_tau_rhophi_eta_t a0 a1 a2 a3 a4 a5 a6 a7 hc3
  · exact c08_lorentz_dot_k_rhophi_eta_tau_rhophi_eta_tau a0 a1 a2 a3 a4 a5 a6 a7 hc3 hc7

/-- `lorentz_equal`: all 144 keys -/
theorem c08_lorentz_equal (k0 : Az) (k1 : Lon) (k2 : Tmp) (k3 : Az) (k4 : Lon) (k5 : Tmp) (a0 a1 a2 a3 a4 a5 a6 a7 : ℝ)
    (hc3 : CanonTmp k2 a3)
    (hc7 : CanonTmp k5 a7) :
    VS.lorentz_equal.eval k0 k1 k2 k3 k4 k5 a0 a1 a2 a3 a4 a5 a6 a7 ↔
      VR.lorentz_equal.eval k0 k1 k2 k3 k4 k5 a0 a1 a2 a3 a4 a5 a6 a7 := by
  cases k0 <;> cases k1 <;> cases k2 <;> cases k3 <;> cases k4 <;> cases k5
  · exact Iff.of_eq (VS.lorentz_equal.k_xy_z_t_xy_z_t_eq a0 a1 a2 a3 a4 a5 a6 a7)
  · exact Iff.of_eq (c08_lorentz_equal_k_xy_z_t_xy_z_tau a0 a1 a2 a3 a4 a5 a6 a7 hc7)
  · exact Iff.of_eq (VS.lorentz_equal.k_xy_z_t_xy_theta_t_eq a0 a1 a2 a3 a4 a5 a6 a7)
  · exact Iff.of_eq (c08_lorentz_equal_k_xy_z_t_xy_theta_tau a0 a1 a2 a3 a4 a5 a6 a7 hc7)
  · exact Iff.of_eq (VS.lorentz_equal.k_xy_z_t_xy_eta_t_eq a0 a1 a2 a3 a4 a5 a6 a7)
  · exact Iff.of_eq (c08_lorentz_equal_k_xy_z_t_xy_eta_tau a0 a1 a2 a3 a4 a5 a6 a7 hc7)
  · exact Iff.of_eq (VS.lorentz_equal.k_xy_z_t_rhophi_z_t_eq a0 a1 a2 a3 a4 a5 a6 a7)
  · exact Iff.of_eq (c08_lorentz_equal_k_xy_z_t_rhophi_z_tau a0 a1 a2 a3 a4 a5 a6 a7 hc7)
  · exact Iff.of_eq (VS.lorentz_equal.k_xy_z_t_rhophi_theta_t_eq a0 a1 a2 a3 a4 a5 a6 a7)
  · exact Iff.of_eq (c08_lorentz_equal_k_xy_z_t_rhophi_theta_tau a0 a1 a2 a3 a4 a5 a6 a7 hc7)
  · exact Iff.of_eq (VS.lorentz_equal.k_xy_z_t_rhophi_eta_t_eq a0 a1 a2 a3 a4 a5 a6 a7)
  · exact Iff.of_eq (c08_lorentz_equal_k_xy_z_t_rhophi_eta_tau a0 a1 a2 a3 a4 a5 a6 a7 hc7)
  · exact Iff.of_eq (c08_lorentz_equal_k_xy_z_tau_xy_z_t a0 a1 a2 a3 a4 a5 a6 a7 hc3)
  · exact Iff.of_eq (VS.lorentz_equal.k_xy_z_tau_xy_z_tau_eq a0 a1 a2 a3 a4 a5 a6 a7)
  · exact Iff.of_eq (c08_lorentz_equal_k_xy_z_tau_xy_theta_t a0 a1 a2 a3 a4 a5 a6 a7 hc3)
  · exact Iff.of_eq (VS.lorentz_equal.k_xy_z_tau_xy_theta_tau_eq a0 a1 a2 a3 a4 a5 a6 a7)
  · exact Iff.of_eq (c08_lorentz_equal_k_xy_z_tau_xy_eta_t a0 a1 a2 a3 a4 a5 a6 a7 hc3)
  · exact Iff.of_eq (VS.lorentz_equal.k_xy_z_tau_xy_eta_tau_eq a0 a1 a2 a3 a4 a5 a6 a7)
  · exact Iff.of_eq (c08_lorentz_equal_k_xy_z_tau_rhophi_z_t a0 a1 a2 a3 a4 a5 a6 a7 hc3)
  · exact Iff.of_eq (VS.lorentz_equal.k_xy_z_tau_rhophi_z_tau_eq a0 a1 a2 a3 a4 a5 a6 a7)
  · exact Iff.of_eq (c08_lorentz_equal_k_xy_z_tau_rhophi_theta_t a0 a1 a2 a3 a4 a5 a6 a7 hc3)
  · exact Iff.of_eq (VS.lorentz_equal.k_xy_z_tau_rhophi_theta_tau_eq a0 a1 a2 a3 a4 a5 a6 a7)
  · exact Iff.of_eq (c08_lorentz_equal_k_xy_z_tau_rhophi_eta_t a0 a1 a2 a3 a4 a5 a6 a7 hc3)
  · exact Iff.of_eq (VS.lorentz_equal.k_xy_z_tau_rhophi_eta_tau_eq a0 a1 a2 a3 a4 a5 a6 a7)
  · exact Iff.of_eq (VS.lorentz_equal.k_xy_theta_t_xy_z_t_eq a0 a1 a2 a3 a4 a5 a6 a7)
  · exact Iff.of_eq (c08_lorentz_equal_k_xy_theta_t_xy_z_tau a0 a1 a2 a3 a4 a5 a6 a7 hc7)
  · exact Iff.of_eq (VS.lorentz_equal.k_xy_theta_t_xy_theta_t_eq a0 a1 a2 a3 a4 a5 a6 a7)
  · exact Iff.of_eq (c08_lorentz_equal_k_xy_theta_t_xy_theta_tau a0 a1 a2 a3 a4 a5 a6 a7 hc7)
  · exact Iff.of_eq (VS.lorentz_equal.k_xy_theta_t_xy_eta_t_eq a0 a1 a2 a3 a4 a5 a6 a7)
  · exact Iff.of_eq (c08_lorentz_equal_k_xy_theta_t_xy_eta_tau a0 a1 a2 a3 a4 a5 a6 a7 hc7)
  · exact Iff.of_eq (VS.lorentz_equal.k_xy_theta_t_rhophi_z_t_eq a0 a1 a2 a3 a4 a5 a6 a7)
  · exact Iff.of_eq (c08_lorentz_equal_k_xy_theta_t_rhophi_z_tau a0 a1 a2 a3 a4 a5 a6 a7 hc7)
  · exact Iff.of_eq (VS.lorentz_equal.k_xy_theta_t_rhophi_theta_t_eq a0 a1 a2 a3 a4 a5 a6 a7)
  · exact Iff.of_eq (c08_lorentz_equal_k_xy_theta_t_rhophi_theta_tau a0 a1 a2 a3 a4 a5 a6 a7 hc7)
  · exact Iff.of_eq (VS.lorentz_equal.k_xy_theta_t_rhophi_eta_t_eq a0 a1 a2 a3 a4 a5 a6 a7)
  · exact Iff.of_eq (c08_lorentz_equal_k_xy_theta_t_rhophi_eta_tau a0 a1 a2 a3 a4 a5 a6 a7 hc7)
  · exact Iff.of_eq (c08_lorentz_equal_k_xy_theta_tau_xy_z_t a0 a1 a2 a3 a4 a5 a6 a7 hc3)
  · exact Iff.of_eq (VS.lorentz_equal.k_xy_theta_tau_xy_z_tau_eq a0 a1 a2 a3 a4 a5 a6 a7)
  · exact Iff.of_eq (c08_lorentz_equal_k_xy_theta_tau_xy_theta_t a0 a1 a2 a3 a4 a5 a6 a7 hc3)
  · exact Iff.of_eq (VS.lorentz_equal.k_xy_theta_tau_xy_theta_tau_eq a0 a1 a2 a3 a4 a5 a6 a7)
  · exact Iff.of_eq (c08_lorentz_equal_k_xy_theta_tau_xy_eta_t a0 a1 a2 a3 a4 a5 a6 a7 hc3)
  · exact Iff.of_eq (VS.lorentz_equal.k_xy_theta_tau_xy_eta_tau_eq a0 a1 a2 a3 a4 a5 a6 a7)
  · exact Iff.of_eq (c08_lorentz_equal_k_xy_theta_tau_rhophi_z_t a0 a1 a2 a3 a4 a5 a6 a7 hc3)
  · exact Iff.of_eq (VS.lorentz_equal.k_xy_theta_tau_rhophi_z_tau_eq a0 a1 a2 a3 a4 a5 a6 a7)
  · exact Iff.of_eq (c08_lorentz_equal_k_xy_theta_tau_rhophi_theta_t a0 a1 a2 a3 a4 a5 a6 a7 hc3)
  · exact Iff.of_eq (VS.lorentz_equal.k_xy_theta_tau_rhophi_theta_tau_eq a0 a1 a2 a3 a4 a5 a6 a7)
  · exact Iff.of_eq (c08_lorentz_equal_k_xy_theta_tau_rhophi_eta_t a0 a1 a2 a3 a4 a5 a6 a7 hc3)
  · exact Iff.of_eq (VS.lorentz_equal.k_xy_theta_tau_rhophi_eta_tau_eq a0 a1 a2 a3 a4 a5 a6 a7)
  · exact Iff.of_eq (VS.lorentz_equal.k_xy_eta_t_xy_z_t_eq a0 a1 a2 a3 a4 a5 a6 a7)
  · exact Iff.of_eq (c08_lorentz_equal_k_xy_eta_t_xy_z_tau a0 a1 a2 a3 a4 a5 a6 a7 hc7)
  · exact Iff.of_eq (VS.lorentz_equal.k_xy_eta_t_xy_theta_t_eq a0 a1 a2 a3 a4 a5 a6 a7)
  · exact Iff.of_eq (c08_lorentz_equal_k_xy_eta_t_xy_theta_tau a0 a1 a2 a3 a4 a5 a6 a7 hc7)
  · exact Iff.of_eq (VS.lorentz_equal.k_xy_eta_t_xy_eta_t_eq a0 a1 a2 a3 a4 a5 a6 a7)
  · exact Iff.of_eq (c08_lorentz_equal_k_xy_eta_t_xy_eta_tau a0 a1 a2 a3 a4 a5 a6 a7 hc7)
  · exact Iff.of_eq (VS.lorentz_equal.k_xy_eta_t_rhophi_z_t_eq a0 a1 a2 a3 a4 a5 a6 a7)
  · exact Iff.of_eq (c08_lorentz_equal_k_xy_eta_t_rhophi_z_tau a0 a1 a2 a3 a4 a5 a6 a7 hc7)
  · exact Iff.of_eq (VS.lorentz_equal.k_xy_eta_t_rhophi_theta_t_eq a0 a1 a2 a3 a4 a5 a6 a7)
  · exact Iff.of_eq (c08_lorentz_equal_k_xy_eta_t_rhophi_theta_tau a0 a1 a2 a3 a4 a5 a6 a7 hc7)
  · exact Iff.of_eq (VS.lorentz_equal.k_xy_eta_t_rhophi_eta_t_eq a0 a1 a2 a3 a4 a5 a6 a7)
  · exact Iff.of_eq (c08_lorentz_equal_k_xy_eta_t_rhophi_eta_tau a0 a1 a2 a3 a4 a5 a6 a7 hc7)
  · exact Iff.of_eq (c08_lorentz_equal_k_xy_eta_tau_xy_z_t a0 a1 a2 a3 a4 a5 a6 a7 hc3)
  · exact Iff.of_eq (VS.lorentz_equal.k_xy_eta_tau_xy_z_tau_eq a0 a1 a2 a3 a4 a5 a6 a7)
  · exact Iff.of_eq (c08_lorentz_equal_k_xy_eta_tau_xy_theta_t a0 a1 a2 a3 a4 a5 a6 a7 hc3)
  · exact Iff.of_eq (VS.lorentz_equal.k_xy_eta_tau_xy_theta_tau_eq a0 a1 a2 a3 a4 a5 a6 a7)
  · exact Iff.of_eq (c08_lorentz_equal_k_xy_eta_tau_xy_eta_t a0 a1 a2 a3 a4 a5 a6 a7 hc3)
  · exact Iff.of_eq (VS.lorentz_equal.k_xy_eta_tau_xy_eta_tau_eq a0 a1 a2 a3 a4 a5 a6 a7)
  · exact Iff.of_eq (c08_lorentz_equal_k_xy_eta_tau_rhophi_z_t a0 a1 a2 a3 a4 a5 a6 a7 hc3)
  · exact Iff.of_eq (VS.lorentz_equal.k_xy_eta_tau_rhophi_z_tau_eq a0 a1 a2 a3 a4 a5 a6 a7)
  · exact Iff.of_eq (c08_lorentz_equal_k_xy_eta_tau_rhophi_theta_t a0 a1 a2 a3 a4 a5 a6 a7 hc3)
  · exact Iff.of_eq (VS.lorentz_equal.k_xy_eta_tau_rhophi_theta_tau_eq a0 a1 a2 a3 a4 a5 a6 a7)
  · exact Iff.of_eq (c08_lorentz_equal_k_xy_eta_tau_rhophi_eta_t a0 a1 a2 a3 a4 a5 a6 a7 hc3)
  · exact Iff.of_eq (VS.lorentz_equal.k_xy_eta_tau_rhophi_eta_tau_eq a0 a1 a2 a3 a4 a5 a6 a7)
  · exact Iff.of_eq (VS.lorentz_equal.k_rhophi_z_t_xy_z_t_eq a0 a1 a2 a3 a4 a5 a6 a7)
  · exact Iff.of_eq (c08_lorentz_equal_k_rhophi_z_t_xy_z_tau a0 a1 a2 a3 a4 a5 a6 a7 hc7)
  · exact Iff.of_eq (VS.lorentz_equal.k_rhophi_z_t_xy_theta_t_eq a0 a1 a2 a3 a4 a5 a6 a7)
  · exact Iff.of_eq (c08_lorentz_equal_k_rhophi_z_t_xy_theta_tau a0 a1 a2 a3 a4 a5 a6 a7 hc7)
  · exact Iff.of_eq (VS.lorentz_equal.k_rhophi_z_t_xy_eta_t_eq a0 a1 a2 a3 a4 a5 a6 a7)
  · exact Iff.of_eq (c08_lorentz_equal_k_rhophi_z_t_xy_eta_tau a0 a1 a2 a3 a4 a5 a6 a7 hc7)
  · exact Iff.of_eq (VS.lorentz_equal.k_rhophi_z_t_rhophi_z_t_eq a0 a1 a2 a3 a4 a5 a6 a7)
  · exact Iff.of_eq (c08_lorentz_equal_k_rhophi_z_t_rhophi_z_tau a0 a1 a2 a3 a4 a5 a6 a7 hc7)
  · exact Iff.of_eq (VS.lorentz_equal.k_rhophi_z_t_rhophi_theta_t_eq a0 a1 a2 a3 a4 a5 a6 a7)
  · exact Iff.of_eq (c08_lorentz_equal_k_rhophi_z_t_rhophi_theta_tau a0 a1 a2 a3 a4 a5 a6 a7 hc7)
  · exact Iff.of_eq (VS.lorentz_equal.k_rhophi_z_t_rhophi_eta_t_eq a0 a1 a2 a3 a4 a5 a6 a7)
  · exact Iff.of_eq (c08_lorentz_equal_k_rhophi_z_t_rhophi_eta_tau a0 a1 a2 a3 a4 a5 a6 a7 hc7)
  · exact Iff.of_eq (c08_lorentz_equal_k_rhophi_z_tau_xy_z_t a0 a1 a2 a3 a4 a5 a6 a7 hc3)
  · exact Iff.of_eq (VS.lorentz_equal.k_rhophi_z_tau_xy_z_tau_eq a0 a1 a2 a3 a4 a5 a6 a7)
  · exact Iff.of_eq (c08_lorentz_equal_k_rhophi_z_tau_xy_theta_t a0 a1 a2 a3 a4 a5 a6 a7 hc3)
  · exact Iff.of_eq (VS.lorentz_equal.k_rhophi_z_tau_xy_theta_tau_eq a0 a1 a2 a3 a4 a5 a6 a7)
  · exact Iff.of_eq (c08_lorentz_equal_k_rhophi_z_tau_xy_eta_t a0 a1 a2 a3 a4 a5 a6 a7 hc3)
  · exact Iff.of_eq (VS.lorentz_equal.k_rhophi_z_tau_xy_eta_tau_eq a0 a1 a2 a3 a4 a5 a6 a7)
  · exact Iff.of_eq (c08_lorentz_equal_k_rhophi_z_tau_rhophi_z_t a0 a1 a2 a3 a4 a5 a6 a7 hc3)
  · exact Iff.of_eq (VS.lorentz_equal.k_rhophi_z_tau_rhophi_z_tau_eq a0 a1 a2 a3 a4 a5 a6 a7)
  · exact Iff.of_eq (c08_lorentz_equal_k_rhophi_z_tau_rhophi_theta_t a0 a1 a2 a3 a4 a5 a6 a7 hc3)
  · exact Iff.of_eq (VS.lorentz_equal.k_rhophi_z_tau_rhophi_theta_tau_eq a0 a1 a2 a3 a4 a5 a6 a7)
  · exact Iff.of_eq (c08_lorentz_equal_k_rhophi_z_tau_rhophi_eta_t a0 a1 a2 a3 a4 a5 a6 a7 hc3)
  · exact Iff.of_eq (VS.lorentz_equal.k_rhophi_z_tau_rhophi_eta_tau_eq a0 a1 a2 a3 a4 a5 a6 a7)
  · exact Iff.of_eq (VS.lorentz_equal.k_rhophi_theta_t_xy_z_t_eq a0 a1 a2 a3 a4 a5 a6 a7)
  · exact Iff.of_eq (c08_lorentz_equal_k_rhophi_theta_t_xy_z_tau a0 a1 a2 a3 a4 a5 a6 a7 hc7)
  · exact Iff.of_eq (VS.lorentz_equal.k_rhophi_theta_t_xy_theta_t_eq a0 a1 a2 a3 a4 a5 a6 a7)
  · exact Iff.of_eq (c08_lorentz_equal_k_rhophi_theta_t_xy_theta_tau a0 a1 a2 a3 a4 a5 a6 a7 hc7)
  · exact Iff.of_eq (VS.lorentz_equal.k_rhophi_theta_t_xy_eta_t_eq a0 a1 a2 a3 a4 a5 a6 a7)
  · exact Iff.of_eq (c08_lorentz_equal_k_rhophi_theta_t_xy_eta_tau a0 a1 a2 a3 a4 a5 a6 a7 hc7)
  · exact Iff.of_eq (VS.lorentz_equal.k_rhophi_theta_t_rhophi_z_t_eq a0 a1 a2 a3 a4 a5 a6 a7)
  · exact Iff.of_eq (c08_lorentz_equal_k_rhophi_theta_t_rhophi_z_tau a0 a1 a2 a3 a4 a5 a6 a7 hc7)
  · exact Iff.of_eq (VS.lorentz_equal.k_rhophi_theta_t_rhophi_theta_t_eq a0 a1 a2 a3 a4 a5 a6 a7)
  · exact Iff.of_eq (c08_lorentz_equal_k_rhophi_theta_t_rhophi_theta_tau a0 a1 a2 a3 a4 a5 a6 a7 hc7)
  · exact Iff.of_eq (VS.lorentz_equal.k_rhophi_theta_t_rhophi_eta_t_eq a0 a1 a2 a3 a4 a5 a6 a7)
  · exact Iff.of_eq (c08_lorentz_equal_k_rhophi_theta_t_rhophi_eta_tau a0 a1 a2 a3 a4 a5 a6 a7 hc7)
  · exact Iff.of_eq (c08_lorentz_equal_k_rhophi_theta_tau_xy_z_t a0 a1 a2 a3 a4 a5 a6 a7 hc3)
  · exact Iff.of_eq (VS.lorentz_equal.k_rhophi_theta_tau_xy_z_tau_eq a0 a1 a2 a3 a4 a5 a6 a7)
  · exact Iff.of_eq (c08_lorentz_equal_k_rhophi_theta_tau_xy_theta_t a0 a1 a2 a3 a4 a5 a6 a7 hc3)
  · exact Iff.of_eq (VS.lorentz_equal.k_rhophi_theta_tau_xy_theta_tau_eq a0 a1 a2 a3 a4 a5 a6 a7)
  · exact Iff.of_eq (c08_lorentz_equal_k_rhophi_theta_tau_xy_eta_t a0 a1 a2 a3 a4 a5 a6 a7 hc3)
  · exact Iff.of_eq (VS.lorentz_equal.k_rhophi_theta_tau_xy_eta_tau_eq a0 a1 a2 a3 a4 a5 a6 a7)
  · exact Iff.of_eq (c08_lorentz_equal_k_rhophi_theta_tau_rhophi_z_t a0 a1 a2 a3 a4 a5 a6 a7 hc3)
  · exact Iff.of_eq (VS.lorentz_equal.k_rhophi_theta_tau_rhophi_z_tau_eq a0 a1 a2 a3 a4 a5 a6 a7)
  · exact Iff.of_eq (c08_lorentz_equal_k_rhophi_theta_tau_rhophi_theta_t a0 a1 a2 a3 a4 a5 a6 a7 hc3)
  · exact Iff.of_eq (VS.lorentz_equal.k_rhophi_theta_tau_rhophi_theta_tau_eq a0 a1 a2 a3 a4 a5 a6 a7)
  · exact Iff.of_eq (c08_lorentz_equal_k_rhophi_theta_tau_rhophi_eta_t a0 a1 a2 a3 a4 a5 a6 a7 hc3)
  · exact Iff.of_eq (VS.lorentz_equal.k_rhophi_theta_tau_rhophi_eta_tau_eq a0 a1 a2 a3 a4 a5 a6 a7)
  · exact Iff.of_eq (VS.lorentz_equal.k_rhophi_eta_t_xy_z_t_eq a0 a1 a2 a3 a4 a5 a6 a7)
  · exact Iff.of_eq (c08_lorentz_equal_k_rhophi_eta_t_xy_z_tau a0 a1 a2 a3 a4 a5 a6 a7 hc7)
  · exact Iff.of_eq (VS.lorentz_equal.k_rhophi_eta_t_xy_theta_t_eq a0 a1 a2 a3 a4 a5 a6 a7)
  · exact Iff.of_eq (c08_lorentz_equal_k_rhophi_eta_t_xy_theta_tau a0 a1 a2 a3 a4 a5 a6 a7 hc7)
  · exact Iff.of_eq (VS.lorentz_equal.k_rhophi_eta_t_xy_eta_t_eq a0 a1 a2 a3 a4 a5 a6 a7)
  · exact Iff.of_eq (c08_lorentz_equal_k_rhophi_eta_t_xy_eta_tau a0 a1 a2 a3 a4 a5 a6 a7 hc7)
  · exact Iff.of_eq (VS.lorentz_equal.k_rhophi_eta_t_rhophi_z_t_eq a0 a1 a2 a3 a4 a5 a6 a7)
  · exact Iff.of_eq (c08_lorentz_equal_k_rhophi_eta_t_rhophi_z_tau a0 a1 a2 a3 a4 a5 a6 a7 hc7)
  · exact Iff.of_eq (VS.lorentz_equal.k_rhophi_eta_t_rhophi_theta_t_eq a0 a1 a2 a3 a4 a5 a6 a7)
  · exact Iff.of_eq (c08_lorentz_equal_k_rhophi_eta_t_rhophi_theta_tau a0 a1 a2 a3 a4 a5 a6 a7 hc7)
  · exact Iff.of_eq (VS.lorentz_equal.k_rhophi_eta_t_rhophi_eta_t_eq a0 a1 a2 a3 a4 a5 a6 a7)
  · exact Iff.of_eq (c08_lorentz_equal_k_rhophi_eta_t_rhophi_eta_tau a0 a1 a2 a3 a4 a5 a6 a7 hc7)
  · exact Iff.of_eq (c08_lorentz_equal_k_rhophi_eta_tau_xy_z_t a0 a1 a2 a3 a4 a5 a6 a7 hc3)
  · exact Iff.of_eq (VS.lorentz_equal.k_rhophi_eta_tau_xy_z_tau_eq a0 a1 a2 a3 a4 a5 a6 a7)
  · exact Iff.of_eq (c08_lorentz_equal_k_rhophi_eta_tau_xy_theta_t a0 a1 a2 a3 a4 a5 a6 a7 hc3)
  · exact Iff.of_eq (VS.lorentz_equal.k_rhophi_eta_tau_xy_theta_tau_eq a0 a1 a2 a3 a4 a5 a6 a7)
  · exact Iff.of_eq (c08_lorentz_equal_k_rhophi_eta_tau_xy_eta_t a0 a1 a2 a3 a4 a5 a6 a7 hc3)
  · exact Iff.of_eq (VS.lorentz_equal.k_rhophi_eta_tau_xy_eta_tau_eq a0 a1 a2 a3 a4 a5 a6 a7)
  · exact Iff.of_eq (c08_lorentz_equal_k_rhophi_eta_tau_rhophi_z_t a0 a1 a2 a3 a4 a5 a6 a7 hc3)
  · exact Iff.of_eq (VS.lorentz_equal.k_rhophi_eta_tau_rhophi_z_tau_eq a0 a1 a2 a3 a4 a5 a6 a7)
  · exact Iff.of_eq (c08_lorentz_equal_k_rhophi_eta_tau_rhophi_theta_t a0 a1 a2 a3 a4 a5 a6 a7 hc3)
  · exact Iff.of_eq (VS.lorentz_equal.k_rhophi_eta_tau_rhophi_theta_tau_eq a0 a1 a2 a3 a4 a5 a6 a7)
  · exact Iff.of_eq (c08_lorentz_equal_k_rhophi_eta_tau_rhophi_eta_t a0 a1 a2 a3 a4 a5 a6 a7 hc3)
  · exact Iff.of_eq (VS.lorentz_equal.k_rhophi_eta_tau_rhophi_eta_tau_eq a0 a1 a2 a3 a4 a5 a6 a7)

/-- `lorentz_gamma`: all 12 keys -/
theorem c08_lorentz_gamma (k0 : Az) (k1 : Lon) (k2 : Tmp) (a0 a1 a2 a3 : ℝ)
    (hs : 0 ≤ VR.lorentz_tau2.eval k0 k1 k2 a0 a1 a2 a3) :
    VS.lorentz_gamma.eval k0 k1 k2 a0 a1 a2 a3 =
      VR.lorentz_gamma.eval k0 k1 k2 a0 a1 a2 a3 := by
  cases k0 <;> cases k1 <;> cases k2
  · exact c08_lorentz_gamma_xy_z_t a0 a1 a2 a3 hs
  · exact c08_lorentz_gamma_xy_z_tau a0 a1 a2 a3 (c08_nonneg_of_copysign_sq hs)
  · exact c08_lorentz_gamma_xy_theta_t a0 a1 a2 a3 hs
  · exact c08_lorentz_gamma_xy_theta_tau a0 a1 a2 a3 (c08_nonneg_of_copysign_sq hs)
  · exact c08_lorentz_gamma_xy_eta_t a0 a1 a2 a3 hs
  · exact c08_lorentz_gamma_xy_eta_tau a0 a1 a2 a3 (c08_nonneg_of_copysign_sq hs)
  · exact c08_lorentz_gamma_rhophi_z_t a0 a1 a2 a3 hs
  · exact c08_lorentz_gamma_rhophi_z_tau a0 a1 a2 a3 (c08_nonneg_of_copysign_sq hs)
  · exact c08_lorentz_gamma_rhophi_theta_t a0 a1 a2 a3 hs
  · exact c08_lorentz_gamma_rhophi_theta_tau a0 a1 a2 a3 (c08_nonneg_of_copysign_sq hs)
  · exact c08_lorentz_gamma_rhophi_eta_t a0 a1 a2 a3 hs
  · exact c08_lorentz_gamma_rhophi_eta_tau a0 a1 a2 a3 (c08_nonneg_of_copysign_sq hs)

/-- `lorentz_is_lightlike`: all 12 keys -/
theorem c08_lorentz_is_lightlike (k0 : Az) (k1 : Lon) (k2 : Tmp) (a0 a1 a2 a3 a4 : ℝ)
    (hc4 : CanonTmp k2 a4) :
    VS.lorentz_is_lightlike.eval k0 k1 k2 a0 a1 a2 a3 a4 ↔
      VR.lorentz_is_lightlike.eval k0 k1 k2 a0 a1 a2 a3 a4 := by
  cases k0 <;> cases k1 <;> cases k2
  · exact Iff.of_eq (VS.lorentz_is_lightlike.k_xy_z_t_eq a0 a1 a2 a3 a4)
  · exact Iff.of_eq (c08_lorentz_is_lightlike_k_xy_z_tau a0 a1 a2 a3 a4 hc4)
  · exact Iff.of_eq (VS.lorentz_is_lightlike.k_xy_theta_t_eq a0 a1 a2 a3 a4)
  · exact Iff.of_eq (c08_lorentz_is_lightlike_k_xy_theta_tau a0 a1 a2 a3 a4 hc4)
  · exact Iff.of_eq (VS.lorentz_is_lightlike.k_xy_eta_t_eq a0 a1 a2 a3 a4)
  · exact Iff.of_eq (c08_lorentz_is_lightlike_k_xy_eta_tau a0 a1 a2 a3 a4 hc4)
  · exact Iff.of_eq (VS.lorentz_is_lightlike.k_rhophi_z_t_eq a0 a1 a2 a3 a4)
  · exact Iff.of_eq (c08_lorentz_is_lightlike_k_rhophi_z_tau a0 a1 a2 a3 a4 hc4)
  · exact Iff.of_eq (VS.lorentz_is_lightlike.k_rhophi_theta_t_eq a0 a1 a2 a3 a4)
  · exact Iff.of_eq (c08_lorentz_is_lightlike_k_rhophi_theta_tau a0 a1 a2 a3 a4 hc4)
  · exact Iff.of_eq (VS.lorentz_is_lightlike.k_rhophi_eta_t_eq a0 a1 a2 a3 a4)
  · exact Iff.of_eq (c08_lorentz_is_lightlike_k_rhophi_eta_tau a0 a1 a2 a3 a4 hc4)

/-- `lorentz_is_spacelike`: all 12 keys -/
theorem c08_lorentz_is_spacelike (k0 : Az) (k1 : Lon) (k2 : Tmp) (a0 a1 a2 a3 a4 : ℝ)
    (hc4 : CanonTmp k2 a4) :
    VS.lorentz_is_spacelike.eval k0 k1 k2 a0 a1 a2 a3 a4 ↔
      VR.lorentz_is_spacelike.eval k0 k1 k2 a0 a1 a2 a3 a4 := by
  cases k0 <;> cases k1 <;> cases k2
  · exact Iff.of_eq (VS.lorentz_is_spacelike.k_xy_z_t_eq a0 a1 a2 a3 a4)
  · exact Iff.of_eq (c08_lorentz_is_spacelike_k_xy_z_tau a0 a1 a2 a3 a4 hc4)
  · exact Iff.of_eq (VS.lorentz_is_spacelike.k_xy_theta_t_eq a0 a1 a2 a3 a4)
  · exact Iff.of_eq (c08_lorentz_is_spacelike_k_xy_theta_tau a0 a1 a2 a3 a4 hc4)
  · exact Iff.of_eq (VS.lorentz_is_spacelike.k_xy_eta_t_eq a0 a1 a2 a3 a4)
  · exact Iff.of_eq (c08_lorentz_is_spacelike_k_xy_eta_tau a0 a1 a2 a3 a4 hc4)
  · exact Iff.of_eq (VS.lorentz_is_spacelike.k_rhophi_z_t_eq a0 a1 a2 a3 a4)
  · exact Iff.of_eq (c08_lorentz_is_spacelike_k_rhophi_z_tau a0 a1 a2 a3 a4 hc4)
  · exact Iff.of_eq (VS.lorentz_is_spacelike.k_rhophi_theta_t_eq a0 a1 a2 a3 a4)
  · exact Iff.of_eq (c08_lorentz_is_spacelike_k_rhophi_theta_tau a0 a1 a2 a3 a4 hc4)
  · exact Iff.of_eq (VS.lorentz_is_spacelike.k_rhophi_eta_t_eq a0 a1 a2 a3 a4)
  · exact Iff.of_eq (c08_lorentz_is_spacelike_k_rhophi_eta_tau a0 a1 a2 a3 a4 hc4)

/-- `lorentz_is_timelike`: all 12 keys -/
theorem c08_lorentz_is_timelike (k0 : Az) (k1 : Lon) (k2 : Tmp) (a0 a1 a2 a3 a4 : ℝ)
    (hc4 : CanonTmp k2 a4) :
    VS.lorentz_is_timelike.eval k0 k1 k2 a0 a1 a2 a3 a4 ↔
      VR.lorentz_is_timelike.eval k0 k1 k2 a0 a1 a2 a3 a4 := by
  cases k0 <;> cases k1 <;> cases k2
  · exact Iff.of_eq (VS.lorentz_is_timelike.k_xy_z_t_eq a0 a1 a2 a3 a4)
  · exact Iff.of_eq (c08_lorentz_is_timelike_k_xy_z_tau a0 a1 a2 a3 a4 hc4)
  · exact Iff.of_eq (VS.lorentz_is_timelike.k_xy_theta_t_eq a0 a1 a2 a3 a4)
  · exact Iff.of_eq (c08_lorentz_is_timelike_k_xy_theta_tau a0 a1 a2 a3 a4 hc4)
  · exact Iff.of_eq (VS.lorentz_is_timelike.k_xy_eta_t_eq a0 a1 a2 a3 a4)
  · exact Iff.of_eq (c08_lorentz_is_timelike_k_xy_eta_tau a0 a1 a2 a3 a4 hc4)
  · exact Iff.of_eq (VS.lorentz_is_timelike.k_rhophi_z_t_eq a0 a1 a2 a3 a4)
  · exact Iff.of_eq (c08_lorentz_is_timelike_k_rhophi_z_tau a0 a1 a2 a3 a4 hc4)
  · exact Iff.of_eq (VS.lorentz_is_timelike.k_rhophi_theta_t_eq a0 a1 a2 a3 a4)
  · exact Iff.of_eq (c08_lorentz_is_timelike_k_rhophi_theta_tau a0 a1 a2 a3 a4 hc4)
  · exact Iff.of_eq (VS.lorentz_is_timelike.k_rhophi_eta_t_eq a0 a1 a2 a3 a4)
  · exact Iff.of_eq (c08_lorentz_is_timelike_k_rhophi_eta_tau a0 a1 a2 a3 a4 hc4)

/-- `lorentz_not_equal`: all 144 keys -/
theorem c08_lorentz_not_equal (k0 : Az) (k1 : Lon) (k2 : Tmp) (k3 : Az) (k4 : Lon) (k5 : Tmp) (a0 a1 a2 a3 a4 a5 a6 a7 : ℝ)
    (hc3 : CanonTmp k2 a3)
    (hc7 : CanonTmp k5 a7) :
    VS.lorentz_not_equal.eval k0 k1 k2 k3 k4 k5 a0 a1 a2 a3 a4 a5 a6 a7 ↔
      VR.lorentz_not_equal.eval k0 k1 k2 k3 k4 k5 a0 a1 a2 a3 a4 a5 a6 a7 := by
  cases k0 <;> cases k1 <;> cases k2 <;> cases k3 <;> cases k4 <;> cases k5
  · exact Iff.of_eq (VS.lorentz_not_equal.k_xy_z_t_xy_z_t_eq a0 a1 a2 a3 a4 a5 a6 a7)
  · exact Iff.of_eq (c08_lorentz_not_equal_k_xy_z_t_xy_z_tau a0 a1 a2 a3 a4 a5 a6 a7 hc7)
  · exact Iff.of_eq (VS.lorentz_not_equal.k_xy_z_t_xy_theta_t_eq a0 a1 a2 a3 a4 a5 a6 a7)
  · exact Iff.of_eq (c08_lorentz_not_equal_k_xy_z_t_xy_theta_tau a0 a1 a2 a3 a4 a5 a6 a7 hc7)
  · exact Iff.of_eq (VS.lorentz_not_equal.k_xy_z_t_xy_eta_t_eq a0 a1 a2 a3 a4 a5 a6 a7)
  · exact Iff.of_eq (c08_lorentz_not_equal_k_xy_z_t_xy_eta_tau a0 a1 a2 a3 a4 a5 a6 a7 hc7)
  · exact Iff.of_eq (VS.lorentz_not_equal.k_xy_z_t_rhophi_z_t_eq a0 a1 a2 a3 a4 a5 a6 a7)
  · exact Iff.of_eq (c08_lorentz_not_equal_k_xy_z_t_rhophi_z_tau a0 a1 a2 a3 a4 a5 a6 a7 hc7)
  · exact Iff.of_eq (VS.lorentz_not_equal.k_xy_z_t_rhophi_theta_t_eq a0 a1 a2 a3 a4 a5 a6 a7)
  · exact Iff.of_eq (c08_lorentz_not_equal_k_xy_z_t_rhophi_theta_tau a0 a1 a2 a3 a4 a5 a6 a7 hc7)
  · exact Iff.of_eq (VS.lorentz_not_equal.k_xy_z_t_rhophi_eta_t_eq a0 a1 a2 a3 a4 a5 a6 a7)
  · exact Iff.of_eq (c08_lorentz_not_equal_k_xy_z_t_rhophi_eta_tau a0 a1 a2 a3 a4 a5 a6 a7 hc7)
  · exact Iff.of_eq (c08_lorentz_not_equal_k_xy_z_tau_xy_z_t a0 a1 a2 a3 a4 a5 a6 a7 hc3)
  · exact Iff.of_eq (VS.lorentz_not_equal.k_xy_z_tau_xy_z_tau_eq a0 a1 a2 a3 a4 a5 a6 a7)
  · exact Iff.of_eq (c08_lorentz_not_equal_k_xy_z_tau_xy_theta_t a0 a1 a2 a3 a4 a5 a6 a7 hc3)
  · exact Iff.of_eq (VS.lorentz_not_equal.k_xy_z_tau_xy_theta_tau_eq a0 a1 a2 a3 a4 a5 a6 a7)
  · exact Iff.of_eq (c08_lorentz_not_equal_k_xy_z_tau_xy_eta_t a0 a1 a2 a3 a4 a5 a6 a7 hc3)
  · exact Iff.of_eq (VS.lorentz_not_equal.k_xy_z_tau_xy_eta_tau_eq a0 a1 a2 a3 a4 a5 a6 a7)
  · exact Iff.of_eq (c08_lorentz_not_equal_k_xy_z_tau_rhophi_z_t a0 a1 a2 a3 a4 a5 a6 a7 hc3)
  · exact Iff.of_eq (VS.lorentz_not_equal.k_xy_z_tau_rhophi_z_tau_eq a0 a1 a2 a3 a4 a5 a6 a7)
  · exact Iff.of_eq (c08_lorentz_not_equal_k_xy_z_tau_rhophi_theta_t a0 a1 a2 a3 a4 a5 a6 a7 hc3)
  · exact Iff.of_eq (VS.lorentz_not_equal.k_xy_z_tau_rhophi_theta_tau_eq a0 a1 a2 a3 a4 a5 a6 a7)
  · exact Iff.of_eq (c08_lorentz_not_equal_k_xy_z_tau_rhophi_eta_t a0 a1 a2 a3 a4 a5 a6 a7 hc3)
  · exact Iff.of_eq (VS.lorentz_not_equal.k_xy_z_tau_rhophi_eta_tau_eq a0 a1 a2 a3 a4 a5 a6 a7)
  · exact Iff.of_eq (VS.lorentz_not_equal.k_xy_theta_t_xy_z_t_eq a0 a1 a2 a3 a4 a5 a6 a7)
  · exact Iff.of_eq (c08_lorentz_not_equal_k_xy_theta_t_xy_z_tau a0 a1 a2 a3 a4 a5 a6 a7 hc7)
  · exact Iff.of_eq (VS.lorentz_not_equal.k_xy_theta_t_xy_theta_t_eq a0 a1 a2 a3 a4 a5 a6 a7)
  · exact Iff.of_eq (c08_lorentz_not_equal_k_xy_theta_t_xy_theta_tau a0 a1 a2 a3 a4 a5 a6 a7 hc7)
  · exact Iff.of_eq (VS.lorentz_not_equal.k_xy_theta_t_xy_eta_t_eq a0 a1 a2 a3 a4 a5 a6 a7)
  · exact Iff.of_eq (c08_lorentz_not_equal_k_xy_theta_t_xy_eta_tau a0 a1 a2 a3 a4 a5 a6 a7 hc7)
  · exact Iff.of_eq (VS.lorentz_not_equal.k_xy_theta_t_rhophi_z_t_eq a0 a1 a2 a3 a4 a5 a6 a7)
  · exact Iff.of_eq (c08_lorentz_not_equal_k_xy_theta_t_rhophi_z_tau a0 a1 a2 a3 a4 a5 a6 a7 hc7)
  · exact Iff.of_eq (VS.lorentz_not_equal.k_xy_theta_t_rhophi_theta_t_eq a0 a1 a2 a3 a4 a5 a6 a7)
  · exact Iff.of_eq (c08_lorentz_not_equal_k_xy_theta_t_rhophi_theta_tau a0 a1 a2 a3 a4 a5 a6 a7 hc7)
  · exact Iff.of_eq (VS.lorentz_not_equal.k_xy_theta_t_rhophi_eta_t_eq a0 a1 a2 a3 a4 a5 a6 a7)
  · exact Iff.of_eq (c08_lorentz_not_equal_k_xy_theta_t_rhophi_eta_tau a0 a1 a2 a3 a4 a5 a6 a7 hc7)
  · exact Iff.of_eq (c08_lorentz_not_equal_k_xy_theta_tau_xy_z_t a0 a1 a2 a3 a4 a5 a6 a7 hc3)
  · exact Iff.of_eq (VS.lorentz_not_equal.k_xy_theta_tau_xy_z_tau_eq a0 a1 a2 a3 a4 a5 a6 a7)
  · exact Iff.of_eq (c08_lorentz_not_equal_k_xy_theta_tau_xy_theta_t a0 a1 a2 a3 a4 a5 a6 a7 hc3)
  · exact Iff.of_eq (VS.lorentz_not_equal.k_xy_theta_tau_xy_theta_tau_eq a0 a1 a2 a3 a4 a5 a6 a7)
  · exact Iff.of_eq (c08_lorentz_not_equal_k_xy_theta_tau_xy_eta_t a0 a1 a2 a3 a4 a5 a6 a7 hc3)
  · exact Iff.of_eq (VS.lorentz_not_equal.k_xy_theta_tau_xy_eta_tau_eq a0 a1 a2 a3 a4 a5 a6 a7)
  · exact Iff.of_eq (c08_lorentz_not_equal_k_xy_theta_tau_rhophi_z_t a0 a1 a2 a3 a4 a5 a6 a7 hc3)
  · exact Iff.of_eq (VS.lorentz_not_equal.k_xy_theta_tau_rhophi_z_tau_eq a0 a1 a2 a3 a4 a5 a6 a7)
  · exact Iff.of_eq (c08_lorentz_not_equal_k_xy_theta_tau_rhophi_theta_t a0 a1 a2 a3 a4 a5 a6 a7 hc3)
  · exact Iff.of_eq (VS.lorentz_not_equal.k_xy_theta_tau_rhophi_theta_tau_eq a0 a1 a2 a3 a4 a5 a6 a7)
  · exact Iff.of_eq (c08_lorentz_not_equal_k_xy_theta_tau_rhophi_eta_t a0 a1 a2 a3 a4 a5 a6 a7 hc3)
  · exact Iff.of_eq (VS.lorentz_not_equal.k_xy_theta_tau_rhophi_eta_tau_eq a0 a1 a2 a3 a4 a5 a6 a7)
  · exact Iff.of_eq (VS.lorentz_not_equal.k_xy_eta_t_xy_z_t_eq a0 a1 a2 a3 a4 a5 a6 a7)
  · exact Iff.of_eq (c08_lorentz_not_equal_k_xy_eta_t_xy_z_tau a0 a1 a2 a3 a4 a5 a6 a7 hc7)
  · exact Iff.of_eq (VS.lorentz_not_equal.k_xy_eta_t_xy_theta_t_eq a0 a1 a2 a3 a4 a5 a6 a7)
  · exact Iff.of_eq (c08_lorentz_not_equal_k_xy_eta_t_xy_theta_tau a0 a1 a2 a3 a4 a5 a6 a7 hc7)
  · exact Iff.of_eq (VS.lorentz_not_equal.k_xy_eta_t_xy_eta_t_eq a0 a1 a2 a3 a4 a5 a6 a7)
  · exact Iff.of_eq (c08_lorentz_not_equal_k_xy_eta_t_xy_eta_tau a0 a1 a2 a3 a4 a5 a6 a7 hc7)
  · exact Iff.of_eq (VS.lorentz_not_equal.k_xy_eta_t_rhophi_z_t_eq a0 a1 a2 a3 a4 a5 a6 a7)
  · exact Iff.of_eq (c08_lorentz_not_equal_k_xy_eta_t_rhophi_z_tau a0 a1 a2 a3 a4 a5 a6 a7 hc7)
  · exact Iff.of_eq (VS.lorentz_not_equal.k_xy_eta_t_rhophi_theta_t_eq a0 a1 a2 a3 a4 a5 a6 a7)
  · exact Iff.of_eq (c08_lorentz_not_equal_k_xy_eta_t_rhophi_theta_tau a0 a1 a2 a3 a4 a5 a6 a7 hc7)
  · exact Iff.of_eq (VS.lorentz_not_equal.k_xy_eta_t_rhophi_eta_t_eq a0 a1 a2 a3 a4 a5 a6 a7)
  · exact Iff.of_eq (c08_lorentz_not_equal_k_xy_eta_t_rhophi_eta_tau a0 a1 a2 a3 a4 a5 a6 a7 hc7)
  · exact Iff.of_eq (c08_lorentz_not_equal_k_xy_eta_tau_xy_z_t a0 a1 a2 a3 a4 a5 a6 a7 hc3)
  · exact Iff.of_eq (VS.lorentz_not_equal.k_xy_eta_tau_xy_z_tau_eq a0 a1 a2 a3 a4 a5 a6 a7)
  · exact Iff.of_eq (c08_lorentz_not_equal_k_xy_eta_tau_xy_theta_t a0 a1 a2 a3 a4 a5 a6 a7 hc3)
  · exact Iff.of_eq (VS.lorentz_not_equal.k_xy_eta_tau_xy_theta_tau_eq a0 a1 a2 a3 a4 a5 a6 a7)
  · exact Iff.of_eq (c08_lorentz_not_equal_k_xy_eta_tau_xy_eta_t a0 a1 a2 a3 a4 a5 a6 a7 hc3)
  · exact Iff.of_eq (VS.lorentz_not_equal.k_xy_eta_tau_xy_eta_tau_eq a0 a1 a2 a3 a4 a5 a6 a7)
  · exact Iff.of_eq (c08_lorentz_not_equal_k_xy_eta_tau_rhophi_z_t a0 a1 a2 a3 a4 a5 a6 a7 hc3)
  · exact Iff.of_eq (VS.lorentz_not_equal.k_xy_eta_tau_rhophi_z_tau_eq a0 a1 a2 a3 a4 a5 a6 a7)
  · exact Iff.of_eq (c08_lorentz_not_equal_k_xy_eta_tau_rhophi_theta_t a0 a1 a2 a3 a4 a5 a6 a7 hc3)
  · exact Iff.of_eq (VS.lorentz_not_equal.k_xy_eta_tau_rhophi_theta_tau_eq a0 a1 a2 a3 a4 a5 a6 a7)
  · exact Iff.of_eq (c08_lorentz_not_equal_k_xy_eta_tau_rhophi_eta_t a0 a1 a2 a3 a4 a5 a6 a7 hc3)
  · exact Iff.of_eq (VS.lorentz_not_equal.k_xy_eta_tau_rhophi_eta_tau_eq a0 a1 a2 a3 a4 a5 a6 a7)
  · exact Iff.of_eq (VS.lorentz_not_equal.k_rhophi_z_t_xy_z_t_eq a0 a1 a2 a3 a4 a5 a6 a7)
  · exact Iff.of_eq (c08_lorentz_not_equal_k_rhophi_z_t_xy_z_tau a0 a1 a2 a3 a4 a5 a6 a7 hc7)
  · exact Iff.of_eq (VS.lorentz_not_equal.k_rhophi_z_t_xy_theta_t_eq a0 a1 a2 a3 a4 a5 a6 a7)
  · exact Iff.of_eq (c08_lorentz_not_equal_k_rhophi_z_t_xy_theta_tau a0 a1 a2 a3 a4 a5 a6 a7 hc7)
  · exact Iff.of_eq (VS.lorentz_not_equal.k_rhophi_z_t_xy_eta_t_eq a0 a1 a2 a3 a4 a5 a6 a7)
  · exact Iff.of_eq (c08_lorentz_not_equal_k_rhophi_z_t_xy_eta_tau a0 a1 a2 a3 a4 a5 a6 a7 hc7)
  · exact Iff.of_eq (VS.lorentz_not_equal.k_rhophi_z_t_rhophi_z_t_eq a0 a1 a2 a3 a4 a5 a6 a7)
  · exact Iff.of_eq (c08_lorentz_not_equal_k_rhophi_z_t_rhophi_z_tau a0 a1 a2 a3 a4 a5 a6 a7 hc7)
  · exact Iff.of_eq (VS.lorentz_not_equal.k_rhophi_z_t_rhophi_theta_t_eq a0 a1 a2 a3 a4 a5 a6 a7)
  · exact Iff.of_eq (c08_lorentz_not_equal_k_rhophi_z_t_rhophi_theta_tau a0 a1 a2 a3 a4 a5 a6 a7 hc7)
  · exact Iff.of_eq (VS.lorentz_not_equal.k_rhophi_z_t_rhophi_eta_t_eq a0 a1 a2 a3 a4 a5 a6 a7)
  · exact Iff.of_eq (c08_lorentz_not_equal_k_rhophi_z_t_rhophi_eta_tau a0 a1 a2 a3 a4 a5 a6 a7 hc7)
  · exact Iff.of_eq (c08_lorentz_not_equal_k_rhophi_z_tau_xy_z_t a0 a1 a2 a3 a4 a5 a6 a7 hc3)
  · exact Iff.of_eq (VS.lorentz_not_equal.k_rhophi_z_tau_xy_z_tau_eq a0 a1 a2 a3 a4 a5 a6 a7)
  · exact Iff.of_eq (c08_lorentz_not_equal_k_rhophi_z_tau_xy_theta_t a0 a1 a2 a3 a4 a5 a6 a7 hc3)
  · exact Iff.of_eq (VS.lorentz_not_equal.k_rhophi_z_tau_xy_theta_tau_eq a0 a1 a2 a3 a4 a5 a6 a7)
  · exact Iff.of_eq (c08_lorentz_not_equal_k_rhophi_z_tau_xy_eta_t a0 a1 a2 a3 a4 a5 a6 a7 hc3)
  · exact Iff.of_eq (VS.lorentz_not_equal.k_rhophi_z_tau_xy_eta_tau_eq a0 a1 a2 a3 a4 a5 a6 a7)
  · exact Iff.of_eq (c08_lorentz_not_equal_k_rhophi_z_tau_rhophi_z_t a0 a1 a2 a3 a4 a5 a6 a7 hc3)
  · exact Iff.of_eq (VS.lorentz_not_equal.k_rhophi_z_tau_rhophi_z_tau_eq a0 a1 a2 a3 a4 a5 a6 a7)
  · exact Iff.of_eq (c08_lorentz_not_equal_k_rhophi_z_tau_rhophi_theta_t a0 a1 a2 a3 a4 a5 a6 a7 hc3)
  · exact Iff.of_eq (VS.lorentz_not_equal.k_rhophi_z_tau_rhophi_theta_tau_eq a0 a1 a2 a3 a4 a5 a6 a7)
  · exact Iff.of_eq (c08_lorentz_not_equal_k_rhophi_z_tau_rhophi_eta_t a0 a1 a2 a3 a4 a5 a6 a7 hc3)
  · exact Iff.of_eq (VS.lorentz_not_equal.k_rhophi_z_tau_rhophi_eta_tau_eq a0 a1 a2 a3 a4 a5 a6 a7)
  · exact Iff.of_eq (VS.lorentz_not_equal.k_rhophi_theta_t_xy_z_t_eq a0 a1 a2 a3 a4 a5 a6 a7)
  · exact Iff.of_eq (c08_lorentz_not_equal_k_rhophi_theta_t_xy_z_tau a0 a1 a2 a3 a4 a5 a6 a7 hc7)
  · exact Iff.of_eq (VS.lorentz_not_equal.k_rhophi_theta_t_xy_theta_t_eq a0 a1 a2 a3 a4 a5 a6 a7)
  · exact Iff.of_eq (c08_lorentz_not_equal_k_rhophi_theta_t_xy_theta_tau a0 a1 a2 a3 a4 a5 a6 a7 hc7)
  · exact Iff.of_eq (VS.lorentz_not_equal.k_rhophi_theta_t_xy_eta_t_eq a0 a1 a2 a3 a4 a5 a6 a7)
  · exact Iff.of_eq (c08_lorentz_not_equal_k_rhophi_theta_t_xy_eta_tau a0 a1 a2 a3 a4 a5 a6 a7 hc7)
  · exact Iff.of_eq (VS.lorentz_not_equal.k_rhophi_theta_t_rhophi_z_t_eq a0 a1 a2 a3 a4 a5 a6 a7)
  · exact Iff.of_eq (c08_lorentz_not_equal_k_rhophi_theta_t_rhophi_z_tau a0 a1 a2 a3 a4 a5 a6 a7 hc7)
  · exact Iff.of_eq (VS.lorentz_not_equal.k_rhophi_theta_t_rhophi_theta_t_eq a0 a1 a2 a3 a4 a5 a6 a7)
  · exact Iff.of_eq (c08_lorentz_not_equal_k_rhophi_theta_t_rhophi_theta_tau a0 a1 a2 a3 a4 a5 a6 a7 hc7)
  · exact Iff.of_eq (VS.lorentz_not_equal.k_rhophi_theta_t_rhophi_eta_t_eq a0 a1 a2 a3 a4 a5 a6 a7)
  · exact Iff.of_eq (c08_lorentz_not_equal_k_rhophi_theta_t_rhophi_eta_tau a0 a1 a2 a3 a4 a5 a6 a7 hc7)
  · exact Iff.of_eq (c08_lorentz_not_equal_k_rhophi_theta_tau_xy_z_t a0 a1 a2 a3 a4 a5 a6 a7 hc3)
  · exact Iff.of_eq (VS.lorentz_not_equal.k_rhophi_theta_tau_xy_z_tau_eq a0 a1 a2 a3 a4 a5 a6 a7)
  · exact Iff.of_eq (c08_lorentz_not_equal_k_rhophi_theta_tau_xy_theta_t a0 a1 a2 a3 a4 a5 a6 a7 hc3)
  · exact Iff.of_eq (VS.lorentz_not_equal.k_rhophi_theta_tau_xy_theta_tau_eq a0 a1 a2 a3 a4 a5 a6 a7)
  · exact Iff.of_eq (c08_lorentz_not_equal_k_rhophi_theta_tau_xy_eta_t a0 a1 a2 a3 a4 a5 a6 a7 hc3)
  · exact Iff.of_eq (VS.lorentz_not_equal.k_rhophi_theta_tau_xy_eta_tau_eq a0 a1 a2 a3 a4 a5 a6 a7)
  · exact Iff.of_eq (c08_lorentz_not_equal_k_rhophi_theta_tau_rhophi_z_t a0 a1 a2 a3 a4 a5 a6 a7 hc3)
  · exact Iff.of_eq (VS.lorentz_not_equal.k_rhophi_theta_tau_rhophi_z_tau_eq a0 a1 a2 a3 a4 a5 a6 a7)
  · exact Iff.of_eq (c08_lorentz_not_equal_k_rhophi_theta_tau_rhophi_theta_t a0 a1 a2 a3 a4 a5 a6 a7 hc3)
  · exact Iff.of_eq (VS.lorentz_not_equal.k_rhophi_theta_tau_rhophi_theta_tau_eq a0 a1 a2 a3 a4 a5 a6 a7)
  · exact Iff.of_eq (c08_lorentz_not_equal_k_rhophi_theta_tau_rhophi_eta_t a0 a1 a2 a3 a4 a5 a6 a7 hc3)
  · exact Iff.of_eq (VS.lorentz_not_equal.k_rhophi_theta_tau_rhophi_eta_tau_eq a0 a1 a2 a3 a4 a5 a6 a7)
  · exact Iff.of_eq (VS.lorentz_not_equal.k_rhophi_eta_t_xy_z_t_eq a0 a1 a2 a3 a4 a5 a6 a7)
  · exact Iff.of_eq (c08_lorentz_not_equal_k_rhophi_eta_t_xy_z_tau a0 a1 a2 a3 a4 a5 a6 a7 hc7)
  · exact Iff.of_eq (VS.lorentz_not_equal.k_rhophi_eta_t_xy_theta_t_eq a0 a1 a2 a3 a4 a5 a6 a7)
  · exact Iff.of_eq (c08_lorentz_not_equal_k_rhophi_eta_t_xy_theta_tau a0 a1 a2 a3 a4 a5 a6 a7 hc7)
  · exact Iff.of_eq (VS.lorentz_not_equal.k_rhophi_eta_t_xy_eta_t_eq a0 a1 a2 a3 a4 a5 a6 a7)
  · exact Iff.of_eq (c08_lorentz_not_equal_k_rhophi_eta_t_xy_eta_tau a0 a1 a2 a3 a4 a5 a6 a7 hc7)
  · exact Iff.of_eq (VS.lorentz_not_equal.k_rhophi_eta_t_rhophi_z_t_eq a0 a1 a2 a3 a4 a5 a6 a7)
  · exact Iff.of_eq (c08_lorentz_not_equal_k_rhophi_eta_t_rhophi_z_tau a0 a1 a2 a3 a4 a5 a6 a7 hc7)
  · exact Iff.of_eq (VS.lorentz_not_equal.k_rhophi_eta_t_rhophi_theta_t_eq a0 a1 a2 a3 a4 a5 a6 a7)
  · exact Iff.of_eq (c08_lorentz_not_equal_k_rhophi_eta_t_rhophi_theta_tau a0 a1 a2 a3 a4 a5 a6 a7 hc7)
  · exact Iff.of_eq (VS.lorentz_not_equal.k_rhophi_eta_t_rhophi_eta_t_eq a0 a1 a2 a3 a4 a5 a6 a7)
  · exact Iff.of_eq (c08_lorentz_not_equal_k_rhophi_eta_t_rhophi_eta_tau a0 a1 a2 a3 a4 a5 a6 a7 hc7)
  · exact Iff.of_eq (c08_lorentz_not_equal_k_rhophi_eta_tau_xy_z_t a0 a1 a2 a3 a4 a5 a6 a7 hc3)
  · exact Iff.of_eq (VS.lorentz_not_equal.k_rhophi_eta_tau_xy_z_tau_eq a0 a1 a2 a3 a4 a5 a6 a7)
  · exact Iff.of_eq (c08_lorentz_not_equal_k_rhophi_eta_tau_xy_theta_t a0 a1 a2 a3 a4 a5 a6 a7 hc3)
  · exact Iff.of_eq (VS.lorentz_not_equal.k_rhophi_eta_tau_xy_theta_tau_eq a0 a1 a2 a3 a4 a5 a6 a7)
  · exact Iff.of_eq (c08_lorentz_not_equal_k_rhophi_eta_tau_xy_eta_t a0 a1 a2 a3 a4 a5 a6 a7 hc3)
  · exact Iff.of_eq (VS.lorentz_not_equal.k_rhophi_eta_tau_xy_eta_tau_eq a0 a1 a2 a3 a4 a5 a6 a7)
  · exact Iff.of_eq (c08_lorentz_not_equal_k_rhophi_eta_tau_rhophi_z_t a0 a1 a2 a3 a4 a5 a6 a7 hc3)
  · exact Iff.of_eq (VS.lorentz_not_equal.k_rhophi_eta_tau_rhophi_z_tau_eq a0 a1 a2 a3 a4 a5 a6 a7)
  · exact Iff.of_eq (c08_lorentz_not_equal_k_rhophi_eta_tau_rhophi_theta_t a0 a1 a2 a3 a4 a5 a6 a7 hc3)
  · exact Iff.of_eq (VS.lorentz_not_equal.k_rhophi_eta_tau_rhophi_theta_tau_eq a0 a1 a2 a3 a4 a5 a6 a7)
  · exact Iff.of_eq (c08_lorentz_not_equal_k_rhophi_eta_tau_rhophi_eta_t a0 a1 a2 a3 a4 a5 a6 a7 hc3)
  · exact Iff.of_eq (VS.lorentz_not_equal.k_rhophi_eta_tau_rhophi_eta_tau_eq a0 a1 a2 a3 a4 a5 a6 a7)

/-- `lorentz_rapidity`: all 12 keys -/
theorem c08_lorentz_rapidity (k0 : Az) (k1 : Lon) (k2 : Tmp) (a0 a1 a2 a3 : ℝ)
    (hc3 : CanonTmp k2 a3) :
    VS.lorentz_rapidity.eval k0 k1 k2 a0 a1 a2 a3 =
      VR.lorentz_rapidity.eval k0 k1 k2 a0 a1 a2 a3 := by
  cases k0 <;> cases k1 <;> cases k2
  · exact VS.lorentz_rapidity.xy_z_t_eq a0 a1 a2 a3
  · exact c08_lorentz_rapidity_xy_z_tau a0 a1 a2 a3 hc3
  · exact VS.lorentz_rapidity.xy_theta_t_eq a0 a1 a2 a3
  · exact c08_lorentz_rapidity_xy_theta_tau a0 a1 a2 a3 hc3
  · exact VS.lorentz_rapidity.xy_eta_t_eq a0 a1 a2 a3
  · exact c08_lorentz_rapidity_xy_eta_tau a0 a1 a2 a3 hc3
  · exact VS.lorentz_rapidity.rhophi_z_t_eq a0 a1 a2 a3
  · exact c08_lorentz_rapidity_rhophi_z_tau a0 a1 a2 a3 hc3
  · exact VS.lorentz_rapidity.rhophi_theta_t_eq a0 a1 a2 a3
  · exact c08_lorentz_rapidity_rhophi_theta_tau a0 a1 a2 a3 hc3
  · exact VS.lorentz_rapidity.rhophi_eta_t_eq a0 a1 a2 a3
  · exact c08_lorentz_rapidity_rhophi_eta_tau a0 a1 a2 a3 hc3

/-- `lorentz_subtract`: all 144 keys -/
theorem c08_lorentz_subtract (k0 : Az) (k1 : Lon) (k2 : Tmp) (k3 : Az) (k4 : Lon) (k5 : Tmp) (a0 a1 a2 a3 a4 a5 a6 a7 : ℝ)
    (hc3 : CanonTmp k2 a3)
    (hc7 : CanonTmp k5 a7)
    (hres : k2 = .tau → k5 = .tau → 0 ≤ (VR.lorentz_subtract.eval k0 k1 k2 k3 k4 k5 a0 a1 a2 a3 a4 a5 a6 a7).2.2.2) :
    VS.lorentz_subtract.eval k0 k1 k2 k3 k4 k5 a0 a1 a2 a3 a4 a5 a6 a7 =
      VR.lorentz_subtract.eval k0 k1 k2 k3 k4 k5 a0 a1 a2 a3 a4 a5 a6 a7 := by
  cases k0 <;> cases k1 <;> cases k2 <;> cases k3 <;> cases k4 <;> cases k5
  · exact VS.lorentz_subtract.k_xy_z_t_xy_z_t_eq a0 a1 a2 a3 a4 a5 a6 a7
  · exact c08_lorentz_subtract_k_xy_z_t_xy_z_tau a0 a1 a2 a3 a4 a5 a6 a7 hc7
  · exact VS.lorentz_subtract.k_xy_z_t_xy_theta_t_eq a0 a1 a2 a3 a4 a5 a6 a7
  · exact c08_lorentz_subtract_k_xy_z_t_xy_theta_tau a0 a1 a2 a3 a4 a5 a6 a7 hc7
  · exact VS.lorentz_subtract.k_xy_z_t_xy_eta_t_eq a0 a1 a2 a3 a4 a5 a6 a7
  · exact c08_lorentz_subtract_k_xy_z_t_xy_eta_tau a0 a1 a2 a3 a4 a5 a6 a7 hc7
  · exact VS.lorentz_subtract.k_xy_z_t_rhophi_z_t_eq a0 a1 a2 a3 a4 a5 a6 a7
  · exact c08_lorentz_subtract_k_xy_z_t_rhophi_z_tau a0 a1 a2 a3 a4 a5 a6 a7 hc7
  · exact VS.lorentz_subtract.k_xy_z_t_rhophi_theta_t_eq a0 a1 a2 a3 a4 a5 a6 a7
  · exact c08_lorentz_subtract_k_xy_z_t_rhophi_theta_tau a0 a1 a2 a3 a4 a5 a6 a7 hc7
  · exact VS.lorentz_subtract.k_xy_z_t_rhophi_eta_t_eq a0 a1 a2 a3 a4 a5 a6 a7
  · exact c08_lorentz_subtract_k_xy_z_t_rhophi_eta_tau a0 a1 a2 a3 a4 a5 a6 a7 hc7
  · exact c08_lorentz_subtract_k_xy_z_tau_xy_z_t a0 a1 a2 a3 a4 a5 a6 a7 hc3
  · exact c08_lorentz_subtract_k_xy_z_tau_xy_z_tau a0 a1 a2 a3 a4 a5 a6 a7 hc3 hc7 (hres rfl rfl)
  · exact c08_lorentz_subtract_k_xy_z_tau_xy_theta_t a0 a1 a2 a3 a4 a5 a6 a7 hc3
  · exact c08_lorentz_subtract_k_xy_z_tau_xy_theta_tau a0 a1 a2 a3 a4 a5 a6 a7 hc3 hc7 (hres rfl rfl)
  · exact c08_lorentz_subtract_k_xy_z_tau_xy_eta_t a0 a1 a2 a3 a4 a5 a6 a7 hc3
  · exact c08_lorentz_subtract_k_xy_z_tau_xy_eta_tau a0 a1 a2 a3 a4 a5 a6 a7 hc3 hc7 (hres rfl rfl)
  · exact c08_lorentz_subtract_k_xy_z_tau_rhophi_z_t a0 a1 a2 a3 a4 a5 a6 a7 hc3
  · exact c08_lorentz_subtract_k_xy_z_tau_rhophi_z_tau a0 a1 a2 a3 a4 a5 a6 a7 hc3 hc7 (hres rfl rfl)
  · exact c08_lorentz_subtract_k_xy_z_tau_rhophi_theta_t a0 a1 a2 a3 a4 a5 a6 a7 hc3
  · exact c08_lorentz_subtract_k_xy_z_tau_rhophi_theta_tau a0 a1 a2 a3 a4 a5 a6 a7 hc3 hc7 (hres rfl rfl)
  · exact c08_lorentz_subtract_k_xy_z_tau_rhophi_eta_t a0 a1 a2 a3 a4 a5 a6 a7 hc3
  · exact c08_lorentz_subtract_k_xy_z_tau_rhophi_eta_tau a0 a1 a2 a3 a4 a5 a6 a7 hc3 hc7 (hres rfl rfl)
  · exact VS.lorentz_subtract.k_xy_theta_t_xy_z_t_eq a0 a1 a2 a3 a4 a5 a6 a7
  · exact c08_lorentz_subtract_k_xy_theta_t_xy_z_tau a0 a1 a2 a3 a4 a5 a6 a7 hc7
  · exact VS.lorentz_subtract.k_xy_theta_t_xy_theta_t_eq a0 a1 a2 a3 a4 a5 a6 a7
  · exact c08_lorentz_subtract_k_xy_theta_t_xy_theta_tau a0 a1 a2 a3 a4 a5 a6 a7 hc7
  · exact VS.lorentz_subtract.k_xy_theta_t_xy_eta_t_eq a0 a1 a2 a3 a4 a5 a6 a7
  · exact c08_lorentz_subtract_k_xy_theta_t_xy_eta_tau a0 a1 a2 a3 a4 a5 a6 a7 hc7
  · exact VS.lorentz_subtract.k_xy_theta_t_rhophi_z_t_eq a0 a1 a2 a3 a4 a5 a6 a7
  · exact c08_lorentz_subtract_k_xy_theta_t_rhophi_z_tau a0 a1 a2 a3 a4 a5 a6 a7 hc7
  · exact VS.lorentz_subtract.k_xy_theta_t_rhophi_theta_t_eq a0 a1 a2 a3 a4 a5 a6 a7
  · exact c08_lorentz_subtract_k_xy_theta_t_rhophi_theta_tau a0 a1 a2 a3 a4 a5 a6 a7 hc7
  · exact VS.lorentz_subtract.k_xy_theta_t_rhophi_eta_t_eq a0 a1 a2 a3 a4 a5 a6 a7
  · exact c08_lorentz_subtract_k_xy_theta_t_rhophi_eta_tau a0 a1 a2 a3 a4 a5 a6 a7 hc7
  · exact c08_lorentz_subtract_k_xy_theta_tau_xy_z_t a0 a1 a2 a3 a4 a5 a6 a7 hc3
  · exact c08_lorentz_subtract_k_xy_theta_tau_xy_z_tau a0 a1 a2 a3 a4 a5 a6 a7 hc3 hc7 (hres rfl rfl)
  · exact c08_lorentz_subtract_k_xy_theta_tau_xy_theta_t a0 a1 a2 a3 a4 a5 a6 a7 hc3
  · exact c08_lorentz_subtract_k_xy_theta_tau_xy_theta_tau a0 a1 a2 a3 a4 a5 a6 a7 hc3 hc7 (hres rfl rfl)
  · exact c08_lorentz_subtract_k_xy_theta_tau_xy_eta_t a0 a1 a2 a3 a4 a5 a6 a7 hc3
  · exact c08_lorentz_subtract_k_xy_theta_tau_xy_eta_tau a0 a1 a2 a3 a4 a5 a6 a7 hc3 hc7 (hres rfl rfl)
  · exact c08_lorentz_subtract_k_xy_theta_tau_rhophi_z_t a0 a1 a2 a3 a4 a5 a6 a7 hc3
  · exact c08_lorentz_subtract_k_xy_theta_tau_rhophi_z_tau a0 a1 a2 a3 a4 a5 a6 a7 hc3 hc7 (hres rfl rfl)
  · exact c08_lorentz_subtract_k_xy_theta_tau_rhophi_theta_t a0 a1 a2 a3 a4 a5 a6 a7 hc3
  · exact c08_lorentz_subtract_k_xy_theta_tau_rhophi_theta_tau a0 a1 a2 a3 a4 a5 a6 a7 hc3 hc7 (hres rfl rfl)
  · exact c08_lorentz_subtract_k_xy_theta_tau_rhophi_eta_t a0 a1 a2 a3 a4 a5 a6 a7 hc3
  · exact c08_lorentz_subtract_k_xy_theta_tau_rhophi_eta_tau a0 a1 a2 a3 a4 a5 a6 a7 hc3 hc7 (hres rfl rfl)
  · exact VS.lorentz_subtract.k_xy_eta_t_xy_z_t_eq a0 a1 a2 a3 a4 a5 a6 a7
  · exact c08_lorentz_subtract_k_xy_eta_t_xy_z_tau a0 a1 a2 a3 a4 a5 a6 a7 hc7
  · exact VS.lorentz_subtract.k_xy_eta_t_xy_theta_t_eq a0 a1 a2 a3 a4 a5 a6 a7
  · exact c08_lorentz_subtract_k_xy_eta_t_xy_theta_tau a0 a1 a2 a3 a4 a5 a6 a7 hc7
  · exact VS.lorentz_subtract.k_xy_eta_t_xy_eta_t_eq a0 a1 a2 a3 a4 a5 a6 a7
  · exact c08_lorentz_subtract_k_xy_eta_t_xy_eta_tau a0 a1 a2 a3 a4 a5 a6 a7 hc7
  · exact VS.lorentz_subtract.k_xy_eta_t_rhophi_z_t_eq a0 a1 a2 a3 a4 a5 a6 a7
  · exact c08_lorentz_subtract_k_xy_eta_t_rhophi_z_tau a0 a1 a2 a3 a4 a5 a6 a7 hc7
  · exact VS.lorentz_subtract.k_xy_eta_t_rhophi_theta_t_eq a0 a1 a2 a3 a4 a5 a6 a7
  · exact c08_lorentz_subtract_k_xy_eta_t_rhophi_theta_tau a0 a1 a2 a3 a4 a5 a6 a7 hc7
  · exact VS.lorentz_subtract.k_xy_eta_t_rhophi_eta_t_eq a0 a1 a2 a3 a4 a5 a6 a7
  · exact c08_lorentz_subtract_k_xy_eta_t_rhophi_eta_tau a0 a1 a2 a3 a4 a5 a6 a7 hc7
  · exact c08_lorentz_subtract_k_xy_eta_tau_xy_z_t a0 a1 a2 a3 a4 a5 a6 a7 hc3
  · exact c08_lorentz_subtract_k_xy_eta_tau_xy_z_tau a0 a1 a2 a3 a4 a5 a6 a7 hc3 hc7 (hres rfl rfl)
  · exact c08_lorentz_subtract_k_xy_eta_tau_xy_theta_t a0 a1 a2 a3 a4 a5 a6 a7 hc3
  · exact c08_lorentz_subtract_k_xy_eta_tau_xy_theta_tau a0 a1 a2 a3 a4 a5 a6 a7 hc3 hc7 (hres rfl rfl)
  · exact c08_lorentz_subtract_k_xy_eta_tau_xy_eta_t a0 a1 a2 a3 a4 a5 a6 a7 hc3
  · exact c08_lorentz_subtract_k_xy_eta_tau_xy_eta_tau a0 a1 a2 a3 a4 a5 a6 a7 hc3 hc7 (hres rfl rfl)
  · exact c08_lorentz_subtract_k_xy_eta_tau_rhophi_z_t a0 a1 a2 a3 a4 a5 a6 a7 hc3
  · exact c08_lorentz_subtract_k_xy_eta_tau_rhophi_z_tau a0 a1 a2 a3 a4 a5 a6 a7 hc3 hc7 (hres rfl rfl)
  · exact c08_lorentz_subtract_k_xy_eta_tau_rhophi_theta_t a0 a1 a2 a3 a4 a5 a6 a7 hc3
  · exact c08_lorentz_subtract_k_xy_eta_tau_rhophi_theta_tau a0 a1 a2 a3 a4 a5 a6 a7 hc3 hc7 (hres rfl rfl)
  · exact c08_lorentz_subtract_k_xy_eta_tau_rhophi_eta_t a0 a1 a2 a3 a4 a5 a6 a7 hc3
  · exact c08_lorentz_subtract_k_xy_eta_tau_rhophi_eta_tau a0 a1 a2 a3 a4 a5 a6 a7 hc3 hc7 (hres rfl rfl)
  · exact VS.lorentz_subtract.k_rhophi_z_t_xy_z_t_eq a0 a1 a2 a3 a4 a5 a6 a7
  · exact c08_lorentz_subtract_k_rhophi_z_t_xy_z_tau a0 a1 a2 a3 a4 a5 a6 a7 hc7
  · exact VS.lorentz_subtract.k_rhophi_z_t_xy_theta_t_eq a0 a1 a2 a3 a4 a5 a6 a7
  · exact c08_lorentz_subtract_k_rhophi_z_t_xy_theta_tau a0 a1 a2 a3 a4 a5 a6 a7 hc7
  · exact VS.lorentz_subtract.k_rhophi_z_t_xy_eta_t_eq a0 a1 a2 a3 a4 a5 a6 a7
  · exact c08_lorentz_subtract_k_rhophi_z_t_xy_eta_tau a0 a1 a2 a3 a4 a5 a6 a7 hc7
  · exact VS.lorentz_subtract.k_rhophi_z_t_rhophi_z_t_eq a0 a1 a2 a3 a4 a5 a6 a7
  · exact c08_lorentz_subtract_k_rhophi_z_t_rhophi_z_tau a0 a1 a2 a3 a4 a5 a6 a7 hc7
  · exact VS.lorentz_subtract.k_rhophi_z_t_rhophi_theta_t_eq a0 a1 a2 a3 a4 a5 a6 a7
  · exact c08_lorentz_subtract_k_rhophi_z_t_rhophi_theta_tau a0 a1 a2 a3 a4 a5 a6 a7 hc7
  · exact VS.lorentz_subtract.k_rhophi_z_t_rhophi_eta_t_eq a0 a1 a2 a3 a4 a5 a6 a7
  · exact c08_lorentz_subtract_k_rhophi_z_t_rhophi_eta_tau a0 a1 a2 a3 a4 a5 a6 a7 hc7
  · exact c08_lorentz_subtract_k_rhophi_z_tau_xy_z_t a0 a1 a2 a3 a4 a5 a6 a7 hc3
  · exact c08_lorentz_subtract_k_rhophi_z_tau_xy_z_tau a0 a1 a2 a3 a4 a5 a6 a7 hc3 hc7 (hres rfl rfl)
  · exact c08_lorentz_subtract_k_rhophi_z_tau_xy_theta_t a0 a1 a2 a3 a4 a5 a6 a7 hc3
  · exact c08_lorentz_subtract_k_rhophi_z_tau_xy_theta_tau a0 a1 a2 a3 a4 a5 a6 a7 hc3 hc7 (hres rfl rfl)
  · exact c08_lorentz_subtract_k_rhophi_z_tau_xy_eta_t a0 a1 a2 a3 a4 a5 a6 a7 hc3
  · exact c08_lorentz_subtract_k_rhophi_z_tau_xy_eta_tau a0 a1 a2 a3 a4 a5 a6 a7 hc3 hc7 (hres rfl rfl)
  · exact c08_lorentz_subtract_k_rhophi_z_tau_rhophi_z_t a0 a1 a2 a3 a4 a5 a6 a7 hc3
  · exact c08_lorentz_subtract_k_rhophi_z_tau_rhophi_z_tau a0 a1 a2 a3 a4 a5 a6 a7 hc3 hc7 (hres rfl rfl)
  · exact c08_lorentz_subtract_k_rhophi_z_tau_rhophi_theta_t a0 a1 a2 a3 a4 a5 a6 a7 hc3
  · exact c08_lorentz_subtract_k_rhophi_z_tau_rhophi_theta_tau a0 a1 a2 a3 a4 a5 a6 a7 hc3 hc7 (hres rfl rfl)
  · exact c08_lorentz_subtract_k_rhophi_z_tau_rhophi_eta_t a0 a1 a2 a3 a4 a5 a6 a7 hc3
  · exact c08_lorentz_subtract_k_rhophi_z_tau_rhophi_eta_tau a0 a1 a2 a3 a4 a5 a6 a7 hc3 hc7 (hres rfl rfl)
  · exact VS.lorentz_subtract.k_rhophi_theta_t_xy_z_t_eq a0 a1 a2 a3 a4 a5 a6 a7
  · exact c08_lorentz_subtract_k_rhophi_theta_t_xy_z_tau a0 a1 a2 a3 a4 a5 a6 a7 hc7
  · exact VS.lorentz_subtract.k_rhophi_theta_t_xy_theta_t_eq a0 a1 a2 a3 a4 a5 a6 a7
  · exact c08_lorentz_subtract_k_rhophi_theta_t_xy_theta_tau a0 a1 a2 a3 a4 a5 a6 a7 hc7
  · exact VS.lorentz_subtract.k_rhophi_theta_t_xy_eta_t_eq a0 a1 a2 a3 a4 a5 a6 a7
  · exact c08_lorentz_subtract_k_rhophi_theta_t_xy_eta_tau a0 a1 a2 a3 a4 a5 a6 a7 hc7
  · exact VS.lorentz_subtract.k_rhophi_theta_t_rhophi_z_t_eq a0 a1 a2 a3 a4 a5 a6 a7
  · exact c08_lorentz_subtract_k_rhophi_theta_t_rhophi_z_tau a0 a1 a2 a3 a4 a5 a6 a7 hc7
  · exact VS.lorentz_subtract.k_rhophi_theta_t_rhophi_theta_t_eq a0 a1 a2 a3 a4 a5 a6 a7
  · exact c08_lorentz_subtract_k_rhophi_theta_t_rhophi_theta_tau a0 a1 a2 a3 a4 a5 a6 a7 hc7
  · exact VS.lorentz_subtract.k_rhophi_theta_t_rhophi_eta_t_eq a0 a1 a2 a3 a4 a5 a6 a7
  · exact c08_lorentz_subtract_k_rhophi_theta_t_rhophi_eta_tau a0 a1 a2 a3 a4 a5 a6 a7 hc7
  · exact c08_lorentz_subtract_k_rhophi_theta_tau_xy_z_t a0 a1 a2 a3 a4 a5 a6 a7 hc3
  · exact c08_lorentz_subtract_k_rhophi_theta_tau_xy_z_tau a0 a1 a2 a3 a4 a5 a6 a7 hc3 hc7 (hres rfl rfl)
  · exact c08_lorentz_subtract_k_rhophi_theta_tau_xy_theta_t a0 a1 a2 a3 a4 a5 a6 a7 hc3
  · exact c08_lorentz_subtract_k_rhophi_theta_tau_xy_theta_tau a0 a1 a2 a3 a4 a5 a6 a7 hc3 hc7 (hres rfl rfl)
  · exact c08_lorentz_subtract_k_rhophi_theta_tau_xy_eta_t a0 a1 a2 a3 a4 a5 a6 a7 hc3
  · exact c08_lorentz_subtract_k_rhophi_theta_tau_xy_eta_tau a0 a1 a2 a3 a4 a5 a6 a7 hc3 hc7 (hres rfl rfl)
  · exact c08_lorentz_subtract_k_rhophi_theta_tau_rhophi_z_t a0 a1 a2 a3 a4 a5 a6 a7 hc3
  · exact c08_lorentz_subtract_k_rhophi_theta_tau_rhophi_z_tau a0 a1 a2 a3 a4 a5 a6 a7 hc3 hc7 (hres rfl rfl)
  · exact c08_lorentz_subtract_k_rhophi_theta_tau_rhophi_theta_t a0 a1 a2 a3 a4 a5 a6 a7 hc3
  · exact c08_lorentz_subtract_k_rhophi_theta_tau_rhophi_theta_tau a0 a1 a2 a3 a4 a5 a6 a7 hc3 hc7 (hres rfl rfl)
  · exact c08_lorentz_subtract_k_rhophi_theta_tau_rhophi_eta_t a0 a1 a2 a3 a4 a5 a6 a7 hc3
  · exact c08_lorentz_subtract_k_rhophi_theta_tau_rhophi_eta_tau a0 a1 a2 a3 a4 a5 a6 a7 hc3 hc7 (hres rfl rfl)
  · exact VS.lorentz_subtract.k_rhophi_eta_t_xy_z_t_eq a0 a1 a2 a3 a4 a5 a6 a7
  · exact c08_lorentz_subtract_k_rhophi_eta_t_xy_z_tau a0 a1 a2 a3 a4 a5 a6 a7 hc7
  · exact VS.lorentz_subtract.k_rhophi_eta_t_xy_theta_t_eq a0 a1 a2 a3 a4 a5 a6 a7
  · exact c08_lorentz_subtract_k_rhophi_eta_t_xy_theta_tau a0 a1 a2 a3 a4 a5 a6 a7 hc7
  · exact VS.lorentz_subtract.k_rhophi_eta_t_xy_eta_t_eq a0 a1 a2 a3 a4 a5 a6 a7
  · exact c08_lorentz_subtract_k_rhophi_eta_t_xy_eta_tau a0 a1 a2 a3 a4 a5 a6 a7 hc7
  · exact VS.lorentz_subtract.k_rhophi_eta_t_rhophi_z_t_eq a0 a1 a2 a3 a4 a5 a6 a7
  · exact c08_lorentz_subtract_k_rhophi_eta_t_rhophi_z_tau a0 a1 a2 a3 a4 a5 a6 a7 hc7
  · exact VS.lorentz_subtract.k_rhophi_eta_t_rhophi_theta_t_eq a0 a1 a2 a3 a4 a5 a6 a7
  · exact c08_lorentz_subtract_k_rhophi_eta_t_rhophi_theta_tau a0 a1 a2 a3 a4 a5 a6 a7 hc7
  · exact VS.lorentz_subtract.k_rhophi_eta_t_rhophi_eta_t_eq a0 a1 a2 a3 a4 a5 a6 a7
  · exact c08_lorentz_subtract_k_rhophi_eta_t_rhophi_eta_tau a0 a1 a2 a3 a4 a5 a6 a7 hc7
  · exact c08_lorentz_subtract_k_rhophi_eta_tau_xy_z_t a0 a1 a2 a3 a4 a5 a6 a7 hc3
  · exact c08_lorentz_subtract_k_rhophi_eta_tau_xy_z_tau a0 a1 a2 a3 a4 a5 a6 a7 hc3 hc7 (hres rfl rfl)
  · exact c08_lorentz_subtract_k_rhophi_eta_tau_xy_theta_t a0 a1 a2 a3 a4 a5 a6 a7 hc3
  · exact c08_lorentz_subtract_k_rhophi_eta_tau_xy_theta_tau a0 a1 a2 a3 a4 a5 a6 a7 hc3 hc7 (hres rfl rfl)
  · exact c08_lorentz_subtract_k_rhophi_eta_tau_xy_eta_t a0 a1 a2 a3 a4 a5 a6 a7 hc3
  · exact c08_lorentz_subtract_k_rhophi_eta_tau_xy_eta_tau a0 a1 a2 a3 a4 a5 a6 a7 hc3 hc7 (hres rfl rfl)
  · exact c08_lorentz_subtract_k_rhophi_eta_tau_rhophi_z_t a0 a1 a2 a3 a4 a5 a6 a7 hc3
  · exact c08_lorentz_subtract_k_rhophi_eta_tau_rhophi_z_tau a0 a1 a2 a3 a4 a5 a6 a7 hc3 hc7 (hres rfl rfl)
  · exact c08_lorentz_subtract_k_rhophi_eta_tau_rhophi_theta_t a0 a1 a2 a3 a4 a5 a6 a7 hc3
  · exact c08_lorentz_subtract_k_rhophi_eta_tau_rhophi_theta_tau a0 a1 a2 a3 a4 a5 a6 a7 hc3 hc7 (hres rfl rfl)
  · exact c08_lorentz_subtract_k_rhophi_eta_tau_rhophi_eta_t a0 a1 a2 a3 a4 a5 a6 a7 hc3
  · exact c08_lorentz_subtract_k_rhophi_eta_tau_rhophi_eta_tau a0 a1 a2 a3 a4 a5 a6 a7 hc3 hc7 (hres rfl rfl)

/-- `lorentz_deltaRapidityPhi2`: all 144 keys -/
theorem c08_lorentz_deltaRapidityPhi2 (k0 : Az) (k1 : Lon) (k2 : Tmp) (k3 : Az) (k4 : Lon) (k5 : Tmp) (a0 a1 a2 a3 a4 a5 a6 a7 : ℝ)
    (hc3 : CanonTmp k2 a3)
    (hc7 : CanonTmp k5 a7) :
    VS.lorentz_deltaRapidityPhi2.eval k0 k1 k2 k3 k4 k5 a0 a1 a2 a3 a4 a5 a6 a7 =
      VR.lorentz_deltaRapidityPhi2.eval k0 k1 k2 k3 k4 k5 a0 a1 a2 a3 a4 a5 a6 a7 := by
  cases k0 <;> cases k1 <;> cases k2 <;> cases k3 <;> cases k4 <;> cases k5
  · exact VS.lorentz_deltaRapidityPhi2.k_xy_z_t_xy_z_t_eq a0 a1 a2 a3 a4 a5 a6 a7
  · exact c08_lorentz_deltaRapidityPhi2_k_xy_z_t_xy_z_tau a0 a1 a2 a3 a4 a5 a6 a7 hc7
  · exact VS.lorentz_deltaRapidityPhi2.k_xy_z_t_xy_theta_t_eq a0 a1 a2 a3 a4 a5 a6 a7
  · exact c08_lorentz_deltaRapidityPhi2_k_xy_z_t_xy_theta_tau a0 a1 a2 a3 a4 a5 a6 a7 hc7
  · exact VS.lorentz_deltaRapidityPhi2.k_xy_z_t_xy_eta_t_eq a0 a1 a2 a3 a4 a5 a6 a7
  · exact c08_lorentz_deltaRapidityPhi2_k_xy_z_t_xy_eta_tau a0 a1 a2 a3 a4 a5 a6 a7 hc7
  · exact VS.lorentz_deltaRapidityPhi2.k_xy_z_t_rhophi_z_t_eq a0 a1 a2 a3 a4 a5 a6 a7
  · exact c08_lorentz_deltaRapidityPhi2_k_xy_z_t_rhophi_z_tau a0 a1 a2 a3 a4 a5 a6 a7 hc7
  · exact VS.lorentz_deltaRapidityPhi2.k_xy_z_t_rhophi_theta_t_eq a0 a1 a2 a3 a4 a5 a6 a7
  · exact c08_lorentz_deltaRapidityPhi2_k_xy_z_t_rhophi_theta_tau a0 a1 a2 a3 a4 a5 a6 a7 hc7
  · exact VS.lorentz_deltaRapidityPhi2.k_xy_z_t_rhophi_eta_t_eq a0 a1 a2 a3 a4 a5 a6 a7
  · exact c08_lorentz_deltaRapidityPhi2_k_xy_z_t_rhophi_eta_tau a0 a1 a2 a3 a4 a5 a6 a7 hc7
  · exact c08_lorentz_deltaRapidityPhi2_k_xy_z_tau_xy_z_t a0 a1 a2 a3 a4 a5 a6 a7 hc3
  · exact c08_lorentz_deltaRapidityPhi2_k_xy_z_tau_xy_z_tau a0 a1 a2 a3 a4 a5 a6 a7 hc3 hc7
  · exact c08_lorentz_deltaRapidityPhi2_k_xy_z_tau_xy_theta_t a0 a1 a2 a3 a4 a5 a6 a7 hc3
  · exact c08_lorentz_deltaRapidityPhi2_k_xy_z_tau_xy_theta_tau a0 a1 a2 a3 a4 a5 a6 a7 hc3 hc7
  · exact c08_lorentz_deltaRapidityPhi2_k_xy_z_tau_xy_eta_t a0 a1 a2 a3 a4 a5 a6 a7 hc3
  · exact c08_lorentz_deltaRapidityPhi2_k_xy_z_tau_xy_eta_tau a0 a1 a2 a3 a4 a5 a6 a7 hc3 hc7
  · exact c08_lorentz_deltaRapidityPhi2_k_xy_z_tau_rhophi_z_t a0 a1 a2 a3 a4 a5 a6 a7 hc3
  · exact c08_lorentz_deltaRapidityPhi2_k_xy_z_tau_rhophi_z_tau a0 a1 a2 a3 a4 a5 a6 a7 hc3 hc7
  · exact c08_lorentz_deltaRapidityPhi2_k_xy_z_tau_rhophi_theta_t a0 a1 a2 a3 a4 a5 a6 a7 hc3
  · exact c08_lorentz_deltaRapidityPhi2_k_xy_z_tau_rhophi_theta_tau a0 a1 a2 a3 a4 a5 a6 a7 hc3 hc7
  · exact c08_lorentz_deltaRapidityPhi2_k_xy_z_tau_rhophi_eta_t a0 a1 a2 a3 a4 a5 a6 a7 hc3
  · exact c08_lorentz_deltaRapidityPhi2_k_xy_z_tau_rhophi_eta_tau a0 a1 a2 a3 a4 a5 a6 a7 hc3 hc7
  · exact VS.lorentz_deltaRapidityPhi2.k_xy_theta_t_xy_z_t_eq a0 a1 a2 a3 a4 a5 a6 a7
  · exact c08_lorentz_deltaRapidityPhi2_k_xy_theta_t_xy_z_tau a0 a1 a2 a3 a4 a5 a6 a7 hc7
  · exact VS.lorentz_deltaRapidityPhi2.k_xy_theta_t_xy_theta_t_eq a0 a1 a2 a3 a4 a5 a6 a7
  · exact c08_lorentz_deltaRapidityPhi2_k_xy_theta_t_xy_theta_tau a0 a1 a2 a3 a4 a5 a6 a7 hc7
  · exact VS.lorentz_deltaRapidityPhi2.k_xy_theta_t_xy_eta_t_eq a0 a1 a2 a3 a4 a5 a6 a7
  · exact c08_lorentz_deltaRapidityPhi2_k_xy_theta_t_xy_eta_tau a0 a1 a2 a3 a4 a5 a6 a7 hc7
  · exact VS.lorentz_deltaRapidityPhi2.k_xy_theta_t_rhophi_z_t_eq a0 a1 a2 a3 a4 a5 a6 a7
  · exact c08_lorentz_deltaRapidityPhi2_k_xy_theta_t_rhophi_z_tau a0 a1 a2 a3 a4 a5 a6 a7 hc7
  · exact VS.lorentz_deltaRapidityPhi2.k_xy_theta_t_rhophi_theta_t_eq a0 a1 a2 a3 a4 a5 a6 a7
  · exact c08_lorentz_deltaRapidityPhi2_k_xy_theta_t_rhophi_theta_tau a0 a1 a2 a3 a4 a5 a6 a7 hc7
  · exact VS.lorentz_deltaRapidityPhi2.k_xy_theta_t_rhophi_eta_t_eq a0 a1 a2 a3 a4 a5 a6 a7
  · exact c08_lorentz_deltaRapidityPhi2_k_xy_theta_t_rhophi_eta_tau a0 a1 a2 a3 a4 a5 a6 a7 hc7
  · exact c08_lorentz_deltaRapidityPhi2_k_xy_theta_tau_xy_z_t a0 a1 a2 a3 a4 a5 a6 a7 hc3
  · exact c08_lorentz_deltaRapidityPhi2_k_xy_theta_tau_xy_z_tau a0 a1 a2 a3 a4 a5 a6 a7 hc3 hc7
  · exact c08_lorentz_deltaRapidityPhi2_k_xy_theta_tau_xy_theta_t a0 a1 a2 a3 a4 a5 a6 a7 hc3
  · exact c08_lorentz_deltaRapidityPhi2_k_xy_theta_tau_xy_theta_tau a0 a1 a2 a3 a4 a5 a6 a7 hc3 hc7
  · exact c08_lorentz_deltaRapidityPhi2_k_xy_theta_tau_xy_eta_t a0 a1 a2 a3 a4 a5 a6 a7 hc3
  · exact c08_lorentz_deltaRapidityPhi2_k_xy_theta_tau_xy_eta_tau a0 a1 a2 a3 a4 a5 a6 a7 hc3 hc7
  · exact c08_lorentz_deltaRapidityPhi2_k_xy_theta_tau_rhophi_z_t a0 a1 a2 a3 a4 a5 a6 a7 hc3
  · exact c08_lorentz_deltaRapidityPhi2_k_xy_theta_tau_rhophi_z_tau a0 a1 a2 a3 a4 a5 a6 a7 hc3 hc7
  · exact c08_lorentz_deltaRapidityPhi2_k_xy_theta_tau_rhophi_theta_t a0 a1 a2 a3 a4 a5 a6 a7 hc3
  · exact c08_lorentz_deltaRapidityPhi2_k_xy_theta_tau_rhophi_theta_tau a0 a1 a2 a3 a4 a5 a6 a7 hc3 hc7
  · exact c08_lorentz_deltaRapidityPhi2_k_xy_theta_tau_rhophi_eta_t a0 a1 a2 a3 a4 a5 a6 a7 hc3
  · exact c08_lorentz_deltaRapidityPhi2_k_xy_theta_tau_rhophi_eta_tau a0 a1 a2 a3 a4 a5 a6 a7 hc3 hc7
  · exact VS.lorentz_deltaRapidityPhi2.k_xy_eta_t_xy_z_t_eq a0 a1 a2 a3 a4 a5 a6 a7
  · exact c08_lorentz_deltaRapidityPhi2_k_xy_eta_t_xy_z_tau a0 a1 a2 a3 a4 a5 a6 a7 hc7
  · exact VS.lorentz_deltaRapidityPhi2.k_xy_eta_t_xy_theta_t_eq a0 a1 a2 a3 a4 a5 a6 a7
  · exact c08_lorentz_deltaRapidityPhi2_k_xy_eta_t_xy_theta_tau a0 a1 a2 a3 a4 a5 a6 a7 hc7
  · exact VS.lorentz_deltaRapidityPhi2.k_xy_eta_t_xy_eta_t_eq a0 a1 a2 a3 a4 a5 a6 a7
  · exact c08_lorentz_deltaRapidityPhi2_k_xy_eta_t_xy_eta_tau a0 a1 a2 a3 a4 a5 a6 a7 hc7
  · exact VS.lorentz_deltaRapidityPhi2.k_xy_eta_t_rhophi_z_t_eq a0 a1 a2 a3 a4 a5 a6 a7
  · exact c08_lorentz_deltaRapidityPhi2_k_xy_eta_t_rhophi_z_tau a0 a1 a2 a3 a4 a5 a6 a7 hc7
  · exact VS.lorentz_deltaRapidityPhi2.k_xy_eta_t_rhophi_theta_t_eq a0 a1 a2 a3 a4 a5 a6 a7
  · exact c08_lorentz_deltaRapidityPhi2_k_xy_eta_t_rhophi_theta_tau a0 a1 a2 a3 a4 a5 a6 a7 hc7
  · exact VS.lorentz_deltaRapidityPhi2.k_xy_eta_t_rhophi_eta_t_eq a0 a1 a2 a3 a4 a5 a6 a7
  · exact c08_lorentz_deltaRapidityPhi2_k_xy_eta_t_rhophi_eta_tau a0 a1 a2 a3 a4 a5 a6 a7 hc7
  · exact c08_lorentz_deltaRapidityPhi2_k_xy_eta_tau_xy_z_t a0 a1 a2 a3 a4 a5 a6 a7 hc3
  · exact c08_lorentz_deltaRapidityPhi2_k_xy_eta_tau_xy_z_tau a0 a1 a2 a3 a4 a5 a6 a7 hc3 hc7
  · exact c08_lorentz_deltaRapidityPhi2_k_xy_eta_tau_xy_theta_t a0 a1 a2 a3 a4 a5 a6 a7 hc3
  · exact c08_lorentz_deltaRapidityPhi2_k_xy_eta_tau_xy_theta_tau a0 a1 a2 a3 a4 a5 a6 a7 hc3 hc7
  · exact c08_lorentz_deltaRapidityPhi2_k_xy_eta_tau_xy_eta_t a0 a1 a2 a3 a4 a5 a6 a7 hc3
  · exact c08_lorentz_deltaRapidityPhi2_k_xy_eta_tau_xy_eta_tau a0 a1 a2 a3 a4 a5 a6 a7 hc3 hc7
  · exact c08_lorentz_deltaRapidityPhi2_k_xy_eta_tau_rhophi_z_t a0 a1 a2 a3 a4 a5 a6 a7 hc3
  · exact c08_lorentz_deltaRapidityPhi2_k_xy_eta_tau_rhophi_z_tau a0 a1 a2 a3 a4 a5 a6 a7 hc3 hc7
  · exact c08_lorentz_deltaRapidityPhi2_k_xy_eta_tau_rhophi_theta_t a0 a1 a2 a3 a4 a5 a6 a7 hc3
  · exact c08_lorentz_deltaRapidityPhi2_k_xy_eta_tau_rhophi_theta_tau a0 a1 a2 a3 a4 a5 a6 a7 hc3 hc7
  · exact c08_lorentz_deltaRapidityPhi2_k_xy_eta_tau_rhophi_eta_t a0 a1 a2 a3 a4 a5 a6 a7 hc3
  · exact c08_lorentz_deltaRapidityPhi2_k_xy_eta_tau_rhophi_eta_tau a0 a1 a2 a3 a4 a5 a6 a7 hc3 hc7
  · exact VS.lorentz_deltaRapidityPhi2.k_rhophi_z_t_xy_z_t_eq a0 a1 a2 a3 a4 a5 a6 a7
  · exact c08_lorentz_deltaRapidityPhi2_k_rhophi_z_t_xy_z_tau a0 a1 a2 a3 a4 a5 a6 a7 hc7
  · exact VS.lorentz_deltaRapidityPhi2.k_rhophi_z_t_xy_theta_t_eq a0 a1 a2 a3 a4 a5 a6 a7
  · exact c08_lorentz_deltaRapidityPhi2_k_rhophi_z_t_xy_theta_tau a0 a1 a2 a3 a4 a5 a6 a7 hc7
  · exact VS.lorentz_deltaRapidityPhi2.k_rhophi_z_t_xy_eta_t_eq a0 a1 a2 a3 a4 a5 a6 a7
  · exact c08_lorentz_deltaRapidityPhi2_k_rhophi_z_t_xy_eta_tau a0 a1 a2 a3 a4 a5 a6 a7 hc7
  · exact VS.lorentz_deltaRapidityPhi2.k_rhophi_z_t_rhophi_z_t_eq a0 a1 a2 a3 a4 a5 a6 a7
  · exact c08_lorentz_deltaRapidityPhi2_k_rhophi_z_t_rhophi_z_tau a0 a1 a2 a3 a4 a5 a6 a7 hc7
  · exact VS.lorentz_deltaRapidityPhi2.k_rhophi_z_t_rhophi_theta_t_eq a0 a1 a2 a3 a4 a5 a6 a7
  · exact c08_lorentz_deltaRapidityPhi2_k_rhophi_z_t_rhophi_theta_tau a0 a1 a2 a3 a4 a5 a6 a7 hc7
  · exact VS.lorentz_deltaRapidityPhi2.k_rhophi_z_t_rhophi_eta_t_eq a0 a1 a2 a3 a4 a5 a6 a7
  · exact c08_lorentz_deltaRapidityPhi2_k_rhophi_z_t_rhophi_eta_tau a0 a1 a2 a3 a4 a5 a6 a7 hc7
  · exact c08_lorentz_deltaRapidityPhi2_k_rhophi_z_tau_xy_z_t a0 a1 a2 a3 a4 a5 a6 a7 hc3
  · exact c08_lorentz_deltaRapidityPhi2_k_rhophi_z_tau_xy_z_tau a0 a1 a2 a3 a4 a5 a6 a7 hc3 hc7
  · exact c08_lorentz_deltaRapidityPhi2_k_rhophi_z_tau_xy_theta_t a0 a1 a2 a3 a4 a5 a6 a7 hc3
  · exact c08_lorentz_deltaRapidityPhi2_k_rhophi_z_tau_xy_theta_tau a0 a1 a2 a3 a4 a5 a6 a7 hc3 hc7
  · exact c08_lorentz_deltaRapidityPhi2_k_rhophi_z_tau_xy_eta_t a0 a1 a2 a3 a4 a5 a6 a7 hc3
  · exact c08_lorentz_deltaRapidityPhi2_k_rhophi_z_tau_xy_eta_tau a0 a1 a2 a3 a4 a5 a6 a7 hc3 hc7
  · exact c08_lorentz_deltaRapidityPhi2_k_rhophi_z_tau_rhophi_z_t a0 a1 a2 a3 a4 a5 a6 a7 hc3
  · exact c08_lorentz_deltaRapidityPhi2_k_rhophi_z_tau_rhophi_z_tau a0 a1 a2 a3 a4 a5 a6 a7 hc3 hc7
  · exact c08_lorentz_deltaRapidityPhi2_k_rhophi_z_tau_rhophi_theta_t a0 a1 a2 a3 a4 a5 a6 a7 hc3
  · exact c08_lorentz_deltaRapidityPhi2_k_rhophi_z_tau_rhophi_theta_tau a0 a1 a2 a3 a4 a5 a6 a7 hc3 hc7
  · exact c08_lorentz_deltaRapidityPhi2_k_rhophi_z_tau_rhophi_eta_t a0 a1 a2 a3 a4 a5 a6 a7 hc3
  · exact c08_lorentz_deltaRapidityPhi2_k_rhophi_z_tau_rhophi_eta_tau a0 a1 a2 a3 a4 a5 a6 a7 hc3 hc7
  · exact VS.lorentz_deltaRapidityPhi2.k_rhophi_theta_t_xy_z_t_eq a0 a1 a2 a3 a4 a5 a6 a7
  · exact c08_lorentz_deltaRapidityPhi2_k_rhophi_theta_t_xy_z_tau a0 a1 a2 a3 a4 a5 a6 a7 hc7
  · exact VS.lorentz_deltaRapidityPhi2.k_rhophi_theta_t_xy_theta_t_eq a0 a1 a2 a3 a4 a5 a6 a7
  · exact c08_lorentz_deltaRapidityPhi2_k_rhophi_theta_t_xy_theta_tau a0 a1 a2 a3 a4 a5 a6 a7 hc7
  · exact VS.lorentz_deltaRapidityPhi2.k_rhophi_theta_t_xy_eta_t_eq a0 a1 a2 a3 a4 a5 a6 a7
  · exact c08_lorentz_deltaRapidityPhi2_k_rhophi_theta_t_xy_eta_tau a0 a1 a2 a3 a4 a5 a6 a7 hc7
  · exact VS.lorentz_deltaRapidityPhi2.k_rhophi_theta_t_rhophi_z_t_eq a0 a1 a2 a3 a4 a5 a6 a7
  · exact c08_lorentz_deltaRapidityPhi2_k_rhophi_theta_t_rhophi_z_tau a0 a1 a2 a3 a4 a5 a6 a7 hc7
  · exact VS.lorentz_deltaRapidityPhi2.k_rhophi_theta_t_rhophi_theta_t_eq a0 a1 a2 a3 a4 a5 a6 a7
  · exact c08_lorentz_deltaRapidityPhi2_k_rhophi_theta_t_rhophi_theta_tau a0 a1 a2 a3 a4 a5 a6 a7 hc7
  · exact VS.lorentz_deltaRapidityPhi2.k_rhophi_theta_t_rhophi_eta_t_eq a0 a1 a2 a3 a4 a5 a6 a7
  · exact c08_lorentz_deltaRapidityPhi2_k_rhophi_theta_t_rhophi_eta_tau a0 a1 a2 a3 a4 a5 a6 a7 hc7
  · exact c08_lorentz_deltaRapidityPhi2_k_rhophi_theta_tau_xy_z_t a0 a1 a2 a3 a4 a5 a6 a7 hc3
  · exact c08_lorentz_deltaRapidityPhi2_k_rhophi_theta_tau_xy_z_tau a0 a1 a2 a3 a4 a5 a6 a7 hc3 hc7
  · exact c08_lorentz_deltaRapidityPhi2_k_rhophi_theta_tau_xy_theta_t a0 a1 a2 a3 a4 a5 a6 a7 hc3
  · exact c08_lorentz_deltaRapidityPhi2_k_rhophi_theta_tau_xy_theta_tau a0 a1 a2 a3 a4 a5 a6 a7 hc3 hc7
  · exact c08_lorentz_deltaRapidityPhi2_k_rhophi_theta_tau_xy_eta_t a0 a1 a2 a3 a4 a5 a6 a7 hc3
  · exact c08_lorentz_deltaRapidityPhi2_k_rhophi_theta_tau_xy_eta_tau a0 a1 a2 a3 a4 a5 a6 a7 hc3 hc7
  · exact c08_lorentz_deltaRapidityPhi2_k_rhophi_theta_tau_rhophi_z_t a0 a1 a2 a3 a4 a5 a6 a7 hc3
  · exact c08_lorentz_deltaRapidityPhi2_k_rhophi_theta_tau_rhophi_z_tau a0 a1 a2 a3 a4 a5 a6 a7 hc3 hc7
  · exact c08_lorentz_deltaRapidityPhi2_k_rhophi_theta_tau_rhophi_theta_t a0 a1 a2 a3 a4 a5 a6 a7 hc3
  · exact c08_lorentz_deltaRapidityPhi2_k_rhophi_theta_tau_rhophi_theta_tau a0 a1 a2 a3 a4 a5 a6 a7 hc3 hc7
  · exact c08_lorentz_deltaRapidityPhi2_k_rhophi_theta_tau_rhophi_eta_t a0 a1 a2 a3 a4 a5 a6 a7 hc3
  · exact c08_lorentz_deltaRapidityPhi2_k_rhophi_theta_tau_rhophi_eta_tau a0 a1 a2 a3 a4 a5 a6 a7 hc3 hc7
  · exact VS.lorentz_deltaRapidityPhi2.k_rhophi_eta_t_xy_z_t_eq a0 a1 a2 a3 a4 a5 a6 a7
  · exact c08_lorentz_deltaRapidityPhi2_k_rhophi_eta_t_xy_z_tau a0 a1 a2 a3 a4 a5 a6 a7 hc7
  · exact VS.lorentz_deltaRapidityPhi2.k_rhophi_eta_t_xy_theta_t_eq a0 a1 a2 a3 a4 a5 a6 a7
  · exact c08_lorentz_deltaRapidityPhi2_k_rhophi_eta_t_xy_theta_tau a0 a1 a2 a3 a4 a5 a6 a7 hc7
  · exact VS.lorentz_deltaRapidityPhi2.k_rhophi_eta_t_xy_eta_t_eq a0 a1 a2 a3 a4 a5 a6 a7
  · exact c08_lorentz_deltaRapidityPhi2_k_rhophi_eta_t_xy_eta_tau a0 a1 a2 a3 a4 a5 a6 a7 hc7
  · exact VS.lorentz_deltaRapidityPhi2.k_rhophi_eta_t_rhophi_z_t_eq a0 a1 a2 a3 a4 a5 a6 a7
  · exact c08_lorentz_deltaRapidityPhi2_k_rhophi_eta_t_rhophi_z_tau a0 a1 a2 a3 a4 a5 a6 a7 hc7
  · exact VS.lorentz_deltaRapidityPhi2.k_rhophi_eta_t_rhophi_theta_t_eq a0 a1 a2 a3 a4 a5 a6 a7
  · exact c08_lorentz_deltaRapidityPhi2_k_rhophi_eta_t_rhophi_theta_tau a0 a1 a2 a3 a4 a5 a6 a7 hc7
  · exact VS.lorentz_deltaRapidityPhi2.k_rhophi_eta_t_rhophi_eta_t_eq a0 a1 a2 a3 a4 a5 a6 a7
  · exact c08_lorentz_deltaRapidityPhi2_k_rhophi_eta_t_rhophi_eta_tau a0 a1 a2 a3 a4 a5 a6 a7 hc7
  · exact c08_lorentz_deltaRapidityPhi2_k_rhophi_eta_tau_xy_z_t a0 a1 a2 a3 a4 a5 a6 a7 hc3
  · exact c08_lorentz_deltaRapidityPhi2_k_rhophi_eta_tau_xy_z_tau a0 a1 a2 a3 a4 a5 a6 a7 hc3 hc7
  · exact c08_lorentz_deltaRapidityPhi2_k_rhophi_eta_tau_xy_theta_t a0 a1 a2 a3 a4 a5 a6 a7 hc3
  · exact c08_lorentz_deltaRapidityPhi2_k_rhophi_eta_tau_xy_theta_tau a0 a1 a2 a3 a4 a5 a6 a7 hc3 hc7
  · exact c08_lorentz_deltaRapidityPhi2_k_rhophi_eta_tau_xy_eta_t a0 a1 a2 a3 a4 a5 a6 a7 hc3
  · exact c08_lorentz_deltaRapidityPhi2_k_rhophi_eta_tau_xy_eta_tau a0 a1 a2 a3 a4 a5 a6 a7 hc3 hc7
  · exact c08_lorentz_deltaRapidityPhi2_k_rhophi_eta_tau_rhophi_z_t a0 a1 a2 a3 a4 a5 a6 a7 hc3
  · exact c08_lorentz_deltaRapidityPhi2_k_rhophi_eta_tau_rhophi_z_tau a0 a1 a2 a3 a4 a5 a6 a7 hc3 hc7
  · exact c08_lorentz_deltaRapidityPhi2_k_rhophi_eta_tau_rhophi_theta_t a0 a1 a2 a3 a4 a5 a6 a7 hc3
  · exact c08_lorentz_deltaRapidityPhi2_k_rhophi_eta_tau_rhophi_theta_tau a0 a1 a2 a3 a4 a5 a6 a7 hc3 hc7
  · exact c08_lorentz_deltaRapidityPhi2_k_rhophi_eta_tau_rhophi_eta_t a0 a1 a2 a3 a4 a5 a6 a7 hc3
  · exact c08_lorentz_deltaRapidityPhi2_k_rhophi_eta_tau_rhophi_eta_tau a0 a1 a2 a3 a4 a5 a6 a7 hc3 hc7

/-- `lorentz_deltaRapidityPhi`: all 144 keys -/
theorem c08_lorentz_deltaRapidityPhi (k0 : Az) (k1 : Lon) (k2 : Tmp) (k3 : Az) (k4 : Lon) (k5 : Tmp) (a0 a1 a2 a3 a4 a5 a6 a7 : ℝ)
    (hc3 : CanonTmp k2 a3)
    (hc7 : CanonTmp k5 a7) :
    VS.lorentz_deltaRapidityPhi.eval k0 k1 k2 k3 k4 k5 a0 a1 a2 a3 a4 a5 a6 a7 =
      VR.lorentz_deltaRapidityPhi.eval k0 k1 k2 k3 k4 k5 a0 a1 a2 a3 a4 a5 a6 a7 := by
  cases k0 <;> cases k1 <;> cases k2 <;> cases k3 <;> cases k4 <;> cases k5
  · exact VS.lorentz_deltaRapidityPhi.k_xy_z_t_xy_z_t_eq a0 a1 a2 a3 a4 a5 a6 a7
  · exact c08_lorentz_deltaRapidityPhi_k_xy_z_t_xy_z_tau a0 a1 a2 a3 a4 a5 a6 a7 hc7
  · exact VS.lorentz_deltaRapidityPhi.k_xy_z_t_xy_theta_t_eq a0 a1 a2 a3 a4 a5 a6 a7
  · exact c08_lorentz_deltaRapidityPhi_k_xy_z_t_xy_theta_tau a0 a1 a2 a3 a4 a5 a6 a7 hc7
  · exact VS.lorentz_deltaRapidityPhi.k_xy_z_t_xy_eta_t_eq a0 a1 a2 a3 a4 a5 a6 a7
  · exact c08_lorentz_deltaRapidityPhi_k_xy_z_t_xy_eta_tau a0 a1 a2 a3 a4 a5 a6 a7 hc7
  · exact VS.lorentz_deltaRapidityPhi.k_xy_z_t_rhophi_z_t_eq a0 a1 a2 a3 a4 a5 a6 a7
  · exact c08_lorentz_deltaRapidityPhi_k_xy_z_t_rhophi_z_tau a0 a1 a2 a3 a4 a5 a6 a7 hc7
  · exact VS.lorentz_deltaRapidityPhi.k_xy_z_t_rhophi_theta_t_eq a0 a1 a2 a3 a4 a5 a6 a7
  · exact c08_lorentz_deltaRapidityPhi_k_xy_z_t_rhophi_theta_tau a0 a1 a2 a3 a4 a5 a6 a7 hc7
  · exact VS.lorentz_deltaRapidityPhi.k_xy_z_t_rhophi_eta_t_eq a0 a1 a2 a3 a4 a5 a6 a7
  · exact c08_lorentz_deltaRapidityPhi_k_xy_z_t_rhophi_eta_tau a0 a1 a2 a3 a4 a5 a6 a7 hc7
  · exact c08_lorentz_deltaRapidityPhi_k_xy_z_tau_xy_z_t a0 a1 a2 a3 a4 a5 a6 a7 hc3
  · exact c08_lorentz_deltaRapidityPhi_k_xy_z_tau_xy_z_tau a0 a1 a2 a3 a4 a5 a6 a7 hc3 hc7
  · exact c08_lorentz_deltaRapidityPhi_k_xy_z_tau_xy_theta_t a0 a1 a2 a3 a4 a5 a6 a7 hc3
  · exact c08_lorentz_deltaRapidityPhi_k_xy_z_tau_xy_theta_tau a0 a1 a2 a3 a4 a5 a6 a7 hc3 hc7
  · exact c08_lorentz_deltaRapidityPhi_k_xy_z_tau_xy_eta_t a0 a1 a2 a3 a4 a5 a6 a7 hc3
  · exact c08_lorentz_deltaRapidityPhi_k_xy_z_tau_xy_eta_tau a0 a1 a2 a3 a4 a5 a6 a7 hc3 hc7
  · exact c08_lorentz_deltaRapidityPhi_k_xy_z_tau_rhophi_z_t a0 a1 a2 a3 a4 a5 a6 a7 hc3
  · exact c08_lorentz_deltaRapidityPhi_k_xy_z_tau_rhophi_z_tau a0 a1 a2 a3 a4 a5 a6 a7 hc3 hc7
  · exact c08_lorentz_deltaRapidityPhi_k_xy_z_tau_rhophi_theta_t a0 a1 a2 a3 a4 a5 a6 a7 hc3
  · exact c08_lorentz_deltaRapidityPhi_k_xy_z_tau_rhophi_theta_tau a0 a1 a2 a3 a4 a5 a6 a7 hc3 hc7
  · exact c08_lorentz_deltaRapidityPhi_k_xy_z_tau_rhophi_eta_t a0 a1 a2 a3 a4 a5 a6 a7 hc3
  · exact c08_lorentz_deltaRapidityPhi_k_xy_z_tau_rhophi_eta_tau a0 a1 a2 a3 a4 a5 a6 a7 hc3 hc7
  · exact VS.lorentz_deltaRapidityPhi.k_xy_theta_t_xy_z_t_eq a0 a1 a2 a3 a4 a5 a6 a7
  · exact c08_lorentz_deltaRapidityPhi_k_xy_theta_t_xy_z_tau a0 a1 a2 a3 a4 a5 a6 a7 hc7
  · exact VS.lorentz_deltaRapidityPhi.k_xy_theta_t_xy_theta_t_eq a0 a1 a2 a3 a4 a5 a6 a7
  · exact c08_lorentz_deltaRapidityPhi_k_xy_theta_t_xy_theta_tau a0 a1 a2 a3 a4 a5 a6 a7 hc7
  · exact VS.lorentz_deltaRapidityPhi.k_xy_theta_t_xy_eta_t_eq a0 a1 a2 a3 a4 a5 a6 a7
  · exact c08_lorentz_deltaRapidityPhi_k_xy_theta_t_xy_eta_tau a0 a1 a2 a3 a4 a5 a6 a7 hc7
  · exact VS.lorentz_deltaRapidityPhi.k_xy_theta_t_rhophi_z_t_eq a0 a1 a2 a3 a4 a5 a6 a7
  · exact c08_lorentz_deltaRapidityPhi_k_xy_theta_t_rhophi_z_tau a0 a1 a2 a3 a4 a5 a6 a7 hc7
  · exact VS.lorentz_deltaRapidityPhi.k_xy_theta_t_rhophi_theta_t_eq a0 a1 a2 a3 a4 a5 a6 a7
  · exact c08_lorentz_deltaRapidityPhi_k_xy_theta_t_rhophi_theta_tau a0 a1 a2 a3 a4 a5 a6 a7 hc7
  · exact VS.lorentz_deltaRapidityPhi.k_xy_theta_t_rhophi_eta_t_eq a0 a1 a2 a3 a4 a5 a6 a7
  · exact c08_lorentz_deltaRapidityPhi_k_xy_theta_t_rhophi_eta_tau a0 a1 a2 a3 a4 a5 a6 a7 hc7
  · exact c08_lorentz_deltaRapidityPhi_k_xy_theta_tau_xy_z_t a0 a1 a2 a3 a4 a5 a6 a7 hc3
  · exact c08_lorentz_deltaRapidityPhi_k_xy_theta_tau_xy_z_tau a0 a1 a2 a3 a4 a5 a6 a7 hc3 hc7
  · exact c08_lorentz_deltaRapidityPhi_k_xy_theta_tau_xy_theta_t a0 a1 a2 a3 a4 a5 a6 a7 hc3
  · exact c08_lorentz_deltaRapidityPhi_k_xy_theta_tau_xy_theta_tau a0 a1 a2 a3 a4 a5 a6 a7 hc3 hc7
  · exact c08_lorentz_deltaRapidityPhi_k_xy_theta_tau_xy_eta_t a0 a1 a2 a3 a4 a5 a6 a7 hc3
  · exact c08_lorentz_deltaRapidityPhi_k_xy_theta_tau_xy_eta_tau a0 a1 a2 a3 a4 a5 a6 a7 hc3 hc7
  · exact c08_lorentz_deltaRapidityPhi_k_xy_theta_tau_rhophi_z_t a0 a1 a2 a3 a4 a5 a6 a7 hc3
  · exact c08_lorentz_deltaRapidityPhi_k_xy_theta_tau_rhophi_z_tau a0 a1 a2 a3 a4 a5 a6 a7 hc3 hc7
  · exact c08_lorentz_deltaRapidityPhi_k_xy_theta_tau_rhophi_theta_t a0 a1 a2 a3 a4 a5 a6 a7 hc3
  · exact c08_lorentz_deltaRapidityPhi_k_xy_theta_tau_rhophi_theta_tau a0 a1 a2 a3 a4 a5 a6 a7 hc3 hc7
  · exact c08_lorentz_deltaRapidityPhi_k_xy_theta_tau_rhophi_eta_t a0 a1 a2 a3 a4 a5 a6 a7 hc3
  · exact c08_lorentz_deltaRapidityPhi_k_xy_theta_tau_rhophi_eta_tau a0 a1 a2 a3 a4 a5 a6 a7 hc3 hc7
  · exact VS.lorentz_deltaRapidityPhi.k_xy_eta_t_xy_z_t_eq a0 a1 a2 a3 a4 a5 a6 a7
  · exact c08_lorentz_deltaRapidityPhi_k_xy_eta_t_xy_z_tau a0 a1 a2 a3 a4 a5 a6 a7 hc7
  · exact VS.lorentz_deltaRapidityPhi.k_xy_eta_t_xy_theta_t_eq a0 a1 a2 a3 a4 a5 a6 a7
  · exact c08_lorentz_deltaRapidityPhi_k_xy_eta_t_xy_theta_tau a0 a1 a2 a3 a4 a5 a6 a7 hc7
  · exact VS.lorentz_deltaRapidityPhi.k_xy_eta_t_xy_eta_t_eq a0 a1 a2 a3 a4 a5 a6 a7
  · exact c08_lorentz_deltaRapidityPhi_k_xy_eta_t_xy_eta_tau a0 a1 a2 a3 a4 a5 a6 a7 hc7
  · exact VS.lorentz_deltaRapidityPhi.k_xy_eta_t_rhophi_z_t_eq a0 a1 a2 a3 a4 a5 a6 a7
  · exact c08_lorentz_deltaRapidityPhi_k_xy_eta_t_rhophi_z_tau a0 a1 a2 a3 a4 a5 a6 a7 hc7
  · exact VS.lorentz_deltaRapidityPhi.k_xy_eta_t_rhophi_theta_t_eq a0 a1 a2 a3 a4 a5 a6 a7
  · exact c08_lorentz_deltaRapidityPhi_k_xy_eta_t_rhophi_theta_tau a0 a1 a2 a3 a4 a5 a6 a7 hc7
  · exact VS.lorentz_deltaRapidityPhi.k_xy_eta_t_rhophi_eta_t_eq a0 a1 a2 a3 a4 a5 a6 a7
  · exact c08_lorentz_deltaRapidityPhi_k_xy_eta_t_rhophi_eta_tau a0 a1 a2 a3 a4 a5 a6 a7 hc7
  · exact c08_lorentz_deltaRapidityPhi_k_xy_eta_tau_xy_z_t a0 a1 a2 a3 a4 a5 a6 a7 hc3
  · exact c08_lorentz_deltaRapidityPhi_k_xy_eta_tau_xy_z_tau a0 a1 a2 a3 a4 a5 a6 a7 hc3 hc7
  · exact c08_lorentz_deltaRapidityPhi_k_xy_eta_tau_xy_theta_t a0 a1 a2 a3 a4 a5 a6 a7 hc3
  · exact c08_lorentz_deltaRapidityPhi_k_xy_eta_tau_xy_theta_tau a0 a1 a2 a3 a4 a5 a6 a7 hc3 hc7
  · exact c08_lorentz_deltaRapidityPhi_k_xy_eta_tau_xy_eta_t a0 a1 a2 a3 a4 a5 a6 a7 hc3
  · exact c08_lorentz_deltaRapidityPhi_k_xy_eta_tau_xy_eta_tau a0 a1 a2 a3 a4 a5 a6 a7 hc3 hc7
  · exact c08_lorentz_deltaRapidityPhi_k_xy_eta_tau_rhophi_z_t a0 a1 a2 a3 a4 a5 a6 a7 hc3
  · exact c08_lorentz_deltaRapidityPhi_k_xy_eta_tau_rhophi_z_tau a0 a1 a2 a3 a4 a5 a6 a7 hc3 hc7
  · exact c08_lorentz_deltaRapidityPhi_k_xy_eta_tau_rhophi_theta_t a0 a1 a2 a3 a4 a5 a6 a7 hc3
  · exact c08_lorentz_deltaRapidityPhi_k_xy_eta_tau_rhophi_theta_tau a0 a1 a2 a3 a4 a5 a6 a7 hc3 hc7
  · exact c08_lorentz_deltaRapidityPhi_k_xy_eta_tau_rhophi_eta_t a0 a1 a2 a3 a4 a5 a6 a7 hc3
  · exact c08_lorentz_deltaRapidityPhi_k_xy_eta_tau_rhophi_eta_tau a0 a1 a2 a3 a4 a5 a6 a7 hc3 hc7
  · exact VS.lorentz_deltaRapidityPhi.k_rhophi_z_t_xy_z_t_eq a0 a1 a2 a3 a4 a5 a6 a7
  · exact c08_lorentz_deltaRapidityPhi_k_rhophi_z_t_xy_z_tau a0 a1 a2 a3 a4 a5 a6 a7 hc7
  · exact VS.lorentz_deltaRapidityPhi.k_rhophi_z_t_xy_theta_t_eq a0 a1 a2 a3 a4 a5 a6 a7
  · exact c08_lorentz_deltaRapidityPhi_k_rhophi_z_t_xy_theta_tau a0 a1 a2 a3 a4 a5 a6 a7 hc7
  · exact VS.lorentz_deltaRapidityPhi.k_rhophi_z_t_xy_eta_t_eq a0 a1 a2 a3 a4 a5 a6 a7
  · exact c08_lorentz_deltaRapidityPhi_k_rhophi_z_t_xy_eta_tau a0 a1 a2 a3 a4 a5 a6 a7 hc7
  · exact VS.lorentz_deltaRapidityPhi.k_rhophi_z_t_rhophi_z_t_eq a0 a1 a2 a3 a4 a5 a6 a7
  · exact c08_lorentz_deltaRapidityPhi_k_rhophi_z_t_rhophi_z_tau a0 a1 a2 a3 a4 a5 a6 a7 hc7
  · exact VS.lorentz_deltaRapidityPhi.k_rhophi_z_t_rhophi_theta_t_eq a0 a1 a2 a3 a4 a5 a6 a7
  · exact c08_lorentz_deltaRapidityPhi_k_rhophi_z_t_rhophi_theta_tau a0 a1 a2 a3 a4 a5 a6 a7 hc7
  · exact VS.lorentz_deltaRapidityPhi.k_rhophi_z_t_rhophi_eta_t_eq a0 a1 a2 a3 a4 a5 a6 a7
  · exact c08_lorentz_deltaRapidityPhi_k_rhophi_z_t_rhophi_eta_tau a0 a1 a2 a3 a4 a5 a6 a7 hc7
  · exact c08_lorentz_deltaRapidityPhi_k_rhophi_z_tau_xy_z_t a0 a1 a2 a3 a4 a5 a6 a7 hc3
  · exact c08_lorentz_deltaRapidityPhi_k_rhophi_z_tau_xy_z_tau a0 a1 a2 a3 a4 a5 a6 a7 hc3 hc7
  · exact c08_lorentz_deltaRapidityPhi_k_rhophi_z_tau_xy_theta_t a0 a1 a2 a3 a4 a5 a6 a7 hc3
  · exact c08_lorentz_deltaRapidityPhi_k_rhophi_z_tau_xy_theta_tau a0 a1 a2 a3 a4 a5 a6 a7 hc3 hc7
  · exact c08_lorentz_deltaRapidityPhi_k_rhophi_z_tau_xy_eta_t a0 a1 a2 a3 a4 a5 a6 a7 hc3
  · exact c08_lorentz_deltaRapidityPhi_k_rhophi_z_tau_xy_eta_tau a0 a1 a2 a3 a4 a5 a6 a7 hc3 hc7
  · exact c08_lorentz_deltaRapidityPhi_k_rhophi_z_tau_rhophi_z_t a0 a1 a2 a3 a4 a5 a6 a7 hc3
  · exact c08_lorentz_deltaRapidityPhi_k_rhophi_z_tau_rhophi_z_tau a0 a1 a2 a3 a4 a5 a6 a7 hc3 hc7
  · exact c08_lorentz_deltaRapidityPhi_k_rhophi_z_tau_rhophi_theta_t a0 a1 a2 a3 a4 a5 a6 a7 hc3
  · exact c08_lorentz_deltaRapidityPhi_k_rhophi_z_tau_rhophi_theta_tau a0 a1 a2 a3 a4 a5 a6 a7 hc3 hc7
  · exact c08_lorentz_deltaRapidityPhi_k_rhophi_z_tau_rhophi_eta_t a0 a1 a2 a3 a4 a5 a6 a7 hc3
  · exact c08_lorentz_deltaRapidityPhi_k_rhophi_z_tau_rhophi_eta_tau a0 a1 a2 a3 a4 a5 a6 a7 hc3 hc7
  · exact VS.lorentz_deltaRapidityPhi.k_rhophi_theta_t_xy_z_t_eq a0 a1 a2 a3 a4 a5 a6 a7
  · exact c08_lorentz_deltaRapidityPhi_k_rhophi_theta_t_xy_z_tau a0 a1 a2 a3 a4 a5 a6 a7 hc7
  · exact VS.lorentz_deltaRapidityPhi.k_rhophi_theta_t_xy_theta_t_eq a0 a1 a2 a3 a4 a5 a6 a7
  · exact c08_lorentz_deltaRapidityPhi_k_rhophi_theta_t_xy_theta_tau a0 a1 a2 a3 a4 a5 a6 a7 hc7
  · exact VS.lorentz_deltaRapidityPhi.k_rhophi_theta_t_xy_eta_t_eq a0 a1 a2 a3 a4 a5 a6 a7
  · exact c08_lorentz_deltaRapidityPhi_k_rhophi_theta_t_xy_eta_tau a0 a1 a2 a3 a4 a5 a6 a7 hc7
  · exact VS.lorentz_deltaRapidityPhi.k_rhophi_theta_t_rhophi_z_t_eq a0 a1 a2 a3 a4 a5 a6 a7
  · exact c08_lorentz_deltaRapidityPhi_k_rhophi_theta_t_rhophi_z_tau a0 a1 a2 a3 a4 a5 a6 a7 hc7
  · exact VS.lorentz_deltaRapidityPhi.k_rhophi_theta_t_rhophi_theta_t_eq a0 a1 a2 a3 a4 a5 a6 a7
  · exact c08_lorentz_deltaRapidityPhi_k_rhophi_theta_t_rhophi_theta_tau a0 a1 a2 a3 a4 a5 a6 a7 hc7
  · exact VS.lorentz_deltaRapidityPhi.k_rhophi_theta_t_rhophi_eta_t_eq a0 a1 a2 a3 a4 a5 a6 a7
  · exact c08_lorentz_deltaRapidityPhi_k_rhophi_theta_t_rhophi_eta_tau a0 a1 a2 a3 a4 a5 a6 a7 hc7
  · exact c08_lorentz_deltaRapidityPhi_k_rhophi_theta_tau_xy_z_t a0 a1 a2 a3 a4 a5 a6 a7 hc3
  · exact c08_lorentz_deltaRapidityPhi_k_rhophi_theta_tau_xy_z_tau a0 a1 a2 a3 a4 a5 a6 a7 hc3 hc7
  · exact c08_lorentz_deltaRapidityPhi_k_rhophi_theta_tau_xy_theta_t a0 a1 a2 a3 a4 a5 a6 a7 hc3
  · exact c08_lorentz_deltaRapidityPhi_k_rhophi_theta_tau_xy_theta_tau a0 a1 a2 a3 a4 a5 a6 a7 hc3 hc7
  · exact c08_lorentz_deltaRapidityPhi_k_rhophi_theta_tau_xy_eta_t a0 a1 a2 a3 a4 a5 a6 a7 hc3
  · exact c08_lorentz_deltaRapidityPhi_k_rhophi_theta_tau_xy_eta_tau a0 a1 a2 a3 a4 a5 a6 a7 hc3 hc7
  · exact c08_lorentz_deltaRapidityPhi_k_rhophi_theta_tau_rhophi_z_t a0 a1 a2 a3 a4 a5 a6 a7 hc3
  · exact c08_lorentz_deltaRapidityPhi_k_rhophi_theta_tau_rhophi_z_tau a0 a1 a2 a3 a4 a5 a6 a7 hc3 hc7
  · exact c08_lorentz_deltaRapidityPhi_k_rhophi_theta_tau_rhophi_theta_t a0 a1 a2 a3 a4 a5 a6 a7 hc3
  · exact c08_lorentz_deltaRapidityPhi_k_rhophi_theta_tau_rhophi_theta_tau a0 a1 a2 a3 a4 a5 a6 a7 hc3 hc7
  · exact c08_lorentz_deltaRapidityPhi_k_rhophi_theta_tau_rhophi_eta_t a0 a1 a2 a3 a4 a5 a6 a7 hc3
  · exact c08_lorentz_deltaRapidityPhi_k_rhophi_theta_tau_rhophi_eta_tau a0 a1 a2 a3 a4 a5 a6 a7 hc3 hc7
  · exact VS.lorentz_deltaRapidityPhi.k_rhophi_eta_t_xy_z_t_eq a0 a1 a2 a3 a4 a5 a6 a7
  · exact c08_lorentz_deltaRapidityPhi_k_rhophi_eta_t_xy_z_tau a0 a1 a2 a3 a4 a5 a6 a7 hc7
  · exact VS.lorentz_deltaRapidityPhi.k_rhophi_eta_t_xy_theta_t_eq a0 a1 a2 a3 a4 a5 a6 a7
  · exact c08_lorentz_deltaRapidityPhi_k_rhophi_eta_t_xy_theta_tau a0 a1 a2 a3 a4 a5 a6 a7 hc7
  · exact VS.lorentz_deltaRapidityPhi.k_rhophi_eta_t_xy_eta_t_eq a0 a1 a2 a3 a4 a5 a6 a7
  · exact c08_lorentz_deltaRapidityPhi_k_rhophi_eta_t_xy_eta_tau a0 a1 a2 a3 a4 a5 a6 a7 hc7
  · exact VS.lorentz_deltaRapidityPhi.k_rhophi_eta_t_rhophi_z_t_eq a0 a1 a2 a3 a4 a5 a6 a7
  · exact c08_lorentz_deltaRapidityPhi_k_rhophi_eta_t_rhophi_z_tau a0 a1 a2 a3 a4 a5 a6 a7 hc7
  · exact VS.lorentz_deltaRapidityPhi.k_rhophi_eta_t_rhophi_theta_t_eq a0 a1 a2 a3 a4 a5 a6 a7
  · exact c08_lorentz_deltaRapidityPhi_k_rhophi_eta_t_rhophi_theta_tau a0 a1 a2 a3 a4 a5 a6 a7 hc7
  · exact VS.lorentz_deltaRapidityPhi.k_rhophi_eta_t_rhophi_eta_t_eq a0 a1 a2 a3 a4 a5 a6 a7
  · exact c08_lorentz_deltaRapidityPhi_k_rhophi_eta_t_rhophi_eta_tau a0 a1 a2 a3 a4 a5 a6 a7 hc7
  · exact c08_lorentz_deltaRapidityPhi_k_rhophi_eta_tau_xy_z_t a0 a1 a2 a3 a4 a5 a6 a7 hc3
  · exact c08_lorentz_deltaRapidityPhi_k_rhophi_eta_tau_xy_z_tau a0 a1 a2 a3 a4 a5 a6 a7 hc3 hc7
  · exact c08_lorentz_deltaRapidityPhi_k_rhophi_eta_tau_xy_theta_t a0 a1 a2 a3 a4 a5 a6 a7 hc3
  · exact c08_lorentz_deltaRapidityPhi_k_rhophi_eta_tau_xy_theta_tau a0 a1 a2 a3 a4 a5 a6 a7 hc3 hc7
  · exact c08_lorentz_deltaRapidityPhi_k_rhophi_eta_tau_xy_eta_t a0 a1 a2 a3 a4 a5 a6 a7 hc3
  · exact c08_lorentz_deltaRapidityPhi_k_rhophi_eta_tau_xy_eta_tau a0 a1 a2 a3 a4 a5 a6 a7 hc3 hc7
  · exact c08_lorentz_deltaRapidityPhi_k_rhophi_eta_tau_rhophi_z_t a0 a1 a2 a3 a4 a5 a6 a7 hc3
  · exact c08_lorentz_deltaRapidityPhi_k_rhophi_eta_tau_rhophi_z_tau a0 a1 a2 a3 a4 a5 a6 a7 hc3 hc7
  · exact c08_lorentz_deltaRapidityPhi_k_rhophi_eta_tau_rhophi_theta_t a0 a1 a2 a3 a4 a5 a6 a7 hc3
  · exact c08_lorentz_deltaRapidityPhi_k_rhophi_eta_tau_rhophi_theta_tau a0 a1 a2 a3 a4 a5 a6 a7 hc3 hc7
  · exact c08_lorentz_deltaRapidityPhi_k_rhophi_eta_tau_rhophi_eta_t a0 a1 a2 a3 a4 a5 a6 a7 hc3
  · exact c08_lorentz_deltaRapidityPhi_k_rhophi_eta_tau_rhophi_eta_tau a0 a1 a2 a3 a4 a5 a6 a7 hc3 hc7

/-- the symbolic `isclose` is the symbolic `==`, whatever the tolerances (planar, all keys) -/
theorem c08_planar_isclose_iff_equal (k0 k1 : Az) (rtol atol equal_nan a0 a1 a2 a3 : ℝ) :
    VS.planar_isclose.eval k0 k1 rtol atol equal_nan a0 a1 a2 a3 ↔ VS.planar_equal.eval k0 k1 a0 a1 a2 a3 := by
  cases k0 <;> cases k1 <;>
  simp only [VS.planar_isclose.rhophi_rhophi, VS.planar_isclose.xy_xy, VS.planar_isclose.rhophi_xy, VS.planar_isclose.xy_rhophi, VS.planar_isclose.eval, VS.planar_equal.rhophi_rhophi, VS.planar_equal.xy_xy, VS.planar_equal.rhophi_xy, VS.planar_equal.xy_rhophi, VS.planar_equal.eval]

/-- the symbolic `isclose` is the symbolic `==`, whatever the tolerances (spatial, all keys) -/
theorem c08_spatial_isclose_iff_equal (k0 : Az) (k1 : Lon) (k2 : Az) (k3 : Lon) (rtol atol equal_nan a0 a1 a2 a3 a4 a5 : ℝ) :
    VS.spatial_isclose.eval k0 k1 k2 k3 rtol atol equal_nan a0 a1 a2 a3 a4 a5 ↔ VS.spatial_equal.eval k0 k1 k2 k3 a0 a1 a2 a3 a4 a5 := by
  cases k0 <;> cases k1 <;> cases k2 <;> cases k3 <;>
  simp only [VS.spatial_isclose.rhophi_eta_rhophi_eta, VS.spatial_isclose.rhophi_eta_rhophi_theta, VS.spatial_isclose.rhophi_z_rhophi_z, VS.spatial_isclose.rhophi_eta_rhophi_z, VS.spatial_isclose.xy_eta_xy_eta, VS.spatial_isclose.rhophi_eta_xy_eta, VS.spatial_isclose.rhophi_eta_xy_theta, VS.spatial_isclose.xy_z_xy_z, VS.spatial_isclose.rhophi_eta_xy_z, VS.spatial_isclose.rhophi_theta_rhophi_eta, VS.spatial_isclose.rhophi_theta_rhophi_theta, VS.spatial_isclose.rhophi_theta_rhophi_z, VS.spatial_isclose.rhophi_theta_xy_eta, VS.spatial_isclose.xy_theta_xy_theta, VS.spatial_isclose.rhophi_theta_xy_theta, VS.spatial_isclose.rhophi_theta_xy_z, VS.spatial_isclose.rhophi_z_rhophi_eta, VS.spatial_isclose.rhophi_z_rhophi_theta, VS.spatial_isclose.rhophi_z_xy_eta, VS.spatial_isclose.rhophi_z_xy_theta, VS.spatial_isclose.rhophi_z_xy_z, VS.spatial_isclose.xy_eta_rhophi_eta, VS.spatial_isclose.xy_eta_rhophi_theta, VS.spatial_isclose.xy_eta_rhophi_z, VS.spatial_isclose.xy_eta_xy_theta, VS.spatial_isclose.xy_eta_xy_z, VS.spatial_isclose.xy_theta_rhophi_eta, VS.spatial_isclose.xy_theta_rhophi_theta, VS.spatial_isclose.xy_theta_rhophi_z, VS.spatial_isclose.xy_theta_xy_eta, VS.spatial_isclose.xy_theta_xy_z, VS.spatial_isclose.xy_z_rhophi_eta, VS.spatial_isclose.xy_z_rhophi_theta, VS.spatial_isclose.xy_z_rhophi_z, VS.spatial_isclose.xy_z_xy_eta, VS.spatial_isclose.xy_z_xy_theta, VS.spatial_isclose.eval, VS.spatial_equal.rhophi_eta_rhophi_eta, VS.spatial_equal.rhophi_eta_rhophi_theta, VS.spatial_equal.rhophi_z_rhophi_z, VS.spatial_equal.rhophi_eta_rhophi_z, VS.spatial_equal.xy_eta_xy_eta, VS.spatial_equal.rhophi_eta_xy_eta, VS.spatial_equal.rhophi_eta_xy_theta, VS.spatial_equal.xy_z_xy_z, VS.spatial_equal.rhophi_eta_xy_z, VS.spatial_equal.rhophi_theta_rhophi_eta, VS.spatial_equal.rhophi_theta_rhophi_theta, VS.spatial_equal.rhophi_theta_rhophi_z, VS.spatial_equal.rhophi_theta_xy_eta, VS.spatial_equal.xy_theta_xy_theta, VS.spatial_equal.rhophi_theta_xy_theta, VS.spatial_equal.rhophi_theta_xy_z, VS.spatial_equal.rhophi_z_rhophi_eta, VS.spatial_equal.rhophi_z_rhophi_theta, VS.spatial_equal.rhophi_z_xy_eta, VS.spatial_equal.rhophi_z_xy_theta, VS.spatial_equal.rhophi_z_xy_z, VS.spatial_equal.xy_eta_rhophi_eta, VS.spatial_equal.xy_eta_rhophi_theta, VS.spatial_equal.xy_eta_rhophi_z, VS.spatial_equal.xy_eta_xy_theta, VS.spatial_equal.xy_eta_xy_z, VS.spatial_equal.xy_theta_rhophi_eta, VS.spatial_equal.xy_theta_rhophi_theta, VS.spatial_equal.xy_theta_rhophi_z, VS.spatial_equal.xy_theta_xy_eta, VS.spatial_equal.xy_theta_xy_z, VS.spatial_equal.xy_z_rhophi_eta, VS.spatial_equal.xy_z_rhophi_theta, VS.spatial_equal.xy_z_rhophi_z, VS.spatial_equal.xy_z_xy_eta, VS.spatial_equal.xy_z_xy_theta, VS.spatial_equal.eval]

/-- the symbolic `isclose` is the symbolic `==`, whatever the tolerances (lorentz, all keys) -/
theorem c08_lorentz_isclose_iff_equal (k0 : Az) (k1 : Lon) (k2 : Tmp) (k3 : Az) (k4 : Lon) (k5 : Tmp) (rtol atol equal_nan a0 a1 a2 a3 a4 a5 a6 a7 : ℝ) :
    VS.lorentz_isclose.eval k0 k1 k2 k3 k4 k5 rtol atol equal_nan a0 a1 a2 a3 a4 a5 a6 a7 ↔ VS.lorentz_equal.eval k0 k1 k2 k3 k4 k5 a0 a1 a2 a3 a4 a5 a6 a7 := by
  cases k0 <;> cases k1 <;> cases k2 <;> cases k3 <;> cases k4 <;> cases k5 <;>
  simp only [VS.lorentz_isclose.k_rhophi_eta_t_rhophi_eta_t, VS.lorentz_isclose.k_rhophi_eta_t_rhophi_eta_tau, VS.lorentz_isclose.k_rhophi_eta_t_rhophi_theta_t, VS.lorentz_isclose.k_rhophi_eta_t_rhophi_theta_tau, VS.lorentz_isclose.k_rhophi_eta_t_rhophi_z_t, VS.lorentz_isclose.k_rhophi_eta_t_rhophi_z_tau, VS.lorentz_isclose.k_rhophi_eta_t_xy_eta_t, VS.lorentz_isclose.k_rhophi_eta_t_xy_eta_tau, VS.lorentz_isclose.k_rhophi_eta_t_xy_theta_t, VS.lorentz_isclose.k_rhophi_eta_t_xy_theta_tau, VS.lorentz_isclose.k_rhophi_eta_t_xy_z_t, VS.lorentz_isclose.k_rhophi_eta_t_xy_z_tau, VS.lorentz_isclose.k_rhophi_eta_tau_rhophi_eta_t, VS.lorentz_isclose.k_rhophi_eta_tau_rhophi_eta_tau, VS.lorentz_isclose.k_rhophi_eta_tau_rhophi_theta_t, VS.lorentz_isclose.k_rhophi_eta_tau_rhophi_theta_tau, VS.lorentz_isclose.k_rhophi_eta_tau_rhophi_z_t, VS.lorentz_isclose.k_rhophi_eta_tau_rhophi_z_tau, VS.lorentz_isclose.k_rhophi_eta_tau_xy_eta_t, VS.lorentz_isclose.k_rhophi_eta_tau_xy_eta_tau, VS.lorentz_isclose.k_rhophi_eta_tau_xy_theta_t, VS.lorentz_isclose.k_rhophi_eta_tau_xy_theta_tau, VS.lorentz_isclose.k_rhophi_eta_tau_xy_z_t, VS.lorentz_isclose.k_rhophi_eta_tau_xy_z_tau, VS.lorentz_isclose.k_rhophi_theta_t_rhophi_eta_t, VS.lorentz_isclose.k_rhophi_theta_t_rhophi_eta_tau, VS.lorentz_isclose.k_rhophi_theta_t_rhophi_theta_t, VS.lorentz_isclose.k_rhophi_theta_t_rhophi_theta_tau, VS.lorentz_isclose.k_rhophi_theta_t_rhophi_z_t, VS.lorentz_isclose.k_rhophi_theta_t_rhophi_z_tau, VS.lorentz_isclose.k_rhophi_theta_t_xy_eta_t, VS.lorentz_isclose.k_rhophi_theta_t_xy_eta_tau, VS.lorentz_isclose.k_rhophi_theta_t_xy_theta_t, VS.lorentz_isclose.k_rhophi_theta_t_xy_theta_tau, VS.lorentz_isclose.k_rhophi_theta_t_xy_z_t, VS.lorentz_isclose.k_rhophi_theta_t_xy_z_tau, VS.lorentz_isclose.k_rhophi_theta_tau_rhophi_eta_t, VS.lorentz_isclose.k_rhophi_theta_tau_rhophi_eta_tau, VS.lorentz_isclose.k_rhophi_theta_tau_rhophi_theta_t, VS.lorentz_isclose.k_rhophi_theta_tau_rhophi_theta_tau, VS.lorentz_isclose.k_rhophi_theta_tau_rhophi_z_t, VS.lorentz_isclose.k_rhophi_theta_tau_rhophi_z_tau, VS.lorentz_isclose.k_rhophi_theta_tau_xy_eta_t, VS.lorentz_isclose.k_rhophi_theta_tau_xy_eta_tau, VS.lorentz_isclose.k_rhophi_theta_tau_xy_theta_t, VS.lorentz_isclose.k_rhophi_theta_tau_xy_theta_tau, VS.lorentz_isclose.k_rhophi_theta_tau_xy_z_t, VS.lorentz_isclose.k_rhophi_theta_tau_xy_z_tau, VS.lorentz_isclose.k_rhophi_z_t_rhophi_eta_t, VS.lorentz_isclose.k_rhophi_z_t_rhophi_eta_tau, VS.lorentz_isclose.k_rhophi_z_t_rhophi_theta_t, VS.lorentz_isclose.k_rhophi_z_t_rhophi_theta_tau, VS.lorentz_isclose.k_rhophi_z_t_rhophi_z_t, VS.lorentz_isclose.k_rhophi_z_t_rhophi_z_tau, VS.lorentz_isclose.k_rhophi_z_t_xy_eta_t, VS.lorentz_isclose.k_rhophi_z_t_xy_eta_tau, VS.lorentz_isclose.k_rhophi_z_t_xy_theta_t, VS.lorentz_isclose.k_rhophi_z_t_xy_theta_tau, VS.lorentz_isclose.k_rhophi_z_t_xy_z_t, VS.lorentz_isclose.k_rhophi_z_t_xy_z_tau, VS.lorentz_isclose.k_rhophi_z_tau_rhophi_eta_t, VS.lorentz_isclose.k_rhophi_z_tau_rhophi_eta_tau, VS.lorentz_isclose.k_rhophi_z_tau_rhophi_theta_t, VS.lorentz_isclose.k_rhophi_z_tau_rhophi_theta_tau, VS.lorentz_isclose.k_rhophi_z_tau_rhophi_z_t, VS.lorentz_isclose.k_rhophi_z_tau_rhophi_z_tau, VS.lorentz_isclose.k_rhophi_z_tau_xy_eta_t, VS.lorentz_isclose.k_rhophi_z_tau_xy_eta_tau, VS.lorentz_isclose.k_rhophi_z_tau_xy_theta_t, VS.lorentz_isclose.k_rhophi_z_tau_xy_theta_tau, VS.lorentz_isclose.k_rhophi_z_tau_xy_z_t, VS.lorentz_isclose.k_rhophi_z_tau_xy_z_tau, VS.lorentz_isclose.k_xy_eta_t_rhophi_eta_t, VS.lorentz_isclose.k_xy_eta_t_rhophi_eta_tau, VS.lorentz_isclose.k_xy_eta_t_rhophi_theta_t, VS.lorentz_isclose.k_xy_eta_t_rhophi_theta_tau, VS.lorentz_isclose.k_xy_eta_t_rhophi_z_t, VS.lorentz_isclose.k_xy_eta_t_rhophi_z_tau, VS.lorentz_isclose.k_xy_eta_t_xy_eta_t, VS.lorentz_isclose.k_xy_eta_t_xy_eta_tau, VS.lorentz_isclose.k_xy_eta_t_xy_theta_t, VS.lorentz_isclose.k_xy_eta_t_xy_theta_tau, VS.lorentz_isclose.k_xy_eta_t_xy_z_t, VS.lorentz_isclose.k_xy_eta_t_xy_z_tau, VS.lorentz_isclose.k_xy_eta_tau_rhophi_eta_t, VS.lorentz_isclose.k_xy_eta_tau_rhophi_eta_tau, VS.lorentz_isclose.k_xy_eta_tau_rhophi_theta_t, VS.lorentz_isclose.k_xy_eta_tau_rhophi_theta_tau, VS.lorentz_isclose.k_xy_eta_tau_rhophi_z_t, VS.lorentz_isclose.k_xy_eta_tau_rhophi_z_tau, VS.lorentz_isclose.k_xy_eta_tau_xy_eta_t, VS.lorentz_isclose.k_xy_eta_tau_xy_eta_tau, VS.lorentz_isclose.k_xy_eta_tau_xy_theta_t, VS.lorentz_isclose.k_xy_eta_tau_xy_theta_tau, VS.lorentz_isclose.k_xy_eta_tau_xy_z_t, VS.lorentz_isclose.k_xy_eta_tau_xy_z_tau, VS.lorentz_isclose.k_xy_theta_t_rhophi_eta_t, VS.lorentz_isclose.k_xy_theta_t_rhophi_eta_tau, VS.lorentz_isclose.k_xy_theta_t_rhophi_theta_t, VS.lorentz_isclose.k_xy_theta_t_rhophi_theta_tau, VS.lorentz_isclose.k_xy_theta_t_rhophi_z_t, VS.lorentz_isclose.k_xy_theta_t_rhophi_z_tau, VS.lorentz_isclose.k_xy_theta_t_xy_eta_t, VS.lorentz_isclose.k_xy_theta_t_xy_eta_tau, VS.lorentz_isclose.k_xy_theta_t_xy_theta_t, VS.lorentz_isclose.k_xy_theta_t_xy_theta_tau, VS.lorentz_isclose.k_xy_theta_t_xy_z_t, VS.lorentz_isclose.k_xy_theta_t_xy_z_tau, VS.lorentz_isclose.k_xy_theta_tau_rhophi_eta_t, VS.lorentz_isclose.k_xy_theta_tau_rhophi_eta_tau, VS.lorentz_isclose.k_xy_theta_tau_rhophi_theta_t, VS.lorentz_isclose.k_xy_theta_tau_rhophi_theta_tau, VS.lorentz_isclose.k_xy_theta_tau_rhophi_z_t, VS.lorentz_isclose.k_xy_theta_tau_rhophi_z_tau, VS.lorentz_isclose.k_xy_theta_tau_xy_eta_t, VS.lorentz_isclose.k_xy_theta_tau_xy_eta_tau, VS.lorentz_isclose.k_xy_theta_tau_xy_theta_t, VS.lorentz_isclose.k_xy_theta_tau_xy_theta_tau, VS.lorentz_isclose.k_xy_theta_tau_xy_z_t, VS.lorentz_isclose.k_xy_theta_tau_xy_z_tau, VS.lorentz_isclose.k_xy_z_t_rhophi_eta_t, VS.lorentz_isclose.k_xy_z_t_rhophi_eta_tau, VS.lorentz_isclose.k_xy_z_t_rhophi_theta_t, VS.lorentz_isclose.k_xy_z_t_rhophi_theta_tau, VS.lorentz_isclose.k_xy_z_t_rhophi_z_t, VS.lorentz_isclose.k_xy_z_t_rhophi_z_tau, VS.lorentz_isclose.k_xy_z_t_xy_eta_t, VS.lorentz_isclose.k_xy_z_t_xy_eta_tau, VS.lorentz_isclose.k_xy_z_t_xy_theta_t, VS.lorentz_isclose.k_xy_z_t_xy_theta_tau, VS.lorentz_isclose.k_xy_z_t_xy_z_t, VS.lorentz_isclose.k_xy_z_t_xy_z_tau, VS.lorentz_isclose.k_xy_z_tau_rhophi_eta_t, VS.lorentz_isclose.k_xy_z_tau_rhophi_eta_tau, VS.lorentz_isclose.k_xy_z_tau_rhophi_theta_t, VS.lorentz_isclose.k_xy_z_tau_rhophi_theta_tau, VS.lorentz_isclose.k_xy_z_tau_rhophi_z_t, VS.lorentz_isclose.k_xy_z_tau_rhophi_z_tau, VS.lorentz_isclose.k_xy_z_tau_xy_eta_t, VS.lorentz_isclose.k_xy_z_tau_xy_eta_tau, VS.lorentz_isclose.k_xy_z_tau_xy_theta_t, VS.lorentz_isclose.k_xy_z_tau_xy_theta_tau, VS.lorentz_isclose.k_xy_z_tau_xy_z_t, VS.lorentz_isclose.k_xy_z_tau_xy_z_tau, VS.lorentz_isclose.eval, VS.lorentz_equal.k_rhophi_eta_t_rhophi_eta_t, VS.lorentz_equal.k_rhophi_eta_t_rhophi_eta_tau, VS.lorentz_equal.k_rhophi_eta_t_rhophi_theta_t, VS.lorentz_equal.k_rhophi_eta_t_rhophi_theta_tau, VS.lorentz_equal.k_rhophi_eta_t_rhophi_z_t, VS.lorentz_equal.k_rhophi_eta_t_rhophi_z_tau, VS.lorentz_equal.k_rhophi_eta_t_xy_eta_t, VS.lorentz_equal.k_rhophi_eta_t_xy_eta_tau, VS.lorentz_equal.k_rhophi_eta_t_xy_theta_t, VS.lorentz_equal.k_rhophi_eta_t_xy_theta_tau, VS.lorentz_equal.k_rhophi_eta_t_xy_z_t, VS.lorentz_equal.k_rhophi_eta_t_xy_z_tau, VS.lorentz_equal.k_rhophi_eta_tau_rhophi_eta_t, VS.lorentz_equal.k_rhophi_eta_tau_rhophi_eta_tau, VS.lorentz_equal.k_rhophi_eta_tau_rhophi_theta_t, VS.lorentz_equal.k_rhophi_eta_tau_rhophi_theta_tau, VS.lorentz_equal.k_rhophi_eta_tau_rhophi_z_t, VS.lorentz_equal.k_rhophi_eta_tau_rhophi_z_tau, VS.lorentz_equal.k_rhophi_eta_tau_xy_eta_t, VS.lorentz_equal.k_rhophi_eta_tau_xy_eta_tau, VS.lorentz_equal.k_rhophi_eta_tau_xy_theta_t, VS.lorentz_equal.k_rhophi_eta_tau_xy_theta_tau, VS.lorentz_equal.k_rhophi_eta_tau_xy_z_t, VS.lorentz_equal.k_rhophi_eta_tau_xy_z_tau, VS.lorentz_equal.k_rhophi_theta_t_rhophi_eta_t, VS.lorentz_equal.k_rhophi_theta_t_rhophi_eta_tau, VS.lorentz_equal.k_rhophi_theta_t_rhophi_theta_t, VS.lorentz_equal.k_rhophi_theta_t_rhophi_theta_tau, VS.lorentz_equal.k_rhophi_theta_t_rhophi_z_t, VS.lorentz_equal.k_rhophi_theta_t_rhophi_z_tau, VS.lorentz_equal.k_rhophi_theta_t_xy_eta_t, VS.lorentz_equal.k_rhophi_theta_t_xy_eta_tau, VS.lorentz_equal.k_rhophi_theta_t_xy_theta_t, VS.lorentz_equal.k_rhophi_theta_t_xy_theta_tau, VS.lorentz_equal.k_rhophi_theta_t_xy_z_t, VS.lorentz_equal.k_rhophi_theta_t_xy_z_tau, VS.lorentz_equal.k_rhophi_theta_tau_rhophi_eta_t, VS.lorentz_equal.k_rhophi_theta_tau_rhophi_eta_tau, VS.lorentz_equal.k_rhophi_theta_tau_rhophi_theta_t, VS.lorentz_equal.k_rhophi_theta_tau_rhophi_theta_tau, VS.lorentz_equal.k_rhophi_theta_tau_rhophi_z_t, VS.lorentz_equal.k_rhophi_theta_tau_rhophi_z_tau, VS.lorentz_equal.k_rhophi_theta_tau_xy_eta_t, VS.lorentz_equal.k_rhophi_theta_tau_xy_eta_tau, VS.lorentz_equal.k_rhophi_theta_tau_xy_theta_t, VS.lorentz_equal.k_rhophi_theta_tau_xy_theta_tau, VS.lorentz_equal.k_rhophi_theta_tau_xy_z_t, VS.lorentz_equal.k_rhophi_theta_tau_xy_z_tau, VS.lorentz_equal.k_rhophi_z_t_rhophi_eta_t, VS.lorentz_equal.k_rhophi_z_t_rhophi_eta_tau, VS.lorentz_equal.k_rhophi_z_t_rhophi_theta_t, VS.lorentz_equal.k_rhophi_z_t_rhophi_theta_tau, VS.lorentz_equal.k_rhophi_z_t_rhophi_z_t, VS.lorentz_equal.k_rhophi_z_t_rhophi_z_tau, VS.lorentz_equal.k_rhophi_z_t_xy_eta_t, VS.lorentz_equal.k_rhophi_z_t_xy_eta_tau, VS.lorentz_equal.k_rhophi_z_t_xy_theta_t, VS.lorentz_equal.k_rhophi_z_t_xy_theta_tau, VS.lorentz_equal.k_rhophi_z_t_xy_z_t, VS.lorentz_equal.k_rhophi_z_t_xy_z_tau, VS.lorentz_equal.k_rhophi_z_tau_rhophi_eta_t, VS.lorentz_equal.k_rhophi_z_tau_rhophi_eta_tau, VS.lorentz_equal.k_rhophi_z_tau_rhophi_theta_t, VS.lorentz_equal.k_rhophi_z_tau_rhophi_theta_tau, VS.lorentz_equal.k_rhophi_z_tau_rhophi_z_t, VS.lorentz_equal.k_rhophi_z_tau_rhophi_z_tau, VS.lorentz_equal.k_rhophi_z_tau_xy_eta_t, VS.lorentz_equal.k_rhophi_z_tau_xy_eta_tau, VS.lorentz_equal.k_rhophi_z_tau_xy_theta_t, VS.lorentz_equal.k_rhophi_z_tau_xy_theta_tau, VS.lorentz_equal.k_rhophi_z_tau_xy_z_t, VS.lorentz_equal.k_rhophi_z_tau_xy_z_tau, VS.lorentz_equal.k_xy_eta_t_rhophi_eta_t, VS.lorentz_equal.k_xy_eta_t_rhophi_eta_tau, VS.lorentz_equal.k_xy_eta_t_rhophi_theta_t, VS.lorentz_equal.k_xy_eta_t_rhophi_theta_tau, VS.lorentz_equal.k_xy_eta_t_rhophi_z_t, VS.lorentz_equal.k_xy_eta_t_rhophi_z_tau, VS.lorentz_equal.k_xy_eta_t_xy_eta_t, VS.lorentz_equal.k_xy_eta_t_xy_eta_tau, VS.lorentz_equal.k_xy_eta_t_xy_theta_t, VS.lorentz_equal.k_xy_eta_t_xy_theta_tau, VS.lorentz_equal.k_xy_eta_t_xy_z_t, VS.lorentz_equal.k_xy_eta_t_xy_z_tau, VS.lorentz_equal.k_xy_eta_tau_rhophi_eta_t, VS.lorentz_equal.k_xy_eta_tau_rhophi_eta_tau, VS.lorentz_equal.k_xy_eta_tau_rhophi_theta_t, VS.lorentz_equal.k_xy_eta_tau_rhophi_theta_tau, VS.lorentz_equal.k_xy_eta_tau_rhophi_z_t, VS.lorentz_equal.k_xy_eta_tau_rhophi_z_tau, VS.lorentz_equal.k_xy_eta_tau_xy_eta_t, VS.lorentz_equal.k_xy_eta_tau_xy_eta_tau, VS.lorentz_equal.k_xy_eta_tau_xy_theta_t, VS.lorentz_equal.k_xy_eta_tau_xy_theta_tau, VS.lorentz_equal.k_xy_eta_tau_xy_z_t, VS.lorentz_equal.k_xy_eta_tau_xy_z_tau, VS.lorentz_equal.k_xy_theta_t_rhophi_eta_t, VS.lorentz_equal.k_xy_theta_t_rhophi_eta_tau, VS.lorentz_equal.k_xy_theta_t_rhophi_theta_t, VS.lorentz_equal.k_xy_theta_t_rhophi_theta_tau, VS.lorentz_equal.k_xy_theta_t_rhophi_z_t, VS.lorentz_equal.k_xy_theta_t_rhophi_z_tau, VS.lorentz_equal.k_xy_theta_t_xy_eta_t, VS.lorentz_equal.k_xy_theta_t_xy_eta_tau, VS.lorentz_equal.k_xy_theta_t_xy_theta_t, VS.lorentz_equal.k_xy_theta_t_xy_theta_tau, VS.lorentz_equal.k_xy_theta_t_xy_z_t, VS.lorentz_equal.k_xy_theta_t_xy_z_tau, VS.lorentz_equal.k_xy_theta_tau_rhophi_eta_t, VS.lorentz_equal.k_xy_theta_tau_rhophi_eta_tau, VS.lorentz_equal.k_xy_theta_tau_rhophi_theta_t, VS.lorentz_equal.k_xy_theta_tau_rhophi_theta_tau, VS.lorentz_equal.k_xy_theta_tau_rhophi_z_t, VS.lorentz_equal.k_xy_theta_tau_rhophi_z_tau, VS.lorentz_equal.k_xy_theta_tau_xy_eta_t, VS.lorentz_equal.k_xy_theta_tau_xy_eta_tau, VS.lorentz_equal.k_xy_theta_tau_xy_theta_t, VS.lorentz_equal.k_xy_theta_tau_xy_theta_tau, VS.lorentz_equal.k_xy_theta_tau_xy_z_t, VS.lorentz_equal.k_xy_theta_tau_xy_z_tau, VS.lorentz_equal.k_xy_z_t_rhophi_eta_t, VS.lorentz_equal.k_xy_z_t_rhophi_eta_tau, VS.lorentz_equal.k_xy_z_t_rhophi_theta_t, VS.lorentz_equal.k_xy_z_t_rhophi_theta_tau, VS.lorentz_equal.k_xy_z_t_rhophi_z_t, VS.lorentz_equal.k_xy_z_t_rhophi_z_tau, VS.lorentz_equal.k_xy_z_t_xy_eta_t, VS.lorentz_equal.k_xy_z_t_xy_eta_tau, VS.lorentz_equal.k_xy_z_t_xy_theta_t, VS.lorentz_equal.k_xy_z_t_xy_theta_tau, VS.lorentz_equal.k_xy_z_t_xy_z_t, VS.lorentz_equal.k_xy_z_t_xy_z_tau, VS.lorentz_equal.k_xy_z_tau_rhophi_eta_t, VS.lorentz_equal.k_xy_z_tau_rhophi_eta_tau, VS.lorentz_equal.k_xy_z_tau_rhophi_theta_t, VS.lorentz_equal.k_xy_z_tau_rhophi_theta_tau, VS.lorentz_equal.k_xy_z_tau_rhophi_z_t, VS.lorentz_equal.k_xy_z_tau_rhophi_z_tau, VS.lorentz_equal.k_xy_z_tau_xy_eta_t, VS.lorentz_equal.k_xy_z_tau_xy_eta_tau, VS.lorentz_equal.k_xy_z_tau_xy_theta_t, VS.lorentz_equal.k_xy_z_tau_xy_theta_tau, VS.lorentz_equal.k_xy_z_tau_xy_z_t, VS.lorentz_equal.k_xy_z_tau_xy_z_tau, VS.lorentz_equal.eval, VS.spatial_isclose.rhophi_eta_rhophi_eta, VS.spatial_isclose.rhophi_eta_rhophi_theta, VS.spatial_isclose.rhophi_z_rhophi_z, VS.spatial_isclose.rhophi_eta_rhophi_z, VS.spatial_isclose.xy_eta_xy_eta, VS.spatial_isclose.rhophi_eta_xy_eta, VS.spatial_isclose.rhophi_eta_xy_theta, VS.spatial_isclose.xy_z_xy_z, VS.spatial_isclose.rhophi_eta_xy_z, VS.spatial_isclose.rhophi_theta_rhophi_eta, VS.spatial_isclose.rhophi_theta_rhophi_theta, VS.spatial_isclose.rhophi_theta_rhophi_z, VS.spatial_isclose.rhophi_theta_xy_eta, VS.spatial_isclose.xy_theta_xy_theta, VS.spatial_isclose.rhophi_theta_xy_theta, VS.spatial_isclose.rhophi_theta_xy_z, VS.spatial_isclose.rhophi_z_rhophi_eta, VS.spatial_isclose.rhophi_z_rhophi_theta, VS.spatial_isclose.rhophi_z_xy_eta, VS.spatial_isclose.rhophi_z_xy_theta, VS.spatial_isclose.rhophi_z_xy_z, VS.spatial_isclose.xy_eta_rhophi_eta, VS.spatial_isclose.xy_eta_rhophi_theta, VS.spatial_isclose.xy_eta_rhophi_z, VS.spatial_isclose.xy_eta_xy_theta, VS.spatial_isclose.xy_eta_xy_z, VS.spatial_isclose.xy_theta_rhophi_eta, VS.spatial_isclose.xy_theta_rhophi_theta, VS.spatial_isclose.xy_theta_rhophi_z, VS.spatial_isclose.xy_theta_xy_eta, VS.spatial_isclose.xy_theta_xy_z, VS.spatial_isclose.xy_z_rhophi_eta, VS.spatial_isclose.xy_z_rhophi_theta, VS.spatial_isclose.xy_z_rhophi_z, VS.spatial_isclose.xy_z_xy_eta, VS.spatial_isclose.xy_z_xy_theta, VS.spatial_isclose.eval, VS.spatial_equal.rhophi_eta_rhophi_eta, VS.spatial_equal.rhophi_eta_rhophi_theta, VS.spatial_equal.rhophi_z_rhophi_z, VS.spatial_equal.rhophi_eta_rhophi_z, VS.spatial_equal.xy_eta_xy_eta, VS.spatial_equal.rhophi_eta_xy_eta, VS.spatial_equal.rhophi_eta_xy_theta, VS.spatial_equal.xy_z_xy_z, VS.spatial_equal.rhophi_eta_xy_z, VS.spatial_equal.rhophi_theta_rhophi_eta, VS.spatial_equal.rhophi_theta_rhophi_theta, VS.spatial_equal.rhophi_theta_rhophi_z, VS.spatial_equal.rhophi_theta_xy_eta, VS.spatial_equal.xy_theta_xy_theta, VS.spatial_equal.rhophi_theta_xy_theta, VS.spatial_equal.rhophi_theta_xy_z, VS.spatial_equal.rhophi_z_rhophi_eta, VS.spatial_equal.rhophi_z_rhophi_theta, VS.spatial_equal.rhophi_z_xy_eta, VS.spatial_equal.rhophi_z_xy_theta, VS.spatial_equal.rhophi_z_xy_z, VS.spatial_equal.xy_eta_rhophi_eta, VS.spatial_equal.xy_eta_rhophi_theta, VS.spatial_equal.xy_eta_rhophi_z, VS.spatial_equal.xy_eta_xy_theta, VS.spatial_equal.xy_eta_xy_z, VS.spatial_equal.xy_theta_rhophi_eta, VS.spatial_equal.xy_theta_rhophi_theta, VS.spatial_equal.xy_theta_rhophi_z, VS.spatial_equal.xy_theta_xy_eta, VS.spatial_equal.xy_theta_xy_z, VS.spatial_equal.xy_z_rhophi_eta, VS.spatial_equal.xy_z_rhophi_theta, VS.spatial_equal.xy_z_rhophi_z, VS.spatial_equal.xy_z_xy_eta, VS.spatial_equal.xy_z_xy_theta, VS.spatial_equal.eval]

/-! ## `isclose`: a DOCUMENTED difference

The symbolic backend evaluates `isclose(a, b, rtol, atol, equal_nan)` as the exact equality `a = b`; it cannot agree with the numeric
`|a - b| ≤ atol + rtol·|b|`.  What holds instead: symbolic `isclose` is symbolic `==` (theorems `c08_*_isclose_iff_equal` above, all keys), hence
the numeric `==` on the regular domain. -/

theorem c08_planar_isclose_iff_numeric_equal (k0 k1 : Az) (rtol atol equal_nan a0 a1 a2 a3 : ℝ) :
    VS.planar_isclose.eval k0 k1 rtol atol equal_nan a0 a1 a2 a3 ↔ VR.planar_equal.eval k0 k1 a0 a1 a2 a3 := by
  rw [c08_planar_isclose_iff_equal, VS.planar_equal.eval_eq]

theorem c08_spatial_isclose_iff_numeric_equal (k0 : Az) (k1 : Lon) (k2 : Az) (k3 : Lon) (rtol atol equal_nan a0 a1 a2 a3 a4 a5 : ℝ) :
    VS.spatial_isclose.eval k0 k1 k2 k3 rtol atol equal_nan a0 a1 a2 a3 a4 a5 ↔ VR.spatial_equal.eval k0 k1 k2 k3 a0 a1 a2 a3 a4 a5 := by
  rw [c08_spatial_isclose_iff_equal, VS.spatial_equal.eval_eq]

theorem c08_lorentz_isclose_iff_numeric_equal (k0 : Az) (k1 : Lon) (k2 : Tmp) (k3 : Az) (k4 : Lon) (k5 : Tmp)
    (rtol atol equal_nan a0 a1 a2 a3 a4 a5 a6 a7 : ℝ) (hc3 : CanonTmp k2 a3) (hc7 : CanonTmp k5 a7) :
    VS.lorentz_isclose.eval k0 k1 k2 k3 k4 k5 rtol atol equal_nan a0 a1 a2 a3 a4 a5 a6 a7 ↔
      VR.lorentz_equal.eval k0 k1 k2 k3 k4 k5 a0 a1 a2 a3 a4 a5 a6 a7 := by
  rw [c08_lorentz_isclose_iff_equal]; exact c08_lorentz_equal k0 k1 k2 k3 k4 k5 a0 a1 a2 a3 a4 a5 a6 a7 hc3 hc7

/-- the documented difference is real: with `atol = 1` the numeric backend calls `(0,0)` and `(1/2,0)` close, the symbolic one does not. -/
example : VR.planar_isclose.xy_xy 0 1 0 0 0 (1/2) 0 ∧ ¬ VS.planar_isclose.xy_xy 0 1 0 0 0 (1/2) 0 := by
  simp only [VR.planar_isclose.xy_xy, VS.planar_isclose.xy_xy, VR.P.isclose]
  norm_num

/-! ## the clamp hypothesis of `deltaangle` is derivable: Cauchy–Schwarz for the Cartesian key -/

private theorem c08_cos_bounds (x1 y1 z1 x2 y2 z2 : ℝ) (h1 : 0 < x1 ^ 2 + y1 ^ 2 + z1 ^ 2) (h2 : 0 < x2 ^ 2 + y2 ^ 2 + z2 ^ 2) :
    -1 ≤ (x1 * x2 + y1 * y2 + z1 * z2) / Real.sqrt (x1 ^ 2 + y1 ^ 2 + z1 ^ 2) / Real.sqrt (x2 ^ 2 + y2 ^ 2 + z2 ^ 2) ∧
    (x1 * x2 + y1 * y2 + z1 * z2) / Real.sqrt (x1 ^ 2 + y1 ^ 2 + z1 ^ 2) / Real.sqrt (x2 ^ 2 + y2 ^ 2 + z2 ^ 2) ≤ 1 := by
  have hA : 0 < Real.sqrt (x1 ^ 2 + y1 ^ 2 + z1 ^ 2) := Real.sqrt_pos.mpr h1
  have hB : 0 < Real.sqrt (x2 ^ 2 + y2 ^ 2 + z2 ^ 2) := Real.sqrt_pos.mpr h2
  have hAB : 0 < Real.sqrt (x1 ^ 2 + y1 ^ 2 + z1 ^ 2) * Real.sqrt (x2 ^ 2 + y2 ^ 2 + z2 ^ 2) := mul_pos hA hB
  have hcs : (x1 * x2 + y1 * y2 + z1 * z2) ^ 2 ≤ (x1 ^ 2 + y1 ^ 2 + z1 ^ 2) * (x2 ^ 2 + y2 ^ 2 + z2 ^ 2) := by
    nlinarith [sq_nonneg (x1 * y2 - x2 * y1), sq_nonneg (x1 * z2 - x2 * z1), sq_nonneg (y1 * z2 - y2 * z1)]
  have habs : |x1 * x2 + y1 * y2 + z1 * z2| ≤
      Real.sqrt (x1 ^ 2 + y1 ^ 2 + z1 ^ 2) * Real.sqrt (x2 ^ 2 + y2 ^ 2 + z2 ^ 2) := by
    rw [← Real.sqrt_mul h1.le]; exact Real.abs_le_sqrt hcs
  obtain ⟨hlo, hhi⟩ := abs_le.mp habs
  rw [div_div]
  constructor
  · rw [le_div_iff₀ hAB]; linarith
  · rw [div_le_one hAB]; exact hhi

/-- Cartesian `deltaangle`: for two non-zero vectors the symbolic and the numeric backend agree, with no further hypothesis. -/
theorem c08_spatial_deltaangle_cartesian (x1 y1 z1 x2 y2 z2 : ℝ)
    (h1 : 0 < x1 ^ 2 + y1 ^ 2 + z1 ^ 2) (h2 : 0 < x2 ^ 2 + y2 ^ 2 + z2 ^ 2) :
    VS.spatial_deltaangle.eval .xy .z .xy .z x1 y1 z1 x2 y2 z2 = VR.spatial_deltaangle.eval .xy .z .xy .z x1 y1 z1 x2 y2 z2 := by
  have h := c08_cos_bounds x1 y1 z1 x2 y2 z2 h1 h2
  refine c08_spatial_deltaangle .xy .z .xy .z x1 y1 z1 x2 y2 z2 ?_ ?_
  · simpa only [VR.spatial_dot.eval, VR.spatial_mag.eval, VR.spatial_dot.xy_z_xy_z, VR.spatial_mag.xy_z, VR.spatial_mag2.xy_z] using h.1
  · simpa only [VR.spatial_dot.eval, VR.spatial_mag.eval, VR.spatial_dot.xy_z_xy_z, VR.spatial_mag.xy_z, VR.spatial_mag2.xy_z] using h.2

/-! ## the "sum is not spacelike" hypothesis of `add` is derivable for two canonical τ-vectors (Cartesian key) -/

private theorem c08_t_xy_z_tau (x y z tau : ℝ) (h : 0 ≤ tau) :
    VR.lorentz_t.xy_z_tau x y z tau = Real.sqrt (tau ^ 2 + (x ^ 2 + y ^ 2 + z ^ 2)) := by
  simp only [VR.lorentz_t.xy_z_tau, VR.lorentz_t2.xy_z_tau, VR.lorentz_tau2.xy_z_tau, VR.spatial_mag2.xy_z, c08_copysign_sq h]
  rw [max_eq_left (by positivity)]

private theorem c08_triangle (x1 y1 z1 m1 x2 y2 z2 m2 : ℝ) :
    (x1 + x2) ^ 2 + (y1 + y2) ^ 2 + (z1 + z2) ^ 2 ≤
      (Real.sqrt (m1 ^ 2 + (x1 ^ 2 + y1 ^ 2 + z1 ^ 2)) + Real.sqrt (m2 ^ 2 + (x2 ^ 2 + y2 ^ 2 + z2 ^ 2))) ^ 2 := by
  have e1 : Real.sqrt (m1 ^ 2 + (x1 ^ 2 + y1 ^ 2 + z1 ^ 2)) ^ 2 = m1 ^ 2 + (x1 ^ 2 + y1 ^ 2 + z1 ^ 2) := Real.sq_sqrt (by positivity)
  have e2 : Real.sqrt (m2 ^ 2 + (x2 ^ 2 + y2 ^ 2 + z2 ^ 2)) ^ 2 = m2 ^ 2 + (x2 ^ 2 + y2 ^ 2 + z2 ^ 2) := Real.sq_sqrt (by positivity)
  have hcs : (x1 * x2 + y1 * y2 + z1 * z2) ^ 2 ≤
      (m1 ^ 2 + (x1 ^ 2 + y1 ^ 2 + z1 ^ 2)) * (m2 ^ 2 + (x2 ^ 2 + y2 ^ 2 + z2 ^ 2)) := by
    nlinarith [sq_nonneg (x1 * y2 - x2 * y1), sq_nonneg (x1 * z2 - x2 * z1), sq_nonneg (y1 * z2 - y2 * z1),
      sq_nonneg (m1 * m2), sq_nonneg (m1 * x2), sq_nonneg (m1 * y2), sq_nonneg (m1 * z2),
      sq_nonneg (m2 * x1), sq_nonneg (m2 * y1), sq_nonneg (m2 * z1)]
  have hdot : x1 * x2 + y1 * y2 + z1 * z2 ≤
      Real.sqrt (m1 ^ 2 + (x1 ^ 2 + y1 ^ 2 + z1 ^ 2)) * Real.sqrt (m2 ^ 2 + (x2 ^ 2 + y2 ^ 2 + z2 ^ 2)) := by
    rw [← Real.sqrt_mul (by positivity)]
    exact (le_abs_self _).trans (Real.abs_le_sqrt hcs)
  nlinarith [sq_nonneg m1, sq_nonneg m2]

/-- Cartesian `(x, y, z, τ) + (x, y, z, τ)`: agreement needs only the two canonical-τ hypotheses. -/
theorem c08_lorentz_add_cartesian_tau (x1 y1 z1 tau1 x2 y2 z2 tau2 : ℝ) (h1 : 0 ≤ tau1) (h2 : 0 ≤ tau2) :
    VS.lorentz_add.eval .xy .z .tau .xy .z .tau x1 y1 z1 tau1 x2 y2 z2 tau2 =
      VR.lorentz_add.eval .xy .z .tau .xy .z .tau x1 y1 z1 tau1 x2 y2 z2 tau2 := by
  refine c08_lorentz_add .xy .z .tau .xy .z .tau x1 y1 z1 tau1 x2 y2 z2 tau2 h1 h2 (fun _ _ => ?_)
  have hs : 0 ≤ VR.lorentz_tau2.xy_z_t (x1 + x2) (y1 + y2) (z1 + z2)
      (VR.lorentz_t.xy_z_tau x1 y1 z1 tau1 + VR.lorentz_t.xy_z_tau x2 y2 z2 tau2) := by
    rw [c08_t_xy_z_tau _ _ _ _ h1, c08_t_xy_z_tau _ _ _ _ h2]
    simp only [VR.lorentz_tau2.xy_z_t, VR.spatial_mag2.xy_z]
    linarith [c08_triangle x1 y1 z1 tau1 x2 y2 z2 tau2]
  simp only [VR.lorentz_add.eval, VR.lorentz_add.k_xy_z_tau_xy_z_tau, VR.spatial_add.xy_z_xy_z, VR.lorentz_tau.xy_z_t]
  rw [c08_copysign_sqrt_abs hs]; exact Real.sqrt_nonneg _

/-! ## the hypotheses are satisfiable -/

example : CanonTmp .tau 1 ∧ CanonTmp .t (-3) := ⟨by simp [CanonTmp], trivial⟩
/-- a timelike `(x,y,z,t)` vector satisfies the hypothesis of `c08_lorentz_tau` / `c08_lorentz_gamma` -/
example : 0 ≤ VR.lorentz_tau2.eval .xy .z .t 1 0 0 2 := by
  simp only [VR.lorentz_tau2.eval, VR.lorentz_tau2.xy_z_t, VR.spatial_mag2.xy_z]; norm_num
example : 0 ≤ VR.lorentz_tau2.eval .rhophi .eta .tau 1 0 0 2 := by
  simp only [VR.lorentz_tau2.eval, VR.lorentz_tau2.rhophi_eta_tau]; rw [c08_copysign_sq (by norm_num)]; norm_num
/-- the clamp hypothesis of `c08_spatial_deltaangle` at two orthogonal unit vectors -/
example : -1 ≤ VR.spatial_dot.eval .xy .z .xy .z 1 0 0 0 1 0 / VR.spatial_mag.eval .xy .z 1 0 0 / VR.spatial_mag.eval .xy .z 0 1 0 ∧
    VR.spatial_dot.eval .xy .z .xy .z 1 0 0 0 1 0 / VR.spatial_mag.eval .xy .z 1 0 0 / VR.spatial_mag.eval .xy .z 0 1 0 ≤ 1 := by
  simp only [VR.spatial_dot.eval, VR.spatial_dot.xy_z_xy_z]; norm_num
/-- the hypotheses of `c08_lorentz_add` (both operands τ-typed) at two particles at rest -/
example : CanonTmp .tau 1 ∧ CanonTmp .tau 2 ∧ 0 ≤ (VR.lorentz_add.eval .xy .z .tau .xy .z .tau 0 0 0 1 0 0 0 2).2.2.2 := by
  refine ⟨by simp [CanonTmp], by simp [CanonTmp], ?_⟩
  rw [← c08_lorentz_add_cartesian_tau 0 0 0 1 0 0 0 2 (by norm_num) (by norm_num)]
  simp only [VS.lorentz_add.eval, VS.lorentz_add.k_xy_z_tau_xy_z_tau, VS.lorentz_tau.xy_z_t]; exact Real.sqrt_nonneg _
/-- boosts by gamma: `0 ≤ gamma` -/
example : (0:ℝ) ≤ 2 ∧ CanonTmp .t 5 := ⟨by norm_num, trivial⟩

/-! ## the hypotheses are needed (the symbolic backend's documented limitation, not a defect) -/

/-- negative τ: the numeric `tau2` carries the sign of τ (`copysign(τ², τ) = -1`), the symbolic expression is `τ² = 1`. -/
example : VS.lorentz_tau2.xy_z_tau 0 0 0 (-1) ≠ VR.lorentz_tau2.xy_z_tau 0 0 0 (-1) := by
  simp only [VS.lorentz_tau2.xy_z_tau, VR.lorentz_tau2.xy_z_tau, VR.P.copysign]; norm_num

/-- negative τ: the numeric `t2` is clamped at 0, the symbolic one is `τ² + |p|² = 1`. -/
example : VS.lorentz_t2.xy_z_tau 0 0 0 (-1) ≠ VR.lorentz_t2.xy_z_tau 0 0 0 (-1) := by
  simp only [VS.lorentz_t2.xy_z_tau, VR.lorentz_t2.xy_z_tau, VS.lorentz_tau2.xy_z_tau, VR.lorentz_tau2.xy_z_tau,
    VS.spatial_mag2.xy_z, VR.spatial_mag2.xy_z, VR.P.copysign]; norm_num

/-- spacelike `(1,0,0,0)`: the numeric `tau` is `-√|t²-|p|²| = -1`, the symbolic one is `+1`. -/
example : VS.lorentz_tau.xy_z_t 1 0 0 0 ≠ VR.lorentz_tau.xy_z_t 1 0 0 0 := by
  simp only [VS.lorentz_tau.xy_z_t, VR.lorentz_tau.xy_z_t, VS.lorentz_tau2.xy_z_t, VR.lorentz_tau2.xy_z_t,
    VS.spatial_mag2.xy_z, VR.spatial_mag2.xy_z, VR.P.copysign]; norm_num

/-- negative gamma: the numeric boost flips the direction (`copysign(√(γ²-1), γ)`), the symbolic one does not. -/
example : (VS.lorentz_boostX_gamma.xy_z_t (-3) 0 0 0 1).1 ≠ (VR.lorentz_boostX_gamma.xy_z_t (-3) 0 0 0 1).1 := by
  simp only [VS.lorentz_boostX_gamma.xy_z_t, VR.lorentz_boostX_gamma.xy_z_t, VS.planar_x.xy, VR.planar_x.xy, VR.P.copysign]
  have h : 0 < Real.sqrt (|(-3:ℝ)| ^ 2 - 1) := Real.sqrt_pos.mpr (by norm_num)
  rw [if_neg (by norm_num), abs_of_pos h]
  intro he; linarith

end VR
