/-
C05 — result backend, flavor, dimension and coordinate system follow the stated rules.
Theorems about the hand-written executable glue model (`Glue/Core.lean`, `Glue/Methods.lean`) and the generated
dispatch tables (`Gen/Tables.lean`), for every scalar type `S`, truth type `B` and compute layer `ev`.

Sections:
1. `handlerOf` — first operand of maximal backend priority.
3. `wrapVec` / `_wrap_result` — dimension and coordinate system per declared result shape; `PartsWF`, `resultDim`.
2. `dispatch` — inversion lemmas; backend = handler's, flavor = OR of the counted operands.
5. generated tables — `allKeys`, totality and exactness (`decide +kernel`), well-formed declared results.
4. dimension guards of `binary` and of `rotate_axis`.
6. operators are their methods.
+  coordinate system depends only on operand types (`c05_dispatch_type_only`, under `EvTables`),
   documented dimension method by method (`c05_binary_dim`, `c05_scaleN_dim`, `c05_to_beta3_dim`, `c05_toDim_dim`, …),
   every method is defined for every coordinate system (`c05_dispatch_defined`, under `EvTotal`),
   and proofs that the generated executable compute layer satisfies `EvTables` and `EvTotal`.
-/
import VectorModel.Glue.Methods
import VectorModel.Gen.Exec.All
import Lean.Elab.Tactic

set_option linter.constructorNameAsVariable false
set_option linter.unusedVariables false
namespace VG
open VK

section
variable {S B : Type}

/-! ### 1. `handlerOf`: the first operand of maximal backend priority -/

/-- the folding step of `handlerOf` -/
private def hstep (h : Option (Vec S)) (v : Vec S) : Option (Vec S) :=
  match h with
  | none => some v
  | some h => if v.ty.be.prio > h.ty.be.prio then some v else some h

private theorem handlerOf_eq (vs : List (Vec S)) : handlerOf vs = vs.foldl hstep none := rfl

private theorem hfold_some (vs : List (Vec S)) : ∀ h0 : Vec S, ∃ h, vs.foldl hstep (some h0) = some h ∧
    ((h = h0 ∧ ∀ v ∈ vs, v.ty.be.prio ≤ h0.ty.be.prio) ∨
     (∃ pre post, vs = pre ++ h :: post ∧ h0.ty.be.prio < h.ty.be.prio ∧
        (∀ v ∈ pre, v.ty.be.prio < h.ty.be.prio) ∧ (∀ v ∈ post, v.ty.be.prio ≤ h.ty.be.prio))) := by
  induction vs with
  | nil => intro h0; exact ⟨h0, rfl, Or.inl ⟨rfl, by simp⟩⟩
  | cons v vs ih =>
    intro h0
    by_cases hv : v.ty.be.prio > h0.ty.be.prio
    · have e : hstep (some h0) v = some v := by simp [hstep, hv]
      obtain ⟨h, hh, hc⟩ := ih v
      refine ⟨h, by rw [List.foldl_cons, e, hh], Or.inr ?_⟩
      rcases hc with ⟨rfl, hle⟩ | ⟨pre, post, rfl, hlt, hpre, hpost⟩
      · exact ⟨[], vs, rfl, hv, by simp, hle⟩
      · refine ⟨v :: pre, post, rfl, by omega, ?_, hpost⟩
        intro w hw
        rcases List.mem_cons.mp hw with rfl | hw
        · exact hlt
        · exact hpre w hw
    · have e : hstep (some h0) v = some h0 := by simp [hstep, hv]
      obtain ⟨h, hh, hc⟩ := ih h0
      refine ⟨h, by rw [List.foldl_cons, e, hh], ?_⟩
      rcases hc with ⟨rfl, hle⟩ | ⟨pre, post, rfl, hlt, hpre, hpost⟩
      · refine Or.inl ⟨rfl, ?_⟩
        intro w hw
        rcases List.mem_cons.mp hw with rfl | hw
        · omega
        · exact hle w hw
      · refine Or.inr ⟨v :: pre, post, rfl, hlt, ?_, hpost⟩
        intro w hw
        rcases List.mem_cons.mp hw with rfl | hw
        · omega
        · exact hpre w hw

/-- `handlerOf` of the empty list is undefined. -/
theorem c05_handlerOf_nil : handlerOf ([] : List (Vec S)) = none := rfl

/-- Main characterisation: for a non-empty operand list the handler exists and splits the list as
`pre ++ h :: post` with every earlier operand of STRICTLY lower priority and every later one of at most its priority,
i.e. it is the first operand of maximal backend priority. -/
theorem c05_handlerOf_first (vs : List (Vec S)) (hne : vs ≠ []) :
    ∃ h pre post, handlerOf vs = some h ∧ vs = pre ++ h :: post ∧
      (∀ v ∈ pre, v.ty.be.prio < h.ty.be.prio) ∧ (∀ v ∈ post, v.ty.be.prio ≤ h.ty.be.prio) := by
  cases vs with
  | nil => exact absurd rfl hne
  | cons v vs =>
    obtain ⟨h, hh, hc⟩ := hfold_some vs v
    have e : handlerOf (v :: vs) = some h := by
      rw [handlerOf_eq, List.foldl_cons]; exact hh
    rcases hc with ⟨rfl, hle⟩ | ⟨pre, post, rfl, hlt, hpre, hpost⟩
    · exact ⟨h, [], vs, e, rfl, by simp, hle⟩
    · refine ⟨h, v :: pre, post, e, rfl, ?_, hpost⟩
      intro w hw
      rcases List.mem_cons.mp hw with rfl | hw
      · exact hlt
      · exact hpre w hw

/-- the handler of a non-empty list exists -/
theorem c05_handlerOf_isSome (vs : List (Vec S)) (hne : vs ≠ []) : ∃ h, handlerOf vs = some h := by
  obtain ⟨h, _, _, e, _⟩ := c05_handlerOf_first vs hne
  exact ⟨h, e⟩

/-- the handler is one of the operands -/
theorem c05_handlerOf_mem (vs : List (Vec S)) (h : Vec S) (e : handlerOf vs = some h) : h ∈ vs := by
  have hne : vs ≠ [] := by rintro rfl; simp [c05_handlerOf_nil] at e
  obtain ⟨h', pre, post, e', hs, _, _⟩ := c05_handlerOf_first vs hne
  rw [e] at e'; cases e'
  rw [hs]; simp

/-- the handler has maximal backend priority among the operands -/
theorem c05_handlerOf_max (vs : List (Vec S)) (h : Vec S) (e : handlerOf vs = some h) :
    ∀ v ∈ vs, v.ty.be.prio ≤ h.ty.be.prio := by
  have hne : vs ≠ [] := by rintro rfl; simp [c05_handlerOf_nil] at e
  obtain ⟨h', pre, post, e', hs, hpre, hpost⟩ := c05_handlerOf_first vs hne
  rw [e] at e'; cases e'
  intro v hv
  rw [hs] at hv
  rcases List.mem_append.mp hv with hv | hv
  · exact Nat.le_of_lt (hpre v hv)
  · rcases List.mem_cons.mp hv with rfl | hv
    · exact Nat.le_refl _
    · exact hpost v hv

/-- the handler is the FIRST operand of maximal priority: every operand before it has strictly lower priority -/
theorem c05_handlerOf_is_first (vs : List (Vec S)) (h : Vec S) (e : handlerOf vs = some h) :
    ∃ pre post, vs = pre ++ h :: post ∧ ∀ v ∈ pre, v.ty.be.prio < h.ty.be.prio := by
  have hne : vs ≠ [] := by rintro rfl; simp [c05_handlerOf_nil] at e
  obtain ⟨h', pre, post, e', hs, hpre, _⟩ := c05_handlerOf_first vs hne
  rw [e] at e'; cases e'
  exact ⟨pre, post, hs, hpre⟩

/-- the priorities are those of the property text: object < NumPy < (SymPy <) Awkward -/
theorem c05_prio_order : Backend.obj.prio < Backend.np.prio ∧ Backend.np.prio < Backend.sym.prio ∧
    Backend.sym.prio < Backend.ak.prio := by decide

/-- priorities identify backends, so "maximal priority" determines the result backend -/
theorem c05_prio_injective (a b : Backend) (h : a.prio = b.prio) : a = b := by
  cases a <;> cases b <;> first | rfl | (exact absurd h (by decide))

/-- backend of the handler of two operands: the higher of the two, the first on a tie -/
theorem c05_handlerOf_pair (a b : Vec S) :
    handlerOf [a, b] = some (if b.ty.be.prio > a.ty.be.prio then b else a) := by
  simp only [handlerOf, List.foldl_cons, List.foldl_nil]
  split <;> rfl

example : handlerOf [(⟨{ be := .obj, mom := false, az := .xy, lon := none, tmp := none }, [1, 2]⟩ : Vec Nat),
    ⟨{ be := .ak, mom := true, az := .xy, lon := none, tmp := none }, [3, 4]⟩,
    ⟨{ be := .ak, mom := false, az := .rhophi, lon := none, tmp := none }, [5, 6]⟩]
    = some ⟨{ be := .ak, mom := true, az := .xy, lon := none, tmp := none }, [3, 4]⟩ := rfl

/-! ### 3. `_wrap_result`: dimension and coordinate system of the result -/

/-- `[az]` declared: same dimension as `self`, azimuthal system as declared, `self`'s longitudinal/temporal systems and
stored coordinates passed through -/
theorem c05_wrapVec_az (self : Vec S) (be : Backend) (mom : Bool) (raw : List S) (a : Az) :
    wrapVec self be mom raw [.az a] =
      .ok ⟨{ be, mom, az := a, lon := self.ty.lon, tmp := self.ty.tmp }, raw.take 2 ++ self.lonEl ++ self.tmpEl⟩ := rfl

theorem c05_wrapVec_az_dim (self r : Vec S) (be : Backend) (mom : Bool) (raw : List S) (a : Az)
    (h : wrapVec self be mom raw [.az a] = .ok r) :
    r.ty.dim = self.ty.dim ∧ r.ty.az = a ∧ r.ty.lon = self.ty.lon ∧ r.ty.tmp = self.ty.tmp := by
  rw [c05_wrapVec_az] at h; cases h; exact ⟨rfl, rfl, rfl, rfl⟩

/-- `[az, None]` declared: 2D -/
theorem c05_wrapVec_az_none (self : Vec S) (be : Backend) (mom : Bool) (raw : List S) (a : Az) :
    wrapVec self be mom raw [.az a, .none] = .ok ⟨{ be, mom, az := a, lon := none, tmp := none }, raw.take 2⟩ := rfl

theorem c05_wrapVec_az_none_dim (self r : Vec S) (be : Backend) (mom : Bool) (raw : List S) (a : Az)
    (h : wrapVec self be mom raw [.az a, .none] = .ok r) :
    r.ty.dim = 2 ∧ r.ty.az = a ∧ r.ty.lon = none ∧ r.ty.tmp = none := by
  rw [c05_wrapVec_az_none] at h; cases h; exact ⟨rfl, rfl, rfl, rfl⟩

private theorem dim_eq_four (t : VT) : t.dim = 4 ↔ (t.lon.isSome ∧ t.tmp.isSome) := by
  unfold VT.dim
  cases t.lon <;> cases t.tmp <;> simp

private theorem dim_eq_three (t : VT) : t.dim = 3 ↔ (t.lon.isSome ≠ t.tmp.isSome) := by
  unfold VT.dim
  cases t.lon <;> cases t.tmp <;> simp

private theorem dim_eq_two (t : VT) : t.dim = 2 ↔ (t.lon = none ∧ t.tmp = none) := by
  unfold VT.dim
  cases t.lon <;> cases t.tmp <;> simp

/-- every vector type has dimension 2, 3 or 4 -/
theorem c05_dim_range (t : VT) : t.dim = 2 ∨ t.dim = 3 ∨ t.dim = 4 := by
  unfold VT.dim
  cases t.lon <;> cases t.tmp <;> simp

/-- `[az, lon]` declared, `self` 4D: 4D, keeping `self`'s temporal system and stored coordinate -/
theorem c05_wrapVec_az_lon_4D (self : Vec S) (be : Backend) (mom : Bool) (raw : List S) (a : Az) (l : Lon)
    (hd : self.ty.dim = 4) :
    wrapVec self be mom raw [.az a, .lon l] =
      .ok ⟨{ be, mom, az := a, lon := some l, tmp := self.ty.tmp }, raw.take 3 ++ self.tmpEl⟩ := by
  simp [wrapVec, hd]

/-- `[az, lon]` declared, `self` not 4D: 3D -/
theorem c05_wrapVec_az_lon_3D (self : Vec S) (be : Backend) (mom : Bool) (raw : List S) (a : Az) (l : Lon)
    (hd : self.ty.dim ≠ 4) :
    wrapVec self be mom raw [.az a, .lon l] = .ok ⟨{ be, mom, az := a, lon := some l, tmp := none }, raw.take 3⟩ := by
  simp [wrapVec, hd]

theorem c05_wrapVec_az_lon_dim (self r : Vec S) (be : Backend) (mom : Bool) (raw : List S) (a : Az) (l : Lon)
    (h : wrapVec self be mom raw [.az a, .lon l] = .ok r) :
    r.ty.dim = (if self.ty.dim = 4 then 4 else 3) ∧ r.ty.az = a ∧ r.ty.lon = some l ∧
      r.ty.tmp = (if self.ty.dim = 4 then self.ty.tmp else none) := by
  by_cases hd : self.ty.dim = 4
  · rw [c05_wrapVec_az_lon_4D self be mom raw a l hd] at h; cases h
    have := (dim_eq_four self.ty).mp hd
    rw [if_pos hd, if_pos hd]
    refine ⟨?_, rfl, rfl, rfl⟩
    rw [dim_eq_four]; exact ⟨rfl, this.2⟩
  · rw [c05_wrapVec_az_lon_3D self be mom raw a l hd] at h; cases h
    rw [if_neg hd, if_neg hd]
    exact ⟨rfl, rfl, rfl, rfl⟩

/-- `[az, lon, None]` declared: 3D -/
theorem c05_wrapVec_az_lon_none (self : Vec S) (be : Backend) (mom : Bool) (raw : List S) (a : Az) (l : Lon) :
    wrapVec self be mom raw [.az a, .lon l, .none] =
      .ok ⟨{ be, mom, az := a, lon := some l, tmp := none }, raw.take 3⟩ := rfl

theorem c05_wrapVec_az_lon_none_dim (self r : Vec S) (be : Backend) (mom : Bool) (raw : List S) (a : Az) (l : Lon)
    (h : wrapVec self be mom raw [.az a, .lon l, .none] = .ok r) :
    r.ty.dim = 3 ∧ r.ty.az = a ∧ r.ty.lon = some l ∧ r.ty.tmp = none := by
  rw [c05_wrapVec_az_lon_none] at h; cases h; exact ⟨rfl, rfl, rfl, rfl⟩

/-- `[az, lon, tmp]` declared: 4D -/
theorem c05_wrapVec_az_lon_tmp (self : Vec S) (be : Backend) (mom : Bool) (raw : List S) (a : Az) (l : Lon) (t : Tmp) :
    wrapVec self be mom raw [.az a, .lon l, .tmp t] =
      .ok ⟨{ be, mom, az := a, lon := some l, tmp := some t }, raw.take 4⟩ := rfl

theorem c05_wrapVec_az_lon_tmp_dim (self r : Vec S) (be : Backend) (mom : Bool) (raw : List S) (a : Az) (l : Lon)
    (t : Tmp) (h : wrapVec self be mom raw [.az a, .lon l, .tmp t] = .ok r) :
    r.ty.dim = 4 ∧ r.ty.az = a ∧ r.ty.lon = some l ∧ r.ty.tmp = some t := by
  rw [c05_wrapVec_az_lon_tmp] at h; cases h; exact ⟨rfl, rfl, rfl, rfl⟩

/-- well-formed declared vector results: `az`, then optionally `lon`/`None`, then optionally `tmp`/`None` -/
def PartsWF : List RP → Bool
  | [.az _] => true
  | [.az _, .none] => true
  | [.az _, .lon _] => true
  | [.az _, .lon _, .none] => true
  | [.az _, .lon _, .tmp _] => true
  | _ => false

/-- well-formed declared results -/
def RetWF : Ret → Bool
  | .float => true
  | .bool => true
  | .vec parts => PartsWF parts

/-- `wrapVec` succeeds exactly on the well-formed declared results (otherwise it is an AssertionError) -/
theorem c05_wrapVec_ok_iff (self : Vec S) (be : Backend) (mom : Bool) (raw : List S) (parts : List RP) :
    (∃ r, wrapVec self be mom raw parts = .ok r) ↔ PartsWF parts = true := by
  unfold wrapVec PartsWF
  split <;> simp
  split <;> simp

theorem c05_wrapVec_error (self : Vec S) (be : Backend) (mom : Bool) (raw : List S) (parts : List RP)
    (h : PartsWF parts = false) : wrapVec self be mom raw parts = .error .assertionError := by
  unfold wrapVec
  unfold PartsWF at h
  split <;> simp_all

/-- the result type of `wrapVec` (class, flavor, coordinate systems, hence dimension) depends only on the declared result
and on the TYPE of `self` — not on any coordinate value -/
theorem c05_wrapVec_type_only (self self' r r' : Vec S) (be : Backend) (mom : Bool) (raw raw' : List S) (parts : List RP)
    (hty : self.ty = self'.ty) (h : wrapVec self be mom raw parts = .ok r) (h' : wrapVec self' be mom raw' parts = .ok r') :
    r.ty = r'.ty := by
  have hwf : PartsWF parts = true := (c05_wrapVec_ok_iff self be mom raw parts).mp ⟨r, h⟩
  unfold PartsWF at hwf
  split at hwf
  · rw [c05_wrapVec_az] at h h'; cases h; cases h'; simp [hty]
  · rw [c05_wrapVec_az_none] at h h'; cases h; cases h'; rfl
  · by_cases hd : self.ty.dim = 4
    · have hd' : self'.ty.dim = 4 := hty ▸ hd
      rw [c05_wrapVec_az_lon_4D _ _ _ _ _ _ hd] at h
      rw [c05_wrapVec_az_lon_4D _ _ _ _ _ _ hd'] at h'
      cases h; cases h'; simp [hty]
    · have hd' : self'.ty.dim ≠ 4 := hty ▸ hd
      rw [c05_wrapVec_az_lon_3D _ _ _ _ _ _ hd] at h
      rw [c05_wrapVec_az_lon_3D _ _ _ _ _ _ hd'] at h'
      cases h; cases h'; rfl
  · rw [c05_wrapVec_az_lon_none] at h h'; cases h; cases h'; rfl
  · rw [c05_wrapVec_az_lon_tmp] at h h'; cases h; cases h'; rfl
  · cases hwf

/-- backend and flavor of a wrapped vector are the ones passed in -/
theorem c05_wrapVec_be_mom (self r : Vec S) (be : Backend) (mom : Bool) (raw : List S) (parts : List RP)
    (h : wrapVec self be mom raw parts = .ok r) : r.ty.be = be ∧ r.ty.mom = mom := by
  unfold wrapVec at h
  split at h
  all_goals first
    | (cases h; exact ⟨rfl, rfl⟩)
    | (split at h <;> cases h <;> exact ⟨rfl, rfl⟩)
    | cases h

/-- the documented dimension rule: dimension of the result from the declared result and the dimension of `self` -/
def resultDim (parts : List RP) (selfDim : Nat) : Nat :=
  match parts with
  | [_] => selfDim
  | [_, .none] => 2
  | [_, _] => if selfDim = 4 then 4 else 3
  | [_, _, .none] => 3
  | _ => 4

/-- the dimension of a wrapped vector follows the documented rule -/
theorem c05_wrapVec_dim (self r : Vec S) (be : Backend) (mom : Bool) (raw : List S) (parts : List RP)
    (h : wrapVec self be mom raw parts = .ok r) : r.ty.dim = resultDim parts self.ty.dim := by
  have hwf : PartsWF parts = true := (c05_wrapVec_ok_iff self be mom raw parts).mp ⟨r, h⟩
  unfold PartsWF at hwf
  split at hwf
  · exact (c05_wrapVec_az_dim _ _ _ _ _ _ h).1
  · exact (c05_wrapVec_az_none_dim _ _ _ _ _ _ h).1
  · exact (c05_wrapVec_az_lon_dim _ _ _ _ _ _ _ h).1
  · exact (c05_wrapVec_az_lon_none_dim _ _ _ _ _ _ _ h).1
  · exact (c05_wrapVec_az_lon_tmp_dim _ _ _ _ _ _ _ _ h).1
  · cases hwf

/-! ### 2. `dispatch`: backend and flavor of the result -/

/-- inversion of `wrapResult`: a vector result comes from a declared `vec` result through `wrapVec`;
scalar / truth results are the raw value and carry no type at all -/
theorem c05_wrapResult_vec (self r : Vec S) (be : Backend) (mom : Bool) (out : Out S B) (ret : Ret)
    (h : wrapResult self be mom out ret = .ok (.vec r)) :
    ∃ raw parts, out = .vals raw ∧ ret = .vec parts ∧ wrapVec self be mom raw parts = .ok r := by
  unfold wrapResult at h
  split at h
  · cases h
  · cases h
  · rename_i parts raw
    refine ⟨raw, parts, rfl, rfl, ?_⟩
    cases hw : wrapVec self be mom raw parts with
    | error e => rw [hw] at h; cases h
    | ok v => rw [hw] at h; simp [Except.map] at h; rw [h]
  · cases h

theorem c05_wrapResult_scalar (self : Vec S) (be : Backend) (mom : Bool) (out : Out S B) (ret : Ret) (s : S)
    (h : wrapResult self be mom out ret = .ok (.scalar s)) : ret = .float ∧ out = .vals [s] := by
  unfold wrapResult at h
  split at h
  · cases h; exact ⟨rfl, rfl⟩
  · cases h
  · rename_i parts raw
    cases hw : wrapVec self be mom raw parts with
    | error e => rw [hw] at h; cases h
    | ok v => rw [hw] at h; simp [Except.map] at h
  · cases h

theorem c05_wrapResult_truth (self : Vec S) (be : Backend) (mom : Bool) (out : Out S B) (ret : Ret) (b : B)
    (h : wrapResult self be mom out ret = .ok (.truth b)) : ret = .bool ∧ out = .truth b := by
  unfold wrapResult at h
  split at h
  · cases h
  · cases h; exact ⟨rfl, rfl⟩
  · rename_i parts raw
    cases hw : wrapVec self be mom raw parts with
    | error e => rw [hw] at h; cases h
    | ok v => rw [hw] at h; simp [Except.map] at h
  · cases h

/-- inversion of `dispatch`: a successful dispatch evaluated the module on some key, found a handler among the counted
operands and wrapped the raw result with the handler's backend and the OR of the counted operands' flavors -/
theorem c05_dispatch_inv (ev : Ev S B) (m : ModuleId) (sc : List S) (ord : Option Ord) (ops counted : List (Vec S))
    (res : Res S B) (h : dispatch ev m sc ord ops counted = .ok res) :
    ∃ key args out ret hd, ev m key args = some (out, ret) ∧ handlerOf counted = some hd ∧
      wrapResult hd hd.ty.be (counted.any (·.ty.mom)) out ret = .ok res := by
  unfold dispatch at h
  simp only [] at h
  split at h
  · cases h
  · split at h
    · cases h
    · split at h
      · cases h
      · split at h
        · cases h
        · exact ⟨_, _, _, _, _, by assumption, by assumption, h⟩

/-- C05, backend and flavor: a vector result of `dispatch` has the backend of the handler of the counted operands and is a
momentum vector iff some counted operand is one -/
theorem c05_dispatch_be_mom (ev : Ev S B) (m : ModuleId) (sc : List S) (ord : Option Ord) (ops counted : List (Vec S))
    (r : Vec S) (h : dispatch ev m sc ord ops counted = .ok (.vec r)) :
    ∃ hd, handlerOf counted = some hd ∧ r.ty.be = hd.ty.be ∧ r.ty.mom = counted.any (·.ty.mom) := by
  obtain ⟨key, args, out, ret, hd, _, hh, hw⟩ := c05_dispatch_inv ev m sc ord ops counted _ h
  obtain ⟨raw, parts, _, _, hv⟩ := c05_wrapResult_vec _ _ _ _ _ _ hw
  obtain ⟨h1, h2⟩ := c05_wrapVec_be_mom _ _ _ _ _ _ hv
  exact ⟨hd, hh, h1, h2⟩

/-- … hence the result backend has maximal priority among the counted operands, and is the backend of one of them -/
theorem c05_dispatch_be_max (ev : Ev S B) (m : ModuleId) (sc : List S) (ord : Option Ord) (ops counted : List (Vec S))
    (r : Vec S) (h : dispatch ev m sc ord ops counted = .ok (.vec r)) :
    (∀ v ∈ counted, v.ty.be.prio ≤ r.ty.be.prio) ∧ (∃ v ∈ counted, r.ty.be = v.ty.be) := by
  obtain ⟨hd, hh, hbe, _⟩ := c05_dispatch_be_mom ev m sc ord ops counted r h
  rw [hbe]
  exact ⟨c05_handlerOf_max counted hd hh, hd, c05_handlerOf_mem counted hd hh, rfl⟩

/-- flavor, in words: momentum iff some counted operand is a momentum vector -/
theorem c05_dispatch_mom_iff (ev : Ev S B) (m : ModuleId) (sc : List S) (ord : Option Ord) (ops counted : List (Vec S))
    (r : Vec S) (h : dispatch ev m sc ord ops counted = .ok (.vec r)) :
    r.ty.mom = true ↔ ∃ v ∈ counted, v.ty.mom = true := by
  obtain ⟨hd, _, _, hm⟩ := c05_dispatch_be_mom ev m sc ord ops counted r h
  rw [hm, List.any_eq_true]

/-- the result type (class, flavor, coordinate systems) of a `dispatch` depends only on the declared result of the
evaluated entry and the handler's type -/
theorem c05_dispatch_dim (ev : Ev S B) (m : ModuleId) (sc : List S) (ord : Option Ord) (ops counted : List (Vec S))
    (r : Vec S) (h : dispatch ev m sc ord ops counted = .ok (.vec r)) :
    ∃ key args raw parts hd, ev m key args = some (.vals raw, .vec parts) ∧ handlerOf counted = some hd ∧
      PartsWF parts = true ∧ r.ty.dim = resultDim parts hd.ty.dim := by
  obtain ⟨key, args, out, ret, hd, hev, hh, hw⟩ := c05_dispatch_inv ev m sc ord ops counted _ h
  obtain ⟨raw, parts, rfl, rfl, hv⟩ := c05_wrapResult_vec _ _ _ _ _ _ hw
  exact ⟨key, args, raw, parts, hd, hev, hh, (c05_wrapVec_ok_iff _ _ _ _ _).mp ⟨r, hv⟩, c05_wrapVec_dim _ _ _ _ _ _ hv⟩

/-! ### 5. totality of the generated dispatch tables -/

/-- all atoms of one key slot -/
def slotAtoms : KS → List KA
  | .az => Az.all.map .az
  | .lon => Lon.all.map .lon
  | .tmp => Tmp.all.map .tmp
  | .ord => Ord.all.map .ord

/-- every key of the key type given by a shape -/
def allKeys : List KS → List (List KA)
  | [] => [[]]
  | s :: rest => (slotAtoms s).flatMap fun a => (allKeys rest).map (a :: ·)

/-- the atom `a` fits the slot `s` -/
def KA.fits : KA → KS → Bool
  | .az _, .az => true | .lon _, .lon => true | .tmp _, .tmp => true | .ord _, .ord => true
  | _, _ => false

/-- the key `k` has the key type `shape` -/
def keyFits : List KA → List KS → Bool
  | [], [] => true
  | a :: k, s :: shape => KA.fits a s && keyFits k shape
  | _, _ => false

private theorem mem_slotAtoms (a : KA) (s : KS) (h : KA.fits a s = true) : a ∈ slotAtoms s := by
  cases a <;> cases s <;> simp [KA.fits] at h <;> rename_i c <;> cases c <;> decide

/-- `allKeys` is complete: it contains every key of the key type -/
theorem c05_allKeys_complete (shape : List KS) : ∀ k : List KA, keyFits k shape = true → k ∈ allKeys shape := by
  induction shape with
  | nil => intro k h; cases k <;> simp [keyFits, allKeys] at h ⊢
  | cons s rest ih =>
    intro k h
    cases k with
    | nil => simp [keyFits] at h
    | cons a k =>
      simp only [keyFits, Bool.and_eq_true] at h
      simp only [allKeys, List.mem_flatMap, List.mem_map]
      exact ⟨a, mem_slotAtoms a s h.1, k, ih k h.2, rfl⟩

/-- … and sound: it contains only keys of the key type -/
theorem c05_allKeys_sound (shape : List KS) : ∀ k ∈ allKeys shape, keyFits k shape = true := by
  induction shape with
  | nil => intro k h; simp [allKeys] at h; subst h; rfl
  | cons s rest ih =>
    intro k h
    simp only [allKeys, List.mem_flatMap, List.mem_map] at h
    obtain ⟨a, ha, k', hk', rfl⟩ := h
    simp only [keyFits, Bool.and_eq_true]
    refine ⟨?_, ih k' hk'⟩
    cases s <;> simp only [slotAtoms, List.mem_map] at ha <;> obtain ⟨c, _, rfl⟩ := ha <;> rfl

/-- declared result of key `k` in module `m`, if the key is present -/
def declared (m : ModuleId) (k : List KA) : Option Ret := m.table.lookup k

/-- module `m` is total: every key of its key type is present, with a well-formed declared result -/
def totalOn (m : ModuleId) : Bool :=
  (allKeys m.info.shape).all fun k => match declared m k with
    | some r => RetWF r
    | none => false

set_option maxRecDepth 100000 in
theorem c05_tables_total_bool : ∀ m : ModuleId, totalOn m = true := by
  intro m
  cases m <;> decide +kernel

private theorem lookup_mem {α β : Type} [BEq α] [LawfulBEq α] (k : α) (r : β) :
    ∀ l : List (α × β), l.lookup k = some r → (k, r) ∈ l := by
  intro l
  induction l with
  | nil => intro h; simp [List.lookup] at h
  | cons p l ih =>
    intro h
    obtain ⟨k', r'⟩ := p
    by_cases hk : k == k'
    · simp only [List.lookup, hk] at h
      have : k = k' := eq_of_beq hk
      cases h; subst this; exact List.mem_cons_self
    · have hk' : (k == k') = false := by simpa using hk
      simp only [List.lookup, hk'] at h
      exact List.mem_cons_of_mem _ (ih h)

/-- C05, "every method is defined for every coordinate system of its operands", on the generated tables: for EVERY
module and EVERY key of the module's key type the key is present in the dispatch table, and the declared result is
well formed (`float`, `bool`, or a vector `az [, lon|None [, tmp|None]]`). -/
theorem c05_tables_total (m : ModuleId) (k : List KA) (hk : keyFits k m.info.shape = true) :
    ∃ r, declared m k = some r ∧ (k, r) ∈ m.table ∧ RetWF r = true := by
  have ht := c05_tables_total_bool m
  have hmem := c05_allKeys_complete m.info.shape k hk
  have := List.all_eq_true.mp ht k hmem
  cases hd : declared m k with
  | none => rw [hd] at this; cases this
  | some r =>
    rw [hd] at this
    exact ⟨r, rfl, lookup_mem k r m.table hd, this⟩

/-- the tables contain nothing else: every key of a table is a key of the module's key type, and no key occurs twice
(so the table has exactly one entry per key of the key type) -/
theorem c05_tables_exact : ∀ m : ModuleId,
    (∀ e ∈ m.table, keyFits e.1 m.info.shape = true) ∧ (m.table.map (·.1)).Nodup ∧
      m.table.length = (allKeys m.info.shape).length := by
  intro m
  cases m <;> decide +kernel

/-! ### 4. dimension guards of the binary methods -/

/-- the binary methods that require operands of equal dimension -/
def Bin.sameDim : Bin → Bool
  | .add | .subtract | .dot | .equal | .not_equal | .isclose | .is_parallel | .is_antiparallel | .is_perpendicular => true
  | _ => false

/-- add, subtract, dot, equal, not_equal, isclose, is_parallel, is_antiparallel, is_perpendicular raise TypeError for
operands of different dimension -/
theorem c05_binary_sameDim_guard (ev : Ev S B) (K : Consts S) (b : Bin) (self o : Vec S) (extra : List S)
    (hb : b.sameDim = true) (hd : o.ty.dim ≠ self.ty.dim) : binary ev K b self o extra = .error .typeError := by
  cases b <;> simp [Bin.sameDim] at hb <;> simp [binary, hd]

/-- the same-dimension methods have a module for each of the dimensions 2, 3, 4 -/
theorem c05_sameDimMod_isSome (b : Bin) (hb : b.sameDim = true) (d : Nat) (hd : d = 2 ∨ d = 3 ∨ d = 4) :
    (b.sameDimMod d).isSome = true := by
  rcases hd with rfl | rfl | rfl <;> cases b <;> simp [Bin.sameDim] at hb <;> rfl

/-- scalar arguments of the same-dimension methods: none, the tolerance, or `rtol, atol, equal_nan` (defaults unless given) -/
def Bin.scalars (K : Consts S) (b : Bin) (extra : List S) : List S :=
  match b with
  | .isclose => if extra.isEmpty then [K.rtol, K.atol, K.bFalse] else extra
  | .is_parallel | .is_antiparallel | .is_perpendicular => if extra.isEmpty then [K.tol] else extra
  | _ => []

/-- … and for operands of equal dimension they dispatch to the module of that dimension on `[self, o]`, both counted
for handler and flavor -/
theorem c05_binary_sameDim_ok (ev : Ev S B) (K : Consts S) (b : Bin) (self o : Vec S) (extra : List S)
    (hb : b.sameDim = true) (hd : o.ty.dim = self.ty.dim) :
    ∃ m, b.sameDimMod self.ty.dim = some m ∧
      binary ev K b self o extra = dispatch ev m (b.scalars K extra) none [self, o] [self, o] := by
  have hs := c05_sameDimMod_isSome b hb self.ty.dim (c05_dim_range self.ty)
  obtain ⟨m, hm⟩ := Option.isSome_iff_exists.mp hs
  refine ⟨m, hm, ?_⟩
  cases b <;> simp [Bin.sameDim] at hb <;> simp [binary, hd, hm, Bin.scalars]

/-- `cross` is a method of 3D (and 4D) vectors only, and raises TypeError unless both operands are 3D -/
theorem c05_cross_guard (ev : Ev S B) (K : Consts S) (self o : Vec S) (extra : List S)
    (hd : self.ty.dim ≠ 3 ∨ o.ty.dim ≠ 3) :
    binary ev K .cross self o extra = .error (if self.ty.dim < 3 then .attributeError else .typeError) := by
  by_cases h2 : self.ty.dim < 3
  · simp [binary, h2]
  · rcases hd with hd | hd <;> simp [binary, h2, hd]

theorem c05_cross_ok (ev : Ev S B) (K : Consts S) (self o : Vec S) (extra : List S)
    (h1 : self.ty.dim = 3) (h2 : o.ty.dim = 3) :
    binary ev K .cross self o extra = dispatch ev .spatial_cross [] none [self, o] [self, o] := by
  simp [binary, h1, h2]

/-- the boosts are methods of 4D vectors only -/
theorem c05_boost_needs_4D (ev : Ev S B) (K : Consts S) (b : Bin) (self o : Vec S) (extra : List S)
    (hb : b = .boost_p4 ∨ b = .boost_beta3 ∨ b = .boost ∨ b = .boostCM_of_p4 ∨ b = .boostCM_of_beta3 ∨ b = .boostCM_of)
    (hd : self.ty.dim < 4) : binary ev K b self o extra = .error .attributeError := by
  rcases hb with rfl | rfl | rfl | rfl | rfl | rfl <;> simp [binary, hd]

/-- `boost_p4` needs a 4D booster -/
theorem c05_boost_p4_guard (ev : Ev S B) (K : Consts S) (self o : Vec S) (extra : List S)
    (hs : self.ty.dim = 4) (hd : o.ty.dim ≠ 4) : binary ev K .boost_p4 self o extra = .error .typeError := by
  simp [binary, hs, hd]

theorem c05_boost_p4_ok (ev : Ev S B) (K : Consts S) (self o : Vec S) (extra : List S)
    (hs : self.ty.dim = 4) (hd : o.ty.dim = 4) :
    binary ev K .boost_p4 self o extra = dispatch ev .lorentz_boost_p4 [] none [self, o] [self, o] := by
  simp [binary, hs, hd]

/-- `boost_beta3` needs a 3D booster -/
theorem c05_boost_beta3_guard (ev : Ev S B) (K : Consts S) (self o : Vec S) (extra : List S)
    (hs : self.ty.dim = 4) (hd : o.ty.dim ≠ 3) : binary ev K .boost_beta3 self o extra = .error .typeError := by
  simp [binary, hs, hd]

theorem c05_boost_beta3_ok (ev : Ev S B) (K : Consts S) (self o : Vec S) (extra : List S)
    (hs : self.ty.dim = 4) (hd : o.ty.dim = 3) :
    binary ev K .boost_beta3 self o extra = dispatch ev .lorentz_boost_beta3 [] none [self, o] [self, o] := by
  simp [binary, hs, hd]

/-- `boost` dispatches on the dimension of the booster: 3 ↦ `boost_beta3`, 4 ↦ `boost_p4`, anything else is a TypeError -/
theorem c05_boost_dispatch (ev : Ev S B) (K : Consts S) (self o : Vec S) (extra : List S) :
    binary ev K .boost self o extra =
      if o.ty.dim = 3 then binary ev K .boost_beta3 self o extra
      else if o.ty.dim = 4 then binary ev K .boost_p4 self o extra
      else if self.ty.dim < 4 then .error .attributeError else .error .typeError := by
  by_cases hs : self.ty.dim < 4
  · simp [binary, hs]
  · by_cases h3 : o.ty.dim = 3
    · simp [binary, hs, h3]
    · by_cases h4 : o.ty.dim = 4
      · simp [binary, hs, h4]
      · simp [binary, hs, h3, h4]

theorem c05_boost_guard (ev : Ev S B) (K : Consts S) (self o : Vec S) (extra : List S)
    (hs : self.ty.dim = 4) (hd : o.ty.dim = 2) : binary ev K .boost self o extra = .error .typeError := by
  simp [binary, hs, hd]

/-- `boostCM_of_p4` needs a 4D operand, `boostCM_of_beta3` a 3D one -/
theorem c05_boostCM_of_p4_guard (ev : Ev S B) (K : Consts S) (self o : Vec S) (extra : List S)
    (hs : self.ty.dim = 4) (hd : o.ty.dim ≠ 4) : binary ev K .boostCM_of_p4 self o extra = .error .typeError := by
  have : ¬ (4 = o.ty.dim) := fun h => hd h.symm
  simp [binary, hs, this]

theorem c05_boostCM_of_beta3_guard (ev : Ev S B) (K : Consts S) (self o : Vec S) (extra : List S)
    (hs : self.ty.dim = 4) (hd : o.ty.dim ≠ 3) : binary ev K .boostCM_of_beta3 self o extra = .error .typeError := by
  have : ¬ (3 = o.ty.dim) := fun h => hd h.symm
  simp [binary, hs, this]

/-- `boostCM_of` dispatches on the dimension of its operand like `boost` -/
theorem c05_boostCM_of_dispatch (ev : Ev S B) (K : Consts S) (self o : Vec S) (extra : List S) :
    binary ev K .boostCM_of self o extra =
      if o.ty.dim = 3 then binary ev K .boostCM_of_beta3 self o extra
      else if o.ty.dim = 4 then binary ev K .boostCM_of_p4 self o extra
      else if self.ty.dim < 4 then .error .attributeError else .error .typeError := by
  by_cases hs : self.ty.dim < 4
  · simp [binary, hs]
  · by_cases h3 : o.ty.dim = 3
    · simp [binary, hs, h3]
    · by_cases h4 : o.ty.dim = 4
      · simp [binary, hs, h4]
      · simp [binary, hs, h3, h4]

/-- `boostCM_of*` boosts by the negated (spatial part of the) operand, with the module of the operand's dimension -/
theorem c05_boostCM_of_ok (ev : Ev S B) (K : Consts S) (b : Bin) (self o n : Vec S) (extra : List S)
    (hb : b = .boostCM_of_p4 ∧ o.ty.dim = 4 ∨ b = .boostCM_of_beta3 ∧ o.ty.dim = 3 ∨
          b = .boostCM_of ∧ (o.ty.dim = 3 ∨ o.ty.dim = 4))
    (hs : self.ty.dim = 4) (hn : negN ev K 3 o = .ok (.vec n)) :
    binary ev K b self o extra =
      dispatch ev (if o.ty.dim = 4 then .lorentz_boost_p4 else .lorentz_boost_beta3) [] none [self, n] [self, n] := by
  rcases hb with ⟨rfl, h⟩ | ⟨rfl, h⟩ | ⟨rfl, h | h⟩ <;> simp [binary, hs, h, hn]

/-- `rotate_axis`: an axis of dimension ≠ 3 is a TypeError; the axis is a secondary argument — it is passed to the
compute function but only `self` counts for handler and flavor -/
theorem c05_call_rotate_axis (ev : Ev S B) (K : Consts S) (A : Arith S) (self axis : Vec S) (a : S) :
    call ev K A "rotate_axis" self [.v axis, .sc a] =
      if self.ty.dim < 3 then .error .attributeError else
      if axis.ty.dim != 3 then .error .typeError else dispatch ev .spatial_rotate_axis [a] none [axis, self] [self] := rfl

theorem c05_rotate_axis_guard (ev : Ev S B) (K : Consts S) (A : Arith S) (self axis : Vec S) (a : S)
    (hs : 3 ≤ self.ty.dim) (hd : axis.ty.dim ≠ 3) :
    call ev K A "rotate_axis" self [.v axis, .sc a] = .error .typeError := by
  rw [c05_call_rotate_axis]
  have : ¬ self.ty.dim < 3 := by omega
  simp [this, hd]

/-- hence the result of `rotate_axis` has the backend and flavor of `self`, whatever the axis is -/
theorem c05_rotate_axis_be_mom (ev : Ev S B) (K : Consts S) (A : Arith S) (self axis r : Vec S) (a : S)
    (h : call ev K A "rotate_axis" self [.v axis, .sc a] = .ok (.vec r)) :
    r.ty.be = self.ty.be ∧ r.ty.mom = self.ty.mom := by
  rw [c05_call_rotate_axis] at h
  split at h
  · cases h
  · split at h
    · cases h
    · obtain ⟨hd, hh, h1, h2⟩ := c05_dispatch_be_mom _ _ _ _ _ _ _ h
      have : hd = self := by
        have : handlerOf [self] = some self := rfl
        rw [this] at hh; cases hh; rfl
      subst this
      exact ⟨h1, by simpa using h2⟩

/-! ### 6. operators are their methods -/

theorem c05_op_add (ev : Ev S B) (K : Consts S) (A : Arith S) (self o : Vec S) :
    operator ev K A "add" self [.v o] = call ev K A "add" self [.v o] := rfl

theorem c05_op_sub (ev : Ev S B) (K : Consts S) (A : Arith S) (self o : Vec S) :
    operator ev K A "sub" self [.v o] = call ev K A "subtract" self [.v o] := rfl

theorem c05_op_matmul (ev : Ev S B) (K : Consts S) (A : Arith S) (self o : Vec S) :
    operator ev K A "matmul" self [.v o] = call ev K A "dot" self [.v o] := rfl

theorem c05_op_eq (ev : Ev S B) (K : Consts S) (A : Arith S) (self o : Vec S) :
    operator ev K A "eq" self [.v o] = call ev K A "equal" self [.v o] := rfl

theorem c05_op_ne (ev : Ev S B) (K : Consts S) (A : Arith S) (self o : Vec S) :
    operator ev K A "ne" self [.v o] = call ev K A "not_equal" self [.v o] := rfl

theorem c05_op_mul (ev : Ev S B) (K : Consts S) (A : Arith S) (self : Vec S) (f : S) :
    operator ev K A "mul" self [.sc f] = call ev K A "scale" self [.sc f] := rfl

theorem c05_op_rmul (ev : Ev S B) (K : Consts S) (A : Arith S) (self : Vec S) (f : S) :
    operator ev K A "rmul" self [.sc f] = call ev K A "scale" self [.sc f] := rfl

theorem c05_op_truediv (ev : Ev S B) (K : Consts S) (A : Arith S) (self : Vec S) (f : S) :
    operator ev K A "truediv" self [.sc f] = call ev K A "scale" self [.sc (A.inv f)] := rfl

theorem c05_op_neg (ev : Ev S B) (K : Consts S) (A : Arith S) (self : Vec S) :
    operator ev K A "neg" self [] = call ev K A "scale" self [.sc K.negOne] := rfl

/-- the generic accessor names are read through `getAcc` -/
theorem c05_call_acc (ev : Ev S B) (K : Consts S) (A : Arith S) (self : Vec S) :
    call ev K A "rho" self [] = getAcc ev .rho self ∧ call ev K A "mag" self [] = getAcc ev .mag self ∧
    call ev K A "tau" self [] = getAcc ev .tau self ∧ call ev K A "rho2" self [] = getAcc ev .rho2 self ∧
    call ev K A "mag2" self [] = getAcc ev .mag2 self ∧ call ev K A "tau2" self [] = getAcc ev .tau2 self :=
  ⟨rfl, rfl, rfl, rfl, rfl, rfl⟩

/-- `abs(v)` is `rho`, `mag` or `tau` by dimension -/
theorem c05_op_abs (ev : Ev S B) (K : Consts S) (A : Arith S) (self : Vec S) :
    operator ev K A "abs" self [] =
      call ev K A (if self.ty.dim = 2 then "rho" else if self.ty.dim = 3 then "mag" else "tau") self [] := by
  have e : operator ev K A "abs" self [] = getAcc ev (normAcc self.ty.dim) self := rfl
  rw [e]
  rcases c05_dim_range self.ty with h | h | h <;> simp only [h, normAcc] <;>
    simp only [Nat.reduceEqDiff, if_true, if_false, (c05_call_acc ev K A self).1, (c05_call_acc ev K A self).2.1,
      (c05_call_acc ev K A self).2.2.1]

/-- `v ** 2` and `np.square(v)` are `rho2`, `mag2` or `tau2` by dimension -/
theorem c05_op_square (ev : Ev S B) (K : Consts S) (A : Arith S) (self : Vec S) :
    operator ev K A "square" self [] =
      call ev K A (if self.ty.dim = 2 then "rho2" else if self.ty.dim = 3 then "mag2" else "tau2") self [] := by
  have e : operator ev K A "square" self [] = getAcc ev (norm2Acc self.ty.dim) self := rfl
  rw [e]
  rcases c05_dim_range self.ty with h | h | h <;> simp only [h, norm2Acc] <;>
    simp only [Nat.reduceEqDiff, if_true, if_false, (c05_call_acc ev K A self).2.2.2.1,
      (c05_call_acc ev K A self).2.2.2.2.1, (c05_call_acc ev K A self).2.2.2.2.2]

/-- `+v` is `v` -/
theorem c05_op_pos (ev : Ev S B) (K : Consts S) (A : Arith S) (self : Vec S) :
    operator ev K A "pos" self [] = .ok (.vec self) := rfl

/-- an operator gives the same TYPE as its method too: both sides above are the same `Except Err (Res S B)` value, so
in particular the same result class, flavor, dimension and coordinate system -/
theorem c05_op_add_type (ev : Ev S B) (K : Consts S) (A : Arith S) (self o r r' : Vec S)
    (h : operator ev K A "add" self [.v o] = .ok (.vec r)) (h' : call ev K A "add" self [.v o] = .ok (.vec r')) :
    r.ty = r'.ty ∧ r.c = r'.c := by
  rw [c05_op_add, h'] at h; cases h; exact ⟨rfl, rfl⟩

/-! ### the coordinate system of the result depends only on the operands' coordinate systems -/

/-- key atoms contributed by one operand, from its TYPE alone -/
def opKeyT (t : VT) (n : Nat) : Option (List KA) :=
  match n, t.lon, t.tmp with
  | 1, _, _ => some [.az t.az]
  | 2, some l, _ => some [.az t.az, .lon l]
  | 3, some l, some tm => some [.az t.az, .lon l, .tmp tm]
  | _, _, _ => none

theorem c05_operandKey_type (v : Vec S) (n : Nat) : (operandKey v n).map (·.1) = opKeyT v.ty n := by
  unfold operandKey opKeyT
  split <;> simp_all

/-- the dispatch key, from the module, the Euler order and the operand TYPES alone -/
def dispatchKey (m : ModuleId) (ord : Option Ord) (tys : List VT) : Option (List KA) :=
  if (operandSlots m.info.shape).length != tys.length then none else
  ((tys.zip (operandSlots m.info.shape)).mapM fun p => opKeyT p.1 p.2).map fun ks =>
    ks.flatten ++ (match ord with | some o => [KA.ord o] | none => [])

private theorem mapM_key : ∀ (l : List (Vec S × Nat)) (parts : List (List KA × List S)),
    l.mapM (fun p => operandKey p.1 p.2) = some parts →
    (l.map fun p => (p.1.ty, p.2)).mapM (fun p => opKeyT p.1 p.2) = some (parts.map (·.1)) := by
  intro l
  induction l with
  | nil => intro parts h; simp at h; subst h; simp
  | cons p l ih =>
    intro parts h
    rw [List.mapM_cons] at h
    rw [List.map_cons, List.mapM_cons]
    cases hf : operandKey p.1 p.2 with
    | none => rw [hf] at h; simp at h
    | some b =>
      cases hr : l.mapM (fun p => operandKey p.1 p.2) with
      | none => rw [hf, hr] at h; simp at h
      | some bs =>
        rw [hf, hr] at h
        simp at h
        subst h
        have := c05_operandKey_type p.1 p.2
        rw [hf] at this
        simp at this
        rw [← this, ih bs hr]
        simp

/-- inversion of `dispatch`, with the key made explicit: it is `dispatchKey` of the operand types -/
theorem c05_dispatch_inv_key (ev : Ev S B) (m : ModuleId) (sc : List S) (ord : Option Ord) (ops counted : List (Vec S))
    (res : Res S B) (h : dispatch ev m sc ord ops counted = .ok res) :
    ∃ key args out ret hd, dispatchKey m ord (ops.map (·.ty)) = some key ∧ ev m key args = some (out, ret) ∧
      handlerOf counted = some hd ∧ wrapResult hd hd.ty.be (counted.any (·.ty.mom)) out ret = .ok res := by
  unfold dispatch at h
  simp only [] at h
  split at h
  · cases h
  · rename_i hlen
    split at h
    · cases h
    · rename_i parts hparts
      split at h
      · cases h
      · split at h
        · cases h
        · refine ⟨_, _, _, _, _, ?_, by assumption, by assumption, h⟩
          have hk := mapM_key (ops.zip (operandSlots m.info.shape)) parts hparts
          unfold dispatchKey
          rw [List.length_map, if_neg hlen, List.zip_map_left]
          have e : (List.map (Prod.map (fun x : Vec S => x.ty) id) (ops.zip (operandSlots m.info.shape)))
              = (List.map (fun p => (p.1.ty, p.2)) (ops.zip (operandSlots m.info.shape))) := rfl
          rw [e, hk]
          rfl

/-- the handler, on types -/
def handlerT (ts : List VT) : Option VT :=
  ts.foldl (fun h t => match h with
    | none => some t
    | some h => if t.be.prio > h.be.prio then some t else some h) none

private theorem handler_fold_ty (vs : List (Vec S)) : ∀ acc : Option (Vec S),
    (vs.foldl (fun h v => match h with
      | none => some v
      | some h => if v.ty.be.prio > h.ty.be.prio then some v else some h) acc).map (·.ty) =
    (vs.map (·.ty)).foldl (fun h t => match h with
      | none => some t
      | some h => if t.be.prio > h.be.prio then some t else some h) (acc.map (·.ty)) := by
  induction vs with
  | nil => intro acc; rfl
  | cons v vs ih =>
    intro acc
    rw [List.foldl_cons, ih, List.map_cons, List.foldl_cons]
    congr 1
    cases acc with
    | none => rfl
    | some a =>
      simp only [Option.map_some]
      split <;> rfl

/-- the TYPE of the handler depends only on the operand types -/
theorem c05_handlerOf_type (vs : List (Vec S)) : (handlerOf vs).map (·.ty) = handlerT (vs.map (·.ty)) :=
  handler_fold_ty vs none

/-- assumption on the compute layer: the declared result it returns for a key is the one in the generated table
(proved for the generated executable model below) -/
structure EvTables (ev : Ev S B) : Prop where
  ret_declared : ∀ m k a out ret, ev m k a = some (out, ret) → declared m k = some ret

/-- C05, coordinate system: the TYPE of a vector result (class, flavor, coordinate systems, dimension) depends only on the
method's module, the Euler order and the TYPES of the operands — never on a coordinate value or scalar argument -/
theorem c05_dispatch_type_only (ev : Ev S B) (hev : EvTables ev) (m : ModuleId) (sc sc' : List S) (ord : Option Ord)
    (ops ops' counted counted' : List (Vec S)) (r r' : Vec S)
    (hops : ops.map (·.ty) = ops'.map (·.ty)) (hc : counted.map (·.ty) = counted'.map (·.ty))
    (h : dispatch ev m sc ord ops counted = .ok (.vec r)) (h' : dispatch ev m sc' ord ops' counted' = .ok (.vec r')) :
    r.ty = r'.ty := by
  obtain ⟨key, args, out, ret, hd, hk, he, hh, hw⟩ := c05_dispatch_inv_key ev m sc ord ops counted _ h
  obtain ⟨key', args', out', ret', hd', hk', he', hh', hw'⟩ := c05_dispatch_inv_key ev m sc' ord ops' counted' _ h'
  rw [hops, hk'] at hk
  cases hk
  have hr := hev.ret_declared _ _ _ _ _ he
  rw [hev.ret_declared _ _ _ _ _ he'] at hr
  cases hr
  have hty : hd.ty = hd'.ty := by
    have h1 := c05_handlerOf_type counted
    have h2 := c05_handlerOf_type counted'
    rw [hh] at h1; rw [hh', ← hc, ← h1] at h2
    simpa using h2.symm
  have hmom : counted.any (·.ty.mom) = counted'.any (·.ty.mom) := by
    have e : ∀ l : List (Vec S), l.any (·.ty.mom) = (l.map (·.ty)).any (·.mom) := by
      intro l; rw [List.any_map]; rfl
    rw [e, e, hc]
  obtain ⟨raw, parts, _, rfl, hv⟩ := c05_wrapResult_vec _ _ _ _ _ _ hw
  obtain ⟨raw', parts', _, hp, hv'⟩ := c05_wrapResult_vec _ _ _ _ _ _ hw'
  cases hp
  rw [← hmom, ← hty] at hv'
  exact c05_wrapVec_type_only hd hd' r r' _ _ raw raw' parts hty hv hv'


/-! ### the documented dimension of the result, method by method -/

/-- the kinds of declared result that occur in the tables -/
inductive RKind | float | bool | A | AL | AL0 | ALT
  deriving DecidableEq, Repr

def retKind : Ret → Option RKind
  | .float => some .float
  | .bool => some .bool
  | .vec [.az _] => some .A
  | .vec [.az _, .lon _] => some .AL
  | .vec [.az _, .lon _, .none] => some .AL0
  | .vec [.az _, .lon _, .tmp _] => some .ALT
  | _ => none

/-- the kind of result each compute module declares (uniformly, for all of its keys) -/
def _root_.VK.ModuleId.kind : ModuleId → RKind
  | .planar_add | .planar_subtract | .planar_rotateZ | .planar_scale | .planar_transform2D | .planar_unit => .A
  | .spatial_add | .spatial_subtract | .spatial_rotateX | .spatial_rotateY | .spatial_rotate_axis
  | .spatial_rotate_euler | .spatial_rotate_quaternion | .spatial_scale | .spatial_transform3D | .spatial_unit => .AL
  | .spatial_cross | .lorentz_to_beta3 => .AL0
  | .lorentz_add | .lorentz_subtract | .lorentz_boostX_beta | .lorentz_boostX_gamma | .lorentz_boostY_beta
  | .lorentz_boostY_gamma | .lorentz_boostZ_beta | .lorentz_boostZ_gamma | .lorentz_boost_beta3 | .lorentz_boost_p4
  | .lorentz_scale | .lorentz_transform4D | .lorentz_unit => .ALT
  | .lorentz_equal | .lorentz_is_lightlike | .lorentz_is_spacelike | .lorentz_is_timelike | .lorentz_isclose
  | .lorentz_not_equal | .planar_equal | .planar_is_antiparallel | .planar_is_parallel | .planar_is_perpendicular
  | .planar_isclose | .planar_not_equal | .spatial_equal | .spatial_is_antiparallel | .spatial_is_parallel
  | .spatial_is_perpendicular | .spatial_isclose | .spatial_not_equal => .bool
  | _ => .float

/-- every entry of a module's table declares a result of the module's kind -/
theorem c05_module_kind : ∀ m : ModuleId, ∀ e ∈ m.table, retKind e.2 = some m.kind := by
  intro m
  cases m <;> decide +kernel

/-- dimension of a vector result of each kind, given the dimension of the handler -/
def kindDim : RKind → Nat → Nat
  | .A, d => d
  | .AL, d => if d = 4 then 4 else 3
  | .AL0, _ => 3
  | .ALT, _ => 4
  | _, _ => 0

def RKind.isVec : RKind → Bool
  | .float | .bool => false
  | _ => true

private theorem resultDim_kind (parts : List RP) (k : RKind) (d : Nat) (h : retKind (.vec parts) = some k) :
    resultDim parts d = kindDim k d ∧ k.isVec = true := by
  unfold retKind at h
  split at h <;> first | (cases h; done) | (rename_i heq; cases heq <;> (cases h; exact ⟨rfl, rfl⟩))

/-- the dimension of a vector result of `dispatch`: determined by the module's kind and the handler's dimension;
a module that declares `float`/`bool` never gives a vector -/
theorem c05_dispatch_dim_kind (ev : Ev S B) (hev : EvTables ev) (m : ModuleId) (sc : List S) (ord : Option Ord)
    (ops counted : List (Vec S)) (r : Vec S) (h : dispatch ev m sc ord ops counted = .ok (.vec r)) :
    ∃ hd, handlerOf counted = some hd ∧ r.ty.dim = kindDim m.kind hd.ty.dim ∧ m.kind.isVec = true := by
  obtain ⟨key, args, raw, parts, hd, he, hh, _, hdim⟩ := c05_dispatch_dim ev m sc ord ops counted r h
  have hm := lookup_mem _ _ _ (hev.ret_declared _ _ _ _ _ he)
  have hk := c05_module_kind m _ hm
  obtain ⟨h1, h2⟩ := resultDim_kind parts m.kind hd.ty.dim hk
  exact ⟨hd, hh, by rw [hdim, h1], h2⟩

/-- scalar and truth results come from modules that declare them -/
theorem c05_dispatch_scalar_kind (ev : Ev S B) (hev : EvTables ev) (m : ModuleId) (sc : List S) (ord : Option Ord)
    (ops counted : List (Vec S)) (s : S) (h : dispatch ev m sc ord ops counted = .ok (.scalar s)) : m.kind = .float := by
  obtain ⟨key, args, out, ret, hd, he, hh, hw⟩ := c05_dispatch_inv ev m sc ord ops counted _ h
  obtain ⟨rfl, _⟩ := c05_wrapResult_scalar _ _ _ _ _ _ hw
  have hk := c05_module_kind m _ (lookup_mem _ _ _ (hev.ret_declared _ _ _ _ _ he))
  simp [retKind] at hk; exact hk.symm

theorem c05_dispatch_truth_kind (ev : Ev S B) (hev : EvTables ev) (m : ModuleId) (sc : List S) (ord : Option Ord)
    (ops counted : List (Vec S)) (b : B) (h : dispatch ev m sc ord ops counted = .ok (.truth b)) : m.kind = .bool := by
  obtain ⟨key, args, out, ret, hd, he, hh, hw⟩ := c05_dispatch_inv ev m sc ord ops counted _ h
  obtain ⟨rfl, _⟩ := c05_wrapResult_truth _ _ _ _ _ _ hw
  have hk := c05_module_kind m _ (lookup_mem _ _ _ (hev.ret_declared _ _ _ _ _ he))
  simp [retKind] at hk; exact hk.symm

private theorem dispatch_self_dim (ev : Ev S B) (hev : EvTables ev) (m : ModuleId) (sc : List S) (ord : Option Ord)
    (ops : List (Vec S)) (self r : Vec S) (h : dispatch ev m sc ord ops [self] = .ok (.vec r)) :
    r.ty.dim = kindDim m.kind self.ty.dim ∧ m.kind.isVec = true := by
  obtain ⟨hd, hh, h1, h2⟩ := c05_dispatch_dim_kind ev hev m sc ord ops [self] r h
  have : handlerOf [self] = some self := rfl
  rw [this] at hh; cases hh
  exact ⟨h1, h2⟩

private theorem dispatch_pair_dim (ev : Ev S B) (hev : EvTables ev) (m : ModuleId) (sc : List S) (ord : Option Ord)
    (ops : List (Vec S)) (a b r : Vec S) (h : dispatch ev m sc ord ops [a, b] = .ok (.vec r)) :
    (r.ty.dim = kindDim m.kind a.ty.dim ∨ r.ty.dim = kindDim m.kind b.ty.dim) ∧ m.kind.isVec = true := by
  obtain ⟨hd, hh, h1, h2⟩ := c05_dispatch_dim_kind ev hev m sc ord ops [a, b] r h
  rw [c05_handlerOf_pair] at hh
  cases hh
  refine ⟨?_, h2⟩
  split at h1
  · exact Or.inr h1
  · exact Or.inl h1

private theorem sameDimMod_kind (b : Bin) (d : Nat) (m : ModuleId) (hm : b.sameDimMod d = some m)
    (hd : d = 2 ∨ d = 3 ∨ d = 4) (hv : m.kind.isVec = true) : kindDim m.kind d = d := by
  rcases hd with rfl | rfl | rfl <;> cases b <;> simp [Bin.sameDimMod] at hm <;> subst hm <;>
    first | rfl | (exact absurd hv (by decide))

/-- `scale` with the module of dimension `n` keeps the dimension of the vector (`scale2D` of a 4D vector is 4D) -/
theorem c05_scaleN_dim (ev : Ev S B) (hev : EvTables ev) (n : Nat) (hn : n = 2 ∨ n = 3 ∨ n = 4) (f : S) (v r : Vec S)
    (h : scaleN ev n f v = .ok (.vec r)) : r.ty.dim = v.ty.dim := by
  unfold scaleN at h
  split at h
  · cases h
  · rename_i hge
    obtain ⟨h1, _⟩ := dispatch_self_dim ev hev _ _ _ _ _ _ h
    rw [h1]
    have hr := c05_dim_range v.ty
    rcases hn with rfl | rfl | rfl <;> simp only [scaleMod, ModuleId.kind, kindDim] <;> (try split) <;> omega

set_option maxRecDepth 8000 in
/-- C05, dimension of the result of the binary methods: `cross` gives 3D, everything else the dimension of `self`
(the first operand) -/
theorem c05_binary_dim (ev : Ev S B) (hev : EvTables ev) (K : Consts S) (b : Bin) (self o r : Vec S) (extra : List S)
    (h : binary ev K b self o extra = .ok (.vec r)) : r.ty.dim = if b = .cross then 3 else self.ty.dim := by
  have hr := c05_dim_range self.ty
  by_cases hb : b.sameDim = true
  · have hne : b ≠ .cross := by rintro rfl; simp [Bin.sameDim] at hb
    rw [if_neg hne]
    by_cases hd : o.ty.dim = self.ty.dim
    · obtain ⟨m, hm, e⟩ := c05_binary_sameDim_ok ev K b self o extra hb hd
      rw [e] at h
      obtain ⟨h1, h2⟩ := dispatch_pair_dim ev hev _ _ _ _ _ _ _ h
      rw [hd, or_self] at h1
      rw [h1, sameDimMod_kind b _ m hm hr h2]
    · rw [c05_binary_sameDim_guard ev K b self o extra hb hd] at h; cases h
  · cases b <;> simp [Bin.sameDim] at hb <;> simp only [binary] at h <;> (repeat' split at h) <;>
      first
      | (cases h; done)
      | (obtain ⟨h1, h2⟩ := dispatch_pair_dim ev hev _ _ _ _ _ _ _ h
         first
         | (exact absurd h2 (by decide))
         | (simp only [ModuleId.kind, kindDim, or_self] at h1
            first | (rw [if_pos rfl]; exact h1) | (rw [if_neg (by decide)]; omega)))

/-- a unary method (only `self` is an operand and counts) has the dimension given by its module's kind: the dimension of
`self` for `[az]` and `[az, lon]` modules applied to vectors that have the coordinates, 3 for `[az, lon, None]`
(`to_beta3`), 4 for `[az, lon, tmp]` -/
theorem c05_unary_dim (ev : Ev S B) (hev : EvTables ev) (m : ModuleId) (sc : List S) (ord : Option Ord)
    (self r : Vec S) (h : dispatch ev m sc ord [self] [self] = .ok (.vec r)) :
    r.ty.dim = kindDim m.kind self.ty.dim := (dispatch_self_dim ev hev m sc ord [self] self r h).1

/-- `to_beta3` gives a 3D vector -/
theorem c05_to_beta3_dim (ev : Ev S B) (hev : EvTables ev) (K : Consts S) (A : Arith S) (self r : Vec S)
    (h : call ev K A "to_beta3" self [] = .ok (.vec r)) : r.ty.dim = 3 := by
  have e : call ev K A "to_beta3" self [] =
      if self.ty.dim < 4 then .error .attributeError else dispatch ev .lorentz_to_beta3 [] none [self] [self] := rfl
  rw [e] at h
  split at h
  · cases h
  · exact c05_unary_dim ev hev _ _ _ _ _ h

/-- `rotate_axis` keeps the dimension of `self` (a 4D vector keeps its temporal coordinate) -/
theorem c05_rotate_axis_dim (ev : Ev S B) (hev : EvTables ev) (K : Consts S) (A : Arith S) (self axis r : Vec S) (a : S)
    (h : call ev K A "rotate_axis" self [.v axis, .sc a] = .ok (.vec r)) : r.ty.dim = self.ty.dim := by
  rw [c05_call_rotate_axis] at h
  have hr := c05_dim_range self.ty
  split at h
  · cases h
  · split at h
    · cases h
    · obtain ⟨h1, _⟩ := dispatch_self_dim ev hev _ _ _ _ _ _ h
      rw [h1]
      simp only [ModuleId.kind, kindDim]
      split <;> omega

/-- the dimension-changing conversions (`to_Vector2D/3D/4D`, `to_2D/3D/4D`, `like`) give the named dimension and keep
backend, flavor and azimuthal system -/
theorem c05_toDim_dim (zeroF : S) (target : Nat) (ht : target = 2 ∨ target = 3 ∨ target = 4) (v r : Vec S)
    (lonKw : List (Lon × S)) (tmpKw : List (Tmp × S)) (otherKw : Nat)
    (h : toDim zeroF target v lonKw tmpKw otherKw = .ok r) :
    r.ty.dim = target ∧ r.ty.be = v.ty.be ∧ r.ty.mom = v.ty.mom ∧ r.ty.az = v.ty.az := by
  unfold toDim at h
  simp only [] at h
  split at h
  · cases h
  · split at h
    · cases h
    · split at h
      · rename_i he
        cases h
        have he2 : target = v.ty.dim := by simpa using he
        exact ⟨he2.symm, rfl, rfl, rfl⟩
      · cases h
        refine ⟨?_, rfl, rfl, rfl⟩
        unfold VT.dim
        rcases ht with rfl | rfl | rfl <;> cases v.ty.lon <;> cases v.ty.tmp <;> simp
/-- the coordinate-system conversions `to_<system>` give exactly the named coordinate system (hence the named dimension)
and keep backend and flavor -/
theorem c05_toSystem_type (ev : Ev S B) (zeroF : S) (v r : Vec S) (az : Az) (lon : Option Lon) (tmp : Option Tmp)
    (kl kt : Option S) (h : toSystem ev zeroF v az lon tmp kl kt = .ok r) :
    r.ty = { v.ty with az := az, lon := lon, tmp := tmp } := by
  unfold toSystem at h
  simp only [bind, Except.bind, pure, Except.pure] at h
  repeat' split at h
  all_goals first | (cases h; done) | (cases h; rfl)

/-! ### every method is defined for every coordinate system of its operands (glue level) -/

/-- the raw result has the form the declared kind of result requires -/
def outFitsKind : Out S B → RKind → Bool
  | .vals [_], .float => true
  | .truth _, .bool => true
  | .vals _, .A | .vals _, .AL | .vals _, .AL0 | .vals _, .ALT => true
  | _, _ => false

/-- assumptions on the compute layer: it is defined on every key of a module's key type (and every argument list of the
module's arity), and its raw result has the form the module declares (both proved for the generated executable model
below) -/
structure EvTotal (ev : Ev S B) : Prop where
  total : ∀ m k a, keyFits k m.info.shape = true → a.length = m.info.nscalar + m.info.ncoord → (ev m k a).isSome = true
  out_fits : ∀ m k a out ret, ev m k a = some (out, ret) → outFitsKind out m.kind = true

/-- key shape contributed by an operand of `n` key slots -/
def slotShape : Nat → List KS
  | 1 => [.az] | 2 => [.az, .lon] | 3 => [.az, .lon, .tmp] | _ => []

/-- the key shape of every module is the concatenation of its operands' slots plus, possibly, the Euler order; its number
of coordinate arguments is one more than the number of key slots, per operand -/
theorem c05_shape_slots : ∀ m : ModuleId,
    m.info.shape = ((operandSlots m.info.shape).map slotShape).flatten ++ (if m.info.shape.contains .ord then [.ord] else []) ∧
    m.info.ncoord = ((operandSlots m.info.shape).map (· + 1)).sum ∧
    (∀ n ∈ operandSlots m.info.shape, n = 1 ∨ n = 2 ∨ n = 3) := by
  intro m
  cases m <;> decide +kernel

/-- the operand `v` has the coordinate groups `n` key slots need, and stores (at least) their coordinates -/
def VecOK (v : Vec S) (n : Nat) : Prop :=
  (2 ≤ n → v.ty.lon.isSome = true) ∧ (3 ≤ n → v.ty.tmp.isSome = true) ∧ n + 1 ≤ v.c.length

private theorem operandKey_ok (v : Vec S) (n : Nat) (hn : n = 1 ∨ n = 2 ∨ n = 3) (hv : VecOK v n) :
    ∃ ks cs, operandKey v n = some (ks, cs) ∧ keyFits ks (slotShape n) = true ∧ cs.length = n + 1 := by
  obtain ⟨h2, h3, hl⟩ := hv
  rcases hn with rfl | rfl | rfl
  · exact ⟨_, _, rfl, rfl, by simp [Vec.azEl]; omega⟩
  · have := h2 (by omega)
    cases hlon : v.ty.lon with
    | none => rw [hlon] at this; cases this
    | some l =>
      refine ⟨[.az v.ty.az, .lon l], v.azEl ++ v.lonEl, by simp [operandKey, hlon], rfl, ?_⟩
      simp [Vec.azEl, Vec.lonEl, hlon]; omega
  · have a2 := h2 (by omega)
    have a3 := h3 (by omega)
    cases hlon : v.ty.lon with
    | none => rw [hlon] at a2; cases a2
    | some l =>
      cases htmp : v.ty.tmp with
      | none => rw [htmp] at a3; cases a3
      | some t =>
        refine ⟨[.az v.ty.az, .lon l, .tmp t], v.azEl ++ v.lonEl ++ v.tmpEl, by simp [operandKey, hlon, htmp], rfl, ?_⟩
        simp [Vec.azEl, Vec.lonEl, Vec.tmpEl, hlon, htmp]; omega

private theorem keyFits_append : ∀ (k1 : List KA) (s1 : List KS) (k2 : List KA) (s2 : List KS),
    keyFits k1 s1 = true → keyFits k2 s2 = true → keyFits (k1 ++ k2) (s1 ++ s2) = true := by
  intro k1
  induction k1 with
  | nil => intro s1 k2 s2 h1 h2; cases s1 with
    | nil => simpa using h2
    | cons s r => simp [keyFits] at h1
  | cons a k ih =>
    intro s1 k2 s2 h1 h2
    cases s1 with
    | nil => simp [keyFits] at h1
    | cons s r =>
      simp only [keyFits, Bool.and_eq_true, List.cons_append] at h1 ⊢
      exact ⟨h1.1, ih r k2 s2 h1.2 h2⟩

private theorem mapM_ok : ∀ (l : List (Vec S × Nat)),
    (∀ p ∈ l, (p.2 = 1 ∨ p.2 = 2 ∨ p.2 = 3) ∧ VecOK p.1 p.2) →
    ∃ parts, l.mapM (fun p => operandKey p.1 p.2) = some parts ∧
      keyFits (parts.map (·.1)).flatten ((l.map fun p => slotShape p.2).flatten) = true ∧
      ((parts.map (·.2)).flatten).length = (l.map fun p => p.2 + 1).sum := by
  intro l
  induction l with
  | nil => intro _; exact ⟨[], by simp, rfl, rfl⟩
  | cons p l ih =>
    intro h
    obtain ⟨hn, hv⟩ := h p List.mem_cons_self
    obtain ⟨ks, cs, e, hk, hc⟩ := operandKey_ok p.1 p.2 hn hv
    obtain ⟨parts, e', hk', hc'⟩ := ih (fun q hq => h q (List.mem_cons_of_mem _ hq))
    refine ⟨(ks, cs) :: parts, ?_, ?_, ?_⟩
    · rw [List.mapM_cons, e, e']; rfl
    · simp only [List.map_cons, List.flatten_cons]
      exact keyFits_append _ _ _ _ hk hk'
    · simp only [List.map_cons, List.flatten_cons, List.length_append, List.sum_cons, hc, hc']

private theorem wrap_ok (hd : Vec S) (be : Backend) (mom : Bool) (out : Out S B) (ret : Ret) (k : RKind)
    (hk : retKind ret = some k) (ho : outFitsKind out k = true) : ∃ res, wrapResult hd be mom out ret = .ok res := by
  cases ret with
  | float =>
    simp [retKind] at hk; subst hk
    cases out with
    | truth b => simp [outFitsKind] at ho
    | vals l =>
      rcases l with _ | ⟨s, _ | ⟨s2, l⟩⟩
      · simp [outFitsKind] at ho
      · exact ⟨_, rfl⟩
      · simp [outFitsKind] at ho
  | bool =>
    simp [retKind] at hk; subst hk
    cases out with
    | truth b => exact ⟨_, rfl⟩
    | vals l => rcases l with _ | ⟨s, _ | ⟨s2, l⟩⟩ <;> simp [outFitsKind] at ho
  | vec parts =>
    have hwf : PartsWF parts = true := by
      unfold retKind at hk
      split at hk <;> first | (cases hk; done) | (rename_i heq; cases heq <;> rfl)
    have hv : k.isVec = true := by
      unfold retKind at hk
      split at hk <;> first | (cases hk; done) | (rename_i heq; cases heq <;> (cases hk; rfl))
    cases out with
    | truth b => cases k <;> simp [outFitsKind, RKind.isVec] at ho hv
    | vals raw =>
      obtain ⟨r, hr⟩ := (c05_wrapVec_ok_iff hd be mom raw parts).mpr hwf
      exact ⟨.vec r, by simp [wrapResult, hr, Except.map]⟩

/-- C05, "every method is defined for every coordinate system of its operands": `dispatch` of ANY module succeeds — no
TypeError, AttributeError or AssertionError — whenever it is given the module's number of scalars, one operand per
operand position, each having (and storing) the coordinate groups that position needs, the Euler order iff the module
takes one, and at least one counted operand; whatever the coordinate systems of the operands are. -/
theorem c05_dispatch_defined (ev : Ev S B) (ht : EvTotal ev) (hev : EvTables ev) (m : ModuleId) (sc : List S)
    (ord : Option Ord) (ops counted : List (Vec S))
    (hsc : sc.length = m.info.nscalar)
    (hlen : (operandSlots m.info.shape).length = ops.length)
    (hops : ∀ p ∈ ops.zip (operandSlots m.info.shape), VecOK p.1 p.2)
    (hord : ord.isSome = m.info.shape.contains .ord)
    (hc : counted ≠ []) : ∃ res, dispatch ev m sc ord ops counted = .ok res := by
  obtain ⟨hshape, hnc, hslots⟩ := c05_shape_slots m
  have hl2 : (ops.zip (operandSlots m.info.shape)).map (·.2) = operandSlots m.info.shape :=
    List.map_snd_zip (by omega)
  obtain ⟨parts, e', hk', hc'⟩ := mapM_ok (ops.zip (operandSlots m.info.shape)) (by
    intro p hp
    exact ⟨hslots p.2 (List.of_mem_zip (a := p.1) (b := p.2) hp).2, hops p hp⟩)
  have hmap1 : ((ops.zip (operandSlots m.info.shape)).map fun p => slotShape p.2) =
      (operandSlots m.info.shape).map slotShape := by
    rw [← hl2, List.map_map]; rw [hl2]; rfl
  have hmap2 : ((ops.zip (operandSlots m.info.shape)).map fun p => p.2 + 1) =
      (operandSlots m.info.shape).map (· + 1) := by
    rw [← hl2, List.map_map]; rw [hl2]; rfl
  rw [hmap1] at hk'
  rw [hmap2, ← hnc] at hc'
  have hkey : keyFits ((parts.map (·.1)).flatten ++
      (match (generalizing := false) ord with | some o => [KA.ord o] | none => [])) m.info.shape = true := by
    have : keyFits (match (generalizing := false) ord with | some o => [KA.ord o] | none => [])
        (if m.info.shape.contains .ord then [KS.ord] else []) = true := by
      cases ord with
      | none => simp at hord; simp [hord, keyFits]
      | some o => simp at hord; simp [hord, keyFits, KA.fits]
    have h2 := keyFits_append _ _ _ _ hk' this
    rw [← hshape] at h2
    exact h2
  have hargs : (sc ++ (parts.map (·.2)).flatten).length = m.info.nscalar + m.info.ncoord := by
    rw [List.length_append, hsc, hc']
  have hsome := ht.total m _ _ hkey hargs
  obtain ⟨hd, hh⟩ := c05_handlerOf_isSome counted hc
  unfold dispatch
  simp only []
  split
  · rename_i hne; simp [hlen] at hne
  · split
    · rename_i heq
      have := heq.symm.trans e'
      cases this
    · rename_i parts' heq
      have hp : parts' = parts := Option.some.inj (heq.symm.trans e')
      subst hp
      split
      · rename_i heq2
        have h3 : Option.isSome (none : Option (Out S B × Ret)) = true :=
          (congrArg Option.isSome heq2).symm.trans hsome
        cases h3
      · rename_i out ret heq2
        split
        · rename_i heq3; rw [hh] at heq3; cases heq3
        · rename_i h heq3
          have hk := c05_module_kind m _ (lookup_mem _ _ _ (hev.ret_declared _ _ _ _ _ heq2))
          exact wrap_ok _ _ _ _ _ _ hk (ht.out_fits _ _ _ _ _ heq2)

/-- a well-formed vector value: a temporal coordinate only together with a longitudinal one (2D, 3D, 4D classes), and
exactly one stored value per coordinate -/
def Vec.WF (v : Vec S) : Prop := (v.ty.tmp.isSome = true → v.ty.lon.isSome = true) ∧ v.c.length = v.ty.dim

theorem c05_vecOK_of_WF (v : Vec S) (n : Nat) (hw : v.WF) (hn : n + 1 ≤ v.ty.dim) : VecOK v n := by
  obtain ⟨h1, h2⟩ := hw
  unfold VT.dim at hn h2
  refine ⟨?_, ?_, ?_⟩
  · intro h; revert h1 hn; cases v.ty.lon <;> cases v.ty.tmp <;> simp <;> omega
  · intro h; revert h1 hn; cases v.ty.lon <;> cases v.ty.tmp <;> simp <;> omega
  · omega

private theorem sameDimMod_facts (K : Consts S) (b : Bin) (d : Nat) (m : ModuleId) (hb : b.sameDim = true)
    (hd : d = 2 ∨ d = 3 ∨ d = 4) (hm : b.sameDimMod d = some m) :
    (b.scalars K []).length = m.info.nscalar ∧ m.info.shape.contains .ord = false ∧
      ∃ n, operandSlots m.info.shape = [n, n] ∧ n + 1 ≤ d := by
  rcases hd with rfl | rfl | rfl <;> cases b <;> simp [Bin.sameDim] at hb <;> simp [Bin.sameDimMod] at hm <;>
    subst hm <;> exact ⟨rfl, rfl, _, rfl, by decide⟩

/-- … in particular the same-dimension binary methods (with default tolerances) never raise on two well-formed vectors
of equal dimension, whatever their coordinate systems, backends and flavors -/
theorem c05_binary_sameDim_defined (ev : Ev S B) (ht : EvTotal ev) (hev : EvTables ev) (K : Consts S) (b : Bin)
    (self o : Vec S) (hb : b.sameDim = true) (hs : self.WF) (ho : o.WF) (hd : o.ty.dim = self.ty.dim) :
    ∃ res, binary ev K b self o [] = .ok res := by
  obtain ⟨m, hm, e⟩ := c05_binary_sameDim_ok ev K b self o [] hb hd
  obtain ⟨h1, h2, n, h3, h4⟩ := sameDimMod_facts K b self.ty.dim m hb (c05_dim_range _) hm
  rw [e]
  refine c05_dispatch_defined ev ht hev m _ none [self, o] [self, o] h1 (by rw [h3]; rfl) ?_ (by rw [h2]; rfl) (by simp)
  intro p hp
  rw [h3] at hp
  simp only [List.zip_cons_cons, List.zip_nil_right, List.mem_cons, List.not_mem_nil, or_false] at hp
  rcases hp with rfl | rfl
  · exact c05_vecOK_of_WF _ _ hs h4
  · exact c05_vecOK_of_WF _ _ ho (by show n + 1 ≤ o.ty.dim; omega)

/-! ### the hypotheses used above are satisfiable -/

section Examples

private def v2 : Vec Nat := ⟨{ be := .obj, mom := false, az := .xy, lon := none, tmp := none }, [1, 2]⟩
private def v3 : Vec Nat := ⟨{ be := .np, mom := true, az := .rhophi, lon := some .eta, tmp := none }, [1, 2, 3]⟩
private def v4 : Vec Nat := ⟨{ be := .ak, mom := false, az := .xy, lon := some .z, tmp := some .tau }, [1, 2, 3, 4]⟩
private def ev0 : Ev Nat Bool := fun _ _ _ => none
private def K0 : Consts Nat := ⟨0, 0, 0, 0, 0, 0, 0⟩

example : v2.ty.dim = 2 ∧ v3.ty.dim = 3 ∧ v4.ty.dim = 4 := ⟨rfl, rfl, rfl⟩
example : v2.WF ∧ v3.WF ∧ v4.WF := by
  refine ⟨⟨?_, rfl⟩, ⟨?_, rfl⟩, ⟨?_, rfl⟩⟩ <;> simp [v2, v3, v4]
/-- operands of different dimension: `add` is a TypeError (hypotheses of `c05_binary_sameDim_guard`) -/
example : binary ev0 K0 .add v2 v3 [] = .error .typeError :=
  c05_binary_sameDim_guard ev0 K0 .add v2 v3 [] rfl (by decide)
/-- `cross` of a 3D and a 4D vector (hypotheses of `c05_cross_guard`) -/
example : binary ev0 K0 .cross v3 v4 [] = .error .typeError :=
  c05_cross_guard ev0 K0 v3 v4 [] (Or.inr (by decide))
/-- `boost_p4` by a 3D vector, `boost_beta3` by a 4D vector -/
example : binary ev0 K0 .boost_p4 v4 v3 [] = .error .typeError := c05_boost_p4_guard ev0 K0 v4 v3 [] rfl (by decide)
example : binary ev0 K0 .boost_beta3 v4 v4 [] = .error .typeError := c05_boost_beta3_guard ev0 K0 v4 v4 [] rfl (by decide)
/-- the handler of mixed backends is the Awkward operand, wherever it stands -/
example : handlerOf [v2, v4, v3] = some v4 ∧ handlerOf [v4, v2] = some v4 := ⟨rfl, rfl⟩
/-- `VecOK`: a 4D vector can fill a 3-slot operand position, a 2D vector cannot fill a 2-slot one -/
example : VecOK v4 3 := c05_vecOK_of_WF v4 3 ⟨by simp [v4], rfl⟩ (by decide)
example : ¬ VecOK v2 2 := fun h => by have := h.1 (by decide); simp [v2] at this
/-- a key of the key type of `lorentz_boost_beta3`, and its declared result -/
example : keyFits [.az .xy, .lon .eta, .tmp .tau, .az .rhophi, .lon .theta] ModuleId.lorentz_boost_beta3.info.shape = true ∧
    declared .lorentz_boost_beta3 [.az .xy, .lon .eta, .tmp .tau, .az .rhophi, .lon .theta] =
      some (.vec [.az .xy, .lon .z, .tmp .tau]) := by decide +kernel

end Examples

end
end VG

set_option linter.constructorNameAsVariable false
set_option linter.unusedVariables false
set_option linter.unusedSimpArgs false
namespace VG
open VK VE

/-! ### the generated executable compute layer satisfies `EvTables` -/

instance c05DecAz (p : Az → Prop) [DecidablePred p] : Decidable (∀ a, p a) :=
  decidable_of_iff (∀ a ∈ Az.all, p a) ⟨fun h a => h a (by cases a <;> decide), fun h a _ => h a⟩
instance c05DecLon (p : Lon → Prop) [DecidablePred p] : Decidable (∀ a, p a) :=
  decidable_of_iff (∀ a ∈ Lon.all, p a) ⟨fun h a => h a (by cases a <;> decide), fun h a _ => h a⟩
instance c05DecTmp (p : Tmp → Prop) [DecidablePred p] : Decidable (∀ a, p a) :=
  decidable_of_iff (∀ a ∈ Tmp.all, p a) ⟨fun h a => h a (by cases a <;> decide), fun h a _ => h a⟩
instance c05DecOrd (p : Ord → Prop) [DecidablePred p] : Decidable (∀ a, p a) :=
  decidable_of_iff (∀ a ∈ Ord.all, p a) ⟨fun h a => h a (by cases a <;> decide), fun h a _ => h a⟩

open Lean Elab Tactic Meta in
/-- `cases` on the first hypothesis whose type is the given constant -/
local elab "c05_cases_one " t:ident : tactic => withMainContext do
  let n ← realizeGlobalConstNoOverloadWithInfo t
  for d in (← getLCtx) do
    if d.isImplementationDetail then continue
    let ty ← instantiateMVars d.type
    if ty.isConstOf n then
      let gs ← (← getMainGoal).cases d.fvarId
      replaceMainGoal (gs.map (·.mvarId)).toList
      return
  throwError "no hypothesis of type {n}"

open Lean Elab Tactic Meta in
/-- revert every key variable (hypotheses of type `Az`, `Lon`, `Tmp`, `Ord`) -/
local elab "c05_revert_keys" : tactic => withMainContext do
  let mut fvs : Array FVarId := #[]
  for d in (← getLCtx) do
    if d.isImplementationDetail then continue
    let ty ← instantiateMVars d.type
    if ty.isConstOf ``VK.Az || ty.isConstOf ``VK.Lon || ty.isConstOf ``VK.Tmp || ty.isConstOf ``VK.Ord then
      fvs := fvs.push d.fvarId
  let (_, g) ← (← getMainGoal).revert fvs
  replaceMainGoal [g]

open Lean in
/-- `c05_tab_thm M`: the theorem `exec_tab.M` — if `M.evalL k a = some (out, ret)` then `ret` is the declared result of `k`
in the generated table of `M`.  Proof: unfold `M.evalL`, destructure the key, and look all keys of that form up in the
table by kernel evaluation. -/
local macro "c05_tab_thm " m:ident : command => do
  let f := mkIdent (m.getId ++ `evalL)
  let thm := mkIdent (`exec_tab ++ m.getId)
  let c := mkIdent (`VK.ModuleId ++ m.getId)
  `(command|
    set_option maxRecDepth 100000 in
    private theorem $thm {S : Type} [Scalar S] (k : List KA) (a : List S) (out : Out S (VE.B S)) (ret : Ret)
        (h : $f k a = some (out, ret)) : declared $c k = some ret := by
      unfold $f at h
      split at h
      · repeat (c05_cases_one KA <;> simp [KA.az?, KA.lon?, KA.tmp?, KA.ord?] at h)
        obtain ⟨-, h2⟩ := h
        subst h2
        c05_revert_keys
        decide +kernel
      · cases h)

c05_tab_thm lorentz_Et
c05_tab_thm lorentz_Et2
c05_tab_thm lorentz_Mt
c05_tab_thm lorentz_Mt2
c05_tab_thm lorentz_add
c05_tab_thm lorentz_beta
c05_tab_thm lorentz_boostX_beta
c05_tab_thm lorentz_boostX_gamma
c05_tab_thm lorentz_boostY_beta
c05_tab_thm lorentz_boostY_gamma
c05_tab_thm lorentz_boostZ_beta
c05_tab_thm lorentz_boostZ_gamma
c05_tab_thm lorentz_boost_beta3
c05_tab_thm lorentz_boost_p4
c05_tab_thm lorentz_deltaRapidityPhi
c05_tab_thm lorentz_deltaRapidityPhi2
c05_tab_thm lorentz_dot
c05_tab_thm lorentz_equal
c05_tab_thm lorentz_gamma
c05_tab_thm lorentz_is_lightlike
c05_tab_thm lorentz_is_spacelike
c05_tab_thm lorentz_is_timelike
c05_tab_thm lorentz_isclose
c05_tab_thm lorentz_not_equal
c05_tab_thm lorentz_rapidity
c05_tab_thm lorentz_scale
c05_tab_thm lorentz_subtract
c05_tab_thm lorentz_t
c05_tab_thm lorentz_t2
c05_tab_thm lorentz_tau
c05_tab_thm lorentz_tau2
c05_tab_thm lorentz_to_beta3
c05_tab_thm lorentz_transform4D
c05_tab_thm lorentz_unit
c05_tab_thm planar_add
c05_tab_thm planar_deltaphi
c05_tab_thm planar_dot
c05_tab_thm planar_equal
c05_tab_thm planar_is_antiparallel
c05_tab_thm planar_is_parallel
c05_tab_thm planar_is_perpendicular
c05_tab_thm planar_isclose
c05_tab_thm planar_not_equal
c05_tab_thm planar_phi
c05_tab_thm planar_rho
c05_tab_thm planar_rho2
c05_tab_thm planar_rotateZ
c05_tab_thm planar_scale
c05_tab_thm planar_subtract
c05_tab_thm planar_transform2D
c05_tab_thm planar_unit
c05_tab_thm planar_x
c05_tab_thm planar_y
c05_tab_thm spatial_add
c05_tab_thm spatial_costheta
c05_tab_thm spatial_cottheta
c05_tab_thm spatial_cross
c05_tab_thm spatial_deltaR
c05_tab_thm spatial_deltaR2
c05_tab_thm spatial_deltaangle
c05_tab_thm spatial_deltaeta
c05_tab_thm spatial_dot
c05_tab_thm spatial_equal
c05_tab_thm spatial_eta
c05_tab_thm spatial_is_antiparallel
c05_tab_thm spatial_is_parallel
c05_tab_thm spatial_is_perpendicular
c05_tab_thm spatial_isclose
c05_tab_thm spatial_mag
c05_tab_thm spatial_mag2
c05_tab_thm spatial_not_equal
c05_tab_thm spatial_rotateX
c05_tab_thm spatial_rotateY
c05_tab_thm spatial_rotate_axis
c05_tab_thm spatial_rotate_euler
c05_tab_thm spatial_rotate_quaternion
c05_tab_thm spatial_scale
c05_tab_thm spatial_subtract
c05_tab_thm spatial_theta
c05_tab_thm spatial_transform3D
c05_tab_thm spatial_unit
c05_tab_thm spatial_z

open Lean Elab Tactic Meta in
/-- `cases` on the first hypothesis whose type is a `List` -/
local elab "c05_cases_list" : tactic => withMainContext do
  for d in (← getLCtx) do
    if d.isImplementationDetail then continue
    let ty ← instantiateMVars d.type
    if ty.isAppOfArity ``List 1 then
      let gs ← (← getMainGoal).cases d.fvarId
      replaceMainGoal (gs.map (·.mvarId)).toList
      return
  throwError "no hypothesis of List type"

open Lean in
/-- `c05_total_thm M`: the theorem `exec_total.M` — `M.evalL` is defined on every key of the module's key type and every
argument list of the module's arity. -/
local macro "c05_total_thm " m:ident : command => do
  let f := mkIdent (m.getId ++ `evalL)
  let thm := mkIdent (`exec_total ++ m.getId)
  let c := mkIdent (`VK.ModuleId ++ m.getId)
  `(command|
    private theorem $thm {S : Type} [Scalar S] (k : List KA) (a : List S)
        (hk : keyFits k (ModuleId.info $c).shape = true)
        (ha : a.length = (ModuleId.info $c).nscalar + (ModuleId.info $c).ncoord) :
        (($f k a).isSome : Bool) = true := by
      simp only [ModuleId.info] at hk ha
      repeat (c05_cases_list <;> simp [keyFits] at hk ha)
      repeat (c05_cases_one KA <;> simp [KA.fits] at hk)
      rfl)

c05_total_thm lorentz_Et
c05_total_thm lorentz_Et2
c05_total_thm lorentz_Mt
c05_total_thm lorentz_Mt2
c05_total_thm lorentz_add
c05_total_thm lorentz_beta
c05_total_thm lorentz_boostX_beta
c05_total_thm lorentz_boostX_gamma
c05_total_thm lorentz_boostY_beta
c05_total_thm lorentz_boostY_gamma
c05_total_thm lorentz_boostZ_beta
c05_total_thm lorentz_boostZ_gamma
c05_total_thm lorentz_boost_beta3
c05_total_thm lorentz_boost_p4
c05_total_thm lorentz_deltaRapidityPhi
c05_total_thm lorentz_deltaRapidityPhi2
c05_total_thm lorentz_dot
c05_total_thm lorentz_equal
c05_total_thm lorentz_gamma
c05_total_thm lorentz_is_lightlike
c05_total_thm lorentz_is_spacelike
c05_total_thm lorentz_is_timelike
c05_total_thm lorentz_isclose
c05_total_thm lorentz_not_equal
c05_total_thm lorentz_rapidity
c05_total_thm lorentz_scale
c05_total_thm lorentz_subtract
c05_total_thm lorentz_t
c05_total_thm lorentz_t2
c05_total_thm lorentz_tau
c05_total_thm lorentz_tau2
c05_total_thm lorentz_to_beta3
c05_total_thm lorentz_transform4D
c05_total_thm lorentz_unit
c05_total_thm planar_add
c05_total_thm planar_deltaphi
c05_total_thm planar_dot
c05_total_thm planar_equal
c05_total_thm planar_is_antiparallel
c05_total_thm planar_is_parallel
c05_total_thm planar_is_perpendicular
c05_total_thm planar_isclose
c05_total_thm planar_not_equal
c05_total_thm planar_phi
c05_total_thm planar_rho
c05_total_thm planar_rho2
c05_total_thm planar_rotateZ
c05_total_thm planar_scale
c05_total_thm planar_subtract
c05_total_thm planar_transform2D
c05_total_thm planar_unit
c05_total_thm planar_x
c05_total_thm planar_y
c05_total_thm spatial_add
c05_total_thm spatial_costheta
c05_total_thm spatial_cottheta
c05_total_thm spatial_cross
c05_total_thm spatial_deltaR
c05_total_thm spatial_deltaR2
c05_total_thm spatial_deltaangle
c05_total_thm spatial_deltaeta
c05_total_thm spatial_dot
c05_total_thm spatial_equal
c05_total_thm spatial_eta
c05_total_thm spatial_is_antiparallel
c05_total_thm spatial_is_parallel
c05_total_thm spatial_is_perpendicular
c05_total_thm spatial_isclose
c05_total_thm spatial_mag
c05_total_thm spatial_mag2
c05_total_thm spatial_not_equal
c05_total_thm spatial_rotateX
c05_total_thm spatial_rotateY
c05_total_thm spatial_rotate_axis
c05_total_thm spatial_rotate_euler
c05_total_thm spatial_rotate_quaternion
c05_total_thm spatial_scale
c05_total_thm spatial_subtract
c05_total_thm spatial_theta
c05_total_thm spatial_transform3D
c05_total_thm spatial_unit
c05_total_thm spatial_z

open Lean in
/-- `c05_out_thm M`: the theorem `exec_out.M` — the raw result of `M.evalL` has the form the module's kind declares. -/
local macro "c05_out_thm " m:ident : command => do
  let f := mkIdent (m.getId ++ `evalL)
  let thm := mkIdent (`exec_out ++ m.getId)
  let c := mkIdent (`VK.ModuleId ++ m.getId)
  `(command|
    private theorem $thm {S : Type} [Scalar S] (k : List KA) (a : List S) (out : Out S (VE.B S)) (ret : Ret)
        (h : $f k a = some (out, ret)) : outFitsKind out (ModuleId.kind $c) = true := by
      unfold $f at h
      split at h
      · repeat (c05_cases_one KA <;> simp [KA.az?, KA.lon?, KA.tmp?, KA.ord?] at h)
        obtain ⟨h1, -⟩ := h
        subst h1
        rfl
      · cases h)

c05_out_thm lorentz_Et
c05_out_thm lorentz_Et2
c05_out_thm lorentz_Mt
c05_out_thm lorentz_Mt2
c05_out_thm lorentz_add
c05_out_thm lorentz_beta
c05_out_thm lorentz_boostX_beta
c05_out_thm lorentz_boostX_gamma
c05_out_thm lorentz_boostY_beta
c05_out_thm lorentz_boostY_gamma
c05_out_thm lorentz_boostZ_beta
c05_out_thm lorentz_boostZ_gamma
c05_out_thm lorentz_boost_beta3
c05_out_thm lorentz_boost_p4
c05_out_thm lorentz_deltaRapidityPhi
c05_out_thm lorentz_deltaRapidityPhi2
c05_out_thm lorentz_dot
c05_out_thm lorentz_equal
c05_out_thm lorentz_gamma
c05_out_thm lorentz_is_lightlike
c05_out_thm lorentz_is_spacelike
c05_out_thm lorentz_is_timelike
c05_out_thm lorentz_isclose
c05_out_thm lorentz_not_equal
c05_out_thm lorentz_rapidity
c05_out_thm lorentz_scale
c05_out_thm lorentz_subtract
c05_out_thm lorentz_t
c05_out_thm lorentz_t2
c05_out_thm lorentz_tau
c05_out_thm lorentz_tau2
c05_out_thm lorentz_to_beta3
c05_out_thm lorentz_transform4D
c05_out_thm lorentz_unit
c05_out_thm planar_add
c05_out_thm planar_deltaphi
c05_out_thm planar_dot
c05_out_thm planar_equal
c05_out_thm planar_is_antiparallel
c05_out_thm planar_is_parallel
c05_out_thm planar_is_perpendicular
c05_out_thm planar_isclose
c05_out_thm planar_not_equal
c05_out_thm planar_phi
c05_out_thm planar_rho
c05_out_thm planar_rho2
c05_out_thm planar_rotateZ
c05_out_thm planar_scale
c05_out_thm planar_subtract
c05_out_thm planar_transform2D
c05_out_thm planar_unit
c05_out_thm planar_x
c05_out_thm planar_y
c05_out_thm spatial_add
c05_out_thm spatial_costheta
c05_out_thm spatial_cottheta
c05_out_thm spatial_cross
c05_out_thm spatial_deltaR
c05_out_thm spatial_deltaR2
c05_out_thm spatial_deltaangle
c05_out_thm spatial_deltaeta
c05_out_thm spatial_dot
c05_out_thm spatial_equal
c05_out_thm spatial_eta
c05_out_thm spatial_is_antiparallel
c05_out_thm spatial_is_parallel
c05_out_thm spatial_is_perpendicular
c05_out_thm spatial_isclose
c05_out_thm spatial_mag
c05_out_thm spatial_mag2
c05_out_thm spatial_not_equal
c05_out_thm spatial_rotateX
c05_out_thm spatial_rotateY
c05_out_thm spatial_rotate_axis
c05_out_thm spatial_rotate_euler
c05_out_thm spatial_rotate_quaternion
c05_out_thm spatial_scale
c05_out_thm spatial_subtract
c05_out_thm spatial_theta
c05_out_thm spatial_transform3D
c05_out_thm spatial_unit
c05_out_thm spatial_z

section
variable {S : Type} [Scalar S]

private theorem exec_ret_declared (m : ModuleId) (k : List KA) (a : List S) (out : Out S (VE.B S)) (ret : Ret)
    (h : Compute.eval m k a = some (out, ret)) : declared m k = some ret :=
  match m, h with
  | .lorentz_Et, h => exec_tab.lorentz_Et k a out ret h
  | .lorentz_Et2, h => exec_tab.lorentz_Et2 k a out ret h
  | .lorentz_Mt, h => exec_tab.lorentz_Mt k a out ret h
  | .lorentz_Mt2, h => exec_tab.lorentz_Mt2 k a out ret h
  | .lorentz_add, h => exec_tab.lorentz_add k a out ret h
  | .lorentz_beta, h => exec_tab.lorentz_beta k a out ret h
  | .lorentz_boostX_beta, h => exec_tab.lorentz_boostX_beta k a out ret h
  | .lorentz_boostX_gamma, h => exec_tab.lorentz_boostX_gamma k a out ret h
  | .lorentz_boostY_beta, h => exec_tab.lorentz_boostY_beta k a out ret h
  | .lorentz_boostY_gamma, h => exec_tab.lorentz_boostY_gamma k a out ret h
  | .lorentz_boostZ_beta, h => exec_tab.lorentz_boostZ_beta k a out ret h
  | .lorentz_boostZ_gamma, h => exec_tab.lorentz_boostZ_gamma k a out ret h
  | .lorentz_boost_beta3, h => exec_tab.lorentz_boost_beta3 k a out ret h
  | .lorentz_boost_p4, h => exec_tab.lorentz_boost_p4 k a out ret h
  | .lorentz_deltaRapidityPhi, h => exec_tab.lorentz_deltaRapidityPhi k a out ret h
  | .lorentz_deltaRapidityPhi2, h => exec_tab.lorentz_deltaRapidityPhi2 k a out ret h
  | .lorentz_dot, h => exec_tab.lorentz_dot k a out ret h
  | .lorentz_equal, h => exec_tab.lorentz_equal k a out ret h
  | .lorentz_gamma, h => exec_tab.lorentz_gamma k a out ret h
  | .lorentz_is_lightlike, h => exec_tab.lorentz_is_lightlike k a out ret h
  | .lorentz_is_spacelike, h => exec_tab.lorentz_is_spacelike k a out ret h
  | .lorentz_is_timelike, h => exec_tab.lorentz_is_timelike k a out ret h
  | .lorentz_isclose, h => exec_tab.lorentz_isclose k a out ret h
  | .lorentz_not_equal, h => exec_tab.lorentz_not_equal k a out ret h
  | .lorentz_rapidity, h => exec_tab.lorentz_rapidity k a out ret h
  | .lorentz_scale, h => exec_tab.lorentz_scale k a out ret h
  | .lorentz_subtract, h => exec_tab.lorentz_subtract k a out ret h
  | .lorentz_t, h => exec_tab.lorentz_t k a out ret h
  | .lorentz_t2, h => exec_tab.lorentz_t2 k a out ret h
  | .lorentz_tau, h => exec_tab.lorentz_tau k a out ret h
  | .lorentz_tau2, h => exec_tab.lorentz_tau2 k a out ret h
  | .lorentz_to_beta3, h => exec_tab.lorentz_to_beta3 k a out ret h
  | .lorentz_transform4D, h => exec_tab.lorentz_transform4D k a out ret h
  | .lorentz_unit, h => exec_tab.lorentz_unit k a out ret h
  | .planar_add, h => exec_tab.planar_add k a out ret h
  | .planar_deltaphi, h => exec_tab.planar_deltaphi k a out ret h
  | .planar_dot, h => exec_tab.planar_dot k a out ret h
  | .planar_equal, h => exec_tab.planar_equal k a out ret h
  | .planar_is_antiparallel, h => exec_tab.planar_is_antiparallel k a out ret h
  | .planar_is_parallel, h => exec_tab.planar_is_parallel k a out ret h
  | .planar_is_perpendicular, h => exec_tab.planar_is_perpendicular k a out ret h
  | .planar_isclose, h => exec_tab.planar_isclose k a out ret h
  | .planar_not_equal, h => exec_tab.planar_not_equal k a out ret h
  | .planar_phi, h => exec_tab.planar_phi k a out ret h
  | .planar_rho, h => exec_tab.planar_rho k a out ret h
  | .planar_rho2, h => exec_tab.planar_rho2 k a out ret h
  | .planar_rotateZ, h => exec_tab.planar_rotateZ k a out ret h
  | .planar_scale, h => exec_tab.planar_scale k a out ret h
  | .planar_subtract, h => exec_tab.planar_subtract k a out ret h
  | .planar_transform2D, h => exec_tab.planar_transform2D k a out ret h
  | .planar_unit, h => exec_tab.planar_unit k a out ret h
  | .planar_x, h => exec_tab.planar_x k a out ret h
  | .planar_y, h => exec_tab.planar_y k a out ret h
  | .spatial_add, h => exec_tab.spatial_add k a out ret h
  | .spatial_costheta, h => exec_tab.spatial_costheta k a out ret h
  | .spatial_cottheta, h => exec_tab.spatial_cottheta k a out ret h
  | .spatial_cross, h => exec_tab.spatial_cross k a out ret h
  | .spatial_deltaR, h => exec_tab.spatial_deltaR k a out ret h
  | .spatial_deltaR2, h => exec_tab.spatial_deltaR2 k a out ret h
  | .spatial_deltaangle, h => exec_tab.spatial_deltaangle k a out ret h
  | .spatial_deltaeta, h => exec_tab.spatial_deltaeta k a out ret h
  | .spatial_dot, h => exec_tab.spatial_dot k a out ret h
  | .spatial_equal, h => exec_tab.spatial_equal k a out ret h
  | .spatial_eta, h => exec_tab.spatial_eta k a out ret h
  | .spatial_is_antiparallel, h => exec_tab.spatial_is_antiparallel k a out ret h
  | .spatial_is_parallel, h => exec_tab.spatial_is_parallel k a out ret h
  | .spatial_is_perpendicular, h => exec_tab.spatial_is_perpendicular k a out ret h
  | .spatial_isclose, h => exec_tab.spatial_isclose k a out ret h
  | .spatial_mag, h => exec_tab.spatial_mag k a out ret h
  | .spatial_mag2, h => exec_tab.spatial_mag2 k a out ret h
  | .spatial_not_equal, h => exec_tab.spatial_not_equal k a out ret h
  | .spatial_rotateX, h => exec_tab.spatial_rotateX k a out ret h
  | .spatial_rotateY, h => exec_tab.spatial_rotateY k a out ret h
  | .spatial_rotate_axis, h => exec_tab.spatial_rotate_axis k a out ret h
  | .spatial_rotate_euler, h => exec_tab.spatial_rotate_euler k a out ret h
  | .spatial_rotate_quaternion, h => exec_tab.spatial_rotate_quaternion k a out ret h
  | .spatial_scale, h => exec_tab.spatial_scale k a out ret h
  | .spatial_subtract, h => exec_tab.spatial_subtract k a out ret h
  | .spatial_theta, h => exec_tab.spatial_theta k a out ret h
  | .spatial_transform3D, h => exec_tab.spatial_transform3D k a out ret h
  | .spatial_unit, h => exec_tab.spatial_unit k a out ret h
  | .spatial_z, h => exec_tab.spatial_z k a out ret h

private theorem exec_out_fits (m : ModuleId) (k : List KA) (a : List S) (out : Out S (VE.B S)) (ret : Ret)
    (h : Compute.eval m k a = some (out, ret)) : outFitsKind out m.kind = true :=
  match m, h with
  | .lorentz_Et, h => exec_out.lorentz_Et k a out ret h
  | .lorentz_Et2, h => exec_out.lorentz_Et2 k a out ret h
  | .lorentz_Mt, h => exec_out.lorentz_Mt k a out ret h
  | .lorentz_Mt2, h => exec_out.lorentz_Mt2 k a out ret h
  | .lorentz_add, h => exec_out.lorentz_add k a out ret h
  | .lorentz_beta, h => exec_out.lorentz_beta k a out ret h
  | .lorentz_boostX_beta, h => exec_out.lorentz_boostX_beta k a out ret h
  | .lorentz_boostX_gamma, h => exec_out.lorentz_boostX_gamma k a out ret h
  | .lorentz_boostY_beta, h => exec_out.lorentz_boostY_beta k a out ret h
  | .lorentz_boostY_gamma, h => exec_out.lorentz_boostY_gamma k a out ret h
  | .lorentz_boostZ_beta, h => exec_out.lorentz_boostZ_beta k a out ret h
  | .lorentz_boostZ_gamma, h => exec_out.lorentz_boostZ_gamma k a out ret h
  | .lorentz_boost_beta3, h => exec_out.lorentz_boost_beta3 k a out ret h
  | .lorentz_boost_p4, h => exec_out.lorentz_boost_p4 k a out ret h
  | .lorentz_deltaRapidityPhi, h => exec_out.lorentz_deltaRapidityPhi k a out ret h
  | .lorentz_deltaRapidityPhi2, h => exec_out.lorentz_deltaRapidityPhi2 k a out ret h
  | .lorentz_dot, h => exec_out.lorentz_dot k a out ret h
  | .lorentz_equal, h => exec_out.lorentz_equal k a out ret h
  | .lorentz_gamma, h => exec_out.lorentz_gamma k a out ret h
  | .lorentz_is_lightlike, h => exec_out.lorentz_is_lightlike k a out ret h
  | .lorentz_is_spacelike, h => exec_out.lorentz_is_spacelike k a out ret h
  | .lorentz_is_timelike, h => exec_out.lorentz_is_timelike k a out ret h
  | .lorentz_isclose, h => exec_out.lorentz_isclose k a out ret h
  | .lorentz_not_equal, h => exec_out.lorentz_not_equal k a out ret h
  | .lorentz_rapidity, h => exec_out.lorentz_rapidity k a out ret h
  | .lorentz_scale, h => exec_out.lorentz_scale k a out ret h
  | .lorentz_subtract, h => exec_out.lorentz_subtract k a out ret h
  | .lorentz_t, h => exec_out.lorentz_t k a out ret h
  | .lorentz_t2, h => exec_out.lorentz_t2 k a out ret h
  | .lorentz_tau, h => exec_out.lorentz_tau k a out ret h
  | .lorentz_tau2, h => exec_out.lorentz_tau2 k a out ret h
  | .lorentz_to_beta3, h => exec_out.lorentz_to_beta3 k a out ret h
  | .lorentz_transform4D, h => exec_out.lorentz_transform4D k a out ret h
  | .lorentz_unit, h => exec_out.lorentz_unit k a out ret h
  | .planar_add, h => exec_out.planar_add k a out ret h
  | .planar_deltaphi, h => exec_out.planar_deltaphi k a out ret h
  | .planar_dot, h => exec_out.planar_dot k a out ret h
  | .planar_equal, h => exec_out.planar_equal k a out ret h
  | .planar_is_antiparallel, h => exec_out.planar_is_antiparallel k a out ret h
  | .planar_is_parallel, h => exec_out.planar_is_parallel k a out ret h
  | .planar_is_perpendicular, h => exec_out.planar_is_perpendicular k a out ret h
  | .planar_isclose, h => exec_out.planar_isclose k a out ret h
  | .planar_not_equal, h => exec_out.planar_not_equal k a out ret h
  | .planar_phi, h => exec_out.planar_phi k a out ret h
  | .planar_rho, h => exec_out.planar_rho k a out ret h
  | .planar_rho2, h => exec_out.planar_rho2 k a out ret h
  | .planar_rotateZ, h => exec_out.planar_rotateZ k a out ret h
  | .planar_scale, h => exec_out.planar_scale k a out ret h
  | .planar_subtract, h => exec_out.planar_subtract k a out ret h
  | .planar_transform2D, h => exec_out.planar_transform2D k a out ret h
  | .planar_unit, h => exec_out.planar_unit k a out ret h
  | .planar_x, h => exec_out.planar_x k a out ret h
  | .planar_y, h => exec_out.planar_y k a out ret h
  | .spatial_add, h => exec_out.spatial_add k a out ret h
  | .spatial_costheta, h => exec_out.spatial_costheta k a out ret h
  | .spatial_cottheta, h => exec_out.spatial_cottheta k a out ret h
  | .spatial_cross, h => exec_out.spatial_cross k a out ret h
  | .spatial_deltaR, h => exec_out.spatial_deltaR k a out ret h
  | .spatial_deltaR2, h => exec_out.spatial_deltaR2 k a out ret h
  | .spatial_deltaangle, h => exec_out.spatial_deltaangle k a out ret h
  | .spatial_deltaeta, h => exec_out.spatial_deltaeta k a out ret h
  | .spatial_dot, h => exec_out.spatial_dot k a out ret h
  | .spatial_equal, h => exec_out.spatial_equal k a out ret h
  | .spatial_eta, h => exec_out.spatial_eta k a out ret h
  | .spatial_is_antiparallel, h => exec_out.spatial_is_antiparallel k a out ret h
  | .spatial_is_parallel, h => exec_out.spatial_is_parallel k a out ret h
  | .spatial_is_perpendicular, h => exec_out.spatial_is_perpendicular k a out ret h
  | .spatial_isclose, h => exec_out.spatial_isclose k a out ret h
  | .spatial_mag, h => exec_out.spatial_mag k a out ret h
  | .spatial_mag2, h => exec_out.spatial_mag2 k a out ret h
  | .spatial_not_equal, h => exec_out.spatial_not_equal k a out ret h
  | .spatial_rotateX, h => exec_out.spatial_rotateX k a out ret h
  | .spatial_rotateY, h => exec_out.spatial_rotateY k a out ret h
  | .spatial_rotate_axis, h => exec_out.spatial_rotate_axis k a out ret h
  | .spatial_rotate_euler, h => exec_out.spatial_rotate_euler k a out ret h
  | .spatial_rotate_quaternion, h => exec_out.spatial_rotate_quaternion k a out ret h
  | .spatial_scale, h => exec_out.spatial_scale k a out ret h
  | .spatial_subtract, h => exec_out.spatial_subtract k a out ret h
  | .spatial_theta, h => exec_out.spatial_theta k a out ret h
  | .spatial_transform3D, h => exec_out.spatial_transform3D k a out ret h
  | .spatial_unit, h => exec_out.spatial_unit k a out ret h
  | .spatial_z, h => exec_out.spatial_z k a out ret h

/-- C05, "every method is defined for every coordinate system of its operands", at the compute layer: the generated
executable model evaluates every module on EVERY key of the module's key type (and every argument list of the
module's arity) — no combination of coordinate systems is missing -/
theorem c05_exec_total (m : ModuleId) (k : List KA) (a : List S) (hk : keyFits k m.info.shape = true)
    (ha : a.length = m.info.nscalar + m.info.ncoord) : (Compute.eval m k a).isSome = true :=
  match m, hk, ha with
  | .lorentz_Et, hk, ha => exec_total.lorentz_Et k a hk ha
  | .lorentz_Et2, hk, ha => exec_total.lorentz_Et2 k a hk ha
  | .lorentz_Mt, hk, ha => exec_total.lorentz_Mt k a hk ha
  | .lorentz_Mt2, hk, ha => exec_total.lorentz_Mt2 k a hk ha
  | .lorentz_add, hk, ha => exec_total.lorentz_add k a hk ha
  | .lorentz_beta, hk, ha => exec_total.lorentz_beta k a hk ha
  | .lorentz_boostX_beta, hk, ha => exec_total.lorentz_boostX_beta k a hk ha
  | .lorentz_boostX_gamma, hk, ha => exec_total.lorentz_boostX_gamma k a hk ha
  | .lorentz_boostY_beta, hk, ha => exec_total.lorentz_boostY_beta k a hk ha
  | .lorentz_boostY_gamma, hk, ha => exec_total.lorentz_boostY_gamma k a hk ha
  | .lorentz_boostZ_beta, hk, ha => exec_total.lorentz_boostZ_beta k a hk ha
  | .lorentz_boostZ_gamma, hk, ha => exec_total.lorentz_boostZ_gamma k a hk ha
  | .lorentz_boost_beta3, hk, ha => exec_total.lorentz_boost_beta3 k a hk ha
  | .lorentz_boost_p4, hk, ha => exec_total.lorentz_boost_p4 k a hk ha
  | .lorentz_deltaRapidityPhi, hk, ha => exec_total.lorentz_deltaRapidityPhi k a hk ha
  | .lorentz_deltaRapidityPhi2, hk, ha => exec_total.lorentz_deltaRapidityPhi2 k a hk ha
  | .lorentz_dot, hk, ha => exec_total.lorentz_dot k a hk ha
  | .lorentz_equal, hk, ha => exec_total.lorentz_equal k a hk ha
  | .lorentz_gamma, hk, ha => exec_total.lorentz_gamma k a hk ha
  | .lorentz_is_lightlike, hk, ha => exec_total.lorentz_is_lightlike k a hk ha
  | .lorentz_is_spacelike, hk, ha => exec_total.lorentz_is_spacelike k a hk ha
  | .lorentz_is_timelike, hk, ha => exec_total.lorentz_is_timelike k a hk ha
  | .lorentz_isclose, hk, ha => exec_total.lorentz_isclose k a hk ha
  | .lorentz_not_equal, hk, ha => exec_total.lorentz_not_equal k a hk ha
  | .lorentz_rapidity, hk, ha => exec_total.lorentz_rapidity k a hk ha
  | .lorentz_scale, hk, ha => exec_total.lorentz_scale k a hk ha
  | .lorentz_subtract, hk, ha => exec_total.lorentz_subtract k a hk ha
  | .lorentz_t, hk, ha => exec_total.lorentz_t k a hk ha
  | .lorentz_t2, hk, ha => exec_total.lorentz_t2 k a hk ha
  | .lorentz_tau, hk, ha => exec_total.lorentz_tau k a hk ha
  | .lorentz_tau2, hk, ha => exec_total.lorentz_tau2 k a hk ha
  | .lorentz_to_beta3, hk, ha => exec_total.lorentz_to_beta3 k a hk ha
  | .lorentz_transform4D, hk, ha => exec_total.lorentz_transform4D k a hk ha
  | .lorentz_unit, hk, ha => exec_total.lorentz_unit k a hk ha
  | .planar_add, hk, ha => exec_total.planar_add k a hk ha
  | .planar_deltaphi, hk, ha => exec_total.planar_deltaphi k a hk ha
  | .planar_dot, hk, ha => exec_total.planar_dot k a hk ha
  | .planar_equal, hk, ha => exec_total.planar_equal k a hk ha
  | .planar_is_antiparallel, hk, ha => exec_total.planar_is_antiparallel k a hk ha
  | .planar_is_parallel, hk, ha => exec_total.planar_is_parallel k a hk ha
  | .planar_is_perpendicular, hk, ha => exec_total.planar_is_perpendicular k a hk ha
  | .planar_isclose, hk, ha => exec_total.planar_isclose k a hk ha
  | .planar_not_equal, hk, ha => exec_total.planar_not_equal k a hk ha
  | .planar_phi, hk, ha => exec_total.planar_phi k a hk ha
  | .planar_rho, hk, ha => exec_total.planar_rho k a hk ha
  | .planar_rho2, hk, ha => exec_total.planar_rho2 k a hk ha
  | .planar_rotateZ, hk, ha => exec_total.planar_rotateZ k a hk ha
  | .planar_scale, hk, ha => exec_total.planar_scale k a hk ha
  | .planar_subtract, hk, ha => exec_total.planar_subtract k a hk ha
  | .planar_transform2D, hk, ha => exec_total.planar_transform2D k a hk ha
  | .planar_unit, hk, ha => exec_total.planar_unit k a hk ha
  | .planar_x, hk, ha => exec_total.planar_x k a hk ha
  | .planar_y, hk, ha => exec_total.planar_y k a hk ha
  | .spatial_add, hk, ha => exec_total.spatial_add k a hk ha
  | .spatial_costheta, hk, ha => exec_total.spatial_costheta k a hk ha
  | .spatial_cottheta, hk, ha => exec_total.spatial_cottheta k a hk ha
  | .spatial_cross, hk, ha => exec_total.spatial_cross k a hk ha
  | .spatial_deltaR, hk, ha => exec_total.spatial_deltaR k a hk ha
  | .spatial_deltaR2, hk, ha => exec_total.spatial_deltaR2 k a hk ha
  | .spatial_deltaangle, hk, ha => exec_total.spatial_deltaangle k a hk ha
  | .spatial_deltaeta, hk, ha => exec_total.spatial_deltaeta k a hk ha
  | .spatial_dot, hk, ha => exec_total.spatial_dot k a hk ha
  | .spatial_equal, hk, ha => exec_total.spatial_equal k a hk ha
  | .spatial_eta, hk, ha => exec_total.spatial_eta k a hk ha
  | .spatial_is_antiparallel, hk, ha => exec_total.spatial_is_antiparallel k a hk ha
  | .spatial_is_parallel, hk, ha => exec_total.spatial_is_parallel k a hk ha
  | .spatial_is_perpendicular, hk, ha => exec_total.spatial_is_perpendicular k a hk ha
  | .spatial_isclose, hk, ha => exec_total.spatial_isclose k a hk ha
  | .spatial_mag, hk, ha => exec_total.spatial_mag k a hk ha
  | .spatial_mag2, hk, ha => exec_total.spatial_mag2 k a hk ha
  | .spatial_not_equal, hk, ha => exec_total.spatial_not_equal k a hk ha
  | .spatial_rotateX, hk, ha => exec_total.spatial_rotateX k a hk ha
  | .spatial_rotateY, hk, ha => exec_total.spatial_rotateY k a hk ha
  | .spatial_rotate_axis, hk, ha => exec_total.spatial_rotate_axis k a hk ha
  | .spatial_rotate_euler, hk, ha => exec_total.spatial_rotate_euler k a hk ha
  | .spatial_rotate_quaternion, hk, ha => exec_total.spatial_rotate_quaternion k a hk ha
  | .spatial_scale, hk, ha => exec_total.spatial_scale k a hk ha
  | .spatial_subtract, hk, ha => exec_total.spatial_subtract k a hk ha
  | .spatial_theta, hk, ha => exec_total.spatial_theta k a hk ha
  | .spatial_transform3D, hk, ha => exec_total.spatial_transform3D k a hk ha
  | .spatial_unit, hk, ha => exec_total.spatial_unit k a hk ha
  | .spatial_z, hk, ha => exec_total.spatial_z k a hk ha

/-- the generated executable model of the compute layer (at every scalar type) returns, for every key it accepts, the
declared result recorded in the generated table -/
theorem c05_exec_evTables : EvTables (S := S) (B := VE.B S) (fun m k a => Compute.eval m k a) :=
  ⟨fun m k a out ret h => exec_ret_declared m k a out ret h⟩

/-- … and is total, with raw results of the declared form -/
theorem c05_exec_evTotal : EvTotal (S := S) (B := VE.B S) (fun m k a => Compute.eval m k a) :=
  ⟨fun m k a hk ha => c05_exec_total m k a hk ha, fun m k a out ret h => exec_out_fits m k a out ret h⟩

/-- the theorems above that assume `EvTables` / `EvTotal`, for the generated executable model -/
theorem c05_exec_dispatch_type_only (m : ModuleId) (sc sc' : List S) (ord : Option Ord)
    (ops ops' counted counted' : List (Vec S)) (r r' : Vec S)
    (hops : ops.map (·.ty) = ops'.map (·.ty)) (hc : counted.map (·.ty) = counted'.map (·.ty))
    (h : dispatch (B := VE.B S) (fun m k a => Compute.eval m k a) m sc ord ops counted = .ok (.vec r))
    (h' : dispatch (B := VE.B S) (fun m k a => Compute.eval m k a) m sc' ord ops' counted' = .ok (.vec r')) :
    r.ty = r'.ty :=
  c05_dispatch_type_only _ c05_exec_evTables m sc sc' ord ops ops' counted counted' r r' hops hc h h'

theorem c05_exec_binary_dim (K : Consts S) (b : Bin) (self o r : Vec S) (extra : List S)
    (h : binary (B := VE.B S) (fun m k a => Compute.eval m k a) K b self o extra = .ok (.vec r)) :
    r.ty.dim = if b = .cross then 3 else self.ty.dim :=
  c05_binary_dim _ c05_exec_evTables K b self o r extra h

theorem c05_exec_binary_sameDim_defined (K : Consts S) (b : Bin) (self o : Vec S) (hb : b.sameDim = true)
    (hs : self.WF) (ho : o.WF) (hd : o.ty.dim = self.ty.dim) :
    ∃ res, binary (B := VE.B S) (fun m k a => Compute.eval m k a) K b self o [] = .ok res :=
  c05_binary_sameDim_defined _ c05_exec_evTotal c05_exec_evTables K b self o hb hs ho hd

end
end VG
