/-
C05 — result backend, flavor, dimension and coordinate system follow the stated rules.
Theorems about the hand-written executable glue model (`Glue/Core.lean`, `Glue/Methods.lean`) and the generated
dispatch tables (`Gen/Tables.lean`), for every scalar type `S`, truth type `B` and compute layer `ev`.
-/
import VectorModel.Glue.Methods

set_option linter.constructorNameAsVariable false
set_option linter.unusedVariables false
namespace VG
open VK

section
variable {S B : Type}

/-! ### 1. `handlerOf`: the first operand of maximal backend priority -/

/-- the folding step of `handlerOf` -/
private def hstep (h : Option (Vec S)) (v : Vec S) : Option (Vec S) :=
  match h with
  | none => some v
  | some h => if v.ty.be.prio > h.ty.be.prio then some v else some h

private theorem handlerOf_eq (vs : List (Vec S)) : handlerOf vs = vs.foldl hstep none := rfl

private theorem hfold_some (vs : List (Vec S)) : ∀ h0 : Vec S, ∃ h, vs.foldl hstep (some h0) = some h ∧
    ((h = h0 ∧ ∀ v ∈ vs, v.ty.be.prio ≤ h0.ty.be.prio) ∨
     (∃ pre post, vs = pre ++ h :: post ∧ h0.ty.be.prio < h.ty.be.prio ∧
        (∀ v ∈ pre, v.ty.be.prio < h.ty.be.prio) ∧ (∀ v ∈ post, v.ty.be.prio ≤ h.ty.be.prio))) := by
  induction vs with
  | nil => intro h0; exact ⟨h0, rfl, Or.inl ⟨rfl, by simp⟩⟩
  | cons v vs ih =>
    intro h0
    by_cases hv : v.ty.be.prio > h0.ty.be.prio
    · have e : hstep (some h0) v = some v := by simp [hstep, hv]
      obtain ⟨h, hh, hc⟩ := ih v
      refine ⟨h, by rw [List.foldl_cons, e, hh], Or.inr ?_⟩
      rcases hc with ⟨rfl, hle⟩ | ⟨pre, post, rfl, hlt, hpre, hpost⟩
      · exact ⟨[], vs, rfl, hv, by simp, hle⟩
      · refine ⟨v :: pre, post, rfl, by omega, ?_, hpost⟩
        intro w hw
        rcases List.mem_cons.mp hw with rfl | hw
        · exact hlt
        · exact hpre w hw
    · have e : hstep (some h0) v = some h0 := by simp [hstep, hv]
      obtain ⟨h, hh, hc⟩ := ih h0
      refine ⟨h, by rw [List.foldl_cons, e, hh], ?_⟩
      rcases hc with ⟨rfl, hle⟩ | ⟨pre, post, rfl, hlt, hpre, hpost⟩
      · refine Or.inl ⟨rfl, ?_⟩
        intro w hw
        rcases List.mem_cons.mp hw with rfl | hw
        · omega
        · exact hle w hw
      · refine Or.inr ⟨v :: pre, post, rfl, hlt, ?_, hpost⟩
        intro w hw
        rcases List.mem_cons.mp hw with rfl | hw
        · omega
        · exact hpre w hw

/-- `handlerOf` of the empty list is undefined. -/
theorem c05_handlerOf_nil : handlerOf ([] : List (Vec S)) = none := rfl

/-- Main characterisation: for a non-empty operand list the handler exists and splits the list as
`pre ++ h :: post` with every earlier operand of STRICTLY lower priority and every later one of at most its priority,
i.e. it is the first operand of maximal backend priority. -/
theorem c05_handlerOf_first (vs : List (Vec S)) (hne : vs ≠ []) :
    ∃ h pre post, handlerOf vs = some h ∧ vs = pre ++ h :: post ∧
      (∀ v ∈ pre, v.ty.be.prio < h.ty.be.prio) ∧ (∀ v ∈ post, v.ty.be.prio ≤ h.ty.be.prio) := by
  cases vs with
  | nil => exact absurd rfl hne
  | cons v vs =>
    obtain ⟨h, hh, hc⟩ := hfold_some vs v
    have e : handlerOf (v :: vs) = some h := by
      rw [handlerOf_eq, List.foldl_cons]; exact hh
    rcases hc with ⟨rfl, hle⟩ | ⟨pre, post, rfl, hlt, hpre, hpost⟩
    · exact ⟨h, [], vs, e, rfl, by simp, hle⟩
    · refine ⟨h, v :: pre, post, e, rfl, ?_, hpost⟩
      intro w hw
      rcases List.mem_cons.mp hw with rfl | hw
      · exact hlt
      · exact hpre w hw

/-- the handler of a non-empty list exists -/
theorem c05_handlerOf_isSome (vs : List (Vec S)) (hne : vs ≠ []) : ∃ h, handlerOf vs = some h := by
  obtain ⟨h, _, _, e, _⟩ := c05_handlerOf_first vs hne
  exact ⟨h, e⟩

/-- the handler is one of the operands -/
theorem c05_handlerOf_mem (vs : List (Vec S)) (h : Vec S) (e : handlerOf vs = some h) : h ∈ vs := by
  have hne : vs ≠ [] := by rintro rfl; simp [c05_handlerOf_nil] at e
  obtain ⟨h', pre, post, e', hs, _, _⟩ := c05_handlerOf_first vs hne
  rw [e] at e'; cases e'
  rw [hs]; simp

/-- the handler has maximal backend priority among the operands -/
theorem c05_handlerOf_max (vs : List (Vec S)) (h : Vec S) (e : handlerOf vs = some h) :
    ∀ v ∈ vs, v.ty.be.prio ≤ h.ty.be.prio := by
  have hne : vs ≠ [] := by rintro rfl; simp [c05_handlerOf_nil] at e
  obtain ⟨h', pre, post, e', hs, hpre, hpost⟩ := c05_handlerOf_first vs hne
  rw [e] at e'; cases e'
  intro v hv
  rw [hs] at hv
  rcases List.mem_append.mp hv with hv | hv
  · exact Nat.le_of_lt (hpre v hv)
  · rcases List.mem_cons.mp hv with rfl | hv
    · exact Nat.le_refl _
    · exact hpost v hv

/-- the handler is the FIRST operand of maximal priority: every operand before it has strictly lower priority -/
theorem c05_handlerOf_is_first (vs : List (Vec S)) (h : Vec S) (e : handlerOf vs = some h) :
    ∃ pre post, vs = pre ++ h :: post ∧ ∀ v ∈ pre, v.ty.be.prio < h.ty.be.prio := by
  have hne : vs ≠ [] := by rintro rfl; simp [c05_handlerOf_nil] at e
  obtain ⟨h', pre, post, e', hs, hpre, _⟩ := c05_handlerOf_first vs hne
  rw [e] at e'; cases e'
  exact ⟨pre, post, hs, hpre⟩

/-- the priorities are those of the property text: object < NumPy < (SymPy <) Awkward -/
theorem c05_prio_order : Backend.obj.prio < Backend.np.prio ∧ Backend.np.prio < Backend.sym.prio ∧
    Backend.sym.prio < Backend.ak.prio := by decide

/-- priorities identify backends, so "maximal priority" determines the result backend -/
theorem c05_prio_injective (a b : Backend) (h : a.prio = b.prio) : a = b := by
  cases a <;> cases b <;> first | rfl | (exact absurd h (by decide))

/-- backend of the handler of two operands: the higher of the two, the first on a tie -/
theorem c05_handlerOf_pair (a b : Vec S) :
    handlerOf [a, b] = some (if b.ty.be.prio > a.ty.be.prio then b else a) := by
  simp only [handlerOf, List.foldl_cons, List.foldl_nil]
  split <;> rfl

example : handlerOf [(⟨{ be := .obj, mom := false, az := .xy, lon := none, tmp := none }, [1, 2]⟩ : Vec Nat),
    ⟨{ be := .ak, mom := true, az := .xy, lon := none, tmp := none }, [3, 4]⟩,
    ⟨{ be := .ak, mom := false, az := .rhophi, lon := none, tmp := none }, [5, 6]⟩]
    = some ⟨{ be := .ak, mom := true, az := .xy, lon := none, tmp := none }, [3, 4]⟩ := rfl

/-! ### 3. `_wrap_result`: dimension and coordinate system of the result -/

/-- `[az]` declared: same dimension as `self`, azimuthal system as declared, `self`'s longitudinal/temporal systems and
stored coordinates passed through -/
theorem c05_wrapVec_az (self : Vec S) (be : Backend) (mom : Bool) (raw : List S) (a : Az) :
    wrapVec self be mom raw [.az a] =
      .ok ⟨{ be, mom, az := a, lon := self.ty.lon, tmp := self.ty.tmp }, raw.take 2 ++ self.lonEl ++ self.tmpEl⟩ := rfl

theorem c05_wrapVec_az_dim (self r : Vec S) (be : Backend) (mom : Bool) (raw : List S) (a : Az)
    (h : wrapVec self be mom raw [.az a] = .ok r) :
    r.ty.dim = self.ty.dim ∧ r.ty.az = a ∧ r.ty.lon = self.ty.lon ∧ r.ty.tmp = self.ty.tmp := by
  rw [c05_wrapVec_az] at h; cases h; exact ⟨rfl, rfl, rfl, rfl⟩

/-- `[az, None]` declared: 2D -/
theorem c05_wrapVec_az_none (self : Vec S) (be : Backend) (mom : Bool) (raw : List S) (a : Az) :
    wrapVec self be mom raw [.az a, .none] = .ok ⟨{ be, mom, az := a, lon := none, tmp := none }, raw.take 2⟩ := rfl

theorem c05_wrapVec_az_none_dim (self r : Vec S) (be : Backend) (mom : Bool) (raw : List S) (a : Az)
    (h : wrapVec self be mom raw [.az a, .none] = .ok r) :
    r.ty.dim = 2 ∧ r.ty.az = a ∧ r.ty.lon = none ∧ r.ty.tmp = none := by
  rw [c05_wrapVec_az_none] at h; cases h; exact ⟨rfl, rfl, rfl, rfl⟩

private theorem dim_eq_four (t : VT) : t.dim = 4 ↔ (t.lon.isSome ∧ t.tmp.isSome) := by
  unfold VT.dim
  cases t.lon <;> cases t.tmp <;> simp

private theorem dim_eq_three (t : VT) : t.dim = 3 ↔ (t.lon.isSome ≠ t.tmp.isSome) := by
  unfold VT.dim
  cases t.lon <;> cases t.tmp <;> simp

private theorem dim_eq_two (t : VT) : t.dim = 2 ↔ (t.lon = none ∧ t.tmp = none) := by
  unfold VT.dim
  cases t.lon <;> cases t.tmp <;> simp

/-- every vector type has dimension 2, 3 or 4 -/
theorem c05_dim_range (t : VT) : t.dim = 2 ∨ t.dim = 3 ∨ t.dim = 4 := by
  unfold VT.dim
  cases t.lon <;> cases t.tmp <;> simp

/-- `[az, lon]` declared, `self` 4D: 4D, keeping `self`'s temporal system and stored coordinate -/
theorem c05_wrapVec_az_lon_4D (self : Vec S) (be : Backend) (mom : Bool) (raw : List S) (a : Az) (l : Lon)
    (hd : self.ty.dim = 4) :
    wrapVec self be mom raw [.az a, .lon l] =
      .ok ⟨{ be, mom, az := a, lon := some l, tmp := self.ty.tmp }, raw.take 3 ++ self.tmpEl⟩ := by
  simp [wrapVec, hd]

/-- `[az, lon]` declared, `self` not 4D: 3D -/
theorem c05_wrapVec_az_lon_3D (self : Vec S) (be : Backend) (mom : Bool) (raw : List S) (a : Az) (l : Lon)
    (hd : self.ty.dim ≠ 4) :
    wrapVec self be mom raw [.az a, .lon l] = .ok ⟨{ be, mom, az := a, lon := some l, tmp := none }, raw.take 3⟩ := by
  simp [wrapVec, hd]

theorem c05_wrapVec_az_lon_dim (self r : Vec S) (be : Backend) (mom : Bool) (raw : List S) (a : Az) (l : Lon)
    (h : wrapVec self be mom raw [.az a, .lon l] = .ok r) :
    r.ty.dim = (if self.ty.dim = 4 then 4 else 3) ∧ r.ty.az = a ∧ r.ty.lon = some l ∧
      r.ty.tmp = (if self.ty.dim = 4 then self.ty.tmp else none) := by
  by_cases hd : self.ty.dim = 4
  · rw [c05_wrapVec_az_lon_4D self be mom raw a l hd] at h; cases h
    have := (dim_eq_four self.ty).mp hd
    rw [if_pos hd, if_pos hd]
    refine ⟨?_, rfl, rfl, rfl⟩
    rw [dim_eq_four]; exact ⟨rfl, this.2⟩
  · rw [c05_wrapVec_az_lon_3D self be mom raw a l hd] at h; cases h
    rw [if_neg hd, if_neg hd]
    exact ⟨rfl, rfl, rfl, rfl⟩

/-- `[az, lon, None]` declared: 3D -/
theorem c05_wrapVec_az_lon_none (self : Vec S) (be : Backend) (mom : Bool) (raw : List S) (a : Az) (l : Lon) :
    wrapVec self be mom raw [.az a, .lon l, .none] =
      .ok ⟨{ be, mom, az := a, lon := some l, tmp := none }, raw.take 3⟩ := rfl

theorem c05_wrapVec_az_lon_none_dim (self r : Vec S) (be : Backend) (mom : Bool) (raw : List S) (a : Az) (l : Lon)
    (h : wrapVec self be mom raw [.az a, .lon l, .none] = .ok r) :
    r.ty.dim = 3 ∧ r.ty.az = a ∧ r.ty.lon = some l ∧ r.ty.tmp = none := by
  rw [c05_wrapVec_az_lon_none] at h; cases h; exact ⟨rfl, rfl, rfl, rfl⟩

/-- `[az, lon, tmp]` declared: 4D -/
theorem c05_wrapVec_az_lon_tmp (self : Vec S) (be : Backend) (mom : Bool) (raw : List S) (a : Az) (l : Lon) (t : Tmp) :
    wrapVec self be mom raw [.az a, .lon l, .tmp t] =
      .ok ⟨{ be, mom, az := a, lon := some l, tmp := some t }, raw.take 4⟩ := rfl

theorem c05_wrapVec_az_lon_tmp_dim (self r : Vec S) (be : Backend) (mom : Bool) (raw : List S) (a : Az) (l : Lon)
    (t : Tmp) (h : wrapVec self be mom raw [.az a, .lon l, .tmp t] = .ok r) :
    r.ty.dim = 4 ∧ r.ty.az = a ∧ r.ty.lon = some l ∧ r.ty.tmp = some t := by
  rw [c05_wrapVec_az_lon_tmp] at h; cases h; exact ⟨rfl, rfl, rfl, rfl⟩

/-- well-formed declared vector results: `az`, then optionally `lon`/`None`, then optionally `tmp`/`None` -/
def PartsWF : List RP → Bool
  | [.az _] => true
  | [.az _, .none] => true
  | [.az _, .lon _] => true
  | [.az _, .lon _, .none] => true
  | [.az _, .lon _, .tmp _] => true
  | _ => false

/-- well-formed declared results -/
def RetWF : Ret → Bool
  | .float => true
  | .bool => true
  | .vec parts => PartsWF parts

/-- `wrapVec` succeeds exactly on the well-formed declared results (otherwise it is an AssertionError) -/
theorem c05_wrapVec_ok_iff (self : Vec S) (be : Backend) (mom : Bool) (raw : List S) (parts : List RP) :
    (∃ r, wrapVec self be mom raw parts = .ok r) ↔ PartsWF parts = true := by
  unfold wrapVec PartsWF
  split <;> simp
  split <;> simp

theorem c05_wrapVec_error (self : Vec S) (be : Backend) (mom : Bool) (raw : List S) (parts : List RP)
    (h : PartsWF parts = false) : wrapVec self be mom raw parts = .error .assertionError := by
  unfold wrapVec
  unfold PartsWF at h
  split <;> simp_all

/-- the result type of `wrapVec` (class, flavor, coordinate systems, hence dimension) depends only on the declared result
and on the TYPE of `self` — not on any coordinate value -/
theorem c05_wrapVec_type_only (self self' r r' : Vec S) (be : Backend) (mom : Bool) (raw raw' : List S) (parts : List RP)
    (hty : self.ty = self'.ty) (h : wrapVec self be mom raw parts = .ok r) (h' : wrapVec self' be mom raw' parts = .ok r') :
    r.ty = r'.ty := by
  have hwf : PartsWF parts = true := (c05_wrapVec_ok_iff self be mom raw parts).mp ⟨r, h⟩
  unfold PartsWF at hwf
  split at hwf
  · rw [c05_wrapVec_az] at h h'; cases h; cases h'; simp [hty]
  · rw [c05_wrapVec_az_none] at h h'; cases h; cases h'; rfl
  · by_cases hd : self.ty.dim = 4
    · have hd' : self'.ty.dim = 4 := hty ▸ hd
      rw [c05_wrapVec_az_lon_4D _ _ _ _ _ _ hd] at h
      rw [c05_wrapVec_az_lon_4D _ _ _ _ _ _ hd'] at h'
      cases h; cases h'; simp [hty]
    · have hd' : self'.ty.dim ≠ 4 := hty ▸ hd
      rw [c05_wrapVec_az_lon_3D _ _ _ _ _ _ hd] at h
      rw [c05_wrapVec_az_lon_3D _ _ _ _ _ _ hd'] at h'
      cases h; cases h'; rfl
  · rw [c05_wrapVec_az_lon_none] at h h'; cases h; cases h'; rfl
  · rw [c05_wrapVec_az_lon_tmp] at h h'; cases h; cases h'; rfl
  · cases hwf

/-- backend and flavor of a wrapped vector are the ones passed in -/
theorem c05_wrapVec_be_mom (self r : Vec S) (be : Backend) (mom : Bool) (raw : List S) (parts : List RP)
    (h : wrapVec self be mom raw parts = .ok r) : r.ty.be = be ∧ r.ty.mom = mom := by
  unfold wrapVec at h
  split at h
  all_goals first
    | (cases h; exact ⟨rfl, rfl⟩)
    | (split at h <;> cases h <;> exact ⟨rfl, rfl⟩)
    | cases h

/-- the documented dimension rule: dimension of the result from the declared result and the dimension of `self` -/
def resultDim (parts : List RP) (selfDim : Nat) : Nat :=
  match parts with
  | [_] => selfDim
  | [_, .none] => 2
  | [_, _] => if selfDim = 4 then 4 else 3
  | [_, _, .none] => 3
  | _ => 4

/-- the dimension of a wrapped vector follows the documented rule -/
theorem c05_wrapVec_dim (self r : Vec S) (be : Backend) (mom : Bool) (raw : List S) (parts : List RP)
    (h : wrapVec self be mom raw parts = .ok r) : r.ty.dim = resultDim parts self.ty.dim := by
  have hwf : PartsWF parts = true := (c05_wrapVec_ok_iff self be mom raw parts).mp ⟨r, h⟩
  unfold PartsWF at hwf
  split at hwf
  · exact (c05_wrapVec_az_dim _ _ _ _ _ _ h).1
  · exact (c05_wrapVec_az_none_dim _ _ _ _ _ _ h).1
  · exact (c05_wrapVec_az_lon_dim _ _ _ _ _ _ _ h).1
  · exact (c05_wrapVec_az_lon_none_dim _ _ _ _ _ _ _ h).1
  · exact (c05_wrapVec_az_lon_tmp_dim _ _ _ _ _ _ _ _ h).1
  · cases hwf

/-! ### 2. `dispatch`: backend and flavor of the result -/

/-- inversion of `wrapResult`: a vector result comes from a declared `vec` result through `wrapVec`;
scalar / truth results are the raw value and carry no type at all -/
theorem c05_wrapResult_vec (self r : Vec S) (be : Backend) (mom : Bool) (out : Out S B) (ret : Ret)
    (h : wrapResult self be mom out ret = .ok (.vec r)) :
    ∃ raw parts, out = .vals raw ∧ ret = .vec parts ∧ wrapVec self be mom raw parts = .ok r := by
  unfold wrapResult at h
  split at h
  · cases h
  · cases h
  · rename_i parts raw
    refine ⟨raw, parts, rfl, rfl, ?_⟩
    cases hw : wrapVec self be mom raw parts with
    | error e => rw [hw] at h; cases h
    | ok v => rw [hw] at h; simp [Except.map] at h; rw [h]
  · cases h

theorem c05_wrapResult_scalar (self : Vec S) (be : Backend) (mom : Bool) (out : Out S B) (ret : Ret) (s : S)
    (h : wrapResult self be mom out ret = .ok (.scalar s)) : ret = .float ∧ out = .vals [s] := by
  unfold wrapResult at h
  split at h
  · cases h; exact ⟨rfl, rfl⟩
  · cases h
  · rename_i parts raw
    cases hw : wrapVec self be mom raw parts with
    | error e => rw [hw] at h; cases h
    | ok v => rw [hw] at h; simp [Except.map] at h
  · cases h

theorem c05_wrapResult_truth (self : Vec S) (be : Backend) (mom : Bool) (out : Out S B) (ret : Ret) (b : B)
    (h : wrapResult self be mom out ret = .ok (.truth b)) : ret = .bool ∧ out = .truth b := by
  unfold wrapResult at h
  split at h
  · cases h
  · cases h; exact ⟨rfl, rfl⟩
  · rename_i parts raw
    cases hw : wrapVec self be mom raw parts with
    | error e => rw [hw] at h; cases h
    | ok v => rw [hw] at h; simp [Except.map] at h
  · cases h

/-- inversion of `dispatch`: a successful dispatch evaluated the module on some key, found a handler among the counted
operands and wrapped the raw result with the handler's backend and the OR of the counted operands' flavors -/
theorem c05_dispatch_inv (ev : Ev S B) (m : ModuleId) (sc : List S) (ord : Option Ord) (ops counted : List (Vec S))
    (res : Res S B) (h : dispatch ev m sc ord ops counted = .ok res) :
    ∃ key args out ret hd, ev m key args = some (out, ret) ∧ handlerOf counted = some hd ∧
      wrapResult hd hd.ty.be (counted.any (·.ty.mom)) out ret = .ok res := by
  unfold dispatch at h
  simp only [] at h
  split at h
  · cases h
  · split at h
    · cases h
    · split at h
      · cases h
      · split at h
        · cases h
        · exact ⟨_, _, _, _, _, by assumption, by assumption, h⟩

/-- C05, backend and flavor: a vector result of `dispatch` has the backend of the handler of the counted operands and is a
momentum vector iff some counted operand is one -/
theorem c05_dispatch_be_mom (ev : Ev S B) (m : ModuleId) (sc : List S) (ord : Option Ord) (ops counted : List (Vec S))
    (r : Vec S) (h : dispatch ev m sc ord ops counted = .ok (.vec r)) :
    ∃ hd, handlerOf counted = some hd ∧ r.ty.be = hd.ty.be ∧ r.ty.mom = counted.any (·.ty.mom) := by
  obtain ⟨key, args, out, ret, hd, _, hh, hw⟩ := c05_dispatch_inv ev m sc ord ops counted _ h
  obtain ⟨raw, parts, _, _, hv⟩ := c05_wrapResult_vec _ _ _ _ _ _ hw
  obtain ⟨h1, h2⟩ := c05_wrapVec_be_mom _ _ _ _ _ _ hv
  exact ⟨hd, hh, h1, h2⟩

/-- … hence the result backend has maximal priority among the counted operands, and is the backend of one of them -/
theorem c05_dispatch_be_max (ev : Ev S B) (m : ModuleId) (sc : List S) (ord : Option Ord) (ops counted : List (Vec S))
    (r : Vec S) (h : dispatch ev m sc ord ops counted = .ok (.vec r)) :
    (∀ v ∈ counted, v.ty.be.prio ≤ r.ty.be.prio) ∧ (∃ v ∈ counted, r.ty.be = v.ty.be) := by
  obtain ⟨hd, hh, hbe, _⟩ := c05_dispatch_be_mom ev m sc ord ops counted r h
  rw [hbe]
  exact ⟨c05_handlerOf_max counted hd hh, hd, c05_handlerOf_mem counted hd hh, rfl⟩

/-- flavor, in words: momentum iff some counted operand is a momentum vector -/
theorem c05_dispatch_mom_iff (ev : Ev S B) (m : ModuleId) (sc : List S) (ord : Option Ord) (ops counted : List (Vec S))
    (r : Vec S) (h : dispatch ev m sc ord ops counted = .ok (.vec r)) :
    r.ty.mom = true ↔ ∃ v ∈ counted, v.ty.mom = true := by
  obtain ⟨hd, _, _, hm⟩ := c05_dispatch_be_mom ev m sc ord ops counted r h
  rw [hm, List.any_eq_true]

/-- the result type (class, flavor, coordinate systems) of a `dispatch` depends only on the declared result of the
evaluated entry and the handler's type -/
theorem c05_dispatch_dim (ev : Ev S B) (m : ModuleId) (sc : List S) (ord : Option Ord) (ops counted : List (Vec S))
    (r : Vec S) (h : dispatch ev m sc ord ops counted = .ok (.vec r)) :
    ∃ key args raw parts hd, ev m key args = some (.vals raw, .vec parts) ∧ handlerOf counted = some hd ∧
      PartsWF parts = true ∧ r.ty.dim = resultDim parts hd.ty.dim := by
  obtain ⟨key, args, out, ret, hd, hev, hh, hw⟩ := c05_dispatch_inv ev m sc ord ops counted _ h
  obtain ⟨raw, parts, rfl, rfl, hv⟩ := c05_wrapResult_vec _ _ _ _ _ _ hw
  exact ⟨key, args, raw, parts, hd, hev, hh, (c05_wrapVec_ok_iff _ _ _ _ _).mp ⟨r, hv⟩, c05_wrapVec_dim _ _ _ _ _ _ hv⟩

/-! ### 5. totality of the generated dispatch tables -/

/-- all atoms of one key slot -/
def slotAtoms : KS → List KA
  | .az => Az.all.map .az
  | .lon => Lon.all.map .lon
  | .tmp => Tmp.all.map .tmp
  | .ord => Ord.all.map .ord

/-- every key of the key type given by a shape -/
def allKeys : List KS → List (List KA)
  | [] => [[]]
  | s :: rest => (slotAtoms s).flatMap fun a => (allKeys rest).map (a :: ·)

/-- the atom `a` fits the slot `s` -/
def KA.fits : KA → KS → Bool
  | .az _, .az => true | .lon _, .lon => true | .tmp _, .tmp => true | .ord _, .ord => true
  | _, _ => false

/-- the key `k` has the key type `shape` -/
def keyFits : List KA → List KS → Bool
  | [], [] => true
  | a :: k, s :: shape => KA.fits a s && keyFits k shape
  | _, _ => false

private theorem mem_slotAtoms (a : KA) (s : KS) (h : KA.fits a s = true) : a ∈ slotAtoms s := by
  cases a <;> cases s <;> simp [KA.fits] at h <;> rename_i c <;> cases c <;> decide

/-- `allKeys` is complete: it contains every key of the key type -/
theorem c05_allKeys_complete (shape : List KS) : ∀ k : List KA, keyFits k shape = true → k ∈ allKeys shape := by
  induction shape with
  | nil => intro k h; cases k <;> simp [keyFits, allKeys] at h ⊢
  | cons s rest ih =>
    intro k h
    cases k with
    | nil => simp [keyFits] at h
    | cons a k =>
      simp only [keyFits, Bool.and_eq_true] at h
      simp only [allKeys, List.mem_flatMap, List.mem_map]
      exact ⟨a, mem_slotAtoms a s h.1, k, ih k h.2, rfl⟩

/-- … and sound: it contains only keys of the key type -/
theorem c05_allKeys_sound (shape : List KS) : ∀ k ∈ allKeys shape, keyFits k shape = true := by
  induction shape with
  | nil => intro k h; simp [allKeys] at h; subst h; rfl
  | cons s rest ih =>
    intro k h
    simp only [allKeys, List.mem_flatMap, List.mem_map] at h
    obtain ⟨a, ha, k', hk', rfl⟩ := h
    simp only [keyFits, Bool.and_eq_true]
    refine ⟨?_, ih k' hk'⟩
    cases s <;> simp only [slotAtoms, List.mem_map] at ha <;> obtain ⟨c, _, rfl⟩ := ha <;> rfl

/-- declared result of key `k` in module `m`, if the key is present -/
def declared (m : ModuleId) (k : List KA) : Option Ret := m.table.lookup k

/-- module `m` is total: every key of its key type is present, with a well-formed declared result -/
def totalOn (m : ModuleId) : Bool :=
  (allKeys m.info.shape).all fun k => match declared m k with
    | some r => RetWF r
    | none => false

set_option maxRecDepth 100000 in
theorem c05_tables_total_bool : ∀ m : ModuleId, totalOn m = true := by
  intro m
  cases m <;> decide +kernel

private theorem lookup_mem {α β : Type} [BEq α] [LawfulBEq α] (k : α) (r : β) :
    ∀ l : List (α × β), l.lookup k = some r → (k, r) ∈ l := by
  intro l
  induction l with
  | nil => intro h; simp [List.lookup] at h
  | cons p l ih =>
    intro h
    obtain ⟨k', r'⟩ := p
    by_cases hk : k == k'
    · simp only [List.lookup, hk] at h
      have : k = k' := eq_of_beq hk
      cases h; subst this; exact List.mem_cons_self
    · have hk' : (k == k') = false := by simpa using hk
      simp only [List.lookup, hk'] at h
      exact List.mem_cons_of_mem _ (ih h)

/-- C05, "every method is defined for every coordinate system of its operands", on the generated tables: for EVERY
module and EVERY key of the module's key type the key is present in the dispatch table, and the declared result is
well formed (`float`, `bool`, or a vector `az [, lon|None [, tmp|None]]`). -/
theorem c05_tables_total (m : ModuleId) (k : List KA) (hk : keyFits k m.info.shape = true) :
    ∃ r, declared m k = some r ∧ (k, r) ∈ m.table ∧ RetWF r = true := by
  have ht := c05_tables_total_bool m
  have hmem := c05_allKeys_complete m.info.shape k hk
  have := List.all_eq_true.mp ht k hmem
  cases hd : declared m k with
  | none => rw [hd] at this; cases this
  | some r =>
    rw [hd] at this
    exact ⟨r, rfl, lookup_mem k r m.table hd, this⟩

/-- the tables contain nothing else: every key of a table is a key of the module's key type, and no key occurs twice
(so the table has exactly one entry per key of the key type) -/
theorem c05_tables_exact : ∀ m : ModuleId,
    (∀ e ∈ m.table, keyFits e.1 m.info.shape = true) ∧ (m.table.map (·.1)).Nodup ∧
      m.table.length = (allKeys m.info.shape).length := by
  intro m
  cases m <;> decide +kernel

/-! ### 4. dimension guards of the binary methods -/

/-- the binary methods that require operands of equal dimension -/
def Bin.sameDim : Bin → Bool
  | .add | .subtract | .dot | .equal | .not_equal | .isclose | .is_parallel | .is_antiparallel | .is_perpendicular => true
  | _ => false

/-- add, subtract, dot, equal, not_equal, isclose, is_parallel, is_antiparallel, is_perpendicular raise TypeError for
operands of different dimension -/
theorem c05_binary_sameDim_guard (ev : Ev S B) (K : Consts S) (b : Bin) (self o : Vec S) (extra : List S)
    (hb : b.sameDim = true) (hd : o.ty.dim ≠ self.ty.dim) : binary ev K b self o extra = .error .typeError := by
  cases b <;> simp [Bin.sameDim] at hb <;> simp [binary, hd]

/-- the same-dimension methods have a module for each of the dimensions 2, 3, 4 -/
theorem c05_sameDimMod_isSome (b : Bin) (hb : b.sameDim = true) (d : Nat) (hd : d = 2 ∨ d = 3 ∨ d = 4) :
    (b.sameDimMod d).isSome = true := by
  rcases hd with rfl | rfl | rfl <;> cases b <;> simp [Bin.sameDim] at hb <;> rfl

/-- scalar arguments of the same-dimension methods: none, the tolerance, or `rtol, atol, equal_nan` (defaults unless given) -/
def Bin.scalars (K : Consts S) (b : Bin) (extra : List S) : List S :=
  match b with
  | .isclose => if extra.isEmpty then [K.rtol, K.atol, K.bFalse] else extra
  | .is_parallel | .is_antiparallel | .is_perpendicular => if extra.isEmpty then [K.tol] else extra
  | _ => []

/-- … and for operands of equal dimension they dispatch to the module of that dimension on `[self, o]`, both counted
for handler and flavor -/
theorem c05_binary_sameDim_ok (ev : Ev S B) (K : Consts S) (b : Bin) (self o : Vec S) (extra : List S)
    (hb : b.sameDim = true) (hd : o.ty.dim = self.ty.dim) :
    ∃ m, b.sameDimMod self.ty.dim = some m ∧
      binary ev K b self o extra = dispatch ev m (b.scalars K extra) none [self, o] [self, o] := by
  have hs := c05_sameDimMod_isSome b hb self.ty.dim (c05_dim_range self.ty)
  obtain ⟨m, hm⟩ := Option.isSome_iff_exists.mp hs
  refine ⟨m, hm, ?_⟩
  cases b <;> simp [Bin.sameDim] at hb <;> simp [binary, hd, hm, Bin.scalars]

/-- `cross` is a method of 3D (and 4D) vectors only, and raises TypeError unless both operands are 3D -/
theorem c05_cross_guard (ev : Ev S B) (K : Consts S) (self o : Vec S) (extra : List S)
    (hd : self.ty.dim ≠ 3 ∨ o.ty.dim ≠ 3) :
    binary ev K .cross self o extra = .error (if self.ty.dim < 3 then .attributeError else .typeError) := by
  by_cases h2 : self.ty.dim < 3
  · simp [binary, h2]
  · rcases hd with hd | hd <;> simp [binary, h2, hd]

theorem c05_cross_ok (ev : Ev S B) (K : Consts S) (self o : Vec S) (extra : List S)
    (h1 : self.ty.dim = 3) (h2 : o.ty.dim = 3) :
    binary ev K .cross self o extra = dispatch ev .spatial_cross [] none [self, o] [self, o] := by
  simp [binary, h1, h2]

/-- the boosts are methods of 4D vectors only -/
theorem c05_boost_needs_4D (ev : Ev S B) (K : Consts S) (b : Bin) (self o : Vec S) (extra : List S)
    (hb : b = .boost_p4 ∨ b = .boost_beta3 ∨ b = .boost ∨ b = .boostCM_of_p4 ∨ b = .boostCM_of_beta3 ∨ b = .boostCM_of)
    (hd : self.ty.dim < 4) : binary ev K b self o extra = .error .attributeError := by
  rcases hb with rfl | rfl | rfl | rfl | rfl | rfl <;> simp [binary, hd]

/-- `boost_p4` needs a 4D booster -/
theorem c05_boost_p4_guard (ev : Ev S B) (K : Consts S) (self o : Vec S) (extra : List S)
    (hs : self.ty.dim = 4) (hd : o.ty.dim ≠ 4) : binary ev K .boost_p4 self o extra = .error .typeError := by
  simp [binary, hs, hd]

theorem c05_boost_p4_ok (ev : Ev S B) (K : Consts S) (self o : Vec S) (extra : List S)
    (hs : self.ty.dim = 4) (hd : o.ty.dim = 4) :
    binary ev K .boost_p4 self o extra = dispatch ev .lorentz_boost_p4 [] none [self, o] [self, o] := by
  simp [binary, hs, hd]

/-- `boost_beta3` needs a 3D booster -/
theorem c05_boost_beta3_guard (ev : Ev S B) (K : Consts S) (self o : Vec S) (extra : List S)
    (hs : self.ty.dim = 4) (hd : o.ty.dim ≠ 3) : binary ev K .boost_beta3 self o extra = .error .typeError := by
  simp [binary, hs, hd]

theorem c05_boost_beta3_ok (ev : Ev S B) (K : Consts S) (self o : Vec S) (extra : List S)
    (hs : self.ty.dim = 4) (hd : o.ty.dim = 3) :
    binary ev K .boost_beta3 self o extra = dispatch ev .lorentz_boost_beta3 [] none [self, o] [self, o] := by
  simp [binary, hs, hd]

/-- `boost` dispatches on the dimension of the booster: 3 ↦ `boost_beta3`, 4 ↦ `boost_p4`, anything else is a TypeError -/
theorem c05_boost_dispatch (ev : Ev S B) (K : Consts S) (self o : Vec S) (extra : List S) :
    binary ev K .boost self o extra =
      if o.ty.dim = 3 then binary ev K .boost_beta3 self o extra
      else if o.ty.dim = 4 then binary ev K .boost_p4 self o extra
      else if self.ty.dim < 4 then .error .attributeError else .error .typeError := by
  by_cases hs : self.ty.dim < 4
  · simp [binary, hs]
  · by_cases h3 : o.ty.dim = 3
    · simp [binary, hs, h3]
    · by_cases h4 : o.ty.dim = 4
      · simp [binary, hs, h4]
      · simp [binary, hs, h3, h4]

theorem c05_boost_guard (ev : Ev S B) (K : Consts S) (self o : Vec S) (extra : List S)
    (hs : self.ty.dim = 4) (hd : o.ty.dim = 2) : binary ev K .boost self o extra = .error .typeError := by
  simp [binary, hs, hd]

/-- `boostCM_of_p4` needs a 4D operand, `boostCM_of_beta3` a 3D one -/
theorem c05_boostCM_of_p4_guard (ev : Ev S B) (K : Consts S) (self o : Vec S) (extra : List S)
    (hs : self.ty.dim = 4) (hd : o.ty.dim ≠ 4) : binary ev K .boostCM_of_p4 self o extra = .error .typeError := by
  have : ¬ (4 = o.ty.dim) := fun h => hd h.symm
  simp [binary, hs, this]

theorem c05_boostCM_of_beta3_guard (ev : Ev S B) (K : Consts S) (self o : Vec S) (extra : List S)
    (hs : self.ty.dim = 4) (hd : o.ty.dim ≠ 3) : binary ev K .boostCM_of_beta3 self o extra = .error .typeError := by
  have : ¬ (3 = o.ty.dim) := fun h => hd h.symm
  simp [binary, hs, this]

/-- `boostCM_of` dispatches on the dimension of its operand like `boost` -/
theorem c05_boostCM_of_dispatch (ev : Ev S B) (K : Consts S) (self o : Vec S) (extra : List S) :
    binary ev K .boostCM_of self o extra =
      if o.ty.dim = 3 then binary ev K .boostCM_of_beta3 self o extra
      else if o.ty.dim = 4 then binary ev K .boostCM_of_p4 self o extra
      else if self.ty.dim < 4 then .error .attributeError else .error .typeError := by
  by_cases hs : self.ty.dim < 4
  · simp [binary, hs]
  · by_cases h3 : o.ty.dim = 3
    · simp [binary, hs, h3]
    · by_cases h4 : o.ty.dim = 4
      · simp [binary, hs, h4]
      · simp [binary, hs, h3, h4]

/-- `boostCM_of*` boosts by the negated (spatial part of the) operand, with the module of the operand's dimension -/
theorem c05_boostCM_of_ok (ev : Ev S B) (K : Consts S) (b : Bin) (self o n : Vec S) (extra : List S)
    (hb : b = .boostCM_of_p4 ∧ o.ty.dim = 4 ∨ b = .boostCM_of_beta3 ∧ o.ty.dim = 3 ∨
          b = .boostCM_of ∧ (o.ty.dim = 3 ∨ o.ty.dim = 4))
    (hs : self.ty.dim = 4) (hn : negN ev K 3 o = .ok (.vec n)) :
    binary ev K b self o extra =
      dispatch ev (if o.ty.dim = 4 then .lorentz_boost_p4 else .lorentz_boost_beta3) [] none [self, n] [self, n] := by
  rcases hb with ⟨rfl, h⟩ | ⟨rfl, h⟩ | ⟨rfl, h | h⟩ <;> simp [binary, hs, h, hn]

/-- `rotate_axis`: an axis of dimension ≠ 3 is a TypeError; the axis is a secondary argument — it is passed to the
compute function but only `self` counts for handler and flavor -/
theorem c05_call_rotate_axis (ev : Ev S B) (K : Consts S) (A : Arith S) (self axis : Vec S) (a : S) :
    call ev K A "rotate_axis" self [.v axis, .sc a] =
      if self.ty.dim < 3 then .error .attributeError else
      if axis.ty.dim != 3 then .error .typeError else dispatch ev .spatial_rotate_axis [a] none [axis, self] [self] := rfl

theorem c05_rotate_axis_guard (ev : Ev S B) (K : Consts S) (A : Arith S) (self axis : Vec S) (a : S)
    (hs : 3 ≤ self.ty.dim) (hd : axis.ty.dim ≠ 3) :
    call ev K A "rotate_axis" self [.v axis, .sc a] = .error .typeError := by
  rw [c05_call_rotate_axis]
  have : ¬ self.ty.dim < 3 := by omega
  simp [this, hd]

/-- hence the result of `rotate_axis` has the backend and flavor of `self`, whatever the axis is -/
theorem c05_rotate_axis_be_mom (ev : Ev S B) (K : Consts S) (A : Arith S) (self axis r : Vec S) (a : S)
    (h : call ev K A "rotate_axis" self [.v axis, .sc a] = .ok (.vec r)) :
    r.ty.be = self.ty.be ∧ r.ty.mom = self.ty.mom := by
  rw [c05_call_rotate_axis] at h
  split at h
  · cases h
  · split at h
    · cases h
    · obtain ⟨hd, hh, h1, h2⟩ := c05_dispatch_be_mom _ _ _ _ _ _ _ h
      have : hd = self := by
        have : handlerOf [self] = some self := rfl
        rw [this] at hh; cases hh; rfl
      subst this
      exact ⟨h1, by simpa using h2⟩

/-! ### 6. operators are their methods -/

theorem c05_op_add (ev : Ev S B) (K : Consts S) (A : Arith S) (self o : Vec S) :
    operator ev K A "add" self [.v o] = call ev K A "add" self [.v o] := rfl

theorem c05_op_sub (ev : Ev S B) (K : Consts S) (A : Arith S) (self o : Vec S) :
    operator ev K A "sub" self [.v o] = call ev K A "subtract" self [.v o] := rfl

theorem c05_op_matmul (ev : Ev S B) (K : Consts S) (A : Arith S) (self o : Vec S) :
    operator ev K A "matmul" self [.v o] = call ev K A "dot" self [.v o] := rfl

theorem c05_op_eq (ev : Ev S B) (K : Consts S) (A : Arith S) (self o : Vec S) :
    operator ev K A "eq" self [.v o] = call ev K A "equal" self [.v o] := rfl

theorem c05_op_ne (ev : Ev S B) (K : Consts S) (A : Arith S) (self o : Vec S) :
    operator ev K A "ne" self [.v o] = call ev K A "not_equal" self [.v o] := rfl

theorem c05_op_mul (ev : Ev S B) (K : Consts S) (A : Arith S) (self : Vec S) (f : S) :
    operator ev K A "mul" self [.sc f] = call ev K A "scale" self [.sc f] := rfl

theorem c05_op_rmul (ev : Ev S B) (K : Consts S) (A : Arith S) (self : Vec S) (f : S) :
    operator ev K A "rmul" self [.sc f] = call ev K A "scale" self [.sc f] := rfl

theorem c05_op_truediv (ev : Ev S B) (K : Consts S) (A : Arith S) (self : Vec S) (f : S) :
    operator ev K A "truediv" self [.sc f] = call ev K A "scale" self [.sc (A.inv f)] := rfl

theorem c05_op_neg (ev : Ev S B) (K : Consts S) (A : Arith S) (self : Vec S) :
    operator ev K A "neg" self [] = call ev K A "scale" self [.sc K.negOne] := rfl

/-- the generic accessor names are read through `getAcc` -/
theorem c05_call_acc (ev : Ev S B) (K : Consts S) (A : Arith S) (self : Vec S) :
    call ev K A "rho" self [] = getAcc ev .rho self ∧ call ev K A "mag" self [] = getAcc ev .mag self ∧
    call ev K A "tau" self [] = getAcc ev .tau self ∧ call ev K A "rho2" self [] = getAcc ev .rho2 self ∧
    call ev K A "mag2" self [] = getAcc ev .mag2 self ∧ call ev K A "tau2" self [] = getAcc ev .tau2 self :=
  ⟨rfl, rfl, rfl, rfl, rfl, rfl⟩

/-- `abs(v)` is `rho`, `mag` or `tau` by dimension -/
theorem c05_op_abs (ev : Ev S B) (K : Consts S) (A : Arith S) (self : Vec S) :
    operator ev K A "abs" self [] =
      call ev K A (if self.ty.dim = 2 then "rho" else if self.ty.dim = 3 then "mag" else "tau") self [] := by
  have e : operator ev K A "abs" self [] = getAcc ev (normAcc self.ty.dim) self := rfl
  rw [e]
  rcases c05_dim_range self.ty with h | h | h <;> simp only [h, normAcc] <;>
    simp only [Nat.reduceEqDiff, if_true, if_false, (c05_call_acc ev K A self).1, (c05_call_acc ev K A self).2.1,
      (c05_call_acc ev K A self).2.2.1]

/-- `v ** 2` and `np.square(v)` are `rho2`, `mag2` or `tau2` by dimension -/
theorem c05_op_square (ev : Ev S B) (K : Consts S) (A : Arith S) (self : Vec S) :
    operator ev K A "square" self [] =
      call ev K A (if self.ty.dim = 2 then "rho2" else if self.ty.dim = 3 then "mag2" else "tau2") self [] := by
  have e : operator ev K A "square" self [] = getAcc ev (norm2Acc self.ty.dim) self := rfl
  rw [e]
  rcases c05_dim_range self.ty with h | h | h <;> simp only [h, norm2Acc] <;>
    simp only [Nat.reduceEqDiff, if_true, if_false, (c05_call_acc ev K A self).2.2.2.1,
      (c05_call_acc ev K A self).2.2.2.2.1, (c05_call_acc ev K A self).2.2.2.2.2]

/-- `+v` is `v` -/
theorem c05_op_pos (ev : Ev S B) (K : Consts S) (A : Arith S) (self : Vec S) :
    operator ev K A "pos" self [] = .ok (.vec self) := rfl

/-- an operator gives the same TYPE as its method too: both sides above are the same `Except Err (Res S B)` value, so
in particular the same result class, flavor, dimension and coordinate system -/
theorem c05_op_add_type (ev : Ev S B) (K : Consts S) (A : Arith S) (self o r r' : Vec S)
    (h : operator ev K A "add" self [.v o] = .ok (.vec r)) (h' : call ev K A "add" self [.v o] = .ok (.vec r')) :
    r.ty = r'.ty ∧ r.c = r'.c := by
  rw [c05_op_add, h'] at h; cases h; exact ⟨rfl, rfl⟩

/-! ### the coordinate system of the result depends only on the operands' coordinate systems -/

/-- key atoms contributed by one operand, from its TYPE alone -/
def opKeyT (t : VT) (n : Nat) : Option (List KA) :=
  match n, t.lon, t.tmp with
  | 1, _, _ => some [.az t.az]
  | 2, some l, _ => some [.az t.az, .lon l]
  | 3, some l, some tm => some [.az t.az, .lon l, .tmp tm]
  | _, _, _ => none

theorem c05_operandKey_type (v : Vec S) (n : Nat) : (operandKey v n).map (·.1) = opKeyT v.ty n := by
  unfold operandKey opKeyT
  split <;> simp_all

/-- the dispatch key, from the module, the Euler order and the operand TYPES alone -/
def dispatchKey (m : ModuleId) (ord : Option Ord) (tys : List VT) : Option (List KA) :=
  if (operandSlots m.info.shape).length != tys.length then none else
  ((tys.zip (operandSlots m.info.shape)).mapM fun p => opKeyT p.1 p.2).map fun ks =>
    ks.flatten ++ (match ord with | some o => [KA.ord o] | none => [])

private theorem mapM_key : ∀ (l : List (Vec S × Nat)) (parts : List (List KA × List S)),
    l.mapM (fun p => operandKey p.1 p.2) = some parts →
    (l.map fun p => (p.1.ty, p.2)).mapM (fun p => opKeyT p.1 p.2) = some (parts.map (·.1)) := by
  intro l
  induction l with
  | nil => intro parts h; simp at h; subst h; simp
  | cons p l ih =>
    intro parts h
    rw [List.mapM_cons] at h
    rw [List.map_cons, List.mapM_cons]
    cases hf : operandKey p.1 p.2 with
    | none => rw [hf] at h; simp at h
    | some b =>
      cases hr : l.mapM (fun p => operandKey p.1 p.2) with
      | none => rw [hf, hr] at h; simp at h
      | some bs =>
        rw [hf, hr] at h
        simp at h
        subst h
        have := c05_operandKey_type p.1 p.2
        rw [hf] at this
        simp at this
        rw [← this, ih bs hr]
        simp

/-- inversion of `dispatch`, with the key made explicit: it is `dispatchKey` of the operand types -/
theorem c05_dispatch_inv_key (ev : Ev S B) (m : ModuleId) (sc : List S) (ord : Option Ord) (ops counted : List (Vec S))
    (res : Res S B) (h : dispatch ev m sc ord ops counted = .ok res) :
    ∃ key args out ret hd, dispatchKey m ord (ops.map (·.ty)) = some key ∧ ev m key args = some (out, ret) ∧
      handlerOf counted = some hd ∧ wrapResult hd hd.ty.be (counted.any (·.ty.mom)) out ret = .ok res := by
  unfold dispatch at h
  simp only [] at h
  split at h
  · cases h
  · rename_i hlen
    split at h
    · cases h
    · rename_i parts hparts
      split at h
      · cases h
      · split at h
        · cases h
        · refine ⟨_, _, _, _, _, ?_, by assumption, by assumption, h⟩
          have hk := mapM_key (ops.zip (operandSlots m.info.shape)) parts hparts
          unfold dispatchKey
          rw [List.length_map, if_neg hlen, List.zip_map_left]
          have e : (List.map (Prod.map (fun x : Vec S => x.ty) id) (ops.zip (operandSlots m.info.shape)))
              = (List.map (fun p => (p.1.ty, p.2)) (ops.zip (operandSlots m.info.shape))) := rfl
          rw [e, hk]
          rfl

/-- the handler, on types -/
def handlerT (ts : List VT) : Option VT :=
  ts.foldl (fun h t => match h with
    | none => some t
    | some h => if t.be.prio > h.be.prio then some t else some h) none

private theorem handler_fold_ty (vs : List (Vec S)) : ∀ acc : Option (Vec S),
    (vs.foldl (fun h v => match h with
      | none => some v
      | some h => if v.ty.be.prio > h.ty.be.prio then some v else some h) acc).map (·.ty) =
    (vs.map (·.ty)).foldl (fun h t => match h with
      | none => some t
      | some h => if t.be.prio > h.be.prio then some t else some h) (acc.map (·.ty)) := by
  induction vs with
  | nil => intro acc; rfl
  | cons v vs ih =>
    intro acc
    rw [List.foldl_cons, ih, List.map_cons, List.foldl_cons]
    congr 1
    cases acc with
    | none => rfl
    | some a =>
      simp only [Option.map_some]
      split <;> rfl

/-- the TYPE of the handler depends only on the operand types -/
theorem c05_handlerOf_type (vs : List (Vec S)) : (handlerOf vs).map (·.ty) = handlerT (vs.map (·.ty)) :=
  handler_fold_ty vs none

/-- assumption on the compute layer: the declared result it returns for a key is the one in the generated table
(proved for the generated executable model below) -/
structure EvTables (ev : Ev S B) : Prop where
  ret_declared : ∀ m k a out ret, ev m k a = some (out, ret) → declared m k = some ret

/-- C05, coordinate system: the TYPE of a vector result (class, flavor, coordinate systems, dimension) depends only on the
method's module, the Euler order and the TYPES of the operands — never on a coordinate value or scalar argument -/
theorem c05_dispatch_type_only (ev : Ev S B) (hev : EvTables ev) (m : ModuleId) (sc sc' : List S) (ord : Option Ord)
    (ops ops' counted counted' : List (Vec S)) (r r' : Vec S)
    (hops : ops.map (·.ty) = ops'.map (·.ty)) (hc : counted.map (·.ty) = counted'.map (·.ty))
    (h : dispatch ev m sc ord ops counted = .ok (.vec r)) (h' : dispatch ev m sc' ord ops' counted' = .ok (.vec r')) :
    r.ty = r'.ty := by
  obtain ⟨key, args, out, ret, hd, hk, he, hh, hw⟩ := c05_dispatch_inv_key ev m sc ord ops counted _ h
  obtain ⟨key', args', out', ret', hd', hk', he', hh', hw'⟩ := c05_dispatch_inv_key ev m sc' ord ops' counted' _ h'
  rw [hops, hk'] at hk
  cases hk
  have hr := hev.ret_declared _ _ _ _ _ he
  rw [hev.ret_declared _ _ _ _ _ he'] at hr
  cases hr
  have hty : hd.ty = hd'.ty := by
    have h1 := c05_handlerOf_type counted
    have h2 := c05_handlerOf_type counted'
    rw [hh] at h1; rw [hh', ← hc, ← h1] at h2
    simpa using h2.symm
  have hmom : counted.any (·.ty.mom) = counted'.any (·.ty.mom) := by
    have e : ∀ l : List (Vec S), l.any (·.ty.mom) = (l.map (·.ty)).any (·.mom) := by
      intro l; rw [List.any_map]; rfl
    rw [e, e, hc]
  obtain ⟨raw, parts, _, rfl, hv⟩ := c05_wrapResult_vec _ _ _ _ _ _ hw
  obtain ⟨raw', parts', _, hp, hv'⟩ := c05_wrapResult_vec _ _ _ _ _ _ hw'
  cases hp
  rw [← hmom, ← hty] at hv'
  exact c05_wrapVec_type_only hd hd' r r' _ _ raw raw' parts hty hv hv'


/-! ### the documented dimension of the result, method by method -/

/-- the kinds of declared result that occur in the tables -/
inductive RKind | float | bool | A | AL | AL0 | ALT
  deriving DecidableEq, Repr

def retKind : Ret → Option RKind
  | .float => some .float
  | .bool => some .bool
  | .vec [.az _] => some .A
  | .vec [.az _, .lon _] => some .AL
  | .vec [.az _, .lon _, .none] => some .AL0
  | .vec [.az _, .lon _, .tmp _] => some .ALT
  | _ => none

/-- the kind of result each compute module declares (uniformly, for all of its keys) -/
def _root_.VK.ModuleId.kind : ModuleId → RKind
  | .planar_add | .planar_subtract | .planar_rotateZ | .planar_scale | .planar_transform2D | .planar_unit => .A
  | .spatial_add | .spatial_subtract | .spatial_rotateX | .spatial_rotateY | .spatial_rotate_axis
  | .spatial_rotate_euler | .spatial_rotate_quaternion | .spatial_scale | .spatial_transform3D | .spatial_unit => .AL
  | .spatial_cross | .lorentz_to_beta3 => .AL0
  | .lorentz_add | .lorentz_subtract | .lorentz_boostX_beta | .lorentz_boostX_gamma | .lorentz_boostY_beta
  | .lorentz_boostY_gamma | .lorentz_boostZ_beta | .lorentz_boostZ_gamma | .lorentz_boost_beta3 | .lorentz_boost_p4
  | .lorentz_scale | .lorentz_transform4D | .lorentz_unit => .ALT
  | .lorentz_equal | .lorentz_is_lightlike | .lorentz_is_spacelike | .lorentz_is_timelike | .lorentz_isclose
  | .lorentz_not_equal | .planar_equal | .planar_is_antiparallel | .planar_is_parallel | .planar_is_perpendicular
  | .planar_isclose | .planar_not_equal | .spatial_equal | .spatial_is_antiparallel | .spatial_is_parallel
  | .spatial_is_perpendicular | .spatial_isclose | .spatial_not_equal => .bool
  | _ => .float

/-- every entry of a module's table declares a result of the module's kind -/
theorem c05_module_kind : ∀ m : ModuleId, ∀ e ∈ m.table, retKind e.2 = some m.kind := by
  intro m
  cases m <;> decide +kernel

/-- dimension of a vector result of each kind, given the dimension of the handler -/
def kindDim : RKind → Nat → Nat
  | .A, d => d
  | .AL, d => if d = 4 then 4 else 3
  | .AL0, _ => 3
  | .ALT, _ => 4
  | _, _ => 0

def RKind.isVec : RKind → Bool
  | .float | .bool => false
  | _ => true

private theorem resultDim_kind (parts : List RP) (k : RKind) (d : Nat) (h : retKind (.vec parts) = some k) :
    resultDim parts d = kindDim k d ∧ k.isVec = true := by
  unfold retKind at h
  split at h <;> first | (cases h; done) | (rename_i heq; cases heq <;> (cases h; exact ⟨rfl, rfl⟩))

/-- the dimension of a vector result of `dispatch`: determined by the module's kind and the handler's dimension;
a module that declares `float`/`bool` never gives a vector -/
theorem c05_dispatch_dim_kind (ev : Ev S B) (hev : EvTables ev) (m : ModuleId) (sc : List S) (ord : Option Ord)
    (ops counted : List (Vec S)) (r : Vec S) (h : dispatch ev m sc ord ops counted = .ok (.vec r)) :
    ∃ hd, handlerOf counted = some hd ∧ r.ty.dim = kindDim m.kind hd.ty.dim ∧ m.kind.isVec = true := by
  obtain ⟨key, args, raw, parts, hd, he, hh, _, hdim⟩ := c05_dispatch_dim ev m sc ord ops counted r h
  have hm := lookup_mem _ _ _ (hev.ret_declared _ _ _ _ _ he)
  have hk := c05_module_kind m _ hm
  obtain ⟨h1, h2⟩ := resultDim_kind parts m.kind hd.ty.dim hk
  exact ⟨hd, hh, by rw [hdim, h1], h2⟩

/-- scalar and truth results come from modules that declare them -/
theorem c05_dispatch_scalar_kind (ev : Ev S B) (hev : EvTables ev) (m : ModuleId) (sc : List S) (ord : Option Ord)
    (ops counted : List (Vec S)) (s : S) (h : dispatch ev m sc ord ops counted = .ok (.scalar s)) : m.kind = .float := by
  obtain ⟨key, args, out, ret, hd, he, hh, hw⟩ := c05_dispatch_inv ev m sc ord ops counted _ h
  obtain ⟨rfl, _⟩ := c05_wrapResult_scalar _ _ _ _ _ _ hw
  have hk := c05_module_kind m _ (lookup_mem _ _ _ (hev.ret_declared _ _ _ _ _ he))
  simp [retKind] at hk; exact hk.symm

theorem c05_dispatch_truth_kind (ev : Ev S B) (hev : EvTables ev) (m : ModuleId) (sc : List S) (ord : Option Ord)
    (ops counted : List (Vec S)) (b : B) (h : dispatch ev m sc ord ops counted = .ok (.truth b)) : m.kind = .bool := by
  obtain ⟨key, args, out, ret, hd, he, hh, hw⟩ := c05_dispatch_inv ev m sc ord ops counted _ h
  obtain ⟨rfl, _⟩ := c05_wrapResult_truth _ _ _ _ _ _ hw
  have hk := c05_module_kind m _ (lookup_mem _ _ _ (hev.ret_declared _ _ _ _ _ he))
  simp [retKind] at hk; exact hk.symm

end
end VG
