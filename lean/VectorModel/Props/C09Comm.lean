/-
C09 — boosts are Lorentz transformations with the documented relations: how an axis boost sits next to the rest.
Theorems about the generated real-number model of `_compute/lorentz/boost{X,Y,Z}_beta.py` and
`_compute/spatial/rotate{X,Y}.py`, `_compute/planar/rotateZ.py` (Cartesian variants):

* a boost along an axis leaves the two transverse components untouched, for EVERY value of the parameter;
* a boost along an axis commutes with the rotation about the same axis (no hypothesis: a polynomial identity);
* an axis boost with |β| < 1 is ORTHOCHRONOUS: it keeps the sign of `t` of a time-like vector (future stays future);
* the boost by β = 0 is the identity.
-/
import VectorModel.Props.C09
import VectorModel.Props.C10

namespace VR
open VK

/-- rotate the spatial part of a four-vector with a generated 3D rotation, keep `t` (what the method layer does:
`_wrap_result` passes the temporal coordinate through for a spatial operation) -/
def rot4 (f : ℝ → ℝ → ℝ → ℝ × ℝ × ℝ) (v : V4) : V4 :=
  ((f v.1 v.2.1 v.2.2.1).1, (f v.1 v.2.1 v.2.2.1).2.1, (f v.1 v.2.1 v.2.2.1).2.2, v.2.2.2)

/-! ### transverse components -/

theorem c09_boostX_beta_transverse (β : ℝ) (v : V4) : (bXβ β v).2.1 = v.2.1 ∧ (bXβ β v).2.2.1 = v.2.2.1 := by
  obtain ⟨x, y, z, t⟩ := v
  simp only [d_lorentz_boostX_beta, and_self]

theorem c09_boostY_beta_transverse (β : ℝ) (v : V4) : (bYβ β v).1 = v.1 ∧ (bYβ β v).2.2.1 = v.2.2.1 := by
  obtain ⟨x, y, z, t⟩ := v
  simp only [d_lorentz_boostY_beta, and_self]

theorem c09_boostZ_beta_transverse (β : ℝ) (v : V4) : (bZβ β v).1 = v.1 ∧ (bZβ β v).2.1 = v.2.1 := by
  obtain ⟨x, y, z, t⟩ := v
  simp only [d_lorentz_boostZ_beta, and_self]

/-! ### a boost along an axis commutes with the rotation about that axis -/

theorem c09_boostX_rotateX_comm (β a : ℝ) (v : V4) :
    bXβ β (rot4 (spatial_rotateX.xy_z a) v) = rot4 (spatial_rotateX.xy_z a) (bXβ β v) := by
  obtain ⟨x, y, z, t⟩ := v
  simp only [d_lorentz_boostX_beta, rot4, spatial_rotateX.xy_z]

theorem c09_boostY_rotateY_comm (β a : ℝ) (v : V4) :
    bYβ β (rot4 (spatial_rotateY.xy_z a) v) = rot4 (spatial_rotateY.xy_z a) (bYβ β v) := by
  obtain ⟨x, y, z, t⟩ := v
  simp only [d_lorentz_boostY_beta, rot4, spatial_rotateY.xy_z]

/-- `rotateZ` acts on the azimuthal pair only (planar module); lifted to `(x, y, z)` -/
noncomputable def rotZ3 (a x y z : ℝ) : ℝ × ℝ × ℝ := ((planar_rotateZ.xy a x y).1, (planar_rotateZ.xy a x y).2, z)

theorem c09_boostZ_rotateZ_comm (β a : ℝ) (v : V4) :
    bZβ β (rot4 (rotZ3 a) v) = rot4 (rotZ3 a) (bZβ β v) := by
  obtain ⟨x, y, z, t⟩ := v
  simp only [d_lorentz_boostZ_beta, rot4, rotZ3]

/-! ### orthochronous -/

private theorem g_pos {β : ℝ} (hβ : |β| < 1) : 0 < P.rpow (1 - β ^ 2) (-(0.5 : ℝ)) := by
  have hu : 0 < 1 - β ^ 2 := by have := abs_lt.mp hβ; nlinarith
  show 0 < Real.rpow (1 - β ^ 2) (-(0.5 : ℝ))
  exact Real.rpow_pos_of_pos hu _

private theorem key_pos {β x t : ℝ} (hβ : |β| < 1) (ht : |x| < t) : 0 < t + β * x := by
  have h1 : |β * x| ≤ |x| := by
    rw [abs_mul]; exact mul_le_of_le_one_left (abs_nonneg x) hβ.le
  have h2 := neg_abs_le (β * x)
  linarith

/-- future-directed stays future-directed: if `t > |x|` (in particular for every time-like or light-like future
vector) then the boosted `t` is positive -/
theorem c09_boostX_beta_orthochronous (β : ℝ) (v : V4) (hβ : |β| < 1) (ht : |v.1| < v.2.2.2) :
    0 < (bXβ β v).2.2.2 := by
  obtain ⟨x, y, z, t⟩ := v
  have hg := g_pos hβ
  simp only [d_lorentz_boostX_beta]
  set g := P.rpow (1 - β ^ 2) (-(0.5 : ℝ))
  have hk := key_pos hβ ht
  show 0 < β * g * x + g * t
  have : β * g * x + g * t = g * (t + β * x) := by ring
  rw [this]; exact mul_pos hg hk

theorem c09_boostY_beta_orthochronous (β : ℝ) (v : V4) (hβ : |β| < 1) (ht : |v.2.1| < v.2.2.2) :
    0 < (bYβ β v).2.2.2 := by
  obtain ⟨x, y, z, t⟩ := v
  have hg := g_pos hβ
  simp only [d_lorentz_boostY_beta]
  set g := P.rpow (1 - β ^ 2) (-(0.5 : ℝ))
  have hk := key_pos hβ ht
  show 0 < β * g * y + g * t
  have : β * g * y + g * t = g * (t + β * y) := by ring
  rw [this]; exact mul_pos hg hk

theorem c09_boostZ_beta_orthochronous (β : ℝ) (v : V4) (hβ : |β| < 1) (ht : |v.2.2.1| < v.2.2.2) :
    0 < (bZβ β v).2.2.2 := by
  obtain ⟨x, y, z, t⟩ := v
  have hg := g_pos hβ
  simp only [d_lorentz_boostZ_beta]
  set g := P.rpow (1 - β ^ 2) (-(0.5 : ℝ))
  have hk := key_pos hβ ht
  show 0 < β * g * z + g * t
  have : β * g * z + g * t = g * (t + β * z) := by ring
  rw [this]; exact mul_pos hg hk

/-! ### β = 0 -/

theorem c09_boostX_beta_zero (v : V4) : bXβ 0 v = v := by
  obtain ⟨x, y, z, t⟩ := v
  have h1 : P.rpow (1 - (0 : ℝ) ^ 2) (-(0.5 : ℝ)) = 1 := by
    show Real.rpow (1 - (0 : ℝ) ^ 2) (-(0.5 : ℝ)) = 1
    norm_num
  simp only [d_lorentz_boostX_beta, h1]
  refine Prod.ext ?_ (Prod.ext rfl (Prod.ext rfl ?_)) <;> simp

theorem c09_boostY_beta_zero (v : V4) : bYβ 0 v = v := by
  obtain ⟨x, y, z, t⟩ := v
  have h1 : P.rpow (1 - (0 : ℝ) ^ 2) (-(0.5 : ℝ)) = 1 := by
    show Real.rpow (1 - (0 : ℝ) ^ 2) (-(0.5 : ℝ)) = 1
    norm_num
  simp only [d_lorentz_boostY_beta, h1]
  refine Prod.ext rfl (Prod.ext ?_ (Prod.ext rfl ?_)) <;> simp

theorem c09_boostZ_beta_zero (v : V4) : bZβ 0 v = v := by
  obtain ⟨x, y, z, t⟩ := v
  have h1 : P.rpow (1 - (0 : ℝ) ^ 2) (-(0.5 : ℝ)) = 1 := by
    show Real.rpow (1 - (0 : ℝ) ^ 2) (-(0.5 : ℝ)) = 1
    norm_num
  simp only [d_lorentz_boostZ_beta, h1]
  refine Prod.ext rfl (Prod.ext rfl (Prod.ext ?_ ?_)) <;> simp

/-- orthochronous, past side: a past-directed vector stays past-directed -/
theorem c09_boostZ_beta_orthochronous_past (β : ℝ) (v : V4) (hβ : |β| < 1) (ht : v.2.2.2 < -|v.2.2.1|) :
    (bZβ β v).2.2.2 < 0 := by
  obtain ⟨x, y, z, t⟩ := v
  have hg := g_pos hβ
  simp only [d_lorentz_boostZ_beta]
  set g := P.rpow (1 - β ^ 2) (-(0.5 : ℝ))
  have h1 : |β * z| ≤ |z| := by
    rw [abs_mul]; exact mul_le_of_le_one_left (abs_nonneg z) hβ.le
  have h2 := le_abs_self (β * z)
  have hk : t + β * z < 0 := by
    have : t < -|z| := ht
    linarith
  show β * g * z + g * t < 0
  have : β * g * z + g * t = g * (t + β * z) := by ring
  rw [this]; exact mul_neg_of_pos_of_neg hg hk

-- hypotheses satisfiable
example : |(0.5 : ℝ)| < 1 ∧ |((1, 0, 0, 2) : V4).1| < ((1, 0, 0, 2) : V4).2.2.2 := by
  constructor
  · rw [abs_lt]; constructor <;> norm_num
  · show |(1 : ℝ)| < 2
    rw [abs_lt]; constructor <;> norm_num

end VR
