/-
C07 — "Numba-compiled code behaves like the interpreter".
Theorems relating the model of the COMPILED object vectors (`Glue/Numba.lean`: `numbaCall`, `nbProp`, `nbSelf`, `nbBin`, …)
to the model of the interpreter (`Glue/Methods.lean`: `call`, `getAcc`, `binary`, …), for every scalar type `S`, truth
type `B` and compute layer `ev` whose declared results are those of the generated tables (`EvTables`, proved for the
generated executable model in `Props/C05.lean`).
-/
import VectorModel.Glue.Numba
import VectorModel.Props.C05

set_option linter.constructorNameAsVariable false
set_option linter.unusedVariables false
namespace VG
open VK

section
variable {S B : Type}

/-! ### 0. auxiliary facts -/

/-- the same vector with another flavor -/
def Vec.withMom (r : Vec S) (b : Bool) : Vec S := ⟨{ r.ty with mom := b }, r.c⟩

def Res.withMom : Res S B → Bool → Res S B
  | .vec r, b => .vec (r.withMom b)
  | r, _ => r

theorem Vec.withMom_self (r : Vec S) : r.withMom r.ty.mom = r := rfl

private theorem lookup_mem' {α β : Type} [BEq α] [LawfulBEq α] (k : α) (r : β) :
    ∀ l : List (α × β), l.lookup k = some r → (k, r) ∈ l := by
  intro l
  induction l with
  | nil => intro h; simp [List.lookup] at h
  | cons p l ih =>
    intro h
    obtain ⟨k', r'⟩ := p
    by_cases hk : k == k'
    · simp only [List.lookup, hk] at h
      have : k = k' := eq_of_beq hk
      cases h; subst this; exact List.mem_cons_self
    · have hk' : (k == k') = false := by simpa using hk
      simp only [List.lookup, hk'] at h
      exact List.mem_cons_of_mem _ (ih h)

/-- what numba's lookup found is an entry of the module's table, hence of the module's kind -/
private theorem nb_kind (ev : Ev S B) (hev : EvTables ev) (m : ModuleId) (sc : List S) (ord : Option Ord)
    (ops : List (Vec S × Nat)) (out : Out S B) (ret : Ret) (h : nbLookup ev m sc ord ops = some (out, ret)) :
    retKind ret = some m.kind := by
  unfold nbLookup at h
  split at h
  · cases h
  · exact c05_module_kind m _ (lookup_mem' _ _ _ (hev.ret_declared _ _ _ _ _ h))

/-- a successful interpreter `dispatch`, seen from numba's side: the same lookup, on the operands paired with the slot
counts of the module's key shape -/
private theorem disp_nb (ev : Ev S B) (hev : EvTables ev) (m : ModuleId) (sc : List S) (ord : Option Ord)
    (ops counted : List (Vec S)) (r : Res S B) (h : dispatch ev m sc ord ops counted = .ok r) :
    ∃ out ret hd, nbLookup ev m sc ord (ops.zip (operandSlots m.info.shape)) = some (out, ret) ∧
      retKind ret = some m.kind ∧ handlerOf counted = some hd ∧
      wrapResult hd hd.ty.be (counted.any (·.ty.mom)) out ret = .ok r := by
  unfold dispatch at h
  simp only [] at h
  split at h
  · cases h
  · split at h
    · cases h
    · rename_i parts hparts
      split at h
      · cases h
      · rename_i out ret hev'
        split at h
        · cases h
        · rename_i hd hh
          have hl : nbLookup ev m sc ord (ops.zip (operandSlots m.info.shape)) = some (out, ret) := by
            unfold nbLookup; rw [hparts]; exact hev'
          exact ⟨out, ret, hd, hl, nb_kind ev hev m sc ord _ out ret hl, hh, h⟩

private theorem handler_single (v : Vec S) : handlerOf [v] = some v := rfl

private theorem handler_pair_obj (a b : Vec S) (hb : b.ty.be = .obj) : handlerOf [a, b] = some a := by
  have : ¬ (b.ty.be.prio > a.ty.be.prio) := by rw [hb]; simp [Backend.prio]
  simp [handlerOf, this]

/-- scalar and truth results do not depend on the handler: the compiled code returns the same value -/
private theorem scalar_of_wrap (hd : Vec S) (be : Backend) (mom : Bool) (out : Out S B) (ret : Ret) (k : RKind) (r : Res S B)
    (hk : retKind ret = some k) (hs : k = .float ∨ k = .bool) (h : wrapResult hd be mom out ret = .ok r) :
    nbScalarRes out ret = .ok r := by
  cases ret with
  | float => unfold wrapResult at h; unfold nbScalarRes; split at h <;> simp_all
  | bool => unfold wrapResult at h; unfold nbScalarRes; split at h <;> simp_all
  | vec parts =>
    rcases hs with rfl | rfl <;>
    · unfold retKind at hk; split at hk <;> simp_all

/-- which declared results fit a compiled construction with `k` computed groups, with or without pass-through, for a
handler of dimension `dim` (with / without a longitudinal coordinate) -/
def fits (kind : RKind) (k : Nat) (pass : Bool) (dim : Nat) (lonSome : Bool) : Bool :=
  match kind, k, pass with
  | .A, 1, true => true
  | .AL, 2, true => lonSome
  | .ALT, 3, _ => true
  | .A, 1, false => dim == 2
  | .AL, 2, false => dim == 3 && lonSome
  | .AL0, 2, false => true
  | _, _, _ => false

private theorem retKind_vec (parts : List RP) (k : RKind) (h : retKind (.vec parts) = some k) :
    (k = .A ∧ ∃ a, parts = [.az a]) ∨ (k = .AL ∧ ∃ a l, parts = [.az a, .lon l]) ∨
    (k = .AL0 ∧ ∃ a l, parts = [.az a, .lon l, .none]) ∨ (k = .ALT ∧ ∃ a l t, parts = [.az a, .lon l, .tmp t]) := by
  unfold retKind at h
  split at h
  all_goals first
    | (rename_i heq; cases heq; done)
    | (cases h; done)
    | (rename_i heq; cases heq; cases h; simp)

/-- the compiled construction gives the vector `_wrap_result` gives, with the flavor the overload chose -/
private theorem wrap_nb (hd : Vec S) (mom mom' : Bool) (raw : List S) (parts : List RP) (kind : RKind) (k : Nat)
    (pass : Bool) (r : Vec S) (hbe : hd.ty.be = .obj) (hk : retKind (.vec parts) = some kind)
    (hf : fits kind k pass hd.ty.dim hd.ty.lon.isSome = true)
    (h : wrapVec hd hd.ty.be mom raw parts = .ok r) :
    nbWrap hd mom' k pass raw parts = .ok (r.withMom mom') ∧ r.ty.mom = mom ∧ r.ty.be = .obj := by
  obtain ⟨⟨be, hm, az, lon, tmp⟩, c⟩ := hd
  simp only at hbe
  subst hbe
  have hk' : k = 1 ∨ k = 2 ∨ k = 3 ∨ (k ≠ 1 ∧ k ≠ 2 ∧ k ≠ 3) := by omega
  rcases retKind_vec parts kind hk with ⟨rfl, a, rfl⟩ | ⟨rfl, a, l, rfl⟩ | ⟨rfl, a, l, rfl⟩ | ⟨rfl, a, l, t, rfl⟩ <;>
    rcases hk' with rfl | rfl | rfl | ⟨h1, h2, h3⟩ <;> cases pass <;>
    first
    | (simp [fits] at hf; done)
    | (unfold fits at hf; split at hf <;> simp_all; done)
    | (cases lon <;> cases tmp <;>
        simp_all [fits, nbWrap, wrapVec, Vec.withMom, Vec.lonEl, Vec.tmpEl, VT.dim] <;>
        (try (cases h; simp)))

private theorem fits_mono (kind : RKind) (k : Nat) (pass : Bool) (dim : Nat) (ls : Bool)
    (h : fits kind k pass dim true = true) (hl : k = 2 ∨ k = 3 → ls = true) : fits kind k pass dim ls = true := by
  unfold fits at h ⊢
  split <;> simp_all

private theorem mapM_some_mem {α β : Type} (f : α → Option β) : ∀ (l : List α) (ys : List β), l.mapM f = some ys →
    ∀ x ∈ l, ∃ y, f x = some y := by
  intro l
  induction l with
  | nil => intro ys _ x hx; cases hx
  | cons a l ih =>
    intro ys h x hx
    rw [List.mapM_cons] at h
    cases ha : f a with
    | none => rw [ha] at h; cases h
    | some b =>
      rw [ha] at h
      cases hl : l.mapM f with
      | none => rw [hl] at h; cases h
      | some bs =>
        rcases List.mem_cons.mp hx with rfl | hx
        · exact ⟨b, ha⟩
        · exact ih bs hl x hx

/-- an operand from which numba's lookup read two or three coordinate groups has a longitudinal coordinate -/
private theorem lookup_lon (ev : Ev S B) (m : ModuleId) (sc : List S) (ord : Option Ord) (ops : List (Vec S × Nat))
    (x : Out S B × Ret) (h : nbLookup ev m sc ord ops = some x) (v : Vec S) (k : Nat) (hm : (v, k) ∈ ops)
    (hk : k = 2 ∨ k = 3) : v.ty.lon.isSome = true := by
  unfold nbLookup at h
  split at h
  · cases h
  · rename_i parts hp
    obtain ⟨y, hy⟩ := mapM_some_mem _ _ _ hp _ hm
    simp only at hy
    unfold operandKey at hy
    rcases hk with rfl | rfl <;> (cases hl : v.ty.lon <;> simp_all)

/-- vector results: the compiled construction of the overload gives the interpreter's vector, with the overload's flavor -/
private theorem vec_of_wrap (hd : Vec S) (mom mom' : Bool) (out : Out S B) (ret : Ret) (kind : RKind) (k : Nat) (pass : Bool)
    (r : Res S B) (hbe : hd.ty.be = .obj) (hk : retKind ret = some kind)
    (hf : fits kind k pass hd.ty.dim hd.ty.lon.isSome = true)
    (h : wrapResult hd hd.ty.be mom out ret = .ok r) :
    ∃ rv, r = .vec rv ∧ nbVecRes hd mom' k pass out ret = .ok (.vec (rv.withMom mom')) ∧ rv.ty.mom = mom ∧
      rv.ty.be = .obj := by
  cases ret with
  | float => simp [retKind] at hk; subst hk; simp [fits] at hf
  | bool => simp [retKind] at hk; subst hk; simp [fits] at hf
  | vec parts =>
    cases out with
    | truth b => simp [wrapResult] at h
    | vals raw =>
      simp only [wrapResult] at h
      cases hw : wrapVec hd hd.ty.be mom raw parts with
      | error e => rw [hw] at h; cases h
      | ok rv =>
        rw [hw] at h
        obtain ⟨h1, h2, h3⟩ := wrap_nb hd mom mom' raw parts kind k pass rv hbe hk hf hw
        refine ⟨rv, ?_, ?_, h2, h3⟩
        · simpa [Except.map] using h.symm
        · simp [nbVecRes, h1, Except.map]

/-- general form for vector-valued dispatches -/
private theorem gen_vec (ev : Ev S B) (hev : EvTables ev) (m : ModuleId) (sc : List S) (ord : Option Ord)
    (ops counted : List (Vec S)) (hd : Vec S) (k : Nat) (pass : Bool) (mom' : Bool) (r : Res S B)
    (hh : handlerOf counted = some hd) (hbe : hd.ty.be = .obj)
    (hmem : k = 1 ∨ ∃ k', (k' = 2 ∨ k' = 3) ∧ (hd, k') ∈ ops.zip (operandSlots m.info.shape))
    (hf : fits m.kind k pass hd.ty.dim true = true)
    (h : dispatch ev m sc ord ops counted = .ok r) :
    ∃ out ret rv, nbLookup ev m sc ord (ops.zip (operandSlots m.info.shape)) = some (out, ret) ∧ r = .vec rv ∧
      nbVecRes hd mom' k pass out ret = .ok (.vec (rv.withMom mom')) ∧ rv.ty.mom = counted.any (·.ty.mom) ∧
      rv.ty.be = .obj := by
  obtain ⟨out, ret, hd', hl, hk, hh', hw⟩ := disp_nb ev hev m sc ord ops counted r h
  rw [hh] at hh'; cases hh'
  have hf' : fits m.kind k pass hd.ty.dim hd.ty.lon.isSome = true := by
    apply fits_mono _ _ _ _ _ hf
    intro hk23
    rcases hmem with rfl | ⟨k', hk', hmem⟩
    · omega
    · exact lookup_lon ev m sc ord _ _ hl hd k' hmem hk'
  obtain ⟨rv, h1, h2, h3, h4⟩ := vec_of_wrap hd _ mom' out ret m.kind k pass r hbe hk hf' hw
  exact ⟨out, ret, rv, hl, h1, h2, h3, h4⟩

/-- general form for scalar- and truth-valued dispatches -/
private theorem gen_scalar (ev : Ev S B) (hev : EvTables ev) (m : ModuleId) (sc : List S) (ord : Option Ord)
    (ops counted : List (Vec S)) (r : Res S B) (hkind : m.kind = .float ∨ m.kind = .bool)
    (h : dispatch ev m sc ord ops counted = .ok r) :
    ∃ out ret, nbLookup ev m sc ord (ops.zip (operandSlots m.info.shape)) = some (out, ret) ∧
      nbScalarRes out ret = .ok r := by
  obtain ⟨out, ret, hd', hl, hk, hh', hw⟩ := disp_nb ev hev m sc ord ops counted r h
  exact ⟨out, ret, hl, scalar_of_wrap _ _ _ _ _ _ _ hk hkind hw⟩

-- split `x ∈ [a, b, …]` into one goal per element
set_option hygiene false in
macro "each_mem" h:ident : tactic =>
  `(tactic| (simp only [List.mem_cons, List.mem_nil_iff, or_false] at $h:ident
             repeat' (first | (rcases $h:ident with rfl | $h:ident) | subst $h:ident)))

/-- the guard of `numbaCall`: object vectors only -/
def nbGuard (self : Vec S) (args : List (Arg S)) : Bool := self.ty.be != .obj || !args.all Arg.isObj

private theorem nbGuard_nil (self : Vec S) (hbe : self.ty.be = .obj) : nbGuard self [] = false := by
  simp [nbGuard, hbe]

/-! ### 1. (a) AGREEMENT — properties -/

/-- every accessor-like property: the compiled code evaluates the same compute module on the same key and coordinates
and returns the same value -/
theorem c07_prop_agree (ev : Ev S B) (hev : EvTables ev) (a : Acc) (v : Vec S) (r : Res S B)
    (h : getAcc ev a v = .ok r) : nbProp ev a v = .ok r := by
  unfold getAcc at h
  unfold nbProp
  split at h
  · cases h
  · rename_i hg
    rw [if_neg hg]
    obtain ⟨out, ret, hl, hs⟩ :=
      gen_scalar ev hev a.mod [] none [v] [v] r (by cases a <;> exact Or.inl rfl) h
    have hz : [v].zip (operandSlots a.mod.info.shape) = [(v, a.need - 1)] := by cases a <;> rfl
    rw [hz] at hl
    rw [hl]
    exact hs

theorem c07_getS_agree (ev : Ev S B) (hev : EvTables ev) (a : Acc) (v : Vec S) (s : S)
    (h : getS ev a v = .ok s) : nbGetS ev a v = .ok s := by
  unfold getS at h
  unfold nbGetS
  cases hg : getAcc ev a v with
  | error e => rw [hg] at h; cases h
  | ok r => rw [hg] at h; rw [c07_prop_agree ev hev a v r hg]; exact h

/-- the 23 generic property names -/
def c07_accNames : List (String × Acc) :=
  [("x", .x), ("y", .y), ("rho", .rho), ("rho2", .rho2), ("phi", .phi), ("z", .z), ("theta", .theta), ("eta", .eta),
   ("costheta", .costheta), ("cottheta", .cottheta), ("mag", .mag), ("mag2", .mag2), ("t", .t), ("t2", .t2),
   ("tau", .tau), ("tau2", .tau2), ("beta", .beta), ("gamma", .gamma), ("rapidity", .rapidity),
   ("Et", .Et), ("Et2", .Et2), ("Mt", .Mt), ("Mt2", .Mt2)]

/-- the 20 momentum spellings numba defines -/
def c07_momNames : List (String × Acc) :=
  [("px", .x), ("py", .y), ("pt", .rho), ("pt2", .rho2), ("pz", .z), ("pseudorapidity", .eta), ("p", .mag), ("p2", .mag2),
   ("E", .t), ("energy", .t), ("E2", .t2), ("energy2", .t2), ("M", .tau), ("mass", .tau), ("M2", .tau2), ("mass2", .tau2),
   ("transverse_energy", .Et), ("transverse_energy2", .Et2), ("transverse_mass", .Mt), ("transverse_mass2", .Mt2)]

private theorem acc_step (ev : Ev S B) (hev : EvTables ev) (self : Vec S) (r : Res S B) (hbe : self.ty.be = .obj) (a : Acc)
    (c n : Except Err (Res S B)) (hc : c = getAcc ev a self)
    (hn : n = if nbGuard self [] = true then .error .unmodelled else nbProp ev a self) (h : c = .ok r) : n = .ok r := by
  rw [hn, nbGuard_nil self hbe]
  rw [hc] at h
  simpa using c07_prop_agree ev hev a self r h

/-- string level: reading a generic property name in compiled code gives what the interpreter gives -/
theorem c07_acc_agree (ev : Ev S B) (hev : EvTables ev) (K : Consts S) (A : Arith S) (self : Vec S) (r : Res S B)
    (hbe : self.ty.be = .obj) (p : String × Acc) (hp : p ∈ c07_accNames)
    (h : call ev K A p.1 self [] = .ok r) : numbaCall ev K A p.1 self [] = .ok r := by
  unfold c07_accNames at hp
  each_mem hp
  all_goals exact acc_step ev hev self r hbe _ _ _ rfl rfl h

private theorem mom_step (ev : Ev S B) (hev : EvTables ev) (self : Vec S) (r : Res S B) (hbe : self.ty.be = .obj) (a : Acc)
    (c n : Except Err (Res S B))
    (hc : c = if !self.ty.mom then .error .attributeError else
              if self.ty.dim < a.need then .error .attributeError else getAcc ev a self)
    (hn : n = if nbGuard self [] = true then .error .unmodelled else
              if !self.ty.mom then .error .typeError else nbProp ev a self) (h : c = .ok r) : n = .ok r := by
  rw [hn, nbGuard_nil self hbe]
  rw [hc] at h
  cases hm : self.ty.mom
  · simp [hm] at h
  · simp only [hm, Bool.not_true, Bool.false_eq_true, if_false] at h ⊢
    split at h
    · cases h
    · exact c07_prop_agree ev hev a self r h

/-- string level: the momentum spellings numba defines agree with the interpreter -/
theorem c07_mom_agree (ev : Ev S B) (hev : EvTables ev) (K : Consts S) (A : Arith S) (self : Vec S) (r : Res S B)
    (hbe : self.ty.be = .obj) (p : String × Acc) (hp : p ∈ c07_momNames)
    (h : call ev K A p.1 self [] = .ok r) : numbaCall ev K A p.1 self [] = .ok r := by
  unfold c07_momNames at hp
  each_mem hp
  all_goals exact mom_step ev hev self r hbe _ _ _ rfl rfl h

/-! ### 2. (a) AGREEMENT — one-vector methods whose result has the class of `self` -/

/-- enum level: a method of one vector whose first `k` coordinate groups are computed by a module of the matching kind
(planar → `az`, spatial → `az, lon`, lorentz → `az, lon, tmp`) and whose other stored coordinates are passed through: the
compiled code gives the interpreter's vector — same class, flavor, coordinate system and coordinates -/
theorem c07_self_agree (ev : Ev S B) (hev : EvTables ev) (m : ModuleId) (sc : List S) (ord : Option Ord) (v : Vec S)
    (k : Nat) (r : Res S B) (hbe : v.ty.be = .obj) (hs : operandSlots m.info.shape = [k])
    (hf : fits m.kind k true v.ty.dim true = true) (h : dispatch ev m sc ord [v] [v] = .ok r) :
    nbSelf ev m sc ord v k = .ok r := by
  obtain ⟨out, ret, rv, hl, rfl, hv, hm, _⟩ :=
    gen_vec ev hev m sc ord [v] [v] v k true v.ty.mom r (handler_single v) hbe
      (by
        rw [hs]
        by_cases h1 : k = 1
        · exact Or.inl h1
        · refine Or.inr ⟨k, ?_, by simp⟩
          unfold fits at hf
          split at hf <;> simp_all) hf h
  rw [hs] at hl
  simp only [List.zip_cons_cons, List.zip_nil_right] at hl
  unfold nbSelf
  rw [hl]
  simp only [List.any_cons, List.any_nil, Bool.or_false] at hm
  simp only []
  rw [hv, ← hm]
  rfl

/-- the interpreter's and numba's guard + dispatch of such a method -/
def callU (ev : Ev S B) (self : Vec S) (m : ModuleId) (need : Nat) (sc : List S) (ord : Option Ord) :
    Except Err (Res S B) :=
  if self.ty.dim < need then .error .attributeError else dispatch ev m sc ord [self] [self]

def nbU (ev : Ev S B) (self : Vec S) (m : ModuleId) (k : Nat) (sc : List S) (ord : Option Ord) : Except Err (Res S B) :=
  if self.ty.dim < k + 1 then .error .typeError else nbSelf ev m sc ord self k

theorem c07_U_agree (ev : Ev S B) (hev : EvTables ev) (m : ModuleId) (sc : List S) (ord : Option Ord) (self : Vec S)
    (k : Nat) (r : Res S B) (hbe : self.ty.be = .obj) (hs : operandSlots m.info.shape = [k])
    (hf : fits m.kind k true 0 true = true) (h : callU ev self m (k + 1) sc ord = .ok r) :
    nbU ev self m k sc ord = .ok r := by
  unfold callU at h
  unfold nbU
  split at h
  · cases h
  · rename_i hd
    rw [if_neg hd]
    refine c07_self_agree ev hev m sc ord self k r hbe hs ?_ h
    unfold fits at hf ⊢
    split <;> simp_all

private theorem self_step (ev : Ev S B) (hev : EvTables ev) (self : Vec S) (args : List (Arg S)) (r : Res S B)
    (m : ModuleId) (k : Nat) (sc : List S) (ord : Option Ord) (c n : Except Err (Res S B))
    (hc : c = callU ev self m (k + 1) sc ord)
    (hn : n = if nbGuard self args = true then .error .unmodelled else nbU ev self m k sc ord)
    (hg : nbGuard self args = false) (hbe : self.ty.be = .obj) (hs : operandSlots m.info.shape = [k])
    (hf : fits m.kind k true 0 true = true) (h : c = .ok r) : n = .ok r := by
  rw [hn, hg]
  rw [hc] at h
  simpa using c07_U_agree ev hev m sc ord self k r hbe hs hf h

/-- the one-vector methods with result of the class of `self`:
(name, arguments, compute module, number of computed coordinate groups, scalar arguments in compute order, Euler order) -/
def c07_selfMethods (K : Consts S) (a b c d : S) :
    List (String × List (Arg S) × ModuleId × Nat × List S × Option Ord) :=
  [("rotateZ", [.sc a], .planar_rotateZ, 1, [a], none),
   ("rotateX", [.sc a], .spatial_rotateX, 2, [a], none),
   ("rotateY", [.sc a], .spatial_rotateY, 2, [a], none),
   ("rotate_euler", [.sc a, .sc b, .sc c], .spatial_rotate_euler, 2, [a, b, c], some .zxz),
   ("rotate_nautical", [.sc a, .sc b, .sc c], .spatial_rotate_euler, 2, [c, b, a], some .zyx),
   ("rotate_quaternion", [.sc a, .sc b, .sc c, .sc d], .spatial_rotate_quaternion, 2, [a, b, c, d], none),
   ("scale2D", [.sc a], .planar_scale, 1, [a], none),
   ("scale3D", [.sc a], .spatial_scale, 2, [a], none),
   ("scale4D", [.sc a], .lorentz_scale, 3, [a], none),
   ("neg2D", [], .planar_scale, 1, [K.negOne], none),
   ("neg3D", [], .spatial_scale, 2, [K.negOne], none),
   ("neg4D", [], .lorentz_scale, 3, [K.negOne], none),
   ("boostX", [.sc a], .lorentz_boostX_beta, 3, [a], none),
   ("boostY", [.sc a], .lorentz_boostY_beta, 3, [a], none),
   ("boostZ", [.sc a], .lorentz_boostZ_beta, 3, [a], none),
   ("boostX", [.kw "beta" a], .lorentz_boostX_beta, 3, [a], none),
   ("boostY", [.kw "beta" a], .lorentz_boostY_beta, 3, [a], none),
   ("boostZ", [.kw "beta" a], .lorentz_boostZ_beta, 3, [a], none),
   ("boostX", [.kw "gamma" a], .lorentz_boostX_gamma, 3, [a], none),
   ("boostY", [.kw "gamma" a], .lorentz_boostY_gamma, 3, [a], none),
   ("boostZ", [.kw "gamma" a], .lorentz_boostZ_gamma, 3, [a], none)]

/-- string level: each of these methods, compiled, uses the module, key, argument order of the interpreter and returns the
same vector (same class, flavor, dimension, coordinate system, coordinates) whenever the interpreter succeeds -/
theorem c07_selfMethods_agree (ev : Ev S B) (hev : EvTables ev) (K : Consts S) (A : Arith S) (self : Vec S)
    (a b c d : S) (r : Res S B) (hbe : self.ty.be = .obj)
    (e : String × List (Arg S) × ModuleId × Nat × List S × Option Ord) (he : e ∈ c07_selfMethods K a b c d)
    (h : call ev K A e.1 self e.2.1 = .ok r) : numbaCall ev K A e.1 self e.2.1 = .ok r := by
  unfold c07_selfMethods at he
  each_mem he
  all_goals
    exact self_step ev hev self _ r _ _ _ _ _ _ rfl rfl (by simp [nbGuard, hbe, Arg.isObj]) hbe rfl rfl h

/-- `scale2D` / `scale3D` / `scale4D` at the enum level -/
theorem c07_scaleN_agree (ev : Ev S B) (hev : EvTables ev) (n : Nat) (hn : n = 2 ∨ n = 3 ∨ n = 4) (f : S) (v : Vec S)
    (r : Res S B) (hbe : v.ty.be = .obj) (h : scaleN ev n f v = .ok r) : nbScaleN ev n f v = .ok r := by
  rcases hn with rfl | rfl | rfl
  · exact c07_U_agree ev hev .planar_scale [f] none v 1 r hbe rfl rfl h
  · exact c07_U_agree ev hev .spatial_scale [f] none v 2 r hbe rfl rfl h
  · exact c07_U_agree ev hev .lorentz_scale [f] none v 3 r hbe rfl rfl h

/-- `scale` (hence `*`, `/`, unary `-`): the module of the vector's own dimension -/
theorem c07_scale_agree (ev : Ev S B) (hev : EvTables ev) (K : Consts S) (A : Arith S) (self : Vec S) (f : S)
    (r : Res S B) (hbe : self.ty.be = .obj) (h : call ev K A "scale" self [.sc f] = .ok r) :
    numbaCall ev K A "scale" self [.sc f] = .ok r := by
  have e1 : call ev K A "scale" self [.sc f] = scaleN ev self.ty.dim f self := rfl
  have e2 : numbaCall ev K A "scale" self [.sc f] =
      if nbGuard self [.sc f] = true then .error .unmodelled else nbScaleN ev self.ty.dim f self := rfl
  have hg : nbGuard self [.sc f] = false := by simp [nbGuard, hbe, Arg.isObj]
  rw [e2, hg]
  rw [e1] at h
  simpa using c07_scaleN_agree ev hev _ (c05_dim_range self.ty) f self r hbe h

/-- `unit`: the module of the vector's own dimension -/
theorem c07_unit_agree (ev : Ev S B) (hev : EvTables ev) (K : Consts S) (A : Arith S) (self : Vec S)
    (r : Res S B) (hbe : self.ty.be = .obj) (h : call ev K A "unit" self [] = .ok r) :
    numbaCall ev K A "unit" self [] = .ok r := by
  have e1 : call ev K A "unit" self [] = callU ev self (unitMod self.ty.dim) 2 [] none := rfl
  have e2 : numbaCall ev K A "unit" self [] =
      if nbGuard self [] = true then .error .unmodelled else
        nbU ev self (unitMod self.ty.dim) (self.ty.dim - 1) [] none := rfl
  rw [e2, nbGuard_nil self hbe]
  rw [e1] at h
  unfold callU at h
  unfold nbU
  have hd2 : ¬ self.ty.dim < 2 := by rcases c05_dim_range self.ty with hd | hd | hd <;> omega
  rw [if_neg hd2] at h
  have hd3 : ¬ self.ty.dim < self.ty.dim - 1 + 1 := by omega
  simp only [Bool.false_eq_true, if_false, if_neg hd3]
  rcases c05_dim_range self.ty with hd | hd | hd
  · rw [hd] at h ⊢
    exact c07_self_agree ev hev .planar_unit [] none self 1 r hbe rfl rfl h
  · rw [hd] at h ⊢
    exact c07_self_agree ev hev .spatial_unit [] none self 2 r hbe rfl rfl h
  · rw [hd] at h ⊢
    exact c07_self_agree ev hev .lorentz_unit [] none self 3 r hbe rfl rfl h

/-- `rotate_euler` with an explicit order string that is one of the twelve LOWER-CASE names -/
theorem c07_rotate_euler_ord_agree (ev : Ev S B) (hev : EvTables ev) (K : Consts S) (A : Arith S) (self : Vec S)
    (p t q : S) (s : String) (o : Ord) (r : Res S B) (hbe : self.ty.be = .obj)
    (ho : ordOf s = some o) (hnb : nbOrdOf s = some o)
    (h : call ev K A "rotate_euler" self [.sc p, .sc t, .sc q, .str s] = .ok r) :
    numbaCall ev K A "rotate_euler" self [.sc p, .sc t, .sc q, .str s] = .ok r := by
  have e1 : call ev K A "rotate_euler" self [.sc p, .sc t, .sc q, .str s] =
      if self.ty.dim < 3 then .error .attributeError else
        match ordOf s with
        | some o => callU ev self .spatial_rotate_euler 3 [p, t, q] (some o)
        | none => .error .typeError := rfl
  have e2 : numbaCall ev K A "rotate_euler" self [.sc p, .sc t, .sc q, .str s] =
      if nbGuard self [.sc p, .sc t, .sc q, .str s] = true then .error .unmodelled else
      if self.ty.dim < 3 then .error .typeError else
        match nbOrdOf s with
        | some o => nbU ev self .spatial_rotate_euler 2 [p, t, q] (some o)
        | none => .error .typeError := rfl
  have hg : nbGuard self [.sc p, .sc t, .sc q, .str s] = false := by simp [nbGuard, hbe, Arg.isObj]
  rw [e2, hg, hnb]
  rw [e1, ho] at h
  split at h
  · cases h
  · rename_i hd
    simp only [Bool.false_eq_true, if_false, if_neg hd]
    exact c07_U_agree ev hev .spatial_rotate_euler [p, t, q] (some o) self 2 r hbe rfl rfl h

/-- the twelve lower-case order names are accepted by the compiled code -/
theorem c07_nbOrdOf_str (o : Ord) : nbOrdOf o.str = some o := by cases o <;> decide

private theorem filterMap_sc (l : List S) :
    (l.map (Arg.sc (S := S))).filterMap (fun a => match a with | .sc s => some s | _ => none) = l := by
  induction l with
  | nil => rfl
  | cons x xs ih => simp only [List.map_cons, List.filterMap_cons]; rw [ih]

/-- `transform2D` / `transform3D` / `transform4D` with the matrix elements in row-major order -/
theorem c07_transform_agree (ev : Ev S B) (hev : EvTables ev) (K : Consts S) (A : Arith S) (self : Vec S)
    (l : List S) (r : Res S B) (hbe : self.ty.be = .obj)
    (e : String × Nat × ModuleId × Nat)
    (he : e ∈ [("transform2D", 4, ModuleId.planar_transform2D, 1), ("transform3D", 9, .spatial_transform3D, 2),
               ("transform4D", 16, .lorentz_transform4D, 3)])
    (hl : l.length = e.2.1)
    (h : call ev K A e.1 self (l.map Arg.sc) = .ok r) : numbaCall ev K A e.1 self (l.map Arg.sc) = .ok r := by
  have hfm := filterMap_sc l
  have hg : nbGuard self (l.map Arg.sc) = false := by
    simp [nbGuard, hbe, List.all_map, Arg.isObj]
  each_mem he
  · have e1 : call ev K A "transform2D" self (l.map Arg.sc) =
        if self.ty.dim < 2 then .error .attributeError else
        if ((l.map (Arg.sc (S := S))).filterMap (fun a => match a with | .sc s => some s | _ => none)).length != 4
          then .error .typeError
        else dispatch ev .planar_transform2D
          ((l.map (Arg.sc (S := S))).filterMap (fun a => match a with | .sc s => some s | _ => none)) none [self] [self] := rfl
    have e2 : numbaCall ev K A "transform2D" self (l.map Arg.sc) =
        if nbGuard self (l.map Arg.sc) = true then .error .unmodelled else
        if self.ty.dim < 1 + 1 then .error .typeError else
        if ((l.map (Arg.sc (S := S))).filterMap (fun a => match a with | .sc s => some s | _ => none)).length != 4
            || (l.map (Arg.sc (S := S))).length != 4 then .error .typeError
        else nbSelf ev .planar_transform2D
          ((l.map (Arg.sc (S := S))).filterMap (fun a => match a with | .sc s => some s | _ => none)) none self 1 := rfl
    rw [e2, hg]; rw [e1] at h
    simp only [hfm, List.length_map] at h ⊢
    simp only at hl
    split at h
    · cases h
    · rename_i hd
      simp only [hl, bne_self_eq_false, Bool.false_eq_true, if_false, Bool.or_self] at h ⊢
      rw [if_neg (by omega)]
      exact c07_self_agree ev hev .planar_transform2D l none self 1 r hbe rfl rfl h
  · have e1 : call ev K A "transform3D" self (l.map Arg.sc) =
        if self.ty.dim < 3 then .error .attributeError else
        if ((l.map (Arg.sc (S := S))).filterMap (fun a => match a with | .sc s => some s | _ => none)).length != 9
          then .error .typeError
        else dispatch ev .spatial_transform3D
          ((l.map (Arg.sc (S := S))).filterMap (fun a => match a with | .sc s => some s | _ => none)) none [self] [self] := rfl
    have e2 : numbaCall ev K A "transform3D" self (l.map Arg.sc) =
        if nbGuard self (l.map Arg.sc) = true then .error .unmodelled else
        if self.ty.dim < 2 + 1 then .error .typeError else
        if ((l.map (Arg.sc (S := S))).filterMap (fun a => match a with | .sc s => some s | _ => none)).length != 9
            || (l.map (Arg.sc (S := S))).length != 9 then .error .typeError
        else nbSelf ev .spatial_transform3D
          ((l.map (Arg.sc (S := S))).filterMap (fun a => match a with | .sc s => some s | _ => none)) none self 2 := rfl
    rw [e2, hg]; rw [e1] at h
    simp only [hfm, List.length_map] at h ⊢
    simp only at hl
    split at h
    · cases h
    · rename_i hd
      simp only [hl, bne_self_eq_false, Bool.false_eq_true, if_false, Bool.or_self] at h ⊢
      rw [if_neg (by omega)]
      exact c07_self_agree ev hev .spatial_transform3D l none self 2 r hbe rfl rfl h
  · have e1 : call ev K A "transform4D" self (l.map Arg.sc) =
        if self.ty.dim < 4 then .error .attributeError else
        if ((l.map (Arg.sc (S := S))).filterMap (fun a => match a with | .sc s => some s | _ => none)).length != 16
          then .error .typeError
        else dispatch ev .lorentz_transform4D
          ((l.map (Arg.sc (S := S))).filterMap (fun a => match a with | .sc s => some s | _ => none)) none [self] [self] := rfl
    have e2 : numbaCall ev K A "transform4D" self (l.map Arg.sc) =
        if nbGuard self (l.map Arg.sc) = true then .error .unmodelled else
        if self.ty.dim < 3 + 1 then .error .typeError else
        if ((l.map (Arg.sc (S := S))).filterMap (fun a => match a with | .sc s => some s | _ => none)).length != 16
            || (l.map (Arg.sc (S := S))).length != 16 then .error .typeError
        else nbSelf ev .lorentz_transform4D
          ((l.map (Arg.sc (S := S))).filterMap (fun a => match a with | .sc s => some s | _ => none)) none self 3 := rfl
    rw [e2, hg]; rw [e1] at h
    simp only [hfm, List.length_map] at h ⊢
    simp only at hl
    split at h
    · cases h
    · rename_i hd
      simp only [hl, bne_self_eq_false, Bool.false_eq_true, if_false, Bool.or_self] at h ⊢
      rw [if_neg (by omega)]
      exact c07_self_agree ev hev .lorentz_transform4D l none self 3 r hbe rfl rfl h

/-! ### 3. (a) AGREEMENT — predicates of the 4D class, `to_beta3` -/

/-- numba's predicate overloads (`is_timelike`, `is_spacelike`, `is_lightlike`) -/
def nbP (ev : Ev S B) (self : Vec S) (m : ModuleId) (sc : List S) : Except Err (Res S B) :=
  if self.ty.dim < 4 then .error .typeError else
  match nbLookup ev m sc none [(self, 3)] with
  | none => .error .typeError
  | some (out, ret) => nbScalarRes out ret

private theorem pred_step (ev : Ev S B) (hev : EvTables ev) (self : Vec S) (args : List (Arg S)) (r : Res S B)
    (m : ModuleId) (sc : List S) (c n : Except Err (Res S B))
    (hc : c = callU ev self m 4 sc none)
    (hn : n = if nbGuard self args = true then .error .unmodelled else nbP ev self m sc)
    (hg : nbGuard self args = false) (hs : operandSlots m.info.shape = [3])
    (hk : m.kind = .float ∨ m.kind = .bool) (h : c = .ok r) : n = .ok r := by
  rw [hn, hg]
  rw [hc] at h
  unfold callU at h
  unfold nbP
  split at h
  · cases h
  · rename_i hd
    simp only [Bool.false_eq_true, if_false, if_neg hd]
    obtain ⟨out, ret, hl, hr⟩ := gen_scalar ev hev m sc none [self] [self] r hk h
    rw [hs] at hl
    simp only [List.zip_cons_cons, List.zip_nil_right] at hl
    rw [hl]
    exact hr

/-- `is_timelike`, `is_spacelike`, `is_lightlike` with the default and with an explicit tolerance:
(name, arguments, module, scalar arguments) -/
def c07_predicates (K : Consts S) (t : S) : List (String × List (Arg S) × ModuleId × List S) :=
  [("is_timelike", [], .lorentz_is_timelike, [K.zeroI]), ("is_spacelike", [], .lorentz_is_spacelike, [K.zeroI]),
   ("is_lightlike", [], .lorentz_is_lightlike, [K.tol]),
   ("is_timelike", [.sc t], .lorentz_is_timelike, [t]), ("is_spacelike", [.sc t], .lorentz_is_spacelike, [t]),
   ("is_lightlike", [.sc t], .lorentz_is_lightlike, [t])]

theorem c07_predicates_agree (ev : Ev S B) (hev : EvTables ev) (K : Consts S) (A : Arith S) (self : Vec S) (t : S)
    (r : Res S B) (hbe : self.ty.be = .obj) (e : String × List (Arg S) × ModuleId × List S)
    (he : e ∈ c07_predicates K t) (h : call ev K A e.1 self e.2.1 = .ok r) :
    numbaCall ev K A e.1 self e.2.1 = .ok r := by
  unfold c07_predicates at he
  each_mem he
  all_goals
    exact pred_step ev hev self _ r _ _ _ _ rfl rfl (by simp [nbGuard, hbe, Arg.isObj]) rfl (Or.inr rfl) h

/-- `to_beta3`: a 3D vector of the flavor of `self`, built from the first two declared result types -/
theorem c07_to_beta3_agree (ev : Ev S B) (hev : EvTables ev) (K : Consts S) (A : Arith S) (self : Vec S)
    (r : Res S B) (hbe : self.ty.be = .obj) (h : call ev K A "to_beta3" self [] = .ok r) :
    numbaCall ev K A "to_beta3" self [] = .ok r := by
  have e1 : call ev K A "to_beta3" self [] = callU ev self .lorentz_to_beta3 4 [] none := rfl
  have e2 : numbaCall ev K A "to_beta3" self [] =
      if nbGuard self [] = true then .error .unmodelled else
      if self.ty.dim < 4 then .error .typeError else
      match nbLookup ev .lorentz_to_beta3 [] none [(self, 3)] with
      | none => .error .typeError
      | some (out, ret) => nbVecRes self self.ty.mom 2 false out ret := rfl
  rw [e2, nbGuard_nil self hbe]
  rw [e1] at h
  unfold callU at h
  split at h
  · cases h
  · rename_i hd
    simp only [Bool.false_eq_true, if_false, if_neg hd]
    obtain ⟨out, ret, rv, hl, rfl, hv, hm, _⟩ :=
      gen_vec ev hev .lorentz_to_beta3 [] none [self] [self] self 2 false self.ty.mom r (handler_single self) hbe
        (Or.inr ⟨3, Or.inr rfl, by simp [operandSlots, operandSlotsGo, ModuleId.info]⟩) rfl h
    have hz : [self].zip (operandSlots ModuleId.lorentz_to_beta3.info.shape) = [(self, 3)] := rfl
    rw [hz] at hl
    rw [hl]
    simp only [List.any_cons, List.any_nil, Bool.or_false] at hm
    simp only []
    rw [hv, ← hm]
    rfl

/-! ### 4. (a) AGREEMENT — conversions -/

/-- `to_Vector2D`, `to_Vector3D`, `to_Vector4D` without arguments: literally the interpreter's rule (stored coordinates
verbatim, `z = 0.0`, `t = 0.0`, same flavor) -/
theorem c07_to_Vector_agree (ev : Ev S B) (K : Consts S) (A : Arith S) (self : Vec S) (hbe : self.ty.be = .obj)
    (n : String) (hn : n ∈ ["to_Vector2D", "to_Vector3D", "to_Vector4D"]) :
    numbaCall ev K A n self [] = call ev K A n self [] := by
  each_mem hn
  · have e2 : numbaCall ev K A "to_Vector2D" self [] =
        if nbGuard self [] = true then .error .unmodelled else call ev K A "to_Vector2D" self [] := rfl
    rw [e2, nbGuard_nil self hbe]; rfl
  · have e2 : numbaCall ev K A "to_Vector3D" self [] =
        if nbGuard self [] = true then .error .unmodelled else call ev K A "to_Vector3D" self [] := rfl
    rw [e2, nbGuard_nil self hbe]; rfl
  · have e2 : numbaCall ev K A "to_Vector4D" self [] =
        if nbGuard self [] = true then .error .unmodelled else call ev K A "to_Vector4D" self [] := rfl
    rw [e2, nbGuard_nil self hbe]; rfl

/-- "whenever the left computation succeeds, the right one succeeds with the same value" -/
private def Le {α : Type} (a b : Except Err α) : Prop := ∀ r, a = .ok r → b = .ok r

private theorem Le.rfl' {α : Type} (a : Except Err α) : Le a a := fun _ h => h

private theorem Le.bind {α β : Type} (a a' : Except Err α) (f f' : α → Except Err β) (h1 : Le a a')
    (h2 : ∀ x, Le (f x) (f' x)) : Le (a >>= f) (a' >>= f') := by
  intro r h
  cases ha : a with
  | error e => rw [ha] at h; cases h
  | ok x =>
    rw [ha] at h
    rw [h1 x ha]
    exact h2 x r h

private theorem Le.mapM {α β : Type} (f g : α → Except Err β) (hfg : ∀ x, Le (f x) (g x)) :
    ∀ l : List α, Le (l.mapM f) (l.mapM g) := by
  intro l
  induction l with
  | nil => exact Le.rfl' _
  | cons x xs ih =>
    rw [List.mapM_cons, List.mapM_cons]
    refine Le.bind _ _ _ _ (hfg x) (fun y => Le.bind _ _ _ _ ih (fun ys => Le.rfl' _))

/-- the 20 coordinate changes at the enum level: every output coordinate is read through the same accessor module,
a missing group is `0.0` of the requested type, the flavor is kept -/
theorem c07_toSystem_agree (ev : Ev S B) (hev : EvTables ev) (zeroF : S) (v : Vec S) (az : Az) (lon : Option Lon)
    (tmp : Option Tmp) (r : Vec S) (h : toSystem ev zeroF v az lon tmp none none = .ok r) :
    nbToSystem ev zeroF v az lon tmp = .ok r := by
  have hg : ∀ a, Le (getS ev a v) (nbGetS ev a v) := fun a s hs => c07_getS_agree ev hev a v s hs
  revert r h
  show Le _ _
  unfold toSystem nbToSystem
  refine Le.bind _ _ _ _ (Le.mapM _ _ (fun n => hg _) _) (fun azv => ?_)
  by_cases h3 : v.ty.dim ≥ 3 <;> by_cases h4 : v.ty.dim ≥ 4 <;> cases lon <;> cases tmp <;>
    simp only [h3, h4, if_true, if_false] <;>
    repeat (first | exact Le.rfl' _ | exact hg _ | refine Le.bind _ _ _ _ ?_ (fun _ => ?_))

/-- the 20 coordinate changes numba defines, spelled out -/
def c07_toNames : List (String × Az × Option Lon × Option Tmp) :=
  [("to_xy", .xy, none, none), ("to_rhophi", .rhophi, none, none), ("to_xyz", .xy, some .z, none),
   ("to_xytheta", .xy, some .theta, none), ("to_xyeta", .xy, some .eta, none), ("to_rhophiz", .rhophi, some .z, none),
   ("to_rhophitheta", .rhophi, some .theta, none), ("to_rhophieta", .rhophi, some .eta, none), ("to_xyzt", .xy, some .z, some .t),
   ("to_xyztau", .xy, some .z, some .tau), ("to_xythetat", .xy, some .theta, some .t), ("to_xythetatau", .xy, some .theta, some .tau),
   ("to_xyetat", .xy, some .eta, some .t), ("to_xyetatau", .xy, some .eta, some .tau), ("to_rhophizt", .rhophi, some .z, some .t),
   ("to_rhophiztau", .rhophi, some .z, some .tau), ("to_rhophithetat", .rhophi, some .theta, some .t), ("to_rhophithetatau", .rhophi, some .theta, some .tau),
   ("to_rhophietat", .rhophi, some .eta, some .t), ("to_rhophietatau", .rhophi, some .eta, some .tau)]

theorem c07_nbToTable_eq : nbToTable = c07_toNames := by decide

private theorem to_step (ev : Ev S B) (hev : EvTables ev) (K : Consts S) (self : Vec S) (r : Res S B)
    (hbe : self.ty.be = .obj) (az : Az) (lon : Option Lon) (tmp : Option Tmp) (c n : Except Err (Res S B))
    (hc : c = (toSystem ev K.zeroF self az lon tmp none none).map .vec)
    (hn : n = if nbGuard self [] = true then .error .unmodelled else (nbToSystem ev K.zeroF self az lon tmp).map .vec)
    (h : c = .ok r) : n = .ok r := by
  rw [hn, nbGuard_nil self hbe]
  rw [hc] at h
  cases ht : toSystem ev K.zeroF self az lon tmp none none with
  | error e => rw [ht] at h; cases h
  | ok w =>
    rw [ht] at h
    simp only [Bool.false_eq_true, if_false]
    rw [c07_toSystem_agree ev hev K.zeroF self az lon tmp w ht]
    exact h

/-- string level: `to_xy`, `to_rhophi`, `to_xyz`, …, `to_rhophietatau` without arguments -/
theorem c07_to_agree (ev : Ev S B) (hev : EvTables ev) (K : Consts S) (A : Arith S) (self : Vec S) (r : Res S B)
    (hbe : self.ty.be = .obj) (e : String × Az × Option Lon × Option Tmp) (he : e ∈ nbToTable)
    (h : call ev K A e.1 self [] = .ok r) : numbaCall ev K A e.1 self [] = .ok r := by
  rw [c07_nbToTable_eq] at he
  unfold c07_toNames at he
  each_mem he
  all_goals exact to_step ev hev K self r hbe _ _ _ _ _ rfl rfl h

end
end VG
